(* C15 from the text to the value: compositions of the tokenizer theorems (Lex/TokProofs.v) with the parser model
   (Syn/Parse.v), the lowering to the semantic AST (Syn/Lower.v), the reference semantics (Sem/Ref.v) and the
   generator model (Sem/Gen.v), for the value configuration value.New() (Sem/FromText.v). *)
From P2 Require Import Base.Prelude Base.PreludeProofs Lex.Token.
From P2 Require Lex.Tok Lex.TokProofs Syn.Ast Syn.Parse Syn.Full Syn.FullProofs Syn.TextToAst Syn.Lower Sem.FromText.
From P2 Require Import Sem.Syntax Sem.Ref Sem.Gen.
Local Open Scope N_scope.

Notation tokenize := P2.Lex.Tok.tokenize.
Notation string_literal := P2.Lex.Tok.string_literal.
Notation quoted_ident := P2.Lex.Tok.quoted_ident.
Notation ops_ok := P2.Lex.TokProofs.ops_ok.
Notation value_pcfg := P2.Syn.Lower.value_pcfg.
Notation value_ids := P2.Syn.Lower.value_ids.
Notation parse_tokens := P2.Syn.Parse.parse_tokens.
Notation text_ast := P2.Sem.FromText.text_ast.
Notation run_text := P2.Sem.FromText.run_text.

(* ---- a string literal denotes the string it spells *)
Lemma parse_string_token : forall ids s ln,
  parse_tokens value_pcfg ids [mkTok tString s ln] = P2.Syn.Parse.POk (P2.Syn.Ast.AConst (115 :: 58 :: s)).
Proof. intros. vm_compute. reflexivity. Qed.

Lemma string_literal_value_lemma : forall tc known fuel argnames s, ops_ok tc -> P2.Lex.Tok.no_nul s ->
  tokenize tc (string_literal s) = [mkTok tString s 1] /\
  parse_tokens value_pcfg (value_ids argnames) (tokenize tc (string_literal s))
    = P2.Syn.Parse.POk (P2.Syn.Ast.AConst (115 :: 58 :: s)) /\
  text_ast tc argnames (string_literal s) = Some (AConst (VStr s)) /\
  (forall env, eval known (S fuel) env (AConst (VStr s)) = Ok (VStr s)) /\
  run_text tc known (S fuel) [] (string_literal s) [] = Ok (VStr s).
Proof.
  intros tc known fuel argnames s Ho Hn.
  pose proof (P2.Lex.TokProofs.string_literal_roundtrip_lemma tc s Ho Hn) as Ht.
  assert (Hp : forall an, parse_tokens value_pcfg (value_ids an) (tokenize tc (string_literal s))
                 = P2.Syn.Parse.POk (P2.Syn.Ast.AConst (115 :: 58 :: s))).
  { intro an. rewrite Ht. apply parse_string_token. }
  assert (Ha : forall an, text_ast tc an (string_literal s) = Some (AConst (VStr s))).
  { intro an. unfold P2.Sem.FromText.text_ast. rewrite Hp. reflexivity. }
  repeat split; auto.
  unfold P2.Sem.FromText.run_text. rewrite Ha. reflexivity.
Qed.

(* ---- a quoted identifier denotes the name it contains: let 'c' = a; 'c' with argument a *)
Definition ascii_letter (c : N) : bool := ((97 <=? c) && (c <=? 122)) || ((65 <=? c) && (c <=? 90)).
Definition ascii_digit (c : N) : bool := (48 <=? c) && (c <=? 57).
Definition value_tcfg_ascii (comments : bool) : P2.Lex.Tok.tcfg :=
  P2.Sem.FromText.value_tcfg comments ascii_letter ascii_digit.

Import P2.Lex.Tok P2.Lex.TokProofs.

(* the text  let 'c'=a;'c'  as a layout *)
Definition let_quoted_items (c : str) : list item :=
  [ILex [108; 101; 116] [(tKeyWord, [108; 101; 116])]; ISep [SBlank];
   ILex (quoted_ident c) [(tIdent, c)]; ILex [61] [(tOperate, [61])]; ILex [97] [(tIdent, [97])];
   ILex [59] [(tSemicolon, [59])]; ILex (quoted_ident c) [(tIdent, c)]].

Lemma count_lf_quoted : forall c, ~ In 10 c -> count_lf (quoted_ident c) = 0.
Proof.
  intros c H. unfold quoted_ident. rewrite count_lf_cons, count_lf_app. cbn.
  induction c as [|x c IH]; [reflexivity|]. rewrite count_lf_cons.
  destruct (N.eqb_spec x 10); [exfalso; apply H; left; auto|]. apply IH. intro Hi. apply H. right. exact Hi.
Qed.

Lemma let_quoted_wf : forall cm c, ~ In 0 c -> ~ In 39 c -> ~ In 10 c ->
  wf_layout (value_tcfg_ascii cm) tInvalid false (let_quoted_items c).
Proof.
  intros cm c H0 H39 H10. pose proof (P2.Sem.FromText.value_ops_ok cm ascii_letter ascii_digit) as Ho.
  fold (value_tcfg_ascii cm) in Ho. unfold let_quoted_items.
  destruct cm.
  - eapply wf_lex; [exact (lexeme_word _ tInvalid false 108 [101; 116] Ho eq_refl eq_refl eq_refl eq_refl eq_refl)
                   |reflexivity|intro ln; right; reflexivity|].
    eapply wf_sep; [reflexivity|].
    eapply wf_lex; [exact (lexeme_quoted _ tInvalid true c Ho H0 H39)|apply count_lf_quoted; assumption|exact I|].
    eapply wf_lex; [exact (lexeme_operator _ tInvalid false 61 [] Ho eq_refl eq_refl eq_refl eq_refl)
                   |reflexivity|split; [reflexivity|intro ln; reflexivity]|].
    eapply wf_lex; [exact (lexeme_word _ tInvalid false 97 [] Ho eq_refl eq_refl eq_refl eq_refl eq_refl)
                   |reflexivity|intro ln; right; reflexivity|].
    eapply wf_lex; [exact (lexeme_punct _ tInvalid false 59 tSemicolon Ho eq_refl)|reflexivity|exact I|].
    eapply wf_lex; [exact (lexeme_quoted _ tInvalid false c Ho H0 H39)|apply count_lf_quoted; assumption|exact I|].
    apply wf_nil.
  - eapply wf_lex; [exact (lexeme_word _ tInvalid false 108 [101; 116] Ho eq_refl eq_refl eq_refl eq_refl eq_refl)
                   |reflexivity|intro ln; right; reflexivity|].
    eapply wf_sep; [reflexivity|].
    eapply wf_lex; [exact (lexeme_quoted _ tInvalid true c Ho H0 H39)|apply count_lf_quoted; assumption|exact I|].
    eapply wf_lex; [exact (lexeme_operator _ tInvalid false 61 [] Ho eq_refl eq_refl eq_refl eq_refl)
                   |reflexivity|split; [reflexivity|intro ln; reflexivity]|].
    eapply wf_lex; [exact (lexeme_word _ tInvalid false 97 [] Ho eq_refl eq_refl eq_refl eq_refl eq_refl)
                   |reflexivity|intro ln; right; reflexivity|].
    eapply wf_lex; [exact (lexeme_punct _ tInvalid false 59 tSemicolon Ho eq_refl)|reflexivity|exact I|].
    eapply wf_lex; [exact (lexeme_quoted _ tInvalid false c Ho H0 H39)|apply count_lf_quoted; assumption|exact I|].
    apply wf_nil.
Qed.

Lemma resolve_let_name : forall ids c,
  P2.Syn.Parse.resolve (P2.Syn.Parse.id_var c :: ids) c = Some (P2.Syn.Ast.AIdent c false).
Proof.
  intros ids c. unfold P2.Syn.Parse.resolve, P2.Syn.Parse.id_var.
  cbn [P2.Syn.Parse.lookup P2.Syn.Parse.id_name P2.Syn.Parse.id_plain]. rewrite str_eqb_refl. reflexivity.
Qed.

Lemma resolve_arg_a : P2.Syn.Parse.resolve (value_ids [[97]]) [97] = Some (P2.Syn.Ast.AIdent [97] false).
Proof. reflexivity. Qed.

Lemma let_quoted_erase : forall c, exists u,
  P2.Syn.Full.ferase value_pcfg (value_ids [[97]]) (P2.Syn.Full.FLet c (P2.Syn.Full.FIdent [97]) (P2.Syn.Full.FIdent c))
  = Some (P2.Syn.Ast.ALet c (P2.Syn.Ast.AIdent [97] false) (P2.Syn.Ast.AIdent c false), u).
Proof.
  intros c. eexists. cbn [P2.Syn.Full.ferase]. rewrite resolve_arg_a.
  cbn [P2.Syn.Ast.is_const]. rewrite resolve_let_name. reflexivity.
Qed.

Lemma let_quoted_text : forall c,
  layout_text (let_quoted_items c) = [108; 101; 116; 32] ++ quoted_ident c ++ [61; 97; 59] ++ quoted_ident c.
Proof.
  intros c. unfold layout_text, let_quoted_items. cbn [flat_map item_text seps_text sep_text app].
  rewrite app_nil_r. reflexivity.
Qed.

Lemma quoted_ident_denotes_lemma : forall cm known fuel c v, ~ In 0 c -> ~ In 39 c -> ~ In 10 c ->
  let tc := value_tcfg_ascii cm in
  let text := [108; 101; 116; 32] ++ quoted_ident c ++ [61; 97; 59] ++ quoted_ident c in
  map strip_line (tokenize tc text)
    = [(tKeyWord, [108; 101; 116]); (tIdent, c); (tOperate, [61]); (tIdent, [97]); (tSemicolon, [59]); (tIdent, c)] /\
  parse_tokens value_pcfg (value_ids [[97]]) (tokenize tc text)
    = P2.Syn.Parse.POk (P2.Syn.Ast.ALet c (P2.Syn.Ast.AIdent [97] false) (P2.Syn.Ast.AIdent c false)) /\
  text_ast tc [[97]] text = Some (ALet c (AIdent [97]) (AIdent c)) /\
  eval known (S (S fuel)) [([97], v)] (ALet c (AIdent [97]) (AIdent c)) = Ok v.
Proof.
  intros cm known fuel c v H0 H39 H10 tc text.
  pose proof (P2.Sem.FromText.value_ops_ok cm ascii_letter ascii_digit) as Ho. fold (value_tcfg_ascii cm) in Ho. fold tc in Ho.
  pose proof (let_quoted_wf cm c H0 H39 H10) as Hw. fold tc in Hw.
  assert (Etext : text = layout_text (let_quoted_items c)) by (symmetry; apply let_quoted_text).
  destruct (let_quoted_erase c) as [u Hu].
  assert (Hp : parse_tokens value_pcfg (value_ids [[97]]) (tokenize tc text)
    = P2.Syn.Parse.POk (P2.Syn.Ast.ALet c (P2.Syn.Ast.AIdent [97] false) (P2.Syn.Ast.AIdent c false))).
  { rewrite Etext.
    apply (P2.Syn.TextToAst.text_to_ast tc value_pcfg (value_ids [[97]]) (let_quoted_items c)
             (P2.Syn.Full.FLet c (P2.Syn.Full.FIdent [97]) (P2.Syn.Full.FIdent c)) _ u Ho Hw);
      [reflexivity|exact P2.Sem.FromText.value_table_ok|reflexivity|exact Hu]. }
  split; [|split; [exact Hp|split]].
  - rewrite Etext, tokenize_lex by assumption. rewrite (layout_correct tc _ _ _ Ho Hw). rewrite strip_expect. reflexivity.
  - unfold P2.Sem.FromText.text_ast. rewrite Hp. reflexivity.
  - cbn [eval bind]. cbn. rewrite (str_eqb_refl c). reflexivity.
Qed.
