(* C15 from the text to the value: compositions of the tokenizer theorems (Lex/TokProofs.v) with the parser model
   (Syn/Parse.v), the lowering to the semantic AST (Syn/Lower.v), the reference semantics (Sem/Ref.v) and the
   generator model (Sem/Gen.v), for the value configuration value.New() (Sem/FromText.v). *)
From P2 Require Import Base.Prelude Base.PreludeProofs Lex.Token.
From P2 Require Lex.Tok Lex.TokProofs Syn.Ast Syn.Parse Syn.Full Syn.FullProofs Syn.TextToAst Syn.Lower Sem.FromText.
From P2 Require Import Sem.Syntax Sem.Ref Sem.Gen.
Local Open Scope N_scope.

Notation tokenize := P2.Lex.Tok.tokenize.
Notation string_literal := P2.Lex.Tok.string_literal.
Notation quoted_ident := P2.Lex.Tok.quoted_ident.
Notation ops_ok := P2.Lex.TokProofs.ops_ok.
Notation value_pcfg := P2.Syn.Lower.value_pcfg.
Notation value_ids := P2.Syn.Lower.value_ids.
Notation parse_tokens := P2.Syn.Parse.parse_tokens.
Notation text_ast := P2.Sem.FromText.text_ast.
Notation run_text := P2.Sem.FromText.run_text.

(* ---- a string literal denotes the string it spells *)
Lemma parse_string_token : forall ids s ln,
  parse_tokens value_pcfg ids [mkTok tString s ln] = P2.Syn.Parse.POk (P2.Syn.Ast.AConst (115 :: 58 :: s)).
Proof. intros. vm_compute. reflexivity. Qed.

Lemma string_literal_value_lemma : forall tc known fuel argnames s, ops_ok tc -> P2.Lex.Tok.no_nul s ->
  tokenize tc (string_literal s) = [mkTok tString s 1] /\
  parse_tokens value_pcfg (value_ids argnames) (tokenize tc (string_literal s))
    = P2.Syn.Parse.POk (P2.Syn.Ast.AConst (115 :: 58 :: s)) /\
  text_ast tc argnames (string_literal s) = Some (AConst (VStr s)) /\
  (forall env, eval known (S fuel) env (AConst (VStr s)) = Ok (VStr s)) /\
  run_text tc known (S fuel) [] (string_literal s) [] = Ok (VStr s).
Proof.
  intros tc known fuel argnames s Ho Hn.
  pose proof (P2.Lex.TokProofs.string_literal_roundtrip_lemma tc s Ho Hn) as Ht.
  assert (Hp : forall an, parse_tokens value_pcfg (value_ids an) (tokenize tc (string_literal s))
                 = P2.Syn.Parse.POk (P2.Syn.Ast.AConst (115 :: 58 :: s))).
  { intro an. rewrite Ht. apply parse_string_token. }
  assert (Ha : forall an, text_ast tc an (string_literal s) = Some (AConst (VStr s))).
  { intro an. unfold P2.Sem.FromText.text_ast. rewrite Hp. reflexivity. }
  repeat split; auto.
  unfold P2.Sem.FromText.run_text. rewrite Ha. reflexivity.
Qed.
