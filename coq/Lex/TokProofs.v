(* Proofs about the tokenizer model Lex/Tok.v *)
From P2 Require Import Base.Prelude Lex.Token Lex.Tok.
Local Open Scope N_scope.
