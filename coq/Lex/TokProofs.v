(* Proofs about the tokenizer model Lex/Tok.v *)
From P2 Require Import Base.Prelude Base.PreludeProofs Lex.Token Lex.Tok.
From Coq Require Import Lia ZifyBool.
Local Open Scope N_scope.

(* ================================================================== 1. next on an empty cache *)

Definition al (sk : bool) (c : N) : N := if sk then alias c else c.

(* next, as a function of the unread runes and the line, when nothing is cached *)
Definition nextf (cm sk : bool) (rs : list N) (ln : N) : N * list N * N :=
  match rs with
  | [] => (0, [], ln)
  | c :: rest =>
      if cm && sk && (c =? 47) then
        match rest with
        | [] => (al sk c, rest, ln)
        | d :: rest' =>
            if d =? 47 then
              match skip_line rest' with
              | None => (0, [], ln)
              | Some (c2, r2) => (al sk c2, r2, ln)
              end
            else if d =? 42 then
              match skip_block rest' ln with
              | (None, l2) => (0, [], l2)
              | (Some r2, l2) => (al sk 32, r2, l2)
              end
            else (al sk c, rest, ln)
        end
      else (al sk c, rest, ln)
  end.

Lemma next_fresh : forall cm sk rs l ln,
  next cm sk (mkSt rs false l ln) =
  let '(n, rs', ln') := nextf cm sk rs ln in (n, mkSt rs' false n ln').
Proof.
  intros cm sk rs l ln. unfold next, peek, peek_fresh, nextf, consume, al. cbn [s_isLast s_str s_line].
  destruct rs as [|c rest]; [reflexivity|].
  destruct (cm && sk && (c =? 47)) eqn:E; [|reflexivity].
  destruct rest as [|d rest']; [reflexivity|].
  destruct (d =? 47).
  - destruct (skip_line rest') as [[c2 r2]|]; reflexivity.
  - destruct (d =? 42); [|reflexivity].
    destruct (skip_block rest' ln) as [[r2|] l2]; reflexivity.
Qed.

Lemma next_cached : forall cm sk rs l ln,
  next cm sk (mkSt rs true l ln) = (l, mkSt rs false l ln).
Proof. reflexivity. Qed.

Lemma peek_unread : forall cm sk s, peek cm sk (unread s) = (s_last s, unread s).
Proof. intros. destruct s; reflexivity. Qed.

(* a state without cached rune behaves the same whatever t.last holds *)
Lemma next_nolast : forall cm sk rs l ln, next cm sk (mkSt rs false l ln) = next cm sk (fresh rs ln).
Proof. intros. unfold fresh. rewrite !next_fresh. reflexivity. Qed.

(* looking ahead (next, then unread) is invisible to the next call of next *)
Lemma next_unread_next : forall cm sk s, s_isLast s = false ->
  next cm sk (unread (snd (next cm sk s))) = next cm sk s.
Proof.
  intros cm sk [rs il l ln] H. cbn in H. subst il. rewrite next_fresh.
  destruct (nextf cm sk rs ln) as [[n rs'] ln']. reflexivity.
Qed.

(* ================================================================== 2. measure, fuel *)

Definition msr (s : st) : nat :=
  (length (s_str s) + (if s_isLast s && negb (N.eqb (s_last s) 0) then 1 else 0))%nat.

Lemma skip_line_len : forall r c r', skip_line r = Some (c, r') -> (length r' < length r)%nat.
Proof.
  induction r as [|x r IH]; intros c r' H; cbn in H; [discriminate|].
  destruct ((x =? 10) || (x =? 13)).
  - inversion H; subst. cbn. lia.
  - apply IH in H. cbn. lia.
Qed.

Lemma skip_block_len : forall r ln r' l2, skip_block r ln = (Some r', l2) -> (length r' < length r)%nat.
Proof.
  induction r as [|x r IH]; intros ln r' l2 H; cbn [skip_block] in H; [discriminate|].
  destruct (x =? 42).
  - destruct r as [|d r'']; [discriminate|].
    destruct (d =? 47).
    + destruct r'' as [|e r3]; [discriminate|]. inversion H; subst. cbn. lia.
    + apply IH in H. cbn in *. lia.
  - apply IH in H. cbn in *. lia.
Qed.

Lemma nextf_len : forall cm sk rs ln n rs' ln', nextf cm sk rs ln = (n, rs', ln') ->
  (length rs' <= length rs)%nat /\ (n <> 0 -> (length rs' < length rs)%nat).
Proof.
  intros cm sk rs ln n rs' ln' H. unfold nextf in H.
  destruct rs as [|c rest]; [inversion H; subst; split; [lia|congruence]|].
  assert (Hplain : forall a, (a, rest, ln) = (n, rs', ln') ->
            (length rs' <= length (c :: rest))%nat /\ (n <> 0 -> (length rs' < length (c :: rest))%nat)).
  { intros a Ha. inversion Ha; subst. cbn. split; lia. }
  destruct (cm && sk && (c =? 47)); [|eauto].
  destruct rest as [|d rest']; [eauto|].
  destruct (d =? 47).
  - destruct (skip_line rest') as [[c2 r2]|] eqn:E.
    + inversion H; subst. apply skip_line_len in E. cbn. split; lia.
    + inversion H; subst. cbn. split; [lia|congruence].
  - destruct (d =? 42); [|eauto].
    destruct (skip_block rest' ln) as [[r2|] l2] eqn:E.
    + inversion H; subst. apply skip_block_len in E. cbn. split; lia.
    + inversion H; subst. cbn. split; [lia|congruence].
Qed.

Lemma msr_nocache : forall s, s_isLast s = false -> msr s = length (s_str s).
Proof. intros s H. unfold msr. rewrite H. cbn. lia. Qed.

Lemma next_msr : forall cm sk s n s', next cm sk s = (n, s') ->
  s_isLast s' = false /\ s_last s' = n /\ (msr s' <= msr s)%nat /\ (n <> 0 -> (msr s' < msr s)%nat).
Proof.
  intros cm sk [rs il l ln] n s' H. destruct il.
  - rewrite next_cached in H. inversion H; subst. unfold msr. cbn.
    destruct (N.eqb_spec n 0); cbn; repeat split; try lia; congruence.
  - rewrite next_fresh in H. destruct (nextf cm sk rs ln) as [[n0 rs'] ln'] eqn:E.
    inversion H; subst. apply nextf_len in E. unfold msr. cbn. repeat split; try lia.
Qed.

Lemma msr_unread_next : forall cm sk s n s', next cm sk s = (n, s') -> (msr (unread s') <= msr s)%nat.
Proof.
  intros cm sk s n s' H. apply next_msr in H. destruct H as (Hil & Hl & Hle & Hlt).
  unfold msr, unread in *. cbn. rewrite Hil in Hle. cbn in Hle. rewrite Hl.
  destruct (N.eqb_spec n 0); cbn; [lia|]. specialize (Hlt n0). rewrite Hil in Hlt. cbn in Hlt. lia.
Qed.

(* ---- readSkip *)
Lemma read_skip_fuel : forall f1 f2 cm sk valid prev s, (msr s < f1)%nat -> (msr s < f2)%nat ->
  read_skip f1 cm sk valid prev s = read_skip f2 cm sk valid prev s.
Proof.
  induction f1 as [|f1 IH]; intros f2 cm sk valid prev s H1 H2; [lia|].
  destruct f2 as [|f2]; [lia|]. cbn [read_skip].
  destruct (next cm sk s) as [c s1] eqn:E. pose proof (next_msr _ _ _ _ _ E) as (_ & _ & Hle & Hlt).
  destruct (negb (c =? 0) && valid prev c) eqn:V; [|reflexivity].
  assert (c <> 0) by (destruct (N.eqb_spec c 0); [discriminate|assumption]).
  rewrite (IH f2) by (specialize (Hlt H); lia). reflexivity.
Qed.

Lemma read_skip_some : forall f cm sk valid prev s, (msr s < f)%nat ->
  exists w s', read_skip f cm sk valid prev s = Some (w, s') /\ (msr s' <= msr s)%nat.
Proof.
  induction f as [|f IH]; intros cm sk valid prev s H; [lia|]. cbn [read_skip].
  destruct (next cm sk s) as [c s1] eqn:E. pose proof (next_msr _ _ _ _ _ E) as (_ & _ & Hle & Hlt).
  destruct (negb (c =? 0) && valid prev c) eqn:V.
  - assert (c <> 0) by (destruct (N.eqb_spec c 0); [discriminate|assumption]).
    destruct (IH cm sk valid c s1) as (w & s' & Hr & Hm); [specialize (Hlt H0); lia|].
    rewrite Hr. exists (c :: w), s'. split; [reflexivity|lia].
  - exists [], (unread s1). split; [reflexivity|]. eapply msr_unread_next; eauto.
Qed.

Lemma read_skip_msr : forall f cm sk valid prev s w s',
  read_skip f cm sk valid prev s = Some (w, s') -> (msr s' <= msr s)%nat.
Proof.
  induction f as [|f IH]; intros cm sk valid prev s w s' H; [discriminate|]. cbn [read_skip] in H.
  destruct (next cm sk s) as [c s1] eqn:E. pose proof (next_msr _ _ _ _ _ E) as (_ & _ & Hle & _).
  destruct (negb (c =? 0) && valid prev c).
  - destruct (read_skip f cm sk valid c s1) as [[w2 s2]|] eqn:R; [|discriminate].
    inversion H; subst. apply IH in R. lia.
  - inversion H; subst. pose proof (msr_unread_next _ _ _ _ _ E). lia.
Qed.

(* if the first rune is accepted, the scan makes progress *)
Lemma read_skip_progress : forall f cm sk valid prev s w s',
  read_skip f cm sk valid prev s = Some (w, s') ->
  fst (next cm sk s) <> 0 -> valid prev (fst (next cm sk s)) = true ->
  (msr s' < msr s)%nat.
Proof.
  intros f cm sk valid prev s w s' H Hc Hv. destruct f as [|f]; [discriminate|]. cbn [read_skip] in H.
  destruct (next cm sk s) as [c s1] eqn:E. cbn in Hc, Hv.
  pose proof (next_msr _ _ _ _ _ E) as (_ & _ & Hle & Hlt). specialize (Hlt Hc).
  rewrite Hv in H. destruct (N.eqb_spec c 0); [contradiction|]. cbn in H.
  destruct (read_skip f cm sk valid c s1) as [[w2 s2]|] eqn:R; [|discriminate].
  inversion H; subst. apply read_skip_msr in R. lia.
Qed.

(* ---- operator scanner *)
Definition nonul (sufs : list str) : Prop := forall o, In o sufs -> ~ In 0 o.

Lemma step_ops_nonul : forall sufs r, nonul sufs -> nonul (step_ops sufs r).
Proof.
  intros sufs r H o Ho. unfold step_ops in Ho. apply in_flat_map in Ho. destruct Ho as (x & Hx & Hin).
  destruct x as [|c t]; [destruct Hin|]. destruct (c =? r); [|destruct Hin].
  destruct Hin as [<-|[]]. intro H0. apply (H _ Hx). right. exact H0.
Qed.

Lemma step_ops_nul : forall sufs, nonul sufs -> step_ops sufs 0 = [].
Proof.
  intros sufs H. destruct (step_ops sufs 0) as [|x l] eqn:E; [reflexivity|].
  assert (Hin : In x (step_ops sufs 0)) by (rewrite E; left; reflexivity).
  unfold step_ops in Hin. apply in_flat_map in Hin. destruct Hin as (y & Hy & Hin).
  destruct y as [|c t]; [destruct Hin|]. destruct (N.eqb_spec c 0); [|destruct Hin].
  subst. exfalso. apply (H _ Hy). left. reflexivity.
Qed.

Lemma op_loop_fuel : forall f1 f2 cm sufs s, nonul sufs -> (msr s < f1)%nat -> (msr s < f2)%nat ->
  op_loop f1 cm sufs s = op_loop f2 cm sufs s.
Proof.
  induction f1 as [|f1 IH]; intros f2 cm sufs s Hn H1 H2; [lia|].
  destruct f2 as [|f2]; [lia|]. cbn [op_loop].
  destruct (next cm true s) as [r s1] eqn:E. pose proof (next_msr _ _ _ _ _ E) as (_ & _ & Hle & Hlt).
  destruct (step_ops sufs r) as [|x l] eqn:S; [reflexivity|].
  assert (r <> 0) by (intro; subst; rewrite step_ops_nul in S by assumption; discriminate).
  rewrite (IH f2); [reflexivity| |specialize (Hlt H); lia|specialize (Hlt H); lia].
  rewrite <- S. apply step_ops_nonul. assumption.
Qed.

Lemma op_loop_some : forall f cm sufs s, nonul sufs -> (msr s < f)%nat ->
  exists w ok s', op_loop f cm sufs s = Some (w, ok, s').
Proof.
  induction f as [|f IH]; intros cm sufs s Hn H; [lia|]. cbn [op_loop].
  destruct (next cm true s) as [r s1] eqn:E. pose proof (next_msr _ _ _ _ _ E) as (_ & _ & Hle & Hlt).
  destruct (step_ops sufs r) as [|x l] eqn:S; [eauto|].
  assert (r <> 0) by (intro; subst; rewrite step_ops_nul in S by assumption; discriminate).
  destruct (IH cm (x :: l) s1) as (w & ok & s' & Hr); [rewrite <- S; apply step_ops_nonul; assumption|specialize (Hlt H0); lia|].
  rewrite Hr. eauto.
Qed.

Lemma op_loop_msr : forall f cm sufs s w ok s', op_loop f cm sufs s = Some (w, ok, s') -> (msr s' <= msr s)%nat.
Proof.
  induction f as [|f IH]; intros cm sufs s w ok s' H; [discriminate|]. cbn [op_loop] in H.
  destruct (next cm true s) as [r s1] eqn:E. pose proof (next_msr _ _ _ _ _ E) as (_ & _ & Hle & _).
  destruct (step_ops sufs r) as [|x l] eqn:S.
  - inversion H; subst. eapply msr_unread_next; eauto.
  - destruct (op_loop f cm (x :: l) s1) as [[[w2 ok2] s2]|] eqn:R; [|discriminate].
    inversion H; subst. apply IH in R. lia.
Qed.

Lemma parse_operator_fuel : forall f1 f2 cm ops s, nonul ops -> (msr s < f1)%nat -> (msr s < f2)%nat ->
  parse_operator f1 cm ops s = parse_operator f2 cm ops s.
Proof.
  intros f1 f2 cm ops s Hn H1 H2. unfold parse_operator.
  destruct (next cm true s) as [r s1] eqn:E. pose proof (next_msr _ _ _ _ _ E) as (_ & _ & Hle & _).
  destruct (step_ops ops r) as [|x l] eqn:S; [reflexivity|].
  rewrite (op_loop_fuel f1 f2); [reflexivity| |lia|lia]. rewrite <- S. apply step_ops_nonul. assumption.
Qed.

Lemma parse_operator_some : forall f cm ops s, nonul ops -> (msr s < f)%nat ->
  exists w ok s', parse_operator f cm ops s = Some (w, ok, s').
Proof.
  intros f cm ops s Hn H. unfold parse_operator.
  destruct (next cm true s) as [r s1] eqn:E. pose proof (next_msr _ _ _ _ _ E) as (_ & _ & Hle & _).
  destruct (step_ops ops r) as [|x l] eqn:S; [eauto|].
  destruct (op_loop_some f cm (x :: l) s1) as (w & ok & s' & Hr); [rewrite <- S; apply step_ops_nonul; assumption|lia|].
  rewrite Hr. eauto.
Qed.

Lemma parse_operator_msr : forall f cm ops s w ok s', parse_operator f cm ops s = Some (w, ok, s') ->
  fst (next cm true s) <> 0 -> (msr s' < msr s)%nat.
Proof.
  intros f cm ops s w ok s' H Hc. unfold parse_operator in H.
  destruct (next cm true s) as [r s1] eqn:E. pose proof (next_msr _ _ _ _ _ E) as (_ & _ & Hle & Hlt).
  cbn in Hc. specialize (Hlt Hc).
  destruct (step_ops ops r) as [|x l] eqn:S.
  - inversion H; subst. lia.
  - destruct (op_loop f cm (x :: l) s1) as [[[w2 ok2] s2]|] eqn:R; [|discriminate].
    inversion H; subst. apply op_loop_msr in R. lia.
Qed.

(* ---- readStr *)
Lemma read_str_fuel : forall f1 f2 cm s, (msr s < f1)%nat -> (msr s < f2)%nat ->
  read_str f1 cm s = read_str f2 cm s.
Proof.
  induction f1 as [|f1 IH]; intros f2 cm s H1 H2; [lia|].
  destruct f2 as [|f2]; [lia|]. cbn [read_str].
  destruct (next cm false s) as [c s1] eqn:E. pose proof (next_msr _ _ _ _ _ E) as (_ & _ & Hle & Hlt).
  destruct (c =? 34); [reflexivity|].
  destruct (N.eqb_spec c 0) as [|Hc]; [subst; reflexivity|]. specialize (Hlt Hc). cbn [orb].
  destruct ((c =? 10) || (c =? 13)); [reflexivity|].
  destruct (c =? 92).
  - destruct (next cm false s1) as [i s2] eqn:E2. pose proof (next_msr _ _ _ _ _ E2) as (_ & _ & Hle2 & _).
    rewrite (IH f2) by lia. reflexivity.
  - rewrite (IH f2) by lia. reflexivity.
Qed.

Lemma read_str_some : forall f cm s, (msr s < f)%nat ->
  exists r s', read_str f cm s = Some (r, s').
Proof.
  induction f as [|f IH]; intros cm s H; [lia|]. cbn [read_str].
  destruct (next cm false s) as [c s1] eqn:E. pose proof (next_msr _ _ _ _ _ E) as (_ & _ & Hle & Hlt).
  destruct (c =? 34); [eauto|].
  destruct (N.eqb_spec c 0) as [|Hc]; [subst; cbn; eauto|]. specialize (Hlt Hc). cbn [orb].
  destruct ((c =? 10) || (c =? 13)); [eauto|].
  destruct (c =? 92).
  - destruct (next cm false s1) as [i s2] eqn:E2. pose proof (next_msr _ _ _ _ _ E2) as (_ & _ & Hle2 & _).
    destruct (IH cm s2) as (r & s' & Hr); [lia|]. rewrite Hr. destruct r; eauto.
  - destruct (IH cm s1) as (r & s' & Hr); [lia|]. rewrite Hr. destruct r; eauto.
Qed.

Lemma read_str_msr : forall f cm s r s', read_str f cm s = Some (r, s') -> (msr s' <= msr s)%nat.
Proof.
  induction f as [|f IH]; intros cm s r s' H; [discriminate|]. cbn [read_str] in H.
  destruct (next cm false s) as [c s1] eqn:E. pose proof (next_msr _ _ _ _ _ E) as (_ & _ & Hle & _).
  destruct (c =? 34); [inversion H; subst; lia|].
  destruct ((c =? 0) || (c =? 10) || (c =? 13)); [inversion H; subst; lia|].
  destruct (c =? 92).
  - destruct (next cm false s1) as [i s2] eqn:E2. pose proof (next_msr _ _ _ _ _ E2) as (_ & _ & Hle2 & _).
    destruct (read_str f cm s2) as [[[w|] s3]|] eqn:R; [| |discriminate];
      inversion H; subst; apply IH in R; lia.
  - destruct (read_str f cm s1) as [[[w|] s3]|] eqn:R; [| |discriminate];
      inversion H; subst; apply IH in R; lia.
Qed.

(* ================================================================== 3. one iteration of run *)
Definition ops_ok (cfg : tcfg) : Prop := nonul (c_ops cfg).

Lemma next_unread : forall cm sk s, s_isLast s = false -> next cm sk (unread s) = (s_last s, s).
Proof. intros cm sk [rs il l ln] H. cbn in H. subst. reflexivity. Qed.

Lemma step_word_fuel : forall f1 f2 cfg lt ln s1, ops_ok cfg ->
  (msr (unread s1) < f1)%nat -> (msr (unread s1) < f2)%nat ->
  step_word f1 cfg lt ln s1 = step_word f2 cfg lt ln s1.
Proof.
  intros f1 f2 cfg lt ln s1 Ho H1 H2. unfold step_word. cbv zeta. rewrite peek_unread.
  rewrite (read_skip_fuel f1 f2 _ _ (number_valid cfg)) by assumption.
  rewrite (read_skip_fuel f1 f2 _ _ (ident_valid cfg)) by assumption.
  rewrite (parse_operator_fuel f1 f2) by assumption. reflexivity.
Qed.

Lemma step_string_fuel : forall f1 f2 cfg ln s1, (msr s1 < f1)%nat -> (msr s1 < f2)%nat ->
  step_string f1 cfg ln s1 = step_string f2 cfg ln s1.
Proof. intros. unfold step_string. rewrite (read_str_fuel f1 f2) by assumption. reflexivity. Qed.

Lemma step_quoted_fuel : forall f1 f2 cfg lt ln s1, (msr s1 < f1)%nat -> (msr s1 < f2)%nat ->
  step_quoted f1 cfg lt ln s1 = step_quoted f2 cfg lt ln s1.
Proof. intros. unfold step_quoted. cbv zeta. rewrite (read_skip_fuel f1 f2) by assumption. reflexivity. Qed.

Lemma step_fuel : forall f1 f2 cfg lt lb s, ops_ok cfg -> (msr s < f1)%nat -> (msr s < f2)%nat ->
  step f1 cfg lt lb s = step f2 cfg lt lb s.
Proof.
  intros f1 f2 cfg lt lb s Ho H1 H2. unfold step. cbv zeta.
  destruct (next (c_comments cfg) true s) as [n s1] eqn:E.
  pose proof (next_msr _ _ _ _ _ E) as (_ & _ & Hle & _). pose proof (msr_unread_next _ _ _ _ _ E) as Hu.
  rewrite (step_string_fuel f1 f2) by lia. rewrite (step_quoted_fuel f1 f2) by lia.
  rewrite (step_word_fuel f1 f2) by (assumption || lia). reflexivity.
Qed.

Lemma step_word_go : forall f cfg lt ln s1, ops_ok cfg -> (msr (unread s1) < f)%nat ->
  s_isLast s1 = false -> s_last s1 <> 0 -> superscript (s_last s1) = None ->
  exists toks lt' s', step_word f cfg lt ln s1 = StGo toks lt' false s' /\ (msr s' < msr (unread s1))%nat.
Proof.
  intros f cfg lt ln s1 Ho Hf Hil Hn Hsup. unfold step_word. cbv zeta. rewrite peek_unread.
  set (n := s_last s1) in *. set (cm := c_comments cfg).
  assert (Hnx : next cm true (unread s1) = (n, s1)) by (apply next_unread; assumption).
  assert (Hsupb : is_sup n = false) by (unfold is_sup; rewrite Hsup; reflexivity).
  destruct (number_start cfg n) eqn:Hnum.
  - destruct (read_skip_some f cm true (number_valid cfg) 0 (unread s1) Hf) as (w & s4 & Hr & _).
    rewrite Hr. do 3 eexists. split; [reflexivity|].
    eapply read_skip_progress; [exact Hr| |]; rewrite Hnx; cbn [fst]; [assumption|].
    unfold number_valid. unfold number_start in Hnum. rewrite Hnum, Hsupb. reflexivity.
  - destruct (ident_start cfg n) eqn:Hid.
    + destruct (read_skip_some f cm true (ident_valid cfg) 0 (unread s1) Hf) as (w & s4 & Hr & _).
      rewrite Hr.
      assert (Hp : (msr s4 < msr (unread s1))%nat).
      { eapply read_skip_progress; [exact Hr| |]; rewrite Hnx; cbn [fst]; [assumption|].
        unfold ident_valid. unfold ident_start in Hid.
        destruct (c_letter cfg n); [reflexivity|]. cbn in Hid. rewrite Hid. apply orb_true_r. }
      destruct (assoc w (c_textops cfg)); [eauto|].
      destruct (mem_str w (c_keywords cfg)); eauto.
    + destruct (parse_operator_some f cm (c_ops cfg) (unread s1) Ho Hf) as (w & ok & s4 & Hr).
      rewrite Hr. do 3 eexists. split; [reflexivity|].
      eapply parse_operator_msr; [exact Hr|]. rewrite Hnx. assumption.
Qed.

Lemma step_string_go : forall f cfg ln s1, (msr s1 < f)%nat ->
  exists toks s', step_string f cfg ln s1 = StGo toks tInvalid false s' /\ (msr s' <= msr s1)%nat.
Proof.
  intros f cfg ln s1 Hf. unfold step_string.
  destruct (read_str_some f (c_comments cfg) s1 Hf) as (r & s' & Hr). rewrite Hr.
  apply read_str_msr in Hr. destruct r; eauto.
Qed.

Lemma step_quoted_go : forall f cfg lt ln s1, (msr s1 < f)%nat ->
  exists toks lt' s', step_quoted f cfg lt ln s1 = StGo toks lt' false s' /\ (msr s' <= msr s1)%nat.
Proof.
  intros f cfg lt ln s1 Hf. unfold step_quoted. cbv zeta.
  destruct (read_skip_some f (c_comments cfg) false (fun _ c => negb (c =? 39)) 0 s1 Hf) as (w & s2 & Hr & Hm).
  rewrite Hr. destruct (next (c_comments cfg) false s2) as [x s3] eqn:E.
  pose proof (next_msr _ _ _ _ _ E) as (_ & _ & Hle & _). do 3 eexists. split; [reflexivity|lia].
Qed.

Lemma step_go : forall f cfg lt lb s, ops_ok cfg -> (msr s < f)%nat ->
  step f cfg lt lb s = StEof \/
  exists toks lt' lb' s', step f cfg lt lb s = StGo toks lt' lb' s' /\ (msr s' < msr s)%nat.
Proof.
  intros f cfg lt lb s Ho Hf. unfold step. cbv zeta.
  destruct (next (c_comments cfg) true s) as [n s1] eqn:E.
  pose proof (next_msr _ _ _ _ _ E) as (Hil & Hl & Hle & Hlt). pose proof (msr_unread_next _ _ _ _ _ E) as Hu.
  destruct (N.eqb_spec n 10) as [->|_].
  { right. do 4 eexists. split; [reflexivity|]. assert (H10 : 10 <> 0) by discriminate. specialize (Hlt H10).
    unfold msr in *. cbn [s_str s_isLast s_last]. lia. }
  destruct ((n =? 32) || (n =? 13) || (n =? 9)) eqn:Hb.
  { right. do 4 eexists. split; [reflexivity|]. apply Hlt. intro Hz; rewrite Hz in Hb; vm_compute in Hb; discriminate Hb. }
  destruct (N.eqb_spec n 0) as [|Hn0]; [left; reflexivity|]. specialize (Hlt Hn0). right.
  destruct (n =? 40); [do 4 eexists; split; [reflexivity|lia]|].
  destruct (n =? 41); [do 4 eexists; split; [reflexivity|lia]|].
  destruct (single_tok n); [do 4 eexists; split; [reflexivity|lia]|].
  destruct (n =? 34).
  { destruct (step_string_go f cfg (s_line s1) s1) as (toks & s' & Hr & Hm); [lia|]. rewrite Hr. do 4 eexists. split; [reflexivity|lia]. }
  destruct (n =? 39).
  { destruct (step_quoted_go f cfg lt (s_line s1) s1) as (toks & lt' & s' & Hr & Hm); [lia|]. rewrite Hr. do 4 eexists. split; [reflexivity|lia]. }
  destruct (superscript n) eqn:Hsup; [do 4 eexists; split; [reflexivity|lia]|].
  destruct (step_word_go f cfg lt (s_line s1) s1) as (toks & lt' & s' & Hr & Hm); try assumption; try lia; try congruence.
  rewrite Hr. do 4 eexists. split; [reflexivity|lia].
Qed.

(* ================================================================== 4. run: fuel, totality *)
Lemma run_fuel : forall f1 f2 cfg lt lb s, ops_ok cfg -> (msr s < f1)%nat -> (msr s < f2)%nat ->
  run f1 cfg lt lb s = run f2 cfg lt lb s.
Proof.
  induction f1 as [|f1 IH]; intros f2 cfg lt lb s Ho H1 H2; [lia|].
  destruct f2 as [|f2]; [lia|]. cbn [run]. rewrite (step_fuel (S f1) (S f2)) by assumption.
  destruct (step_go (S f2) cfg lt lb s Ho H2) as [He|(toks & lt' & lb' & s' & Hs & Hm)]; rewrite ?He, ?Hs; [reflexivity|].
  rewrite (IH f2) by (assumption || lia). reflexivity.
Qed.

Lemma run_some : forall f cfg lt lb s, ops_ok cfg -> (msr s < f)%nat -> exists ts, run f cfg lt lb s = Some ts.
Proof.
  induction f as [|f IH]; intros cfg lt lb s Ho H; [lia|]. cbn [run].
  destruct (step_go (S f) cfg lt lb s Ho H) as [He|(toks & lt' & lb' & s' & Hs & Hm)]; rewrite ?He, ?Hs; [eauto|].
  destruct (IH cfg lt' lb' s' Ho) as (ts & Hr); [lia|]. rewrite Hr. eauto.
Qed.

(* C04, tokenizer half: scanning is total; the fuel tokenize uses (length + 2) always suffices *)
Theorem tokenize_total_lemma : forall cfg rs, ops_ok cfg ->
  exists ts, tokenize_fuel (length rs + 2) cfg rs = Some ts.
Proof.
  intros cfg rs Ho. unfold tokenize_fuel. apply run_some; [assumption|]. unfold msr, fresh. cbn. lia.
Qed.

(* fuel-free token list of a state *)
Definition lex (cfg : tcfg) (lt : ttype) (lb : bool) (s : st) : list token :=
  match run (S (msr s)) cfg lt lb s with Some l => l | None => [] end.

Lemma tokenize_lex : forall cfg rs, ops_ok cfg -> tokenize cfg rs = lex cfg tInvalid false (fresh rs 1).
Proof.
  intros cfg rs Ho. unfold tokenize, tokenize_fuel, lex.
  rewrite (run_fuel (length rs + 2) (S (msr (fresh rs 1)))); [reflexivity|assumption| |]; unfold msr, fresh; cbn; lia.
Qed.

Lemma lex_unfold : forall cfg lt lb s, ops_ok cfg ->
  lex cfg lt lb s = match step (S (msr s)) cfg lt lb s with
                    | StGo toks lt' lb' s' => toks ++ lex cfg lt' lb' s'
                    | _ => []
                    end.
Proof.
  intros cfg lt lb s Ho. unfold lex at 1. cbn [run].
  destruct (step_go (S (msr s)) cfg lt lb s Ho) as [He|(toks & lt' & lb' & s' & Hs & Hm)]; [lia|rewrite He; reflexivity|].
  rewrite Hs. unfold lex. rewrite (run_fuel (msr s) (S (msr s'))) by (assumption || lia).
  destruct (run_some (S (msr s')) cfg lt' lb' s' Ho) as (ts & Hr); [lia|]. rewrite Hr. reflexivity.
Qed.

(* the same with any sufficient fuel *)
Lemma lex_step : forall f cfg lt lb s, ops_ok cfg -> (msr s < f)%nat ->
  lex cfg lt lb s = match step f cfg lt lb s with
                    | StGo toks lt' lb' s' => toks ++ lex cfg lt' lb' s'
                    | _ => []
                    end.
Proof. intros. rewrite lex_unfold by assumption. rewrite (step_fuel (S (msr s)) f) by (assumption || lia). reflexivity. Qed.
