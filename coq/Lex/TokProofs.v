(* Proofs about the tokenizer model Lex/Tok.v *)
From P2 Require Import Base.Prelude Base.PreludeProofs Lex.Token Lex.Tok.
From Coq Require Import Lia ZifyBool.
Local Open Scope N_scope.

(* ================================================================== 1. next on an empty cache *)

Definition al (sk : bool) (c : N) : N := if sk then alias c else c.

(* next, as a function of the unread runes and the line, when nothing is cached *)
Definition nextf (cm sk : bool) (rs : list N) (ln : N) : N * list N * N :=
  match rs with
  | [] => (0, [], ln)
  | c :: rest =>
      if cm && sk && (c =? 47) then
        match rest with
        | [] => (al sk c, rest, ln)
        | d :: rest' =>
            if d =? 47 then
              match skip_line rest' with
              | None => (0, [], ln)
              | Some (c2, r2) => (al sk c2, r2, ln)
              end
            else if d =? 42 then
              match skip_block rest' ln with
              | (None, l2) => (0, [], l2)
              | (Some r2, l2) => (al sk 32, r2, l2)
              end
            else (al sk c, rest, ln)
        end
      else (al sk c, rest, ln)
  end.

Lemma next_fresh : forall cm sk rs l ln,
  next cm sk (mkSt rs false l ln) =
  let '(n, rs', ln') := nextf cm sk rs ln in (n, mkSt rs' false n ln').
Proof.
  intros cm sk rs l ln. unfold next, peek, peek_fresh, nextf, consume, al. cbn [s_isLast s_str s_line].
  destruct rs as [|c rest]; [reflexivity|].
  destruct (cm && sk && (c =? 47)) eqn:E; [|reflexivity].
  destruct rest as [|d rest']; [reflexivity|].
  destruct (d =? 47).
  - destruct (skip_line rest') as [[c2 r2]|]; reflexivity.
  - destruct (d =? 42); [|reflexivity].
    destruct (skip_block rest' ln) as [[r2|] l2]; reflexivity.
Qed.

Lemma next_cached : forall cm sk rs l ln,
  next cm sk (mkSt rs true l ln) = (l, mkSt rs false l ln).
Proof. reflexivity. Qed.

Lemma peek_unread : forall cm sk s, peek cm sk (unread s) = (s_last s, unread s).
Proof. intros. destruct s; reflexivity. Qed.

(* a state without cached rune behaves the same whatever t.last holds *)
Lemma next_nolast : forall cm sk rs l ln, next cm sk (mkSt rs false l ln) = next cm sk (fresh rs ln).
Proof. intros. unfold fresh. rewrite !next_fresh. reflexivity. Qed.

(* looking ahead (next, then unread) is invisible to the next call of next *)
Lemma next_unread_next : forall cm sk s, s_isLast s = false ->
  next cm sk (unread (snd (next cm sk s))) = next cm sk s.
Proof.
  intros cm sk [rs il l ln] H. cbn in H. subst il. rewrite next_fresh.
  destruct (nextf cm sk rs ln) as [[n rs'] ln']. reflexivity.
Qed.

(* ================================================================== 2. measure, fuel *)

Definition msr (s : st) : nat :=
  (length (s_str s) + (if s_isLast s && negb (N.eqb (s_last s) 0) then 1 else 0))%nat.

Lemma skip_line_len : forall r c r', skip_line r = Some (c, r') -> (length r' < length r)%nat.
Proof.
  induction r as [|x r IH]; intros c r' H; cbn in H; [discriminate|].
  destruct ((x =? 10) || (x =? 13)).
  - inversion H; subst. cbn. lia.
  - apply IH in H. cbn. lia.
Qed.

Lemma skip_block_len : forall r ln r' l2, skip_block r ln = (Some r', l2) -> (length r' < length r)%nat.
Proof.
  induction r as [|x r IH]; intros ln r' l2 H; cbn [skip_block] in H; [discriminate|].
  destruct (x =? 42).
  - destruct r as [|d r'']; [discriminate|].
    destruct (d =? 47).
    + destruct r'' as [|e r3]; [discriminate|]. inversion H; subst. cbn. lia.
    + apply IH in H. cbn in *. lia.
  - apply IH in H. cbn in *. lia.
Qed.

Lemma nextf_len : forall cm sk rs ln n rs' ln', nextf cm sk rs ln = (n, rs', ln') ->
  (length rs' <= length rs)%nat /\ (n <> 0 -> (length rs' < length rs)%nat).
Proof.
  intros cm sk rs ln n rs' ln' H. unfold nextf in H.
  destruct rs as [|c rest]; [inversion H; subst; split; [lia|congruence]|].
  assert (Hplain : forall a, (a, rest, ln) = (n, rs', ln') ->
            (length rs' <= length (c :: rest))%nat /\ (n <> 0 -> (length rs' < length (c :: rest))%nat)).
  { intros a Ha. inversion Ha; subst. cbn. split; lia. }
  destruct (cm && sk && (c =? 47)); [|eauto].
  destruct rest as [|d rest']; [eauto|].
  destruct (d =? 47).
  - destruct (skip_line rest') as [[c2 r2]|] eqn:E.
    + inversion H; subst. apply skip_line_len in E. cbn. split; lia.
    + inversion H; subst. cbn. split; [lia|congruence].
  - destruct (d =? 42); [|eauto].
    destruct (skip_block rest' ln) as [[r2|] l2] eqn:E.
    + inversion H; subst. apply skip_block_len in E. cbn. split; lia.
    + inversion H; subst. cbn. split; [lia|congruence].
Qed.

Lemma msr_nocache : forall s, s_isLast s = false -> msr s = length (s_str s).
Proof. intros s H. unfold msr. rewrite H. cbn. lia. Qed.

Lemma next_msr : forall cm sk s n s', next cm sk s = (n, s') ->
  s_isLast s' = false /\ s_last s' = n /\ (msr s' <= msr s)%nat /\ (n <> 0 -> (msr s' < msr s)%nat).
Proof.
  intros cm sk [rs il l ln] n s' H. destruct il.
  - rewrite next_cached in H. inversion H; subst. unfold msr. cbn.
    destruct (N.eqb_spec n 0); cbn; repeat split; try lia; congruence.
  - rewrite next_fresh in H. destruct (nextf cm sk rs ln) as [[n0 rs'] ln'] eqn:E.
    inversion H; subst. apply nextf_len in E. unfold msr. cbn. repeat split; try lia.
Qed.

Lemma msr_unread_next : forall cm sk s n s', next cm sk s = (n, s') -> (msr (unread s') <= msr s)%nat.
Proof.
  intros cm sk s n s' H. apply next_msr in H. destruct H as (Hil & Hl & Hle & Hlt).
  unfold msr, unread in *. cbn. rewrite Hil in Hle. cbn in Hle. rewrite Hl.
  destruct (N.eqb_spec n 0); cbn; [lia|]. specialize (Hlt n0). rewrite Hil in Hlt. cbn in Hlt. lia.
Qed.

(* ---- readSkip *)
Lemma read_skip_fuel : forall f1 f2 cm sk valid prev s, (msr s < f1)%nat -> (msr s < f2)%nat ->
  read_skip f1 cm sk valid prev s = read_skip f2 cm sk valid prev s.
Proof.
  induction f1 as [|f1 IH]; intros f2 cm sk valid prev s H1 H2; [lia|].
  destruct f2 as [|f2]; [lia|]. cbn [read_skip].
  destruct (next cm sk s) as [c s1] eqn:E. pose proof (next_msr _ _ _ _ _ E) as (_ & _ & Hle & Hlt).
  destruct (negb (c =? 0) && valid prev c) eqn:V; [|reflexivity].
  assert (c <> 0) by (destruct (N.eqb_spec c 0); [discriminate|assumption]).
  rewrite (IH f2) by (specialize (Hlt H); lia). reflexivity.
Qed.

Lemma read_skip_some : forall f cm sk valid prev s, (msr s < f)%nat ->
  exists w s', read_skip f cm sk valid prev s = Some (w, s') /\ (msr s' <= msr s)%nat.
Proof.
  induction f as [|f IH]; intros cm sk valid prev s H; [lia|]. cbn [read_skip].
  destruct (next cm sk s) as [c s1] eqn:E. pose proof (next_msr _ _ _ _ _ E) as (_ & _ & Hle & Hlt).
  destruct (negb (c =? 0) && valid prev c) eqn:V.
  - assert (c <> 0) by (destruct (N.eqb_spec c 0); [discriminate|assumption]).
    destruct (IH cm sk valid c s1) as (w & s' & Hr & Hm); [specialize (Hlt H0); lia|].
    rewrite Hr. exists (c :: w), s'. split; [reflexivity|lia].
  - exists [], (unread s1). split; [reflexivity|]. eapply msr_unread_next; eauto.
Qed.

Lemma read_skip_msr : forall f cm sk valid prev s w s',
  read_skip f cm sk valid prev s = Some (w, s') -> (msr s' <= msr s)%nat.
Proof.
  induction f as [|f IH]; intros cm sk valid prev s w s' H; [discriminate|]. cbn [read_skip] in H.
  destruct (next cm sk s) as [c s1] eqn:E. pose proof (next_msr _ _ _ _ _ E) as (_ & _ & Hle & _).
  destruct (negb (c =? 0) && valid prev c).
  - destruct (read_skip f cm sk valid c s1) as [[w2 s2]|] eqn:R; [|discriminate].
    inversion H; subst. apply IH in R. lia.
  - inversion H; subst. pose proof (msr_unread_next _ _ _ _ _ E). lia.
Qed.

(* if the first rune is accepted, the scan makes progress *)
Lemma read_skip_progress : forall f cm sk valid prev s w s',
  read_skip f cm sk valid prev s = Some (w, s') ->
  fst (next cm sk s) <> 0 -> valid prev (fst (next cm sk s)) = true ->
  (msr s' < msr s)%nat.
Proof.
  intros f cm sk valid prev s w s' H Hc Hv. destruct f as [|f]; [discriminate|]. cbn [read_skip] in H.
  destruct (next cm sk s) as [c s1] eqn:E. cbn in Hc, Hv.
  pose proof (next_msr _ _ _ _ _ E) as (_ & _ & Hle & Hlt). specialize (Hlt Hc).
  rewrite Hv in H. destruct (N.eqb_spec c 0); [contradiction|]. cbn in H.
  destruct (read_skip f cm sk valid c s1) as [[w2 s2]|] eqn:R; [|discriminate].
  inversion H; subst. apply read_skip_msr in R. lia.
Qed.

(* ---- operator scanner *)
Definition nonul (sufs : list str) : Prop := forall o, In o sufs -> ~ In 0 o.

Lemma step_ops_nonul : forall sufs r, nonul sufs -> nonul (step_ops sufs r).
Proof.
  intros sufs r H o Ho. unfold step_ops in Ho. apply in_flat_map in Ho. destruct Ho as (x & Hx & Hin).
  destruct x as [|c t]; [destruct Hin|]. destruct (c =? r); [|destruct Hin].
  destruct Hin as [<-|[]]. intro H0. apply (H _ Hx). right. exact H0.
Qed.

Lemma step_ops_nul : forall sufs, nonul sufs -> step_ops sufs 0 = [].
Proof.
  intros sufs H. destruct (step_ops sufs 0) as [|x l] eqn:E; [reflexivity|].
  assert (Hin : In x (step_ops sufs 0)) by (rewrite E; left; reflexivity).
  unfold step_ops in Hin. apply in_flat_map in Hin. destruct Hin as (y & Hy & Hin).
  destruct y as [|c t]; [destruct Hin|]. destruct (N.eqb_spec c 0); [|destruct Hin].
  subst. exfalso. apply (H _ Hy). left. reflexivity.
Qed.

Lemma op_loop_fuel : forall f1 f2 cm sufs s, nonul sufs -> (msr s < f1)%nat -> (msr s < f2)%nat ->
  op_loop f1 cm sufs s = op_loop f2 cm sufs s.
Proof.
  induction f1 as [|f1 IH]; intros f2 cm sufs s Hn H1 H2; [lia|].
  destruct f2 as [|f2]; [lia|]. cbn [op_loop].
  destruct (next cm true s) as [r s1] eqn:E. pose proof (next_msr _ _ _ _ _ E) as (_ & _ & Hle & Hlt).
  destruct (step_ops sufs r) as [|x l] eqn:S; [reflexivity|].
  assert (r <> 0) by (intro; subst; rewrite step_ops_nul in S by assumption; discriminate).
  rewrite (IH f2); [reflexivity| |specialize (Hlt H); lia|specialize (Hlt H); lia].
  rewrite <- S. apply step_ops_nonul. assumption.
Qed.

Lemma op_loop_some : forall f cm sufs s, nonul sufs -> (msr s < f)%nat ->
  exists w ok s', op_loop f cm sufs s = Some (w, ok, s').
Proof.
  induction f as [|f IH]; intros cm sufs s Hn H; [lia|]. cbn [op_loop].
  destruct (next cm true s) as [r s1] eqn:E. pose proof (next_msr _ _ _ _ _ E) as (_ & _ & Hle & Hlt).
  destruct (step_ops sufs r) as [|x l] eqn:S; [eauto|].
  assert (r <> 0) by (intro; subst; rewrite step_ops_nul in S by assumption; discriminate).
  destruct (IH cm (x :: l) s1) as (w & ok & s' & Hr); [rewrite <- S; apply step_ops_nonul; assumption|specialize (Hlt H0); lia|].
  rewrite Hr. eauto.
Qed.

Lemma op_loop_msr : forall f cm sufs s w ok s', op_loop f cm sufs s = Some (w, ok, s') -> (msr s' <= msr s)%nat.
Proof.
  induction f as [|f IH]; intros cm sufs s w ok s' H; [discriminate|]. cbn [op_loop] in H.
  destruct (next cm true s) as [r s1] eqn:E. pose proof (next_msr _ _ _ _ _ E) as (_ & _ & Hle & _).
  destruct (step_ops sufs r) as [|x l] eqn:S.
  - inversion H; subst. eapply msr_unread_next; eauto.
  - destruct (op_loop f cm (x :: l) s1) as [[[w2 ok2] s2]|] eqn:R; [|discriminate].
    inversion H; subst. apply IH in R. lia.
Qed.

Lemma parse_operator_fuel : forall f1 f2 cm ops s, nonul ops -> (msr s < f1)%nat -> (msr s < f2)%nat ->
  parse_operator f1 cm ops s = parse_operator f2 cm ops s.
Proof.
  intros f1 f2 cm ops s Hn H1 H2. unfold parse_operator.
  destruct (next cm true s) as [r s1] eqn:E. pose proof (next_msr _ _ _ _ _ E) as (_ & _ & Hle & _).
  destruct (step_ops ops r) as [|x l] eqn:S; [reflexivity|].
  rewrite (op_loop_fuel f1 f2); [reflexivity| |lia|lia]. rewrite <- S. apply step_ops_nonul. assumption.
Qed.

Lemma parse_operator_some : forall f cm ops s, nonul ops -> (msr s < f)%nat ->
  exists w ok s', parse_operator f cm ops s = Some (w, ok, s').
Proof.
  intros f cm ops s Hn H. unfold parse_operator.
  destruct (next cm true s) as [r s1] eqn:E. pose proof (next_msr _ _ _ _ _ E) as (_ & _ & Hle & _).
  destruct (step_ops ops r) as [|x l] eqn:S; [eauto|].
  destruct (op_loop_some f cm (x :: l) s1) as (w & ok & s' & Hr); [rewrite <- S; apply step_ops_nonul; assumption|lia|].
  rewrite Hr. eauto.
Qed.

Lemma parse_operator_msr : forall f cm ops s w ok s', parse_operator f cm ops s = Some (w, ok, s') ->
  fst (next cm true s) <> 0 -> (msr s' < msr s)%nat.
Proof.
  intros f cm ops s w ok s' H Hc. unfold parse_operator in H.
  destruct (next cm true s) as [r s1] eqn:E. pose proof (next_msr _ _ _ _ _ E) as (_ & _ & Hle & Hlt).
  cbn in Hc. specialize (Hlt Hc).
  destruct (step_ops ops r) as [|x l] eqn:S.
  - inversion H; subst. lia.
  - destruct (op_loop f cm (x :: l) s1) as [[[w2 ok2] s2]|] eqn:R; [|discriminate].
    inversion H; subst. apply op_loop_msr in R. lia.
Qed.

(* ---- readStr *)
Lemma read_str_fuel : forall f1 f2 cm s, (msr s < f1)%nat -> (msr s < f2)%nat ->
  read_str f1 cm s = read_str f2 cm s.
Proof.
  induction f1 as [|f1 IH]; intros f2 cm s H1 H2; [lia|].
  destruct f2 as [|f2]; [lia|]. cbn [read_str].
  destruct (next cm false s) as [c s1] eqn:E. pose proof (next_msr _ _ _ _ _ E) as (_ & _ & Hle & Hlt).
  destruct (c =? 34); [reflexivity|].
  destruct (N.eqb_spec c 0) as [|Hc]; [subst; reflexivity|]. specialize (Hlt Hc). cbn [orb].
  destruct ((c =? 10) || (c =? 13)); [reflexivity|].
  destruct (c =? 92).
  - destruct (next cm false s1) as [i s2] eqn:E2. pose proof (next_msr _ _ _ _ _ E2) as (_ & _ & Hle2 & _).
    rewrite (IH f2) by lia. reflexivity.
  - rewrite (IH f2) by lia. reflexivity.
Qed.

Lemma read_str_some : forall f cm s, (msr s < f)%nat ->
  exists r s', read_str f cm s = Some (r, s').
Proof.
  induction f as [|f IH]; intros cm s H; [lia|]. cbn [read_str].
  destruct (next cm false s) as [c s1] eqn:E. pose proof (next_msr _ _ _ _ _ E) as (_ & _ & Hle & Hlt).
  destruct (c =? 34); [eauto|].
  destruct (N.eqb_spec c 0) as [|Hc]; [subst; cbn; eauto|]. specialize (Hlt Hc). cbn [orb].
  destruct ((c =? 10) || (c =? 13)); [eauto|].
  destruct (c =? 92).
  - destruct (next cm false s1) as [i s2] eqn:E2. pose proof (next_msr _ _ _ _ _ E2) as (_ & _ & Hle2 & _).
    destruct (IH cm s2) as (r & s' & Hr); [lia|]. rewrite Hr. destruct r; eauto.
  - destruct (IH cm s1) as (r & s' & Hr); [lia|]. rewrite Hr. destruct r; eauto.
Qed.

Lemma read_str_msr : forall f cm s r s', read_str f cm s = Some (r, s') -> (msr s' <= msr s)%nat.
Proof.
  induction f as [|f IH]; intros cm s r s' H; [discriminate|]. cbn [read_str] in H.
  destruct (next cm false s) as [c s1] eqn:E. pose proof (next_msr _ _ _ _ _ E) as (_ & _ & Hle & _).
  destruct (c =? 34); [inversion H; subst; lia|].
  destruct ((c =? 0) || (c =? 10) || (c =? 13)); [inversion H; subst; lia|].
  destruct (c =? 92).
  - destruct (next cm false s1) as [i s2] eqn:E2. pose proof (next_msr _ _ _ _ _ E2) as (_ & _ & Hle2 & _).
    destruct (read_str f cm s2) as [[[w|] s3]|] eqn:R; [| |discriminate];
      inversion H; subst; apply IH in R; lia.
  - destruct (read_str f cm s1) as [[[w|] s3]|] eqn:R; [| |discriminate];
      inversion H; subst; apply IH in R; lia.
Qed.

(* ================================================================== 3. one iteration of run *)
Definition ops_ok (cfg : tcfg) : Prop := nonul (c_ops cfg).

Lemma next_unread : forall cm sk s, s_isLast s = false -> next cm sk (unread s) = (s_last s, s).
Proof. intros cm sk [rs il l ln] H. cbn in H. subst. reflexivity. Qed.

Lemma step_word_fuel : forall f1 f2 cfg lt ln s1, ops_ok cfg ->
  (msr (unread s1) < f1)%nat -> (msr (unread s1) < f2)%nat ->
  step_word f1 cfg lt ln s1 = step_word f2 cfg lt ln s1.
Proof.
  intros f1 f2 cfg lt ln s1 Ho H1 H2. unfold step_word. cbv zeta. rewrite peek_unread.
  rewrite (read_skip_fuel f1 f2 _ _ (number_valid cfg)) by assumption.
  rewrite (read_skip_fuel f1 f2 _ _ (ident_valid cfg)) by assumption.
  rewrite (parse_operator_fuel f1 f2) by assumption. reflexivity.
Qed.

Lemma step_string_fuel : forall f1 f2 cfg ln s1, (msr s1 < f1)%nat -> (msr s1 < f2)%nat ->
  step_string f1 cfg ln s1 = step_string f2 cfg ln s1.
Proof. intros. unfold step_string. rewrite (read_str_fuel f1 f2) by assumption. reflexivity. Qed.

Lemma step_quoted_fuel : forall f1 f2 cfg lt ln s1, (msr s1 < f1)%nat -> (msr s1 < f2)%nat ->
  step_quoted f1 cfg lt ln s1 = step_quoted f2 cfg lt ln s1.
Proof. intros. unfold step_quoted. cbv zeta. rewrite (read_skip_fuel f1 f2) by assumption. reflexivity. Qed.

Lemma step_fuel : forall f1 f2 cfg lt lb s, ops_ok cfg -> (msr s < f1)%nat -> (msr s < f2)%nat ->
  step f1 cfg lt lb s = step f2 cfg lt lb s.
Proof.
  intros f1 f2 cfg lt lb s Ho H1 H2. unfold step. cbv zeta.
  destruct (next (c_comments cfg) true s) as [n s1] eqn:E.
  pose proof (next_msr _ _ _ _ _ E) as (_ & _ & Hle & _). pose proof (msr_unread_next _ _ _ _ _ E) as Hu.
  rewrite (step_string_fuel f1 f2) by lia. rewrite (step_quoted_fuel f1 f2) by lia.
  rewrite (step_word_fuel f1 f2) by (assumption || lia). reflexivity.
Qed.

Lemma step_word_go : forall f cfg lt ln s1, ops_ok cfg -> (msr (unread s1) < f)%nat ->
  s_isLast s1 = false -> s_last s1 <> 0 -> superscript (s_last s1) = None ->
  exists toks lt' s', step_word f cfg lt ln s1 = StGo toks lt' false s' /\ (msr s' < msr (unread s1))%nat.
Proof.
  intros f cfg lt ln s1 Ho Hf Hil Hn Hsup. unfold step_word. cbv zeta. rewrite peek_unread.
  set (n := s_last s1) in *. set (cm := c_comments cfg).
  assert (Hnx : next cm true (unread s1) = (n, s1)) by (apply next_unread; assumption).
  assert (Hsupb : is_sup n = false) by (unfold is_sup; rewrite Hsup; reflexivity).
  destruct (number_start cfg n) eqn:Hnum.
  - destruct (read_skip_some f cm true (number_valid cfg) 0 (unread s1) Hf) as (w & s4 & Hr & _).
    rewrite Hr. do 3 eexists. split; [reflexivity|].
    eapply read_skip_progress; [exact Hr| |]; rewrite Hnx; cbn [fst]; [assumption|].
    unfold number_valid. unfold number_start in Hnum. rewrite Hnum, Hsupb. reflexivity.
  - destruct (ident_start cfg n) eqn:Hid.
    + destruct (read_skip_some f cm true (ident_valid cfg) 0 (unread s1) Hf) as (w & s4 & Hr & _).
      rewrite Hr.
      assert (Hp : (msr s4 < msr (unread s1))%nat).
      { eapply read_skip_progress; [exact Hr| |]; rewrite Hnx; cbn [fst]; [assumption|].
        unfold ident_valid. unfold ident_start in Hid.
        destruct (c_letter cfg n); [reflexivity|]. cbn in Hid. rewrite Hid. apply orb_true_r. }
      destruct (assoc w (c_textops cfg)); [eauto|].
      destruct (mem_str w (c_keywords cfg)); eauto.
    + destruct (parse_operator_some f cm (c_ops cfg) (unread s1) Ho Hf) as (w & ok & s4 & Hr).
      rewrite Hr. do 3 eexists. split; [reflexivity|].
      eapply parse_operator_msr; [exact Hr|]. rewrite Hnx. assumption.
Qed.

Lemma step_string_go : forall f cfg ln s1, (msr s1 < f)%nat ->
  exists toks s', step_string f cfg ln s1 = StGo toks tInvalid false s' /\ (msr s' <= msr s1)%nat.
Proof.
  intros f cfg ln s1 Hf. unfold step_string.
  destruct (read_str_some f (c_comments cfg) s1 Hf) as (r & s' & Hr). rewrite Hr.
  apply read_str_msr in Hr. destruct r; eauto.
Qed.

Lemma step_quoted_go : forall f cfg lt ln s1, (msr s1 < f)%nat ->
  exists toks lt' s', step_quoted f cfg lt ln s1 = StGo toks lt' false s' /\ (msr s' <= msr s1)%nat.
Proof.
  intros f cfg lt ln s1 Hf. unfold step_quoted. cbv zeta.
  destruct (read_skip_some f (c_comments cfg) false (fun _ c => negb (c =? 39)) 0 s1 Hf) as (w & s2 & Hr & Hm).
  rewrite Hr. destruct (next (c_comments cfg) false s2) as [x s3] eqn:E.
  pose proof (next_msr _ _ _ _ _ E) as (_ & _ & Hle & _). do 3 eexists. split; [reflexivity|lia].
Qed.

Lemma step_go : forall f cfg lt lb s, ops_ok cfg -> (msr s < f)%nat ->
  step f cfg lt lb s = StEof \/
  exists toks lt' lb' s', step f cfg lt lb s = StGo toks lt' lb' s' /\ (msr s' < msr s)%nat.
Proof.
  intros f cfg lt lb s Ho Hf. unfold step. cbv zeta.
  destruct (next (c_comments cfg) true s) as [n s1] eqn:E.
  pose proof (next_msr _ _ _ _ _ E) as (Hil & Hl & Hle & Hlt). pose proof (msr_unread_next _ _ _ _ _ E) as Hu.
  destruct (N.eqb_spec n 10) as [->|_].
  { right. do 4 eexists. split; [reflexivity|]. assert (H10 : 10 <> 0) by discriminate. specialize (Hlt H10).
    unfold msr in *. cbn [s_str s_isLast s_last]. lia. }
  destruct ((n =? 32) || (n =? 13) || (n =? 9)) eqn:Hb.
  { right. do 4 eexists. split; [reflexivity|]. apply Hlt. intro Hz; rewrite Hz in Hb; vm_compute in Hb; discriminate Hb. }
  destruct (N.eqb_spec n 0) as [|Hn0]; [left; reflexivity|]. specialize (Hlt Hn0). right.
  destruct (n =? 40); [do 4 eexists; split; [reflexivity|lia]|].
  destruct (n =? 41); [do 4 eexists; split; [reflexivity|lia]|].
  destruct (single_tok n); [do 4 eexists; split; [reflexivity|lia]|].
  destruct (n =? 34).
  { destruct (step_string_go f cfg (s_line s1) s1) as (toks & s' & Hr & Hm); [lia|]. rewrite Hr. do 4 eexists. split; [reflexivity|lia]. }
  destruct (n =? 39).
  { destruct (step_quoted_go f cfg lt (s_line s1) s1) as (toks & lt' & s' & Hr & Hm); [lia|]. rewrite Hr. do 4 eexists. split; [reflexivity|lia]. }
  destruct (superscript n) eqn:Hsup; [do 4 eexists; split; [reflexivity|lia]|].
  destruct (step_word_go f cfg lt (s_line s1) s1) as (toks & lt' & s' & Hr & Hm); try assumption; try lia; try congruence.
  rewrite Hr. do 4 eexists. split; [reflexivity|lia].
Qed.

(* ================================================================== 4. run: fuel, totality *)
Lemma run_fuel : forall f1 f2 cfg lt lb s, ops_ok cfg -> (msr s < f1)%nat -> (msr s < f2)%nat ->
  run f1 cfg lt lb s = run f2 cfg lt lb s.
Proof.
  induction f1 as [|f1 IH]; intros f2 cfg lt lb s Ho H1 H2; [lia|].
  destruct f2 as [|f2]; [lia|]. cbn [run]. rewrite (step_fuel (S f1) (S f2)) by assumption.
  destruct (step_go (S f2) cfg lt lb s Ho H2) as [He|(toks & lt' & lb' & s' & Hs & Hm)]; rewrite ?He, ?Hs; [reflexivity|].
  rewrite (IH f2) by (assumption || lia). reflexivity.
Qed.

Lemma run_some : forall f cfg lt lb s, ops_ok cfg -> (msr s < f)%nat -> exists ts, run f cfg lt lb s = Some ts.
Proof.
  induction f as [|f IH]; intros cfg lt lb s Ho H; [lia|]. cbn [run].
  destruct (step_go (S f) cfg lt lb s Ho H) as [He|(toks & lt' & lb' & s' & Hs & Hm)]; rewrite ?He, ?Hs; [eauto|].
  destruct (IH cfg lt' lb' s' Ho) as (ts & Hr); [lia|]. rewrite Hr. eauto.
Qed.

(* C04, tokenizer half: scanning is total; the fuel tokenize uses (length + 2) always suffices *)
Theorem tokenize_total_lemma : forall cfg rs, ops_ok cfg ->
  exists ts, tokenize_fuel (length rs + 2) cfg rs = Some ts.
Proof.
  intros cfg rs Ho. unfold tokenize_fuel. apply run_some; [assumption|]. unfold msr, fresh. cbn. lia.
Qed.

(* fuel-free token list of a state *)
Definition lex (cfg : tcfg) (lt : ttype) (lb : bool) (s : st) : list token :=
  match run (S (msr s)) cfg lt lb s with Some l => l | None => [] end.

Lemma tokenize_lex : forall cfg rs, ops_ok cfg -> tokenize cfg rs = lex cfg tInvalid false (fresh rs 1).
Proof.
  intros cfg rs Ho. unfold tokenize, tokenize_fuel, lex.
  rewrite (run_fuel (length rs + 2) (S (msr (fresh rs 1)))); [reflexivity|assumption| |]; unfold msr, fresh; cbn; lia.
Qed.

Lemma lex_unfold : forall cfg lt lb s, ops_ok cfg ->
  lex cfg lt lb s = match step (S (msr s)) cfg lt lb s with
                    | StGo toks lt' lb' s' => toks ++ lex cfg lt' lb' s'
                    | _ => []
                    end.
Proof.
  intros cfg lt lb s Ho. unfold lex at 1. cbn [run].
  destruct (step_go (S (msr s)) cfg lt lb s Ho) as [He|(toks & lt' & lb' & s' & Hs & Hm)]; [lia|rewrite He; reflexivity|].
  rewrite Hs. unfold lex. rewrite (run_fuel (msr s) (S (msr s'))) by (assumption || lia).
  destruct (run_some (S (msr s')) cfg lt' lb' s' Ho) as (ts & Hr); [lia|]. rewrite Hr. reflexivity.
Qed.

(* the same with any sufficient fuel *)
Lemma lex_step : forall f cfg lt lb s, ops_ok cfg -> (msr s < f)%nat ->
  lex cfg lt lb s = match step f cfg lt lb s with
                    | StGo toks lt' lb' s' => toks ++ lex cfg lt' lb' s'
                    | _ => []
                    end.
Proof. intros. rewrite lex_unfold by assumption. rewrite (step_fuel (S (msr s)) f) by (assumption || lia). reflexivity. Qed.

(* ================================================================== 5. lookahead and separators *)

(* a state without cached rune: t.last is irrelevant *)
Lemma lex_nolast : forall cfg lt lb rs l ln, ops_ok cfg ->
  lex cfg lt lb (mkSt rs false l ln) = lex cfg lt lb (fresh rs ln).
Proof.
  intros cfg lt lb rs l ln Ho.
  rewrite (lex_step (S (length rs))) by (assumption || (unfold msr; cbn; lia)).
  rewrite (lex_step (S (length rs)) _ _ _ (fresh rs ln)) by (assumption || (unfold msr; cbn; lia)).
  unfold step. cbv zeta. rewrite next_nolast. reflexivity.
Qed.

(* Lemma A: the lookahead a scanner does behind a token (next(true), then unread) is invisible to run *)
Lemma lex_unread_next : forall cfg lt lb s, ops_ok cfg -> s_isLast s = false ->
  lex cfg lt lb (unread (snd (next (c_comments cfg) true s))) = lex cfg lt lb s.
Proof.
  intros cfg lt lb s Ho Hil.
  destruct (next (c_comments cfg) true s) as [n s1] eqn:E. cbn [snd].
  pose proof (msr_unread_next _ _ _ _ _ E) as Hu.
  rewrite (lex_step (S (msr s))) by (assumption || lia).
  rewrite (lex_step (S (msr s)) _ _ _ s) by (assumption || lia).
  unfold step. cbv zeta.
  replace s1 with (snd (next (c_comments cfg) true s)) by (rewrite E; reflexivity).
  rewrite next_unread_next by assumption. reflexivity.
Qed.

Lemma lex_eof : forall cfg lt lb ln, ops_ok cfg -> lex cfg lt lb (fresh [] ln) = [].
Proof. intros. rewrite lex_unfold by assumption. reflexivity. Qed.

Lemma count_lf_cons : forall c s, count_lf (c :: s) = (if c =? 10 then 1 else 0) + count_lf s.
Proof.
  intros c s. unfold count_lf. cbn [filter]. rewrite (N.eqb_sym 10 c).
  destruct (c =? 10); cbn [length]; lia.
Qed.

Lemma count_lf_app : forall a b, count_lf (a ++ b) = count_lf a + count_lf b.
Proof.
  induction a as [|c a IH]; intros b; [reflexivity|]. cbn [app]. rewrite !count_lf_cons, IH. lia.
Qed.

(* one step on a state with empty cache, in terms of nextf *)
Lemma lex_fresh_blank : forall cfg lt lb rs ln n rs' ln', ops_ok cfg ->
  nextf (c_comments cfg) true rs ln = (n, rs', ln') ->
  (n = 32 \/ n = 13 \/ n = 9) ->
  lex cfg lt lb (fresh rs ln) = lex cfg lt true (fresh rs' ln').
Proof.
  intros cfg lt lb rs ln n rs' ln' Ho Hn Hb. rewrite lex_unfold by assumption.
  unfold step. cbv zeta. unfold fresh at 1. rewrite next_fresh, Hn.
  destruct Hb as [Hb|[Hb|Hb]]; subst n; cbn; apply lex_nolast; assumption.
Qed.

Lemma lex_fresh_lf : forall cfg lt lb rs ln rs' ln', ops_ok cfg ->
  nextf (c_comments cfg) true rs ln = (10, rs', ln') ->
  lex cfg lt lb (fresh rs ln) = lex cfg lt true (fresh rs' (ln' + 1)).
Proof.
  intros cfg lt lb rs ln rs' ln' Ho Hn. rewrite lex_unfold by assumption.
  unfold step. cbv zeta. unfold fresh at 1. rewrite next_fresh, Hn. cbn. apply lex_nolast; assumption.
Qed.

Lemma lex_fresh_eof : forall cfg lt lb rs ln rs' ln', ops_ok cfg ->
  nextf (c_comments cfg) true rs ln = (0, rs', ln') -> lex cfg lt lb (fresh rs ln) = [].
Proof.
  intros cfg lt lb rs ln rs' ln' Ho Hn. rewrite lex_unfold by assumption.
  unfold step. cbv zeta. unfold fresh at 1. rewrite next_fresh, Hn. reflexivity.
Qed.

Lemma nextf_plain : forall cm sk c r ln, c <> 47 -> nextf cm sk (c :: r) ln = (al sk c, r, ln).
Proof.
  intros cm sk c r ln H. unfold nextf. destruct (N.eqb_spec c 47); [contradiction|].
  rewrite !andb_false_r. reflexivity.
Qed.

Lemma skip_block_body : forall b r ln, no_star_slash (b ++ [42]) = true ->
  skip_block (b ++ 42 :: 47 :: r) ln = (match r with [] => None | _ => Some r end, ln + count_lf b).
Proof.
  induction b as [|c b IH]; intros r ln H.
  - cbn. rewrite N.add_0_r. destruct r; reflexivity.
  - cbn [app skip_block]. rewrite count_lf_cons.
    assert (Hns : no_star_slash (b ++ [42]) = true).
    { cbn [app no_star_slash] in H. destruct (b ++ [42]) eqn:Eb; [destruct b; discriminate|].
      apply andb_true_iff in H. tauto. }
    destruct (N.eqb_spec c 42) as [->|Hc].
    + cbn [N.eqb Pos.eqb]. destruct b as [|d b'].
      * cbn [app]. cbn. rewrite N.add_0_r. specialize (IH r ln Hns). cbn in IH. rewrite N.add_0_r in IH. exact IH.
      * cbn [app]. cbn [app no_star_slash] in H. rewrite N.eqb_refl in H. cbn [andb] in H.
        destruct (d =? 47) eqn:Ed; [discriminate|]. cbn [negb andb] in H.
        specialize (IH r ln Hns). cbn [app] in IH. rewrite IH. cbn. reflexivity.
    + destruct (b ++ 42 :: 47 :: r) eqn:Eb; [destruct b; discriminate|]. rewrite <- Eb.
      rewrite IH by assumption. f_equal. destruct (c =? 10); lia.
Qed.

Lemma skip_block_open : forall b ln, no_star_slash b = true -> fst (skip_block b ln) = None.
Proof.
  induction b as [|c b IH]; intros ln H; [reflexivity|]. cbn [skip_block].
  destruct (c =? 42) eqn:Ec.
  - destruct b as [|d b']; [reflexivity|]. cbn [no_star_slash] in H. rewrite Ec in H. cbn [andb] in H.
    destruct (d =? 47); [discriminate|]. cbn [negb andb] in H. apply IH. exact H.
  - destruct b as [|d b']; [reflexivity|]. apply IH. cbn [no_star_slash] in H.
    apply andb_true_iff in H. tauto.
Qed.

Definition no_eol (b : list N) : bool := forallb (fun c => negb ((c =? 10) || (c =? 13))) b.

Lemma skip_line_body : forall b t r, no_eol b = true -> (t = 10 \/ t = 13) ->
  skip_line (b ++ t :: r) = Some (t, r).
Proof.
  induction b as [|c b IH]; intros t r H Ht.
  - cbn. destruct Ht as [Ht|Ht]; subst t; reflexivity.
  - cbn in *. apply andb_true_iff in H. destruct H as [H1 H2].
    destruct ((c =? 10) || (c =? 13)); [discriminate|]. apply IH; assumption.
Qed.

Lemma skip_line_open : forall b, no_eol b = true -> skip_line b = None.
Proof.
  induction b as [|c b IH]; intros H; [reflexivity|]. cbn in *. apply andb_true_iff in H. destruct H as [H1 H2].
  destruct ((c =? 10) || (c =? 13)); [discriminate|]. apply IH; assumption.
Qed.

Lemma lex_line_eq : forall cfg lt lb r a b, a = b -> lex cfg lt lb (fresh r a) = lex cfg lt lb (fresh r b).
Proof. intros; subst; reflexivity. Qed.

Ltac solve_side :=
  first [assumption | (rewrite nextf_plain by discriminate; reflexivity) | (left; reflexivity)
        | (right; left; reflexivity) | (right; right; reflexivity)].

(* a separator in front of the unread input is skipped; it sets lastWasBlank and advances the line by its LFs *)
Lemma lex_sep : forall cfg lt lb x r ln, ops_ok cfg -> sep_ok (c_comments cfg) x = true -> sep_final x = false ->
  lex cfg lt lb (fresh (sep_text x ++ r) ln) = lex cfg lt true (fresh r (ln + count_lf (sep_text x))).
Proof.
  intros cfg lt lb x r ln Ho Hok Hfin.
  destruct x as [| | | |b t|b|b|b]; cbn [sep_text app]; try discriminate.
  - rewrite (lex_fresh_blank cfg lt lb _ ln 32 r ln) by solve_side. apply lex_line_eq; cbn; lia.
  - rewrite (lex_fresh_blank cfg lt lb _ ln 9 r ln) by solve_side. apply lex_line_eq; cbn; lia.
  - rewrite (lex_fresh_blank cfg lt lb _ ln 13 r ln) by solve_side. apply lex_line_eq; cbn; lia.
  - rewrite (lex_fresh_lf cfg lt lb _ ln r ln) by solve_side. apply lex_line_eq; cbn; lia.
  - (* line comment *)
    cbn [sep_ok] in Hok. apply andb_true_iff in Hok. destruct Hok as [Hok Ht]. apply andb_true_iff in Hok. destruct Hok as [Hcm Hb].
    assert (Ht' : t = 10 \/ t = 13) by (apply orb_true_iff in Ht; destruct Ht as [Ht|Ht]; apply N.eqb_eq in Ht; auto).
    assert (Hnf : nextf (c_comments cfg) true (47 :: 47 :: b ++ [t] ++ r) ln = (t, r, ln)).
    { unfold nextf. rewrite Hcm. cbn [andb N.eqb Pos.eqb]. cbn [app]. rewrite skip_line_body by assumption.
      destruct Ht' as [Ht'|Ht']; subst t; reflexivity. }
    rewrite <- app_assoc. rewrite !count_lf_cons. cbn [N.eqb]. rewrite count_lf_app.
    assert (Hcb : count_lf b = 0).
    { clear - Hb. induction b as [|c b IH]; [reflexivity|]. cbn in Hb. apply andb_true_iff in Hb. destruct Hb as [H1 H2].
      rewrite count_lf_cons, IH by assumption. destruct (c =? 10); [discriminate|reflexivity]. }
    rewrite Hcb. destruct Ht' as [Ht'|Ht']; subst t.
    + rewrite (lex_fresh_lf cfg lt lb _ ln r ln) by assumption. apply lex_line_eq; cbn; lia.
    + rewrite (lex_fresh_blank cfg lt lb _ ln 13 r ln) by solve_side. apply lex_line_eq; cbn; lia.
  - (* block comment *)
    cbn [sep_ok] in Hok. apply andb_true_iff in Hok. destruct Hok as [Hcm Hb].
    rewrite <- app_assoc. cbn [app].
    assert (Hcl : count_lf (47 :: 42 :: b ++ [42; 47]) = count_lf b).
    { rewrite !count_lf_cons, count_lf_app. cbn. lia. }
    replace (count_lf (47 :: 42 :: b ++ 42 :: 47 :: [])) with (count_lf b) in * by (symmetry; exact Hcl).
    destruct r as [|e r'].
    + rewrite lex_eof by assumption.
      apply (lex_fresh_eof cfg lt lb _ ln [] (ln + count_lf b)); [assumption|].
      unfold nextf. rewrite Hcm. cbn [andb N.eqb Pos.eqb]. rewrite skip_block_body by assumption. reflexivity.
    + apply (lex_fresh_blank cfg lt lb _ ln 32); auto.
      unfold nextf. rewrite Hcm. cbn [andb N.eqb Pos.eqb]. rewrite skip_block_body by assumption. reflexivity.
Qed.

Definition is_nil {A} (l : list A) : bool := match l with [] => true | _ => false end.
Definition seps_ok (cm : bool) (l : list sep) : bool := forallb (fun x => sep_ok cm x && negb (sep_final x)) l.

Lemma lex_seps : forall l cfg lt lb r ln, ops_ok cfg -> seps_ok (c_comments cfg) l = true ->
  lex cfg lt lb (fresh (seps_text l ++ r) ln) = lex cfg lt (lb || negb (is_nil l)) (fresh r (ln + count_lf (seps_text l))).
Proof.
  induction l as [|x l IH]; intros cfg lt lb r ln Ho H.
  - cbn. rewrite orb_false_r. apply lex_line_eq. cbn. lia.
  - cbn [seps_ok forallb] in H. apply andb_true_iff in H. destruct H as [Hx Hl]. apply andb_true_iff in Hx. destruct Hx as [Hx Hf].
    apply negb_true_iff in Hf.
    unfold seps_text. cbn [flat_map]. fold (seps_text l). rewrite <- app_assoc.
    rewrite lex_sep by assumption. rewrite IH by assumption. cbn [is_nil negb]. rewrite orb_true_r. cbn [orb].
    apply lex_line_eq. rewrite count_lf_app. lia.
Qed.

Lemma lex_final : forall cfg lt lb x ln, ops_ok cfg -> sep_ok (c_comments cfg) x = true -> sep_final x = true ->
  lex cfg lt lb (fresh (sep_text x) ln) = [].
Proof.
  intros cfg lt lb x ln Ho Hok Hfin. destruct x as [| | | |b t|b|b|b]; try discriminate; cbn [sep_text sep_ok] in *;
    apply andb_true_iff in Hok; destruct Hok as [Hcm Hb].
  - apply (lex_fresh_eof cfg lt lb _ ln [] ln); [assumption|]. unfold nextf. rewrite Hcm. cbn [andb N.eqb Pos.eqb].
    rewrite skip_line_open by assumption. reflexivity.
  - destruct (skip_block b ln) as [o l2] eqn:E. pose proof (skip_block_open b ln Hb) as Hn. rewrite E in Hn. cbn in Hn. subst o.
    apply (lex_fresh_eof cfg lt lb _ ln [] l2); [assumption|]. unfold nextf. rewrite Hcm. cbn [andb N.eqb Pos.eqb].
    rewrite E. reflexivity.
Qed.

(* ================================================================== 6. layouts *)

(* [w] is the text of a lexeme denoting [toks]: whenever it is followed by an input r satisfying C, the scanner
   sends exactly toks (on the line w starts on) and continues in front of r *)
Definition lexeme_at (cfg : tcfg) (lt : ttype) (lb : bool) (w : list N) (toks : list ptok) (lt' : ttype)
  (C : list N -> Prop) : Prop :=
  forall r ln, C r ->
    lex cfg lt lb (fresh (w ++ r) ln) = map (at_line ln) toks ++ lex cfg lt' false (fresh r ln).

(* well-formed layout, starting with lastTokenType = lt and lastWasBlank = lb *)
Inductive wf_layout (cfg : tcfg) : ttype -> bool -> list item -> Prop :=
| wf_nil : forall lt lb, wf_layout cfg lt lb []
| wf_sep : forall lt lb l items, seps_ok (c_comments cfg) l = true ->
    wf_layout cfg lt (lb || negb (is_nil l)) items -> wf_layout cfg lt lb (ISep l :: items)
| wf_sep_final : forall lt lb l x, seps_ok (c_comments cfg) l = true ->
    sep_ok (c_comments cfg) x = true -> sep_final x = true -> wf_layout cfg lt lb [ISep (l ++ [x])]
| wf_lex : forall lt lb w toks lt' C items, lexeme_at cfg lt lb w toks lt' C -> count_lf w = 0 ->
    C (layout_text items) -> wf_layout cfg lt' false items -> wf_layout cfg lt lb (ILex w toks :: items).

Theorem layout_correct : forall cfg lt lb items, ops_ok cfg -> wf_layout cfg lt lb items ->
  forall ln, lex cfg lt lb (fresh (layout_text items) ln) = expect items ln.
Proof.
  intros cfg lt lb items Ho H. induction H as [lt lb|lt lb l items Hs Hw IH|lt lb l x Hs Hx Hf|lt lb w toks lt' C items Hl Hc HC Hw IH]; intros ln.
  - change (lex cfg lt lb (fresh [] ln) = []). apply lex_eof. assumption.
  - unfold layout_text. cbn [flat_map item_text expect]. fold (layout_text items).
    rewrite lex_seps by assumption. apply IH.
  - unfold layout_text. cbn [flat_map item_text expect app]. rewrite app_nil_r.
    unfold seps_text. rewrite flat_map_app. fold (seps_text l). cbn [flat_map]. rewrite app_nil_r.
    rewrite lex_seps by assumption. apply lex_final; assumption.
  - unfold layout_text. cbn [flat_map item_text expect]. fold (layout_text items).
    rewrite (Hl _ ln HC). rewrite IH. rewrite Hc, N.add_0_r. reflexivity.
Qed.

Definition lexeme_tokens (l : list item) : list ptok :=
  flat_map (fun i => match i with ILex _ toks => toks | ISep _ => [] end) l.

Lemma strip_expect : forall items ln, map strip_line (expect items ln) = lexeme_tokens items.
Proof.
  induction items as [|i items IH]; intros ln; [reflexivity|]. cbn [expect lexeme_tokens flat_map].
  rewrite map_app, IH. f_equal. destruct i as [l|w toks]; [reflexivity|].
  rewrite map_map. rewrite <- (map_id toks) at 2. apply map_ext. intros [ty img]. reflexivity.
Qed.

Lemma expect_app : forall pre post ln,
  expect (pre ++ post) ln = expect pre ln ++ expect post (ln + count_lf (layout_text pre)).
Proof.
  induction pre as [|i pre IH]; intros post ln.
  - cbn. rewrite N.add_0_r. reflexivity.
  - cbn [app expect]. rewrite IH. rewrite <- app_assoc. f_equal. f_equal. f_equal.
    unfold layout_text. cbn [flat_map]. rewrite count_lf_app. lia.
Qed.

(* layout invariance: two well-formed layouts of the same lexemes give the same tokens (lines aside) *)
Theorem layout_invariance_lemma : forall cfg items items', ops_ok cfg ->
  wf_layout cfg tInvalid false items -> wf_layout cfg tInvalid false items' ->
  lexeme_tokens items = lexeme_tokens items' ->
  map strip_line (tokenize cfg (layout_text items)) = map strip_line (tokenize cfg (layout_text items')).
Proof.
  intros cfg items items' Ho H1 H2 He. rewrite !tokenize_lex by assumption.
  rewrite (layout_correct cfg _ _ items Ho H1), (layout_correct cfg _ _ items' Ho H2).
  rewrite !strip_expect. exact He.
Qed.

(* the line of a token is 1 + the number of LF in the text before its lexeme (inside comments included) *)
Theorem line_is_start_line_lemma : forall cfg pre w toks post, ops_ok cfg ->
  wf_layout cfg tInvalid false (pre ++ ILex w toks :: post) ->
  exists before after,
    tokenize cfg (layout_text (pre ++ ILex w toks :: post)) =
    before ++ map (at_line (1 + count_lf (layout_text pre))) toks ++ after.
Proof.
  intros cfg pre w toks post Ho H. rewrite tokenize_lex by assumption.
  rewrite (layout_correct cfg _ _ _ Ho H). rewrite expect_app. cbn [expect].
  eexists. eexists. reflexivity.
Qed.

(* ================================================================== 7. lexemes that end without lookahead *)
Definition anything (r : list N) : Prop := True.

Lemma nextf_raw : forall cm c r ln, nextf cm false (c :: r) ln = (c, r, ln).
Proof. intros. unfold nextf. rewrite andb_false_r. reflexivity. Qed.

(* one iteration of run on an empty cache whose first rune reads as itself *)
Lemma lex_head : forall cfg lt lb c r ln, ops_ok cfg -> c <> 47 ->
  lex cfg lt lb (fresh (c :: r) ln) =
  match step (S (S (length r))) cfg lt lb (fresh (c :: r) ln) with
  | StGo toks lt' lb' s' => toks ++ lex cfg lt' lb' s'
  | _ => []
  end.
Proof. intros. apply lex_step; [assumption|]. unfold msr, fresh. cbn. lia. Qed.

Ltac head_step Ho :=
  intros r ln _; cbn [app]; rewrite lex_head by (assumption || discriminate);
  unfold step; cbv zeta; unfold fresh at 1; rewrite next_fresh, nextf_plain by discriminate;
  cbn; rewrite lex_nolast by assumption; try reflexivity.

Lemma lexeme_open : forall cfg lt lb, ops_ok cfg ->
  lexeme_at cfg lt lb [40] ((if mul_before_open lt lb then [(tOperate, [42])] else []) ++ [(tOpen, [40])]) tInvalid anything.
Proof. intros cfg lt lb Ho. head_step Ho. destruct (mul_before_open lt lb); reflexivity. Qed.

Lemma lexeme_close : forall cfg lt lb, ops_ok cfg ->
  lexeme_at cfg lt lb [41] [(tClose, [41])] (this_ty cfg tClose) anything.
Proof. intros cfg lt lb Ho. head_step Ho. Qed.

Lemma single_tok_cases : forall n ty, single_tok n = Some ty ->
  In n [91; 93; 123; 125; 46; 58; 44; 59].
Proof.
  intros n ty H. unfold single_tok in H.
  repeat match type of H with
  | (if ?a =? ?b then _ else _) = _ => destruct (N.eqb_spec a b); [subst; cbn; tauto|]
  end. discriminate.
Qed.

Lemma lexeme_punct : forall cfg lt lb n ty, ops_ok cfg -> single_tok n = Some ty ->
  lexeme_at cfg lt lb [n] [(ty, [n])] tInvalid anything.
Proof.
  intros cfg lt lb n ty Ho H. pose proof (single_tok_cases n ty H) as Hin. cbn in Hin.
  repeat (destruct Hin as [<-|Hin]; [cbn in H; inversion H; subst; head_step Ho|]). destruct Hin.
Qed.

Lemma superscript_cases : forall n d, superscript n = Some d ->
  In (n, d) [(8304, 48); (185, 49); (178, 50); (179, 51); (8308, 52); (8309, 53); (8310, 54); (8311, 55); (8312, 56); (8313, 57)].
Proof.
  intros n d H. unfold superscript in H.
  repeat match type of H with
  | (if ?a =? ?b then _ else _) = _ => destruct (N.eqb_spec a b); [subst; inversion H; subst; cbn; tauto|]
  end.
  destruct ((8308 <=? n) && (n <=? 8313)) eqn:E; [|discriminate]. inversion H; subst. clear H.
  assert (Hr : n = 8308 \/ n = 8309 \/ n = 8310 \/ n = 8311 \/ n = 8312 \/ n = 8313) by lia.
  cbn. repeat (destruct Hr as [Hr|Hr]; [subst; cbn; tauto|]). subst. cbn. tauto.
Qed.

(* superscripts: x² is the operator ^ followed by the number 2, whatever follows *)
Lemma lexeme_superscript : forall cfg lt lb n d, ops_ok cfg -> superscript n = Some d ->
  lexeme_at cfg lt lb [n] [(tOperate, [94]); (tNumber, [d])] tInvalid anything.
Proof.
  intros cfg lt lb n d Ho H. pose proof (superscript_cases n d H) as Hin. cbn in Hin.
  repeat (destruct Hin as [Hin|Hin]; [inversion Hin; subst; head_step Ho|]). destruct Hin.
Qed.

(* ---- string literals *)
Lemma next_raw : forall cm c r l ln, next cm false (mkSt (c :: r) false l ln) = (c, mkSt r false c ln).
Proof. intros. rewrite next_fresh, nextf_raw. reflexivity. Qed.

Lemma read_str_escape : forall s f cm r l ln, no_nul s -> (length (escape s) < f)%nat ->
  read_str f cm (mkSt (escape s ++ 34 :: r) false l ln) = Some (Some s, mkSt r false 34 ln).
Proof.
  induction s as [|c s IH]; intros f cm r l ln Hn Hf.
  - destruct f as [|f]; [cbn in Hf; lia|]. cbn [escape app read_str]. rewrite next_raw. reflexivity.
  - assert (Hc : c <> 0) by (intro; subst; apply Hn; left; reflexivity).
    assert (Hs : no_nul s) by (intros Hin; apply Hn; right; exact Hin).
    cbn [escape] in *. rewrite app_length in Hf.
    destruct (N.eqb_spec c 92) as [->|H92].
    { destruct f as [|f]; [cbn in Hf; lia|]. cbn [app read_str]. rewrite !next_raw. cbn.
      rewrite IH by (assumption || (cbn in Hf; lia)). reflexivity. }
    destruct (N.eqb_spec c 34) as [->|H34].
    { destruct f as [|f]; [cbn in Hf; lia|]. cbn [app read_str]. rewrite !next_raw. cbn.
      rewrite IH by (assumption || (cbn in Hf; lia)). reflexivity. }
    destruct (N.eqb_spec c 10) as [->|H10].
    { destruct f as [|f]; [cbn in Hf; lia|]. cbn [app read_str]. rewrite !next_raw. cbn.
      rewrite IH by (assumption || (cbn in Hf; lia)). reflexivity. }
    destruct (N.eqb_spec c 13) as [->|H13].
    { destruct f as [|f]; [cbn in Hf; lia|]. cbn [app read_str]. rewrite !next_raw. cbn.
      rewrite IH by (assumption || (cbn in Hf; lia)). reflexivity. }
    destruct (N.eqb_spec c 9) as [->|H9].
    { destruct f as [|f]; [cbn in Hf; lia|]. cbn [app read_str]. rewrite !next_raw. cbn.
      rewrite IH by (assumption || (cbn in Hf; lia)). reflexivity. }
    destruct f as [|f]; [cbn in Hf; lia|]. cbn [app read_str]. rewrite next_raw.
    destruct (N.eqb_spec c 34); [contradiction|]. destruct (N.eqb_spec c 0); [contradiction|].
    destruct (N.eqb_spec c 10); [contradiction|]. destruct (N.eqb_spec c 13); [contradiction|].
    destruct (N.eqb_spec c 92); [contradiction|]. cbn [orb].
    rewrite IH by (assumption || (cbn in Hf; lia)). reflexivity.
Qed.

Lemma lexeme_string : forall cfg lt lb s, ops_ok cfg -> no_nul s ->
  lexeme_at cfg lt lb (string_literal s) [(tString, s)] tInvalid anything.
Proof.
  intros cfg lt lb s Ho Hn r ln _. unfold string_literal. cbn [app].
  rewrite (lex_step (S (S (length (escape s ++ [34] ++ r))))) by (assumption || (unfold msr, fresh; cbn; rewrite !app_length; cbn; lia)).
  unfold step. cbv zeta. unfold fresh at 1. rewrite next_fresh, nextf_plain by discriminate. cbn.
  unfold step_string. rewrite <- app_assoc. cbn [app].
  rewrite read_str_escape by (assumption || (rewrite !app_length; cbn; lia)).
  cbn. rewrite lex_nolast by assumption. reflexivity.
Qed.

(* ---- quoted identifiers *)
Lemma read_skip_quoted : forall s f cm r l ln prev, ~ In 0 s -> ~ In 39 s -> (length s < f)%nat ->
  read_skip f cm false (fun _ c => negb (c =? 39)) prev (mkSt (s ++ 39 :: r) false l ln)
  = Some (s, mkSt r true 39 ln).
Proof.
  induction s as [|c s IH]; intros f cm r l ln prev H0 H39 Hf.
  - destruct f as [|f]; [cbn in Hf; lia|]. cbn [app read_skip]. rewrite next_raw. reflexivity.
  - destruct f as [|f]; [cbn in Hf; lia|]. cbn [app read_skip]. rewrite next_raw.
    destruct (N.eqb_spec c 0) as [->|_]; [exfalso; apply H0; left; reflexivity|].
    destruct (N.eqb_spec c 39) as [->|_]; [exfalso; apply H39; left; reflexivity|]. cbn [negb andb].
    rewrite IH; [reflexivity| | |cbn in Hf; lia]; intro Hin; [apply H0|apply H39]; right; exact Hin.
Qed.

Lemma lexeme_quoted : forall cfg lt lb s, ops_ok cfg -> ~ In 0 s -> ~ In 39 s ->
  lexeme_at cfg lt lb (quoted_ident s) ((if mul_before lt then [(tOperate, [42])] else []) ++ [(tIdent, s)])
            (this_ty cfg tIdent) anything.
Proof.
  intros cfg lt lb s Ho H0 H39 r ln _. unfold quoted_ident. cbn [app].
  rewrite (lex_step (S (S (length (s ++ [39] ++ r))))) by (assumption || (unfold msr, fresh; cbn; rewrite !app_length; cbn; lia)).
  unfold step. cbv zeta. unfold fresh at 1. rewrite next_fresh, nextf_plain by discriminate. cbn.
  unfold step_quoted. cbv zeta. rewrite <- app_assoc. cbn [app].
  rewrite read_skip_quoted by (assumption || (rewrite !app_length; cbn; lia)).
  rewrite next_cached. rewrite lex_nolast by assumption. rewrite map_app.
  destruct (mul_before lt); reflexivity.
Qed.

(* ================================================================== 8. words: numbers, identifiers, keywords, text operators *)

(* a rune that peek hands out unchanged: not '/', not NUL, not a typographic alias *)
Definition plainc (c : N) : bool := negb (c =? 47) && negb (c =? 0) && (alias c =? c).

(* the stateful matcher accepts every rune of w, starting with previous rune prev *)
Fixpoint chain (valid : N -> N -> bool) (prev : N) (w : list N) : bool :=
  match w with [] => true | c :: w' => valid prev c && chain valid c w' end.

(* the rune the scanner sees next in front of r is not accepted after p (or the input ends) *)
Definition stops (cfg : tcfg) (valid : N -> N -> bool) (p : N) (r : list N) : Prop :=
  forall ln, fst (fst (nextf (c_comments cfg) true r ln)) = 0
             \/ valid p (fst (fst (nextf (c_comments cfg) true r ln))) = false.

Lemma last_cons : forall (w : list N) c p, last (c :: w) p = last w c.
Proof.
  induction w as [|d w IH]; intros c p; [reflexivity|].
  change (last (c :: d :: w) p) with (last (d :: w) p). rewrite !IH. reflexivity.
Qed.

Lemma plainc_spec : forall c, plainc c = true -> c <> 47 /\ c <> 0 /\ alias c = c.
Proof.
  intros c H. unfold plainc in H. apply andb_true_iff in H. destruct H as [H H3]. apply andb_true_iff in H. destruct H as [H1 H2].
  destruct (N.eqb_spec c 47); [discriminate|]. destruct (N.eqb_spec c 0); [discriminate|]. apply N.eqb_eq in H3. auto.
Qed.

Lemma read_skip_scan : forall w f cm valid prev r l ln, forallb plainc w = true -> chain valid prev w = true ->
  (fst (fst (nextf cm true r ln)) = 0 \/ valid (last w prev) (fst (fst (nextf cm true r ln))) = false) ->
  (length w < f)%nat ->
  read_skip f cm true valid prev (mkSt (w ++ r) false l ln) = Some (w, unread (snd (next cm true (fresh r ln)))).
Proof.
  induction w as [|c w IH]; intros f cm valid prev r l ln Hp Hc Hs Hf.
  - destruct f as [|f]; [cbn in Hf; lia|]. cbn [app read_skip last] in *. rewrite next_nolast.
    unfold fresh in *. rewrite next_fresh in *. destruct (nextf cm true r ln) as [[n rs'] ln']. cbn [fst snd] in *.
    destruct Hs as [->|Hs]; [reflexivity|]. rewrite Hs, andb_false_r. reflexivity.
  - destruct f as [|f]; [cbn in Hf; lia|]. cbn [forallb chain] in *.
    apply andb_true_iff in Hp. destruct Hp as [Hpc Hp]. apply andb_true_iff in Hc. destruct Hc as [Hvc Hc].
    destruct (plainc_spec c Hpc) as (H47 & H0 & Hal).
    cbn [app read_skip]. rewrite next_fresh, nextf_plain by assumption. unfold al. rewrite Hal.
    destruct (N.eqb_spec c 0); [contradiction|]. rewrite Hvc. cbn [negb andb].
    rewrite last_cons in Hs. rewrite IH by (assumption || (cbn in Hf; lia)). reflexivity.
Qed.

(* a first rune that reaches the default case of the switch and reads as itself *)
Definition wordhead (c : N) : bool :=
  plainc c && negb (existsb (N.eqb c) [10; 32; 13; 9; 40; 41; 34; 39])
  && match single_tok c with None => true | Some _ => false end && negb (is_sup c).

Lemma step_wordhead : forall f cfg lt lb c rest ln, wordhead c = true ->
  step f cfg lt lb (fresh (c :: rest) ln) = step_word f cfg lt ln (mkSt rest false c ln).
Proof.
  intros f cfg lt lb c rest ln H. unfold wordhead in H.
  apply andb_true_iff in H. destruct H as [H Hsup]. apply andb_true_iff in H. destruct H as [H Hsingle].
  apply andb_true_iff in H. destruct H as [Hp Hex]. destruct (plainc_spec c Hp) as (H47 & H0 & Hal).
  unfold step. cbv zeta. unfold fresh. rewrite next_fresh, nextf_plain by assumption. unfold al. rewrite Hal.
  cbn [s_line s_str s_isLast s_last]. cbn [existsb] in Hex.
  destruct (N.eqb_spec c 10); [discriminate|]. destruct (N.eqb_spec c 32); [discriminate|].
  destruct (N.eqb_spec c 13); [discriminate|]. destruct (N.eqb_spec c 9); [discriminate|].
  destruct (N.eqb_spec c 0); [contradiction|]. destruct (N.eqb_spec c 40); [discriminate|].
  destruct (N.eqb_spec c 41); [discriminate|]. destruct (N.eqb_spec c 34); [discriminate|].
  destruct (N.eqb_spec c 39); [discriminate|]. cbn [orb].
  destruct (single_tok c); [discriminate|]. unfold is_sup in Hsup. destruct (superscript c); [discriminate|]. reflexivity.
Qed.

Definition mul_toks (lt : ttype) : list ptok := if mul_before lt then [(tOperate, [42])] else [].

(* what run does with a scanned word: text operator, keyword or identifier *)
Definition word_result (cfg : tcfg) (lt : ttype) (w : str) : list ptok * ttype :=
  match assoc w (c_textops cfg) with
  | Some op => ([(tOperate, op)], tInvalid)
  | None => if mem_str w (c_keywords cfg) then ([(tKeyWord, w)], tInvalid)
            else (mul_toks lt ++ [(tIdent, w)], this_ty cfg tIdent)
  end.

Lemma word_scan : forall cfg valid c w r ln, wordhead c = true -> forallb plainc w = true ->
  chain valid 0 (c :: w) = true -> stops cfg valid (last w c) r ->
  read_skip (S (S (length (w ++ r)))) (c_comments cfg) true valid 0 (unread (mkSt (w ++ r) false c ln))
  = Some (c :: w, unread (snd (next (c_comments cfg) true (fresh r ln)))).
Proof.
  intros cfg valid c w r ln Hh Hp Hc Hs.
  change (unread (mkSt (w ++ r) false c ln)) with (mkSt (w ++ r) true c ln).
  set (f := S (length (w ++ r))). cbn [read_skip]. rewrite next_cached.
  unfold wordhead in Hh. apply andb_true_iff in Hh. destruct Hh as [Hh _]. apply andb_true_iff in Hh. destruct Hh as [Hh _].
  apply andb_true_iff in Hh. destruct Hh as [Hh _]. destruct (plainc_spec c Hh) as (_ & H0 & _).
  cbn [chain] in Hc. apply andb_true_iff in Hc. destruct Hc as [Hvc Hc].
  destruct (N.eqb_spec c 0); [contradiction|]. rewrite Hvc. cbn [negb andb].
  rewrite read_skip_scan; [reflexivity|assumption|assumption|apply Hs|subst f; rewrite app_length; lia].
Qed.

Lemma lexeme_word : forall cfg lt lb c w, ops_ok cfg -> wordhead c = true -> forallb plainc w = true ->
  number_start cfg c = false -> ident_start cfg c = true -> chain (ident_valid cfg) 0 (c :: w) = true ->
  lexeme_at cfg lt lb (c :: w) (fst (word_result cfg lt (c :: w))) (snd (word_result cfg lt (c :: w)))
            (stops cfg (ident_valid cfg) (last w c)).
Proof.
  intros cfg lt lb c w Ho Hh Hp Hnum Hid Hc r ln HC. cbn [app].
  rewrite (lex_step (S (S (length (w ++ r))))) by (assumption || (unfold msr, fresh; cbn; lia)).
  rewrite step_wordhead by assumption. unfold step_word. cbv zeta. rewrite peek_unread. cbn [s_last].
  rewrite Hnum, Hid. rewrite word_scan by assumption.
  unfold word_result, mul_toks.
  destruct (assoc (c :: w) (c_textops cfg)); cbn [fst snd].
  - rewrite lex_unread_next by (assumption || reflexivity). reflexivity.
  - destruct (mem_str (c :: w) (c_keywords cfg)); cbn [fst snd]; rewrite lex_unread_next by (assumption || reflexivity);
      [reflexivity|]. rewrite map_app. destruct (mul_before lt); reflexivity.
Qed.

Lemma lexeme_number : forall cfg lt lb c w, ops_ok cfg -> wordhead c = true -> forallb plainc w = true ->
  number_start cfg c = true -> chain (number_valid cfg) 0 (c :: w) = true ->
  lexeme_at cfg lt lb (c :: w) (mul_toks lt ++ [(tNumber, c :: w)]) (this_ty cfg tNumber)
            (stops cfg (number_valid cfg) (last w c)).
Proof.
  intros cfg lt lb c w Ho Hh Hp Hnum Hc r ln HC. cbn [app].
  rewrite (lex_step (S (S (length (w ++ r))))) by (assumption || (unfold msr, fresh; cbn; lia)).
  rewrite step_wordhead by assumption. unfold step_word. cbv zeta. rewrite peek_unread. cbn [s_last].
  rewrite Hnum. rewrite word_scan by assumption.
  rewrite lex_unread_next by (assumption || reflexivity). unfold mul_toks. rewrite map_app.
  destruct (mul_before lt); reflexivity.
Qed.

(* when does a scan stop: at the end of the input, in front of any separator, in front of a rune the matcher rejects *)
Lemma stops_nil : forall cfg valid p, stops cfg valid p [].
Proof. intros cfg valid p ln. left. reflexivity. Qed.

Definition rejects_blanks (valid : N -> N -> bool) (p : N) : Prop :=
  valid p 32 = false /\ valid p 9 = false /\ valid p 13 = false /\ valid p 10 = false.

Lemma stops_sep : forall cfg valid p x r, sep_ok (c_comments cfg) x = true -> sep_final x = false ->
  rejects_blanks valid p -> stops cfg valid p (sep_text x ++ r).
Proof.
  intros cfg valid p x r Hok Hfin (H32 & H9 & H13 & H10) ln.
  destruct x as [| | | |b t|b|b|b]; cbn [sep_text app]; try discriminate;
    try (rewrite nextf_plain by discriminate; right; cbn; assumption).
  - cbn [sep_ok] in Hok. apply andb_true_iff in Hok. destruct Hok as [Hok Ht]. apply andb_true_iff in Hok. destruct Hok as [Hcm Hb].
    assert (Ht' : t = 10 \/ t = 13) by (apply orb_true_iff in Ht; destruct Ht as [Ht|Ht]; apply N.eqb_eq in Ht; auto).
    unfold nextf. rewrite Hcm. cbn [andb N.eqb Pos.eqb]. rewrite <- app_assoc. cbn [app]. rewrite skip_line_body by assumption.
    right. destruct Ht' as [Ht'|Ht']; subst t; cbn; assumption.
  - cbn [sep_ok] in Hok. apply andb_true_iff in Hok. destruct Hok as [Hcm Hb].
    unfold nextf. rewrite Hcm. cbn [andb N.eqb Pos.eqb]. rewrite <- app_assoc. cbn [app]. rewrite skip_block_body by assumption.
    destruct r; [left; reflexivity|right; cbn; assumption].
Qed.

Lemma stops_final : forall cfg valid p x, sep_ok (c_comments cfg) x = true -> sep_final x = true ->
  stops cfg valid p (sep_text x).
Proof.
  intros cfg valid p x Hok Hfin ln. left.
  destruct x as [| | | |b t|b|b|b]; try discriminate; cbn [sep_text sep_ok] in *;
    apply andb_true_iff in Hok; destruct Hok as [Hcm Hb]; unfold nextf; rewrite Hcm; cbn [andb N.eqb Pos.eqb].
  - rewrite skip_line_open by assumption. reflexivity.
  - pose proof (skip_block_open b ln Hb) as Hn. destruct (skip_block b ln) as [o l2]. cbn in Hn. subst o. reflexivity.
Qed.

Lemma stops_rune : forall cfg valid p c r, c <> 47 -> valid p (alias c) = false -> stops cfg valid p (c :: r).
Proof. intros cfg valid p c r Hc Hv ln. rewrite nextf_plain by assumption. right. exact Hv. Qed.

(* ================================================================== 9. operators *)
Definition opener (cm : bool) (c : N) (rest : list N) : bool :=
  cm && (c =? 47) && match rest with d :: _ => (d =? 47) || (d =? 42) | [] => false end.

Lemma nextf_noopen : forall cm c rest ln, opener cm c rest = false ->
  nextf cm true (c :: rest) ln = (alias c, rest, ln).
Proof.
  intros cm c rest ln H. unfold nextf, opener, al in *. rewrite andb_true_r.
  destruct (cm && (c =? 47)); [|reflexivity]. cbn [andb] in H.
  destruct rest as [|d rest']; [reflexivity|]. apply orb_false_iff in H. destruct H as [H1 H2]. rewrite H1, H2. reflexivity.
Qed.

(* no rune of w (followed by r) opens a comment *)
Fixpoint noopen (cm : bool) (w r : list N) : bool :=
  match w with [] => true | c :: w' => negb (opener cm c (w' ++ r)) && noopen cm w' r end.

Fixpoint trie_walk (sufs : list str) (w : list N) : list str :=
  match w with [] => sufs | c :: w' => trie_walk (step_ops sufs (alias c)) w' end.
Fixpoint trie_alive (sufs : list str) (w : list N) : bool :=
  match w with
  | [] => true
  | c :: w' => negb (is_nil (step_ops sufs (alias c))) && trie_alive (step_ops sufs (alias c)) w'
  end.

Lemma op_loop_scan : forall w f cm sufs r l ln, noopen cm w r = true -> trie_alive sufs w = true ->
  step_ops (trie_walk sufs w) (fst (fst (nextf cm true r ln))) = [] -> (length w < f)%nat ->
  op_loop f cm sufs (mkSt (w ++ r) false l ln)
  = Some (map alias w, end_valid (trie_walk sufs w), unread (snd (next cm true (fresh r ln)))).
Proof.
  induction w as [|c w IH]; intros f cm sufs r l ln Hno Hal Hst Hf.
  - destruct f as [|f]; [cbn in Hf; lia|]. cbn [app op_loop trie_walk map] in *. rewrite next_nolast.
    unfold fresh in *. rewrite next_fresh in *. destruct (nextf cm true r ln) as [[n rs'] ln']. cbn [fst snd] in *.
    rewrite Hst. reflexivity.
  - destruct f as [|f]; [cbn in Hf; lia|]. cbn [noopen trie_alive trie_walk] in *.
    apply andb_true_iff in Hno. destruct Hno as [Hop Hno]. apply negb_true_iff in Hop.
    apply andb_true_iff in Hal. destruct Hal as [Hne Hal].
    cbn [app op_loop]. rewrite next_fresh, nextf_noopen by assumption.
    destruct (step_ops sufs (alias c)) as [|x t] eqn:S; [discriminate|].
    rewrite IH by (assumption || (cbn in Hf; lia)). reflexivity.
Qed.

(* the (alias-rewritten) first rune reaches the default case of the switch *)
Definition headok (n : N) : bool :=
  negb (n =? 0) && negb (existsb (N.eqb n) [10; 32; 13; 9; 40; 41; 34; 39])
  && match single_tok n with None => true | Some _ => false end && negb (is_sup n).

Lemma step_ophead : forall f cfg lt lb c rest ln, opener (c_comments cfg) c rest = false -> headok (alias c) = true ->
  step f cfg lt lb (fresh (c :: rest) ln) = step_word f cfg lt ln (mkSt rest false (alias c) ln).
Proof.
  intros f cfg lt lb c rest ln Hop H. unfold headok in H.
  apply andb_true_iff in H. destruct H as [H Hsup]. apply andb_true_iff in H. destruct H as [H Hsingle].
  apply andb_true_iff in H. destruct H as [H0 Hex].
  unfold step. cbv zeta. unfold fresh. rewrite next_fresh, nextf_noopen by assumption.
  set (n := alias c) in *.
  cbn [s_line s_str s_isLast s_last]. cbn [existsb] in Hex.
  destruct (N.eqb_spec n 10); [discriminate|]. destruct (N.eqb_spec n 32); [discriminate|].
  destruct (N.eqb_spec n 13); [discriminate|]. destruct (N.eqb_spec n 9); [discriminate|].
  destruct (N.eqb_spec n 0); [discriminate|]. destruct (N.eqb_spec n 40); [discriminate|].
  destruct (N.eqb_spec n 41); [discriminate|]. destruct (N.eqb_spec n 34); [discriminate|].
  destruct (N.eqb_spec n 39); [discriminate|]. cbn [orb].
  destruct (single_tok n); [discriminate|]. unfold is_sup in Hsup. destruct (superscript n); [discriminate|]. reflexivity.
Qed.

(* what may follow an operator: no comment opener is formed with its runes, and the next rune does not extend it *)
Definition op_follows (cfg : tcfg) (w : list N) (r : list N) : Prop :=
  noopen (c_comments cfg) w r = true /\
  forall ln, step_ops (trie_walk (c_ops cfg) w) (fst (fst (nextf (c_comments cfg) true r ln))) = [].

Definition op_tok (cfg : tcfg) (w : list N) : ptok :=
  (if end_valid (trie_walk (c_ops cfg) w) then tOperate else tInvalid, map alias w).

Lemma lexeme_operator : forall cfg lt lb c w, ops_ok cfg -> headok (alias c) = true ->
  number_start cfg (alias c) = false -> ident_start cfg (alias c) = false ->
  trie_alive (c_ops cfg) (c :: w) = true ->
  lexeme_at cfg lt lb (c :: w) [op_tok cfg (c :: w)] tInvalid (op_follows cfg (c :: w)).
Proof.
  intros cfg lt lb c w Ho Hh Hnum Hid Hal r ln [Hno Hst]. cbn [app].
  cbn [noopen] in Hno. apply andb_true_iff in Hno. destruct Hno as [Hop Hno]. apply negb_true_iff in Hop.
  rewrite (lex_step (S (S (length (w ++ r))))) by (assumption || (unfold msr, fresh; cbn; lia)).
  rewrite step_ophead by assumption. unfold step_word. cbv zeta. rewrite peek_unread. cbn [s_last].
  rewrite Hnum, Hid.
  change (unread (mkSt (w ++ r) false (alias c) ln)) with (mkSt (w ++ r) true (alias c) ln).
  unfold parse_operator. rewrite next_cached.
  cbn [trie_alive] in Hal. apply andb_true_iff in Hal. destruct Hal as [Hne Hal].
  destruct (step_ops (c_ops cfg) (alias c)) as [|x t] eqn:S; [discriminate|].
  specialize (Hst ln). cbn [trie_walk] in Hst. rewrite S in Hst.
  rewrite op_loop_scan by (assumption || (rewrite app_length; lia)).
  rewrite lex_unread_next by (assumption || reflexivity).
  unfold op_tok. cbn [trie_walk map]. rewrite S. reflexivity.
Qed.

Lemma alias_idem : forall c, alias (alias c) = alias c.
Proof.
  intros c. unfold alias.
  repeat match goal with |- context [if ?a =? ?b then _ else _] => destruct (N.eqb_spec a b); subst; try reflexivity; try lia end.
Qed.

Lemma trie_walk_alias : forall w sufs, trie_walk sufs (map alias w) = trie_walk sufs w.
Proof. induction w as [|c w IH]; intros sufs; [reflexivity|]. cbn [map trie_walk]. rewrite alias_idem. apply IH. Qed.

Lemma trie_alive_alias : forall w sufs, trie_alive sufs (map alias w) = trie_alive sufs w.
Proof. induction w as [|c w IH]; intros sufs; [reflexivity|]. cbn [map trie_alive]. rewrite alias_idem, IH. reflexivity. Qed.

(* the typographic spelling of an operator denotes the same token as its ASCII spelling *)
Lemma op_tok_alias : forall cfg w, op_tok cfg (map alias w) = op_tok cfg w.
Proof.
  intros cfg w. unfold op_tok. rewrite trie_walk_alias. f_equal.
  rewrite map_map. apply map_ext. intro c. apply alias_idem.
Qed.

(* what may follow an operator, concretely: the end of the input or a separator *)
Definition free (b : N) (sufs : list str) : Prop := forall o, In o sufs -> ~ In b o.

Lemma step_ops_free : forall b sufs r, free b sufs -> free b (step_ops sufs r).
Proof.
  intros b sufs r H o Ho. unfold step_ops in Ho. apply in_flat_map in Ho. destruct Ho as (x & Hx & Hin).
  destruct x as [|c t]; [destruct Hin|]. destruct (c =? r); [|destruct Hin].
  destruct Hin as [<-|[]]. intro H0. apply (H _ Hx). right. exact H0.
Qed.

Lemma step_ops_free_nil : forall b sufs, free b sufs -> step_ops sufs b = [].
Proof.
  intros b sufs H. destruct (step_ops sufs b) as [|x l] eqn:E; [reflexivity|].
  assert (Hin : In x (step_ops sufs b)) by (rewrite E; left; reflexivity).
  unfold step_ops in Hin. apply in_flat_map in Hin. destruct Hin as (y & Hy & Hin).
  destruct y as [|c t]; [destruct Hin|]. destruct (N.eqb_spec c b); [|destruct Hin].
  subst. exfalso. apply (H _ Hy). left. reflexivity.
Qed.

Lemma trie_walk_free : forall b w sufs, free b sufs -> free b (trie_walk sufs w).
Proof. induction w as [|c w IH]; intros sufs H; [exact H|]. cbn [trie_walk]. apply IH. apply step_ops_free. exact H. Qed.

(* no operator contains a blank, a line break or NUL *)
Definition ops_clean (cfg : tcfg) : Prop :=
  free 0 (c_ops cfg) /\ free 32 (c_ops cfg) /\ free 9 (c_ops cfg) /\ free 13 (c_ops cfg) /\ free 10 (c_ops cfg).

Lemma op_follows_nil : forall cfg w, ops_clean cfg -> noopen (c_comments cfg) w [] = true -> op_follows cfg w [].
Proof.
  intros cfg w (H0 & _) Hno. split; [assumption|]. intro ln. cbn. apply step_ops_free_nil. apply trie_walk_free. exact H0.
Qed.

Lemma op_follows_sep : forall cfg w x r, ops_clean cfg -> sep_ok (c_comments cfg) x = true -> sep_final x = false ->
  noopen (c_comments cfg) w (sep_text x ++ r) = true -> op_follows cfg w (sep_text x ++ r).
Proof.
  intros cfg w x r (H0 & H32 & H9 & H13 & H10) Hok Hfin Hno. split; [assumption|]. intro ln.
  assert (Hb : forall b, In b [0; 32; 9; 13; 10] -> step_ops (trie_walk (c_ops cfg) w) b = []).
  { intros b Hb. apply step_ops_free_nil. apply trie_walk_free. cbn in Hb.
    destruct Hb as [<-|[<-|[<-|[<-|[<-|[]]]]]]; assumption. }
  destruct x as [| | | |b t|b|b|b]; cbn [sep_text app]; try discriminate;
    try (rewrite nextf_plain by discriminate; apply Hb; cbn; tauto).
  - cbn [sep_ok] in Hok. apply andb_true_iff in Hok. destruct Hok as [Hok Ht]. apply andb_true_iff in Hok. destruct Hok as [Hcm Hbd].
    assert (Ht' : t = 10 \/ t = 13) by (apply orb_true_iff in Ht; destruct Ht as [Ht|Ht]; apply N.eqb_eq in Ht; auto).
    unfold nextf. rewrite Hcm. cbn [andb N.eqb Pos.eqb]. rewrite <- app_assoc. cbn [app]. rewrite skip_line_body by assumption.
    destruct Ht' as [Ht'|Ht']; subst t; apply Hb; cbn; tauto.
  - cbn [sep_ok] in Hok. apply andb_true_iff in Hok. destruct Hok as [Hcm Hbd].
    unfold nextf. rewrite Hcm. cbn [andb N.eqb Pos.eqb]. rewrite <- app_assoc. cbn [app]. rewrite skip_block_body by assumption.
    destruct r; apply Hb; cbn; tauto.
Qed.

(* ================================================================== 10. statements used by Props/C15.v *)

Lemma string_literal_roundtrip_lemma : forall cfg s, ops_ok cfg -> no_nul s ->
  tokenize cfg (string_literal s) = [mkTok tString s 1].
Proof.
  intros cfg s Ho Hn. rewrite tokenize_lex by assumption.
  pose proof (lexeme_string cfg tInvalid false s Ho Hn [] 1 I) as H. rewrite app_nil_r in H. rewrite H.
  rewrite lex_eof by assumption. reflexivity.
Qed.

Lemma quoted_ident_exact_lemma : forall cfg s, ops_ok cfg -> ~ In 0 s -> ~ In 39 s ->
  tokenize cfg (quoted_ident s) = [mkTok tIdent s 1].
Proof.
  intros cfg s Ho H0 H39. rewrite tokenize_lex by assumption.
  pose proof (lexeme_quoted cfg tInvalid false s Ho H0 H39 [] 1 I) as H. rewrite app_nil_r in H. rewrite H.
  rewrite lex_eof by assumption. reflexivity.
Qed.

(* an operator written with typographic aliases denotes the token of its ASCII spelling *)
Lemma aliases_equal_ascii_lemma : forall cfg lt lb c w, ops_ok cfg -> headok (alias c) = true ->
  number_start cfg (alias c) = false -> ident_start cfg (alias c) = false ->
  trie_alive (c_ops cfg) (c :: w) = true ->
  lexeme_at cfg lt lb (c :: w) [op_tok cfg (map alias (c :: w))] tInvalid (op_follows cfg (c :: w)).
Proof. intros. rewrite op_tok_alias. apply lexeme_operator; assumption. Qed.

(* comfort mode bookkeeping: which lexemes are preceded by an implicit '*' *)
Lemma comfort_bookkeeping : forall cfg, c_comfort cfg = true ->
  (this_ty cfg tNumber = tNumber /\ this_ty cfg tIdent = tIdent /\ this_ty cfg tClose = tClose) /\
  (forall lt, mul_toks lt = (if match lt with tNumber | tIdent | tClose => true | _ => false end
                             then [(tOperate, [42])] else [])) /\
  (forall lt lb, mul_before_open lt lb =
                 match lt with tNumber | tClose => true | tIdent => lb | _ => false end).
Proof.
  intros cfg H. unfold this_ty. rewrite H. repeat split.
Qed.

Lemma no_comfort_bookkeeping : forall cfg, c_comfort cfg = false -> forall t, this_ty cfg t = tInvalid.
Proof. intros cfg H t. unfold this_ty. rewrite H. reflexivity. Qed.

(* a quoted identifier is taken literally whatever the keyword table, the text operators and the operator table say *)
Lemma quoted_ident_literal_lemma : forall ops tops kws cm cf mk letter number s,
  nonul ops -> ~ In 0 s -> ~ In 39 s ->
  tokenize (mkCfg ops tops kws cm cf mk letter number) (quoted_ident s) = [mkTok tIdent s 1].
Proof. intros. apply quoted_ident_exact_lemma; assumption. Qed.
