(* Tokens as token.go defines them (shared by the tokenizer model and the parser model). *)
From P2 Require Import Base.Prelude.
Local Open Scope N_scope.

Inductive ttype :=
| tIdent | tKeyWord | tOpen | tClose | tOpenBracket | tCloseBracket | tOpenCurly | tCloseCurly
| tDot | tComma | tColon | tSemicolon | tNumber | tString | tOperate | tEof | tInvalid.

Definition ttype_eqb (a b : ttype) : bool :=
  match a, b with
  | tIdent, tIdent | tKeyWord, tKeyWord | tOpen, tOpen | tClose, tClose
  | tOpenBracket, tOpenBracket | tCloseBracket, tCloseBracket | tOpenCurly, tOpenCurly
  | tCloseCurly, tCloseCurly | tDot, tDot | tComma, tComma | tColon, tColon
  | tSemicolon, tSemicolon | tNumber, tNumber | tString, tString | tOperate, tOperate
  | tEof, tEof | tInvalid, tInvalid => true
  | _, _ => false
  end.

(* Token{typ, image, line} *)
Record token := mkTok { ttyp : ttype; timg : str; tline : N }.

Definition token_eqb (a b : token) : bool :=
  ttype_eqb (ttyp a) (ttyp b) && str_eqb (timg a) (timg b) && N.eqb (tline a) (tline b).

(* comparison ignoring the line *)
Definition token_eqb_noline (a b : token) : bool :=
  ttype_eqb (ttyp a) (ttyp b) && str_eqb (timg a) (timg b).

(* numbering used by the harness when it prints tokens observed on the implementation *)
Definition ttype_of_N (n : N) : ttype :=
  match n with
  | 0 => tIdent | 1 => tKeyWord | 2 => tOpen | 3 => tClose | 4 => tOpenBracket | 5 => tCloseBracket
  | 6 => tOpenCurly | 7 => tCloseCurly | 8 => tDot | 9 => tComma | 10 => tColon | 11 => tSemicolon
  | 12 => tNumber | 13 => tString | 14 => tOperate | 15 => tEof | _ => tInvalid
  end.
