(* Executable model of token.go (Tokenizer) and of the matchers simpleNumber / simpleIdentifier of
   parser2.go, transcribed branch by branch: the one-rune cache (isLast/last), comment skipping inside
   peek, alias rewriting, the line counter, readSkip, parseOperator over the operator trie, readStr,
   quoted identifiers, superscripts, comfort mode (implicit "*"), EOF/NUL handling.

   The model starts after UTF-8 decoding: the input is the list of runes utf8.DecodeRuneInString
   yields one after the other (one U+FFFD per invalid byte).  unicode.IsLetter / unicode.IsNumber
   are data of the configuration (c_letter / c_number).

   INTERFACE (used by the parser model):   tokenize : tcfg -> list N -> list token
     tcfg = { c_ops      : operator list handed to NewOperatorDetector (Parser.Parse passes the binary
                           operators, then "=", "->", then the unary operators; order is irrelevant);
              c_textops  : Tokenizer.textOperators (identifier image -> operator image);
              c_keywords : Tokenizer.keyWord;
              c_comments : SetComments / Parser.AllowComments;
              c_comfort  : SetComfort / Parser.Comfort;
              c_matcher  : which Matcher pair is installed (only simpleNumber/simpleIdentifier exists);
              c_letter, c_number : unicode.IsLetter, unicode.IsNumber }
   The token list does not contain the final EOF token (Tokenizer.Next returns TokenEof = {tEof,"EOF",-1}
   forever once the channel is closed); a tInvalid token is an ordinary list element.

   This file follows the tree AFTER the `fix:` commits of branch wp-tok (block comment reads as a blank and
   parseOperator skips comments; aliases only outside literals; getLine = line of the token start;
   quoted identifiers take part in implicit multiplication).

   Definitions only; proofs are in Lex/TokProofs.v. *)
From P2 Require Import Base.Prelude Lex.Token.
Local Open Scope N_scope.

Inductive mkind := MSimple.

Record tcfg := mkCfg {
  c_ops : list str;
  c_textops : list (str * str);
  c_keywords : list str;
  c_comments : bool;
  c_comfort : bool;
  c_matcher : mkind;
  c_letter : N -> bool;
  c_number : N -> bool
}.

(* ------------------------------------------------------------------ scanner state *)
(* Tokenizer{str, isLast, last, line}; tokenLine is written once at the top of every iteration of run
   and read only through getLine inside that iteration: it is the parameter [ln] of [step] below. *)
Record st := mkSt { s_str : list N; s_isLast : bool; s_last : N; s_line : N }.

Definition fresh (rs : list N) (line : N) : st := mkSt rs false 0 line.

(* peek: switch t.last { '•','×' -> '*'; '÷' -> '/'; '–' -> '-'; 'ˆ' -> '^' } *)
Definition alias (c : N) : N :=
  if c =? 8226 then 42 else if c =? 215 then 42 else
  if c =? 247 then 47 else if c =? 8211 then 45 else
  if c =? 710 then 94 else c.

(* the loop that drops a // comment: it stops in front of LF or CR (returned as head);
   None = the input ended inside the comment (peek returns EOF from inside the loop) *)
Fixpoint skip_line (r : list N) : option (N * list N) :=
  match r with
  | [] => None
  | c :: r' => if (c =? 10) || (c =? 13) then Some (c, r') else skip_line r'
  end.

(* the loop that drops a block comment body, counting LF.
   (None, ln) = the input ended inside the comment or directly behind the closing star-slash *)
Fixpoint skip_block (r : list N) (ln : N) : option (list N) * N :=
  match r with
  | [] => (None, ln)
  | c :: r' =>
      if c =? 42 then
        match r' with
        | [] => (None, ln)
        | d :: r'' => if d =? 47
                      then match r'' with [] => (None, ln) | _ => (Some r'', ln) end
                      else skip_block r' ln
        end
      else skip_block r' (if c =? 10 then ln + 1 else ln)
  end.

(* peek with an empty cache *)
Definition peek_fresh (comments skip : bool) (s : st) : N * st :=
  match s_str s with
  | [] => (0, mkSt [] (s_isLast s) 0 (s_line s))                (* t.last = EOF; return EOF *)
  | c :: rest =>
      (* common tail of peek: alias rewrite (outside literals only), isLast = true, str = str[size:] *)
      let fin (l : N) (rest' : list N) (ln : N) :=
          let l' := if skip then alias l else l in (l', mkSt rest' true l' ln) in
      if comments && skip && (c =? 47) then
        match rest with
        | [] => fin c rest (s_line s)                           (* len(t.str) > size fails *)
        | d :: rest' =>
            if d =? 47 then
              match skip_line rest' with
              | None => (0, mkSt [] (s_isLast s) c (s_line s))   (* return EOF; t.last is still '/' *)
              | Some (c2, r2) => fin c2 r2 (s_line s)
              end
            else if d =? 42 then
              match skip_block rest' (s_line s) with
              | (None, ln) => (0, mkSt [] (s_isLast s) c ln)
              | (Some r2, ln) => fin 32 r2 ln                    (* t.last, size = ' ', 0 *)
              end
            else fin c rest (s_line s)
        end
      else fin c rest (s_line s)
  end.

Definition peek (comments skip : bool) (s : st) : N * st :=
  if s_isLast s then (s_last s, s) else peek_fresh comments skip s.

Definition set_isLast (b : bool) (s : st) : st := mkSt (s_str s) b (s_last s) (s_line s).

(* consume: if !t.isLast { t.peek(skipComment) }; t.isLast = false *)
Definition consume (comments skip : bool) (s : st) : st :=
  set_isLast false (if s_isLast s then s else snd (peek comments skip s)).

Definition next (comments skip : bool) (s : st) : N * st :=
  let '(n, s1) := peek comments skip s in (n, consume comments skip s1).

Definition unread (s : st) : st := set_isLast true s.

(* readSkip: collect while c != 0 && valid(c); the rune that stops the loop is unread.
   [valid prev c]: simpleNumber's closure remembers the previous rune it was asked about. *)
Fixpoint read_skip (fuel : nat) (comments skip : bool) (valid : N -> N -> bool) (prev : N) (s : st)
  : option (str * st) :=
  match fuel with
  | O => None
  | S f =>
      let '(c, s1) := next comments skip s in
      if negb (c =? 0) && valid prev c then
        match read_skip f comments skip valid c s1 with
        | Some (w, s2) => Some (c :: w, s2)
        | None => None
        end
      else Some ([], unread s1)
  end.

(* ------------------------------------------------------------------ operator detector *)
(* NewOperatorDetector: a trie; a node is represented by the list of remaining suffixes *)
Definition step_ops (sufs : list str) (r : N) : list str :=
  flat_map (fun s => match s with c :: t => if c =? r then [t] else [] | [] => [] end) sufs.
Definition end_valid (sufs : list str) : bool :=
  existsb (fun s => match s with [] => true | _ => false end) sufs.

Fixpoint op_loop (fuel : nat) (comments : bool) (sufs : list str) (s : st) : option (str * bool * st) :=
  match fuel with
  | O => None
  | S f =>
      let '(r, s1) := next comments true s in
      match step_ops sufs r with
      | [] => Some ([], end_valid sufs, unread s1)
      | sufs' => match op_loop f comments sufs' s1 with
                 | Some (w, ok, s2) => Some (r :: w, ok, s2)
                 | None => None
                 end
      end
  end.

Definition parse_operator (fuel : nat) (comments : bool) (ops : list str) (s : st) : option (str * bool * st) :=
  let '(r, s1) := next comments true s in
  match step_ops ops r with
  | [] => Some ([r], false, s1)
  | sufs => match op_loop fuel comments sufs s1 with
            | Some (w, ok, s2) => Some (r :: w, ok, s2)
            | None => None
            end
  end.

(* ------------------------------------------------------------------ readStr *)
Definition unescape (i : N) : str :=
  if i =? 110 then [10] else if i =? 114 then [13] else if i =? 116 then [9]
  else if i =? 34 then [34] else if i =? 92 then [92] else [92; i].

(* Some (Some content) = tString; Some None = tInvalid "EOL" *)
Fixpoint read_str (fuel : nat) (comments : bool) (s : st) : option (option str * st) :=
  match fuel with
  | O => None
  | S f =>
      let '(c, s1) := next comments false s in
      if c =? 34 then Some (Some [], s1)
      else if (c =? 0) || (c =? 10) || (c =? 13) then Some (None, s1)
      else if c =? 92 then
        let '(i, s2) := next comments false s1 in
        match read_str f comments s2 with
        | Some (Some w, s3) => Some (Some (unescape i ++ w), s3)
        | r => r
        end
      else
        match read_str f comments s1 with
        | Some (Some w, s3) => Some (Some (c :: w), s3)
        | r => r
        end
  end.

(* ------------------------------------------------------------------ matchers (parser2.go) *)
(* strings.ContainsRune("⁰¹²³⁴⁵⁶⁷⁸⁹", r); superscript n = Some (ASCII digit) *)
Definition superscript (n : N) : option N :=
  if n =? 8304 then Some 48 else if n =? 185 then Some 49 else if n =? 178 then Some 50
  else if n =? 179 then Some 51 else if (8308 <=? n) && (n <=? 8313) then Some (n - 8308 + 52)
  else None.
Definition is_sup (n : N) : bool := match superscript n with Some _ => true | None => false end.

Definition number_start (cfg : tcfg) (c : N) : bool := c_number cfg c.
Definition number_valid (cfg : tcfg) (prev r : N) : bool :=
  (c_number cfg r && negb (is_sup r)) || (r =? 46) || (r =? 101)
  || ((prev =? 101) && (r =? 45)) || ((prev =? 101) && (r =? 43)).
Definition ident_start (cfg : tcfg) (c : N) : bool := c_letter cfg c || (c =? 95).
Definition ident_valid (cfg : tcfg) (prev r : N) : bool :=
  c_letter cfg r || (c_number cfg r && negb (is_sup r)) || (r =? 95).

(* ------------------------------------------------------------------ run *)
Definition single_tok (n : N) : option ttype :=
  if n =? 91 then Some tOpenBracket else if n =? 93 then Some tCloseBracket
  else if n =? 123 then Some tOpenCurly else if n =? 125 then Some tCloseCurly
  else if n =? 46 then Some tDot else if n =? 58 then Some tColon
  else if n =? 44 then Some tComma else if n =? 59 then Some tSemicolon else None.

Definition star (ln : N) : token := mkTok tOperate [42] ln.
Definition mem_str (x : str) (l : list str) : bool := existsb (str_eqb x) l.

(* lastTokenType == tNumber || tIdent || tClose *)
Definition mul_before (lt : ttype) : bool :=
  match lt with tNumber | tIdent | tClose => true | _ => false end.
(* the '(' case: tNumber || tClose || (tIdent && lastWasBlank) *)
Definition mul_before_open (lt : ttype) (lb : bool) : bool :=
  match lt with tNumber | tClose => true | tIdent => lb | _ => false end.
Definition this_ty (cfg : tcfg) (t : ttype) : ttype := if c_comfort cfg then t else tInvalid.

(* result of one iteration of the for-loop of run *)
Inductive stepres :=
| StFuel                                                       (* model artefact: fuel exhausted *)
| StEof                                                        (* close(tokens); return *)
| StGo (toks : list token) (lt : ttype) (lb : bool) (s : st).  (* tokens sent, lastTokenType, lastWasBlank *)

(* the default case of the switch: number, identifier / text operator / keyword, operator *)
Definition step_word (fuel : nat) (cfg : tcfg) (lt : ttype) (ln : N) (s1 : st) : stepres :=
  let cm := c_comments cfg in
  let s2 := unread s1 in
  let '(c, s3) := peek cm true s2 in
  if number_start cfg c then
    match read_skip fuel cm true (number_valid cfg) 0 s3 with
    | None => StFuel
    | Some (w, s4) =>
        StGo ((if mul_before lt then [star ln] else []) ++ [mkTok tNumber w ln]) (this_ty cfg tNumber) false s4
    end
  else if ident_start cfg c then
    match read_skip fuel cm true (ident_valid cfg) 0 s3 with
    | None => StFuel
    | Some (w, s4) =>
        match assoc w (c_textops cfg) with
        | Some op => StGo [mkTok tOperate op ln] tInvalid false s4
        | None =>
            if mem_str w (c_keywords cfg) then StGo [mkTok tKeyWord w ln] tInvalid false s4
            else StGo ((if mul_before lt then [star ln] else []) ++ [mkTok tIdent w ln]) (this_ty cfg tIdent) false s4
        end
    end
  else
    match parse_operator fuel cm (c_ops cfg) s3 with
    | None => StFuel
    | Some (w, ok, s4) => StGo [mkTok (if ok then tOperate else tInvalid) w ln] tInvalid false s4
    end.

(* the cases of the switch that read a literal: string, quoted identifier *)
Definition step_string (fuel : nat) (cfg : tcfg) (ln : N) (s1 : st) : stepres :=
  match read_str fuel (c_comments cfg) s1 with
  | None => StFuel
  | Some (Some w, s2) => StGo [mkTok tString w ln] tInvalid false s2
  | Some (None, s2) => StGo [mkTok tInvalid [69; 79; 76] ln] tInvalid false s2
  end.

Definition step_quoted (fuel : nat) (cfg : tcfg) (lt : ttype) (ln : N) (s1 : st) : stepres :=
  let cm := c_comments cfg in
  match read_skip fuel cm false (fun _ c => negb (c =? 39)) 0 s1 with
  | None => StFuel
  | Some (w, s2) =>
      let '(_, s3) := next cm false s2 in
      StGo ((if mul_before lt then [star ln] else []) ++ [mkTok tIdent w ln]) (this_ty cfg tIdent) false s3
  end.

Definition step (fuel : nat) (cfg : tcfg) (lt : ttype) (lb : bool) (s : st) : stepres :=
  let cm := c_comments cfg in
  let '(n, s1) := next cm true s in
  let ln := s_line s1 in                                       (* t.tokenLine = t.line *)
  if n =? 10 then StGo [] lt true (mkSt (s_str s1) (s_isLast s1) (s_last s1) (s_line s1 + 1))
  else if (n =? 32) || (n =? 13) || (n =? 9) then StGo [] lt true s1
  else if n =? 0 then StEof
  else if n =? 40 then
    StGo ((if mul_before_open lt lb then [star ln] else []) ++ [mkTok tOpen [40] ln]) tInvalid false s1
  else if n =? 41 then StGo [mkTok tClose [41] ln] (this_ty cfg tClose) false s1
  else match single_tok n with
  | Some ty => StGo [mkTok ty [n] ln] tInvalid false s1
  | None =>
  if n =? 34 then step_string fuel cfg ln s1
  else if n =? 39 then step_quoted fuel cfg lt ln s1
  else match superscript n with
  | Some d => StGo [mkTok tOperate [94] ln; mkTok tNumber [d] ln] tInvalid false s1
  | None => step_word fuel cfg lt ln s1
  end end.

Fixpoint run (fuel : nat) (cfg : tcfg) (lt : ttype) (lb : bool) (s : st) : option (list token) :=
  match fuel with
  | O => None
  | S f =>
      match step fuel cfg lt lb s with
      | StFuel => None
      | StEof => Some []
      | StGo toks lt' lb' s' =>
          match run f cfg lt' lb' s' with
          | Some l => Some (toks ++ l)
          | None => None
          end
      end
  end.

(* what is left to read: runes of str plus the cached rune *)
Definition measure (s : st) : nat := length (s_str s) + (if s_isLast s then 1 else 0).

(* NewTokenizer(text).Start(): line 1, empty cache, lastTokenType = tInvalid, lastWasBlank = false.
   TokProofs.tokenize_total: this fuel always suffices. *)
Definition tokenize_fuel (fuel : nat) (cfg : tcfg) (rs : list N) : option (list token) :=
  run fuel cfg tInvalid false (fresh rs 1).

Definition tokenize (cfg : tcfg) (rs : list N) : list token :=
  match tokenize_fuel (length rs + 2) cfg rs with Some l => l | None => [] end.

(* ================================================================== specification side *)
(* what the property demands, stated without the scanner *)

(* the literal spelling of a string: backslash, quote, LF, CR, TAB are written as backslash escapes, everything else verbatim *)
Fixpoint escape (s : str) : str :=
  match s with
  | [] => []
  | c :: r =>
      (if c =? 92 then [92; 92] else if c =? 34 then [92; 34] else if c =? 10 then [92; 110]
       else if c =? 13 then [92; 114] else if c =? 9 then [92; 116] else [c]) ++ escape r
  end.
Definition string_literal (s : str) : str := 34 :: escape s ++ [34].
Definition quoted_ident (s : str) : str := 39 :: s ++ [39].

Definition no_nul (s : str) : Prop := ~ In 0 s.
Definition count_lf (s : list N) : N := N.of_nat (length (filter (N.eqb 10) s)).

(* separators between tokens *)
Inductive sep :=
| SBlank | STab | SCR | SLF
| SLineC (body : list N) (term : N)      (* // body term   with term = LF or CR, body free of LF, CR *)
| SBlockC (body : list N)                (* /* body */     body free of star-slash *)
| SLineE (body : list N)                 (* // body        up to the end of the input *)
| SBlockE (body : list N).               (* /* body        unterminated, up to the end of the input *)

Fixpoint no_star_slash (b : list N) : bool :=
  match b with
  | c :: ((d :: _) as r) => negb ((c =? 42) && (d =? 47)) && no_star_slash r
  | _ => true
  end.
Definition ends_with_star (b : list N) : bool := match rev b with 42 :: _ => true | _ => false end.

Definition sep_text (x : sep) : list N :=
  match x with
  | SBlank => [32] | STab => [9] | SCR => [13] | SLF => [10]
  | SLineC b t => 47 :: 47 :: b ++ [t]
  | SBlockC b => 47 :: 42 :: b ++ [42; 47]
  | SLineE b => 47 :: 47 :: b
  | SBlockE b => 47 :: 42 :: b
  end.
Definition sep_ok (comments : bool) (x : sep) : bool :=
  match x with
  | SLineC b t => comments && forallb (fun c => negb ((c =? 10) || (c =? 13))) b && ((t =? 10) || (t =? 13))
  | SBlockC b => comments && no_star_slash (b ++ [42])
  | SLineE b => comments && forallb (fun c => negb ((c =? 10) || (c =? 13))) b
  | SBlockE b => comments && no_star_slash b
  | _ => true
  end.
(* SLineE / SBlockE swallow the rest of the input: they may only be the last separator of a layout *)
Definition sep_final (x : sep) : bool := match x with SLineE _ | SBlockE _ => true | _ => false end.
Definition seps_text (l : list sep) : list N := flat_map sep_text l.

(* a layout: lexemes (text, the tokens it denotes) alternating with separator runs *)
Definition ptok := (ttype * str)%type.
Definition at_line (ln : N) (p : ptok) : token := mkTok (fst p) (snd p) ln.
Definition strip_line (t : token) : ptok := (ttyp t, timg t).

Inductive item := ISep (l : list sep) | ILex (text : list N) (toks : list ptok).
Definition item_text (i : item) : list N := match i with ISep l => seps_text l | ILex t _ => t end.
Definition layout_text (l : list item) : list N := flat_map item_text l.

(* the tokens a layout denotes: every token carries 1 + the number of LF before its first rune *)
Fixpoint expect (l : list item) (ln : N) : list token :=
  match l with
  | [] => []
  | i :: r => (match i with ILex _ toks => map (at_line ln) toks | ISep _ => [] end)
              ++ expect r (ln + count_lf (item_text i))
  end.
