(* Bridges from the C01 package to the optimizer proof:
   - what Generate accepts is well-formed (Sim.wf) also when the constants are folded closures
     (GenProofs.gen_check_wf_lemma asks for first-order constants);
   - a well-formed term uses only the names it is well-formed under;
   - code run at Generate time (Gen.exec on a fresh stack, Opt.gapp) gives, when its result is a
     first-order value, the result of the reference semantics with every sufficient fuel
     (exec_sim + eval_mono): this discharges what the first version of the soundness theorem had
     to assume. *)
From P2 Require Import Base.Prelude Base.PreludeProofs Sem.Num Sem.Syntax Sem.Ops Sem.Lib Sem.Ref Sem.Gen Sem.Sim Sem.RelProofs Sem.OpsProofs Sem.LibProofs Sem.GenProofs Sem.RefMono Sem.Opt Sem.OptRel Sem.OptRelProofs.
Require Import Lia.

(* ---------- side conditions on a term with folded constants ---------- *)

(* constants are well-formed (first-order, or closures that capture nothing with a well-formed body);
   the own name of a closure literal is not among its OuterIdents *)
Fixpoint sidep (a : ast) {struct a} : Prop :=
  match a with
  | AConst v => cwf v
  | AIdent _ => True
  | ALet _ v b => sidep v /\ sidep b
  | AIf c t e => sidep c /\ sidep t /\ sidep e
  | ASwitch v cases d => sidep v /\ sidep d /\ wf_cases sidep cases
  | ATry t c => sidep t /\ sidep c
  | AUnary _ x => sidep x
  | AOp _ x y => sidep x /\ sidep y
  | AClosure _ body outer _ this =>
      match this with [] => True | _ => mem_name this outer = false end /\ sidep body
  | AList l => wf_list sidep l
  | AIndex l i => sidep l /\ sidep i
  | AMap m => wf_entries sidep m
  | AMember m _ => sidep m
  | ACall fn args => sidep fn /\ wf_list sidep args
  | AStatic _ args => wf_list sidep args
  | AMethod recv _ args => sidep recv /\ wf_list sidep args
  end.

Theorem gen_check_wf' : forall f a am cm,
  gen_check f am cm a = true -> sidep a -> wf am cm a.
Proof.
  induction f as [|f IH]; intros a am cm G K; [discriminate|].
  destruct a as [v|x|x v b|c t e|v cases d|t c|op x|op x y|ps body outer recursive this|l|l i|m|m key
                |fn args|fname args|recv mname args]; cbn [gen_check sidep wf] in *.
  - exact K.
  - apply resolvable_idx; auto.
  - bsplit G. destruct K as [K1 K2]. split; [eauto|]. split; [|eauto].
    intros Hin. destruct (index_of_oeqb_in _ _ Hin) as [i Hi]. rewrite Hi in B0. discriminate.
  - bsplit G. destruct K as (K1 & K2 & K3). repeat split; eauto.
  - bsplit G. destruct K as (K1 & K2 & K3). split; [eauto|]. split; [eauto|].
    clear G B0 K1 K2. induction cases as [|[cc cr] cases IHc]; cbn in *; auto.
    bsplit B. destruct K3 as (K3 & K4 & K5). repeat split; eauto.
  - bsplit G. destruct K. repeat split; eauto.
  - eauto.
  - bsplit G. destruct K. repeat split; eauto.
  - bsplit G. destruct K as [K1 K2]. split; [|split].
    + intros n Hn. rewrite forallb_forall in B0. apply resolvable_idx. auto.
    + intros Hne. destruct this as [|c this']; [tauto|]. apply mem_name_false. exact K1.
    + apply (IH body); auto.
      destruct recursive; cbn [self_of names_self] in *; auto.
      destruct this as [|c this']; auto.
      rewrite orb_true_r in G. discriminate.
  - induction l as [|x l IHl]; cbn in *; auto. bsplit G. destruct K. split; eauto.
  - bsplit G. destruct K. repeat split; eauto.
  - induction m as [|[k x] m IHm]; cbn in *; auto. bsplit G. destruct K. split; eauto.
  - eauto.
  - bsplit G. destruct K as [K1 K2]. split; [eauto|]. clear G K1.
    revert B K2. generalize 0 at 1. induction args as [|x args IHa]; intros k B K2; cbn in *; auto.
    bsplit B. destruct K2. split; [eapply wf_unreserved; eauto|eauto].
  - bsplit G. clear G.
    revert B K. generalize 0 at 1. induction args as [|x args IHa]; intros k B K; cbn in *; auto.
    bsplit B. destruct K. split; [eapply wf_unreserved; eauto|eauto].
  - bsplit G. destruct K as [K1 K2]. split; [eauto|]. clear G K1.
    revert B K2. generalize 1 at 1. induction args as [|x args IHa]; intros k B K2; cbn in *; auto.
    bsplit B. destruct K2. split; [eapply wf_unreserved; eauto|eauto].
Qed.

(* ---------- a well-formed term uses only the names it is well-formed under ---------- *)

Lemma mem_name_in x l : mem_name x l = true -> In x l.
Proof.
  induction l as [|y l IH]; simpl; [discriminate|]. intros H. apply orb_true_iff in H.
  destruct H as [H|H]; [left; symmetry; apply str_eqb_true; exact H|right; auto].
Qed.

Lemma in_mem_name x l : In x l -> mem_name x l = true.
Proof.
  induction l as [|y l IH]; simpl; [tauto|]. intros [->|H]; [rewrite str_eqb_refl; reflexivity|].
  rewrite IH; auto. apply orb_true_r.
Qed.

Lemma mem_name_app' x l1 l2 : mem_name x (l1 ++ l2) = mem_name x l1 || mem_name x l2.
Proof. induction l1; simpl; auto. rewrite IHl1. apply orb_assoc. Qed.

Lemma wf_fv_list x am cm l :
  Forall (fun a => forall am cm, wf am cm a -> fv x a = true -> In (Some x) am \/ In x cm) l ->
  wf_list (wf am cm) l -> existsb (fv x) l = true -> In (Some x) am \/ In x cm.
Proof.
  induction 1 as [|a l Ha Hl IH]; simpl; [discriminate|].
  intros [W1 W2] H. apply orb_true_iff in H. destruct H; eauto.
Qed.

Theorem wf_fv : forall x a am cm, wf am cm a -> fv x a = true -> In (Some x) am \/ In x cm.
Proof.
  intros x a.
  induction a as [v|y|y v b IHv IHb|c t e IHc IHt IHe|v cases d IHv IHcases IHd|t c IHt IHc|op y IHy
                 |op y z IHy IHz|ps body outer r this IHbody|l IHl|l i IHl IHi|m IHm|m k IHm
                 |f args IHf IHargs|f args IHargs|r m args IHr IHargs] using ast_ind2;
    intros am cm W F.
  - discriminate.
  - cbn [wf fv] in *. apply str_eqb_true in F. subst. exact W.
  - cbn [wf fv] in *. destruct W as (W1 & W2 & W3). apply orb_true_iff in F. destruct F as [F|F]; [eauto|].
    apply andb_true_iff in F. destruct F as [F1 F2]. destruct (IHb _ _ W3 F2) as [H|H]; [|auto].
    apply in_app_or in H. destruct H as [H|[H|[]]]; [auto|]. inv H.
    rewrite str_eqb_refl in F1. discriminate.
  - cbn [wf fv] in *. destruct W as (W1 & W2 & W3).
    apply orb_true_iff in F. destruct F as [F|F]; [|eauto]. apply orb_true_iff in F. destruct F; eauto.
  - rewrite fv_switch in F. cbn [wf] in W. destruct W as (W1 & W2 & W3).
    apply orb_true_iff in F. destruct F as [F|F].
    + apply orb_true_iff in F. destruct F; eauto.
    + clear IHv IHd W1 W2. induction IHcases as [|[cc cr] l [Hc1 Hc2] Hl IH]; simpl in *; [discriminate|].
      destruct W3 as (W3 & W4 & W5). apply orb_true_iff in F. destruct F as [F|F]; [|auto].
      apply orb_true_iff in F. destruct F; eauto.
  - cbn [wf fv] in *. destruct W. apply orb_true_iff in F. destruct F; eauto.
  - cbn [wf fv] in *. eauto.
  - cbn [wf fv] in *. destruct W. apply orb_true_iff in F. destruct F; eauto.
  - cbn [wf fv] in *. destruct W as (W1 & W2 & W3). apply andb_true_iff in F. destruct F as [F1 F2].
    apply negb_true_iff in F1. rewrite mem_name_app' in F1. apply orb_false_iff in F1. destruct F1 as [M1 M2].
    destruct (IHbody _ _ W3 F2) as [H|H].
    + exfalso. apply in_map_iff in H. destruct H as (p & E & Hp). inv E.
      rewrite (in_mem_name _ _ Hp) in M1. discriminate.
    + apply in_app_or in H. destruct H as [H|H]; [auto|].
      exfalso. destruct r; cbn [self_of names_self] in H; [|destruct H].
      destruct this as [|c0 this']; cbn in H; [destruct H|]. destruct H as [H|[]]. subst x.
      cbn [this_names mem_name] in M2. rewrite str_eqb_refl in M2. discriminate.
  - rewrite fv_list in F. cbn [wf] in W. eapply wf_fv_list; eauto.
  - cbn [wf fv] in *. destruct W. apply orb_true_iff in F. destruct F; eauto.
  - rewrite fv_map in F. cbn [wf] in W.
    induction IHm as [|[kk e] m He Hm IH]; simpl in *; [discriminate|].
    destruct W as [W1 W2]. apply orb_true_iff in F. destruct F; eauto.
  - cbn [wf fv] in *. eauto.
  - rewrite fv_call in F. cbn [wf] in W. destruct W as [W1 W2].
    apply orb_true_iff in F. destruct F as [F|F]; [eauto|]. eapply wf_fv_list; eauto.
  - rewrite fv_static in F. cbn [wf] in W. eapply wf_fv_list; eauto.
  - rewrite fv_method in F. cbn [wf] in W. destruct W as [W1 W2].
    apply orb_true_iff in F. destruct F as [F|F]; [eauto|]. eapply wf_fv_list; eauto.
Qed.

(* the body of a closure that Generate accepts under its parameters alone uses only the parameters *)
Corollary gen_check_closed f ps body :
  gen_check f (map Some ps) [] body = true -> sidep body ->
  wf (map Some ps) [] body /\ (forall x, fv x body = true -> mem_name x ps = true).
Proof.
  intros G K. pose proof (gen_check_wf' _ _ _ _ G K) as W. split; auto.
  intros x F. destruct (wf_fv _ _ _ _ W F) as [H|[]].
  apply in_map_iff in H. destruct H as (p & E & Hp). inv E. apply in_mem_name; auto.
Qed.

(* ---------- Generate-time execution against the reference semantics ---------- *)

Lemma vrel_fo_r : forall v2 v1, Sim.vrel v1 v2 -> fo v2 = true -> v1 = v2.
Proof.
  induction v2 as [z|f|s|b|l IH|m IH|ps b c s|t] using value_ind2; intros v1 H F;
    inversion H; subst; try reflexivity; try discriminate.
  - f_equal. cbn [fo] in F. clear H.
    match goal with HF : Forall2 Sim.vrel _ l |- _ => induction HF as [|x y l1 l2 Hxy Hl IHl] end; auto.
    inversion IH; subst. simpl in F. apply andb_true_iff in F. destruct F. f_equal; auto.
  - f_equal. cbn [fo] in F. clear H.
    match goal with HF : Forall2 _ _ m |- _ => induction HF as [|[k1 x] [k2 y] l1 l2 [Hk Hxy] Hl IHl] end; auto.
    inversion IH; subst. simpl in *. apply andb_true_iff in F. destruct F. subst. f_equal; auto.
    f_equal; auto.
Qed.

Lemma cwf_list_vrel l : Forall cwf l -> Forall2 Sim.vrel l l.
Proof. induction 1; constructor; auto. apply cwf_vrel; auto. Qed.

Section GenTime.
Variable known : list (N * list name).
Variable fuel : nat.

Lemma gapp_is_g_app c cs : gapp known fuel c cs = g_app (exec known fuel) c cs.
Proof. reflexivity. Qed.

(* an application at Generate time that yields a first-order value yields the same value in the
   reference semantics, with whatever fuel that does not run out *)
Theorem gapp_ref c cs v :
  cwf c -> Forall cwf cs -> gapp known fuel c cs = Ok v -> fo v = true ->
  forall n, r_app (eval known n) c cs <> OOF -> r_app (eval known n) c cs = Ok v.
Proof.
  intros Hc Hcs G F n N.
  pose proof (sim_app _ _ (exec_sim_at known fuel) c c cs cs (cwf_vrel _ Hc) (cwf_list_vrel _ Hcs)) as O.
  rewrite <- gapp_is_g_app, G in O. inversion O as [v1 v2 Hv E1 E2| | | |]; subst.
  apply vrel_fo_r in Hv; auto. subst v1.
  destruct (Nat.le_ge_cases n fuel) as [L|L].
  - pose proof (r_app_le _ _ (fun env a => eval_mono known n fuel env a L) c cs N) as E.
    rewrite <- E. symmetry. assumption.
  - rewrite (r_app_le _ _ (fun env a => eval_mono known fuel n env a L) c cs); [auto|].
    rewrite <- E1. discriminate.
Qed.

Theorem method_ref rv m cs v :
  cwf rv -> Forall cwf cs -> run_method (gapp known fuel) rv m cs = Ok v -> fo v = true ->
  forall n, run_method (r_app (eval known n)) rv m cs <> OOF -> run_method (r_app (eval known n)) rv m cs = Ok v.
Proof.
  intros Hr Hcs G F n N.
  pose proof (run_method_rel (r_app (eval known fuel)) (g_app (exec known fuel))
                (sim_app _ _ (exec_sim_at known fuel)) rv rv m cs cs (cwf_vrel _ Hr) (cwf_list_vrel _ Hcs)) as O.
  change (g_app (exec known fuel)) with (gapp known fuel) in O. rewrite G in O.
  inversion O as [v1 v2 Hv E1 E2| | | |]; subst.
  apply vrel_fo_r in Hv; [|exact F]. subst v1.
  destruct (Nat.le_ge_cases n fuel) as [L|L].
  - pose proof (run_method_le _ _ (r_app_le _ _ (fun env a => eval_mono known n fuel env a L)) rv m cs N) as E.
    rewrite <- E. symmetry. exact E1.
  - (* the side condition first and [exact] instead of [auto]: neither the tactics nor the kernel may be
       led to compare run_method under two different closure applications (the pool is large) *)
    assert (N1 : run_method (r_app (eval known fuel)) rv m cs <> OOF) by (rewrite <- E1; discriminate).
    pose proof (run_method_le _ _ (r_app_le _ _ (fun env a => eval_mono known fuel n env a L)) rv m cs N1) as E.
    rewrite E. symmetry. exact E1.
Qed.

End GenTime.

(* ---------- the value relation of the optimizer proof absorbs the C01 relation ---------- *)

(* v0: value of the unoptimized program; v1: value of the optimized program in the reference
   semantics; v: the value generated code computes where the reference semantics computes v1 (same
   bodies, the closures capture only what they use).  Then v is a value of the optimized program for
   v0 as well.  This is what lets a constant computed at Generate time stand where the program would
   have computed v1. *)
Section Comp.
Variable known : list (N * list name).
Local Notation V := (OptRel.vrel known).

Lemma Forall2_comp (l : list value) :
  Forall (fun v => forall v0 v1, V v0 v1 -> Sim.vrel v1 v -> V v0 v) l ->
  forall l0 l1, Forall2 V l0 l1 -> Forall2 Sim.vrel l1 l -> Forall2 V l0 l.
Proof.
  induction 1 as [|v l Hv Hl IH]; intros l0 l1 H01 H1.
  - inversion H1; subst. inversion H01; subst. constructor.
  - inversion H1; subst. inversion H01; subst. constructor; eauto.
Qed.

Lemma Forall2_comp_map (m : list (str * value)) :
  Forall (fun e => forall v0 v1, V v0 v1 -> Sim.vrel v1 (snd e) -> V v0 (snd e)) m ->
  forall m0 m1,
    Forall2 (fun e1 e2 => fst e1 = fst e2 /\ V (snd e1) (snd e2)) m0 m1 ->
    Forall2 (fun e1 e2 => fst e1 = fst e2 /\ Sim.vrel (snd e1) (snd e2)) m1 m ->
    Forall2 (fun e1 e2 => fst e1 = fst e2 /\ V (snd e1) (snd e2)) m0 m.
Proof.
  induction 1 as [|e m He Hm IH]; intros m0 m1 H01 H1.
  - inversion H1; subst. inversion H01; subst. constructor.
  - inversion H1 as [|e1 e' m1' m' [K1 R1] T1]; subst. inversion H01 as [|e0 e1' m0' m1'' [K0 R0] T0]; subst.
    constructor; [split; [congruence|eauto]|eauto].
Qed.

Theorem vrel_comp : forall v v0 v1, V v0 v1 -> Sim.vrel v1 v -> V v0 v.
Proof.
  induction v as [z|f|s|b|l IH|m IH|ps b c2 s2 IH|t] using value_ind3; intros v0 v1 H0 H1.
  - inversion H1; subst. exact H0.
  - inversion H1; subst. exact H0.
  - inversion H1; subst. exact H0.
  - inversion H1; subst. exact H0.
  - inversion H1; subst. inversion H0; subst. constructor. eapply Forall2_comp; eauto.
  - inversion H1; subst. inversion H0; subst. constructor. eapply Forall2_comp_map; eauto.
  - inversion H1 as [| | | | | | |ps' b' c1 c2' s1 s2' HA HB HW]; subst.
    inversion H0 as [| | | | | | |s ps' b0 b' env0 env' self0 self' Hb Hs Hself Henv]; subst.
    apply vr_clo with (s := s); auto.
    + (* the own name *)
      destruct HB as [-> | ->]; [|exact Hself].
      destruct self0 as [|c0 self0']; [left; reflexivity|right]. split; [reflexivity|].
      destruct Hself as [-> | [-> Hd]]; [|exact Hd].
      destruct (fv (c0 :: self0') b) eqn:F; [left|right; reflexivity].
      destruct (wf_fv _ _ _ _ HW F) as [Hin|Hin].
      * apply in_map_iff in Hin. destruct Hin as (p & E & Hp). inversion E; subst. apply in_mem_name; auto.
      * exfalso. unfold clo_cm in Hin. rewrite app_nil_r in Hin.
        destruct (lookup_in_some _ _ Hin) as [w L]. destruct (HA _ _ L) as [[E|E] _]; [discriminate|].
        apply E. reflexivity.
    + (* the environments on the names the body uses *)
      intros x F M Ls. specialize (Henv x F M Ls).
      rewrite mem_name_app' in M. apply orb_false_iff in M. destruct M as [Mp Mt].
      destruct (wf_fv _ _ _ _ HW F) as [Hin|Hin].
      * exfalso. apply in_map_iff in Hin. destruct Hin as (p & E & Hp). inversion E; subst.
        rewrite (in_mem_name _ _ Hp) in Mp. discriminate.
      * unfold clo_cm in Hin. apply in_app_or in Hin. destruct Hin as [Hin|Hin].
        -- destruct (lookup_in_some _ _ Hin) as [w L]. destruct (HA _ _ L) as [_ (w1 & L1 & R1)].
           rewrite L1 in Henv. rewrite L. inversion Henv as [|w0 w1' R0]; subst. constructor.
           rewrite Forall_forall in IH. apply (IH (x, w) (lookup_in _ _ _ L) w0 w1 R0 R1).
        -- exfalso. destruct s2 as [|c0 s2']; [destruct Hin|]. destruct Hin as [<-|[]].
           destruct HB as [B|B]; [discriminate|]. subst s1.
           destruct Hself as [E|[E _]]; [|discriminate]. subst self0.
           cbn [this_names mem_name] in Mt. rewrite str_eqb_refl in Mt. discriminate.
  - inversion H1; subst. exact H0.
Qed.

End Comp.

(* ---------- constants computed from well-formed constants are well-formed ---------- *)

Lemma orel_ok_cwf r v : Sim.orel r (Ok v) -> cwf v.
Proof. intros H. inversion H; subst. eapply vrel_cwf_r; eauto. Qed.

Lemma calc_cwf op a b v : cwf a -> cwf b -> calc op a b = Ok v -> cwf v.
Proof.
  intros Ha Hb E. apply (orel_ok_cwf (calc op a b)). rewrite <- E.
  apply OpsProofs.calc_rel; apply cwf_vrel; auto.
Qed.

Lemma ucalc_cwf op a v : cwf a -> ucalc op a = Ok v -> cwf v.
Proof.
  intros Ha E. apply (orel_ok_cwf (ucalc op a)). rewrite <- E. apply OpsProofs.ucalc_rel; apply cwf_vrel; auto.
Qed.

Lemma access_list_cwf l i v : cwf l -> cwf i -> access_list l i = Ok v -> cwf v.
Proof.
  intros Hl Hi E. apply (orel_ok_cwf (access_list l i)). rewrite <- E.
  apply OpsProofs.access_list_rel; apply cwf_vrel; auto.
Qed.

Lemma access_map_cwf m k v : cwf m -> access_map m k = Ok v -> cwf v.
Proof.
  intros Hm E. apply (orel_ok_cwf (access_map m k)). rewrite <- E.
  apply OpsProofs.access_map_rel; apply cwf_vrel; auto.
Qed.

Lemma run_static_cwf f cs v : Forall cwf cs -> run_static f cs = Ok v -> cwf v.
Proof.
  intros Hc E. apply (orel_ok_cwf (run_static f cs)). rewrite <- E.
  apply LibProofs.run_static_rel. apply cwf_list_vrel; auto.
Qed.

Lemma cwf_VList vs : Forall cwf vs -> cwf (VList vs).
Proof. cbn [cwf]. induction 1; auto. Qed.

Lemma cwf_VMap (vs : list (str * value)) : Forall (fun e => cwf (snd e)) vs -> cwf (VMap vs).
Proof. cbn [cwf]. induction 1; auto. Qed.

Section GenTimeRel.
Variable known : list (N * list name).
Variable fuel : nat.

(* an application at Generate time: the reference semantics computes, with the same fuel, a value
   that the C01 relation relates to the result *)
Theorem gapp_rel c cs v :
  cwf c -> Forall cwf cs -> gapp known fuel c cs = Ok v ->
  exists v1, r_app (eval known fuel) c cs = Ok v1 /\ Sim.vrel v1 v.
Proof.
  intros Hc Hcs G.
  pose proof (sim_app _ _ (exec_sim_at known fuel) c c cs cs (cwf_vrel _ Hc) (cwf_list_vrel _ Hcs)) as O.
  rewrite <- gapp_is_g_app, G in O. inversion O as [v1 v2 Hv E1 E2| | | |]; subst. eauto.
Qed.

Theorem method_rel rv m cs v :
  cwf rv -> Forall cwf cs -> run_method (gapp known fuel) rv m cs = Ok v ->
  exists v1, run_method (r_app (eval known fuel)) rv m cs = Ok v1 /\ Sim.vrel v1 v.
Proof.
  intros Hr Hcs G.
  pose proof (run_method_rel (r_app (eval known fuel)) (g_app (exec known fuel))
                (sim_app _ _ (exec_sim_at known fuel)) rv rv m cs cs (cwf_vrel _ Hr) (cwf_list_vrel _ Hcs)) as O.
  change (g_app (exec known fuel)) with (gapp known fuel) in O. rewrite G in O.
  inversion O as [v1 v2 Hv E1 E2| | | |]; subst. eauto.
Qed.

End GenTimeRel.
