(* The guarded executor (Sem/Guard.v) against the generator model (Sem/Gen.v). *)
From P2 Require Import Base.Prelude Base.PreludeProofs Sem.Num Sem.Syntax Sem.Ops Sem.Lib Sem.Ref Sem.Gen
     Sem.Sim Sem.GenProofs Sem.Guard Sem.GuardLibProofs.
Require Import Lia.

(* "unless the guarded run panics, the unguarded run is the same run" *)
Definition pnp {A} (g s : res A * list value) : Prop := fst g <> Panic -> s = g.

Lemma exec_guarded_S known limit f db am cm st offs size cs a :
  exec_guarded known limit (S f) db am cm st offs size cs a =
  guard_step known limit (exec_guarded known limit f) db am cm offs size cs st a.
Proof. reflexivity. Qed.

Section Step.
Variable known : list (N * list name).
Variable limit : nat.
Variable E' : gexec_t.
Variable E : exec_t.
Hypothesis HE : forall db am cm st offs size cs a,
  pnp (E' db am cm st offs size cs a) (E am cm st offs size cs a).

Ltac fin := first [ intros _; reflexivity | intros N; exfalso; apply N; reflexivity ].

(* consume a hypothesis H : pnp X Y, X the scrutinee on the guarded side *)
Ltac usepn H :=
  match type of H with
  | pnp ?X ?Y =>
      unfold pnp in H; destruct X as [[?v|?t| | |] ?st]; cbn [fst] in H;
      [ rewrite H by discriminate | rewrite H by discriminate | | rewrite H by discriminate
      | rewrite H by discriminate ]; clear H; cbn [fst snd]
  end.

Ltac useE :=
  match goal with
  | |- context [E' ?d ?am ?cm ?st ?o ?s ?cs ?a] =>
      let H := fresh "H" in pose proof (HE d am cm st o s cs a) as H; usepn H
  end.

Lemma q_call_pn db c n st fb : pnp (q_call E' db c n st fb) (g_call E c n st fb).
Proof. destruct c; cbn [q_call g_call]; try fin. apply HE. Qed.

Lemma q_app_pn db : app_pn (q_app limit E' db) (g_app E).
Proof.
  intros c args. destruct c; cbn [q_app g_app]; try apply pn_refl.
  destruct (Nat.eqb (length args) (length ps)); [|apply pn_refl].
  destruct (Nat.ltb 0 (length args) && Nat.ltb limit (db + (length args - 1))).
  - intros N. exfalso. apply N. reflexivity.
  - intros N. f_equal. apply HE. exact N.
Qed.

Section Frame.
Variable db : nat.
Variable am : list (option name).
Variable cm : list name.
Variables offs size : nat.
Variable cs : list value.

Lemma q_args_pn : forall l pushed st acc,
  pnp (q_args limit E' db am cm offs size cs l pushed st acc) (g_args E am cm offs size cs l pushed st acc).
Proof.
  induction l as [|x l IH]; intros pushed st acc; cbn [q_args g_args]; [fin|].
  useE; try fin.
  destruct (overflow limit db st0 (offs + size + pushed)); [fin|]. apply IH.
Qed.

Lemma q_plain_pn : forall l st,
  pnp (q_plain E' db am cm offs size cs l st) (g_plain E am cm offs size cs l st).
Proof.
  induction l as [|x l IH]; intros st; cbn [q_plain g_plain]; [fin|].
  useE; try fin.
  pose proof (IH st0) as H. usepn H; fin.
Qed.

Lemma q_switch_pn sv d : forall l st,
  pnp (q_switch E' db am cm offs size cs sv d l st) (g_switch E am cm offs size cs sv d l st).
Proof.
  induction l as [|[cc cr] l IH]; intros st; cbn [q_switch g_switch]; [apply HE|].
  useE; try fin.
  destruct (equal_fg sv v) as [[|]| | | |]; try fin; [apply HE|apply IH].
Qed.

Lemma q_map_pn : forall m st acc,
  pnp (q_map E' db am cm offs size cs m st acc) (g_map E am cm offs size cs m st acc).
Proof.
  induction m as [|[k x] m IH]; intros st acc; cbn [q_map g_map]; [fin|].
  useE; try fin. apply IH.
Qed.

Ltac useArgs :=
  match goal with
  | |- context [q_args limit E' db am cm offs size cs ?l ?p ?st ?acc] =>
      let H := fresh "H" in pose proof (q_args_pn l p st acc) as H; usepn H
  end.

Ltac step :=
  first
    [ useE
    | useArgs
    | match goal with
      | |- context [q_plain E' db am cm offs size cs ?l ?st] =>
          let H := fresh "H" in pose proof (q_plain_pn l st) as H; usepn H
      end
    | match goal with
      | |- pnp (run_method _ ?rv ?m ?vs, ?s) _ =>
          let N := fresh "N" in
          unfold pnp; cbn [fst]; intros N; rewrite (run_method_pn _ _ (q_app_pn _) rv m vs N); reflexivity
      | |- pnp (E' _ _ _ _ _ _ _ _) _ => apply HE
      | |- pnp (q_call _ _ _ _ _ _) _ => apply q_call_pn
      | |- pnp (q_switch _ _ _ _ _ _ _ _ _ _ _) _ => apply q_switch_pn
      | |- pnp (q_map _ _ _ _ _ _ _ _ _ _) _ => apply q_map_pn
      end
    | match goal with |- context [match ?x with _ => _ end] => destruct x end
    | fin ].

Theorem guard_step_pn st a :
  pnp (guard_step known limit E' db am cm offs size cs st a) (gen_step known E am cm offs size cs st a).
Proof.
  destruct a; cbn [guard_step gen_step]; repeat step.
Qed.

End Frame.
End Step.

(* T1: unless the guard fires (the only source of a panic in the guarded run that the unguarded
   run does not have), the guarded run IS the run of Gen.exec: same outcome, same storage *)
Theorem guarded_agrees_lemma : forall known limit fuel db am cm st offs size cs a,
  fst (exec_guarded known limit fuel db am cm st offs size cs a) <> Panic ->
  exec known fuel am cm st offs size cs a = exec_guarded known limit fuel db am cm st offs size cs a.
Proof.
  intros known limit. induction fuel as [|f IH]; intros db am cm st offs size cs a.
  - intros _. reflexivity.
  - rewrite exec_guarded_S, exec_S. apply guard_step_pn. exact IH.
Qed.

Print Assumptions guarded_agrees_lemma.
