(* The guarded executor (Sem/Guard.v) against the generator model (Sem/Gen.v). *)
From P2 Require Import Base.Prelude Base.PreludeProofs Sem.Num Sem.Syntax Sem.Ops Sem.Lib Sem.Ref Sem.Gen
     Sem.Sim Sem.GenProofs Sem.Guard Sem.GuardLibProofs.
Require Import Lia.

(* "unless the guarded run panics, the unguarded run is the same run" *)
Definition pnp {A} (g s : res A * list value) : Prop := fst g <> Panic -> s = g.

Lemma exec_guarded_S known limit f db am cm st offs size cs a :
  exec_guarded known limit (S f) db am cm st offs size cs a =
  guard_step known limit (exec_guarded known limit f) db am cm offs size cs st a.
Proof. reflexivity. Qed.

Section Step.
Variable known : list (N * list name).
Variable limit : nat.
Variable E' : gexec_t.
Variable E : exec_t.
Hypothesis HE : forall db am cm st offs size cs a,
  pnp (E' db am cm st offs size cs a) (E am cm st offs size cs a).

Ltac fin := first [ intros _; reflexivity | intros N; exfalso; apply N; reflexivity ].

(* consume a hypothesis H : pnp X Y, X the scrutinee on the guarded side *)
Ltac usepn H :=
  match type of H with
  | pnp ?X ?Y =>
      unfold pnp in H; destruct X as [[?v|?t| | |] ?st]; cbn [fst] in H;
      [ rewrite H by discriminate | rewrite H by discriminate | | rewrite H by discriminate
      | rewrite H by discriminate ]; clear H; cbn [fst snd]
  end.

Ltac useE :=
  match goal with
  | |- context [E' ?d ?am ?cm ?st ?o ?s ?cs ?a] =>
      let H := fresh "H" in pose proof (HE d am cm st o s cs a) as H; usepn H
  end.

Lemma q_call_pn db c n st fb : pnp (q_call E' db c n st fb) (g_call E c n st fb).
Proof. destruct c; cbn [q_call g_call]; try fin. apply HE. Qed.

Lemma q_app_pn db : app_pn (q_app limit E' db) (g_app E).
Proof.
  intros c args. destruct c; cbn [q_app g_app]; try apply pn_refl.
  destruct (Nat.eqb (length args) (length ps)); [|apply pn_refl].
  destruct (Nat.ltb 0 (length args) && Nat.ltb limit (db + (length args - 1))).
  - intros N. exfalso. apply N. reflexivity.
  - intros N. f_equal. apply HE. exact N.
Qed.

Section Frame.
Variable db : nat.
Variable am : list (option name).
Variable cm : list name.
Variables offs size : nat.
Variable cs : list value.

Lemma q_args_pn : forall l pushed st acc,
  pnp (q_args limit E' db am cm offs size cs l pushed st acc) (g_args E am cm offs size cs l pushed st acc).
Proof.
  induction l as [|x l IH]; intros pushed st acc; cbn [q_args g_args]; [fin|].
  useE; try fin.
  destruct (overflow limit db st0 (offs + size + pushed)); [fin|]. apply IH.
Qed.

Lemma q_plain_pn : forall l st,
  pnp (q_plain E' db am cm offs size cs l st) (g_plain E am cm offs size cs l st).
Proof.
  induction l as [|x l IH]; intros st; cbn [q_plain g_plain]; [fin|].
  useE; try fin.
  pose proof (IH st0) as H. usepn H; fin.
Qed.

Lemma q_switch_pn sv d : forall l st,
  pnp (q_switch E' db am cm offs size cs sv d l st) (g_switch E am cm offs size cs sv d l st).
Proof.
  induction l as [|[cc cr] l IH]; intros st; cbn [q_switch g_switch]; [apply HE|].
  useE; try fin.
  destruct (equal_fg sv v) as [[|]| | | |]; try fin; [apply HE|apply IH].
Qed.

Lemma q_map_pn : forall m st acc,
  pnp (q_map E' db am cm offs size cs m st acc) (g_map E am cm offs size cs m st acc).
Proof.
  induction m as [|[k x] m IH]; intros st acc; cbn [q_map g_map]; [fin|].
  useE; try fin. apply IH.
Qed.

Ltac useArgs :=
  match goal with
  | |- context [q_args limit E' db am cm offs size cs ?l ?p ?st ?acc] =>
      let H := fresh "H" in pose proof (q_args_pn l p st acc) as H; usepn H
  end.

Ltac step :=
  first
    [ useE
    | useArgs
    | match goal with
      | |- context [q_plain E' db am cm offs size cs ?l ?st] =>
          let H := fresh "H" in pose proof (q_plain_pn l st) as H; usepn H
      end
    | match goal with
      | |- pnp (run_method _ ?rv ?m ?vs, ?s) _ =>
          let N := fresh "N" in
          unfold pnp; cbn [fst]; intros N; rewrite (run_method_pn _ _ (q_app_pn _) rv m vs N); reflexivity
      | |- pnp (E' _ _ _ _ _ _ _ _) _ => apply HE
      | |- pnp (q_call _ _ _ _ _ _) _ => apply q_call_pn
      | |- pnp (q_switch _ _ _ _ _ _ _ _ _ _ _) _ => apply q_switch_pn
      | |- pnp (q_map _ _ _ _ _ _ _ _ _ _) _ => apply q_map_pn
      end
    | match goal with |- context [match ?x with _ => _ end] => destruct x end
    | fin ].

Theorem guard_step_pn st a :
  pnp (guard_step known limit E' db am cm offs size cs st a) (gen_step known E am cm offs size cs st a).
Proof.
  destruct a; cbn [guard_step gen_step]; repeat step.
Qed.

End Frame.
End Step.

(* T1: unless the guard fires (the only source of a panic in the guarded run that the unguarded
   run does not have), the guarded run IS the run of Gen.exec: same outcome, same storage *)
Theorem guarded_agrees_lemma : forall known limit fuel db am cm st offs size cs a,
  fst (exec_guarded known limit fuel db am cm st offs size cs a) <> Panic ->
  exec known fuel am cm st offs size cs a = exec_guarded known limit fuel db am cm st offs size cs a.
Proof.
  intros known limit. induction fuel as [|f IH]; intros db am cm st offs size cs a.
  - intros _. reflexivity.
  - rewrite exec_guarded_S, exec_S. apply guard_step_pn. exact IH.
Qed.

Print Assumptions guarded_agrees_lemma.

(* ---------- T2: a guarded run never holds more than limit + 1 - base slots ---------- *)

(* the storage only grows, and base + length stays within limit + 1 (index limit is the last one
   that may be appended) *)
Definition sok (limit db : nat) (st st' : list value) : Prop :=
  length st <= length st' /\ db + length st' <= S limit.

Lemma overflow_false limit db st i :
  overflow limit db st i = false -> i <> length st \/ db + i <= limit.
Proof.
  unfold overflow. intros H. apply andb_false_iff in H. destruct H as [H|H].
  - left. apply Nat.eqb_neq. exact H.
  - right. apply Nat.ltb_ge. exact H.
Qed.

Lemma sok_push limit db st0 st i v :
  sok limit db st0 st -> i <= length st -> overflow limit db st i = false ->
  sok limit db st0 (set_slot st i v) /\ S i <= length (set_slot st i v).
Proof.
  intros [G B] Hi O. unfold sok. rewrite RelProofs.length_set by exact Hi.
  destruct (overflow_false _ _ _ _ O); lia.
Qed.

Section Bound.
Variable known : list (N * list name).
Variable limit : nat.
Variable E' : gexec_t.
Hypothesis HB : forall db am cm st offs size cs a,
  offs + size <= length st -> db + length st <= S limit ->
  sok limit db st (snd (E' db am cm st offs size cs a)).

Section Frame.
Variable db : nat.
Variable am : list (option name).
Variable cm : list name.
Variables offs size : nat.
Variable cs : list value.

(* run a sub-expression on the current storage st1 (reached from st0) *)
Ltac useB st0 :=
  match goal with
  | |- context [E' ?d ?am' ?cm' ?s0 ?o ?s ?cs' ?a] =>
      let H := fresh "K" in
      assert (H : sok limit d s0 (snd (E' d am' cm' s0 o s cs' a)))
        by (apply HB; unfold sok in *; lia);
      destruct (E' d am' cm' s0 o s cs' a) as [?r ?sx]; cbn [fst snd] in H |- *
  end.

Ltac done := unfold sok in *; cbn [fst snd]; lia.

Lemma q_call_ok c n st0 st fb :
  sok limit db st0 st -> fb + n <= length st ->
  sok limit db st0 (snd (q_call E' db c n st fb)).
Proof.
  intros K Hn. destruct c; cbn [q_call snd]; try exact K.
  assert (H := HB db (map Some ps) (clo_cm cap self) st fb n (clo_cs cap self (VClo ps body cap self)) body Hn (proj2 K)).
  unfold sok in *. lia.
Qed.

Lemma q_args_ok st0 : forall l pushed st acc,
  sok limit db st0 st -> offs + size <= length st0 -> offs + size + pushed <= length st ->
  sok limit db st0 (snd (q_args limit E' db am cm offs size cs l pushed st acc)) /\
  (forall vs, fst (q_args limit E' db am cm offs size cs l pushed st acc) = Ok vs ->
              offs + size + pushed + length l <= length (snd (q_args limit E' db am cm offs size cs l pushed st acc))).
Proof.
  induction l as [|x l IH]; intros pushed st acc K H0 Hp; cbn [q_args].
  - cbn [fst snd length]. split; [exact K|]. intros _ _. lia.
  - useB st0. destruct r; cbn [fst snd]; try (split; [done|discriminate]).
    destruct (overflow limit db sx (offs + size + pushed)) eqn:O; [cbn [fst snd]; split; [done|discriminate]|].
    assert (K1 : sok limit db st0 sx) by done.
    destruct (sok_push limit db st0 sx (offs + size + pushed) a K1 ltac:(unfold sok in *; lia) O) as [K2 L2].
    destruct (IH (S pushed) (set_slot sx (offs + size + pushed) a) (acc ++ [a]) K2 H0 ltac:(lia)) as [K3 L3].
    split; [exact K3|]. intros vs Hv. specialize (L3 vs Hv). cbn [length]. lia.
Qed.

Lemma q_plain_ok st0 : forall l st,
  sok limit db st0 st -> offs + size <= length st0 ->
  sok limit db st0 (snd (q_plain E' db am cm offs size cs l st)).
Proof.
  induction l as [|x l IH]; intros st K H0; cbn [q_plain]; [exact K|].
  useB st0. destruct r; cbn [fst snd]; try done.
  assert (K1 : sok limit db st0 sx) by done.
  specialize (IH sx K1 H0). destruct (q_plain E' db am cm offs size cs l sx) as [[| | | |] st2]; exact IH.
Qed.

Lemma q_switch_ok st0 sv d : forall l st,
  sok limit db st0 st -> offs + size <= length st0 ->
  sok limit db st0 (snd (q_switch E' db am cm offs size cs sv d l st)).
Proof.
  induction l as [|[cc cr] l IH]; intros st K H0; cbn [q_switch].
  - useB st0. done.
  - useB st0. destruct r; cbn [fst snd]; try done.
    assert (K1 : sok limit db st0 sx) by done.
    destruct (equal_fg sv a) as [[|]| | | |]; cbn [fst snd]; try exact K1.
    + useB st0. done.
    + apply IH; auto.
Qed.

Lemma q_map_ok st0 : forall m st acc,
  sok limit db st0 st -> offs + size <= length st0 ->
  sok limit db st0 (snd (q_map E' db am cm offs size cs m st acc)).
Proof.
  induction m as [|[k x] m IH]; intros st acc K H0; cbn [q_map]; [exact K|].
  useB st0. destruct r; cbn [fst snd]; try done.
  apply IH; auto. done.
Qed.

Ltac facts :=
  unfold sok in *;
  repeat match goal with H : Nat.eqb _ _ = true |- _ => apply Nat.eqb_eq in H end.

Ltac stepB st :=
  first
    [ useB st
    | match goal with
      | |- context [if overflow limit db ?s ?i then _ else _] =>
          let O := fresh "O" in
          destruct (overflow limit db s i) eqn:O;
          [ | match goal with
              | |- context [set_slot s i ?v] =>
                  let K := fresh "K" in let L := fresh "L" in
                  assert (K : sok limit db st s) by (facts; lia);
                  destruct (sok_push limit db st s i v K ltac:(facts; lia) O) as [?K L]
              end ]
      | |- context [q_args limit E' db am cm offs size cs ?l ?p ?s ?acc] =>
          let K := fresh "K" in let L := fresh "L" in
          assert (K : sok limit db st s) by (facts; lia);
          destruct (q_args_ok st l p s acc K ltac:(facts; lia) ltac:(facts; lia)) as [?K L];
          destruct (q_args limit E' db am cm offs size cs l p s acc) as [[?vs|?t| | |] ?st];
          cbn [fst snd] in *; [specialize (L _ eq_refl)|clear L ..]
      | |- context [q_plain E' db am cm offs size cs ?l ?s] =>
          let K := fresh "K" in
          assert (K : sok limit db st (snd (q_plain E' db am cm offs size cs l s)))
            by (apply q_plain_ok; facts; lia);
          destruct (q_plain E' db am cm offs size cs l s) as [?r ?st]; cbn [fst snd] in *
      | |- sok limit db st (snd (q_call E' db _ _ _ _)) => apply q_call_ok; facts; lia
      | |- sok limit db st (snd (q_switch E' db am cm offs size cs _ _ _ _)) => apply q_switch_ok; facts; lia
      | |- sok limit db st (snd (q_map E' db am cm offs size cs _ _ _)) => apply q_map_ok; facts; lia
      end
    | match goal with |- context [match ?x with _ => _ end] => destruct x eqn:? end
    | (cbn [fst snd]; facts; lia) ].

Theorem guard_step_ok st a :
  offs + size <= length st -> db + length st <= S limit ->
  sok limit db st (snd (guard_step known limit E' db am cm offs size cs st a)).
Proof.
  intros H0 Hb. destruct a; cbn [guard_step]; repeat stepB st.
Qed.

End Frame.
End Bound.

(* T2 *)
Theorem guarded_never_exceeds_lemma : forall known limit fuel db am cm st offs size cs a,
  offs + size <= length st -> db + length st <= S limit ->
  length st <= length (snd (exec_guarded known limit fuel db am cm st offs size cs a)) /\
  db + length (snd (exec_guarded known limit fuel db am cm st offs size cs a)) <= S limit.
Proof.
  intros known limit. induction fuel as [|f IH]; intros db am cm st offs size cs a H0 Hb.
  - cbn. lia.
  - rewrite exec_guarded_S. apply guard_step_ok; auto.
Qed.

Print Assumptions guarded_never_exceeds_lemma.


(* ---------- T3: the guard, not the fuel, stops the runaway recursion ---------- *)

Section Runaway.
Variable known : list (N * list name).
Variable limit : nat.

Definition rclo : value := VClo [gd_n] runaway_body [] gd_f.

Lemma set_slot_end : forall (st : list value) v, set_slot st (length st) v = st ++ [v].
Proof. induction st as [|x st IH]; intros v; cbn [length set_slot app]; [reflexivity|]. rewrite IH. reflexivity. Qed.

Lemma run_ident_f f db st offs :
  exec_guarded known limit (S f) db [Some gd_n] [gd_f] st offs 1 [rclo] (AIdent gd_f) = (Ok rclo, st).
Proof. reflexivity. Qed.

Local Arguments str_eqb : simpl nomatch.
Local Arguments oname_eqb : simpl nomatch.

Lemma run_arg f db st offs k :
  nth_error st offs = Some (VInt k) ->
  exec_guarded known limit (S (S f)) db ([Some gd_n] ++ repeat None 0) [gd_f] st offs (1 + 0) [rclo]
               (AOp op_add (AIdent gd_n) (AConst (VInt 1))) = (Ok (VInt (wrap64 (k + 1))), st).
Proof.
  intros H. cbn. rewrite Nat.add_0_r, H. reflexivity.
Qed.

Lemma runaway_loop : forall m fuel offs k st,
  offs + m = limit -> length st = S offs -> nth_error st offs = Some (VInt k) -> 3 + m <= fuel ->
  fst (exec_guarded known limit fuel 0 [Some gd_n] [gd_f] st offs 1 [rclo] runaway_body) = Panic.
Proof.
  induction m as [|m IH]; intros fuel offs k st Hm Hl Hk Hf.
  - destruct fuel as [|[|[|f]]]; try lia.
    rewrite exec_guarded_S. unfold runaway_body. cbn [guard_step].
    rewrite run_ident_f. cbn [rclo length Nat.eqb]. fold rclo.
    cbn [q_args]. rewrite (run_arg _ _ _ _ _ Hk).
    assert (O : overflow limit 0 st (offs + 1 + 0) = true).
    { unfold overflow. apply andb_true_iff. split; [apply Nat.eqb_eq; lia|apply Nat.ltb_lt; lia]. }
    rewrite O. reflexivity.
  - destruct fuel as [|[|[|f]]]; try lia.
    rewrite exec_guarded_S. unfold runaway_body. cbn [guard_step].
    rewrite run_ident_f. cbn [rclo length Nat.eqb]. fold rclo.
    cbn [q_args]. rewrite (run_arg _ _ _ _ _ Hk).
    assert (O : overflow limit 0 st (offs + 1 + 0) = false).
    { unfold overflow. apply andb_false_iff. right. apply Nat.ltb_ge. lia. }
    rewrite O. cbn [q_args].
    replace (offs + 1 + 0) with (length st) by lia. rewrite set_slot_end.
    unfold rclo at 1. cbn [q_call map clo_cm clo_cs app fst]. fold rclo. fold runaway_body.
    apply (IH (S (S f)) (offs + 1) (wrap64 (k + 1)) (st ++ [VInt (wrap64 (k + 1))])); try lia.
    + rewrite app_length. cbn [length]. lia.
    + rewrite nth_error_app2 by lia. replace (offs + 1 - length st) with 0 by lia. reflexivity.
Qed.

(* func f(n) f(n+1); f(0) *)
Lemma run_ident_top f :
  exec_guarded known limit (S f) 0 [Some gd_f] [] [rclo] 0 1 [] (AIdent gd_f) = (Ok rclo, [rclo]).
Proof. reflexivity. Qed.

Lemma run_const f db am cm st offs size cs v :
  exec_guarded known limit (S f) db am cm st offs size cs (AConst v) = (Ok v, st).
Proof. reflexivity. Qed.

Lemma runaway_first_call : forall F, limit + 3 <= F ->
  fst (exec_guarded known limit F 0 [Some gd_f] [] [rclo] 0 1 [] (ACall (AIdent gd_f) [AConst (VInt 0)])) = Panic.
Proof.
  intros F HF. destruct F as [|[|f]]; try lia.
  rewrite exec_guarded_S. cbn [guard_step].
  rewrite run_ident_top. cbn [rclo length Nat.eqb]. fold rclo.
  cbn [q_args]. rewrite run_const.
  destruct limit as [|l] eqn:El.
  - reflexivity.
  - assert (O : overflow (S l) 0 [rclo] (0 + 1 + 0) = false) by reflexivity.
    rewrite O. cbn [q_args set_slot Nat.add].
    unfold rclo at 1. cbn [q_call map clo_cm clo_cs app fst length]. fold rclo. fold runaway_body.
    rewrite <- El. apply (runaway_loop l (S f) 1 0 [rclo; VInt 0]); try lia; reflexivity.
Qed.

(* func f(n) f(n+1); f(0): for every fuel from limit + 4 on the answer is the guard's panic *)
Theorem guarded_runaway_lemma : forall fuel, limit + 4 <= fuel ->
  fst (exec_guarded known limit fuel 0 [] [] [] 0 0 [] runaway) = Panic.
Proof.
  intros fuel Hf. destruct fuel as [|[|F]]; try lia.
  rewrite exec_guarded_S. unfold runaway. cbn [guard_step].
  rewrite exec_guarded_S. cbn [guard_step capture self_of].
  cbn [overflow length Nat.eqb Nat.add Nat.ltb Nat.leb andb set_slot app].
  fold runaway_body. fold rclo.
  apply runaway_first_call. lia.
Qed.

End Runaway.

Print Assumptions guarded_runaway_lemma.
