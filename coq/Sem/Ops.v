(* Operators of value.New() (value/value.go New, value/operations.go), written after the Go closures.
   [calc] is what an operator's Impl.Calc computes on two values (it is what the optimizer folds with
   and what the default generated code executes); the short-circuit code that the custom generator
   emits for & and | lives in Sem/Ref.v / Sem/Gen.v. *)
From P2 Require Import Base.Prelude Sem.Num Sem.Syntax.
Local Open Scope Z_scope.

Definition s_of (l : list N) : str := l.

(* operator spellings *)
Definition op_or : str := [124%N].
Definition op_and : str := [38%N].
Definition op_eq : str := [61%N].
Definition op_ne : str := [33; 61]%N.
Definition op_in : str := [126%N].
Definition op_lt : str := [60%N].
Definition op_gt : str := [62%N].
Definition op_le : str := [60; 61]%N.
Definition op_ge : str := [62; 61]%N.
Definition op_add : str := [43%N].
Definition op_sub : str := [45%N].
Definition op_shl : str := [60; 60]%N.
Definition op_shr : str := [62; 62]%N.
Definition op_mul : str := [42%N].
Definition op_mod : str := [37%N].
Definition op_div : str := [47%N].
Definition op_pow : str := [94%N].
Definition op_not : str := [33%N].

Definition ofl {A} (o : option A) (k : A -> res value) : res value :=
  match o with Some a => k a | None => Unsup end.

Definition num_f (v : value) : option (option fl) :=     (* Some None: a number outside the exact model *)
  match v with
  | VInt z => Some (fl_of_int z)
  | VFloat f => Some (Some f)
  | _ => None
  end.

(* arithmetic on (Int,Int) by fi and on the three float combinations by ff *)
Definition arith (fi : Z -> Z -> res value) (ff : fl -> fl -> option fl) (a b : value) : res value :=
  match a, b with
  | VInt x, VInt y => fi x y
  | VErrText _, _ | _, VErrText _ => Unsup
  | _, _ =>
      match num_f a, num_f b with
      | Some oa, Some ob =>
          match oa, ob with
          | Some x, Some y => ofl (ff x y) (fun r => Ok (VFloat r))
          | _, _ => Unsup
          end
      | _, _ => Err None
      end
  end.

(* ---------- equality: Equal(fg) with deep list/map comparison ---------- *)

(* operationMatrixSimple for "=" on scalars *)
Definition eq_scalar (a b : value) : res bool :=
  match a, b with
  | VBool x, VBool y => Ok (Bool.eqb x y)
  | VInt x, VInt y => Ok (x =? y)
  | VStr x, VStr y => Ok (str_eqb x y)
  | VFloat x, VFloat y => Ok (fl_eqb x y)
  | VInt x, VFloat y => match fl_of_int x with Some fx => Ok (fl_eqb fx y) | None => Unsup end
  | VFloat x, VInt y => match fl_of_int y with Some fy => Ok (fl_eqb x fy) | None => Unsup end
  | VErrText _, _ | _, VErrText _ => Unsup
  | _, _ => Err None
  end.

Fixpoint assoc_v (k : str) (m : list (str * value)) : option value :=
  match m with
  | [] => None
  | (k', v) :: r => if str_eqb k k' then Some v else assoc_v k r
  end.

(* how Map.Equals combines the answers of two entries: an entry that cannot be compared makes the
   whole comparison an error whatever the other entries say (the first error is returned), otherwise
   a differing entry (or a missing key) makes it false.  An answer outside the exact model (Unsup) is
   stronger than false/true (it may hide an error) and weaker than an error. *)
Definition worse (r1 r2 : res bool) : res bool :=
  match r1, r2 with
  | OOF, _ | _, OOF => OOF
  | Panic, _ | _, Panic => Panic
  | Err t, _ => Err t
  | _, Err t => Err t
  | Unsup, _ | _, Unsup => Unsup
  | Ok false, _ | _, Ok false => Ok false
  | Ok true, Ok true => Ok true
  end.

(* deepEqual.Calc: lists element-wise (List.Equals: lengths, then position by position, stopping at the
   first position that is not equal - false or error), maps key-wise (Map.Equals: sizes, then every
   entry of the receiver looked up in the other map; ALL entries are combined with [worse], so the
   answer depends neither on the order of the entries nor on which map is the receiver), scalars by
   the matrix; elements are compared deeply as well.
   (Map.Equals hands the other map's value to the element comparison first, equal(st, o, v); the model
   keeps the receiver's value first so that the recursion is structural - by veq_sym (Sem/OpsLaws.v,
   C14_eq_sym) the outcome is the same.) *)
Fixpoint veq (a b : value) {struct a} : res bool :=
  match a, b with
  | VList la, VList lb =>
      if negb (Nat.eqb (length la) (length lb)) then Ok false else
      (fix go (la lb : list value) : res bool :=
         match la, lb with
         | x :: la', y :: lb' =>
             match veq x y with
             | Ok true => go la' lb'
             | r => r
             end
         | _, _ => Ok true
         end) la lb
  | VMap ma, VMap mb =>
      if negb (Nat.eqb (length ma) (length mb)) then Ok false else
      (fix go (ma : list (str * value)) : res bool :=
         match ma with
         | (k, v) :: ma' =>
             worse (match assoc_v k mb with
                    | Some o => veq v o
                    | None => Ok false
                    end) (go ma')
         | [] => Ok true
         end) ma
  | _, _ => eq_scalar a b
  end.

(* fg.equal as used by switch, ~ and groupByEqual *)
Definition equal_fg (a b : value) : res bool := veq a b.

(* ---------- less ---------- *)

Definition vless (a b : value) : res bool :=
  match a, b with
  | VInt x, VInt y => Ok (x <? y)
  | VStr x, VStr y => Ok (str_ltb x y)
  | VFloat x, VFloat y => Ok (fl_ltb x y)
  | VInt x, VFloat y => match fl_of_int x with Some fx => Ok (fl_ltb fx y) | None => Unsup end
  | VFloat x, VInt y => match fl_of_int y with Some fy => Ok (fl_ltb x fy) | None => Unsup end
  | VErrText _, _ | _, VErrText _ => Unsup
  | _, _ => Err None
  end.

Definition rbool (r : res bool) : res value :=
  match r with
  | Ok b => Ok (VBool b)
  | Err t => Err t
  | Panic => Panic
  | OOF => OOF
  | Unsup => Unsup
  end.

(* ---------- string conversion (Value.ToString) for scalars ---------- *)

Definition to_string (v : value) : res str :=
  match v with
  | VInt z => Ok (int_to_str z)
  | VFloat f => match fl_to_str f with Some s => Ok s | None => Unsup end
  | VStr s => Ok s
  | VBool true => Ok [116; 114; 117; 101]%N
  | VBool false => Ok [102; 97; 108; 115; 101]%N
  | _ => Unsup       (* lists, maps, closures: text form not modelled *)
  end.

(* ---------- substring test (strings.Contains) ---------- *)

Fixpoint is_prefix (p s : str) : bool :=
  match p, s with
  | [], _ => true
  | x :: p', y :: s' => (x =? y)%N && is_prefix p' s'
  | _ :: _, [] => false
  end.

Fixpoint contains_str (s p : str) : bool :=
  is_prefix p s || match s with [] => false | _ :: s' => contains_str s' p end.

(* ---------- membership: list.containsItem / containsAllItems ---------- *)

(* first decisive equal over the list, with the panicking equal *)
Fixpoint contains_item (x : value) (l : list value) : res bool :=
  match l with
  | [] => Ok false
  | y :: r => match equal_fg x y with
              | Ok true => Ok true
              | Ok false => contains_item x r
              | e => e
              end
  end.

(* remove the first element of look that equals v (fg.equal(lf, value)) *)
Fixpoint remove_first_equal (look : list value) (v : value) : res (list value) :=
  match look with
  | [] => Ok []
  | lf :: r =>
      match equal_fg lf v with
      | Ok true => Ok r
      | Ok false => match remove_first_equal r v with Ok r' => Ok (lf :: r') | e => e end
      | Err t => Err t | Panic => Panic | OOF => OOF | Unsup => Unsup
      end
  end.

Fixpoint contains_all (l : list value) (look : list value) : res bool :=
  match l with
  | [] => Ok (match look with [] => true | _ => false end)
  | v :: r =>
      match remove_first_equal look v with
      | Ok [] => Ok true
      | Ok look' => contains_all r look'
      | Err t => Err t | Panic => Panic | OOF => OOF | Unsup => Unsup
      end
  end.

(* containsAllItems answers false without looking at any element when the list's items are already
   materialised (itemsPresent: literals, argument lists built with NewList, lists that have been
   evaluated before) and there are fewer of them than items looked for; a lazy list is iterated, so
   an incomparable element is an error there:  [1,"a"] ~ ["a"] is false, [1,"a"] ~ ["a"].map(e->e)
   is an error.  Lists of the core model are materialised. *)
Definition contains_all_repr (present : bool) (l look : list value) : res bool :=
  if present && (Nat.ltb (length l) (length look)) then Ok false else contains_all l look.

(* ---------- maps: Merge ---------- *)

(* Map.Merge: the first key of the other map that the receiver already contains is an error
   (a found flag; since repo commit "fix: Map.Merge detects an overlap on the empty key" this
   includes the key "") *)
Fixpoint first_dup (a : list (str * value)) (other : list (str * value)) : option str :=
  match other with
  | [] => None
  | (k, _) :: r => match assoc_v k a with Some _ => Some k | None => first_dup a r end
  end.

Definition map_merge (a b : list (str * value)) : res value :=
  match first_dup a b with
  | Some _ => Err None
  | None => Ok (VMap (a ++ b))
  end.

(* ---------- integer operators ---------- *)

Definition int_pow (a b : Z) : res value :=
  if (0 <? b) && (b <? 10) then
    Ok (VInt (Z.iter (b - 1) (fun n => wrap64 (n * a)) a))
  else if b =? 0 then Ok (VInt 1)     (* math.Pow(x, 0) = 1 *)
  else Unsup.                          (* goes through math.Pow and a float->int conversion *)

Definition int_shl (a b : Z) : res value :=
  if b <? 0 then Err None else if 64 <=? b then Ok (VInt 0) else Ok (VInt (wrap64 (a * 2 ^ b))).

Definition int_shr (a b : Z) : res value :=
  if b <? 0 then Err None else if 64 <=? b then Ok (VInt (if a <? 0 then -1 else 0)) else Ok (VInt (a / 2 ^ b)).

Definition int_mod (a b : Z) : res value :=
  if b =? 0 then Err None else Ok (VInt (Z.rem a b)).

(* ---------- the operator table ---------- *)

Definition calc (op : name) (a b : value) : res value :=
  if str_eqb op op_or then
    match a, b with
    | VBool x, VBool y => Ok (VBool (x || y))
    | VInt x, VInt y => Ok (VInt (Z.lor x y))
    | VErrText _, _ | _, VErrText _ => Unsup
    | _, _ => Err None
    end
  else if str_eqb op op_and then
    match a, b with
    | VBool x, VBool y => Ok (VBool (x && y))
    | VInt x, VInt y => Ok (VInt (Z.land x y))
    | VErrText _, _ | _, VErrText _ => Unsup
    | _, _ => Err None
    end
  else if str_eqb op op_eq then rbool (veq a b)
  else if str_eqb op op_ne then
    match veq a b with
    | Ok r => Ok (VBool (negb r))
    | Err t => Err t
    | Panic => Panic | OOF => OOF | Unsup => Unsup
    end
  else if str_eqb op op_in then
    match b with
    | VList l =>
        match a with
        | VList search => rbool (contains_all_repr true l search)
        | _ => rbool (contains_item a l)
        end
    | VMap m =>
        match a with
        | VStr k => Ok (VBool (match assoc_v k m with Some _ => true | None => false end))
        | VErrText _ => Unsup
        | _ => Err None
        end
    | VStr s =>
        match a with
        | VStr p => Ok (VBool (contains_str s p))
        | VErrText _ => Unsup
        | _ => Err None
        end
    | VErrText (Some t) =>
        match a with
        | VStr p => if contains_str t p then Ok (VBool true) else Unsup
        | _ => Unsup
        end
    | VErrText None => Unsup
    | _ => match a with VErrText _ => Unsup | _ => Err None end
    end
  else if str_eqb op op_lt then rbool (vless a b)
  else if str_eqb op op_gt then rbool (vless b a)
  else if str_eqb op op_le then
    match vless a b with
    | Ok true => Ok (VBool true)
    | Ok false => rbool (veq a b)
    | Err t => Err t | Panic => Panic | OOF => OOF | Unsup => Unsup
    end
  else if str_eqb op op_ge then
    match vless b a with
    | Ok true => Ok (VBool true)
    | Ok false => rbool (veq a b)
    | Err t => Err t | Panic => Panic | OOF => OOF | Unsup => Unsup
    end
  else if str_eqb op op_add then
    match a with
    | VStr s => match to_string b with Ok t => Ok (VStr (s ++ t)) | Err e => Err e | Panic => Panic | OOF => OOF | Unsup => Unsup end
    | _ =>
        match a, b with
        | VList x, VList y => Ok (VList (x ++ y))
        | VMap x, VMap y => map_merge x y
        | _, _ => arith (fun x y => Ok (VInt (wrap64 (x + y)))) fl_add a b
        end
    end
  else if str_eqb op op_sub then arith (fun x y => Ok (VInt (wrap64 (x - y)))) fl_sub a b
  else if str_eqb op op_shl then
    match a, b with VInt x, VInt y => int_shl x y | VErrText _, _ | _, VErrText _ => Unsup | _, _ => Err None end
  else if str_eqb op op_shr then
    match a, b with VInt x, VInt y => int_shr x y | VErrText _, _ | _, VErrText _ => Unsup | _, _ => Err None end
  else if str_eqb op op_mul then arith (fun x y => Ok (VInt (wrap64 (x * y)))) fl_mul a b
  else if str_eqb op op_mod then
    match a, b with VInt x, VInt y => int_mod x y | VErrText _, _ | _, VErrText _ => Unsup | _, _ => Err None end
  else if str_eqb op op_div then
    arith (fun x y => match fl_of_int x, fl_of_int y with
                      | Some fx, Some fy => ofl (fl_div fx fy) (fun r => Ok (VFloat r))
                      | _, _ => Unsup
                      end) fl_div a b
  else if str_eqb op op_pow then
    match a, b with
    | VInt x, VInt y => int_pow x y
    | VErrText _, _ | _, VErrText _ => Unsup
    | _, _ => match num_f a, num_f b with Some _, Some _ => Unsup | _, _ => Err None end   (* math.Pow *)
    end
  else Err None.

Definition ucalc (op : name) (a : value) : res value :=
  if str_eqb op op_sub then
    match a with
    | VInt x => Ok (VInt (wrap64 (- x)))
    | VFloat f => Ok (VFloat (fl_neg f))
    | VErrText _ => Unsup
    | _ => Err None
    end
  else if str_eqb op op_not then
    match a with
    | VBool b => Ok (VBool (negb b))
    | VErrText _ => Unsup
    | _ => Err None
    end
  else Err None.

(* ---------- AccessList / AccessMap ---------- *)

Definition access_list (l i : value) : res value :=
  match l with
  | VList items =>
      match i with
      | VInt z =>
          if z <? 0 then Err None
          else if Z.of_nat (length items) <=? z then Err None      (* also keeps Z.to_nat small *)
          else match nth_error items (Z.to_nat z) with Some v => Ok v | None => Err None end
      | VErrText _ => Unsup
      | _ => Err None
      end
  | VErrText _ => Unsup
  | _ => Err None
  end.

Definition access_map (m : value) (key : name) : res value :=
  match m with
  | VMap entries => match assoc_v key entries with Some v => Ok v | None => Err None end
  | VErrText _ => Unsup
  | _ => Err None
  end.

(* SetToBool: only Bool converts *)
Definition to_bool (v : value) : option bool :=
  match v with VBool b => Some b | _ => None end.
