(* A pool of built-in methods and static functions of value.New(), shared by the reference
   semantics and the generator model.  Both semantics hand in their own way of applying a closure
   value to arguments ([app]); everything else is common code, exactly as in the implementation
   where the same Go functions run in either case.
   Lists are eager here; the lazy behaviour of list stages is the business of Lib/Stream.v (C08).
   A built-in that exists in the implementation but is not modelled answers Unsup (case skipped);
   a name that does not exist answers None (method not found => error). *)
From P2 Require Import Base.Prelude Sem.Num Sem.Syntax Sem.Ops.
From P2 Require Export Sem.StrLib.
Local Open Scope Z_scope.

Definition S_ (l : list N) : str := l.

(* ---- names (ASCII) ---- *)
Definition n_size := S_ [115;105;122;101]%N.
Definition n_first := S_ [102;105;114;115;116]%N.
Definition n_last := S_ [108;97;115;116]%N.
Definition n_map := S_ [109;97;112]%N.
Definition n_accept := S_ [97;99;99;101;112;116]%N.
Definition n_reduce := S_ [114;101;100;117;99;101]%N.
Definition n_mapReduce := S_ [109;97;112;82;101;100;117;99;101]%N.
Definition n_sum := S_ [115;117;109]%N.
Definition n_top := S_ [116;111;112]%N.
Definition n_skip := S_ [115;107;105;112]%N.
Definition n_append := S_ [97;112;112;101;110;100]%N.
Definition n_reverse := S_ [114;101;118;101;114;115;101]%N.
Definition n_indexWhere := S_ [105;110;100;101;120;87;104;101;114;101]%N.
Definition n_present := S_ [112;114;101;115;101;110;116]%N.
Definition n_get := S_ [103;101;116]%N.
Definition n_put := S_ [112;117;116]%N.
Definition n_isAvail := S_ [105;115;65;118;97;105;108]%N.
Definition n_len := S_ [108;101;110]%N.
Definition n_string := S_ [115;116;114;105;110;103]%N.
Definition n_throw := S_ [116;104;114;111;119]%N.
Definition n_isFloat := S_ [105;115;70;108;111;97;116]%N.
Definition n_isInt := S_ [105;115;73;110;116]%N.
Definition n_float := S_ [102;108;111;97;116]%N.
Definition n_int := S_ [105;110;116]%N.
Definition n_abs := S_ [97;98;115]%N.
Definition n_sign := S_ [115;105;103;110]%N.
Definition n_sqr := S_ [115;113;114]%N.
Definition n_min := S_ [109;105;110]%N.
Definition n_max := S_ [109;97;120]%N.
Definition n_binAnd := S_ [98;105;110;65;110;100]%N.
Definition n_binOr := S_ [98;105;110;79;114]%N.
Definition n_numbers := S_ [110;117;109;98;101;114;115]%N.
Definition n_number := S_ [110;117;109;98;101;114]%N.
Definition n_compact := S_ [99;111;109;112;97;99;116]%N.
Definition n_combine := S_ [99;111;109;98;105;110;101]%N.
Definition n_combine3 := S_ [99;111;109;98;105;110;101;51]%N.
Definition n_combineN := S_ [99;111;109;98;105;110;101;78]%N.
Definition n_iir := S_ [105;105;114]%N.
Definition n_iirCombine := S_ [105;105;114;67;111;109;98;105;110;101]%N.
Definition n_single := S_ [115;105;110;103;108;101]%N.
Definition n_minMax := S_ [109;105;110;77;97;120]%N.
Definition n_mean := S_ [109;101;97;110]%N.
Definition n_cross := S_ [99;114;111;115;115]%N.
Definition n_merge := S_ [109;101;114;103;101]%N.
Definition n_minItem := S_ [109;105;110;73;116;101;109]%N.
Definition n_maxItem := S_ [109;97;120;73;116;101;109]%N.
Definition n_valid := S_ [118;97;108;105;100]%N.
Definition n_visit := S_ [118;105;115;105;116]%N.
Definition n_eval := S_ [101;118;97;108]%N.
Definition n_set := S_ [115;101;116]%N.
Definition n_args := S_ [97;114;103;115]%N.

Definition clo_arity (v : value) : option nat :=
  match v with VClo ps _ _ _ => Some (length ps) | _ => None end.

(* ToFunc: the argument must be a closure with exactly n parameters *)
Definition is_func (v : value) (n : nat) : bool :=
  match clo_arity v with Some k => Nat.eqb k n | None => false end.

Fixpoint utf8_len (s : str) : Z :=
  match s with
  | [] => 0
  | c :: r => (if (c <? 128)%N then 1 else if (c <? 2048)%N then 2 else if (c <? 65536)%N then 3 else 4) + utf8_len r
  end.

(* min / max by <: the first minimal / maximal item (static min/max and List.Min / List.Max) *)
Fixpoint pick_min (m : value) (l : list value) : res value :=
  match l with
  | [] => Ok m
  | v :: r => match vless v m with
              | Ok true => pick_min v r
              | Ok false => pick_min m r
              | Err t => Err t | Panic => Panic | OOF => OOF | Unsup => Unsup
              end
  end.

Fixpoint pick_max (m : value) (l : list value) : res value :=
  match l with
  | [] => Ok m
  | v :: r => match vless m v with
              | Ok true => pick_max v r
              | Ok false => pick_max m r
              | Err t => Err t | Panic => Panic | OOF => OOF | Unsup => Unsup
              end
  end.

(* ---- argument tuples of the stateless list stages (pure list functions) ---- *)

(* List.Number: f(index, item), the index counts from 0 *)
Fixpoint number_args (i : Z) (l : list value) : list (list value) :=
  match l with
  | [] => []
  | x :: r => [VInt i; x] :: number_args (wrap64 (i + 1)) r
  end.

(* iterator.Combine: f(last, item) for every item after the first *)
Fixpoint pair_args (last : value) (l : list value) : list (list value) :=
  match l with
  | [] => []
  | x :: r => [last; x] :: pair_args x r
  end.

(* iterator.Combine3: f(lastLast, last, item) for every item after the second *)
Fixpoint triple_args (ll la : value) (l : list value) : list (list value) :=
  match l with
  | [] => []
  | x :: r => [ll; la; x] :: triple_args la x r
  end.

(* iterator.CombineN with the callback of List.CombineN: every group of n consecutive items, as a
   list of its own in list order *)
Fixpoint windows (n : nat) (l : list value) : list (list value) :=
  match l with
  | [] => []
  | _ :: r => if Nat.leb n (length l) then [VList (firstn n l)] :: windows n r else []
  end.

(* iterator.Cross: for every item of the receiver, all items of the other list *)
Fixpoint cross_args (l1 l2 : list value) : list (list value) :=
  match l1 with
  | [] => []
  | a :: r => map (fun b => [a; b]) l2 ++ cross_args r l2
  end.

(* the map returned by List.MinMax *)
Definition minmax_map (mn mx mni mxi : value) (valid : bool) : value :=
  VMap [(n_min, mn); (n_max, mx); (n_minItem, mni); (n_maxItem, mxi); (n_valid, VBool valid)].

Section WithApp.
Variable app : value -> list value -> res value.

(* a stateless stage: the callback on one argument tuple after the other, first to last *)
Fixpoint mapargs_app (f : value) (argss : list (list value)) : res (list value) :=
  match argss with
  | [] => Ok []
  | a :: r => bind (app f a) (fun y => bind (mapargs_app f r) (fun ys => Ok (y :: ys)))
  end.

(* List.Compact: an item is dropped when the callback says it equals the last PUBLISHED item *)
Fixpoint compact_app (f : value) (last : value) (l : list value) : res (list value) :=
  match l with
  | [] => Ok []
  | x :: r =>
      bind (app f [last; x]) (fun b =>
        match b with
        | VBool true => compact_app f last r
        | VBool false => bind (compact_app f x r) (fun ys => Ok (x :: ys))
        | VErrText _ => Unsup
        | _ => Err None
        end)
  end.

(* iterator.IirMap after the first item: iir gets (item, last) , iirCombine (lastItem, item, last) *)
Fixpoint scan_app (three : bool) (f : value) (lastItem last : value) (l : list value) : res (list value) :=
  match l with
  | [] => Ok []
  | x :: r =>
      bind (app f (if three then [lastItem; x; last] else [x; last])) (fun o =>
        bind (scan_app three f x o r) (fun ys => Ok (o :: ys)))
  end.

Definition iir_app (three : bool) (ini f : value) (l : list value) : res (list value) :=
  match l with
  | [] => Ok []
  | x :: r => bind (app ini [x]) (fun o => bind (scan_app three f x o r) (fun ys => Ok (o :: ys)))
  end.

(* iterator.Merge: a = pending item of the receiver, b = pending item of the other list;
   less(a,b) true takes a, otherwise b; an exhausted side copies the other one *)
Fixpoint merge_app (f : value) (l1 : list value) : list value -> res (list value) :=
  fix inner (l2 : list value) : res (list value) :=
    match l1 with
    | [] => Ok l2
    | a :: r1 =>
        match l2 with
        | [] => Ok l1
        | b :: r2 =>
            bind (app f [a; b]) (fun v =>
              match v with
              | VBool true => bind (merge_app f r1 l2) (fun m => Ok (a :: m))
              | VBool false => bind (inner r2) (fun m => Ok (b :: m))
              | VErrText _ => Unsup
              | _ => Err None
              end)
        end
    end.

(* List.MinMax after the first item: the key of the item, then less(key, min), then less(max, key) *)
Fixpoint minmax_app (f : value) (mn mx mni mxi : value) (l : list value) : res value :=
  match l with
  | [] => Ok (minmax_map mn mx mni mxi true)
  | x :: r =>
      bind (app f [x]) (fun k =>
      bind (vless k mn) (fun le =>
      bind (vless mx k) (fun gr =>
        minmax_app f (if le then k else mn) (if gr then k else mx)
                     (if le then x else mni) (if gr then x else mxi) r)))
  end.

Fixpoint map_app (f : value) (l : list value) : res (list value) :=
  match l with
  | [] => Ok []
  | x :: r => bind (app f [x]) (fun y => bind (map_app f r) (fun ys => Ok (y :: ys)))
  end.

Fixpoint accept_app (f : value) (l : list value) : res (list value) :=
  match l with
  | [] => Ok []
  | x :: r =>
      bind (app f [x]) (fun b =>
        match b with
        | VBool keep => bind (accept_app f r) (fun ys => Ok (if keep then x :: ys else ys))
        | VErrText _ => Unsup
        | _ => Err None
        end)
  end.

Fixpoint fold_app (f : value) (acc : value) (l : list value) : res value :=
  match l with
  | [] => Ok acc
  | x :: r => bind (app f [acc; x]) (fun acc' => fold_app f acc' r)
  end.

Fixpoint fold_calc (op : name) (acc : value) (l : list value) : res value :=
  match l with
  | [] => Ok acc
  | x :: r => bind (calc op acc x) (fun acc' => fold_calc op acc' r)
  end.

(* first index whose callback result is true; the callback must return a bool *)
Fixpoint index_where (f : value) (l : list value) (i : Z) : res Z :=
  match l with
  | [] => Ok (-1)
  | x :: r =>
      bind (app f [x]) (fun b =>
        match b with
        | VBool true => Ok i
        | VBool false => index_where f r (i + 1)
        | VErrText _ => Unsup
        | _ => Err None
        end)
  end.

(* arity as in the method table: Some n = exactly n arguments, None-in-Some = variable *)
Inductive arity := Fixed (n : nat) | VarArgs.

(* methods on lists *)
Definition list_method (mname : name) : option arity :=
  if str_eqb mname n_size then Some (Fixed 0)
  else if str_eqb mname n_first then Some (Fixed 0)
  else if str_eqb mname n_last then Some (Fixed 0)
  else if str_eqb mname n_map then Some (Fixed 1)
  else if str_eqb mname n_accept then Some (Fixed 1)
  else if str_eqb mname n_reduce then Some (Fixed 1)
  else if str_eqb mname n_mapReduce then Some (Fixed 2)
  else if str_eqb mname n_sum then Some (Fixed 0)
  else if str_eqb mname n_top then Some (Fixed 1)
  else if str_eqb mname n_skip then Some (Fixed 1)
  else if str_eqb mname n_append then Some (Fixed 1)
  else if str_eqb mname n_reverse then Some (Fixed 0)
  else if str_eqb mname n_indexWhere then Some (Fixed 1)
  else if str_eqb mname n_present then Some (Fixed 1)
  else if str_eqb mname n_single then Some (Fixed 0)
  else if str_eqb mname n_min then Some (Fixed 0)
  else if str_eqb mname n_max then Some (Fixed 0)
  else if str_eqb mname n_mean then Some (Fixed 0)
  else if str_eqb mname n_minMax then Some (Fixed 1)
  else if str_eqb mname n_number then Some (Fixed 1)
  else if str_eqb mname n_compact then Some (Fixed 1)
  else if str_eqb mname n_combine then Some (Fixed 1)
  else if str_eqb mname n_combine3 then Some (Fixed 1)
  else if str_eqb mname n_combineN then Some (Fixed 2)
  else if str_eqb mname n_iir then Some (Fixed 2)
  else if str_eqb mname n_iirCombine then Some (Fixed 2)
  else if str_eqb mname n_cross then Some (Fixed 2)
  else if str_eqb mname n_merge then Some (Fixed 2)
  else if str_eqb mname n_visit then Some (Fixed 2)
  else if str_eqb mname n_eval then Some (Fixed 0)
  else if str_eqb mname n_set then Some (Fixed 2)
  else None.

Definition run_list_method (mname : name) (l : list value) (args : list value) : res value :=
  if str_eqb mname n_size then Ok (VInt (Z.of_nat (length l)))
  else if str_eqb mname n_first then match l with x :: _ => Ok x | [] => Err None end
  else if str_eqb mname n_last then match rev l with x :: _ => Ok x | [] => Err None end
  else if str_eqb mname n_map then
    match args with
    | [f] => if is_func f 1 then bind (map_app f l) (fun ys => Ok (VList ys)) else Err None
    | _ => Err None
    end
  else if str_eqb mname n_accept then
    match args with
    | [f] => if is_func f 1 then bind (accept_app f l) (fun ys => Ok (VList ys)) else Err None
    | _ => Err None
    end
  else if str_eqb mname n_reduce then
    match args with
    | [f] => if is_func f 2 then match l with x :: r => fold_app f x r | [] => Err None end else Err None
    | _ => Err None
    end
  else if str_eqb mname n_mapReduce then
    match args with
    | [init; f] => if is_func f 2 then fold_app f init l else Err None
    | _ => Err None
    end
  else if str_eqb mname n_sum then
    match l with x :: r => fold_calc op_add x r | [] => Err None end
  else if str_eqb mname n_top then
    match args with
    | [VInt n] => Ok (VList (if n <? 0 then l else firstn (Z.to_nat (Z.min n (Z.of_nat (length l)))) l))
    | [VErrText _] => Unsup
    | _ => Err None
    end
  else if str_eqb mname n_skip then
    match args with
    | [VInt n] => Ok (VList (if n <? 0 then l else skipn (Z.to_nat (Z.min n (Z.of_nat (length l)))) l))
    | [VErrText _] => Unsup
    | _ => Err None
    end
  else if str_eqb mname n_append then
    match args with [x] => Ok (VList (l ++ [x])) | _ => Err None end
  else if str_eqb mname n_reverse then Ok (VList (rev l))
  else if str_eqb mname n_indexWhere then
    match args with
    | [f] => if is_func f 1 then bind (index_where f l 0) (fun i => Ok (VInt i)) else Err None
    | _ => Err None
    end
  else if str_eqb mname n_present then
    match args with
    | [f] => if is_func f 1 then bind (index_where f l 0) (fun i => Ok (VBool (0 <=? i))) else Err None
    | _ => Err None
    end
  else if str_eqb mname n_single then match l with [x] => Ok x | _ => Err None end
  else if str_eqb mname n_min then match l with x :: r => pick_min x r | [] => Err None end
  else if str_eqb mname n_max then match l with x :: r => pick_max x r | [] => Err None end
  else if str_eqb mname n_mean then
    match l with
    | x :: r => bind (fold_calc op_add x r) (fun s => calc op_div s (VInt (Z.of_nat (length l))))
    | [] => Err None
    end
  else if str_eqb mname n_minMax then
    match args with
    | [f] =>
        if is_func f 1 then
          match l with
          | [] => Ok (minmax_map (VInt 0) (VInt 0) (VInt 0) (VInt 0) false)
          | x :: r => bind (app f [x]) (fun k => minmax_app f k k x x r)
          end
        else Err None
    | _ => Err None
    end
  else if str_eqb mname n_number then
    match args with
    | [f] => if is_func f 2 then bind (mapargs_app f (number_args 0 l)) (fun ys => Ok (VList ys)) else Err None
    | _ => Err None
    end
  else if str_eqb mname n_compact then
    match args with
    | [f] =>
        if is_func f 2 then
          match l with
          | [] => Ok (VList [])
          | x :: r => bind (compact_app f x r) (fun ys => Ok (VList (x :: ys)))
          end
        else Err None
    | _ => Err None
    end
  else if str_eqb mname n_combine then
    match args with
    | [f] =>
        if is_func f 2 then
          bind (mapargs_app f (match l with [] => [] | x :: r => pair_args x r end)) (fun ys => Ok (VList ys))
        else Err None
    | _ => Err None
    end
  else if str_eqb mname n_combine3 then
    match args with
    | [f] =>
        if is_func f 3 then
          bind (mapargs_app f (match l with x :: y :: r => triple_args x y r | _ => [] end))
               (fun ys => Ok (VList ys))
        else Err None
    | _ => Err None
    end
  else if str_eqb mname n_combineN then
    match args with
    | [VInt n; f] =>
        if n <? 1 then Err None
        else if is_func f 1 then
          if 100000 <? n then Unsup        (* the ring buffer of n items is allocated up front *)
          else bind (mapargs_app f (windows (Z.to_nat n) l)) (fun ys => Ok (VList ys))
        else Err None
    | [VErrText _; _] => Unsup
    | _ => Err None
    end
  else if str_eqb mname n_iir then
    match args with
    | [ini; f] =>
        if is_func ini 1 then
          if is_func f 2 then bind (iir_app false ini f l) (fun ys => Ok (VList ys)) else Err None
        else Err None
    | _ => Err None
    end
  else if str_eqb mname n_iirCombine then
    match args with
    | [ini; f] =>
        if is_func ini 1 then
          if is_func f 3 then bind (iir_app true ini f l) (fun ys => Ok (VList ys)) else Err None
        else Err None
    | _ => Err None
    end
  else if str_eqb mname n_cross then
    match args with
    | [other; f] =>
        if is_func f 2 then
          match other with
          | VList l2 => bind (mapargs_app f (cross_args l l2)) (fun ys => Ok (VList ys))
          | VErrText _ => Unsup
          | _ => Err None
          end
        else Err None
    | _ => Err None
    end
  else if str_eqb mname n_merge then
    match args with
    | [other; f] =>
        if is_func f 2 then
          match other with
          | VList l2 => bind (merge_app f l l2) (fun ys => Ok (VList ys))
          | VErrText _ => Unsup
          | _ => Err None
          end
        else Err None
    | _ => Err None
    end
  else if str_eqb mname n_visit then        (* List.Visit(initial, f(visitor, item)): the loop of mapReduce *)
    match args with
    | [init; f] => if is_func f 2 then fold_app f init l else Err None
    | _ => Err None
    end
  else if str_eqb mname n_eval then Ok (VList l)      (* List.Eval: the list itself, evaluated *)
  else if str_eqb mname n_set then          (* List.Set(index, value): MustInt, range check, copy *)
    match args with
    | [VInt i; x] =>
        if (i <? 0) || (Z.of_nat (length l) <=? i) then Err None
        else Ok (VList (firstn (Z.to_nat i) l ++ x :: skipn (S (Z.to_nat i)) l))
    | [VErrText _; _] => Unsup
    | _ => Err None
    end
  else Unsup.

Definition map_method (mname : name) : option arity :=
  if str_eqb mname n_size then Some (Fixed 0)
  else if str_eqb mname n_get then Some (Fixed 1)
  else if str_eqb mname n_put then Some (Fixed 2)
  else if str_eqb mname n_isAvail then Some VarArgs
  else None.

Fixpoint all_avail (m : list (str * value)) (keys : list value) : res value :=
  match keys with
  | [] => Ok (VBool true)
  | VStr k :: r => match assoc_v k m with Some _ => all_avail m r | None => Ok (VBool false) end
  | VErrText _ :: _ => Unsup
  | _ => Err None
  end.

Definition run_map_method (mname : name) (m : list (str * value)) (args : list value) : res value :=
  if str_eqb mname n_size then Ok (VInt (Z.of_nat (length m)))
  else if str_eqb mname n_get then
    match args with
    | [VStr k] => match assoc_v k m with Some v => Ok v | None => Err None end
    | [VErrText _] => Unsup
    | _ => Err None
    end
  else if str_eqb mname n_put then
    match args with
    | [VStr k; v] => match assoc_v k m with Some _ => Err None | None => Ok (VMap ((k, v) :: m)) end
    | [VErrText _; _] => Unsup
    | _ => Err None
    end
  else if str_eqb mname n_isAvail then all_avail m args
  else Unsup.

(* names of methods that exist in the implementation; anything else is "method not found" *)
Definition method_exists (recv : value) (mname : name) (known : list (N * list name)) : bool :=
  let tid : N := match recv with
                 | VInt _ => 1 | VFloat _ => 2 | VStr _ => 3 | VBool _ => 4 | VList _ => 5 | VMap _ => 6
                 | VClo _ _ _ _ => 7 | VErrText _ => 3
                 end%N in
  match assocN tid known with Some names => mem_name mname names | None => false end.

(* arity of the modelled methods; None = not modelled (it may still exist: method_exists) *)
Definition method_arity (recv : value) (mname : name) : option arity :=
  match recv with
  | VList _ => list_method mname
  | VMap _ => map_method mname
  | VStr _ => if str_eqb mname n_len || str_eqb mname n_string then Some (Fixed 0)
              else match str_method_args mname with Some k => Some (Fixed k) | None => None end
  | VInt _ | VFloat _ | VBool _ => if str_eqb mname n_string then Some (Fixed 0) else None
  | VClo _ _ _ _ => if str_eqb mname n_args then Some (Fixed 0) else None
  | _ => None
  end.

Definition run_method (recv : value) (mname : name) (args : list value) : res value :=
  match recv with
  | VList l => run_list_method mname l args
  | VMap m => run_map_method mname m args
  | VStr s =>
      if str_eqb mname n_len then Ok (VInt (utf8_len s))
      else if str_eqb mname n_string then Ok (VStr s)
      else run_str_method mname s args       (* Sem/StrLib.v: the first-order string methods *)
  | VInt _ | VFloat _ | VBool _ =>
      if str_eqb mname n_string then bind (to_string recv) (fun s => Ok (VStr s)) else Unsup
  | VClo ps _ _ _ =>                         (* Closure.args: the number of parameters *)
      if str_eqb mname n_args then Ok (VInt (Z.of_nat (length ps))) else Unsup
  | _ => Unsup
  end.

(* ---- static functions ---- *)

Definition static_arity (f : name) : option arity :=
  if str_eqb f n_throw || str_eqb f n_string || str_eqb f n_isFloat || str_eqb f n_isInt
     || str_eqb f n_float || str_eqb f n_int || str_eqb f n_abs || str_eqb f n_sign
     || str_eqb f n_sqr || str_eqb f n_numbers then Some (Fixed 1)
  else if str_eqb f n_binAnd || str_eqb f n_binOr then Some (Fixed 2)
  else if str_eqb f n_min || str_eqb f n_max then Some VarArgs
  else None.

Definition run_static (f : name) (args : list value) : res value :=
  if str_eqb f n_throw then
    match args with [VStr s] => Err (Some s) | [VErrText _] => Unsup | _ => Err None end
  else if str_eqb f n_string then
    match args with [v] => bind (to_string v) (fun s => Ok (VStr s)) | _ => Err None end
  else if str_eqb f n_isFloat then
    match args with [VFloat _] => Ok (VBool true) | [VErrText _] => Unsup | [_] => Ok (VBool false) | _ => Err None end
  else if str_eqb f n_isInt then
    match args with [VInt _] => Ok (VBool true) | [VErrText _] => Unsup | [_] => Ok (VBool false) | _ => Err None end
  else if str_eqb f n_float then
    match args with
    | [VInt z] => match fl_of_int z with Some x => Ok (VFloat x) | None => Unsup end
    | [VFloat x] => Ok (VFloat x)
    | [VErrText _] => Unsup
    | _ => Err None
    end
  else if str_eqb f n_int then
    match args with
    | [VInt z] => Ok (VInt z)
    | [VFloat x] => match fl_trunc x with Some z => Ok (VInt z) | None => Unsup end
    | [VErrText _] => Unsup
    | _ => Err None
    end
  else if str_eqb f n_abs then
    match args with
    | [VInt z] => Ok (VInt (if z <? 0 then wrap64 (- z) else z))
    | [VFloat x] => Ok (VFloat (if sign_neg x then fl_neg x else x))
    | [VErrText _] => Unsup
    | _ => Err None
    end
  else if str_eqb f n_sign then
    match args with
    | [VInt z] => Ok (VInt (if z <? 0 then -1 else if z =? 0 then 0 else 1))
    | [VFloat x] =>
        match x with
        | FNaN => Ok (VFloat (FFin 1 0))      (* neither f<0 nor f==0 *)
        | _ => Ok (VFloat (if fl_ltb x fl_zero then FFin (-1) 0 else if fl_eqb x fl_zero then fl_zero else FFin 1 0))
        end
    | [VErrText _] => Unsup
    | _ => Err None
    end
  else if str_eqb f n_sqr then
    match args with
    | [VInt z] => Ok (VInt (wrap64 (z * z)))
    | [VFloat x] => ofl (fl_mul x x) (fun r => Ok (VFloat r))
    | [VErrText _] => Unsup
    | _ => Err None
    end
  else if str_eqb f n_binAnd then
    match args with [VInt a; VInt b] => Ok (VInt (Z.land a b)) | [VErrText _; _] | [_; VErrText _] => Unsup | _ => Err None end
  else if str_eqb f n_binOr then
    match args with [VInt a; VInt b] => Ok (VInt (Z.lor a b)) | [VErrText _; _] | [_; VErrText _] => Unsup | _ => Err None end
  else if str_eqb f n_min then
    match args with [] => Unsup | m :: r => pick_min m r end      (* min() returns a nil value *)
  else if str_eqb f n_max then
    match args with [] => Unsup | m :: r => pick_max m r end
  else if str_eqb f n_numbers then
    match args with
    | [VInt n] => if n <? 0 then Unsup else if 2000 <? n then Unsup
                  else Ok (VList (map (fun i => VInt (Z.of_nat i)) (seq 0 (Z.to_nat n))))
    | [VErrText _] => Unsup
    | _ => Err None
    end
  else Unsup.

End WithApp.
