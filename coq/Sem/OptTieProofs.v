(* The AST tie of C02 (Run/C02Run.v: c02_tie_class = 0, i.e. ast_eqb (optimize flags A) B = true for the
   dumped unoptimized tree A and the dumped REAL optimized tree B) transports the soundness theorems of the
   optimizer model to the tree the real optimizer produced: ast_eqb decides Leibniz equality. *)
From P2 Require Import Base.Prelude Sem.Num Sem.Syntax Sem.Ops Sem.Lib Sem.Ref Sem.Gen Sem.Sim Sem.RelProofs Sem.GenProofs Sem.Opt
  Sem.OptRel Sem.OptValue Sem.AstEq Sem.AstEqProofs.

(* the tied tree b is an optimized program whose reference evaluation is related to the original's *)
Theorem tied_ast_sound_lemma : forall fl known fuel,
  cfg_ok fl = true ->
  forall a b, ast_eqb (optimize fl known fuel a) b = true ->
  forall n m env,
  side_ok a = true ->
  (forall x v, lookup x env = Some v -> OptRel.vrel known v v) ->
  n <= m ->
  decided (eval known n env a) ->
  OptRel.orel known (eval known n env a) (eval known m env b).
Proof.
  intros fl known fuel C a b E n m env S He L D. apply ast_eqb_sound in E. subst b.
  apply optimize_sound_cfg; assumption.
Qed.

Theorem tied_ast_sound_exact_lemma : forall fl known fuel,
  cfg_ok fl = true ->
  forall a b, ast_eqb (optimize fl known fuel a) b = true ->
  forall n m env,
  side_ok a = true ->
  (forall x v, lookup x env = Some v -> fo v = true) ->
  n <= m ->
  fo_outcome (eval known n env a) = true ->
  eval known m env b = eval known n env a.
Proof.
  intros fl known fuel C a b E n m env S He L D. apply ast_eqb_sound in E. subst b.
  apply optimize_sound_cfg_exact; assumption.
Qed.

(* ... and down to GENERATED CODE (Gen.run = Generate + Eval) of the real optimized tree, when that tree
   holds only first-order constants (side_ok b: C01_generated applies to it) and Generate accepts it: a
   first-order value of the reference semantics of the ORIGINAL program on first-order arguments is what
   the code generated from the REAL optimizer's tree returns *)
Theorem tied_ast_generated_lemma : forall fl known fuel,
  cfg_ok fl = true ->
  forall a b, ast_eqb (optimize fl known fuel a) b = true ->
  forall n m argnames args v,
  side_ok a = true -> side_ok b = true ->
  gen_check (S (ast_size b)) (map Some argnames) [] b = true ->
  forallb fo args = true -> length args = length argnames ->
  n <= m ->
  eval known n (combine argnames args) a = Ok v -> fo v = true ->
  run known m b argnames args = Ok v.
Proof.
  intros fl known fuel C a b E n m argnames args v Sa Sb G Hf L Le Ev Fv.
  assert (Eb : eval known m (combine argnames args) b = Ok v).
  { rewrite <- Ev. eapply tied_ast_sound_exact_lemma; eauto.
    - intros x w Hl. clear - Hf Hl. revert args Hf Hl.
      induction argnames as [|y ys IH]; intros [|a args]; cbn; try discriminate.
      intros Hf Hl. apply andb_true_iff in Hf. destruct Hf as [H1 H2].
      destruct (str_eqb x y); [inversion Hl; subst; exact H1|eapply IH; eauto].
    - rewrite Ev. exact Fv. }
  eapply orel_fo_eq; [|exact Eb|exact Fv].
  apply C01_generated_lemma; auto.
  clear - Hf. induction args as [|w args IH]; cbn in *; auto.
  apply andb_true_iff in Hf. destruct Hf. constructor; auto. apply fo_vrel; auto.
Qed.
