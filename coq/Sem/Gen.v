(* Model of funcGen.GenerateFunc fused with the execution of the generated closures
   (funcGen/generator.go, value.GenerateCustom), on an explicitly threaded, shared value stack.

   gc.am is [am] (compile-time names of the slots of the current frame; None marks a slot that is
   reserved for a pending call argument or a method receiver), gc.cm is [cm] (names of the captured
   values), the Stack value {storage, offs, size} is [st offs size], the closure context is [cs].
   Push writes storage[offs+size]; CreateFrame n turns the top n slots into the callee's frame ON
   THE SAME STORAGE.  Identifier access is by compile-time index, exactly the two argsList.get calls.
   Nothing here "knows" lexical scoping: that the slot discipline implements it is theorem exec_sim.

   Closures invoked by built-in methods run on a fresh storage here; in the implementation they
   run on some stack above the caller's frame, which exec provably cannot observe
   (call_frame_independent). *)
From P2 Require Import Base.Prelude Sem.Num Sem.Syntax Sem.Ops Sem.Lib.

Fixpoint index_of {A} (eqb : A -> A -> bool) (x : A) (l : list A) : option nat :=
  match l with
  | [] => None
  | y :: r => if eqb x y then Some 0%nat else option_map S (index_of eqb x r)
  end.

Definition oname_eqb (a b : option name) : bool :=
  match a, b with
  | Some x, Some y => str_eqb x y
  | _, _ => false            (* reserved slots are never found *)
  end.

(* stackStorage.set: append at the end or overwrite *)
Fixpoint set_slot (st : list value) (i : nat) (v : value) : list value :=
  match i, st with
  | O, [] => [v]
  | O, _ :: r => v :: r
  | S i, [] => [v]                     (* never reached: pushes are at most one past the end *)
  | S i, x :: r => x :: set_slot r i v
  end.

(* the generated code for an identifier: st.Get(index) or cs[index] *)
Definition resolve (am : list (option name)) (cm : list name)
           (st : list value) (offs : nat) (cs : list value) (x : name) : option value :=
  match index_of oname_eqb (Some x) am with
  | Some i => nth_error st (offs + i)
  | None => match index_of str_eqb x cm with
            | Some i => nth_error cs i
            | None => None
            end
  end.

(* createClosureLiteralFunc: copy the outer values by name at closure creation *)
Fixpoint capture am cm st offs cs (outer : list name) : option (list (name * value)) :=
  match outer with
  | [] => Some []
  | n :: r => match resolve am cm st offs cs n, capture am cm st offs cs r with
              | Some v, Some l => Some ((n, v) :: l)
              | _, _ => None
              end
  end.

(* the names / values a closure's body sees as gc.cm / cs: captured values, then the closure itself *)
Definition clo_cm (cap : list (name * value)) (self : name) : list name :=
  map fst cap ++ match self with [] => [] | _ => [self] end.
Definition clo_cs (cap : list (name * value)) (self : name) (c : value) : list value :=
  map snd cap ++ match self with [] => [] | _ => [c] end.

Section Gen.
Variable known : list (N * list name).

Fixpoint exec (fuel : nat) (am : list (option name)) (cm : list name)
         (st : list value) (offs size : nat) (cs : list value) (a : ast) {struct fuel}
  : res value * list value :=
  match fuel with
  | O => (OOF, st)
  | S f =>
    (* a closure called by a built-in: its own frame on a fresh storage *)
    let app := fun (c : value) (args : list value) =>
      match c with
      | VClo ps body cap self =>
          if Nat.eqb (length args) (length ps)
          then fst (exec f (map Some ps) (clo_cm cap self) args 0 (length args) (clo_cs cap self c) body)
          else Err None
      | VErrText _ => Unsup
      | _ => Err None
      end in
    (* call a closure value on the shared storage: the frame is the top n slots *)
    let call := fun (c : value) (n : nat) (st' : list value) (base : nat) =>
      match c with
      | VClo ps body cap self =>
          exec f (map Some ps) (clo_cm cap self) st' base n (clo_cs cap self c) body
      | _ => (Err None, st')
      end in
    (* evaluate call arguments: argument k is compiled with [pushed+k] reserved slots and its value
       is pushed at offs+size+pushed+k *)
    let fix args_loop (l : list ast) (pushed : nat) (st0 : list value) (acc : list value)
      : res (list value) * list value :=
      match l with
      | [] => (Ok acc, st0)
      | x :: r =>
          match exec f (am ++ repeat None pushed) cm st0 offs (size + pushed) cs x with
          | (Ok v, st1) => args_loop r (S pushed) (set_slot st1 (offs + size + pushed) v) (acc ++ [v])
          | (Err t, st1) => (Err t, st1)
          | (Panic, st1) => (Panic, st1)
          | (OOF, st1) => (OOF, st1)
          | (Unsup, st1) => (Unsup, st1)
          end
      end in
    (* evaluate a list of expressions without pushing (list literals) *)
    let fix plain_list (l : list ast) (st0 : list value) : res (list value) * list value :=
      match l with
      | [] => (Ok [], st0)
      | x :: r =>
          match exec f am cm st0 offs size cs x with
          | (Ok v, st1) =>
              match plain_list r st1 with
              | (Ok vs, st2) => (Ok (v :: vs), st2)
              | (e, st2) => (e, st2)
              end
          | (Err t, st1) => (Err t, st1)
          | (Panic, st1) => (Panic, st1)
          | (OOF, st1) => (OOF, st1)
          | (Unsup, st1) => (Unsup, st1)
          end
      end in
    match a with
    | AConst v => (Ok v, st)
    | AIdent x => (match resolve am cm st offs cs x with Some v => Ok v | None => Err None end, st)
    | ALet x v b =>
        match exec f am cm st offs size cs v with
        | (Ok vv, st1) => exec f (am ++ [Some x]) cm (set_slot st1 (offs + size) vv) offs (S size) cs b
        | r => r
        end
    | AIf c t e =>
        match exec f am cm st offs size cs c with
        | (Ok (VBool true), st1) => exec f am cm st1 offs size cs t
        | (Ok (VBool false), st1) => exec f am cm st1 offs size cs e
        | (Ok (VErrText _), st1) => (Unsup, st1)
        | (Ok _, st1) => (Err None, st1)
        | r => r
        end
    | ASwitch v cases d =>
        match exec f am cm st offs size cs v with
        | (Ok sv, st1) =>
            (fix go (l : list (ast * ast)) (st0 : list value) : res value * list value :=
               match l with
               | [] => exec f am cm st0 offs size cs d
               | (cc, cr) :: rest =>
                   match exec f am cm st0 offs size cs cc with
                   | (Ok cv, st2) =>
                       match equal_fg sv cv with
                       | Ok true => exec f am cm st2 offs size cs cr
                       | Ok false => go rest st2
                       | Err t => (Err t, st2)
                       | Panic => (Panic, st2)
                       | OOF => (OOF, st2)
                       | Unsup => (Unsup, st2)
                       end
                   | r => r
                   end
               end) cases st1
        | r => r
        end
    | ATry t c =>
        match exec f am cm st offs size cs t with
        | (Err thrown, st1) =>
            match exec f am cm st1 offs size cs c with
            | (Ok cv, st2) =>
                match cv with
                | VClo [_] _ _ _ =>
                    (* theFunc.Eval(st, String(tryErr.Error())): push, frame of one *)
                    call cv 1%nat (set_slot st2 (offs + size) (VErrText thrown)) (offs + size)
                | _ => (Ok cv, st2)
                end
            | r => r
            end
        | r => r
        end
    | AUnary op x =>
        match exec f am cm st offs size cs x with
        | (Ok v, st1) => (ucalc op v, st1)
        | r => r
        end
    | AOp op x y =>
        if str_eqb op op_and then
          match exec f am cm st offs size cs x with
          | (Ok (VBool false), st1) => (Ok (VBool false), st1)
          | (Ok (VBool true), st1) =>
              match exec f am cm st1 offs size cs y with
              | (Ok (VBool b), st2) => (Ok (VBool b), st2)
              | (Ok (VErrText _), st2) => (Unsup, st2)
              | (Ok _, st2) => (Err None, st2)
              | r => r
              end
          | (Ok av, st1) =>
              match exec f am cm st1 offs size cs y with
              | (Ok bv, st2) => (calc op av bv, st2)
              | r => r
              end
          | r => r
          end
        else if str_eqb op op_or then
          match exec f am cm st offs size cs x with
          | (Ok (VBool true), st1) => (Ok (VBool true), st1)
          | (Ok (VBool false), st1) =>
              match exec f am cm st1 offs size cs y with
              | (Ok (VBool b), st2) => (Ok (VBool b), st2)
              | (Ok (VErrText _), st2) => (Unsup, st2)
              | (Ok _, st2) => (Err None, st2)
              | r => r
              end
          | (Ok av, st1) =>
              match exec f am cm st1 offs size cs y with
              | (Ok bv, st2) => (calc op av bv, st2)
              | r => r
              end
          | r => r
          end
        else
          match exec f am cm st offs size cs x with
          | (Ok av, st1) =>
              match exec f am cm st1 offs size cs y with
              | (Ok bv, st2) => (calc op av bv, st2)
              | r => r
              end
          | r => r
          end
    | AClosure ps body outer recursive this =>
        (* no outer identifiers and not recursive: a plain function; otherwise copy the context *)
        (match capture am cm st offs cs outer with
         | Some cap => Ok (VClo ps body cap (if recursive then this else []))
         | None => Err None
         end, st)
    | AList l =>
        match plain_list l st with
        | (Ok vs, st1) => (Ok (VList vs), st1)
        | (Err t, st1) => (Err t, st1)
        | (Panic, st1) => (Panic, st1)
        | (OOF, st1) => (OOF, st1)
        | (Unsup, st1) => (Unsup, st1)
        end
    | AIndex l i =>
        match exec f am cm st offs size cs i with
        | (Ok iv, st1) =>
            match exec f am cm st1 offs size cs l with
            | (Ok lv, st2) => (access_list lv iv, st2)
            | r => r
            end
        | r => r
        end
    | AMap m =>
        (fix go (m : list (name * ast)) (st0 : list value) (acc : list (str * value)) : res value * list value :=
           match m with
           | [] => (Ok (VMap acc), st0)
           | (k, x) :: r =>
               match exec f am cm st0 offs size cs x with
               | (Ok v, st1) => go r st1 (acc ++ [(k, v)])
               | r' => r'
               end
           end) m st []
    | AMember m key =>
        match exec f am cm st offs size cs m with
        | (Ok mv, st1) => (access_map mv key, st1)
        | r => r
        end
    | ACall fn args =>
        match exec f am cm st offs size cs fn with
        | (Ok fv, st1) =>
            match fv with
            | VClo ps _ _ _ =>
                if Nat.eqb (length args) (length ps) then
                  match args_loop args 0%nat st1 [] with
                  | (Ok _, st2) => call fv (length args) st2 (offs + size)
                  | (Err t, st2) => (Err t, st2)
                  | (Panic, st2) => (Panic, st2)
                  | (OOF, st2) => (OOF, st2)
                  | (Unsup, st2) => (Unsup, st2)
                  end
                else (Err None, st1)
            | VErrText _ => (Unsup, st1)
            | _ => (Err None, st1)
            end
        | r => r
        end
    | AStatic fname args =>
        match static_arity fname with
        | Some ar =>
            if match ar with Fixed n => Nat.eqb n (length args) | VarArgs => true end then
              match args_loop args 0%nat st [] with
              | (Ok vs, st1) => (run_static fname vs, st1)
              | (Err t, st1) => (Err t, st1)
              | (Panic, st1) => (Panic, st1)
              | (OOF, st1) => (OOF, st1)
              | (Unsup, st1) => (Unsup, st1)
              end
            else (Err None, st)
        | None => (Unsup, st)
        end
    | AMethod recv mname args =>
        match exec f am cm st offs size cs recv with
        | (Ok rv, st1) =>
            let field := match rv with
                         | VMap entries => match assoc_v mname entries with
                                           | Some (VClo ps b c s) => Some (VClo ps b c s, length ps)
                                           | _ => None
                                           end
                         | _ => None
                         end in
            match field with
            | Some (cv, n) =>
                if Nat.eqb (length args) n then
                  (* the receiver is pushed, then the arguments; the frame is the top n slots *)
                  match args_loop args 1%nat (set_slot st1 (offs + size) rv) [] with
                  | (Ok _, st2) => call cv n st2 (offs + size + 1)
                  | (Err t, st2) => (Err t, st2)
                  | (Panic, st2) => (Panic, st2)
                  | (OOF, st2) => (OOF, st2)
                  | (Unsup, st2) => (Unsup, st2)
                  end
                else (Err None, st1)
            | None =>
                match method_arity rv mname with
                | Some ar =>
                    if match ar with Fixed n => Nat.eqb n (length args) | VarArgs => true end then
                      match args_loop args 1%nat (set_slot st1 (offs + size) rv) [] with
                      | (Ok vs, st2) => (run_method app rv mname vs, st2)
                      | (Err t, st2) => (Err t, st2)
                      | (Panic, st2) => (Panic, st2)
                      | (OOF, st2) => (OOF, st2)
                      | (Unsup, st2) => (Unsup, st2)
                      end
                    else (Err None, st1)
                | None =>
                    (match rv with
                     | VErrText _ => Unsup
                     | _ => if method_exists rv mname known then Unsup else Err None
                     end, st1)
                end
            end
        | r => r
        end
    end
  end.

(* ---------- Generate-time errors (GenerateFunc returns an error before anything runs) ---------- *)

Fixpoint gen_check (fuel : nat) (am : list (option name)) (cm : list name) (a : ast) {struct fuel} : bool :=
  match fuel with
  | O => false
  | S f =>
    let fix all (l : list ast) (gcam : list (option name)) : bool :=
      match l with [] => true | x :: r => gen_check f gcam cm x && all r gcam end in
    let fix all_args (l : list ast) (pushed : nat) : bool :=
      match l with [] => true | x :: r => gen_check f (am ++ repeat None pushed) cm x && all_args r (S pushed) end in
    match a with
    | AConst _ => true
    | AIdent x =>
        match index_of oname_eqb (Some x) am with
        | Some _ => true
        | None => match index_of str_eqb x cm with Some _ => true | None => false end
        end
    | ALet x v b =>
        gen_check f am cm v &&
        negb (match x with [] => true | _ => false end) &&                       (* empty names are not allowed *)
        negb (match index_of oname_eqb (Some x) am with Some _ => true | None => false end) &&   (* redeclaration *)
        gen_check f (am ++ [Some x]) cm b
    | AIf c t e => gen_check f am cm c && gen_check f am cm t && gen_check f am cm e
    | ASwitch v cases d =>
        gen_check f am cm v && gen_check f am cm d &&
        (fix go (l : list (ast * ast)) : bool :=
           match l with [] => true | (cc, cr) :: r => gen_check f am cm cc && gen_check f am cm cr && go r end) cases
    | ATry t c => gen_check f am cm t && gen_check f am cm c
    | AUnary _ x => gen_check f am cm x
    | AOp _ x y => gen_check f am cm x && gen_check f am cm y
    | AClosure ps body outer recursive this =>
        let used := outer ++ (if recursive then [this] else []) in
        (* usedVars.add(ThisName) fails on duplicates and empty names; every outer name must resolve *)
        negb (recursive && (mem_name this outer || match this with [] => true | _ => false end)) &&
        forallb (fun n => match index_of oname_eqb (Some n) am with
                          | Some _ => true
                          | None => match index_of str_eqb n cm with Some _ => true | None => false end
                          end) outer &&
        gen_check f (map Some ps) used body
    | AList l => all l am
    | AIndex l i => gen_check f am cm i && gen_check f am cm l
    | AMap m => (fix go (m : list (name * ast)) : bool :=
                   match m with [] => true | (_, x) :: r => gen_check f am cm x && go r end) m
    | AMember m _ => gen_check f am cm m
    | ACall fn args => gen_check f am cm fn && all_args args 0%nat
    | AStatic fname args =>
        match static_arity fname with
        | Some (Fixed n) => Nat.eqb n (length args)
        | _ => true
        end && all_args args 0%nat
    | AMethod recv _ args => gen_check f am cm recv && all_args args 1%nat
    end
  end.

Fixpoint ast_size (a : ast) : nat :=
  match a with
  | AConst _ | AIdent _ => 1
  | ALet _ v b => S (ast_size v + ast_size b)
  | AIf c t e => S (ast_size c + ast_size t + ast_size e)
  | ASwitch v cases d =>
      S (ast_size v + ast_size d +
         (fix go (l : list (ast * ast)) : nat :=
            match l with [] => 0 | (x, y) :: r => ast_size x + ast_size y + go r end) cases)
  | ATry t c => S (ast_size t + ast_size c)
  | AUnary _ x => S (ast_size x)
  | AOp _ x y => S (ast_size x + ast_size y)
  | AClosure _ body _ _ _ => S (ast_size body)
  | AList l => S ((fix go (l : list ast) : nat := match l with [] => 0 | x :: r => ast_size x + go r end) l)
  | AIndex l i => S (ast_size l + ast_size i)
  | AMap m => S ((fix go (m : list (name * ast)) : nat := match m with [] => 0 | (_, x) :: r => ast_size x + go r end) m)
  | AMember m _ => S (ast_size m)
  | ACall fn args => S (ast_size fn + (fix go (l : list ast) : nat := match l with [] => 0 | x :: r => ast_size x + go r end) args)
  | AStatic _ args => S ((fix go (l : list ast) : nat := match l with [] => 0 | x :: r => ast_size x + go r end) args)
  | AMethod recv _ args => S (ast_size recv + (fix go (l : list ast) : nat := match l with [] => 0 | x :: r => ast_size x + go r end) args)
  end.

(* Generate(exp, argNames...) then Func.Eval(args...): a fresh stack initialised with the arguments *)
Definition run (fuel : nat) (a : ast) (argnames : list name) (args : list value) : res value :=
  if negb (Nat.eqb (length argnames) (length args)) then Unsup else
  if gen_check (S (ast_size a)) (map Some argnames) [] a
  then fst (exec fuel (map Some argnames) [] args 0 (length args) [] a)
  else Err None.

End Gen.
