(* The optimizer and the trace semantics: the optimized program makes the same host calls (C02's
   "exact per-evaluation call counts"), and what the optimizer itself evaluates at Generate time
   makes none. *)
From P2 Require Import Base.Prelude Base.PreludeProofs Sem.Num Sem.Syntax Sem.Ops Sem.Lib Sem.Ref Sem.Gen Sem.Sim Sem.RelProofs Sem.GenProofs Sem.RefMono Sem.Trace Sem.TraceProofs Sem.Opt Sem.OptRel Sem.OptRelProofs Sem.OptOpsProofs Sem.OptWf Sem.OptProofs Sem.OptSound Sem.OptFlagsProofs Sem.OptValue Sem.OptExamples Sem.TraceSim.
Require Import Lia.

Section TraceOpt.
Variable known : list (N * list name).
Variable host : name -> list value -> res value.
Local Notation vrel := (OptRel.vrel known).

(* the oracle answers related results on related arguments (any oracle whose answers do not depend
   on the closures inside its arguments, e.g. the harness function tick) *)
Definition host_respects : Prop :=
  forall f vs vs', Forall2 vrel vs vs' -> rrel vrel (host f vs) (host f vs').

(* same outcome up to the value relation, same events *)
Definition trace_rel (p p' : tres value) : Prop := TR known vrel p p'.

Theorem optimize_preserves_trace_cfg : forall fl fuel,
  cfg_ok fl = true -> host_respects ->
  forall n m env a,
  side_ok a = true ->
  (forall x v, lookup x env = Some v -> vrel v v) ->
  n <= m ->
  tdecided (fst (teval known host n env a)) ->
  trace_rel (teval known host n env a) (teval known host m env (optimize fl known fuel a)).
Proof.
  intros fl fuel C Hh n m env a S He L D. unfold cfg_ok in C.
  apply andb_true_iff in C. destruct C as [C C3]. apply andb_true_iff in C. destruct C as [C1 C2].
  eapply (tsim known host Hh n); eauto.
  - apply (opt_arel fl known fuel (fold_agrees_all _) (no_commutative_regroup_exact _ C1) C2 C3); [exact S|].
    intros x c E. discriminate.
  - split; [intros x c E; discriminate|]. intros x _ _.
    destruct (lookup x env) eqn:E; constructor. eauto.
Qed.

(* the same host functions are called equally often ... *)
Lemma evrel_names tr tr' : Forall2 (evrel known) tr tr' -> map fst tr' = map fst tr.
Proof. induction 1 as [|e e' tr tr' [H1 H2] Hl IH]; simpl; congruence. Qed.

Lemma count_calls_map f tr : count_calls f tr = length (filter (fun n => str_eqb n f) (map fst tr)).
Proof.
  unfold count_calls. induction tr as [|[g vs] tr IH]; [reflexivity|].
  cbn [map filter fst]. destruct (str_eqb g f); cbn [length]; [f_equal|]; exact IH.
Qed.

Lemma count_calls_names f tr tr' : map fst tr' = map fst tr -> count_calls f tr' = count_calls f tr.
Proof. intros H. rewrite !count_calls_map, H. reflexivity. Qed.

Theorem optimize_preserves_call_counts_cfg : forall fl fuel,
  cfg_ok fl = true -> host_respects ->
  forall n m env a,
  side_ok a = true ->
  (forall x v, lookup x env = Some v -> vrel v v) ->
  n <= m ->
  tdecided (fst (teval known host n env a)) ->
  map fst (snd (teval known host m env (optimize fl known fuel a))) = map fst (snd (teval known host n env a)) /\
  forall f, count_calls f (snd (teval known host m env (optimize fl known fuel a)))
            = count_calls f (snd (teval known host n env a)).
Proof.
  intros fl fuel C Hh n m env a S He L D.
  destruct (optimize_preserves_trace_cfg fl fuel C Hh n m env a S He L D) as [_ Ht].
  pose proof (evrel_names _ _ Ht) as E. split; [exact E|]. intros f. apply count_calls_names. exact E.
Qed.

(* ... with the same arguments when these are first-order *)
Lemma evrel_fo tr tr' :
  Forall2 (evrel known) tr tr' -> Forall (fun e => forallb fo (snd e) = true) tr -> tr' = tr.
Proof.
  induction 1 as [|[f vs] [f' vs'] tr tr' [H1 H2] Hl IH]; intros F; [reflexivity|].
  inversion F as [|? ? F1 F2]; subst. cbn [fst snd] in *. subst f'. rewrite (IH F2). f_equal. f_equal.
  clear - H2 F1. induction H2 as [|v v' vs vs' Hv Hvs IHv]; [reflexivity|].
  cbn [forallb] in F1. apply andb_true_iff in F1. destruct F1 as [Fv Fvs].
  rewrite (IHv Fvs). f_equal. symmetry. eapply ovrel_fo_eq; eauto.
Qed.

Theorem optimize_preserves_trace_exact_cfg : forall fl fuel,
  cfg_ok fl = true -> host_respects ->
  forall n m env a,
  side_ok a = true ->
  (forall x v, lookup x env = Some v -> vrel v v) ->
  n <= m ->
  tdecided (fst (teval known host n env a)) ->
  Forall (fun e => forallb fo (snd e) = true) (snd (teval known host n env a)) ->
  snd (teval known host m env (optimize fl known fuel a)) = snd (teval known host n env a).
Proof.
  intros fl fuel C Hh n m env a S He L D F.
  destruct (optimize_preserves_trace_cfg fl fuel C Hh n m env a S He L D) as [_ Ht].
  apply evrel_fo; auto.
Qed.

End TraceOpt.

(* ---------- what the optimizer evaluates at Generate time makes no host call ---------- *)

(* a constant closure applied to constants / a method run on constants by the optimizer: whatever the
   oracle, the traced evaluation of the redex is the value of the reference semantics and NO event
   (a decided reference evaluation reaches no host function; generated code reaches none either:
   its result is related to that value by C01) *)
Theorem generate_call_no_host_call : forall known fuel cv cs v,
  cwf cv -> Forall cwf cs ->
  (match cv with VClo ps _ _ _ => Nat.eqb (length ps) (length (map AConst cs)) | _ => false end) = true ->
  gapp known fuel cv cs = Ok v ->
  exists k v1, Sim.vrel v1 v /\
    forall host env, teval known host k env (ACall (AConst cv) (map AConst cs)) = (Ok v1, []).
Proof.
  intros known fuel cv cs v Wc Wcs Hl H.
  destruct (gsem_call known fuel cv cs v Wc Wcs Hl H) as [(k & v1 & Hev & Hrel) _].
  exists k, v1. split; [exact Hrel|]. intros host env.
  rewrite <- (Hev env). apply eval_teval. rewrite Hev. exact I.
Qed.

Theorem generate_method_no_host_call : forall known fuel rv m ar cs v,
  cwf rv -> Forall cwf cs ->
  closure_field rv m = false -> method_arity rv m = Some ar -> arity_matches ar (length cs) = true ->
  run_method (gapp known fuel) rv m cs = Ok v ->
  exists k v1, Sim.vrel v1 v /\
    forall host env, teval known host k env (AMethod (AConst rv) m (map AConst cs)) = (Ok v1, []).
Proof.
  intros known fuel rv m ar cs v Wr Wcs Hf Har Hm H.
  destruct (gsem_method known fuel rv m ar cs v Wr Wcs Hf Har Hm H) as [(k & v1 & Hev & Hrel) _].
  exists k, v1. split; [exact Hrel|]. intros host env.
  rewrite <- (Hev env). apply eval_teval. rewrite Hev. exact I.
Qed.

(* a static function the optimizer runs is a modelled built-in, never a host function *)
Theorem generate_static_not_host : forall fl f args,
  rule_static fl f args <> AStatic f args -> static_arity f <> None.
Proof.
  intros fl f args H E. apply H. unfold rule_static. rewrite E. destruct (static_pure fl f); reflexivity.
Qed.

(* the example oracle (tick answers the sum of two integers) respects the value relation *)
Lemma host_ex_respects known : host_respects known host_ex.
Proof.
  intros f vs vs' H. unfold host_ex.
  destruct H as [|v v' vs vs' Hv H]; [constructor|].
  inversion Hv; subst; try constructor.
  destruct H as [|w w' vs vs' Hw H]; [constructor|].
  inversion Hw; subst; try constructor.
  destruct H; constructor. constructor.
Qed.
