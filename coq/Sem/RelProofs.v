(* Basic lemmas for the C01 simulation: slot arithmetic, name lookup, the frame invariant,
   "wf depends only on the set of names", reflexivity of vrel on first-order values. *)
From P2 Require Import Base.Prelude Base.PreludeProofs Sem.Num Sem.Syntax Sem.Ops Sem.Lib Sem.Ref Sem.Gen Sem.Sim.
Require Import Lia.
Arguments oname_eqb : simpl never.
Arguments str_eqb : simpl never.

(* ---------- induction principles that see through the nested lists ---------- *)

Section value_ind2.
  Variable P : value -> Prop.
  Hypothesis HI : forall z, P (VInt z).
  Hypothesis HF : forall f, P (VFloat f).
  Hypothesis HS : forall s, P (VStr s).
  Hypothesis HB : forall b, P (VBool b).
  Hypothesis HL : forall l, Forall P l -> P (VList l).
  Hypothesis HM : forall m, Forall (fun e => P (snd e)) m -> P (VMap m).
  Hypothesis HC : forall ps b c s, P (VClo ps b c s).
  Hypothesis HE : forall t, P (VErrText t).
  Fixpoint value_ind2 (v : value) : P v :=
    match v with
    | VInt z => HI z
    | VFloat f => HF f
    | VStr s => HS s
    | VBool b => HB b
    | VList l =>
        HL l ((fix go (l : list value) : Forall P l :=
                 match l with [] => Forall_nil _ | x :: r => Forall_cons _ (value_ind2 x) (go r) end) l)
    | VMap m =>
        HM m ((fix go (m : list (str * value)) : Forall (fun e => P (snd e)) m :=
                 match m with
                 | [] => Forall_nil _
                 | e :: r => Forall_cons (P := fun e => P (snd e)) e (value_ind2 (snd e)) (go r)
                 end) m)
    | VClo ps b c s => HC ps b c s
    | VErrText t => HE t
    end.
End value_ind2.

(* as value_ind2, with an induction hypothesis for the captured values of a closure *)
Section value_ind3.
  Variable P : value -> Prop.
  Hypothesis HI : forall z, P (VInt z).
  Hypothesis HF : forall f, P (VFloat f).
  Hypothesis HS : forall s, P (VStr s).
  Hypothesis HB : forall b, P (VBool b).
  Hypothesis HL : forall l, Forall P l -> P (VList l).
  Hypothesis HM : forall m, Forall (fun e => P (snd e)) m -> P (VMap m).
  Hypothesis HC : forall ps b c s, Forall (fun e => P (snd e)) c -> P (VClo ps b c s).
  Hypothesis HE : forall t, P (VErrText t).
  Fixpoint value_ind3 (v : value) : P v :=
    match v with
    | VInt z => HI z
    | VFloat f => HF f
    | VStr s => HS s
    | VBool b => HB b
    | VList l =>
        HL l ((fix go (l : list value) : Forall P l :=
                 match l with [] => Forall_nil _ | x :: r => Forall_cons _ (value_ind3 x) (go r) end) l)
    | VMap m =>
        HM m ((fix go (m : list (str * value)) : Forall (fun e => P (snd e)) m :=
                 match m with
                 | [] => Forall_nil _
                 | e :: r => Forall_cons (P := fun e => P (snd e)) e (value_ind3 (snd e)) (go r)
                 end) m)
    | VClo ps b c s =>
        HC ps b c s ((fix go (m : list (name * value)) : Forall (fun e => P (snd e)) m :=
                 match m with
                 | [] => Forall_nil _
                 | e :: r => Forall_cons (P := fun e => P (snd e)) e (value_ind3 (snd e)) (go r)
                 end) c)
    | VErrText t => HE t
    end.
End value_ind3.

Section ast_ind2.
  Variable P : ast -> Prop.
  Hypothesis HConst : forall v, P (AConst v).
  Hypothesis HIdent : forall x, P (AIdent x).
  Hypothesis HLet : forall x v b, P v -> P b -> P (ALet x v b).
  Hypothesis HIf : forall c t e, P c -> P t -> P e -> P (AIf c t e).
  Hypothesis HSwitch : forall v cases d,
    P v -> Forall (fun c => P (fst c) /\ P (snd c)) cases -> P d -> P (ASwitch v cases d).
  Hypothesis HTry : forall t c, P t -> P c -> P (ATry t c).
  Hypothesis HUnary : forall op x, P x -> P (AUnary op x).
  Hypothesis HOp : forall op x y, P x -> P y -> P (AOp op x y).
  Hypothesis HClosure : forall ps body outer r this, P body -> P (AClosure ps body outer r this).
  Hypothesis HList : forall l, Forall P l -> P (AList l).
  Hypothesis HIndex : forall l i, P l -> P i -> P (AIndex l i).
  Hypothesis HMap : forall m, Forall (fun e => P (snd e)) m -> P (AMap m).
  Hypothesis HMember : forall m k, P m -> P (AMember m k).
  Hypothesis HCall : forall f args, P f -> Forall P args -> P (ACall f args).
  Hypothesis HStatic : forall f args, Forall P args -> P (AStatic f args).
  Hypothesis HMethod : forall r m args, P r -> Forall P args -> P (AMethod r m args).
  Fixpoint ast_ind2 (a : ast) : P a :=
    let all := fix go (l : list ast) : Forall P l :=
      match l with [] => Forall_nil _ | x :: r => Forall_cons _ (ast_ind2 x) (go r) end in
    match a with
    | AConst v => HConst v
    | AIdent x => HIdent x
    | ALet x v b => HLet x v b (ast_ind2 v) (ast_ind2 b)
    | AIf c t e => HIf c t e (ast_ind2 c) (ast_ind2 t) (ast_ind2 e)
    | ASwitch v cases d =>
        HSwitch v cases d (ast_ind2 v)
          ((fix go (l : list (ast * ast)) : Forall (fun c => P (fst c) /\ P (snd c)) l :=
              match l with
              | [] => Forall_nil _
              | c :: r => Forall_cons (P := fun c => P (fst c) /\ P (snd c)) c
                            (conj (ast_ind2 (fst c)) (ast_ind2 (snd c))) (go r)
              end) cases)
          (ast_ind2 d)
    | ATry t c => HTry t c (ast_ind2 t) (ast_ind2 c)
    | AUnary op x => HUnary op x (ast_ind2 x)
    | AOp op x y => HOp op x y (ast_ind2 x) (ast_ind2 y)
    | AClosure ps body outer r this => HClosure ps body outer r this (ast_ind2 body)
    | AList l => HList l (all l)
    | AIndex l i => HIndex l i (ast_ind2 l) (ast_ind2 i)
    | AMap m =>
        HMap m ((fix go (l : list (name * ast)) : Forall (fun e => P (snd e)) l :=
                   match l with
                   | [] => Forall_nil _
                   | e :: r => Forall_cons (P := fun e => P (snd e)) e (ast_ind2 (snd e)) (go r)
                   end) m)
    | AMember m k => HMember m k (ast_ind2 m)
    | ACall f args => HCall f args (ast_ind2 f) (all args)
    | AStatic f args => HStatic f args (all args)
    | AMethod r m args => HMethod r m args (ast_ind2 r) (all args)
    end.
End ast_ind2.

(* ---------- names ---------- *)

Lemma str_eqb_true a b : str_eqb a b = true -> a = b.
Proof. apply str_eqb_eq. Qed.

Lemma str_eqb_false a b : str_eqb a b = false -> a <> b.
Proof. intros H E. subst. rewrite str_eqb_refl in H. discriminate. Qed.

Lemma str_eqb_neq a b : a <> b -> str_eqb a b = false.
Proof. intros H. destruct (str_eqb a b) eqn:E; auto. apply str_eqb_true in E. tauto. Qed.

Lemma lookup_cons x y v env :
  lookup x ((y, v) :: env) = if str_eqb x y then Some v else lookup x env.
Proof. reflexivity. Qed.

(* ---------- storage ---------- *)

Lemma length_set st i v : i <= length st -> length (set_slot st i v) = Nat.max (length st) (S i).
Proof.
  revert i; induction st as [|x st IH]; intros [|i] H; simpl in *; try lia.
  rewrite IH by lia. lia.
Qed.

Lemma nth_set_eq st i v : i <= length st -> nth_error (set_slot st i v) i = Some v.
Proof.
  revert i; induction st as [|x st IH]; intros [|i] H; simpl in *; try lia; auto.
  apply IH; lia.
Qed.

Lemma nth_set_lt st i j v : i <= length st -> j < i -> nth_error (set_slot st i v) j = nth_error st j.
Proof.
  revert i j; induction st as [|x st IH]; intros [|i] [|j] H Hj; simpl in *; try lia; auto.
  apply IH; lia.
Qed.

(* ---------- index_of ---------- *)

Lemma index_of_some_lt {A} eqb (x : A) l i : index_of eqb x l = Some i -> i < length l.
Proof.
  revert i; induction l as [|y l IH]; simpl; intros i H; [discriminate|].
  destruct (eqb x y). { inversion H; lia. }
  destruct (index_of eqb x l) eqn:E; simpl in H; inversion H; subst. specialize (IH _ eq_refl). lia.
Qed.

Lemma index_of_cons_some x y am :
  index_of oname_eqb (Some x) (Some y :: am) =
  if str_eqb x y then Some 0 else option_map S (index_of oname_eqb (Some x) am).
Proof. reflexivity. Qed.

Lemma index_of_cons_none x am :
  index_of oname_eqb (Some x) (None :: am) = option_map S (index_of oname_eqb (Some x) am).
Proof. reflexivity. Qed.

Lemma index_of_oeqb_in x am : In (Some x) am -> exists i, index_of oname_eqb (Some x) am = Some i.
Proof.
  induction am as [|[y|] am IH]; intros H; [destruct H| |].
  - rewrite index_of_cons_some. destruct (str_eqb x y) eqn:E; [eauto|].
    destruct H as [H|H]. { inversion H; subst. rewrite str_eqb_refl in E. discriminate. }
    destruct (IH H) as [i Hi]. rewrite Hi. simpl. eauto.
  - rewrite index_of_cons_none. destruct H as [H|H]; [discriminate|].
    destruct (IH H) as [i Hi]. rewrite Hi. simpl. eauto.
Qed.

Lemma index_of_oeqb_notin x am : ~ In (Some x) am -> index_of oname_eqb (Some x) am = None.
Proof.
  induction am as [|[y|] am IH]; intros H; auto.
  - rewrite index_of_cons_some. destruct (str_eqb x y) eqn:E.
    + apply str_eqb_true in E. subst. exfalso. apply H. left; auto.
    + rewrite IH; auto. intros H'. apply H. right; auto.
  - rewrite index_of_cons_none. rewrite IH; auto. intros H'. apply H. right; auto.
Qed.

Lemma index_of_app_l x am am' i :
  index_of oname_eqb (Some x) am = Some i -> index_of oname_eqb (Some x) (am ++ am') = Some i.
Proof.
  revert i; induction am as [|y am IH]; simpl; intros i H; [discriminate|].
  destruct (oname_eqb (Some x) y); auto.
  destruct (index_of oname_eqb (Some x) am) eqn:E; simpl in H; [|discriminate].
  rewrite (IH _ eq_refl). auto.
Qed.

Lemma index_of_app_r x am am' :
  index_of oname_eqb (Some x) am = None ->
  index_of oname_eqb (Some x) (am ++ am') =
  option_map (fun i => length am + i) (index_of oname_eqb (Some x) am').
Proof.
  induction am as [|y am IH]; simpl; intros H.
  - destruct (index_of oname_eqb (Some x) am'); auto.
  - destruct (oname_eqb (Some x) y); [discriminate|].
    destruct (index_of oname_eqb (Some x) am) eqn:E; simpl in H; [discriminate|].
    rewrite IH by auto. destruct (index_of oname_eqb (Some x) am'); auto.
Qed.

Lemma index_of_repeat_none x k : index_of oname_eqb (Some x) (repeat None k) = None.
Proof. induction k; simpl; auto. rewrite IHk. auto. Qed.

Lemma index_of_reserved x am k :
  index_of oname_eqb (Some x) (am ++ repeat None k) = index_of oname_eqb (Some x) am.
Proof.
  destruct (index_of oname_eqb (Some x) am) eqn:E.
  - apply index_of_app_l; auto.
  - rewrite index_of_app_r by auto. rewrite index_of_repeat_none. auto.
Qed.

Lemma resolve_reserved am cm st offs cs x k :
  resolve (am ++ repeat None k) cm st offs cs x = resolve am cm st offs cs x.
Proof. unfold resolve. rewrite index_of_reserved. auto. Qed.

Lemma in_reserved (x : name) (am : list (option name)) k :
  In (Some x) (am ++ repeat None k) <-> In (Some x) am.
Proof.
  rewrite in_app_iff. split; [intros [H|H]; auto|auto].
  apply repeat_spec in H. discriminate.
Qed.

Lemma index_of_map_some x ps : index_of oname_eqb (Some x) (map Some ps) = index_of str_eqb x ps.
Proof.
  induction ps as [|p ps IH]; auto. cbn [map]. rewrite index_of_cons_some. simpl.
  destruct (str_eqb x p); auto. rewrite IH. auto.
Qed.

Lemma index_of_str_in x l : In x l -> exists i, index_of str_eqb x l = Some i.
Proof.
  induction l as [|y l IH]; simpl; intros H; [tauto|].
  destruct (str_eqb x y) eqn:E; [eauto|]. destruct H as [->|H]. { rewrite str_eqb_refl in E; discriminate. }
  destruct (IH H) as [i ->]. simpl; eauto.
Qed.

Lemma index_of_str_notin x l : ~ In x l -> index_of str_eqb x l = None.
Proof.
  induction l as [|y l IH]; simpl; intros H; auto.
  destruct (str_eqb x y) eqn:E. { apply str_eqb_true in E. subst. tauto. }
  rewrite IH; auto.
Qed.

Lemma index_of_str_some_in x l i : index_of str_eqb x l = Some i -> In x l.
Proof.
  revert i; induction l as [|y l IH]; simpl; intros i H; [discriminate|].
  destruct (str_eqb x y) eqn:E. { apply str_eqb_true in E. auto. }
  destruct (index_of str_eqb x l) eqn:E2; simpl in H; [|discriminate]. right. eapply IH; eauto.
Qed.

Lemma index_of_str_app_l x l l' i :
  index_of str_eqb x l = Some i -> index_of str_eqb x (l ++ l') = Some i.
Proof.
  revert i; induction l as [|y l IH]; simpl; intros i H; [discriminate|].
  destruct (str_eqb x y); auto.
  destruct (index_of str_eqb x l) eqn:E; simpl in H; [|discriminate].
  rewrite (IH _ eq_refl). auto.
Qed.

Lemma index_of_str_app_r x l l' :
  index_of str_eqb x l = None ->
  index_of str_eqb x (l ++ l') = option_map (fun i => length l + i) (index_of str_eqb x l').
Proof.
  induction l as [|y l IH]; simpl; intros H.
  - destruct (index_of str_eqb x l'); auto.
  - destruct (str_eqb x y); [discriminate|].
    destruct (index_of str_eqb x l) eqn:E; simpl in H; [discriminate|].
    rewrite IH by auto. destruct (index_of str_eqb x l'); auto.
Qed.

(* ---------- lookup in association lists ---------- *)

Lemma lookup_index (c : list (name * value)) (x : name) i :
  index_of str_eqb x (map fst c) = Some i -> nth_error (map snd c) i = lookup x c.
Proof.
  revert i; induction c as [|[y v] c IH]; simpl; intros i H; [discriminate|].
  destruct (str_eqb x y). { inversion H; auto. }
  destruct (index_of str_eqb x (map fst c)) eqn:E; simpl in H; inversion H; subst. simpl. auto.
Qed.

Lemma lookup_some_in x c v : lookup x c = Some v -> In x (map fst c).
Proof.
  induction c as [|[y w] c IH]; simpl; [discriminate|].
  destruct (str_eqb x y) eqn:E; [apply str_eqb_true in E; auto|auto].
Qed.

Lemma lookup_in_some x c : In x (map fst c) -> exists v, lookup x c = Some v.
Proof.
  induction c as [|[y w] c IH]; simpl; [tauto|].
  destruct (str_eqb x y) eqn:E; [eauto|]. intros [->|H]; [rewrite str_eqb_refl in E; discriminate|auto].
Qed.

Lemma lookup_app_notin x l1 l2 : ~ In x (map fst l1) -> lookup x (l1 ++ l2) = lookup x l2.
Proof.
  induction l1 as [|[y v] l1 IH]; simpl; intros H; auto.
  destruct (str_eqb x y) eqn:E. { apply str_eqb_true in E. subst. tauto. } apply IH. tauto.
Qed.

Lemma lookup_app_some x l1 l2 v : lookup x l1 = Some v -> lookup x (l1 ++ l2) = Some v.
Proof.
  induction l1 as [|[y w] l1 IH]; simpl; [discriminate|].
  destruct (str_eqb x y); auto.
Qed.

Lemma lookup_combine (ps : list name) (acc : list value) x i :
  length acc = length ps -> index_of str_eqb x ps = Some i ->
  lookup x (combine ps acc) = nth_error acc i.
Proof.
  revert acc i; induction ps as [|p ps IH]; intros [|a acc] i L H; simpl in *; try discriminate.
  destruct (str_eqb x p). { inversion H; auto. }
  destruct (index_of str_eqb x ps) eqn:E; simpl in H; inversion H; subst. simpl. apply IH; auto.
Qed.

Lemma combine_keys (ps : list name) (acc : list value) :
  length acc = length ps -> map fst (combine ps acc) = ps.
Proof.
  revert acc; induction ps as [|p ps IHps]; intros [|v acc] L; simpl in *; try discriminate; auto.
  f_equal. auto.
Qed.

(* capture computes exactly the resolved values of the outer names *)
Lemma capture_spec am cm st offs cs outer :
  (forall n, In n outer -> exists v, resolve am cm st offs cs n = Some v) ->
  exists cap, capture am cm st offs cs outer = Some cap /\ map fst cap = outer /\
    forall x v, lookup x cap = Some v -> resolve am cm st offs cs x = Some v.
Proof.
  induction outer as [|n outer IH]; simpl; intros H.
  - exists []. split; auto. split; auto. simpl. discriminate.
  - destruct (H n (or_introl eq_refl)) as [v Hv]. rewrite Hv.
    destruct IH as (cap & C1 & C2 & C3). { intros; apply H; auto. }
    rewrite C1. exists ((n, v) :: cap). split; auto. split. { simpl. congruence. }
    intros x w. rewrite lookup_cons. destruct (str_eqb x n) eqn:E.
    + apply str_eqb_true in E. subst. intros [= <-]. auto.
    + apply C3.
Qed.

(* ---------- same_below ---------- *)

Lemma same_below_refl n st : same_below n st st.
Proof. split; auto. Qed.

Lemma same_below_le n m st st' : m <= n -> same_below n st st' -> same_below m st st'.
Proof. intros L [l H]. split; auto. intros i Hi. apply H. lia. Qed.

Lemma same_below_trans n st1 st2 st3 :
  same_below n st1 st2 -> same_below n st2 st3 -> same_below n st1 st3.
Proof.
  intros [l1 H1] [l2 H2]. split; [lia|]. intros i Hi. rewrite H2 by lia. apply H1; lia.
Qed.

Lemma same_below_trans_le n m st1 st2 st3 :
  n <= m -> same_below n st1 st2 -> same_below m st2 st3 -> same_below n st1 st3.
Proof. intros L S1 S2. eapply same_below_trans; [exact S1|]. eapply same_below_le; eauto. Qed.

Lemma same_below_set n st i v : n <= i -> i <= length st -> same_below n st (set_slot st i v).
Proof.
  intros. split. { rewrite length_set by lia. lia. }
  intros j Hj. apply nth_set_lt; lia.
Qed.

(* ---------- frame_ok ---------- *)

Lemma resolve_same am cm st st' offs size cs x :
  length am = size -> same_below (offs + size) st st' ->
  resolve am cm st' offs cs x = resolve am cm st offs cs x.
Proof.
  intros L [_ H]. unfold resolve. destruct (index_of oname_eqb (Some x) am) eqn:E; auto.
  apply index_of_some_lt in E. apply H. lia.
Qed.

Lemma frame_ok_same am cm st st' offs size cs env :
  frame_ok am cm st offs size cs env -> same_below (offs + size) st st' ->
  frame_ok am cm st' offs size cs env.
Proof.
  intros (L & B & R) S. split; auto. split. { destruct S; lia. }
  intros x Hx. destruct (R x Hx) as (v1 & v2 & A1 & A2 & A3).
  exists v1, v2. split; auto. split; auto. erewrite resolve_same; eauto.
Qed.

Lemma frame_ok_reserved am cm st offs size cs env k :
  frame_ok am cm st offs size cs env -> offs + size + k <= length st ->
  frame_ok (am ++ repeat None k) cm st offs (size + k) cs env.
Proof.
  intros (L & B & R) Hk. split. { rewrite app_length, repeat_length. lia. }
  split; [lia|]. intros x Hx. rewrite in_reserved in Hx.
  destruct (R x Hx) as (v1 & v2 & A1 & A2 & A3). exists v1, v2. rewrite resolve_reserved. auto.
Qed.

(* the frame after a let: one more slot, one more binding *)
Lemma frame_ok_let am cm st offs size cs env x v1 v2 :
  frame_ok am cm st offs size cs env -> ~ In (Some x) am -> vrel v1 v2 ->
  frame_ok (am ++ [Some x]) cm (set_slot st (offs + size) v2) offs (S size) cs ((x, v1) :: env).
Proof.
  intros (L & B & R) Hn Hv.
  split. { rewrite app_length; simpl; lia. }
  split. { rewrite length_set by lia. lia. }
  intros y Hy. rewrite lookup_cons. destruct (str_eqb y x) eqn:E.
  - apply str_eqb_true in E. subst y. exists v1, v2. split; auto. split; auto.
    unfold resolve. rewrite index_of_app_r by (apply index_of_oeqb_notin; auto).
    rewrite index_of_cons_some, str_eqb_refl. simpl. rewrite L, Nat.add_0_r. apply nth_set_eq. lia.
  - assert (Hy' : In (Some y) am \/ In y cm).
    { destruct Hy as [Hy|Hy]; auto. apply in_app_iff in Hy. destruct Hy as [Hy|[Hy|[]]]; auto.
      inversion Hy; subst. rewrite str_eqb_refl in E. discriminate. }
    destruct (R y Hy') as (w1 & w2 & A1 & A2 & A3). exists w1, w2. split; auto. split; auto.
    rewrite <- A2. unfold resolve.
    destruct (index_of oname_eqb (Some y) am) eqn:E2.
    + rewrite (index_of_app_l _ _ _ _ E2). apply index_of_some_lt in E2.
      apply nth_set_lt; lia.
    + rewrite index_of_app_r by auto. rewrite index_of_cons_some, E. simpl. auto.
Qed.

(* ---------- wf depends only on which names are present ---------- *)

Lemma wf_list_Forall W l : wf_list W l <-> Forall W l.
Proof.
  induction l as [|a l IH]; simpl; split; auto.
  - intros [H1 H2]. constructor; tauto.
  - intros H. inversion H; subst. tauto.
Qed.

Ltac use_ih E :=
  match goal with
  | IH : forall am am' cm, _ -> wf am cm ?a -> wf am' cm ?a |- wf _ _ ?a =>
      eapply IH; [exact E|eassumption]
  end.

Lemma wf_equiv : forall a am am' cm,
  (forall x : name, In (Some x) am <-> In (Some x) am') -> wf am cm a -> wf am' cm a.
Proof.
  intros a.
  induction a as [v|x|x v b IHv IHb|c t e IHc IHt IHe|v cases d IHv IHcases IHd|t c IHt IHc|op x IHx
                 |op x y IHx IHy|ps body outer r this IHbody|l IHl|l i IHl IHi|m IHm|m k IHm
                 |f args IHf IHargs|f args IHargs|r m args IHr IHargs] using ast_ind2;
    intros am am' cm E W; cbn [wf] in *; auto.
  - destruct W; [left; apply E|right]; auto.
  - destruct W as (W1 & W2 & W3). split; [use_ih E|]. split; [rewrite <- E; auto|].
    eapply IHb; [|eauto]. intros y. rewrite !in_app_iff. rewrite E. tauto.
  - destruct W as (W1 & W2 & W3). repeat split; use_ih E.
  - destruct W as (W1 & W2 & W3). split; [use_ih E|]. split; [use_ih E|].
    clear IHv IHd W1 W2.
    induction IHcases as [|[cc cr] l [Hc1 Hc2] Hl IH]; simpl in *; auto.
    destruct W3 as (Wa & Wb & Wl). repeat split; auto; use_ih E.
  - destruct W; split; use_ih E.
  - use_ih E.
  - destruct W; split; use_ih E.
  - destruct W as (W1 & W2 & W3). split; auto.
    intros n Hn. destruct (W1 n Hn); [left; apply E|right]; auto.
  - induction IHl as [|a l Ha Hl IH]; simpl in *; auto. destruct W; split; auto; use_ih E.
  - destruct W; split; use_ih E.
  - induction IHm as [|[k a] l Ha Hl IH]; simpl in *; auto. destruct W; split; auto; use_ih E.
  - use_ih E.
  - destruct W as [W1 W2]. split; [use_ih E|]. clear IHf W1.
    induction IHargs as [|a l Ha Hl IH]; simpl in *; auto. destruct W2; split; auto; use_ih E.
  - induction IHargs as [|a l Ha Hl IH]; simpl in *; auto. destruct W; split; auto; use_ih E.
  - destruct W as [W1 W2]. split; [use_ih E|]. clear IHr W1.
    induction IHargs as [|a l Ha Hl IH]; simpl in *; auto. destruct W2; split; auto; use_ih E.
Qed.

Lemma wf_reserved a am cm k : wf am cm a -> wf (am ++ repeat None k) cm a.
Proof. apply wf_equiv. intros; symmetry; apply in_reserved. Qed.

(* ---------- Forall2 helpers ---------- *)

Lemma Forall2_length' {A B} (R : A -> B -> Prop) l1 l2 : Forall2 R l1 l2 -> length l1 = length l2.
Proof. induction 1; simpl; auto. Qed.

Lemma Forall2_nth {A B} (R : A -> B -> Prop) l1 l2 i a :
  Forall2 R l1 l2 -> nth_error l1 i = Some a -> exists b, nth_error l2 i = Some b /\ R a b.
Proof.
  intros H; revert i; induction H as [|x y l1 l2 Hxy Hl IH]; intros [|i] Hi; simpl in *; try discriminate.
  - inversion Hi; subst. eauto.
  - auto.
Qed.

Lemma Forall2_nth_r {A B} (R : A -> B -> Prop) l1 l2 i b :
  Forall2 R l1 l2 -> nth_error l2 i = Some b -> exists a, nth_error l1 i = Some a /\ R a b.
Proof.
  intros H; revert i; induction H as [|x y l1 l2 Hxy Hl IH]; intros [|i] Hi; simpl in *; try discriminate.
  - inversion Hi; subst. eauto.
  - auto.
Qed.

Lemma Forall2_app' {A B} (R : A -> B -> Prop) l1 l2 l1' l2' :
  Forall2 R l1 l2 -> Forall2 R l1' l2' -> Forall2 R (l1 ++ l1') (l2 ++ l2').
Proof. induction 1; simpl; auto. Qed.

Lemma Forall2_rev' {A B} (R : A -> B -> Prop) l1 l2 : Forall2 R l1 l2 -> Forall2 R (rev l1) (rev l2).
Proof.
  induction 1; simpl; auto. apply Forall2_app'; auto.
Qed.

Lemma Forall2_firstn {A B} (R : A -> B -> Prop) n l1 l2 :
  Forall2 R l1 l2 -> Forall2 R (firstn n l1) (firstn n l2).
Proof. intros H; revert n; induction H; intros [|n]; simpl; auto. Qed.

Lemma Forall2_skipn {A B} (R : A -> B -> Prop) n l1 l2 :
  Forall2 R l1 l2 -> Forall2 R (skipn n l1) (skipn n l2).
Proof. intros H; revert n; induction H; intros [|n]; simpl; auto. Qed.

(* ---------- well-formed constants are related to themselves ---------- *)

Lemma lookup_in x (c : list (name * value)) v : lookup x c = Some v -> In (x, v) c.
Proof.
  induction c as [|[y w] c IH]; simpl; [discriminate|].
  destruct (str_eqb x y) eqn:E; [|auto]. intros H. inversion H; subst.
  apply str_eqb_eq in E. subst. auto.
Qed.

Lemma mem_name_true_in x l : mem_name x l = true -> In x l.
Proof.
  induction l as [|y l IH]; simpl; [discriminate|]. intros H. apply orb_true_iff in H.
  destruct H as [H|H]; [left; symmetry; apply str_eqb_eq; exact H|right; auto].
Qed.

Lemma in_mem_name_true x l : In x l -> mem_name x l = true.
Proof.
  induction l as [|y l IH]; simpl; [tauto|]. intros [->|H]; [rewrite str_eqb_refl; reflexivity|].
  rewrite IH; auto. apply orb_true_r.
Qed.

(* cap_ok is about the bindings that lookup finds *)
Lemma cap_ok_lookup (W : value -> Prop) c : forall seen x v,
  cap_ok W c seen -> mem_name x seen = false -> lookup x c = Some v -> W v.
Proof.
  induction c as [|[y w] c IH]; intros seen x v H M L; simpl in *; [discriminate|].
  destruct H as [H1 H2]. destruct (str_eqb x y) eqn:E.
  - inversion L; subst. apply str_eqb_eq in E. subst y. destruct H1 as [H1|H1]; [congruence|exact H1].
  - eapply IH; eauto. simpl. rewrite E, M. reflexivity.
Qed.

Lemma cap_ok_intro (W : value -> Prop) c : forall seen,
  (forall x v, mem_name x seen = false -> lookup x c = Some v -> W v) -> cap_ok W c seen.
Proof.
  induction c as [|[y w] c IH]; intros seen H; simpl; [exact I|]. split.
  - destruct (mem_name y seen) eqn:M; [left; reflexivity|right].
    apply (H y w M). simpl. rewrite str_eqb_refl. reflexivity.
  - apply IH. intros x v M L. simpl in M. apply orb_false_iff in M. destruct M as [M1 M2].
    apply (H x v M2). simpl. rewrite M1. exact L.
Qed.

Lemma cwf_vrel : forall v, cwf v -> vrel v v.
Proof.
  induction v as [z|f|s|b|l IH|m IH|ps b c s IH|t] using value_ind3; intros H;
    cbn [cwf] in H; try constructor.
  - induction IH as [|x l Hx Hl IHl]; auto. destruct H. constructor; auto.
  - induction IH as [|x l Hx Hl IHl]; auto. destruct H. constructor; auto.
  - destruct H as (Hc & Hs & W). intros x v2 L. split.
    + destruct Hs as [Hs|Hs]; [left; exact Hs|right]. intros E. subst x.
      rewrite (in_mem_name_true s (map fst c)) in Hs; [discriminate|].
      apply in_map_iff. exists (s, v2). split; auto. apply lookup_in; auto.
    + exists v2. split; auto.
      rewrite Forall_forall in IH. apply (IH (x, v2) (lookup_in _ _ _ L)).
      eapply cap_ok_lookup; eauto.
  - auto.
  - destruct H as (Hc & Hs & W). exact W.
Qed.

(* the generator's side of two related values is a well-formed constant *)
Lemma vrel_cwf_r : forall v2 v1, vrel v1 v2 -> cwf v2.
Proof.
  induction v2 as [z|f|s|b|l IH|m IH|ps b c s IH|t] using value_ind3; intros v1 H;
    inversion H; subst; cbn [cwf]; auto.
  - clear H. match goal with HF : Forall2 vrel _ l |- _ => induction HF as [|x y l1 l2 Hxy Hl IHl] end; auto.
    inversion IH; subst. split; [eauto|apply IHl; assumption].
  - clear H. match goal with HF : Forall2 _ _ m |- _ => induction HF as [|x y l1 l2 [Hk Hxy] Hl IHl] end; auto.
    inversion IH; subst. split; [eauto|apply IHl; assumption].
  - match goal with
    | HA : forall x v2, lookup x c = Some v2 -> _, HB : s = [] \/ s = _ |- _ =>
        rename HA into HA0; rename HB into HB0
    end.
    split; [|split; auto].
    + apply cap_ok_intro. intros x v _ L. destruct (HA0 x v L) as [_ (w & _ & Hw)].
      rewrite Forall_forall in IH. apply (IH (x, v) (lookup_in _ _ _ L) w Hw).
    + destruct s as [|c0 s']; [left; reflexivity|right].
      destruct (mem_name (c0 :: s') (map fst c)) eqn:M; [|reflexivity]. exfalso.
      apply mem_name_true_in in M. destruct (lookup_in_some _ _ M) as [w L].
      destruct (HA0 _ _ L) as [[E|E] _]; destruct HB0 as [B|B]; try discriminate; subst; try discriminate.
      apply E. reflexivity.
Qed.

Lemma vrel_refl_r v1 v2 : vrel v1 v2 -> vrel v2 v2.
Proof. intros H. apply cwf_vrel. eapply vrel_cwf_r; eauto. Qed.

Lemma fo_cwf : forall v, fo v = true -> cwf v.
Proof.
  induction v as [z|f|s|b|l IH|m IH|ps b c s|t] using value_ind2; intros H;
    cbn [fo] in H; try discriminate; cbn [cwf]; auto.
  - induction IH as [|x l Hx Hl IHl]; simpl in *; auto.
    apply andb_true_iff in H. destruct H. split; [auto|apply IHl; assumption].
  - induction IH as [|x l Hx Hl IHl]; simpl in *; auto.
    apply andb_true_iff in H. destruct H. split; [auto|apply IHl; assumption].
Qed.

Lemma fo_vrel v : fo v = true -> vrel v v.
Proof. intros H. apply cwf_vrel, fo_cwf, H. Qed.

(* a first-order reference value is related only to itself *)
Lemma vrel_fo_eq : forall v1 v2, vrel v1 v2 -> fo v1 = true -> v1 = v2.
Proof.
  induction v1 as [z|f|s|b|l IH|m IH|ps b c s|t] using value_ind2; intros v2 Hv Hf;
    inversion Hv; subst; auto; cbn [fo] in Hf; try discriminate.
  - f_equal. rename H0 into HF. clear Hv. induction HF as [|x y l l' Hxy HF IHF]; auto.
    inversion IH; subst. simpl in Hf. apply andb_true_iff in Hf. destruct Hf.
    f_equal; auto.
  - f_equal. rename H0 into HF. clear Hv. induction HF as [|[k x] [k' y] l l' [Hk Hxy] HF IHF]; auto.
    inversion IH; subst. simpl in *. apply andb_true_iff in Hf. destruct Hf. subst k'.
    f_equal; auto. f_equal; auto.
Qed.

(* ---------- the decidable check is sound ---------- *)

Lemma index_of_oeqb_some_in x am i : index_of oname_eqb (Some x) am = Some i -> In (Some x) am.
Proof.
  revert i; induction am as [|[y|] am IH]; intros i H; [discriminate| |].
  - rewrite index_of_cons_some in H. destruct (str_eqb x y) eqn:E.
    + apply str_eqb_true in E. subst. left; auto.
    + destruct (index_of oname_eqb (Some x) am) eqn:E2; simpl in H; [|discriminate]. right. eapply IH; eauto.
  - rewrite index_of_cons_none in H.
    destruct (index_of oname_eqb (Some x) am) eqn:E2; simpl in H; [|discriminate]. right. eapply IH; eauto.
Qed.

Lemma in_am_true am x : in_am am x = true -> In (Some x) am.
Proof.
  unfold in_am. destruct (index_of oname_eqb (Some x) am) eqn:E; [|discriminate].
  intros _. eapply index_of_oeqb_some_in; eauto.
Qed.

Lemma in_am_false am x : in_am am x = false -> ~ In (Some x) am.
Proof.
  unfold in_am. intros H Hin. destruct (index_of_oeqb_in _ _ Hin) as [i Hi]. rewrite Hi in H. discriminate.
Qed.

Lemma mem_name_true x l : mem_name x l = true -> In x l.
Proof.
  induction l as [|y l IH]; simpl; [discriminate|].
  intros H. apply orb_true_iff in H. destruct H as [H|H]; [left; symmetry; apply str_eqb_true; auto|auto].
Qed.

Lemma mem_name_false x l : mem_name x l = false -> ~ In x l.
Proof.
  induction l as [|y l IH]; simpl; [tauto|].
  intros H. apply orb_false_iff in H. destruct H as [H1 H2].
  intros [->|Hin]; [rewrite str_eqb_refl in H1; discriminate|]. apply IH; auto.
Qed.

Lemma resolvable_true am cm n : in_am am n || mem_name n cm = true -> In (Some n) am \/ In n cm.
Proof.
  intros H. apply orb_true_iff in H. destruct H; [left; apply in_am_true|right; apply mem_name_true]; auto.
Qed.

Ltac bsplit H :=
  repeat match type of H with
  | _ && _ = true => let H1 := fresh "B" in apply andb_true_iff in H; destruct H as [H H1]
  end.

Lemma wfb_list_sound am cm l :
  Forall (fun a => forall am cm, wfb am cm a = true -> wf am cm a) l ->
  forallb (wfb am cm) l = true -> wf_list (wf am cm) l.
Proof.
  induction 1 as [|a l Ha Hl IH]; simpl; auto.
  intros H. apply andb_true_iff in H. destruct H. split; auto.
Qed.

Theorem wfb_sound : forall a am cm, wfb am cm a = true -> wf am cm a.
Proof.
  intros a.
  induction a as [v|x|x v b IHv IHb|c t e IHc IHt IHe|v cases d IHv IHcases IHd|t c IHt IHc|op x IHx
                 |op x y IHx IHy|ps body outer r this IHbody|l IHl|l i IHl IHi|m IHm|m k IHm
                 |f args IHf IHargs|f args IHargs|r m args IHr IHargs] using ast_ind2;
    intros am cm W; cbn [wfb wf] in *.
  - apply fo_cwf; auto.
  - apply resolvable_true; auto.
  - apply andb_true_iff in W. destruct W as [W W3]. apply andb_true_iff in W. destruct W as [W1 W2].
    split; [auto|]. split; [|auto]. apply in_am_false. destruct (in_am am x); auto; discriminate.
  - apply andb_true_iff in W. destruct W as [W W3]. apply andb_true_iff in W. destruct W as [W1 W2].
    auto.
  - apply andb_true_iff in W. destruct W as [W W3]. apply andb_true_iff in W. destruct W as [W1 W2].
    split; [auto|]. split; [auto|].
    clear IHv IHd W1 W2. induction IHcases as [|[cc cr] l [Hc1 Hc2] Hl IH]; simpl in *; auto.
    apply andb_true_iff in W3. destruct W3 as [W W3]. apply andb_true_iff in W. destruct W.
    repeat split; auto.
  - apply andb_true_iff in W. destruct W. auto.
  - auto.
  - apply andb_true_iff in W. destruct W. auto.
  - apply andb_true_iff in W. destruct W as [W W3]. apply andb_true_iff in W. destruct W as [W1 W2].
    split; [|split; [|auto]].
    + intros n Hn. rewrite forallb_forall in W1. apply resolvable_true. auto.
    + intros Hne. destruct this as [|c this']; [tauto|]. apply mem_name_false.
      destruct (mem_name (c :: this') outer); auto; discriminate.
  - apply wfb_list_sound; auto.
  - apply andb_true_iff in W. destruct W. auto.
  - induction IHm as [|[k a] l Ha Hl IH]; simpl in *; auto.
    apply andb_true_iff in W. destruct W. split; auto.
  - auto.
  - apply andb_true_iff in W. destruct W. split; [auto|apply wfb_list_sound; auto].
  - apply wfb_list_sound; auto.
  - apply andb_true_iff in W. destruct W. split; [auto|apply wfb_list_sound; auto].
Qed.

(* ---------- outcomes ---------- *)

Lemma rrel_bind {A B C D} (R : A -> B -> Prop) (Q : C -> D -> Prop) r1 r2 k1 k2 :
  rrel R r1 r2 -> (forall a b, R a b -> rrel Q (k1 a) (k2 b)) -> rrel Q (bind r1 k1) (bind r2 k2).
Proof. intros H K. destruct H; simpl; auto; constructor. Qed.

Lemma rrel_eq_refl {A} (r : res A) : rrel eq r r.
Proof. destruct r; constructor; auto. Qed.

Lemma rrel_eq {A} (r1 r2 : res A) : rrel eq r1 r2 -> r1 = r2.
Proof. destruct 1; congruence. Qed.
