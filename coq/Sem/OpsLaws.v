(* Proofs about the operator model (Sem/Ops.v) against the specification side (Sem/OpsSpec.v):
   equality (unfolding equations that read like the Go code, symmetry, reflexivity, soundness with
   respect to the evident equality sem_eq), ordering (irreflexive, asymmetric, transitive), the
   derived operators, membership, definedness, min/max. *)
From P2 Require Import Base.Prelude Base.PreludeProofs Sem.Num Sem.Syntax Sem.Ops Sem.Lib Sem.OpsSpec.
Require Import Lia ZifyBool.
Local Open Scope Z_scope.

(* ================================================================= induction on values *)

Section ValueInd.
  Variable P : value -> Prop.
  Hypothesis HInt : forall z, P (VInt z).
  Hypothesis HFloat : forall f, P (VFloat f).
  Hypothesis HStr : forall s, P (VStr s).
  Hypothesis HBool : forall b, P (VBool b).
  Hypothesis HList : forall l, Forall P l -> P (VList l).
  Hypothesis HMap : forall m, Forall (fun kv => P (snd kv)) m -> P (VMap m).
  Hypothesis HClo : forall ps body cap self, P (VClo ps body cap self).
  Hypothesis HErr : forall t, P (VErrText t).

  Fixpoint value_ind2 (v : value) : P v :=
    match v with
    | VInt z => HInt z
    | VFloat f => HFloat f
    | VStr s => HStr s
    | VBool b => HBool b
    | VList l =>
        HList l ((fix go (l : list value) : Forall P l :=
                    match l with
                    | [] => Forall_nil P
                    | x :: r => Forall_cons x (value_ind2 x) (go r)
                    end) l)
    | VMap m =>
        HMap m ((fix go (m : list (str * value)) : Forall (fun kv => P (snd kv)) m :=
                   match m with
                   | [] => Forall_nil _
                   | kv :: r => Forall_cons kv (value_ind2 (snd kv)) (go r)
                   end) m)
    | VClo ps body cap self => HClo ps body cap self
    | VErrText t => HErr t
    end.
End ValueInd.

(* ================================================================= the loops of Equals, standalone *)

(* List.Equals after the length check: element-wise, stop at the first answer that is not true *)
Fixpoint list_go (f : value -> value -> res bool) (la lb : list value) : res bool :=
  match la, lb with
  | x :: la', y :: lb' => match f x y with Ok true => list_go f la' lb' | r => r end
  | _, _ => Ok true
  end.

(* the answer of one entry (k,v) of the receiver against the other map *)
Definition entry_res (f : value -> value -> res bool) (other : list (str * value)) (k : str) (v : value) : res bool :=
  match assoc_v k other with Some o => f v o | None => Ok false end.

(* Map.Equals after the size check: the answers of ALL entries of the receiver m, combined by [worse] *)
Fixpoint map_all (f : value -> value -> res bool) (other m : list (str * value)) : res bool :=
  match m with
  | (k, v) :: m' => worse (entry_res f other k v) (map_all f other m')
  | [] => Ok true
  end.

Definition len_differs {A B} (a : list A) (b : list B) : bool := negb (Nat.eqb (length a) (length b)).

(* ---------- the unfolding equations of = : they read like the Go code ---------- *)

Lemma veq_list_eq : forall la lb,
  veq (VList la) (VList lb) = if len_differs la lb then Ok false else list_go veq la lb.
Proof.
  intros la lb. unfold len_differs. cbn [veq]. destruct (negb (Nat.eqb (length la) (length lb))); [reflexivity|].
  revert lb. induction la as [|x la IH]; intros [|y lb]; cbn [list_go]; try reflexivity.
  destruct (veq x y) as [[|]| | | |]; try reflexivity. apply IH.
Qed.

Lemma veq_map_eq : forall ma mb,
  veq (VMap ma) (VMap mb) = if len_differs ma mb then Ok false else map_all veq mb ma.
Proof.
  intros ma mb. unfold len_differs. cbn [veq]. destruct (negb (Nat.eqb (length ma) (length mb))); [reflexivity|].
  induction ma as [|[k v] ma IH]; cbn [map_all]; [reflexivity|]. unfold entry_res at 1. rewrite IH. reflexivity.
Qed.

Lemma veq_scalar_eq : forall a b,
  match a, b with
  | VList _, VList _ | VMap _, VMap _ => True
  | _, _ => veq a b = eq_scalar a b
  end.
Proof. intros a b. destruct a, b; try exact I; reflexivity. Qed.

Lemma assoc_v_in : forall k m o, assoc_v k m = Some o -> In (k, o) m.
Proof.
  intros k m o. induction m as [|[k' v] m IH]; cbn [assoc_v]; [discriminate|].
  destruct (str_eqb k k') eqn:E.
  - intros H. inversion H; subst. apply str_eqb_eq in E. subst. left. reflexivity.
  - intros H. right. apply IH. exact H.
Qed.

Lemma len_differs_sym : forall {A B} (a : list A) (b : list B), len_differs a b = len_differs b a.
Proof. intros. unfold len_differs. rewrite Nat.eqb_sym. reflexivity. Qed.

(* ---------- [worse] is a maximum ---------- *)

Definition rank (r : res bool) : nat :=
  match r with Ok true => 0 | Ok false => 1 | Unsup => 2 | Err _ => 3 | Panic => 4 | OOF => 5 end.

(* the answers = can give: no thrown text in an error *)
Definition canon (r : res bool) : Prop := match r with Err (Some _) => False | _ => True end.

Lemma rank_worse : forall a b, rank (worse a b) = Nat.max (rank a) (rank b).
Proof. intros [[|]| | | |] [[|]| | | |]; reflexivity. Qed.

Lemma canon_worse : forall a b, canon a -> canon b -> canon (worse a b).
Proof. intros [[|]|[?|]| | |] [[|]|[?|]| | |]; cbn; tauto. Qed.

Lemma rank_inj : forall a b, canon a -> canon b -> rank a = rank b -> a = b.
Proof. intros [[|]|[?|]| | |] [[|]|[?|]| | |]; cbn; try tauto; try discriminate; reflexivity. Qed.

Lemma worse_ok : forall a b r, worse a b = Ok r -> exists x y, a = Ok x /\ b = Ok y /\ r = x && y.
Proof. intros [[|]| | | |] [[|]| | | |] r H; cbn in H; try discriminate; inversion H; subst; eauto. Qed.

Lemma worse_true : forall a b, worse a b = Ok true <-> a = Ok true /\ b = Ok true.
Proof. intros [[|]| | | |] [[|]| | | |]; cbn; split; try tauto; try discriminate; intros [? ?]; discriminate. Qed.

Lemma map_all_ge : forall f other m k v, In (k, v) m -> (rank (entry_res f other k v) <= rank (map_all f other m))%nat.
Proof.
  intros f other m k v. induction m as [|[k' v'] m IH]; [intros []|].
  cbn [map_all]. rewrite rank_worse. intros [E|Hin]; [inversion E; subst; lia|]. specialize (IH Hin). lia.
Qed.

Lemma map_all_le : forall f other m n,
  (forall k v, In (k, v) m -> (rank (entry_res f other k v) <= n)%nat) -> (rank (map_all f other m) <= n)%nat.
Proof.
  intros f other m n. induction m as [|[k v] m IH]; intros H; cbn [map_all]; [cbn; lia|].
  rewrite rank_worse. apply Nat.max_lub; [apply H; left; reflexivity|apply IH; intros k' v' Hin; apply H; right; exact Hin].
Qed.

Lemma map_all_canon : forall f other m,
  (forall k v, In (k, v) m -> canon (entry_res f other k v)) -> canon (map_all f other m).
Proof.
  intros f other m. induction m as [|[k v] m IH]; intros H; cbn [map_all]; [exact I|].
  apply canon_worse; [apply H; left; reflexivity|apply IH; intros k' v' Hin; apply H; right; exact Hin].
Qed.


(* ================================================================= exact comparison of dyadic numbers *)

Lemma pow2_pos : forall n, 0 <= n -> 0 < 2 ^ n.
Proof. intros. apply Z.pow_pos_nonneg; lia. Qed.

(* comparing on any common exponent below both gives the same answer *)
Lemma dy_cmp_scale : forall E m1 e1 m2 e2, E <= e1 -> E <= e2 ->
  dy_cmp m1 e1 m2 e2 = (m1 * 2 ^ (e1 - E) ?= m2 * 2 ^ (e2 - E)).
Proof.
  intros E m1 e1 m2 e2 H1 H2. unfold dy_cmp. cbv zeta.
  set (e := Z.min e1 e2).
  assert (He : E <= e) by (subst e; lia).
  replace (e1 - E) with ((e1 - e) + (e - E)) by lia.
  replace (e2 - E) with ((e2 - e) + (e - E)) by lia.
  rewrite !Z.pow_add_r by (subst e; lia).
  rewrite !Z.mul_assoc. apply Zmult_compare_compat_r. apply Z.lt_gt. apply pow2_pos. lia.
Qed.

Lemma dy_cmp_refl : forall m e, dy_cmp m e m e = Eq.
Proof. intros. unfold dy_cmp. apply Z.compare_refl. Qed.

Lemma dy_cmp_antisym : forall m1 e1 m2 e2, dy_cmp m2 e2 m1 e1 = CompOpp (dy_cmp m1 e1 m2 e2).
Proof. intros. unfold dy_cmp. rewrite (Z.min_comm e2 e1). apply Z.compare_antisym. Qed.

Definition min3 (a b c : Z) : Z := Z.min a (Z.min b c).

Lemma dy_cmp_lt_trans : forall m1 e1 m2 e2 m3 e3,
  dy_cmp m1 e1 m2 e2 = Lt -> dy_cmp m2 e2 m3 e3 = Lt -> dy_cmp m1 e1 m3 e3 = Lt.
Proof.
  intros m1 e1 m2 e2 m3 e3.
  rewrite (dy_cmp_scale (min3 e1 e2 e3) m1 e1 m2 e2), (dy_cmp_scale (min3 e1 e2 e3) m2 e2 m3 e3),
          (dy_cmp_scale (min3 e1 e2 e3) m1 e1 m3 e3) by (unfold min3; lia).
  rewrite !Z.compare_lt_iff. lia.
Qed.

(* equal numbers compare alike with any third one *)
Lemma dy_cmp_eq_compat_l : forall m1 e1 m2 e2 m3 e3,
  dy_cmp m1 e1 m2 e2 = Eq -> dy_cmp m1 e1 m3 e3 = dy_cmp m2 e2 m3 e3.
Proof.
  intros m1 e1 m2 e2 m3 e3.
  rewrite (dy_cmp_scale (min3 e1 e2 e3) m1 e1 m2 e2), (dy_cmp_scale (min3 e1 e2 e3) m2 e2 m3 e3),
          (dy_cmp_scale (min3 e1 e2 e3) m1 e1 m3 e3) by (unfold min3; lia).
  intros H. apply Z.compare_eq in H. rewrite H. reflexivity.
Qed.

Lemma dy_cmp_eq_compat_r : forall m1 e1 m2 e2 m3 e3,
  dy_cmp m1 e1 m2 e2 = Eq -> dy_cmp m3 e3 m1 e1 = dy_cmp m3 e3 m2 e2.
Proof.
  intros. rewrite (dy_cmp_antisym m1 e1 m3 e3), (dy_cmp_antisym m2 e2 m3 e3).
  f_equal. apply dy_cmp_eq_compat_l. assumption.
Qed.

(* an integer written as m * 2^e with e >= 0 *)
Lemma dy_cmp_int : forall z m e, 0 <= e -> m * 2 ^ e = z -> dy_cmp m e z 0 = Eq.
Proof.
  intros z m e He Hz. rewrite (dy_cmp_scale 0) by lia. rewrite !Z.sub_0_r. cbn [Z.pow]. rewrite Z.mul_1_r.
  rewrite Hz. apply Z.compare_refl.
Qed.

Lemma dy_cmp_ints : forall x y, dy_cmp x 0 y 0 = (x ?= y).
Proof. intros. unfold dy_cmp. cbn. rewrite !Z.mul_1_r. reflexivity. Qed.

(* ---------- xnum: equality and order ---------- *)

Lemma xeq_sym : forall a b, xeq a b = xeq b a.
Proof.
  intros [m1 e1|x|] [m2 e2|y|]; cbn [xeq]; try reflexivity.
  - rewrite (dy_cmp_antisym m1 e1 m2 e2). destruct (dy_cmp m1 e1 m2 e2); reflexivity.
  - destruct x, y; reflexivity.
Qed.

Lemma xeq_refl : forall a, a <> XNaN -> xeq a a = true.
Proof.
  intros [m e|x|] H; cbn [xeq]; [rewrite dy_cmp_refl; reflexivity|destruct x; reflexivity|congruence].
Qed.

Lemma xlt_irrefl : forall a, xlt a a = false.
Proof. intros [m e|x|]; cbn [xlt]; [rewrite dy_cmp_refl; reflexivity|destruct x; reflexivity|reflexivity]. Qed.

Lemma xlt_asym : forall a b, xlt a b = true -> xlt b a = false.
Proof.
  intros [m1 e1|x|] [m2 e2|y|]; cbn [xlt]; try discriminate; try reflexivity.
  - rewrite (dy_cmp_antisym m1 e1 m2 e2). destruct (dy_cmp m1 e1 m2 e2); cbn; congruence.
  - destruct y; cbn; congruence.
  - destruct x; cbn; congruence.
  - destruct x, y; cbn; congruence.
Qed.

Lemma xlt_trans : forall a b c, xlt a b = true -> xlt b c = true -> xlt a c = true.
Proof.
  intros [m1 e1|x|] [m2 e2|y|] [m3 e3|z|]; cbn [xlt]; try discriminate; try reflexivity;
    try (destruct x; cbn; congruence); try (destruct y; cbn; congruence); try (destruct z; cbn; congruence).
  - intros H1 H2. destruct (dy_cmp m1 e1 m2 e2) eqn:E1; try discriminate.
    destruct (dy_cmp m2 e2 m3 e3) eqn:E2; try discriminate.
    rewrite (dy_cmp_lt_trans _ _ _ _ _ _ E1 E2). reflexivity.
  - destruct x, y, z; cbn; congruence.
Qed.

Lemma xeq_trans : forall a b c, xeq a b = true -> xeq b c = true -> xeq a c = true.
Proof.
  intros [m1 e1|x|] [m2 e2|y|] [m3 e3|z|]; cbn [xeq]; try discriminate; try reflexivity.
  - intros H1 H2. destruct (dy_cmp m1 e1 m2 e2) eqn:E1; try discriminate.
    rewrite (dy_cmp_eq_compat_l _ _ _ _ m3 e3 E1). exact H2.
  - destruct x, y, z; cbn; congruence.
Qed.

(* a = b: a and b compare alike with every c *)
Lemma xeq_xlt_compat_l : forall a b c, xeq a b = true -> xlt a c = xlt b c.
Proof.
  intros [m1 e1|x|] [m2 e2|y|] [m3 e3|z|]; cbn [xeq xlt]; try discriminate; try reflexivity.
  - intros H. destruct (dy_cmp m1 e1 m2 e2) eqn:E1; try discriminate.
    rewrite (dy_cmp_eq_compat_l _ _ _ _ m3 e3 E1). reflexivity.
  - destruct x, y; cbn; congruence.
  - destruct x, y; cbn; congruence.
Qed.

Lemma xeq_xlt_compat_r : forall a b c, xeq a b = true -> xlt c a = xlt c b.
Proof.
  intros [m1 e1|x|] [m2 e2|y|] [m3 e3|z|]; cbn [xeq xlt]; try discriminate; try reflexivity.
  - intros H. destruct (dy_cmp m1 e1 m2 e2) eqn:E1; try discriminate.
    rewrite (dy_cmp_eq_compat_r _ _ _ _ m3 e3 E1). reflexivity.
  - destruct x, y; cbn; congruence.
  - destruct x, y; cbn; congruence.
Qed.

(* on numbers without NaN exactly one of a<b, a=b, b<a *)
Lemma xnum_trichotomy : forall a b, a <> XNaN -> b <> XNaN ->
  (xlt a b = true /\ xeq a b = false /\ xlt b a = false) \/
  (xlt a b = false /\ xeq a b = true /\ xlt b a = false) \/
  (xlt a b = false /\ xeq a b = false /\ xlt b a = true).
Proof.
  intros [m1 e1|x|] [m2 e2|y|] Ha Hb; try congruence; cbn [xlt xeq].
  - rewrite (dy_cmp_antisym m1 e1 m2 e2). destruct (dy_cmp m1 e1 m2 e2); cbn; tauto.
  - destruct y; cbn; tauto.
  - destruct x; cbn; tauto.
  - destruct x, y; cbn; tauto.
Qed.

(* ---------- the float model against xnum ---------- *)

Definition xnum_fl (f : fl) : xnum :=
  match f with
  | FFin m e => XFin m e
  | FNegZero => XFin 0 0
  | FInf n => XInf n
  | FNaN => XNaN
  end.

Lemma xnum_of_float : forall f, xnum_of (VFloat f) = Some (xnum_fl f).
Proof. intros [m e| |n|]; reflexivity. Qed.

Lemma fl_cmp_fin_dy : forall a b,
  fl_cmp_fin a b = dy_cmp (fst (fin_me a)) (snd (fin_me a)) (fst (fin_me b)) (snd (fin_me b)).
Proof.
  intros a b. unfold fl_cmp_fin, dy_cmp, add_me. destruct (fin_me a) as [m1 e1], (fin_me b) as [m2 e2].
  cbn [fst snd]. rewrite (Z.compare_sub (m1 * 2 ^ (e1 - Z.min e1 e2))). f_equal. lia.
Qed.

Lemma fl_eqb_x : forall a b, fl_eqb a b = xeq (xnum_fl a) (xnum_fl b).
Proof.
  intros [m1 e1| |x|] [m2 e2| |y|]; cbn [fl_eqb xnum_fl xeq]; try reflexivity;
    rewrite fl_cmp_fin_dy; reflexivity.
Qed.

Lemma fl_ltb_x : forall a b, fl_ltb a b = xlt (xnum_fl a) (xnum_fl b).
Proof.
  intros [m1 e1| |x|] [m2 e2| |y|]; cbn [fl_ltb xnum_fl xlt]; try reflexivity;
    rewrite fl_cmp_fin_dy; reflexivity.
Qed.

(* ---------- int -> float conversion is exact when it is defined ---------- *)

Lemma norm_fuel_spec : forall fuel m e m' e',
  norm_fuel fuel m e = (m', e') -> e <= e' /\ m' * 2 ^ (e' - e) = m.
Proof.
  induction fuel as [|fuel IH]; intros m e m' e' H; cbn [norm_fuel] in H.
  - inversion H; subst. rewrite Z.sub_diag. cbn. lia.
  - destruct (Z.even m) eqn:Ev.
    + apply IH in H. destruct H as [Hle Hm].
      apply Z.even_spec in Ev. destruct Ev as [q Hq]. subst m.
      replace (2 * q / 2) with q in Hm by (rewrite Z.mul_comm, Z.div_mul; lia).
      split; [lia|]. replace (e' - e) with (Z.succ (e' - (e + 1))) by lia.
      rewrite Z.pow_succ_r by lia. lia.
    + inversion H; subst. rewrite Z.sub_diag. cbn. lia.
Qed.

Lemma mkfl_spec : forall m e f, mkfl m e = Some f ->
  exists m' e', f = FFin m' e' /\ ((m = 0 /\ m' = 0 /\ e' = 0) \/ (e <= e' /\ m' * 2 ^ (e' - e) = m)).
Proof.
  intros m e f. unfold mkfl, norm. destruct (m =? 0) eqn:Z0.
  - cbn. intros H. inversion H; subst. exists 0, 0. split; [reflexivity|]. left. lia.
  - destruct (norm_fuel _ m e) as [m' e'] eqn:N. destruct (representable m' e'); [|discriminate].
    intros H. inversion H; subst. exists m', e'. split; [reflexivity|]. right.
    eapply norm_fuel_spec. exact N.
Qed.

Lemma fl_of_int_spec : forall z f, fl_of_int z = Some f ->
  exists m e, f = FFin m e /\ 0 <= e /\ m * 2 ^ e = z.
Proof.
  intros z f H. apply mkfl_spec in H. destruct H as (m & e & -> & [(Hz & Hm & He)|(Hle & Hm)]).
  - exists m, e. subst. cbn. repeat split; lia.
  - exists m, e. rewrite Z.sub_0_r in Hm. auto.
Qed.

(* the converted int IS the int, as far as comparisons can tell *)
Lemma fl_of_int_x : forall z f, fl_of_int z = Some f ->
  xeq (xnum_fl f) (XFin z 0) = true.
Proof.
  intros z f H. apply fl_of_int_spec in H. destruct H as (m & e & -> & He & Hm).
  cbn [xnum_fl xeq]. rewrite (dy_cmp_int z m e He Hm). reflexivity.
Qed.

Lemma xeq_true_not_nan_l : forall a b, xeq a b = true -> a <> XNaN.
Proof. intros [| |] b H; try discriminate; cbn in H; congruence. Qed.

(* ints up to 2^53 always convert *)
Lemma bitlen_bound : forall m k, 0 <= k -> Z.abs m < 2 ^ k -> bitlen m <= k.
Proof.
  intros m k Hk H. unfold bitlen. destruct (m =? 0) eqn:E; [lia|].
  assert (0 < Z.abs m) by lia. apply Z.log2_lt_pow2 in H; lia.
Qed.

Lemma fl_of_int_small : forall z, small_int z = true -> exists f, fl_of_int z = Some f.
Proof.
  intros z Hs. unfold small_int in Hs. unfold fl_of_int, mkfl, norm.
  destruct (z =? 0) eqn:Z0.
  - cbn. eexists. reflexivity.
  - destruct (norm_fuel _ z 0) as [m e] eqn:N.
    destruct (norm_fuel_spec _ _ _ _ _ N) as [He Hm]. rewrite Z.sub_0_r in Hm.
    assert (Hm0 : m <> 0) by (intros ->; lia).
    assert (Hp : 0 < 2 ^ e) by (apply pow2_pos; lia).
    assert (Habs : Z.abs z = Z.abs m * 2 ^ e) by (rewrite <- Hm, Z.abs_mul, (Z.abs_eq (2 ^ e)); lia).
    assert (Hz : Z.abs z < 2 ^ 53) by (change (2 ^ 53) with 9007199254740992; lia).
    assert (Hmb : Z.abs m < 2 ^ 53) by nia.
    assert (Heb : e < 53).
    { destruct (Z_lt_le_dec e 53) as [|Hge]; [assumption|]. exfalso.
      assert (2 ^ 53 <= 2 ^ e) by (apply Z.pow_le_mono_r; lia). nia. }
    assert (Hbl : bitlen m <= 53) by (apply bitlen_bound; lia).
    assert (Hbl0 : 0 <= bitlen m) by (unfold bitlen; destruct (m =? 0); [lia|pose proof (Z.log2_nonneg (Z.abs m)); lia]).
    unfold representable.
    replace (bitlen m <=? 53) with true by lia. replace (-1074 <=? e) with true by lia.
    replace (e + bitlen m <=? 1024) with true by lia. rewrite orb_true_r. eexists. reflexivity.
Qed.

Lemma xeq_compat_l : forall a b c, xeq a b = true -> xeq a c = xeq b c.
Proof.
  intros [m1 e1|x|] [m2 e2|y|] [m3 e3|z|]; cbn [xeq]; try discriminate; try reflexivity.
  - intros H. destruct (dy_cmp m1 e1 m2 e2) eqn:E1; try discriminate.
    rewrite (dy_cmp_eq_compat_l _ _ _ _ m3 e3 E1). reflexivity.
  - destruct x, y; cbn; congruence.
Qed.

(* ================================================================= the scalar matrix of = and < *)

Lemma bool_eqb_sym : forall x y, Bool.eqb x y = Bool.eqb y x.
Proof. destruct x, y; reflexivity. Qed.

Lemma eq_scalar_sym : forall a b, eq_scalar a b = eq_scalar b a.
Proof.
  intros a b. destruct a, b; cbn [eq_scalar]; try reflexivity.
  - rewrite Z.eqb_sym. reflexivity.
  - destruct (fl_of_int z); [|reflexivity]. rewrite !fl_eqb_x, xeq_sym. reflexivity.
  - destruct (fl_of_int z); [|reflexivity]. rewrite !fl_eqb_x, xeq_sym. reflexivity.
  - rewrite !fl_eqb_x, xeq_sym. reflexivity.
  - rewrite str_eqb_sym. reflexivity.
  - rewrite bool_eqb_sym. reflexivity.
Qed.

(* the matrix answers by exact numeric value / string identity / bool identity *)
Lemma eq_scalar_sem : forall a b r, eq_scalar a b = Ok r -> sem_eq a b = r.
Proof.
  intros a b r. destruct a, b; cbn [eq_scalar]; try discriminate; intros H.
  - inversion H; subst. cbn. rewrite dy_cmp_ints, Z.eqb_compare. destruct (z ?= z0); reflexivity.
  - destruct (fl_of_int z) as [fx|] eqn:E; [|discriminate]. inversion H; subst.
    cbn [sem_eq]. rewrite xnum_of_float. cbn [xnum_of]. rewrite fl_eqb_x.
    symmetry. apply xeq_compat_l. apply fl_of_int_x. exact E.
  - destruct (fl_of_int z) as [fy|] eqn:E; [|discriminate]. inversion H; subst.
    change (sem_eq (VFloat f) (VInt z)) with
      (match xnum_of (VFloat f), xnum_of (VInt z) with Some x, Some y => xeq x y | _, _ => false end).
    rewrite xnum_of_float. cbn [xnum_of]. rewrite fl_eqb_x.
    rewrite (xeq_sym (xnum_fl f) (XFin z 0)), (xeq_sym (xnum_fl f) (xnum_fl fy)). symmetry. apply xeq_compat_l. apply fl_of_int_x. exact E.
  - inversion H; subst.
    change (sem_eq (VFloat f) (VFloat f0)) with
      (match xnum_of (VFloat f), xnum_of (VFloat f0) with Some x, Some y => xeq x y | _, _ => false end).
    rewrite !xnum_of_float. rewrite fl_eqb_x. reflexivity.
  - inversion H. reflexivity.
  - inversion H. reflexivity.
Qed.

(* kinds outside the table: an error, never a boolean *)
Lemma eq_scalar_undefined : forall a b,
  is_errtext a = false -> is_errtext b = false ->
  eq_kinds_ok (kind_of a) (kind_of b) = false -> eq_scalar a b = Err None.
Proof. intros a b Ha Hb. destruct a, b; cbn; try discriminate; reflexivity. Qed.

Lemma eq_scalar_defined : forall a b,
  match a, b with VList _, VList _ | VMap _, VMap _ => False | _, _ => True end ->
  eq_kinds_ok (kind_of a) (kind_of b) = true -> is_errtext a = false -> is_errtext b = false ->
  is_err (eq_scalar a b) = false.
Proof.
  intros a b. destruct a, b; cbn; try discriminate; try tauto; intros _ _ _ _;
    try reflexivity; destruct (fl_of_int _); reflexivity.
Qed.

Lemma vless_sym_kinds : forall a b, is_err (vless a b) = is_err (vless b a).
Proof. intros a b. destruct a, b; cbn; try reflexivity; destruct (fl_of_int _); reflexivity. Qed.

(* < answers by exact numeric value / lexicographic order of strings *)
Lemma vless_spec : forall a b r, vless a b = Ok r -> lt_spec a b = Some r.
Proof.
  intros a b r. destruct a, b; cbn [vless]; try discriminate; intros H.
  - inversion H; subst. cbn. rewrite dy_cmp_ints. unfold Z.ltb. destruct (z ?= z0); reflexivity.
  - destruct (fl_of_int z) as [fx|] eqn:E; [|discriminate]. inversion H; subst.
    cbn [lt_spec]. rewrite xnum_of_float. cbn [xnum_of]. rewrite fl_ltb_x.
    f_equal. symmetry. apply xeq_xlt_compat_l. apply fl_of_int_x. exact E.
  - destruct (fl_of_int z) as [fy|] eqn:E; [|discriminate]. inversion H; subst.
    change (lt_spec (VFloat f) (VInt z)) with
      (match xnum_of (VFloat f), xnum_of (VInt z) with Some x, Some y => Some (xlt x y) | _, _ => None end).
    rewrite xnum_of_float. cbn [xnum_of]. rewrite fl_ltb_x.
    f_equal. symmetry. apply xeq_xlt_compat_r. apply fl_of_int_x. exact E.
  - inversion H; subst.
    change (lt_spec (VFloat f) (VFloat f0)) with
      (match xnum_of (VFloat f), xnum_of (VFloat f0) with Some x, Some y => Some (xlt x y) | _, _ => None end).
    rewrite !xnum_of_float. rewrite fl_ltb_x. reflexivity.
  - inversion H. reflexivity.
Qed.

Lemma vless_err_spec : forall a b, is_err (vless a b) = true -> lt_spec a b = None.
Proof.
  intros a b. destruct a, b; cbn; try discriminate; try reflexivity; try (destruct (fl_of_int _); discriminate);
    try (destruct f; reflexivity).
Qed.

Lemma vless_undefined : forall a b,
  is_errtext a = false -> is_errtext b = false ->
  lt_spec a b = None -> vless a b = Err None.
Proof.
  intros a b Ha Hb. destruct a, b; cbn in *; try discriminate; try reflexivity;
    try (destruct f; discriminate); destruct f, f0; discriminate.
Qed.

(* ================================================================= association lists *)

Lemma assoc_v_none : forall k m, assoc_v k m = None <-> ~ In k (map fst m).
Proof.
  intros k m. induction m as [|[k' v] m IH]; cbn [assoc_v map fst In].
  - split; [intros _ []|reflexivity].
  - destruct (str_eqb k k') eqn:E.
    + apply str_eqb_eq in E. subst. split; [discriminate|]. intros H. exfalso. apply H. left. reflexivity.
    + rewrite IH. split.
      * intros H [Hk|Hk]; [subst; rewrite str_eqb_refl in E; discriminate|auto].
      * intros H Hk. apply H. right. exact Hk.
Qed.

Lemma in_keys_assoc : forall k m, In k (map fst m) -> exists o, assoc_v k m = Some o.
Proof.
  intros k m H. destruct (assoc_v k m) as [o|] eqn:E; [eauto|]. apply assoc_v_none in E. contradiction.
Qed.

Lemma assoc_in_keys : forall k m o, assoc_v k m = Some o -> In k (map fst m).
Proof. intros k m o H. apply assoc_v_in in H. apply (in_map fst) in H. exact H. Qed.

Lemma nodup_keys_NoDup : forall m, nodup_keys m = true -> NoDup (map fst m).
Proof.
  induction m as [|[k v] m IH]; cbn [nodup_keys map fst]; intros H; [constructor|].
  destruct (assoc_v k m) eqn:E; [discriminate|]. constructor; [apply assoc_v_none; exact E|apply IH; exact H].
Qed.

Lemma nodup_keys_in : forall m k v, nodup_keys m = true -> In (k, v) m -> assoc_v k m = Some v.
Proof.
  induction m as [|[k0 v0] m IH]; intros k v Hn Hin; [destruct Hin|].
  cbn [nodup_keys] in Hn. destruct (assoc_v k0 m) eqn:E0; [discriminate|].
  cbn [assoc_v]. destruct Hin as [Heq|Hin].
  - inversion Heq; subst. rewrite str_eqb_refl. reflexivity.
  - destruct (str_eqb k k0) eqn:E.
    + apply str_eqb_eq in E. subst. apply assoc_v_none in E0. exfalso. apply E0.
      apply (in_map fst) in Hin. exact Hin.
    + apply IH; assumption.
Qed.

(* pigeonhole: equally many pairwise different keys, all keys of ma among those of mb => the same keys *)
Lemma keys_cover : forall (ma mb : list (str * value)),
  nodup_keys ma = true -> length ma = length mb ->
  (forall k, In k (map fst ma) -> In k (map fst mb)) ->
  forall k, In k (map fst mb) -> In k (map fst ma).
Proof.
  intros ma mb Hn Hlen Hincl. apply NoDup_length_incl.
  - apply nodup_keys_NoDup. exact Hn.
  - rewrite !map_length. lia.
  - exact Hincl.
Qed.

(* ---------- what the loops say ---------- *)

Lemma list_go_true : forall f la lb, length la = length lb ->
  (list_go f la lb = Ok true <-> Forall2 (fun x y => f x y = Ok true) la lb).
Proof.
  intros f la. induction la as [|x la IH]; intros [|y lb] Hlen; try discriminate; cbn [list_go].
  - split; [constructor|reflexivity].
  - cbn in Hlen. split.
    + intros H. destruct (f x y) as [[|]| | | |] eqn:E; try discriminate.
      constructor; [exact E|]. apply IH; [lia|exact H].
    + intros H. inversion H; subst. rewrite H3. apply IH; [lia|assumption].
Qed.

Lemma map_all_true : forall f other m,
  map_all f other m = Ok true <->
  (forall k v, In (k, v) m -> exists o, assoc_v k other = Some o /\ f v o = Ok true).
Proof.
  intros f other m. induction m as [|[k v] m IH]; cbn [map_all].
  - split; [intros _ k v []|reflexivity].
  - rewrite worse_true, IH. unfold entry_res. split.
    + intros [H1 H2] k' v' [Heq|Hin]; [|apply H2; exact Hin].
      inversion Heq; subst. destruct (assoc_v k' other) as [o|]; [eauto|discriminate].
    + intros H. split.
      * destruct (H k v (or_introl eq_refl)) as (o & Ho & Hf). rewrite Ho. exact Hf.
      * intros k' v' Hin. apply H. right. exact Hin.
Qed.


(* ---------- unfolding of the side conditions ---------- *)

Lemma wf_keys_list : forall l, wf_keys (VList l) = true -> Forall (fun x => wf_keys x = true) l.
Proof.
  intros l. cbn [wf_keys]. induction l as [|x l IH]; intros H; [constructor|].
  apply andb_true_iff in H. destruct H. constructor; auto.
Qed.

Lemma wf_keys_map : forall m, wf_keys (VMap m) = true ->
  nodup_keys m = true /\ Forall (fun kv => wf_keys (snd kv) = true) m.
Proof.
  intros m. cbn [wf_keys]. intros H. apply andb_true_iff in H. destruct H as [Hn H]. split; [exact Hn|].
  clear Hn. induction m as [|[k x] m IH]; [constructor|].
  apply andb_true_iff in H. destruct H. constructor; auto.
Qed.

Lemma clean_val_list : forall l, clean_val (VList l) = true -> Forall (fun x => clean_val x = true) l.
Proof.
  intros l. cbn [clean_val]. induction l as [|x l IH]; intros H; [constructor|].
  apply andb_true_iff in H. destruct H. constructor; auto.
Qed.

Lemma clean_val_map : forall m, clean_val (VMap m) = true -> Forall (fun kv => clean_val (snd kv) = true) m.
Proof.
  intros m. cbn [clean_val]. induction m as [|[k x] m IH]; intros H; [constructor|].
  apply andb_true_iff in H. destruct H. constructor; auto.
Qed.

Lemma small_ints_list : forall l, small_ints (VList l) = true -> Forall (fun x => small_ints x = true) l.
Proof.
  intros l. cbn [small_ints]. induction l as [|x l IH]; intros H; [constructor|].
  apply andb_true_iff in H. destruct H. constructor; auto.
Qed.

Lemma small_ints_map : forall m, small_ints (VMap m) = true -> Forall (fun kv => small_ints (snd kv) = true) m.
Proof.
  intros m. cbn [small_ints]. induction m as [|[k x] m IH]; intros H; [constructor|].
  apply andb_true_iff in H. destruct H. constructor; auto.
Qed.

Lemma len_differs_false : forall {A B} (a : list A) (b : list B), len_differs a b = false <-> length a = length b.
Proof.
  intros. unfold len_differs. rewrite negb_false_iff. apply Nat.eqb_eq.
Qed.

Lemma Forall_in_snd : forall (P : value -> Prop) (m : list (str * value)) k v,
  Forall (fun kv => P (snd kv)) m -> In (k, v) m -> P v.
Proof. intros P m k v H Hin. rewrite Forall_forall in H. exact (H _ Hin). Qed.

(* anything that is not list/list or map/map goes to the matrix, in either direction *)
Lemma veq_not_both : forall a b,
  match a, b with VList _, VList _ | VMap _, VMap _ => False | _, _ => True end ->
  veq a b = eq_scalar a b /\ veq b a = eq_scalar b a.
Proof. intros a b. destruct a, b; intros H; try contradiction; split; reflexivity. Qed.

Lemma veq_scalar_l : forall a b,
  match a with VList _ | VMap _ => False | _ => True end ->
  veq a b = eq_scalar a b /\ veq b a = eq_scalar b a.
Proof. intros a b. destruct a; intros H; try contradiction; destruct b; split; reflexivity. Qed.

(* ================================================================= = is symmetric *)

Lemma list_go_swap : forall f la lb,
  (forall x y, In x la -> In y lb -> f x y = f y x) -> list_go f la lb = list_go f lb la.
Proof.
  intros f la. induction la as [|x la IH]; intros lb H.
  - destruct lb; reflexivity.
  - destruct lb as [|y lb]; [reflexivity|]. cbn [list_go].
    rewrite (H x y (or_introl eq_refl) (or_introl eq_refl)). destruct (f y x) as [[|]| | | |]; try reflexivity.
    apply IH. intros x' y' Hx Hy. apply H; right; assumption.
Qed.

Lemma eq_scalar_canon : forall a b, canon (eq_scalar a b).
Proof. intros a b. destruct a, b; cbn; try exact I; destruct (fl_of_int _); exact I. Qed.

Lemma list_go_canon : forall f la lb,
  (forall x y, In x la -> canon (f x y)) -> canon (list_go f la lb).
Proof.
  intros f la. induction la as [|x la IH]; intros lb H; [exact I|]. destruct lb as [|y lb]; [exact I|].
  cbn [list_go]. pose proof (H x y (or_introl eq_refl)) as Hc.
  destruct (f x y) as [[|]|[?|]| | |]; try exact I; try contradiction.
  apply IH. intros x' y' Hx. apply H. right. exact Hx.
Qed.

Lemma veq_canon : forall a b, canon (veq a b).
Proof.
  intros a. induction a as [z|f|s|x|la IH|ma IH|ps body cap self|t] using value_ind2; intros b;
    try (destruct b; apply eq_scalar_canon).
  - destruct b as [| | | |lb| | |]; try apply (eq_scalar_canon (VList la)).
    rewrite veq_list_eq. destruct (len_differs la lb); [exact I|].
    apply list_go_canon. rewrite Forall_forall in IH. intros x y Hx. apply IH. exact Hx.
  - destruct b as [| | | | |mb| |]; try apply (eq_scalar_canon (VMap ma)).
    rewrite veq_map_eq. destruct (len_differs ma mb); [exact I|].
    apply map_all_canon. rewrite Forall_forall in IH. intros k v Hin. unfold entry_res.
    destruct (assoc_v k mb) as [o|]; [apply (IH (k, v) Hin)|exact I].
Qed.

Lemma map_all_veq_canon : forall other m, canon (map_all veq other m).
Proof.
  intros other m. apply map_all_canon. intros k v _. unfold entry_res.
  destruct (assoc_v k other); [apply veq_canon|exact I].
Qed.

(* one half of the symmetry on maps: every answer of an entry of ma is matched by an entry of mb *)
Lemma map_all_rank_le : forall ma mb,
  nodup_keys ma = true -> nodup_keys mb = true -> length ma = length mb ->
  (forall k v o, In (k, v) ma -> In (k, o) mb -> veq v o = veq o v) ->
  (rank (map_all veq mb ma) <= rank (map_all veq ma mb))%nat.
Proof.
  intros ma mb Hna Hnb L Hsym. apply map_all_le. intros k v Hin. unfold entry_res.
  destruct (assoc_v k mb) as [o|] eqn:E.
  - pose proof (assoc_v_in _ _ _ E) as Ho.
    pose proof (map_all_ge veq ma mb k o Ho) as G. unfold entry_res in G.
    rewrite (nodup_keys_in ma k v Hna Hin) in G. rewrite (Hsym k v o Hin Ho). exact G.
  - cbn [rank]. destruct (rank (map_all veq ma mb)) as [|n] eqn:R; [exfalso|lia].
    (* all entries of mb answer true: their keys are keys of ma, hence (pigeonhole) k is a key of mb *)
    apply assoc_v_none in E. apply E.
    apply (keys_cover mb ma Hnb (eq_sym L)); [|apply (in_map fst) in Hin; exact Hin].
    intros k' Hk'. apply in_keys_assoc in Hk'. destruct Hk' as [o' Ho']. apply assoc_v_in in Ho'.
    pose proof (map_all_ge veq ma mb k' o' Ho') as G. rewrite R in G. unfold entry_res in G.
    destruct (assoc_v k' ma) as [v'|] eqn:E'; [eapply assoc_in_keys; exact E'|cbn in G; lia].
Qed.

Lemma veq_sym : forall a b, wf_keys a = true -> wf_keys b = true -> veq a b = veq b a.
Proof.
  intros a. induction a as [z|f|s|x|la IH|ma IH|ps body cap self|t] using value_ind2; intros b Ha Hb;
    try (match goal with |- veq ?a b = _ => destruct (veq_scalar_l a b I) as [E1 E2] end;
         rewrite E1, E2; apply eq_scalar_sym).
  - destruct b as [| | | |lb| | |];
      try (match goal with |- veq ?a ?b = _ => destruct (veq_not_both a b I) as [E1 E2] end;
           rewrite E1, E2; apply eq_scalar_sym).
    rewrite !veq_list_eq, (len_differs_sym lb la). destruct (len_differs la lb); [reflexivity|].
    apply wf_keys_list in Ha. apply wf_keys_list in Hb. rewrite Forall_forall in IH, Ha, Hb.
    apply list_go_swap. intros x y Hx Hy. apply IH; auto.
  - destruct b as [| | | | |mb| |];
      try (match goal with |- veq ?a ?b = _ => destruct (veq_not_both a b I) as [E1 E2] end;
           rewrite E1, E2; apply eq_scalar_sym).
    rewrite !veq_map_eq, (len_differs_sym mb ma). destruct (len_differs ma mb) eqn:L; [reflexivity|].
    apply len_differs_false in L.
    apply wf_keys_map in Ha. destruct Ha as [Hna Hwa]. apply wf_keys_map in Hb. destruct Hb as [Hnb Hwb].
    rewrite Forall_forall in IH, Hwa, Hwb.
    assert (Hsym : forall k v o, In (k, v) ma -> In (k, o) mb -> veq v o = veq o v).
    { intros k v o Hv Ho. exact (IH (k, v) Hv o (Hwa (k, v) Hv) (Hwb (k, o) Ho)). }
    apply rank_inj; [apply map_all_veq_canon|apply map_all_veq_canon|].
    apply Nat.le_antisymm.
    + apply map_all_rank_le; assumption.
    + apply map_all_rank_le; try assumption; [symmetry; exact L|].
      intros k o v Ho Hv. symmetry. apply (Hsym k v o Hv Ho).
Qed.

(* the input on which = used to answer false one way and an error the other way (before the repair
   of Map.Equals): now an error both ways *)
Definition sym_witness_a : value := VMap [([97%N], VInt 1); ([98%N], VStr [120%N])].
Definition sym_witness_b : value := VMap [([98%N], VInt 1); ([97%N], VInt 2)].

Lemma veq_sym_witness : veq sym_witness_a sym_witness_b = Err None /\ veq sym_witness_b sym_witness_a = Err None.
Proof. split; reflexivity. Qed.

(* without pairwise different keys the association-list model is not symmetric (not a map value) *)
Lemma veq_sym_needs_wf :
  let a := VMap [([97%N], VInt 1); ([97%N], VInt 2)] in let b := VMap [([97%N], VInt 1); ([98%N], VInt 2)] in
  veq a b = Ok false /\ veq b a = Ok false /\
  veq (VMap [([97%N], VInt 1); ([97%N], VInt 2)]) (VMap [([97%N], VInt 2); ([97%N], VInt 1)]) = Ok false.
Proof. cbv zeta. repeat split; reflexivity. Qed.

(* ================================================================= = is reflexive *)

Lemma eq_scalar_refl : forall a,
  match a with VList _ | VMap _ => False | _ => True end -> clean_val a = true -> eq_scalar a a = Ok true.
Proof.
  intros a. destruct a; cbn; try contradiction; try discriminate; intros _ H.
  - rewrite Z.eqb_refl. reflexivity.
  - rewrite fl_eqb_x, xeq_refl; [reflexivity|]. destruct f; cbn; congruence.
  - rewrite str_eqb_refl. reflexivity.
  - destruct b; reflexivity.
Qed.

Lemma veq_refl : forall a, wf_keys a = true -> clean_val a = true -> veq a a = Ok true.
Proof.
  intros a. induction a as [z|f|s|x|la IH|ma IH|ps body cap self|t] using value_ind2; intros Hw Hc;
    try (cbn in Hc; discriminate Hc);
    try (match goal with |- veq ?a ?a = _ => exact (eq_scalar_refl a I Hc) end).
  - rewrite veq_list_eq. replace (len_differs la la) with false by (symmetry; apply len_differs_false; reflexivity).
    apply list_go_true; [reflexivity|]. apply wf_keys_list in Hw. apply clean_val_list in Hc.
    induction la as [|x la IHl]; [constructor|].
    inversion IH; subst. inversion Hw; subst. inversion Hc; subst. constructor; auto.
  - rewrite veq_map_eq. replace (len_differs ma ma) with false by (symmetry; apply len_differs_false; reflexivity).
    apply map_all_true. apply wf_keys_map in Hw. destruct Hw as [Hn Hw]. apply clean_val_map in Hc.
    rewrite Forall_forall in IH, Hw, Hc. intros k v Hin. exists v. split; [apply nodup_keys_in; assumption|].
    apply (IH (k, v) Hin); [exact (Hw (k, v) Hin)|exact (Hc (k, v) Hin)].
Qed.

(* without the side conditions reflexivity fails: NaN, closures *)
Lemma veq_refl_refuted :
  veq (VFloat FNaN) (VFloat FNaN) = Ok false /\ veq (VClo [] (AConst (VInt 0)) [] []) (VClo [] (AConst (VInt 0)) [] []) = Err None.
Proof. split; reflexivity. Qed.

(* ================================================================= = against the evident equality *)

Fixpoint sem_list_go (f : value -> value -> bool) (la lb : list value) : bool :=
  match la, lb with
  | [], [] => true
  | x :: la', y :: lb' => f x y && sem_list_go f la' lb'
  | _, _ => false
  end.

Fixpoint sem_map_go (f : value -> value -> bool) (other m : list (str * value)) : bool :=
  match m with
  | [] => true
  | (k, v) :: m' => match assoc_v k other with Some o => f v o | None => false end && sem_map_go f other m'
  end.

Lemma sem_eq_list : forall la lb, sem_eq (VList la) (VList lb) = sem_list_go sem_eq la lb.
Proof.
  intros la. cbn [sem_eq]. induction la as [|x la IH]; intros [|y lb]; cbn [sem_list_go]; try reflexivity.
  rewrite IH. reflexivity.
Qed.

Lemma sem_eq_map : forall ma mb,
  sem_eq (VMap ma) (VMap mb) = Nat.eqb (length ma) (length mb) && sem_map_go sem_eq mb ma.
Proof.
  intros ma mb. cbn [sem_eq]. f_equal. induction ma as [|[k v] ma IH]; cbn [sem_map_go]; [reflexivity|].
  rewrite IH. reflexivity.
Qed.

Lemma sem_list_go_len : forall f la lb, length la <> length lb -> sem_list_go f la lb = false.
Proof.
  intros f la. induction la as [|x la IH]; intros [|y lb] H; cbn in *; try reflexivity; try congruence.
  rewrite IH by lia. apply andb_false_r.
Qed.

Lemma sem_map_go_true : forall f other m,
  sem_map_go f other m = true <->
  (forall k v, In (k, v) m -> exists o, assoc_v k other = Some o /\ f v o = true).
Proof.
  intros f other m. induction m as [|[k v] m IH]; cbn [sem_map_go].
  - split; [intros _ k v []|reflexivity].
  - rewrite andb_true_iff, IH. split.
    + intros [H1 H2] k' v' [Heq|Hin]; [|apply H2; exact Hin].
      inversion Heq; subst. destruct (assoc_v k' other) as [o|]; [|discriminate]. eauto.
    + intros H. split.
      * destruct (H k v (or_introl eq_refl)) as (o & Ho & Hf). rewrite Ho. exact Hf.
      * intros k' v' Hin. apply H. right. exact Hin.
Qed.

(* whenever = answers with a boolean it is the evident equality *)
Lemma veq_sound : forall a b r, veq a b = Ok r -> sem_eq a b = r.
Proof.
  intros a. induction a as [z|f|s|x|la IH|ma IH|ps body cap self|t] using value_ind2; intros b r;
    try (match goal with |- veq ?a b = _ -> _ => destruct (veq_scalar_l a b I) as [E1 _] end;
         rewrite E1; apply eq_scalar_sem).
  - destruct b as [| | | |lb| | |];
      try (match goal with |- veq ?a ?b = _ -> _ => destruct (veq_not_both a b I) as [E1 _] end;
           rewrite E1; apply eq_scalar_sem).
    rewrite veq_list_eq, sem_eq_list. destruct (len_differs la lb) eqn:L.
    + assert (length la <> length lb).
      { intros E. apply len_differs_false in E. congruence. }
      rewrite sem_list_go_len by assumption. intros H0; inversion H0; reflexivity.
    + apply len_differs_false in L. revert lb L. induction la as [|x la IHl]; intros lb L.
      * destruct lb; [|discriminate]. cbn. intros H0; inversion H0; reflexivity.
      * destruct lb as [|y lb]; [discriminate|]. inversion IH as [|? ? Hx Hr]; subst.
        cbn [list_go sem_list_go]. cbn in L. assert (L' : length la = length lb) by lia.
        specialize (IHl Hr lb L'). destruct (veq x y) as [[|]| | | |] eqn:E; try discriminate.
        -- rewrite (Hx y true E). cbn. apply IHl.
        -- intros H0. inversion H0; subst. rewrite (Hx y false E). reflexivity.
  - destruct b as [| | | | |mb| |];
      try (match goal with |- veq ?a ?b = _ -> _ => destruct (veq_not_both a b I) as [E1 _] end;
           rewrite E1; apply eq_scalar_sem).
    rewrite veq_map_eq, sem_eq_map. unfold len_differs.
    destruct (Nat.eqb (length ma) (length mb)); cbn [negb andb]; [|intros H0; inversion H0; reflexivity].
    revert r. induction ma as [|[k v] ma IHm]; intros r; cbn [map_all sem_map_go].
    + intros H0; inversion H0; reflexivity.
    + inversion IH as [|? ? Hv Hr]; subst. cbn [snd] in Hv. intros H.
      apply worse_ok in H. destruct H as (q1 & q2 & E1 & E2 & ->).
      rewrite (IHm Hr q2 E2). f_equal. unfold entry_res in E1.
      destruct (assoc_v k mb) as [o|]; [exact (Hv o q1 E1)|inversion E1; reflexivity].
Qed.

(* ---------- ... and it finds every equality (ints within the exact range) ---------- *)


Lemma eq_scalar_complete : forall a b,
  match a, b with VList _, VList _ | VMap _, VMap _ => False | _, _ => True end ->
  small_ints a = true -> small_ints b = true -> sem_eq a b = true -> eq_scalar a b = Ok true.
Proof.
  intros a b. destruct a, b; try contradiction; intros _ Ha Hb H;
    try (cbn in H; discriminate H);
    try (exfalso; cbn in H; destruct f; discriminate H).
  - cbn in H. rewrite dy_cmp_ints in H. cbn [eq_scalar]. rewrite Z.eqb_compare. destruct (z ?= z0); congruence.
  - change (sem_eq (VInt z) (VFloat f)) with
      (match xnum_of (VInt z), xnum_of (VFloat f) with Some x, Some y => xeq x y | _, _ => false end) in H.
    rewrite xnum_of_float in H. cbn [xnum_of] in H.
    cbn [eq_scalar]. destruct (fl_of_int_small z Ha) as [fx E]. rewrite E, fl_eqb_x.
    rewrite (xeq_compat_l _ _ (xnum_fl f) (fl_of_int_x z fx E)). rewrite H. reflexivity.
  - change (sem_eq (VFloat f) (VInt z)) with
      (match xnum_of (VFloat f), xnum_of (VInt z) with Some x, Some y => xeq x y | _, _ => false end) in H.
    rewrite xnum_of_float in H. cbn [xnum_of] in H.
    cbn [eq_scalar]. destruct (fl_of_int_small z Hb) as [fy E]. rewrite E, fl_eqb_x.
    rewrite xeq_sym, (xeq_compat_l _ _ (xnum_fl f) (fl_of_int_x z fy E)), xeq_sym, H. reflexivity.
  - change (sem_eq (VFloat f) (VFloat f0)) with
      (match xnum_of (VFloat f), xnum_of (VFloat f0) with Some x, Some y => xeq x y | _, _ => false end) in H.
    rewrite !xnum_of_float in H. cbn [eq_scalar]. rewrite fl_eqb_x, H. reflexivity.
  - cbn in H. cbn [eq_scalar]. rewrite H. reflexivity.
  - cbn in H. cbn [eq_scalar]. rewrite H. reflexivity.
Qed.

Lemma sem_list_go_true : forall f la lb,
  sem_list_go f la lb = true <-> Forall2 (fun x y => f x y = true) la lb.
Proof.
  intros f la. induction la as [|x la IH]; intros [|y lb]; cbn [sem_list_go].
  - split; [constructor|reflexivity].
  - split; [discriminate|intros H; inversion H].
  - split; [discriminate|intros H; inversion H].
  - rewrite andb_true_iff, IH. split; [intros [H1 H2]; constructor; assumption|intros H; inversion H; auto].
Qed.

Lemma Forall2_len : forall {A B} (R : A -> B -> Prop) la lb, Forall2 R la lb -> length la = length lb.
Proof. intros A B R la lb H. induction H; cbn; congruence. Qed.

Lemma veq_complete : forall a b, wf_keys a = true -> wf_keys b = true ->
  small_ints a = true -> small_ints b = true -> sem_eq a b = true -> veq a b = Ok true.
Proof.
  intros a. induction a as [z|f|s|x|la IH|ma IH|ps body cap self|t] using value_ind2; intros b Ha Hb Sa Sb;
    try (match goal with |- sem_eq ?a b = _ -> _ =>
           destruct (veq_scalar_l a b I) as [E1 _]; rewrite E1; apply eq_scalar_complete; try assumption;
           destruct b; exact I end).
  - destruct b as [| | | |lb| | |]; try (cbn; discriminate).
    rewrite sem_eq_list, veq_list_eq, sem_list_go_true. intros H.
    assert (L : length la = length lb) by (eapply Forall2_len; exact H).
    replace (len_differs la lb) with false by (symmetry; apply len_differs_false; exact L).
    apply list_go_true; [exact L|].
    apply wf_keys_list in Ha. apply wf_keys_list in Hb. apply small_ints_list in Sa. apply small_ints_list in Sb.
    clear L. induction H as [|x y la lb Hxy Hrest IHf]; [constructor|].
    inversion IH; subst. inversion Ha; subst. inversion Hb; subst. inversion Sa; subst. inversion Sb; subst.
    constructor; auto.
  - destruct b as [| | | | |mb| |]; try (cbn; discriminate).
    rewrite sem_eq_map, veq_map_eq. unfold len_differs. intros H. apply andb_true_iff in H. destruct H as [L H].
    rewrite L. cbn [negb]. apply map_all_true. rewrite sem_map_go_true in H.
    apply wf_keys_map in Ha. destruct Ha as [Hna Hwa]. apply wf_keys_map in Hb. destruct Hb as [Hnb Hwb].
    apply small_ints_map in Sa. apply small_ints_map in Sb. rewrite Forall_forall in IH, Hwa, Hwb, Sa, Sb.
    intros k v Hv. destruct (H k v Hv) as (o & Ho & Hs). exists o. split; [exact Ho|].
    pose proof (assoc_v_in _ _ _ Ho) as Hino.
    apply (IH (k, v) Hv o); [exact (Hwa (k, v) Hv)|exact (Hwb (k, o) Hino)|exact (Sa (k, v) Hv)|exact (Sb (k, o) Hino)|exact Hs].
Qed.

(* ---------- ints and floats by numeric value ---------- *)

Lemma veq_int_float : forall z f, small_int z = true ->
  veq (VInt z) (VFloat f) = Ok (xeq (XFin z 0) (xnum_fl f)) /\
  veq (VFloat f) (VInt z) = Ok (xeq (XFin z 0) (xnum_fl f)).
Proof.
  intros z f Hs. destruct (fl_of_int_small z Hs) as [fx E].
  change (veq (VInt z) (VFloat f)) with (eq_scalar (VInt z) (VFloat f)).
  change (veq (VFloat f) (VInt z)) with (eq_scalar (VFloat f) (VInt z)).
  cbn [eq_scalar]. rewrite E, !fl_eqb_x. rewrite (xeq_sym (xnum_fl f) (xnum_fl fx)).
  rewrite (xeq_compat_l _ _ (xnum_fl f) (fl_of_int_x z fx E)). split; reflexivity.
Qed.

(* z = m * 2^e, cleared of the denominator when e < 0 *)
Definition int_is_dyadic (z m e : Z) : Prop := if 0 <=? e then z = m * 2 ^ e else z * 2 ^ (- e) = m.

Lemma xeq_int_fin : forall z m e, xeq (XFin z 0) (XFin m e) = true <-> int_is_dyadic z m e.
Proof.
  intros z m e. cbn [xeq]. unfold dy_cmp, int_is_dyadic. cbv zeta.
  destruct (0 <=? e) eqn:E.
  - replace (Z.min 0 e) with 0 by lia. rewrite !Z.sub_0_r. cbn [Z.pow]. rewrite Z.mul_1_r.
    destruct (z ?= m * 2 ^ e) eqn:C; [apply Z.compare_eq in C; split; auto| |];
      (split; [discriminate|intros ->; rewrite Z.compare_refl in C; discriminate]).
  - replace (Z.min 0 e) with e by lia. rewrite Z.sub_diag. cbn [Z.pow]. rewrite Z.mul_1_r. rewrite Z.sub_0_l.
    destruct (z * 2 ^ (- e) ?= m) eqn:C; [apply Z.compare_eq in C; split; auto| |];
      (split; [discriminate|intros <-; rewrite Z.compare_refl in C; discriminate]).
Qed.

(* ================================================================= < : irreflexive, asymmetric, transitive *)

Lemma lt_spec_some : forall a b r, lt_spec a b = Some r ->
  (exists x y, a = VStr x /\ b = VStr y /\ r = str_ltb x y) \/
  (exists x y, xnum_of a = Some x /\ xnum_of b = Some y /\ r = xlt x y).
Proof.
  intros a b r H. destruct a, b; cbn [lt_spec] in H; try discriminate;
    try (left; do 2 eexists; repeat split; congruence);
    right;
    repeat match type of H with context [xnum_of (VFloat ?f)] => rewrite (xnum_of_float f) in H end;
    cbn [xnum_of] in H; inversion H; subst;
    do 2 eexists; repeat split; try reflexivity; apply xnum_of_float.
Qed.

Lemma lt_spec_num : forall a b x y, xnum_of a = Some x -> xnum_of b = Some y -> lt_spec a b = Some (xlt x y).
Proof.
  intros a b x y Ha Hb.
  destruct a; try (cbn in Ha; discriminate Ha); destruct b; try (cbn in Hb; discriminate Hb);
    cbn [lt_spec]; rewrite Ha, Hb; reflexivity.
Qed.

Lemma xnum_of_str : forall s, xnum_of (VStr s) = None.
Proof. reflexivity. Qed.

Lemma lt_spec_irrefl : forall a r, lt_spec a a = Some r -> r = false.
Proof.
  intros a r H. apply lt_spec_some in H. destruct H as [(x & y & -> & E & ->)|(x & y & Hx & Hy & ->)].
  - inversion E; subst. apply str_ltb_irrefl.
  - rewrite Hx in Hy. inversion Hy; subst. apply xlt_irrefl.
Qed.

Lemma lt_spec_asym : forall a b, lt_spec a b = Some true -> lt_spec b a = Some false.
Proof.
  intros a b H. apply lt_spec_some in H. destruct H as [(x & y & -> & -> & E)|(x & y & Hx & Hy & E)].
  - cbn. f_equal. apply str_ltb_asym. congruence.
  - rewrite (lt_spec_num b a y x Hy Hx). f_equal. apply xlt_asym. congruence.
Qed.

Lemma lt_spec_trans : forall a b c,
  lt_spec a b = Some true -> lt_spec b c = Some true -> lt_spec a c = Some true.
Proof.
  intros a b c H1 H2. apply lt_spec_some in H1. apply lt_spec_some in H2.
  destruct H1 as [(x & y & -> & -> & E1)|(x & y & Hx & Hy & E1)];
    destruct H2 as [(y' & z & Eb & -> & E2)|(y' & z & Hy' & Hz & E2)].
  - inversion Eb; subst. cbn. f_equal. eapply str_ltb_trans; eauto.
  - cbn in Hy'. discriminate.
  - subst b. cbn in Hy. discriminate.
  - rewrite Hy in Hy'. inversion Hy'; subst. rewrite (lt_spec_num a c x z Hx Hz). f_equal.
    eapply xlt_trans; eauto.
Qed.

Lemma vless_cases : forall a b, (exists r, vless a b = Ok r) \/ vless a b = Err None \/ vless a b = Unsup.
Proof. intros a b. destruct a, b; cbn; eauto; destruct (fl_of_int _); eauto. Qed.

Lemma vless_irrefl : forall a r, vless a a = Ok r -> r = false.
Proof. intros a r H. apply vless_spec in H. eapply lt_spec_irrefl. exact H. Qed.

Lemma vless_ok_flip : forall a b r, vless a b = Ok r -> exists r', vless b a = Ok r'.
Proof. intros a b r. destruct a, b; cbn; try discriminate; eauto; destruct (fl_of_int _); try discriminate; eauto. Qed.

Lemma vless_asym : forall a b, vless a b = Ok true -> vless b a = Ok false.
Proof.
  intros a b H. destruct (vless_ok_flip _ _ _ H) as [r' H']. rewrite H'.
  apply vless_spec in H. apply vless_spec in H'. rewrite (lt_spec_asym _ _ H) in H'. congruence.
Qed.

(* whatever boolean a<c answers after a<b and b<c, it is true; it can only fail to answer for an int
   that is not exactly a float (outside the exact model) *)
Lemma vless_trans_gen : forall a b c, vless a b = Ok true -> vless b c = Ok true ->
  vless a c = Ok true \/ vless a c = Unsup.
Proof.
  intros a b c H1 H2. apply vless_spec in H1. apply vless_spec in H2.
  pose proof (lt_spec_trans _ _ _ H1 H2) as H3.
  destruct (vless_cases a c) as [[r Hr]|[He|Hu]].
  - left. pose proof (vless_spec _ _ _ Hr) as Hs. congruence.
  - exfalso. assert (E : is_err (vless a c) = true) by (rewrite He; reflexivity).
    apply vless_err_spec in E. congruence.
  - right. exact Hu.
Qed.

Lemma vless_supported : forall a b, small_ints a = true -> small_ints b = true ->
  is_errtext a = false -> is_errtext b = false -> vless a b <> Unsup.
Proof.
  intros a b Sa Sb Ea Eb. destruct a, b; cbn in *; try discriminate.
  - destruct (fl_of_int_small z Sa) as [fx E]. rewrite E. discriminate.
  - destruct (fl_of_int_small z Sb) as [fx E]. rewrite E. discriminate.
Qed.

Lemma lt_spec_not_errtext : forall a b r, lt_spec a b = Some r -> is_errtext a = false /\ is_errtext b = false.
Proof. intros a b r. destruct a, b; cbn; try discriminate; auto. Qed.

Lemma vless_trans : forall a b c, small_ints a = true -> small_ints c = true ->
  vless a b = Ok true -> vless b c = Ok true -> vless a c = Ok true.
Proof.
  intros a b c Sa Sc H1 H2. destruct (vless_trans_gen _ _ _ H1 H2) as [H|H]; [exact H|]. exfalso.
  apply vless_spec in H1. apply vless_spec in H2.
  destruct (lt_spec_not_errtext _ _ _ H1) as [Ea _]. destruct (lt_spec_not_errtext _ _ _ H2) as [_ Ec].
  exact (vless_supported a c Sa Sc Ea Ec H).
Qed.

(* ================================================================= the derived operators *)

Lemma calc_eq_is : forall a b, calc op_eq a b = rbool (veq a b).
Proof. reflexivity. Qed.

Lemma calc_lt_is : forall a b, calc op_lt a b = rbool (vless a b).
Proof. reflexivity. Qed.

Lemma ne_is_not_eq : forall a b, calc op_ne a b = rbool (neg_res (veq a b)).
Proof. intros a b. change (calc op_ne a b) with
    (match veq a b with Ok r => Ok (VBool (negb r)) | Err t => Err t | Panic => Panic | OOF => OOF | Unsup => Unsup end).
  destruct (veq a b); reflexivity.
Qed.

Lemma gt_is_flip : forall a b, calc op_gt a b = calc op_lt b a.
Proof. reflexivity. Qed.

Lemma calc_le_is : forall a b,
  calc op_le a b = match vless a b with
                   | Ok true => Ok (VBool true)
                   | Ok false => calc op_eq a b
                   | Err t => Err t | Panic => Panic | OOF => OOF | Unsup => Unsup
                   end.
Proof. reflexivity. Qed.

(* a<=b holds exactly when a<b or a=b, wherever < is defined; where it is not, <= is an error *)
Lemma le_is_lt_or_eq : forall a b l e, vless a b = Ok l -> veq a b = Ok e ->
  calc op_le a b = Ok (VBool (l || e)).
Proof. intros a b l e Hl He. rewrite calc_le_is, Hl, calc_eq_is, He. destruct l; reflexivity. Qed.

Lemma le_undefined : forall a b, is_err (vless a b) = true -> is_err (calc op_le a b) = true.
Proof. intros a b. rewrite calc_le_is. destruct (vless a b) as [[|]| | | |]; cbn; congruence. Qed.

(* where < answers, = answers too and is symmetric (both operands are numbers or both strings) *)
Lemma vless_ok_veq : forall a b r, vless a b = Ok r ->
  veq a b = eq_scalar a b /\ veq b a = eq_scalar b a /\ exists e, eq_scalar a b = Ok e.
Proof.
  intros a b r. destruct a, b; cbn [vless]; try discriminate; intros H; repeat split; cbn [eq_scalar]; eauto;
    destruct (fl_of_int _); try discriminate; eauto.
Qed.

Lemma ge_is_flip_le : forall a b, calc op_ge a b = calc op_le b a.
Proof.
  intros a b. rewrite calc_le_is.
  change (calc op_ge a b) with
    (match vless b a with
     | Ok true => Ok (VBool true)
     | Ok false => rbool (veq a b)
     | Err t => Err t | Panic => Panic | OOF => OOF | Unsup => Unsup
     end).
  destruct (vless b a) as [[|]| | | |] eqn:E; try reflexivity.
  rewrite calc_eq_is. destruct (vless_ok_veq _ _ _ E) as (E1 & E2 & _). rewrite E1, E2, eq_scalar_sym. reflexivity.
Qed.

(* on numbers (no NaN) and on strings <= is total and antisymmetric up to = *)
Lemma le_antisym : forall a b, calc op_le a b = Ok (VBool true) -> calc op_le b a = Ok (VBool true) ->
  calc op_eq a b = Ok (VBool true).
Proof.
  intros a b. rewrite !calc_le_is, !calc_eq_is.
  destruct (vless a b) as [[|]| | | |] eqn:E1; try discriminate.
  - rewrite (vless_asym _ _ E1). destruct (vless_ok_veq _ _ _ E1) as (Ea & Eb & _).
    rewrite Ea, Eb, (eq_scalar_sym b a). auto.
  - auto.
Qed.

(* ================================================================= membership *)

Lemma calc_in_item : forall x l,
  match x with VList _ => False | _ => True end -> calc op_in x (VList l) = rbool (contains_item x l).
Proof. intros x l. destruct x; intros H; try contradiction; reflexivity. Qed.

(* true: some element equals x and every element before it is comparable and different *)
Lemma contains_item_true : forall x l,
  contains_item x l = Ok true <->
  exists l1 y l2, l = l1 ++ y :: l2 /\ veq x y = Ok true /\ Forall (fun z => veq x z = Ok false) l1.
Proof.
  intros x l. induction l as [|y l IH]; cbn [contains_item]; unfold equal_fg.
  - split; [discriminate|]. intros (l1 & y & l2 & E & _). destruct l1; discriminate.
  - destruct (veq x y) as [[|]| | | |] eqn:E.
    + split; [|reflexivity]. intros _. exists [], y, l. repeat split; [exact E|constructor].
    + rewrite IH. split.
      * intros (l1 & y' & l2 & -> & Hy & Hl). exists (y :: l1), y', l2. repeat split; [exact Hy|constructor; assumption].
      * intros (l1 & y' & l2 & El & Hy & Hl). destruct l1 as [|z l1]; cbn in El; inversion El; subst; [congruence|].
        inversion Hl; subst. exists l1, y', l2. auto.
    + split; [discriminate|]. intros (l1 & y' & l2 & El & Hy & Hl).
      destruct l1 as [|z l1]; cbn in El; inversion El; subst; [congruence|]. inversion Hl; subst. congruence.
    + split; [discriminate|]. intros (l1 & y' & l2 & El & Hy & Hl).
      destruct l1 as [|z l1]; cbn in El; inversion El; subst; [congruence|]. inversion Hl; subst. congruence.
    + split; [discriminate|]. intros (l1 & y' & l2 & El & Hy & Hl).
      destruct l1 as [|z l1]; cbn in El; inversion El; subst; [congruence|]. inversion Hl; subst. congruence.
    + split; [discriminate|]. intros (l1 & y' & l2 & El & Hy & Hl).
      destruct l1 as [|z l1]; cbn in El; inversion El; subst; [congruence|]. inversion Hl; subst. congruence.
Qed.

Lemma contains_item_false : forall x l,
  contains_item x l = Ok false <-> Forall (fun z => veq x z = Ok false) l.
Proof.
  intros x l. induction l as [|y l IH]; cbn [contains_item]; unfold equal_fg.
  - split; [constructor|reflexivity].
  - destruct (veq x y) as [[|]| | | |] eqn:E;
      try (split; [discriminate|intros H; inversion H; congruence]).
    rewrite IH. split; [intros H; constructor; assumption|intros H; inversion H; assumption].
Qed.

(* an error: an element that cannot be compared comes before any equal one *)
Lemma contains_item_err : forall x l, is_err (contains_item x l) = true <->
  exists l1 y l2, l = l1 ++ y :: l2 /\ is_err (veq x y) = true /\ Forall (fun z => veq x z = Ok false) l1.
Proof.
  intros x l. induction l as [|y l IH]; cbn [contains_item]; unfold equal_fg.
  - split; [discriminate|]. intros (l1 & y & l2 & E & _). destruct l1; discriminate.
  - destruct (veq x y) as [[|]| | | |] eqn:E;
      try (split; [intros _; exists [], y, l; repeat split; [rewrite E; reflexivity|constructor]|reflexivity]);
      try (split; [discriminate|]; intros (l1 & y' & l2 & El & Hy & Hl);
           destruct l1 as [|z l1]; cbn in El; inversion El; subst;
           [rewrite E in Hy; discriminate|inversion Hl; subst; congruence]).
    rewrite IH. split.
    + intros (l1 & y' & l2 & -> & Hy & Hl). exists (y :: l1), y', l2. repeat split; [exact Hy|constructor; assumption].
    + intros (l1 & y' & l2 & El & Hy & Hl). destruct l1 as [|z l1]; cbn in El; inversion El; subst.
      * rewrite E in Hy. discriminate.
      * inversion Hl; subst. exists l1, y', l2. auto.
Qed.

(* with a list on the left ~ is multiset containment: an equal element is not found, ... *)
Lemma member_list_refuted :
  let x := VList [VInt 1] in let l := [VList [VInt 1]; VList [VInt 2]] in
  (exists y, In y l /\ veq x y = Ok true) /\ calc op_in x (VList l) = Err None.
Proof. cbv zeta. split; [exists (VList [VInt 1]); split; [left; reflexivity|reflexivity]|reflexivity]. Qed.

(* ... and true is answered although no element equals the left operand *)
Lemma member_list_refuted2 :
  let x := VList [VInt 2; VInt 3] in let l := [VInt 1; VInt 2; VInt 3] in
  Forall (fun y => veq x y = Err None) l /\ calc op_in x (VList l) = Ok (VBool true).
Proof. cbv zeta. split; [repeat constructor|reflexivity]. Qed.

(* ================================================================= definedness: an error exactly outside the tables *)

Lemma all_kinds_complete : forall k, In k all_kinds.
Proof. destruct k; cbn; tauto. Qed.

Lemma kind_defined_sound : forall op a b, In op matrix_ops ->
  is_errtext a = false -> is_errtext b = false ->
  kind_defined op (kind_of a) (kind_of b) = false -> calc op a b = Err None.
Proof.
  intros op a b Hin. unfold matrix_ops in Hin.
  repeat (destruct Hin as [<-|Hin]; [destruct a, b; cbn; intros; try discriminate; reflexivity|]).
  contradiction.
Qed.

(* inside the tables of = and < (scalar kinds) the answer is never an error *)
Lemma lt_defined : forall a b, is_errtext a = false -> is_errtext b = false ->
  lt_kinds_ok (kind_of a) (kind_of b) = true -> is_err (calc op_lt a b) = false.
Proof.
  intros a b Ea Eb. rewrite calc_lt_is. destruct a, b; cbn in *; try discriminate; intros _; try reflexivity;
    destruct (fl_of_int _); reflexivity.
Qed.

Lemma eq_defined_scalar : forall a b, is_errtext a = false -> is_errtext b = false ->
  match a, b with VList _, VList _ | VMap _, VMap _ => False | _, _ => True end ->
  eq_kinds_ok (kind_of a) (kind_of b) = true -> is_err (calc op_eq a b) = false.
Proof.
  intros a b Ea Eb. rewrite calc_eq_is. destruct a, b; cbn in *; try discriminate; try contradiction; intros _ _;
    try reflexivity; destruct (fl_of_int _); reflexivity.
Qed.

Lemma registered_is_kind_defined : forall tbl, definedness_matches tbl = true ->
  forall op ka kb, In op matrix_ops -> registered tbl op ka kb = kind_defined op ka kb.
Proof.
  intros tbl H op ka kb Hin. unfold definedness_matches in H. rewrite forallb_forall in H.
  specialize (H op Hin). rewrite forallb_forall in H. specialize (H ka (all_kinds_complete ka)).
  rewrite forallb_forall in H. specialize (H kb (all_kinds_complete kb)).
  apply Bool.eqb_prop in H. exact H.
Qed.

Lemma incomparable_by_table : forall tbl, definedness_matches tbl = true ->
  forall op a b, In op matrix_ops -> is_errtext a = false -> is_errtext b = false ->
  registered tbl op (kind_of a) (kind_of b) = false -> calc op a b = Err None.
Proof.
  intros tbl H op a b Hin Ea Eb Hr. apply kind_defined_sound; try assumption.
  rewrite <- (registered_is_kind_defined tbl H op _ _ Hin). exact Hr.
Qed.

Lemma lt_kinds_ok_sym : forall ka kb, lt_kinds_ok ka kb = lt_kinds_ok kb ka.
Proof. destruct ka, kb; reflexivity. Qed.

Lemma in_matrix_eq : In op_eq matrix_ops. Proof. cbn. tauto. Qed.
Lemma in_matrix_lt : In op_lt matrix_ops. Proof. cbn. tauto. Qed.

(* the derived operators are errors wherever the matrices of = and < have no entry *)
Lemma derived_incomparable : forall tbl, definedness_matches tbl = true ->
  forall a b, is_errtext a = false -> is_errtext b = false ->
  (registered tbl op_eq (kind_of a) (kind_of b) = false -> calc op_ne a b = Err None) /\
  (registered tbl op_lt (kind_of b) (kind_of a) = false -> calc op_gt a b = Err None) /\
  (registered tbl op_lt (kind_of a) (kind_of b) = false -> calc op_le a b = Err None) /\
  (registered tbl op_lt (kind_of b) (kind_of a) = false -> calc op_ge a b = Err None).
Proof.
  intros tbl H a b Ea Eb. repeat split; intros Hr.
  - pose proof (incomparable_by_table tbl H op_eq a b in_matrix_eq Ea Eb Hr) as E.
    rewrite calc_eq_is in E. rewrite ne_is_not_eq. destruct (veq a b) as [[|]| | | |]; cbn in *; congruence.
  - rewrite gt_is_flip. exact (incomparable_by_table tbl H op_lt b a in_matrix_lt Eb Ea Hr).
  - pose proof (incomparable_by_table tbl H op_lt a b in_matrix_lt Ea Eb Hr) as E.
    rewrite calc_lt_is in E. rewrite calc_le_is. destruct (vless a b) as [[|]| | | |]; cbn in *; congruence.
  - rewrite ge_is_flip_le. pose proof (incomparable_by_table tbl H op_lt b a in_matrix_lt Eb Ea Hr) as E.
    rewrite calc_lt_is in E. rewrite calc_le_is. destruct (vless b a) as [[|]| | | |]; cbn in *; congruence.
Qed.

(* ================================================================= min and max pick by < *)

Lemma min_two : forall a b,
  run_static n_min [a; b] = match vless b a with
                            | Ok true => Ok b | Ok false => Ok a
                            | Err t => Err t | Panic => Panic | OOF => OOF | Unsup => Unsup
                            end.
Proof. intros a b. change (run_static n_min [a; b]) with (pick_min a [b]). cbn [pick_min].
  destruct (vless b a) as [[|]| | | |]; reflexivity. Qed.

Lemma max_two : forall a b,
  run_static n_max [a; b] = match vless a b with
                            | Ok true => Ok b | Ok false => Ok a
                            | Err t => Err t | Panic => Panic | OOF => OOF | Unsup => Unsup
                            end.
Proof. intros a b. change (run_static n_max [a; b]) with (pick_max a [b]). cbn [pick_max].
  destruct (vless a b) as [[|]| | | |]; reflexivity. Qed.

Lemma min_static_is_pick : forall m l, run_static n_min (m :: l) = pick_min m l.
Proof. reflexivity. Qed.
Lemma max_static_is_pick : forall m l, run_static n_max (m :: l) = pick_max m l.
Proof. reflexivity. Qed.

Lemma in_shuffle1 : forall (y m v : value) seen l, In y (m :: seen ++ v :: l) -> In y (v :: (m :: seen) ++ l).
Proof.
  intros y m v seen l [->|H]; [right; left; reflexivity|]. apply in_app_or in H. destruct H as [H|[->|H]].
  - right. right. apply in_or_app. left. exact H.
  - left. reflexivity.
  - right. right. apply in_or_app. right. exact H.
Qed.

Lemma in_shuffle2 : forall (y m v : value) seen l, In y (m :: seen ++ v :: l) -> In y (m :: (v :: seen) ++ l).
Proof.
  intros y m v seen l [->|H]; [left; reflexivity|]. apply in_app_or in H. destruct H as [H|[->|H]].
  - right. right. apply in_or_app. left. exact H.
  - right. left. reflexivity.
  - right. right. apply in_or_app. right. exact H.
Qed.

(* the result is one of the arguments and no argument is smaller (by the exact order) *)
Lemma pick_min_spec : forall l m seen r,
  Forall (fun y => lt_spec y m <> Some true) (m :: seen) ->
  pick_min m l = Ok r ->
  In r (m :: l) /\ Forall (fun y => lt_spec y r <> Some true) (m :: seen ++ l).
Proof.
  induction l as [|v l IH]; intros m seen r Hinv H; cbn [pick_min] in H.
  - inversion H; subst. rewrite app_nil_r. split; [left; reflexivity|exact Hinv].
  - destruct (vless v m) as [[|]| | | |] eqn:E; try discriminate.
    + (* v < m: v becomes the minimum *)
      pose proof (vless_spec _ _ _ E) as Ev.
      assert (Hinv' : Forall (fun y => lt_spec y v <> Some true) (v :: m :: seen)).
      { constructor.
        - intros C. apply lt_spec_irrefl in C. discriminate.
        - rewrite Forall_forall in Hinv |- *. intros y Hy C. apply (Hinv y Hy).
          eapply lt_spec_trans; eassumption. }
      destruct (IH v (m :: seen) r Hinv' H) as [Hin Hall]. split.
      * destruct Hin as [->|Hin]; [right; left; reflexivity|right; right; exact Hin].
      * rewrite Forall_forall in Hall |- *. intros y Hy. apply Hall. apply in_shuffle1. exact Hy.
    + pose proof (vless_spec _ _ _ E) as Ev.
      assert (Hinv' : Forall (fun y => lt_spec y m <> Some true) (m :: v :: seen)).
      { inversion Hinv; subst. constructor; [assumption|]. constructor; [congruence|assumption]. }
      destruct (IH m (v :: seen) r Hinv' H) as [Hin Hall]. split.
      * destruct Hin as [->|Hin]; [left; reflexivity|right; right; exact Hin].
      * rewrite Forall_forall in Hall |- *. intros y Hy. apply Hall. apply in_shuffle2. exact Hy.
Qed.

Lemma pick_min_least : forall m l r, pick_min m l = Ok r ->
  In r (m :: l) /\ Forall (fun y => lt_spec y r <> Some true) (m :: l).
Proof.
  intros m l r H. apply (pick_min_spec l m [] r); [|exact H].
  constructor; [|constructor]. intros C. apply lt_spec_irrefl in C. discriminate.
Qed.

Lemma pick_max_spec : forall l m seen r,
  Forall (fun y => lt_spec m y <> Some true) (m :: seen) ->
  pick_max m l = Ok r ->
  In r (m :: l) /\ Forall (fun y => lt_spec r y <> Some true) (m :: seen ++ l).
Proof.
  induction l as [|v l IH]; intros m seen r Hinv H; cbn [pick_max] in H.
  - inversion H; subst. rewrite app_nil_r. split; [left; reflexivity|exact Hinv].
  - destruct (vless m v) as [[|]| | | |] eqn:E; try discriminate.
    + pose proof (vless_spec _ _ _ E) as Ev.
      assert (Hinv' : Forall (fun y => lt_spec v y <> Some true) (v :: m :: seen)).
      { constructor.
        - intros C. apply lt_spec_irrefl in C. discriminate.
        - rewrite Forall_forall in Hinv |- *. intros y Hy C. apply (Hinv y Hy).
          eapply lt_spec_trans; eassumption. }
      destruct (IH v (m :: seen) r Hinv' H) as [Hin Hall]. split.
      * destruct Hin as [->|Hin]; [right; left; reflexivity|right; right; exact Hin].
      * rewrite Forall_forall in Hall |- *. intros y Hy. apply Hall. apply in_shuffle1. exact Hy.
    + pose proof (vless_spec _ _ _ E) as Ev.
      assert (Hinv' : Forall (fun y => lt_spec m y <> Some true) (m :: v :: seen)).
      { inversion Hinv; subst. constructor; [assumption|]. constructor; [congruence|assumption]. }
      destruct (IH m (v :: seen) r Hinv' H) as [Hin Hall]. split.
      * destruct Hin as [->|Hin]; [left; reflexivity|right; right; exact Hin].
      * rewrite Forall_forall in Hall |- *. intros y Hy. apply Hall. apply in_shuffle2. exact Hy.
Qed.

Lemma pick_max_greatest : forall m l r, pick_max m l = Ok r ->
  In r (m :: l) /\ Forall (fun y => lt_spec r y <> Some true) (m :: l).
Proof.
  intros m l r H. apply (pick_max_spec l m [] r); [|exact H].
  constructor; [|constructor]. intros C. apply lt_spec_irrefl in C. discriminate.
Qed.

(* an incomparable argument makes min/max fail: they never answer across kinds *)
Lemma pick_min_err : forall m v l, is_err (vless v m) = true -> is_err (pick_min m (v :: l)) = true.
Proof. intros m v l. cbn [pick_min]. destruct (vless v m) as [[|]| | | |]; cbn; congruence. Qed.

Lemma pick_max_err : forall m v l, is_err (vless m v) = true -> is_err (pick_max m (v :: l)) = true.
Proof. intros m v l. cbn [pick_max]. destruct (vless m v) as [[|]| | | |]; cbn; congruence. Qed.

(* ================================================================= membership, stated on the operator *)

Definition not_a_list (x : value) : Prop := match x with VList _ => False | _ => True end.

Lemma rbool_true : forall r, rbool r = Ok (VBool true) <-> r = Ok true.
Proof. intros [[|]| | | |]; cbn; split; congruence. Qed.
Lemma rbool_false : forall r, rbool r = Ok (VBool false) <-> r = Ok false.
Proof. intros [[|]| | | |]; cbn; split; congruence. Qed.
Lemma rbool_err : forall r, is_err (rbool r) = is_err r.
Proof. intros [[|]| | | |]; reflexivity. Qed.

Lemma member_true_iff : forall x l, not_a_list x ->
  (calc op_in x (VList l) = Ok (VBool true) <->
   exists l1 y l2, l = l1 ++ y :: l2 /\ veq x y = Ok true /\ Forall (fun z => veq x z = Ok false) l1).
Proof. intros x l H. rewrite (calc_in_item x l H), rbool_true. apply contains_item_true. Qed.

Lemma member_false_iff : forall x l, not_a_list x ->
  (calc op_in x (VList l) = Ok (VBool false) <-> Forall (fun z => veq x z = Ok false) l).
Proof. intros x l H. rewrite (calc_in_item x l H), rbool_false. apply contains_item_false. Qed.

Lemma member_err_iff : forall x l, not_a_list x ->
  (is_err (calc op_in x (VList l)) = true <->
   exists l1 y l2, l = l1 ++ y :: l2 /\ is_err (veq x y) = true /\ Forall (fun z => veq x z = Ok false) l1).
Proof. intros x l H. rewrite (calc_in_item x l H), rbool_err. apply contains_item_err. Qed.

(* when every comparison answers: x ~ l holds exactly when some element equals x *)
Lemma member_exists : forall x l, not_a_list x -> Forall (fun z => exists r, veq x z = Ok r) l ->
  (calc op_in x (VList l) = Ok (VBool true) <-> exists y, In y l /\ veq x y = Ok true).
Proof.
  intros x l H Hall. rewrite (member_true_iff x l H). split.
  - intros (l1 & y & l2 & -> & Hy & _). exists y. split; [apply in_or_app; right; left; reflexivity|exact Hy].
  - intros (y & Hin & Hy). induction l as [|z l IH]; [destruct Hin|].
    inversion Hall as [|? ? [r Hz] Hrest]; subst. destruct r.
    + exists [], z, l. repeat split; [exact Hz|constructor].
    + destruct Hin as [->|Hin]; [congruence|].
      destruct (IH Hrest Hin) as (l1 & y' & l2 & -> & Hy' & Hl1).
      exists (z :: l1), y', l2. repeat split; [exact Hy'|constructor; assumption].
Qed.

Lemma equal_fg_is_veq : forall a b, equal_fg a b = veq a b.
Proof. reflexivity. Qed.
