(* Model of the constant-folding optimizer: funcGen/optimizer.go (optimizer.Optimize, the node rules),
   the child-first traversal of the Optimize methods in parser2.go (with their omissions) and the
   constant-let propagation of parser2.go parseLet.

   How the pieces of the implementation fit together, and how the model follows them:
   * parseLet, when an optimizer is set, calls Optimize(exp) on the value of every `let` and on the
     closure of every `func` WHILE PARSING; if the result is a Const node the name is entered into
     the identifier chain as a constant, every use of the name in the rest becomes a Const node at
     parse time (parseLiteral), the Let node is dropped, and the name is NOT recorded in the
     OuterIdents of closure literals that use it (Identifiers.AddArgs: `ok && !ident.IsConst`).
     Inner bindings (let, func, closure parameters, the own name of a func) hide the constant.
     In the model the constants known at a position are the substitution [s]; [opt] carries it down.
   * Parser.Parse finally calls Optimize(ast): X.Optimize(o) optimizes the children of X in place
     (child first), then optimizer.Optimize(X) rewrites X itself.  Let.Optimize skips the value (it
     was optimized while parsing), Switch.Optimize skips the CaseConst expressions, MapLiteral
     optimizes in place (ListMap.Append overwrites the entry of an existing key).  Every node is
     therefore visited by exactly one Optimize pass - except the case constants of a switch, which are
     only subject to what the parser does (constant identifiers, let values).  [opt true] is the
     full treatment, [opt false] the parser-only treatment.
   * the node rules [rule_*] are the branches of optimizer.Optimize, in the order of the code.
   * where the optimizer runs generated code at Generate time (a constant closure applied to
     constants, a method with a callback) the model runs Gen.exec on a fresh stack with [fuel];
     only an Ok result folds.  An error leaves the node unchanged (`return ast`).  A panic would
     abort the whole pass in the implementation (recover in parser2.Optimize returns the partially
     rewritten tree); no modelled operation panics, so the model has no such path.
   * an unmodelled built-in (static_arity / method_arity = None) is left unchanged by the model
     although the implementation may fold it: [node_unmodelled] (applied to the nodes of the result) tells the correspondence run to skip. *)
From P2 Require Import Base.Prelude Sem.Num Sem.Syntax Sem.Ops Sem.Lib Sem.Gen Sem.Sim.

(* ---------- the configuration the optimizer reads ---------- *)

Record cfgflags := mkflags {
  f_ops : list (name * (bool * bool));   (* g.opMap: operator -> (IsPure, IsCommutative) *)
  f_unary : list name;                   (* g.uMap *)
  f_static : list (name * bool);         (* g.staticFunctions: name -> IsPure *)
  f_meth_impure : list (N * name);       (* methods (type id, name) whose Function is not IsPure *)
  f_tobool : bool;                       (* g.toBool != nil *)
  f_list : bool;                         (* g.listHandler != nil *)
  f_map : bool;                          (* g.mapHandler != nil *)
  f_closure : bool;                      (* g.closureHandler != nil *)
  f_method : bool;                       (* g.methodHandler != nil *)
  f_fieldcheck : bool;                   (* the method rule leaves a map field holding a closure alone
                                            (the repaired code; false = the code as found) *)
  f_strict : bool                        (* NOT a switch of the implementation (always false there): when
                                            set, a fold is performed only if the computed constant is a
                                            first-order value (Sim.fo), so that the only closure constants
                                            are those of the closure-literal rule.  The soundness theorem
                                            is proved for the strict optimizer and carries over to every
                                            program on which both optimizers agree. *)
}.

Definition type_id (v : value) : N :=
  match v with
  | VInt _ => 1 | VFloat _ => 2 | VStr _ => 3 | VBool _ => 4 | VList _ => 5 | VMap _ => 6
  | VClo _ _ _ _ => 7 | VErrText _ => 3
  end%N.

Definition op_flags (fl : cfgflags) (op : name) : option (bool * bool) := assoc op (f_ops fl).
Definition static_pure (fl : cfgflags) (f : name) : bool :=
  match assoc f (f_static fl) with Some p => p | None => false end.
Definition method_pure (fl : cfgflags) (recv : value) (m : name) : bool :=
  negb (existsb (fun e => N.eqb (fst e) (type_id recv) && str_eqb (snd e) m) (f_meth_impure fl)).

(* ---------- the purity result of GenerateFunc / GenerateCustom ---------- *)

(* the second result of funcGen.GenerateFunc: a conjunction over the children; a static function
   contributes its IsPure flag; operators, unary operators, methods and the callee of a call through
   a closure value contribute nothing. *)
Fixpoint gen_pure (fl : cfgflags) (a : ast) {struct a} : bool :=
  match a with
  | AConst _ => true
  | AIdent _ => true
  | ALet _ v b => gen_pure fl v && gen_pure fl b
  | AIf c t e => gen_pure fl c && gen_pure fl t && gen_pure fl e
  | ASwitch v cases d =>
      gen_pure fl v && gen_pure fl d &&
      (fix go (l : list (ast * ast)) : bool :=
         match l with [] => true | (cc, cr) :: r => gen_pure fl cc && gen_pure fl cr && go r end) cases
  | ATry t c => gen_pure fl t && gen_pure fl c
  | AUnary _ x => gen_pure fl x
  | AOp _ x y => gen_pure fl x && gen_pure fl y
  | AClosure _ body _ _ _ => gen_pure fl body
  | AList l => (fix go (l : list ast) : bool := match l with [] => true | x :: r => gen_pure fl x && go r end) l
  | AIndex l i => gen_pure fl i && gen_pure fl l
  | AMap m => (fix go (m : list (name * ast)) : bool :=
                 match m with [] => true | (_, x) :: r => gen_pure fl x && go r end) m
  | AMember m _ => gen_pure fl m
  | ACall fn args =>
      gen_pure fl fn &&
      (fix go (l : list ast) : bool := match l with [] => true | x :: r => gen_pure fl x && go r end) args
  | AStatic f args =>
      static_pure fl f &&
      (fix go (l : list ast) : bool := match l with [] => true | x :: r => gen_pure fl x && go r end) args
  | AMethod recv _ args =>
      gen_pure fl recv &&
      (fix go (l : list ast) : bool := match l with [] => true | x :: r => gen_pure fl x && go r end) args
  end.

(* ---------- helpers of the optimizer ---------- *)

Definition is_const (a : ast) : option value :=
  match a with AConst v => Some v | _ => None end.

Fixpoint all_const (l : list ast) : option (list value) :=
  match l with
  | [] => Some []
  | x :: r => match is_const x, all_const r with
              | Some v, Some vs => Some (v :: vs)
              | _, _ => None
              end
  end.

Fixpoint all_const_map (m : list (name * ast)) : option (list (str * value)) :=
  match m with
  | [] => Some []
  | (k, x) :: r => match is_const x, all_const_map r with
                   | Some v, Some vs => Some ((k, v) :: vs)
                   | _, _ => None
                   end
  end.

Definition arity_matches (ar : arity) (n : nat) : bool :=
  match ar with Fixed k => Nat.eqb k n | VarArgs => true end.

(* names hidden by a binder are removed from the known constants *)
Definition sdrop (xs : list name) (s : list (name * value)) : list (name * value) :=
  filter (fun p => negb (mem_name (fst p) xs)) s.

Definition in_dom (x : name) (s : list (name * value)) : bool :=
  match lookup x s with Some _ => true | None => false end.

(* OuterIdents as the parser computes them when the names in s are constants *)
Definition outer_minus (s : list (name * value)) (outer : list name) : list name :=
  filter (fun n => negb (in_dom n s)) outer.

Definition this_names (this : name) : list name := match this with [] => [] | _ => [this] end.

Section Opt.
Variable fl : cfgflags.
Variable known : list (N * list name).
Variable fuel : nat.        (* fuel of the code that is run at Generate time *)

(* closure.Func(NewStack(c...), nil): the generated code of a closure value on a fresh stack *)
Definition gapp (c : value) (args : list value) : res value :=
  match c with
  | VClo ps body cap self =>
      if Nat.eqb (length args) (length ps)
      then fst (exec known fuel (map Some ps) (clo_cm cap self) args 0 (length args) (clo_cs cap self c) body)
      else Err None
  | VErrText _ => Unsup
  | _ => Err None
  end.

(* Function.IsPure of a closure VALUE.  Only the optimizer sets it (FromClosure{IsPure: true} in the
   closure-literal rule); closures created by running code have IsPure = false.  A closure constant
   that the closure-literal rule produced is recognisable by: nothing captured, no own name, body
   pure and accepted by GenerateFunc. *)
Definition clo_const_ok (ps : list name) (body : ast) : bool :=
  gen_check (S (ast_size body)) (map Some ps) [] body && gen_pure fl body.

Definition clo_value_pure (c : value) : bool :=
  match c with
  | VClo ps body [] [] => clo_const_ok ps body
  | _ => false
  end.

(* the constant node that replaces [orig] (strict mode: only first-order constants) *)
Definition strict_ok (v : value) : bool := negb (f_strict fl) || fo v.
Definition konst (orig : ast) (v : value) : ast := if strict_ok v then AConst v else orig.

(* ---------- optimizer.Optimize: the node rules, in the order of the code ---------- *)

Definition rule_op (op : name) (a b : ast) : ast :=
  let orig := AOp op a b in
  match op_flags fl op with
  | None => orig
  | Some (pure, comm) =>
    match is_const b with
    | None => orig
    | Some bc =>
      match (if pure then is_const a else None) with
      | Some ac => match calc op ac bc with Ok co => konst orig co | _ => orig end
      | None =>
        if comm then
          match a with
          | AOp op2 ia ib =>
              if str_eqb op2 op then
                match is_const ia with
                | Some iac => match calc op iac bc with
                              | Ok co => if strict_ok co then AOp op (AConst co) ib else orig
                              | _ => orig end
                | None =>
                    match is_const ib with
                    | Some ibc => match calc op ibc bc with
                                  | Ok co => if strict_ok co then AOp op ia (AConst co) else orig
                                  | _ => orig end
                    | None => orig
                    end
                end
              else orig
          | _ => orig
          end
        else orig
      end
    end
  end.

Definition rule_unary (op : name) (x : ast) : ast :=
  let orig := AUnary op x in
  if mem_name op (f_unary fl) then
    match is_const x with
    | Some c => match ucalc op c with Ok co => konst orig co | _ => orig end
    | None => orig
    end
  else orig.

Definition rule_if (c t e : ast) : ast :=
  let orig := AIf c t e in
  if f_tobool fl then
    match is_const c with
    | Some cv => match to_bool cv with Some true => t | Some false => e | None => orig end
    | None => orig
    end
  else orig.

Definition rule_list (l : list ast) : ast :=
  if f_list fl then match all_const l with Some vs => konst (AList l) (VList vs) | None => AList l end
  else AList l.

Definition rule_index (l i : ast) : ast :=
  let orig := AIndex l i in
  if f_list fl then
    match is_const l with
    | Some lv => match is_const i with
                 | Some iv => match access_list lv iv with Ok v => konst orig v | _ => orig end
                 | None => orig
                 end
    | None => orig
    end
  else orig.

Definition rule_map (m : list (name * ast)) : ast :=
  if f_map fl then match all_const_map m with Some vs => konst (AMap m) (VMap vs) | None => AMap m end
  else AMap m.

Definition rule_member (m : ast) (key : name) : ast :=
  let orig := AMember m key in
  if f_map fl then
    match is_const m with
    | Some mv => match access_map mv key with Ok v => konst orig v | _ => orig end
    | None => orig
    end
  else orig.

Definition rule_static (f : name) (args : list ast) : ast :=
  let orig := AStatic f args in
  if static_pure fl f then
    match static_arity f with
    | Some ar =>
        if arity_matches ar (length args) then
          match all_const args with
          | Some cs => match run_static f cs with Ok v => konst orig v | _ => orig end
          | None => orig
          end
        else orig
    | None => orig                       (* not modelled: see node_unmodelled *)
    end
  else orig.

Definition rule_call (fn : ast) (args : list ast) : ast :=
  let orig := ACall fn args in
  match is_const fn with
  | Some cv =>
      if f_closure fl then
        match cv with
        | VClo ps _ _ _ =>
            if clo_value_pure cv then
              if Nat.eqb (length ps) (length args) then
                match all_const args with
                | Some cs => match gapp cv cs with Ok v => konst orig v | _ => orig end
                | None => orig
                end
              else orig
            else orig
        | _ => orig
        end
      else orig
  | None => orig
  end.

(* the generated code calls a map field that holds a closure like a method *)
Definition closure_field (rv : value) (mname : name) : bool :=
  match rv with
  | VMap entries => match assoc_v mname entries with Some (VClo _ _ _ _) => true | _ => false end
  | _ => false
  end.

Definition rule_method (recv : ast) (mname : name) (args : list ast) : ast :=
  let orig := AMethod recv mname args in
  match is_const recv with
  | Some rv =>
      if f_fieldcheck fl && f_map fl && closure_field rv mname then orig else
      match all_const args with
      | Some cs =>
          if f_method fl then
            match method_arity rv mname with        (* GetMethod *)
            | Some ar =>
                if method_pure fl rv mname then
                  if arity_matches ar (length cs) then
                    match run_method gapp rv mname cs with Ok v => konst orig v | _ => orig end
                  else orig
                else orig
            | None => orig                (* no such method, or not modelled: see node_unmodelled *)
            end
          else orig
      | None => orig
      end
  | None => orig
  end.

Definition rule_closure (ps : list name) (body : ast) (outer : list name) (recursive : bool) (this : name) : ast :=
  let orig := AClosure ps body outer recursive this in
  if f_closure fl then
    match outer, recursive with
    | [], false => if clo_const_ok ps body then AConst (VClo ps body [] []) else orig
    | _, _ => orig
    end
  else orig.

(* ---------- parser with optimizer + Optimize traversal ---------- *)

(* deep = true : the node is visited by an Optimize pass (children first, then the node rule);
   deep = false: only what the parser does (constant identifiers, let values). *)
Fixpoint opt (deep : bool) (s : list (name * value)) (a : ast) {struct a} : ast :=
  let r := fun (optimized original : ast) => if deep then optimized else original in
  match a with
  | AConst v => AConst v
  | AIdent x => match lookup x s with Some c => AConst c | None => AIdent x end
  | ALet x v b =>
      (* parseLet: the value is optimized while parsing, whatever surrounds the let *)
      match opt true s v with
      | AConst c => opt deep ((x, c) :: s) b
      | v' => ALet x v' (opt deep (sdrop [x] s) b)
      end
  | AIf c t e =>
      let c' := opt deep s c in let t' := opt deep s t in let e' := opt deep s e in
      r (rule_if c' t' e') (AIf c' t' e')
  | ASwitch v cases d =>
      ASwitch (opt deep s v)
              ((fix go (l : list (ast * ast)) : list (ast * ast) :=
                  match l with
                  | [] => []
                  | (cc, cr) :: rest => (opt false s cc, opt deep s cr) :: go rest
                  end) cases)
              (opt deep s d)
  | ATry t c => ATry (opt deep s t) (opt deep s c)
  | AUnary op x => let x' := opt deep s x in r (rule_unary op x') (AUnary op x')
  | AOp op x y =>
      let x' := opt deep s x in let y' := opt deep s y in r (rule_op op x' y') (AOp op x' y')
  | AClosure ps body outer recursive this =>
      let body' := opt deep (sdrop (ps ++ this_names this) s) body in
      let outer' := outer_minus s outer in
      r (rule_closure ps body' outer' recursive this) (AClosure ps body' outer' recursive this)
  | AList l =>
      let l' := (fix go (l : list ast) : list ast :=
                   match l with [] => [] | x :: rest => opt deep s x :: go rest end) l in
      r (rule_list l') (AList l')
  | AIndex l i =>
      let i' := opt deep s i in let l' := opt deep s l in r (rule_index l' i') (AIndex l' i')
  | AMap m =>
      let m' := (fix go (m : list (name * ast)) : list (name * ast) :=
                   match m with [] => [] | (k, x) :: rest => (k, opt deep s x) :: go rest end) m in
      r (rule_map m') (AMap m')
  | AMember m key => let m' := opt deep s m in r (rule_member m' key) (AMember m' key)
  | ACall fn args =>
      let fn' := opt deep s fn in
      let args' := (fix go (l : list ast) : list ast :=
                      match l with [] => [] | x :: rest => opt deep s x :: go rest end) args in
      r (rule_call fn' args') (ACall fn' args')
  | AStatic f args =>
      let args' := (fix go (l : list ast) : list ast :=
                      match l with [] => [] | x :: rest => opt deep s x :: go rest end) args in
      r (rule_static f args') (AStatic f args')
  | AMethod recv mname args =>
      let recv' := opt deep s recv in
      let args' := (fix go (l : list ast) : list ast :=
                      match l with [] => [] | x :: rest => opt deep s x :: go rest end) args in
      r (rule_method recv' mname args') (AMethod recv' mname args')
  end.

(* the AST Parser.Parse returns with the optimizer set, from the AST it returns without one *)
Definition optimize (a : ast) : ast := opt true [] a.

End Opt.

(* ---------- the flags of value.New() (value/value.go), after the repairs ---------- *)

(* after the repair "'*' is not regrouped": no operator is flagged commutative *)
Definition value_ops : list (name * (bool * bool)) :=
  map (fun o => (o, (true, false)))
      [op_or; op_and; op_eq; op_ne; op_in; op_lt; op_gt; op_le; op_ge; op_add; op_sub; op_shl; op_shr;
       op_mul; op_mod; op_div; op_pow].

Definition n_random := S_ [114;97;110;100;111;109]%N.

Definition value_static : list (name * bool) :=
  [(n_throw, false); (n_random, false)] ++
  map (fun f => (f, true))
      [n_string; n_isFloat; n_isInt; n_float; n_int; n_abs; n_sign; n_sqr; n_binAnd; n_binOr;
       n_numbers; n_min; n_max].

Definition value_flags : cfgflags :=
  mkflags value_ops [op_sub; op_not] value_static [] true true true true true true false.

Definition set_comm (ops : list (name * (bool * bool))) (o : name) : list (name * (bool * bool)) :=
  map (fun e => if str_eqb (fst e) o then (fst e, (fst (snd e), true)) else e) ops.

Definition with_ops (fl : cfgflags) (ops : list (name * (bool * bool))) : cfgflags :=
  mkflags ops (f_unary fl) (f_static fl) (f_meth_impure fl) (f_tobool fl) (f_list fl) (f_map fl)
          (f_closure fl) (f_method fl) (f_fieldcheck fl) (f_strict fl).

(* the table before that repair: * flagged commutative (why the flag was removed:
   OptFlagsProofs.regroup_ok_mul_commutative_refuted) *)
Definition value_flags_mul_commutative : cfgflags := with_ops value_flags (set_comm value_ops op_mul).

(* the flags at the pinned commit: =, & and | were flagged commutative as well, and the method rule
   did not look for closure fields *)
Definition pinned_flags : cfgflags :=
  let fl := with_ops value_flags
              (set_comm (set_comm (set_comm (set_comm value_ops op_mul) op_eq) op_and) op_or) in
  mkflags (f_ops fl) (f_unary fl) (f_static fl) (f_meth_impure fl) true true true true true false false.

(* no operator regroups *)
Definition no_regroup (fl : cfgflags) : cfgflags :=
  with_ops fl (map (fun e => (fst e, (fst (snd e), false))) (f_ops fl)).

(* the strict optimizer: folds only to first-order constants *)
Definition strict (fl : cfgflags) : cfgflags :=
  mkflags (f_ops fl) (f_unary fl) (f_static fl) (f_meth_impure fl) (f_tobool fl) (f_list fl) (f_map fl)
          (f_closure fl) (f_method fl) (f_fieldcheck fl) true.

(* the closure-literal rule switched off (a generator without closure handler) *)
Definition no_closure_fold (fl : cfgflags) : cfgflags :=
  mkflags (f_ops fl) (f_unary fl) (f_static fl) (f_meth_impure fl) (f_tobool fl) (f_list fl) (f_map fl)
          false (f_method fl) (f_fieldcheck fl) (f_strict fl).

(* ---------- what the model cannot follow ---------- *)

(* true when the implementation may fold a node that the model leaves alone because the built-in is
   outside the modelled pool: a static function or method without a modelled arity applied to
   constants.  The correspondence run skips such programs. *)
Definition node_unmodelled (a : ast) : bool :=
  match a with
  | AStatic f args =>
      match static_arity f, all_const args with None, Some _ => true | _, _ => false end
  | AMethod (AConst rv) m args =>
      match method_arity rv m, all_const args with None, Some _ => true | _, _ => false end
  | _ => false
  end.
