(* Facts about the exact dyadic floats of Sem/Num.v.
   norm gives the canonical representative of m * 2^e (normal: m odd, or m = 0 and e = 0), mkfl answers exactly
   the normal representable values, and on well-formed values ([good]: finite, normal, representable, or -0)
   fl_add and fl_mul are commutative and associative in the sense the optimizer's regrouping needs:
   whenever c1 op c2, c1 op x and (c1 op x) op c2 are defined, (c1 op c2) op x is defined with the same value,
   signed zeros included.  Values are compared at a common exponent E (an integer m * 2^(e - E)), so
   everything stays in Z. *)
From P2 Require Import Base.Prelude Sem.Num.
Require Import Lia ZArith Bool.
Local Open Scope Z_scope.

(* ---------- powers of two ---------- *)
Lemma pow2_pos k : 0 <= k -> 0 < 2 ^ k.
Proof. intros H. apply Z.pow_pos_nonneg; lia. Qed.

Lemma pow2_split a b : 0 <= a -> 0 <= b -> 2 ^ (a + b) = 2 ^ a * 2 ^ b.
Proof. intros. apply Z.pow_add_r; assumption. Qed.

Lemma odd_ex m : Z.odd m = true -> exists q, m = 2 * q + 1.
Proof. intros H. apply Z.odd_spec in H. destruct H as [q ->]. exists q. reflexivity. Qed.

Lemma even_ex m : Z.even m = true -> exists q, m = 2 * q.
Proof. intros H. apply Z.even_spec in H. destruct H as [q ->]. exists q. reflexivity. Qed.

(* ---------- normal forms ---------- *)
Definition normal (m e : Z) : Prop := (m = 0 /\ e = 0) \/ Z.odd m = true.

(* the integer m * 2^(e - E): the value scaled to the exponent E <= e *)
Definition at_ (E m e : Z) : Z := m * 2 ^ (e - E).

Lemma norm_fuel_spec f : forall m e,
  e <= snd (norm_fuel f m e) /\ m = fst (norm_fuel f m e) * 2 ^ (snd (norm_fuel f m e) - e).
Proof.
  induction f as [|f IH]; intros m e; cbn [norm_fuel].
  - cbn [fst snd]. rewrite Z.sub_diag. cbn. lia.
  - destruct (Z.even m) eqn:Ev.
    + destruct (even_ex m Ev) as [q ->]. replace (2 * q / 2) with q by (rewrite Z.mul_comm, Z.div_mul; lia).
      destruct (IH q (e + 1)) as [L H]. split; [lia|].
      set (m' := fst (norm_fuel f q (e + 1))) in *. set (e' := snd (norm_fuel f q (e + 1))) in *.
      replace (e' - e) with (1 + (e' - (e + 1))) by lia. rewrite pow2_split by lia.
      rewrite H at 1. change (2 ^ 1) with 2. ring.
    + cbn [fst snd]. rewrite Z.sub_diag. cbn. lia.
Qed.

Lemma norm_fuel_odd f : forall m e, m <> 0 -> Z.abs m < 2 ^ Z.of_nat f ->
  Z.odd (fst (norm_fuel f m e)) = true.
Proof.
  induction f as [|f IH]; intros m e Hm Hb.
  - cbn in Hb. lia.
  - cbn [norm_fuel]. destruct (Z.even m) eqn:Ev.
    + destruct (even_ex m Ev) as [q ->]. replace (2 * q / 2) with q by (rewrite Z.mul_comm, Z.div_mul; lia).
      apply IH; [lia|]. rewrite Nat2Z.inj_succ, Z.pow_succ_r in Hb by lia. lia.
    + cbn [fst]. rewrite <- Z.negb_even, Ev. reflexivity.
Qed.

Lemma norm_normal m e : normal (fst (norm m e)) (snd (norm m e)).
Proof.
  unfold norm. destruct (Z.eqb_spec m 0) as [->|Hm]; [left; split; reflexivity|].
  right. apply norm_fuel_odd; [exact Hm|].
  rewrite Nat2Z.inj_add, Z2Nat.id by apply Z.log2_nonneg.
  change (Z.of_nat 1) with 1. apply Z.log2_spec. lia.
Qed.

(* norm keeps the value; a non-zero mantissa keeps its exponent bound *)
Lemma norm_at E m e : E <= e ->
  at_ E (fst (norm m e)) (snd (norm m e)) = at_ E m e /\ (m <> 0 -> E <= snd (norm m e) /\ fst (norm m e) <> 0).
Proof.
  intros L. unfold norm. destruct (Z.eqb_spec m 0) as [->|Hm].
  - cbn [fst snd]. unfold at_. split; [ring|]. intros H. contradiction.
  - set (f := (Z.to_nat (Z.log2 (Z.abs m)) + 1)%nat). destruct (norm_fuel_spec f m e) as [L' H].
    set (m' := fst (norm_fuel f m e)) in *. set (e' := snd (norm_fuel f m e)) in *. split.
    + clearbody m' e'. unfold at_. rewrite H. replace (e' - E) with ((e' - e) + (e - E)) by lia.
      rewrite pow2_split by lia. ring.
    + intros _. split; [lia|]. intros Z0. rewrite Z0 in H. lia.
Qed.

Lemma norm_idem m e : normal m e -> norm m e = (m, e).
Proof.
  intros [[-> ->]|Ho]; [reflexivity|].
  unfold norm. destruct (Z.eqb_spec m 0) as [->|Hm]; [discriminate|].
  rewrite Nat.add_1_r. cbn [norm_fuel]. rewrite <- Z.negb_odd, Ho. reflexivity.
Qed.

(* a value has one normal form *)
Lemma normal_unique E m1 e1 m2 e2 : normal m1 e1 -> normal m2 e2 ->
  (m1 <> 0 -> E <= e1) -> (m2 <> 0 -> E <= e2) ->
  at_ E m1 e1 = at_ E m2 e2 -> m1 = m2 /\ e1 = e2.
Proof.
  intros N1 N2 L1 L2 H. unfold at_ in H.
  destruct (Z.eq_dec m1 0) as [Z1|NZ1]; destruct (Z.eq_dec m2 0) as [Z2|NZ2].
  - subst. destruct N1 as [[_ ->]|O]; [|discriminate]. destruct N2 as [[_ ->]|O]; [|discriminate]. auto.
  - exfalso. subst m1. specialize (L2 NZ2). pose proof (pow2_pos (e2 - E)). nia.
  - exfalso. subst m2. specialize (L1 NZ1). pose proof (pow2_pos (e1 - E)). nia.
  - specialize (L1 NZ1). specialize (L2 NZ2).
    destruct N1 as [[? _]|O1]; [contradiction|]. destruct N2 as [[? _]|O2]; [contradiction|].
    destruct (odd_ex m1 O1) as [q1 Q1]. destruct (odd_ex m2 O2) as [q2 Q2].
    destruct (Z.lt_trichotomy e1 e2) as [Lt|[Eq|Gt]].
    + exfalso. replace (e2 - E) with ((e1 - E) + (1 + (e2 - e1 - 1))) in H by lia.
      rewrite !pow2_split in H by lia. change (2 ^ 1) with 2 in H.
      pose proof (pow2_pos (e1 - E)). assert (m1 = m2 * (2 * 2 ^ (e2 - e1 - 1))) by nia.
      set (p := m2 * 2 ^ (e2 - e1 - 1)) in *. assert (m1 = 2 * p) by (unfold p; lia). lia.
    + subst e2. pose proof (pow2_pos (e1 - E)). split; [nia|reflexivity].
    + exfalso. replace (e1 - E) with ((e2 - E) + (1 + (e1 - e2 - 1))) in H by lia.
      rewrite !pow2_split in H by lia. change (2 ^ 1) with 2 in H.
      pose proof (pow2_pos (e2 - E)). assert (m2 = m1 * (2 * 2 ^ (e1 - e2 - 1))) by nia.
      set (p := m1 * 2 ^ (e1 - e2 - 1)) in *. assert (m2 = 2 * p) by (unfold p; lia). lia.
Qed.

(* ---------- mkfl ---------- *)
Lemma mkfl_some m e r : mkfl m e = Some r ->
  r = FFin (fst (norm m e)) (snd (norm m e)) /\ representable (fst (norm m e)) (snd (norm m e)) = true.
Proof.
  unfold mkfl. destruct (norm m e) as [m' e']. cbn [fst snd].
  destruct (representable m' e'); [|discriminate]. intros H. inversion H. auto.
Qed.

Lemma mkfl_complete m e : representable (fst (norm m e)) (snd (norm m e)) = true ->
  mkfl m e = Some (FFin (fst (norm m e)) (snd (norm m e))).
Proof. unfold mkfl. destruct (norm m e) as [m' e']. cbn [fst snd]. intros ->. reflexivity. Qed.

(* ---------- well-formed values ---------- *)
Definition good (a : fl) : Prop :=
  match a with
  | FFin m e => normal m e /\ representable m e = true
  | FNegZero => True
  | _ => False
  end.

Lemma mkfl_good m e r : mkfl m e = Some r -> good r.
Proof. intros H. destruct (mkfl_some m e r H) as [-> R]. split; [apply norm_normal|exact R]. Qed.

Lemma good_mkfl m e : good (FFin m e) -> mkfl m e = Some (FFin m e).
Proof.
  intros [N R]. pose proof (norm_idem m e N) as E. rewrite <- (f_equal fst E) at 2. rewrite <- (f_equal snd E) at 3.
  apply mkfl_complete. rewrite E. exact R.
Qed.

Lemma good_finite a : good a -> is_finite a = true.
Proof. destruct a; cbn; tauto. Qed.

Definition mant (a : fl) : Z := fst (fin_me a).
Definition expo (a : fl) : Z := snd (fin_me a).
Definition atv (E : Z) (a : fl) : Z := at_ E (mant a) (expo a).
(* E is a lower bound of the exponent of a non-zero value *)
Definition okE (E : Z) (a : fl) : Prop := is_zero a = false -> E <= expo a.

Lemma good_zero_atv E a : good a -> is_zero a = true -> atv E a = 0.
Proof.
  destruct a as [m e| | |]; cbn [good is_zero]; try tauto; intros _ H; unfold atv, at_, mant, expo; cbn [fin_me fst snd].
  all: try (apply Z.eqb_eq in H; subst); ring.
Qed.

Lemma good_zero_cases a : good a -> is_zero a = true -> a = fl_zero \/ a = FNegZero.
Proof.
  destruct a as [m e| | |]; cbn; try tauto; intros [N _] H.
  apply Z.eqb_eq in H. subst m. destruct N as [[_ ->]|O]; [left; reflexivity|discriminate].
Qed.

Lemma good_nonzero a : good a -> is_zero a = false ->
  exists m e, a = FFin m e /\ m <> 0 /\ normal m e /\ representable m e = true.
Proof.
  destruct a as [m e| | |]; cbn; try tauto; try discriminate. intros [N R] H.
  exists m, e. apply Z.eqb_neq in H. auto.
Qed.

Lemma nonzero_atv E a : good a -> is_zero a = false -> okE E a -> atv E a <> 0.
Proof.
  intros G Z O. destruct (good_nonzero a G Z) as (m & e & -> & Hm & _). specialize (O Z).
  unfold atv, at_, mant, expo in *. cbn [fin_me fst snd] in *. pose proof (pow2_pos (e - E)). nia.
Qed.

(* a well-formed value is determined by its value and, at zero, its sign *)
Lemma good_unique E a b : good a -> good b -> okE E a -> okE E b ->
  atv E a = atv E b -> is_negzero a = is_negzero b -> a = b.
Proof.
  intros Ga Gb Oa Ob H S.
  destruct (is_zero a) eqn:Za; destruct (is_zero b) eqn:Zb.
  - destruct (good_zero_cases a Ga Za) as [->| ->]; destruct (good_zero_cases b Gb Zb) as [->| ->];
      try reflexivity; discriminate.
  - exfalso. rewrite (good_zero_atv E a Ga Za) in H. symmetry in H. exact (nonzero_atv E b Gb Zb Ob H).
  - exfalso. rewrite (good_zero_atv E b Gb Zb) in H. exact (nonzero_atv E a Ga Za Oa H).
  - destruct (good_nonzero a Ga Za) as (m1 & e1 & -> & H1 & N1 & _).
    destruct (good_nonzero b Gb Zb) as (m2 & e2 & -> & H2 & N2 & _).
    specialize (Oa Za). specialize (Ob Zb). unfold atv, mant, expo in *. cbn [fin_me fst snd] in *.
    destruct (normal_unique E m1 e1 m2 e2 N1 N2 (fun _ => Oa) (fun _ => Ob) H) as [-> ->]. reflexivity.
Qed.

(* ---------- addition ---------- *)
Lemma add_me_at E m1 e1 m2 e2 : E <= e1 -> E <= e2 ->
  E <= snd (add_me (m1, e1) (m2, e2)) /\
  at_ E (fst (add_me (m1, e1) (m2, e2))) (snd (add_me (m1, e1) (m2, e2))) = at_ E m1 e1 + at_ E m2 e2.
Proof.
  intros L1 L2. unfold add_me. cbn [fst snd]. set (e := Z.min e1 e2).
  assert (E <= e /\ e <= e1 /\ e <= e2) as (Le & Le1 & Le2) by (unfold e; lia).
  split; [exact Le|]. unfold at_.
  replace (e1 - E) with ((e1 - e) + (e - E)) by lia. replace (e2 - E) with ((e2 - e) + (e - E)) by lia.
  rewrite !pow2_split by lia. ring.
Qed.

Lemma fl_add_comm a b : fl_add a b = fl_add b a.
Proof.
  unfold fl_add. rewrite (andb_comm (is_finite a)). destruct (is_finite b && is_finite a); [|reflexivity].
  rewrite (andb_comm (is_zero a)), (andb_comm (is_negzero a)).
  destruct (is_zero a) eqn:Za; destruct (is_zero b) eqn:Zb; cbn [andb]; try reflexivity.
  destruct (fin_me a) as [m1 e1]. destruct (fin_me b) as [m2 e2]. unfold add_me.
  rewrite (Z.min_comm e2 e1), (Z.add_comm (m2 * _)). reflexivity.
Qed.

Lemma fl_add_spec a b r : good a -> good b -> fl_add a b = Some r ->
  good r /\ is_negzero r = is_negzero a && is_negzero b /\
  forall E, okE E a -> okE E b -> okE E r /\ atv E r = atv E a + atv E b.
Proof.
  intros Ga Gb H. unfold fl_add in H. rewrite (good_finite a Ga), (good_finite b Gb) in H. cbn [andb] in H.
  destruct (is_zero a) eqn:Za; destruct (is_zero b) eqn:Zb; cbn [andb] in H.
  - (* both zero *)
    assert (Hr : r = (if is_negzero a && is_negzero b then FNegZero else fl_zero)) by (inversion H; reflexivity).
    clear H. split; [|split].
    + rewrite Hr. destruct (is_negzero a && is_negzero b); cbn; [exact I|]. split; [left; auto|reflexivity].
    + rewrite Hr. destruct (is_negzero a && is_negzero b); reflexivity.
    + intros E _ _. split.
      * intros Zr. exfalso. rewrite Hr in Zr. destruct (is_negzero a && is_negzero b); discriminate.
      * rewrite (good_zero_atv E a Ga Za), (good_zero_atv E b Gb Zb).
        rewrite Hr. destruct (is_negzero a && is_negzero b); unfold atv, at_, mant, expo; cbn; ring.
  - (* a zero *)
    inversion H. subst r. clear H. split; [exact Gb|]. split.
    + destruct (good_nonzero b Gb Zb) as (m & e & -> & _). cbn. rewrite andb_false_r. reflexivity.
    + intros E _ Ob. split; [exact Ob|]. rewrite (good_zero_atv E a Ga Za). ring.
  - (* b zero *)
    inversion H. subst r. clear H. split; [exact Ga|]. split.
    + destruct (good_nonzero a Ga Za) as (m & e & -> & _). reflexivity.
    + intros E Oa _. split; [exact Oa|]. rewrite (good_zero_atv E b Gb Zb). ring.
  - (* both non-zero *)
    destruct (good_nonzero a Ga Za) as (m1 & e1 & -> & H1 & _).
    destruct (good_nonzero b Gb Zb) as (m2 & e2 & -> & H2 & _).
    cbn [fin_me] in H. destruct (add_me (m1, e1) (m2, e2)) as [m e] eqn:Eadd.
    pose proof (mkfl_good m e r H) as Gr. destruct (mkfl_some m e r H) as [Er _].
    split; [exact Gr|]. split; [rewrite Er; reflexivity|].
    intros E Oa Ob. specialize (Oa Za). specialize (Ob Zb). unfold expo in Oa, Ob. cbn [fin_me snd] in Oa, Ob.
    destruct (add_me_at E m1 e1 m2 e2 Oa Ob) as [Le Hat]. rewrite Eadd in Le, Hat. cbn [fst snd] in Le, Hat.
    destruct (norm_at E m e Le) as [Hn Hnz]. rewrite Er. unfold okE, atv, mant, expo. cbn [fin_me fst snd is_zero]. split.
    + intros Zr. apply Z.eqb_neq in Zr.
      destruct (Z.eq_dec m 0) as [->|Hm]; [exfalso; apply Zr; reflexivity|]. apply Hnz. exact Hm.
    + rewrite Hn. exact Hat.
Qed.

(* the expected result IS the result: both operands non-zero *)
Lemma fl_add_complete E a b v : good a -> good b -> good v ->
  is_zero a = false -> is_zero b = false -> is_negzero v = false ->
  okE E a -> okE E b -> okE E v -> atv E v = atv E a + atv E b -> fl_add a b = Some v.
Proof.
  intros Ga Gb Gv Za Zb Nv Oa Ob Ov H.
  destruct (good_nonzero a Ga Za) as (m1 & e1 & -> & H1 & _).
  destruct (good_nonzero b Gb Zb) as (m2 & e2 & -> & H2 & _).
  specialize (Oa Za). specialize (Ob Zb). unfold expo in Oa, Ob. cbn [fin_me snd] in Oa, Ob.
  unfold fl_add. cbn [is_finite is_zero andb]. apply Z.eqb_neq in H1. apply Z.eqb_neq in H2. rewrite H1, H2. cbn [andb fin_me].
  destruct (add_me (m1, e1) (m2, e2)) as [m e] eqn:Eadd.
  destruct (add_me_at E m1 e1 m2 e2 Oa Ob) as [Le Hat]. rewrite Eadd in Le, Hat. cbn [fst snd] in Le, Hat.
  destruct (norm_at E m e Le) as [Hn Hnz].
  destruct v as [mv ev| | |]; cbn in Gv; try tauto; [|discriminate].
  destruct Gv as [Nv' Rv].
  assert (U : fst (norm m e) = mv /\ snd (norm m e) = ev).
  { apply (normal_unique E); [apply norm_normal|exact Nv'| | |].
    - intros Hm. destruct (Z.eq_dec m 0) as [->|Hm0]; [exfalso; apply Hm; reflexivity|]. apply Hnz. exact Hm0.
    - intros Hm. apply Ov. cbn. apply Z.eqb_neq. exact Hm.
    - rewrite Hn, Hat. unfold atv, mant, expo in H. cbn [fin_me fst snd] in H. symmetry. exact H. }
  destruct U as [U1 U2]. rewrite <- U1, <- U2. apply mkfl_complete. rewrite U1, U2. exact Rv.
Qed.

(* what the optimizer's regrouping of a commutative-flagged '+' needs *)
Theorem fl_add_regroup c1 c2 x c y v : good c1 -> good c2 -> good x ->
  fl_add c1 c2 = Some c -> fl_add c1 x = Some y -> fl_add y c2 = Some v -> fl_add c x = Some v.
Proof.
  intros G1 G2 Gx Hc Hy Hv.
  destruct (fl_add_spec c1 c2 c G1 G2 Hc) as (Gc & Nc & Sc).
  destruct (fl_add_spec c1 x y G1 Gx Hy) as (Gy & Ny & Sy).
  destruct (fl_add_spec y c2 v Gy G2 Hv) as (Gv & Nv & Sv).
  set (E := Z.min (Z.min (expo c1) (expo c2)) (expo x)).
  assert (O1 : okE E c1) by (intros _; unfold E; lia).
  assert (O2 : okE E c2) by (intros _; unfold E; lia).
  assert (Ox : okE E x) by (intros _; unfold E; lia).
  destruct (Sc E O1 O2) as [Oc Ac]. destruct (Sy E O1 Ox) as [Oy Ay]. destruct (Sv E Oy O2) as [Ov Av].
  assert (Aval : atv E v = atv E c + atv E x) by lia.
  assert (Nval : is_negzero v = is_negzero c && is_negzero x).
  { rewrite Nv, Ny, Nc. destruct (is_negzero c1), (is_negzero x), (is_negzero c2); reflexivity. }
  destruct (is_zero c) eqn:Zc; destruct (is_zero x) eqn:Zx.
  - (* both zero: the result is the zero with the right sign *)
    unfold fl_add. rewrite (good_finite c Gc), (good_finite x Gx), Zc, Zx. cbn [andb]. f_equal.
    rewrite (good_zero_atv E c Gc Zc), (good_zero_atv E x Gx Zx) in Aval.
    assert (Zv : is_zero v = true).
    { destruct (is_zero v) eqn:Z; [reflexivity|]. exfalso. exact (nonzero_atv E v Gv Z Ov Aval). }
    destruct (good_zero_cases v Gv Zv) as [->| ->]; cbn in Nval; rewrite <- Nval; reflexivity.
  - (* c zero: the result is x *)
    unfold fl_add. rewrite (good_finite c Gc), (good_finite x Gx), Zc, Zx. cbn [andb]. f_equal.
    rewrite (good_zero_atv E c Gc Zc) in Aval. symmetry. apply (good_unique E v x Gv Gx Ov Ox); [lia|].
    rewrite Nval. destruct (good_nonzero x Gx Zx) as (m & e & -> & _). cbn. apply andb_false_r.
  - (* x zero: the result is c *)
    unfold fl_add. rewrite (good_finite c Gc), (good_finite x Gx), Zc, Zx. cbn [andb]. f_equal.
    rewrite (good_zero_atv E x Gx Zx) in Aval. symmetry. apply (good_unique E v c Gv Gc Ov Oc); [lia|].
    rewrite Nval. destruct (good_nonzero c Gc Zc) as (m & e & -> & _). reflexivity.
  - apply (fl_add_complete E); auto.
    rewrite Nval. destruct (good_nonzero x Gx Zx) as (m & e & -> & _). cbn. apply andb_false_r.
Qed.

(* ---------- multiplication ---------- *)
Lemma fl_mul_comm a b : fl_mul a b = fl_mul b a.
Proof.
  unfold fl_mul. rewrite (andb_comm (is_finite a)). destruct (is_finite b && is_finite a); [|reflexivity].
  rewrite (orb_comm (is_zero a)), (xorb_comm (sign_neg a)). destruct (is_zero b || is_zero a); [reflexivity|].
  destruct (fin_me a) as [m1 e1]. destruct (fin_me b) as [m2 e2]. rewrite (Z.mul_comm m2), (Z.add_comm e2). reflexivity.
Qed.

Lemma sign_mul m1 m2 : m1 <> 0 -> m2 <> 0 -> (m1 * m2 <? 0) = xorb (m1 <? 0) (m2 <? 0).
Proof.
  intros H1 H2. destruct (Z.ltb_spec (m1 * m2) 0); destruct (Z.ltb_spec m1 0); destruct (Z.ltb_spec m2 0);
    cbn; try reflexivity; exfalso; nia.
Qed.

Lemma fl_mul_spec a b r : good a -> good b -> fl_mul a b = Some r ->
  good r /\ sign_neg r = xorb (sign_neg a) (sign_neg b) /\ is_zero r = is_zero a || is_zero b /\
  forall Ea Eb, okE Ea a -> okE Eb b -> okE (Ea + Eb) r /\ atv (Ea + Eb) r = atv Ea a * atv Eb b.
Proof.
  intros Ga Gb H. unfold fl_mul in H. rewrite (good_finite a Ga), (good_finite b Gb) in H. cbn [andb] in H.
  destruct (is_zero a || is_zero b) eqn:Zab.
  - assert (Hr : r = (if xorb (sign_neg a) (sign_neg b) then FNegZero else fl_zero)) by (inversion H; reflexivity).
    clear H. split; [|split; [|split]].
    + rewrite Hr. destruct (xorb (sign_neg a) (sign_neg b)); cbn; [exact I|]. split; [left; auto|reflexivity].
    + rewrite Hr. destruct (xorb (sign_neg a) (sign_neg b)); reflexivity.
    + rewrite Hr. destruct (xorb (sign_neg a) (sign_neg b)); reflexivity.
    + intros Ea Eb _ _. split.
      * intros Zr. exfalso. rewrite Hr in Zr. destruct (xorb (sign_neg a) (sign_neg b)); discriminate.
      * assert (atv (Ea + Eb) r = 0) as -> by (rewrite Hr; destruct (xorb (sign_neg a) (sign_neg b)); unfold atv, at_, mant, expo; cbn; ring).
        apply orb_prop in Zab. destruct Zab as [Z|Z].
        -- rewrite (good_zero_atv Ea a Ga Z). ring.
        -- rewrite (good_zero_atv Eb b Gb Z). ring.
  - apply orb_false_elim in Zab. destruct Zab as [Za Zb].
    destruct (good_nonzero a Ga Za) as (m1 & e1 & -> & H1 & _).
    destruct (good_nonzero b Gb Zb) as (m2 & e2 & -> & H2 & _).
    cbn [fin_me] in H. pose proof (mkfl_good _ _ r H) as Gr. destruct (mkfl_some _ _ r H) as [Er _].
    assert (Hm : m1 * m2 <> 0) by nia.
    assert (Hfacts : forall E, E <= e1 + e2 ->
              at_ E (fst (norm (m1 * m2) (e1 + e2))) (snd (norm (m1 * m2) (e1 + e2))) = at_ E (m1 * m2) (e1 + e2) /\
              E <= snd (norm (m1 * m2) (e1 + e2)) /\ fst (norm (m1 * m2) (e1 + e2)) <> 0).
    { intros E L. destruct (norm_at E (m1 * m2) (e1 + e2) L) as [A B]. destruct (B Hm). auto. }
    split; [exact Gr|]. split; [|split].
    + rewrite Er. cbn [sign_neg]. rewrite <- sign_mul by assumption.
      destruct (Hfacts (e1 + e2) (Z.le_refl _)) as (A & L & NZ). unfold at_ in A.
      set (m' := fst (norm (m1 * m2) (e1 + e2))) in *. set (e' := snd (norm (m1 * m2) (e1 + e2))) in *.
      rewrite Z.sub_diag in A. change (2 ^ 0) with 1 in A. pose proof (pow2_pos (e' - (e1 + e2))).
      destruct (Z.ltb_spec m' 0); destruct (Z.ltb_spec (m1 * m2) 0); try reflexivity; exfalso; nia.
    + rewrite Er. cbn [is_zero orb]. apply Z.eqb_neq. destruct (Hfacts (e1 + e2) (Z.le_refl _)) as (_ & _ & NZ). exact NZ.
    + intros Ea Eb Oa Ob. specialize (Oa Za). specialize (Ob Zb). unfold expo in Oa, Ob. cbn [fin_me snd] in Oa, Ob.
      destruct (Hfacts (Ea + Eb)) as (A & L & NZ); [lia|]. rewrite Er. unfold okE, atv, mant, expo. cbn [fin_me fst snd]. split.
      * intros _. exact L.
      * rewrite A. unfold at_. replace (e1 + e2 - (Ea + Eb)) with ((e1 - Ea) + (e2 - Eb)) by lia.
        rewrite pow2_split by lia. ring.
Qed.

Lemma fl_mul_complete E Ea Eb a b v : good a -> good b -> good v ->
  is_zero a = false -> is_zero b = false -> is_zero v = false ->
  okE Ea a -> okE Eb b -> okE E v -> E = Ea + Eb -> atv E v = atv Ea a * atv Eb b -> fl_mul a b = Some v.
Proof.
  intros Ga Gb Gv Za Zb Zv Oa Ob Ov -> H.
  destruct (good_nonzero a Ga Za) as (m1 & e1 & -> & H1 & _).
  destruct (good_nonzero b Gb Zb) as (m2 & e2 & -> & H2 & _).
  destruct (good_nonzero v Gv Zv) as (mv & ev & -> & Hv & Nv & Rv).
  specialize (Oa Za). specialize (Ob Zb). specialize (Ov Zv). unfold expo in Oa, Ob, Ov. cbn [fin_me snd] in Oa, Ob, Ov.
  unfold fl_mul. cbn [is_finite is_zero andb]. apply Z.eqb_neq in H1. apply Z.eqb_neq in H2. rewrite H1, H2. cbn [orb fin_me].
  apply Z.eqb_neq in H1. apply Z.eqb_neq in H2.
  assert (L : Ea + Eb <= e1 + e2) by lia.
  destruct (norm_at (Ea + Eb) (m1 * m2) (e1 + e2) L) as [A B]. destruct B as [Le NZ]; [nia|].
  assert (U : fst (norm (m1 * m2) (e1 + e2)) = mv /\ snd (norm (m1 * m2) (e1 + e2)) = ev).
  { apply (normal_unique (Ea + Eb)); [apply norm_normal|exact Nv|auto|auto|].
    rewrite A. unfold atv, mant, expo in H. cbn [fin_me fst snd] in H. rewrite H. unfold at_.
    replace (e1 + e2 - (Ea + Eb)) with ((e1 - Ea) + (e2 - Eb)) by lia. rewrite pow2_split by lia. ring. }
  destruct U as [U1 U2]. rewrite <- U1, <- U2. apply mkfl_complete. rewrite U1, U2. exact Rv.
Qed.

(* what the optimizer's regrouping of a commutative-flagged '*' needs *)
Theorem fl_mul_regroup c1 c2 x c y v : good c1 -> good c2 -> good x ->
  fl_mul c1 c2 = Some c -> fl_mul c1 x = Some y -> fl_mul y c2 = Some v -> fl_mul c x = Some v.
Proof.
  intros G1 G2 Gx Hc Hy Hv.
  destruct (fl_mul_spec c1 c2 c G1 G2 Hc) as (Gc & Sgc & Zc & Sc).
  destruct (fl_mul_spec c1 x y G1 Gx Hy) as (Gy & Sgy & Zy & Sy).
  destruct (fl_mul_spec y c2 v Gy G2 Hv) as (Gv & Sgv & Zv & Sv).
  assert (Sg : sign_neg v = xorb (sign_neg c) (sign_neg x)).
  { rewrite Sgv, Sgy, Sgc. destruct (sign_neg c1), (sign_neg x), (sign_neg c2); reflexivity. }
  assert (Zz : is_zero v = is_zero c || is_zero x).
  { rewrite Zv, Zy, Zc. destruct (is_zero c1), (is_zero x), (is_zero c2); reflexivity. }
  destruct (is_zero c || is_zero x) eqn:Zcx.
  - unfold fl_mul. rewrite (good_finite c Gc), (good_finite x Gx), Zcx. cbn [andb]. f_equal.
    destruct (good_zero_cases v Gv Zz) as [->| ->]; cbn in Sg; rewrite <- Sg; reflexivity.
  - apply orb_false_elim in Zcx. destruct Zcx as [Zc' Zx'].
    assert (O1 : okE (expo c1) c1) by (intros _; lia).
    assert (O2 : okE (expo c2) c2) by (intros _; lia).
    assert (Ox : okE (expo x) x) by (intros _; lia).
    destruct (Sc _ _ O1 O2) as [Oc Ac]. destruct (Sy _ _ O1 Ox) as [Oy Ay]. destruct (Sv _ _ Oy O2) as [Ov Av].
    apply (fl_mul_complete (expo c1 + expo x + expo c2) (expo c1 + expo c2) (expo x)); auto; [lia|].
    rewrite Av, Ay, Ac. ring.
Qed.

(* the results of the two operations are well-formed again *)
Lemma fl_add_good a b r : good a -> good b -> fl_add a b = Some r -> good r.
Proof. intros Ga Gb H. apply (fl_add_spec a b r Ga Gb H). Qed.

Lemma fl_mul_good a b r : good a -> good b -> fl_mul a b = Some r -> good r.
Proof. intros Ga Gb H. apply (fl_mul_spec a b r Ga Gb H). Qed.
