(* Laws of switch and order (models in Sem/OrderSwitch.v) with respect to = (veq) and < (vless, lt_spec). *)
From P2 Require Import Base.Prelude Base.PreludeProofs Sem.Num Sem.Syntax Sem.Ops Sem.Lib Sem.OpsSpec Sem.OpsLaws
  Sem.OrderSwitch Sem.Ref.
From Coq Require Import Permutation Sorted.
Require Import Lia ZifyBool.

(* ================================================================= switch *)

(* case number n + |l1| is taken: its constant equals x and every earlier one is comparable and different *)
Lemma switch_model_case : forall x cs n k, (k <> 0)%N -> (0 < n)%N ->
  (switch_model x cs n = Ok k <->
   exists l1 c l2, cs = l1 ++ c :: l2 /\ k = (n + N.of_nat (length l1))%N /\
                   veq x c = Ok true /\ Forall (fun z => veq x z = Ok false) l1).
Proof.
  intros x cs. induction cs as [|c cs IH]; intros n k Hk Hn; cbn [switch_model]; unfold equal_fg.
  - split; [intros H; inversion H; congruence|]. intros (l1 & c & l2 & E & _). destruct l1; discriminate.
  - destruct (veq x c) as [[|]| | | |] eqn:E.
    + split.
      * intros H. inversion H; subst. exists [], c, cs. cbn. repeat split; [lia|exact E|constructor].
      * intros (l1 & c' & l2 & El & -> & Hc & Hl). destruct l1 as [|z l1]; cbn in El; inversion El; subst.
        -- cbn. f_equal. lia.
        -- inversion Hl; subst. congruence.
    + rewrite (IH (N.succ n) k Hk) by lia. split.
      * intros (l1 & c' & l2 & -> & -> & Hc & Hl). exists (c :: l1), c', l2. cbn [length app].
        repeat split; [lia|exact Hc|constructor; assumption].
      * intros (l1 & c' & l2 & El & -> & Hc & Hl). destruct l1 as [|z l1]; cbn in El; inversion El; subst; [congruence|].
        inversion Hl; subst. exists l1, c', l2. cbn [length]. repeat split; [lia|exact Hc|assumption].
    + split; [discriminate|]. intros (l1 & c' & l2 & El & _ & Hc & Hl).
      destruct l1 as [|z l1]; cbn in El; inversion El; subst; [congruence|inversion Hl; subst; congruence].
    + split; [discriminate|]. intros (l1 & c' & l2 & El & _ & Hc & Hl).
      destruct l1 as [|z l1]; cbn in El; inversion El; subst; [congruence|inversion Hl; subst; congruence].
    + split; [discriminate|]. intros (l1 & c' & l2 & El & _ & Hc & Hl).
      destruct l1 as [|z l1]; cbn in El; inversion El; subst; [congruence|inversion Hl; subst; congruence].
    + split; [discriminate|]. intros (l1 & c' & l2 & El & _ & Hc & Hl).
      destruct l1 as [|z l1]; cbn in El; inversion El; subst; [congruence|inversion Hl; subst; congruence].
Qed.

(* the default is taken: every constant is comparable and different *)
Lemma switch_model_default : forall x cs n, (0 < n)%N ->
  (switch_model x cs n = Ok 0%N <-> Forall (fun z => veq x z = Ok false) cs).
Proof.
  intros x cs. induction cs as [|c cs IH]; intros n Hn; cbn [switch_model]; unfold equal_fg.
  - split; [constructor|reflexivity].
  - destruct (veq x c) as [[|]| | | |] eqn:E;
      try (split; [intros H; inversion H; lia || discriminate|intros H; inversion H; congruence]).
    rewrite (IH (N.succ n)) by lia. split; [intros H; constructor; assumption|intros H; inversion H; assumption].
Qed.

(* an error: the first constant that cannot be compared comes before any equal one *)
Lemma switch_model_err : forall x cs n,
  (is_err (switch_model x cs n) = true <->
   exists l1 c l2, cs = l1 ++ c :: l2 /\ is_err (veq x c) = true /\ Forall (fun z => veq x z = Ok false) l1).
Proof.
  intros x cs. induction cs as [|c cs IH]; intros n; cbn [switch_model]; unfold equal_fg.
  - split; [discriminate|]. intros (l1 & c & l2 & E & _). destruct l1; discriminate.
  - destruct (veq x c) as [[|]| | | |] eqn:E;
      try (split; [intros _; exists [], c, cs; repeat split; [rewrite E; reflexivity|constructor]|reflexivity]);
      try (split; [discriminate|]; intros (l1 & c' & l2 & El & Hc & Hl);
           destruct l1 as [|z l1]; cbn in El; inversion El; subst;
           [rewrite E in Hc; discriminate|inversion Hl; subst; congruence]).
    rewrite IH. split.
    + intros (l1 & c' & l2 & -> & Hc & Hl). exists (c :: l1), c', l2. repeat split; [exact Hc|constructor; assumption].
    + intros (l1 & c' & l2 & El & Hc & Hl). destruct l1 as [|z l1]; cbn in El; inversion El; subst.
      * rewrite E in Hc. discriminate.
      * inversion Hl; subst. exists l1, c', l2. auto.
Qed.

(* one case: switch agrees with = *)
Lemma switch_one_case : forall x c,
  switch_model x [c] 1 = match veq x c with
                         | Ok true => Ok 1%N | Ok false => Ok 0%N
                         | Err t => Err t | Panic => Panic | OOF => OOF | Unsup => Unsup
                         end.
Proof. intros x c. cbn [switch_model]. unfold equal_fg. destruct (veq x c) as [[|]| | | |]; reflexivity. Qed.

(* ... hence `switch a case b` and `switch b case a` take the same branch *)
Lemma switch_sym : forall a b, wf_keys a = true -> wf_keys b = true ->
  switch_model a [b] 1 = switch_model b [a] 1.
Proof. intros a b Ha Hb. rewrite !switch_one_case, (veq_sym a b Ha Hb). reflexivity. Qed.

(* the value-level loop is the index-level loop *)
Lemma switch_pick_model : forall x crs d n, (0 < n)%N ->
  switch_pick x crs d =
  match switch_model x (map fst crs) n with
  | Ok k => if (k =? 0)%N then Ok d else Ok (nth (N.to_nat (k - n)) (map snd crs) d)
  | Err t => Err t | Panic => Panic | OOF => OOF | Unsup => Unsup
  end.
Proof.
  intros x crs d. induction crs as [|[c r] crs IH]; intros n Hn; cbn [switch_pick switch_model map fst snd]; [reflexivity|].
  destruct (equal_fg x c) as [[|]| | | |]; try reflexivity.
  - replace (n =? 0)%N with false by lia. rewrite N.sub_diag. reflexivity.
  - rewrite (IH (N.succ n)) by lia. destruct (switch_model x (map fst crs) (N.succ n)) as [k| | | |] eqn:E; try reflexivity.
    destruct (k =? 0)%N eqn:K; [reflexivity|].
    assert (N.succ n <= k)%N.
    { apply N.eqb_neq in K. apply (switch_model_case x (map fst crs) (N.succ n) k K) in E; [|lia].
      destruct E as (l1 & _ & _ & _ & -> & _). lia. }
    replace (N.to_nat (k - n)) with (S (N.to_nat (k - N.succ n))) by lia. reflexivity.
Qed.

(* the reference semantics of switch over constants is this loop *)
Lemma ref_switch_consts : forall known f env x crs d,
  eval known (S (S f)) env (ASwitch (AConst x) (map (fun cr => (AConst (fst cr), AConst (snd cr))) crs) (AConst d))
  = switch_pick x crs d.
Proof.
  intros known f env x crs d. cbn [eval bind]. induction crs as [|[c r] crs IH]; cbn [map fst snd switch_pick]; [reflexivity|].
  cbn [eval bind]. destruct (equal_fg x c) as [[|]| | | |]; try reflexivity. exact IH.
Qed.

(* ================================================================= order: the insertion sort *)

Lemma SS_app : forall (R : value -> value -> Prop) a b,
  StronglySorted R (a ++ b) <->
  StronglySorted R a /\ StronglySorted R b /\ (forall x y, In x a -> In y b -> R x y).
Proof.
  intros R a b. induction a as [|h a IH]; cbn [app].
  - split; [intros H; repeat split; [constructor|exact H|intros x y []]|intros (_ & H & _); exact H].
  - split.
    + intros H. inversion H as [|? ? Hs Hf]; subst. apply IH in Hs. destruct Hs as (Ha & Hb & Hc).
      rewrite Forall_app in Hf. destruct Hf as [Hfa Hfb]. repeat split.
      * constructor; assumption.
      * exact Hb.
      * intros x y [->|Hx] Hy; [rewrite Forall_forall in Hfb; apply Hfb; exact Hy|apply Hc; assumption].
    + intros (Ha & Hb & Hc). inversion Ha as [|? ? Hs Hf]; subst. constructor.
      * apply IH. repeat split; [exact Hs|exact Hb|intros x y Hx Hy; apply Hc; [right; exact Hx|exact Hy]].
      * apply Forall_app. split; [exact Hf|]. apply Forall_forall. intros y Hy. apply Hc; [left; reflexivity|exact Hy].
Qed.

Section InsertionSort.
  (* a class of values on which < always answers: lt is its answer *)
  Variable P : value -> Prop.
  Variable lt : value -> value -> bool.
  Hypothesis Hv : forall a b, P a -> P b -> vless a b = Ok (lt a b).

  (* the element stops behind the first y (from the right) with not x < y *)
  Lemma ins_spec : forall x rd right err, P x -> Forall P rd ->
    exists rd1 rd2, rd = rd1 ++ rd2 /\ Forall (fun y => lt x y = true) rd1 /\
      match rd2 with [] => True | y :: _ => lt x y = false end /\
      order_ins x rd right err = Ok (rev rd2 ++ x :: rev rd1 ++ right, err).
  Proof.
    intros x rd. induction rd as [|y rd IH]; intros right err Px Hrd.
    - exists [], []. repeat split; constructor.
    - inversion Hrd as [|? ? Py Hrd']; subst. cbn [order_ins]. rewrite (Hv x y Px Py).
      destruct (lt x y) eqn:E.
      + destruct (IH (y :: right) err Px Hrd') as (r1 & r2 & -> & H1 & H2 & H3).
        exists (y :: r1), r2. repeat split; [constructor; assumption|exact H2|].
        rewrite H3. cbn [rev]. rewrite <- !app_assoc. reflexivity.
      + exists [], (y :: rd). repeat split; [constructor|exact E].
  Qed.

  Lemma ins_done : forall x done err, P x -> Forall P done ->
    exists d2 d1, done = d2 ++ d1 /\ Forall (fun y => lt x y = true) d1 /\
      (forall d2' y, d2 = d2' ++ [y] -> lt x y = false) /\
      order_ins x (rev done) [] err = Ok (d2 ++ x :: d1, err).
  Proof.
    intros x done err Px Hd.
    destruct (ins_spec x (rev done) [] err Px) as (r1 & r2 & E & H1 & H2 & H3).
    { apply Forall_rev. exact Hd. }
    exists (rev r2), (rev r1). repeat split.
    - rewrite <- rev_app_distr, <- E, rev_involutive. reflexivity.
    - apply Forall_rev. exact H1.
    - intros d2' y Ed. assert (r2 = y :: rev d2').
      { rewrite <- (rev_involutive r2), Ed, rev_app_distr. reflexivity. }
      subst r2. exact H2.
    - rewrite H3, app_nil_r. reflexivity.
  Qed.

  (* without any order law: no error, a permutation *)
  Lemma loop_perm : forall todo done err, Forall P done -> Forall P todo ->
    exists out, order_loop done todo err = Ok (out, err) /\ Permutation (done ++ todo) out /\ Forall P out.
  Proof.
    induction todo as [|x todo IH]; intros done err Hd Ht; cbn [order_loop].
    - exists done. rewrite app_nil_r. repeat split; [apply Permutation_refl|exact Hd].
    - inversion Ht as [|? ? Px Ht']; subst.
      destruct (ins_done x done err Px Hd) as (d2 & d1 & -> & H1 & H2 & H3). rewrite H3.
      apply Forall_app in Hd. destruct Hd as [Hd2 Hd1].
      destruct (IH (d2 ++ x :: d1) err) as (out & Ho & Hp & HP); [|exact Ht'|].
      { apply Forall_app. split; [exact Hd2|constructor; assumption]. }
      exists out. repeat split; [exact Ho| |exact HP].
      eapply Permutation_trans; [|exact Hp]. rewrite <- !app_assoc. apply Permutation_app_head.
      cbn [app]. apply Permutation_sym. apply Permutation_middle.
  Qed.
End InsertionSort.

Section InsertionSortOrdered.
  Variable P : value -> Prop.
  Variable lt : value -> value -> bool.
  Hypothesis Hv : forall a b, P a -> P b -> vless a b = Ok (lt a b).
  (* a strict weak order on the class *)
  Hypothesis Hasym : forall a b, P a -> P b -> lt a b = true -> lt b a = false.
  Hypothesis Hntrans : forall a b c, P a -> P b -> P c -> lt a b = false -> lt b c = false -> lt a c = false.

  (* a may stand before b *)
  Definition may_precede (a b : value) : Prop := lt b a = false.
  (* neither is smaller *)
  Definition equiv_lt (z y : value) : bool := negb (lt z y) && negb (lt y z).

  Lemma last_cases : forall (l : list value), l = [] \/ exists l' y, l = l' ++ [y].
  Proof. intros l. destruct (rev l) as [|y r] eqn:E.
    - left. rewrite <- (rev_involutive l), E. reflexivity.
    - right. exists (rev r), y. rewrite <- (rev_involutive l), E. reflexivity.
  Qed.

  Lemma loop_sorted : forall todo done err, Forall P done -> Forall P todo -> StronglySorted may_precede done ->
    exists out, order_loop done todo err = Ok (out, err) /\ Permutation (done ++ todo) out /\
      StronglySorted may_precede out /\ Forall P out /\
      (forall z, P z -> filter (equiv_lt z) out = filter (equiv_lt z) (done ++ todo)).
  Proof.
    induction todo as [|x todo IH]; intros done err Hd Ht Hs; cbn [order_loop].
    - exists done. rewrite app_nil_r. repeat split; [apply Permutation_refl|exact Hs|exact Hd].
    - inversion Ht as [|? ? Px Ht']; subst.
      destruct (ins_done P lt Hv x done err Px Hd) as (d2 & d1 & -> & H1 & H2 & H3). rewrite H3.
      apply Forall_app in Hd. destruct Hd as [Hd2 Hd1].
      apply SS_app in Hs. destruct Hs as (Hs2 & Hs1 & Hc).
      rewrite Forall_forall in H1, Hd1, Hd2.
      (* the new sorted part *)
      assert (Hx2 : forall a, In a d2 -> may_precede a x).
      { intros a Ha. unfold may_precede. destruct (last_cases d2) as [->|(d2' & y & E)]; [destruct Ha|].
        pose proof (H2 d2' y E) as Hy. subst d2. apply in_app_or in Ha. destruct Ha as [Ha|[<-|[]]]; [|exact Hy].
        apply SS_app in Hs2. destruct Hs2 as (_ & _ & Hc2).
        assert (Hay : may_precede a y) by (apply Hc2; [exact Ha|left; reflexivity]).
        apply (Hntrans x y a); try assumption; [apply Hd2; apply in_or_app; right; left; reflexivity
                                               |apply Hd2; apply in_or_app; left; exact Ha]. }
      assert (Hs' : StronglySorted may_precede (d2 ++ x :: d1)).
      { apply SS_app. repeat split.
        - exact Hs2.
        - constructor; [exact Hs1|]. apply Forall_forall. intros b Hb. unfold may_precede.
          apply Hasym; [exact Px|apply Hd1; exact Hb|apply H1; exact Hb].
        - intros a y Ha [<-|Hy]; [apply Hx2; exact Ha|apply Hc; assumption]. }
      assert (HP' : Forall P (d2 ++ x :: d1)).
      { apply Forall_app. split; apply Forall_forall; [exact Hd2|]. intros b [<-|Hb]; [exact Px|apply Hd1; exact Hb]. }
      destruct (IH (d2 ++ x :: d1) err HP' Ht' Hs') as (out & Ho & Hp & Hso & HPo & Hst).
      exists out. repeat split; [exact Ho| |exact Hso|exact HPo|].
      + eapply Permutation_trans; [|exact Hp]. rewrite <- !app_assoc. apply Permutation_app_head.
        cbn [app]. apply Permutation_sym. apply Permutation_middle.
      + intros z Pz. rewrite (Hst z Pz). rewrite <- !app_assoc. rewrite !filter_app. f_equal. cbn [app filter].
        destruct (equiv_lt z x) eqn:E; [|reflexivity].
        (* the elements x has passed are not equivalent to z *)
        assert (Hn : filter (equiv_lt z) d1 = []).
        { clear -H1 Hd1 E Pz Px Hntrans.
          induction d1 as [|b d1 IHd]; [reflexivity|]. cbn [filter].
          assert (Hb : equiv_lt z b = false).
          { unfold equiv_lt in *. apply andb_true_iff in E. destruct E as [E1 E2].
            apply negb_true_iff in E1. apply negb_true_iff in E2.
            destruct (lt z b) eqn:Ezb; [reflexivity|]. cbn.
            (* not x<z, not z<b => not x<b: contradiction *)
            pose proof (Hntrans x z b Px Pz (Hd1 b (or_introl eq_refl)) E2 Ezb) as C.
            rewrite (H1 b (or_introl eq_refl)) in C. discriminate. }
          rewrite Hb. apply IHd; intros y Hy; [apply Hd1|apply H1]; right; exact Hy. }
        rewrite Hn. reflexivity.
  Qed.
End InsertionSortOrdered.

(* ================================================================= order on numbers and on strings *)

(* the exact order as a boolean: a < b *)
Definition ltb_spec (a b : value) : bool := match lt_spec a b with Some true => true | _ => false end.

Lemma num_any_xnum : forall v, num_any v = true -> exists x, xnum_of v = Some x.
Proof. intros v. destruct v; try (cbn; discriminate); intros _; [cbn; eauto|rewrite xnum_of_float; eauto]. Qed.

Lemma num_ok_xnum : forall v, num_ok v = true -> exists x, xnum_of v = Some x /\ x <> XNaN.
Proof.
  intros v. destruct v; try (cbn; discriminate).
  - intros _. eexists. split; [reflexivity|discriminate].
  - destruct f; try (cbn; discriminate); intros _; eexists; (split; [reflexivity|discriminate]).
Qed.

Lemma num_ok_any : forall v, num_ok v = true -> num_any v = true.
Proof. intros v. destruct v; cbn; auto; destruct f; auto. Qed.

Lemma num_vless : forall a b, num_any a = true -> num_any b = true -> vless a b = Ok (ltb_spec a b).
Proof.
  intros a b Ha Hb.
  destruct (num_any_xnum a Ha) as [x Hx]. destruct (num_any_xnum b Hb) as [y Hy].
  pose proof (lt_spec_num a b x y Hx Hy) as Hs.
  destruct (vless_cases a b) as [[r Hr]|[He|Hu]].
  - rewrite Hr. pose proof (vless_spec _ _ _ Hr) as E. unfold ltb_spec. rewrite E. destruct r; reflexivity.
  - assert (E : is_err (vless a b) = true) by (rewrite He; reflexivity). apply vless_err_spec in E. congruence.
  - exfalso. apply (vless_supported a b); try assumption.
    + destruct a; cbn in *; try discriminate; auto.
    + destruct b; cbn in *; try discriminate; auto.
    + destruct a; cbn in *; try discriminate; reflexivity.
    + destruct b; cbn in *; try discriminate; reflexivity.
Qed.

Lemma str_vless : forall a b, is_str a = true -> is_str b = true -> vless a b = Ok (ltb_spec a b).
Proof. intros a b. destruct a, b; try discriminate. intros _ _. unfold ltb_spec. cbn. destruct (str_ltb s s0); reflexivity. Qed.

Lemma ltb_spec_asym : forall a b, ltb_spec a b = true -> ltb_spec b a = false.
Proof.
  intros a b. unfold ltb_spec. destruct (lt_spec a b) as [[|]|] eqn:E; try discriminate. intros _.
  rewrite (lt_spec_asym _ _ E). reflexivity.
Qed.

Lemma xle_trans : forall a b c, a <> XNaN -> b <> XNaN -> c <> XNaN ->
  xlt a b = false -> xlt b c = false -> xlt a c = false.
Proof.
  intros a b c Ha Hb Hc H1 H2. destruct (xlt a c) eqn:E; [|reflexivity]. exfalso.
  destruct (xnum_trichotomy b c Hb Hc) as [(T & _)|[(_ & T & _)|(_ & _ & T)]].
  - congruence.
  - (* b = c: a < c = a < b *) rewrite (xeq_xlt_compat_r b c a T) in H1. congruence.
  - (* c < b and a < c: a < b *) rewrite (xlt_trans a c b E T) in H1. discriminate.
Qed.

Lemma num_ntrans : forall a b c, num_ok a = true -> num_ok b = true -> num_ok c = true ->
  ltb_spec a b = false -> ltb_spec b c = false -> ltb_spec a c = false.
Proof.
  intros a b c Ha Hb Hc.
  destruct (num_ok_xnum a Ha) as (x & Hx & Nx). destruct (num_ok_xnum b Hb) as (y & Hy & Ny).
  destruct (num_ok_xnum c Hc) as (z & Hz & Nz).
  unfold ltb_spec. rewrite (lt_spec_num a b x y Hx Hy), (lt_spec_num b c y z Hy Hz), (lt_spec_num a c x z Hx Hz).
  intros H1 H2. rewrite (xle_trans x y z Nx Ny Nz); [reflexivity| |].
  - destruct (xlt x y); [discriminate|reflexivity].
  - destruct (xlt y z); [discriminate|reflexivity].
Qed.

Lemma str_ntrans : forall a b c, is_str a = true -> is_str b = true -> is_str c = true ->
  ltb_spec a b = false -> ltb_spec b c = false -> ltb_spec a c = false.
Proof.
  intros a b c. destruct a as [| |x| | | | |]; try discriminate; destruct b as [| |y| | | | |]; try discriminate;
    destruct c as [| |w| | | | |]; try discriminate. intros _ _ _.
  unfold ltb_spec. cbn [lt_spec].
  destruct (str_ltb x y) eqn:E1; [discriminate|]. destruct (str_ltb y w) eqn:E2; [discriminate|]. intros _ _.
  destruct (str_ltb x w) eqn:E3; [|reflexivity]. exfalso.
  (* y vs w: not y<w; w<y would give x<y; so y = w *)
  destruct (str_ltb w y) eqn:E4.
  - rewrite (str_ltb_trans _ _ _ E3 E4) in E1. discriminate.
  - rewrite (str_ltb_total y w E2 E4) in E1. congruence.
Qed.

Lemma forallb_Forall : forall (f : value -> bool) l, forallb f l = true -> Forall (fun v => f v = true) l.
Proof. intros f l H. apply Forall_forall. apply forallb_forall. exact H. Qed.

(* neither is smaller, by the exact order *)
Definition equiv_spec (z y : value) : bool := negb (ltb_spec z y) && negb (ltb_spec y z).

(* all numbers (no NaN) or all strings, ANY length: no error, a permutation, no later element smaller than
   an earlier one, and elements none of which is smaller keep their order (stable) *)
Theorem order_model_sorted : forall l, sortable l = true ->
  exists out, order_model l = Ok (VList out) /\ Permutation l out /\
    StronglySorted (fun a b => ltb_spec b a = false) out /\
    (forall z, In z l -> filter (equiv_spec z) out = filter (equiv_spec z) l).
Proof.
  intros l Hs. unfold sortable in Hs. apply orb_true_iff in Hs. destruct Hs as [Hs|Hs]; apply forallb_Forall in Hs.
  - destruct (loop_sorted (fun v => num_ok v = true) ltb_spec) with (todo := l) (done := @nil value) (err := false)
      as (out & Ho & Hp & Hso & _ & Hst); try assumption; try constructor.
    + intros a b Ha Hb. apply num_vless; apply num_ok_any; assumption.
    + intros a b _ _. apply ltb_spec_asym.
    + exact num_ntrans.
    + exists out. unfold order_model. rewrite Ho. repeat split; [exact Hp|exact Hso|].
      intros z Hz. rewrite Forall_forall in Hs. exact (Hst z (Hs z Hz)).
  - destruct (loop_sorted (fun v => is_str v = true) ltb_spec) with (todo := l) (done := @nil value) (err := false)
      as (out & Ho & Hp & Hso & _ & Hst); try assumption; try constructor.
    + exact str_vless.
    + intros a b _ _. apply ltb_spec_asym.
    + exact str_ntrans.
    + exists out. unfold order_model. rewrite Ho. repeat split; [exact Hp|exact Hso|].
      intros z Hz. rewrite Forall_forall in Hs. exact (Hst z (Hs z Hz)).
Qed.

(* on such a list the boolean order is what < answers: the orderings agree with the operator *)
Lemma sortable_vless : forall l a b, sortable l = true -> In a l -> In b l -> vless a b = Ok (ltb_spec a b).
Proof.
  intros l a b Hs Ha Hb. unfold sortable in Hs. apply orb_true_iff in Hs.
  destruct Hs as [Hs|Hs]; rewrite forallb_forall in Hs.
  - apply num_vless; apply num_ok_any; apply Hs; assumption.
  - apply str_vless; apply Hs; assumption.
Qed.

(* ================================================================= order: an error iff an incomparable pair is compared *)

Definition bad_cmp (p : value * value) : bool := is_err (vless (fst p) (snd p)).

(* the error flag only accumulates *)
Lemma ins_flag : forall x rd right err,
  order_ins x rd right err =
  match order_ins x rd right false with
  | Ok (o, e) => Ok (o, err || e)
  | r => r
  end.
Proof.
  intros x rd. induction rd as [|y rd IH]; intros right err; cbn [order_ins].
  - rewrite orb_false_r. reflexivity.
  - destruct (vless x y) as [[|]| | | |]; try reflexivity.
    + apply IH.
    + rewrite orb_false_r. reflexivity.
    + rewrite orb_true_r. reflexivity.
    + rewrite orb_true_r. reflexivity.
Qed.

Lemma ins_err : forall x rd right o e,
  order_ins x rd right false = Ok (o, e) -> e = existsb bad_cmp (ins_cmps x rd).
Proof.
  intros x rd. induction rd as [|y rd IH]; intros right o e; cbn [order_ins ins_cmps existsb].
  - intros H. inversion H. reflexivity.
  - unfold bad_cmp at 1. cbn [fst snd]. destruct (vless x y) as [[|]| | | |]; cbn [is_err orb existsb]; try discriminate.
    + apply IH.
    + intros H. inversion H. reflexivity.
    + intros H. inversion H. reflexivity.
    + intros H. inversion H. reflexivity.
Qed.

Lemma loop_flag : forall todo done err,
  order_loop done todo err =
  match order_loop done todo false with
  | Ok (o, e) => Ok (o, err || e)
  | r => r
  end.
Proof.
  induction todo as [|x todo IH]; intros done err; cbn [order_loop].
  - rewrite orb_false_r. reflexivity.
  - rewrite (ins_flag x (rev done) [] err). destruct (order_ins x (rev done) [] false) as [[o e]| | | |]; try reflexivity.
    rewrite (IH o (err || e)), (IH o e).
    destruct (order_loop o todo false) as [[o' e']| | | |]; try reflexivity. rewrite orb_assoc. reflexivity.
Qed.

Lemma loop_err : forall todo done o e,
  order_loop done todo false = Ok (o, e) -> e = existsb bad_cmp (loop_cmps done todo).
Proof.
  induction todo as [|x todo IH]; intros done o e; cbn [order_loop loop_cmps].
  - intros H. inversion H. reflexivity.
  - destruct (order_ins x (rev done) [] false) as [[o1 e1]| | | |] eqn:E1; try discriminate.
    rewrite (loop_flag todo o1 e1). destruct (order_loop o1 todo false) as [[o2 e2]| | | |] eqn:E2; try discriminate.
    intros H. inversion H; subst. rewrite existsb_app, (ins_err _ _ _ _ _ E1), (IH _ _ _ E2). reflexivity.
Qed.

(* the sort itself never fails: it answers, or leaves the exact model *)
Lemma ins_ok_or_unsup : forall x rd right err,
  (exists o e, order_ins x rd right err = Ok (o, e)) \/ order_ins x rd right err = Unsup.
Proof.
  intros x rd. induction rd as [|y rd IH]; intros right err; cbn [order_ins]; [left; eauto|].
  destruct (vless_cases x y) as [[[|] Hr]|[He|Hu]]; rewrite ?Hr, ?He, ?Hu; eauto.
Qed.

Lemma loop_ok_or_unsup : forall todo done err,
  (exists o e, order_loop done todo err = Ok (o, e)) \/ order_loop done todo err = Unsup.
Proof.
  induction todo as [|x todo IH]; intros done err; cbn [order_loop]; [left; eauto|].
  destruct (ins_ok_or_unsup x (rev done) [] err) as [(o & e & H)|H]; rewrite H; [apply IH|right; reflexivity].
Qed.

(* order fails exactly when one of the comparisons it makes is between incomparable elements *)
Theorem order_error_iff : forall l, order_model l <> Unsup ->
  is_err (order_model l) = existsb bad_cmp (order_cmps l).
Proof.
  intros l Hu. unfold order_model, order_cmps in *.
  destruct (loop_ok_or_unsup l [] false) as [(o & e & H)|H]; rewrite H in *; [|congruence].
  rewrite <- (loop_err _ _ _ _ H). destruct e; reflexivity.
Qed.

(* every comparison is between two elements of the list *)
Lemma ins_cmps_in : forall x rd p, In p (ins_cmps x rd) -> fst p = x /\ In (snd p) rd.
Proof.
  intros x rd. induction rd as [|y rd IH]; intros p; cbn [ins_cmps]; [intros []|].
  intros [<-|H]; [split; [reflexivity|left; reflexivity]|].
  destruct (vless x y) as [[|]| | | |]; try destruct H. destruct (IH p H) as [H1 H2]. split; [exact H1|right; exact H2].
Qed.

(* ================================================================= the checker accepts what the model answers *)

(* elements the exact model covers: ints below 2^53, no caught error text, maps with distinct keys *)
Definition elem_ok (v : value) : Prop := small_ints v = true /\ is_errtext v = false /\ wf_keys v = true.

Definition is_numv (v : value) : bool := match v with VInt _ | VFloat _ => true | _ => false end.

Lemma lt_spec_classes : forall x y r, lt_spec x y = Some r ->
  (is_numv x = true /\ is_numv y = true) \/ (is_str x = true /\ is_str y = true).
Proof.
  intros x y r. destruct x, y; cbn; try discriminate; try (destruct f; discriminate); intros _;
    first [left; split; reflexivity|right; split; reflexivity].
Qed.

Lemma class_lt_spec : forall x y,
  (is_numv x = true /\ is_numv y = true) \/ (is_str x = true /\ is_str y = true) -> lt_spec x y <> None.
Proof.
  intros x y [[Hx Hy]|[Hx Hy]]; destruct x, y; try discriminate; cbn [lt_spec]; try discriminate;
    rewrite ?xnum_of_float; cbn [xnum_of]; discriminate.
Qed.

Lemma ok_vless_not_unsup : forall x y, elem_ok x -> elem_ok y -> vless x y <> Unsup.
Proof. intros x y (S1 & E1 & _) (S2 & E2 & _). apply vless_supported; assumption. Qed.

Lemma ins_ok : forall x rd right err, elem_ok x -> Forall elem_ok rd ->
  exists o e, order_ins x rd right err = Ok (o, e).
Proof.
  intros x rd. induction rd as [|y rd IH]; intros right err Hx Hrd; cbn [order_ins]; [eauto|].
  inversion Hrd; subst. pose proof (ok_vless_not_unsup x y Hx H1) as Hn.
  destruct (vless_cases x y) as [[[|] Hr]|[He|Hu]]; rewrite ?Hr, ?He; eauto. congruence.
Qed.

Lemma ins_perm : forall x rd right err o e,
  order_ins x rd right err = Ok (o, e) -> Permutation o (x :: rev rd ++ right).
Proof.
  intros x rd. induction rd as [|y rd IH]; intros right err o e; cbn [order_ins].
  - intros H. inversion H. apply Permutation_refl.
  - destruct (vless x y) as [[|]| | | |]; try discriminate.
    + intros H. apply IH in H. eapply Permutation_trans; [exact H|]. cbn [rev]. rewrite <- app_assoc. apply Permutation_refl.
    + intros H. inversion H; subst. apply Permutation_sym. apply Permutation_middle.
    + intros H. inversion H; subst. apply Permutation_sym. apply Permutation_middle.
    + intros H. inversion H; subst. apply Permutation_sym. apply Permutation_middle.
Qed.

Lemma loop_ok : forall todo done err, Forall elem_ok done -> Forall elem_ok todo ->
  exists o e, order_loop done todo err = Ok (o, e) /\ Permutation o (done ++ todo).
Proof.
  induction todo as [|x todo IH]; intros done err Hd Ht; cbn [order_loop].
  - exists done, err. rewrite app_nil_r. split; [reflexivity|apply Permutation_refl].
  - inversion Ht; subst.
    destruct (ins_ok x (rev done) [] err H1 (Forall_rev Hd)) as (o1 & e1 & E1). rewrite E1.
    pose proof (ins_perm _ _ _ _ _ _ E1) as P1. rewrite rev_involutive, app_nil_r in P1.
    assert (Ho1 : Forall elem_ok o1).
    { apply Forall_forall. intros z Hz. apply (Permutation_in _ P1) in Hz.
      destruct Hz as [<-|Hz]; [exact H1|]. rewrite Forall_forall in Hd. apply Hd. exact Hz. }
    destruct (IH o1 e1 Ho1 H2) as (o & e & E & P). exists o, e. split; [exact E|].
    eapply Permutation_trans; [exact P|]. eapply Permutation_trans; [apply Permutation_app_tail; exact P1|].
    cbn [app]. apply Permutation_middle.
Qed.

(* all elements numbers, or all strings *)
Definition one_class (l : list value) : Prop := Forall (fun v => is_numv v = true) l \/ Forall (fun v => is_str v = true) l.

Lemma one_class_perm : forall l l', Permutation l l' -> one_class l -> one_class l'.
Proof.
  intros l l' Hp [H|H]; [left|right]; apply Forall_forall; intros z Hz; rewrite Forall_forall in H; apply H;
    apply (Permutation_in _ (Permutation_sym Hp)); exact Hz.
Qed.

Lemma numv_not_str : forall v, is_numv v = true -> is_str v = true -> False.
Proof. intros v. destruct v; discriminate. Qed.

(* no error registered => the elements are all numbers or all strings (two or more elements) *)
Lemma loop_noerr_class : forall todo done o,
  Forall elem_ok done -> Forall elem_ok todo ->
  order_loop done todo false = Ok (o, false) ->
  (length done <= 1)%nat \/ one_class done ->
  (2 <= length (done ++ todo))%nat -> one_class (done ++ todo).
Proof.
  induction todo as [|x todo IH]; intros done o Hd Ht H Hinv Hlen.
  - rewrite app_nil_r in *. destruct Hinv as [Hl|Hc]; [lia|exact Hc].
  - inversion Ht as [|? ? Hx Ht']; subst. cbn [order_loop] in H.
    destruct (order_ins x (rev done) [] false) as [[o1 e1]| | | |] eqn:E1; try discriminate.
    rewrite (loop_flag todo o1 e1) in H.
    destruct (order_loop o1 todo false) as [[o2 e2]| | | |] eqn:E2; try discriminate.
    inversion H; subst. apply orb_false_iff in H2. destruct H2 as [-> ->].
    pose proof (ins_perm _ _ _ _ _ _ E1) as P1. rewrite rev_involutive, app_nil_r in P1.
    assert (Ho1 : Forall elem_ok o1).
    { apply Forall_forall. intros z Hz. apply (Permutation_in _ P1) in Hz.
      destruct Hz as [<-|Hz]; [exact Hx|]. rewrite Forall_forall in Hd. apply Hd. exact Hz. }
    assert (Pall : Permutation (o1 ++ todo) (done ++ x :: todo)).
    { eapply Permutation_trans; [apply Permutation_app_tail; exact P1|]. cbn [app]. apply Permutation_middle. }
    assert (Hlen1 : (2 <= length (o1 ++ todo))%nat) by (rewrite (Permutation_length Pall); exact Hlen).
    apply (one_class_perm _ _ Pall). apply (IH o1 o Ho1 Ht' E2); [|exact Hlen1].
    destruct done as [|d0 done'] eqn:Ed.
    + left. rewrite (Permutation_length P1). cbn. lia.
    + right. rewrite <- Ed in *.
      (* the first comparison is with the last element of done, and it did not fail *)
      destruct (last_cases done) as [E|(dl & y & E)]; [rewrite E in Ed; discriminate|].
      assert (Hy : In y done) by (rewrite E; apply in_or_app; right; left; reflexivity).
      assert (Hyok : elem_ok y) by (rewrite Forall_forall in Hd; apply Hd; exact Hy).
      pose proof (ins_err _ _ _ _ _ E1) as Eb. rewrite E, rev_app_distr in Eb. cbn [rev app ins_cmps existsb] in Eb.
      symmetry in Eb. apply orb_false_iff in Eb. destruct Eb as [Eb _]. unfold bad_cmp in Eb. cbn [fst snd] in Eb.
      assert (Hcl : (is_numv x = true /\ is_numv y = true) \/ (is_str x = true /\ is_str y = true)).
      { destruct (vless_cases x y) as [[r Hr]|[He|Hu]].
        - eapply lt_spec_classes. apply vless_spec. exact Hr.
        - rewrite He in Eb. discriminate.
        - exfalso. exact (ok_vless_not_unsup x y Hx Hyok Hu). }
      apply (one_class_perm (x :: done)); [apply Permutation_sym; exact P1|].
      destruct Hinv as [Hl|[Hc|Hc]].
      * (* done = [y] *)
        assert (done = [y]).
        { rewrite E in Hl |- *. rewrite app_length in Hl. cbn in Hl. destruct dl; [reflexivity|cbn in Hl; lia]. }
        rewrite H0. destruct Hcl as [[Hc1 Hc2]|[Hc1 Hc2]]; [left|right]; (constructor; [exact Hc1|constructor; [exact Hc2|constructor]]).
      * left. constructor; [|exact Hc]. destruct Hcl as [[H1 _]|[_ H2]]; [exact H1|].
        rewrite Forall_forall in Hc. exfalso. exact (numv_not_str y (Hc y Hy) H2).
      * right. constructor; [|exact Hc]. destruct Hcl as [[_ H2]|[H1 _]]; [|exact H1].
        rewrite Forall_forall in Hc. exfalso. exact (numv_not_str y H2 (Hc y Hy)).
Qed.

(* ---------- structural identity ---------- *)

Lemma fl_same_eq : forall f g, fl_same f g = true <-> f = g.
Proof.
  intros f g. destruct f, g; cbn; split; try discriminate; try reflexivity; intros H.
  - apply andb_true_iff in H. destruct H as [H1 H2]. f_equal; lia.
  - inversion H; subst. rewrite !Z.eqb_refl. reflexivity.
  - apply Bool.eqb_prop in H. congruence.
  - inversion H. destruct neg0; reflexivity.
Qed.

Lemma val_same_refl : forall v, wf_keys v = true -> val_same v v = true.
Proof.
  intros v. induction v as [z|f|s|b|l IH|m IH|ps body cap self|t] using value_ind2; intros Hw; cbn [val_same].
  - apply Z.eqb_refl.
  - apply fl_same_eq. reflexivity.
  - apply str_eqb_refl.
  - destruct b; reflexivity.
  - apply wf_keys_list in Hw. induction l as [|x l IHl]; [reflexivity|].
    inversion IH; subst. inversion Hw; subst. rewrite H1 by assumption. cbn. apply IHl; assumption.
  - apply wf_keys_map in Hw. destruct Hw as [Hn Hw]. rewrite Nat.eqb_refl. cbn [andb].
    rewrite Forall_forall in IH, Hw.
    assert (G : forall m', (forall kv, In kv m' -> In kv m) ->
              (fix go (ma : list (str * value)) : bool :=
                 match ma with
                 | [] => true
                 | (k, v) :: ma' => match assoc_v k m with Some o => val_same v o | None => false end && go ma'
                 end) m' = true).
    { induction m' as [|[k v] m' IHm]; intros Hsub; [reflexivity|].
      assert (Hin : In (k, v) m) by (apply Hsub; left; reflexivity).
      rewrite (nodup_keys_in m k v Hn Hin). pose proof (IH (k, v) Hin (Hw (k, v) Hin)) as Hvv. cbn [snd] in Hvv.
      rewrite Hvv. cbn [andb].
      apply IHm. intros kv Hkv. apply Hsub. right. exact Hkv. }
    apply G. auto.
  - apply Nat.eqb_refl.
  - destruct t; [apply str_eqb_refl|reflexivity].
Qed.

Lemma class_val_same_eq : forall x y, is_numv x = true \/ is_str x = true -> val_same x y = true -> x = y.
Proof.
  intros x y [H|H]; destruct x; try discriminate; destruct y; cbn [val_same]; try discriminate; intros E.
  - f_equal. lia.
  - f_equal. apply fl_same_eq. exact E.
  - f_equal. apply str_eqb_eq. exact E.
Qed.

Lemma remove_same_first : forall x b, val_same x x = true -> (forall y, val_same x y = true -> x = y) -> In x b ->
  exists b1 b2, b = b1 ++ x :: b2 /\ remove_same x b = Some (b1 ++ b2).
Proof.
  intros x b Hr He. induction b as [|y b IH]; intros Hin; [destruct Hin|]. cbn [remove_same].
  destruct (val_same x y) eqn:E.
  - apply He in E. subst y. exists [], b. split; reflexivity.
  - destruct Hin as [->|Hin]; [congruence|]. destruct (IH Hin) as (b1 & b2 & -> & Hrm). rewrite Hrm.
    exists (y :: b1), b2. split; reflexivity.
Qed.

Lemma perm_same_complete : forall a b,
  (forall x, In x a -> val_same x x = true /\ forall y, val_same x y = true -> x = y) ->
  Permutation a b -> perm_same a b = true.
Proof.
  induction a as [|x a IH]; intros b Ha Hp; cbn [perm_same].
  - apply Permutation_nil in Hp. subst. reflexivity.
  - destruct (Ha x (or_introl eq_refl)) as [Hr He].
    assert (Hin : In x b) by (apply (Permutation_in _ Hp); left; reflexivity).
    destruct (remove_same_first x b Hr He Hin) as (b1 & b2 & -> & Hrm). rewrite Hrm.
    apply IH; [intros z Hz; apply Ha; right; exact Hz|]. eapply Permutation_cons_app_inv. exact Hp.
Qed.

Lemma sorted_spec_of_SS : forall out,
  StronglySorted (fun a b => ltb_spec b a = false) out -> sorted_spec out = true.
Proof.
  induction out as [|x out IH]; intros H; [reflexivity|]. inversion H as [|? ? Hs Hf]; subst. cbn [sorted_spec].
  rewrite (IH Hs), andb_true_r. apply forallb_forall. intros y Hy. rewrite Forall_forall in Hf.
  specialize (Hf y Hy). unfold ltb_spec in Hf. destruct (lt_spec y x) as [[|]|]; [discriminate|reflexivity|reflexivity].
Qed.

Lemma apc_of_class : forall l, one_class l -> all_pairs_comparable l = true.
Proof.
  induction l as [|x l IH]; intros Hc; [reflexivity|]. cbn [all_pairs_comparable].
  assert (Hl : one_class l) by (destruct Hc as [H|H]; inversion H; [left|right]; assumption).
  rewrite (IH Hl), andb_true_r. apply forallb_forall. intros y Hy.
  assert (Hxy : lt_spec x y <> None).
  { apply class_lt_spec. destruct Hc as [H|H]; rewrite Forall_forall in H; [left|right];
      (split; apply H; [left; reflexivity|right; exact Hy]). }
  destruct (lt_spec x y); [reflexivity|congruence].
Qed.

Lemma class_of_apc : forall x y l, all_pairs_comparable (x :: y :: l) = true -> one_class (x :: y :: l).
Proof.
  intros x y l H. cbn [all_pairs_comparable] in H. apply andb_true_iff in H. destruct H as [H _].
  rewrite forallb_forall in H.
  assert (Hall : forall z, In z (y :: l) ->
            (is_numv x = true /\ is_numv z = true) \/ (is_str x = true /\ is_str z = true)).
  { intros z Hz. specialize (H z Hz). destruct (lt_spec x z) eqn:E; [|discriminate]. eapply lt_spec_classes. exact E. }
  destruct (Hall y (or_introl eq_refl)) as [[Hx _]|[Hx _]].
  - left. constructor; [exact Hx|]. apply Forall_forall. intros z Hz.
    destruct (Hall z Hz) as [[_ Hz']|[Hx' _]]; [exact Hz'|exfalso; exact (numv_not_str x Hx Hx')].
  - right. constructor; [exact Hx|]. apply Forall_forall. intros z Hz.
    destruct (Hall z Hz) as [[Hx' _]|[_ Hz']]; [exfalso; exact (numv_not_str x Hx' Hx)|exact Hz'].
Qed.

Lemma has_nan_false_num_ok : forall l, Forall elem_ok l -> Forall (fun v => is_numv v = true) l ->
  has_nan l = false -> forallb num_ok l = true.
Proof.
  intros l Ho Hn Hnan. apply forallb_forall. intros v Hv. rewrite Forall_forall in Ho, Hn.
  destruct (Ho v Hv) as (Hs & _ & _). specialize (Hn v Hv).
  assert (Hf : (match v with VFloat FNaN => true | _ => false end) = false).
  { unfold has_nan in Hnan. destruct (match v with VFloat FNaN => true | _ => false end) eqn:E; [|reflexivity].
    assert (existsb (fun v => match v with VFloat FNaN => true | _ => false end) l = true)
      by (apply existsb_exists; exists v; split; assumption). congruence. }
  destruct v; try discriminate; cbn in *; [exact Hs|destruct f; try reflexivity; discriminate].
Qed.

(* whatever the list (ints below 2^53, no caught error text, maps with distinct keys): the specification
   checker of the correspondence run accepts the answer of the model *)
Theorem order_checker_accepts : forall l, Forall elem_ok l -> order_allowed l (order_model l) = true.
Proof.
  intros l Hok. unfold order_allowed.
  destruct (loop_ok l [] false (Forall_nil _) Hok) as (o & e & Ho & Hp). cbn [app] in Hp.
  destruct (all_pairs_comparable l) eqn:A.
  - (* comparable: a permutation, sorted unless a NaN is among the elements *)
    destruct l as [|x [|y l]].
    + reflexivity.
    + unfold order_model. cbn. inversion Hok as [|? ? (_ & _ & Hw) _]; subst. rewrite (val_same_refl x Hw). cbn. apply orb_true_r.
    + pose proof (class_of_apc _ _ _ A) as Hc. set (L := x :: y :: l) in *.
      assert (Hsame : forall z, In z L -> val_same z z = true /\ forall w, val_same z w = true -> z = w).
      { intros z Hz. assert (Hzc : is_numv z = true \/ is_str z = true).
        { destruct Hc as [H|H]; rewrite Forall_forall in H; [left|right]; apply H; exact Hz. }
        split; [|intros w; apply class_val_same_eq; exact Hzc].
        rewrite Forall_forall in Hok. destruct (Hok z Hz) as (_ & _ & Hw). apply val_same_refl. exact Hw. }
      destruct (has_nan L) eqn:Hnan.
      * (* only the permutation is demanded *)
        assert (Hcls : exists P : value -> Prop, Forall P L /\ forall a b, P a -> P b -> vless a b = Ok (ltb_spec a b)).
        { destruct Hc as [H|H].
          - exists (fun v => num_any v = true). split; [|intros a b; apply num_vless].
            apply Forall_forall. intros z Hz. rewrite Forall_forall in H, Hok. specialize (H z Hz).
            destruct (Hok z Hz) as (Hs & _ & _). destruct z; try discriminate; cbn in *; [exact Hs|reflexivity].
          - exists (fun v => is_str v = true). split; [exact H|exact str_vless]. }
        destruct Hcls as (P & HP & Hv).
        destruct (loop_perm P ltb_spec Hv L [] false (Forall_nil _) HP) as (out & Hout & Hperm & _).
        unfold order_model. rewrite Hout. cbn [app] in Hperm. rewrite (perm_same_complete L out Hsame Hperm). reflexivity.
      * assert (Hs : sortable L = true).
        { unfold sortable. destruct Hc as [H|H].
          - rewrite (has_nan_false_num_ok L Hok H Hnan). reflexivity.
          - replace (forallb is_str L) with true; [apply orb_true_r|]. symmetry. apply forallb_forall.
            rewrite Forall_forall in H. exact H. }
        destruct (order_model_sorted L Hs) as (out & Hout & Hperm & Hss & _). rewrite Hout.
        rewrite (perm_same_complete L out Hsame Hperm), (sorted_spec_of_SS out Hss). reflexivity.
  - (* not all comparable: at least two elements, and the sort meets an incomparable pair *)
    unfold order_model. rewrite Ho. destruct e; [reflexivity|]. exfalso.
    assert (Hlen : (2 <= length l)%nat).
    { destruct l as [|x [|y l]]; cbn in A; try discriminate. cbn. lia. }
    pose proof (loop_noerr_class l [] o (Forall_nil _) Hok Ho (or_introl (Nat.le_0_l 1)) Hlen) as Hc.
    cbn [app] in Hc. rewrite (apc_of_class l Hc) in A. discriminate.
Qed.

(* ================================================================= groupByEqual agrees with = *)

(* two keys: one group iff a = b is true, two groups iff it is false, an error iff = fails *)
Theorem group_eq_pairs : forall a b,
  group_eq_model [a; b] = match veq a b with
                          | Ok true => Ok 1%N | Ok false => Ok 2%N
                          | Err t => Err t | Panic => Panic | OOF => OOF | Unsup => Unsup
                          end.
Proof.
  intros a b. unfold group_eq_model. cbn [group_keys in_groups app]. unfold equal_fg.
  destruct (veq a b) as [[|]| | | |]; reflexivity.
Qed.

Lemma group_eq_pairs_sym : forall a b, wf_keys a = true -> wf_keys b = true ->
  group_eq_model [a; b] = group_eq_model [b; a].
Proof. intros a b Ha Hb. rewrite !group_eq_pairs, (veq_sym a b Ha Hb). reflexivity. Qed.
