(* Soundness of the optimizer model for the flags of value.New() (hand-written value_flags and the
   flags regenerated from the tree), for ALL programs, and the exact form on first-order outcomes. *)
From P2 Require Import Base.Prelude Sem.Num Sem.Syntax Sem.Ops Sem.Lib Sem.Ref Sem.Gen Sem.Sim Sem.RelProofs Sem.Opt
  Sem.OptRel Sem.OptRelProofs Sem.OptOpsProofs Sem.OptSound Sem.OptFlagsProofs.

(* ---------- a decidable sufficient condition on the operator table ---------- *)

(* no operator is flagged commutative: nothing regroups *)
Definition no_commutative (fl : cfgflags) : bool := forallb (fun e => negb (snd (snd e))) (f_ops fl).

Lemma no_commutative_regroup_exact fl : no_commutative fl = true -> regroup_exact_ok fl.
Proof.
  intros H op pure E. exfalso. unfold op_flags in E. unfold no_commutative in H.
  induction (f_ops fl) as [|[k [p c]] l IH]; simpl in *; [discriminate|].
  apply andb_true_iff in H. destruct H as [H1 H2].
  destruct (str_eqb op k); [inversion E; subst; discriminate|auto].
Qed.

(* the obligations on a configuration, decidable: the theorems below hold for every such fl *)
Definition cfg_ok (fl : cfgflags) : bool := no_commutative fl && f_fieldcheck fl && f_map fl.

(* ---------- all programs ---------- *)

Theorem optimize_sound_cfg : forall fl known fuel,
  cfg_ok fl = true ->
  forall n m env a,
  side_ok a = true ->
  (forall x v, lookup x env = Some v -> vrel known v v) ->
  n <= m ->
  decided (eval known n env a) ->
  orel known (eval known n env a) (eval known m env (optimize fl known fuel a)).
Proof.
  intros fl known fuel C. unfold cfg_ok in C.
  apply andb_true_iff in C. destruct C as [C C3]. apply andb_true_iff in C. destruct C as [C1 C2].
  exact (optimize_sound_all fl known fuel (fold_agrees_all _) (no_commutative_regroup_exact _ C1) C2 C3).
Qed.

(* first-order arguments are related to themselves *)
Lemma fo_env_self known env :
  (forall x v, lookup x env = Some v -> fo v = true) -> forall x v, lookup x env = Some v -> vrel known v v.
Proof. intros H x v L. apply fo_ovrel. eauto. Qed.

(* ---------- exactness on first-order outcomes ---------- *)

(* a first-order value of the unoptimized program is related only to itself *)
Lemma ovrel_fo_eq known : forall v1 v2, vrel known v1 v2 -> fo v1 = true -> v1 = v2.
Proof.
  induction v1 as [z|f|s|b|l IH|m IH|ps b c s|t] using value_ind2; intros v2 Hv Hf;
    inversion Hv; subst; auto; cbn [fo] in Hf; try discriminate.
  - f_equal. clear Hv. match goal with HF : Forall2 _ l _ |- _ => induction HF as [|x y l1 l2 Hxy HF IHF] end; auto.
    inversion IH; subst. simpl in Hf. apply andb_true_iff in Hf. destruct Hf.
    f_equal; auto.
  - f_equal. clear Hv. match goal with HF : Forall2 _ m _ |- _ => induction HF as [|[k x] [k' y] l1 l2 [Hk Hxy] HF IHF] end; auto.
    inversion IH; subst. simpl in *. apply andb_true_iff in Hf. destruct Hf. subst k'.
    f_equal; auto. f_equal; auto.
Qed.

(* an outcome without closures: a first-order value, an error (with its thrown text) or a panic *)
Definition fo_outcome (r : res value) : bool :=
  match r with Ok v => fo v | Err _ => true | Panic => true | OOF => false | Unsup => false end.

Lemma orel_fo_exact known r r' : orel known r r' -> fo_outcome r = true -> r' = r.
Proof.
  intros H F. unfold OptRel.orel in H. destruct H as [v v' Hv|t| | |]; cbn in F; try discriminate; try reflexivity.
  f_equal. symmetry. eapply ovrel_fo_eq; eauto.
Qed.

Lemma fo_outcome_decided r : fo_outcome r = true -> decided r.
Proof. destruct r; cbn; intros H; try discriminate H; reflexivity. Qed.

Theorem optimize_sound_cfg_exact : forall fl known fuel,
  cfg_ok fl = true ->
  forall n m env a,
  side_ok a = true ->
  (forall x v, lookup x env = Some v -> fo v = true) ->
  n <= m ->
  fo_outcome (eval known n env a) = true ->
  eval known m env (optimize fl known fuel a) = eval known n env a.
Proof.
  intros fl known fuel C n m env a S He L F.
  eapply orel_fo_exact; [|exact F].
  apply optimize_sound_cfg; auto; [apply fo_env_self; auto|apply fo_outcome_decided; auto].
Qed.

(* ---------- the flags of value.New() ---------- *)

Theorem optimize_sound_value_all_lemma : forall known fuel n m env a,
  side_ok a = true ->
  (forall x v, lookup x env = Some v -> vrel known v v) ->
  n <= m ->
  decided (eval known n env a) ->
  orel known (eval known n env a) (eval known m env (optimize value_flags known fuel a)).
Proof. intros known fuel. exact (optimize_sound_cfg value_flags known fuel eq_refl). Qed.

Theorem optimize_sound_value_exact_lemma : forall known fuel n m env a,
  side_ok a = true ->
  (forall x v, lookup x env = Some v -> fo v = true) ->
  n <= m ->
  fo_outcome (eval known n env a) = true ->
  eval known m env (optimize value_flags known fuel a) = eval known n env a.
Proof. intros known fuel. exact (optimize_sound_cfg_exact value_flags known fuel eq_refl). Qed.

(* the strict optimizer (kept: it is an instance) *)
Theorem optimize_sound_value_strict_lemma : forall known fuel n m env a,
  side_ok a = true ->
  (forall x v, lookup x env = Some v -> vrel known v v) ->
  n <= m ->
  decided (eval known n env a) ->
  orel known (eval known n env a) (eval known m env (optimize (strict value_flags) known fuel a)).
Proof. intros known fuel. exact (optimize_sound_cfg (strict value_flags) known fuel eq_refl). Qed.
