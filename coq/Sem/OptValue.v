(* Soundness of the optimizer model for the flags of value.New(). *)
From P2 Require Import Base.Prelude Sem.Num Sem.Syntax Sem.Ops Sem.Lib Sem.Ref Sem.Gen Sem.Sim Sem.Opt
  Sem.OptRel Sem.OptOpsProofs Sem.OptSound Sem.OptFlagsProofs.

(* the strict optimizer with the flags of value.New(): every rule, including the closure-literal rule
   and the execution of constant closures and methods at Generate time; no side condition on the
   flags is left *)
Theorem optimize_sound_value_strict_lemma : forall known fuel n m env a,
  side_ok a = true ->
  (forall x v, lookup x env = Some v -> vrel known v v) ->
  n <= m ->
  decided (eval known n env a) ->
  wrel (vrel known) (eval known n env a) (eval known m env (optimize (strict value_flags) known fuel a)).
Proof.
  intros known fuel.
  exact (optimize_sound_strict (strict value_flags) known fuel
           (fold_agrees_all _) (regroup_exact_ok_strict _ regroup_exact_ok_value) eq_refl eq_refl eq_refl).
Qed.

(* the optimizer of the implementation (not strict), on every program on which it does what the strict
   one does, i.e. never keeps a computed constant that contains a closure (decidable per program) *)
Theorem optimize_sound_value_lemma : forall known fuel n m env a,
  optimize value_flags known fuel a = optimize (strict value_flags) known fuel a ->
  side_ok a = true ->
  (forall x v, lookup x env = Some v -> vrel known v v) ->
  n <= m ->
  decided (eval known n env a) ->
  wrel (vrel known) (eval known n env a) (eval known m env (optimize value_flags known fuel a)).
Proof.
  intros known fuel n m env a E. rewrite E. apply optimize_sound_value_strict_lemma.
Qed.

(* first-order arguments are related to themselves *)
Lemma fo_env_self known env :
  (forall x v, lookup x env = Some v -> fo v = true) -> forall x v, lookup x env = Some v -> vrel known v v.
Proof. intros H x v L. apply fo_ovrel. eauto. Qed.

Theorem optimize_sound_value_fo_lemma : forall known fuel n m env a,
  optimize value_flags known fuel a = optimize (strict value_flags) known fuel a ->
  side_ok a = true ->
  (forall x v, lookup x env = Some v -> fo v = true) ->
  n <= m ->
  decided (eval known n env a) ->
  wrel (vrel known) (eval known n env a) (eval known m env (optimize value_flags known fuel a)).
Proof.
  intros known fuel n m env a E C He. apply optimize_sound_value_lemma; auto. apply fo_env_self; auto.
Qed.
