(* Proofs about the operator model (Sem/Ops.v) against the specification side (Sem/OpsSpec.v). *)
From P2 Require Import Base.Prelude Base.PreludeProofs Sem.Num Sem.Syntax Sem.Ops Sem.Lib Sem.OpsSpec.
Require Import Lia ZifyBool.
Local Open Scope Z_scope.
