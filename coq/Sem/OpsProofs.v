(* The operators of Sem/Ops.v respect the value relation of the C01 simulation: they never look
   inside a closure, so related operands give related results (equal results where the result
   is a bool). *)
From P2 Require Import Base.Prelude Base.PreludeProofs Sem.Num Sem.Syntax Sem.Ops Sem.Lib Sem.Ref Sem.Gen Sem.Sim Sem.RelProofs.
Require Import Lia.
Local Open Scope Z_scope.

Ltac inv H := inversion H; subst; clear H.

(* ---------- association lists ---------- *)

Inductive orel_opt : option value -> option value -> Prop :=
| oo_none : orel_opt None None
| oo_some v1 v2 : vrel v1 v2 -> orel_opt (Some v1) (Some v2).

Lemma assoc_v_rel k m m' : Forall2 erel m m' -> orel_opt (assoc_v k m) (assoc_v k m').
Proof.
  induction 1 as [|[k1 v1] [k2 v2] m m' [Hk Hv] Hm IH]; simpl in *; [constructor|].
  subst. destruct (str_eqb k k2); auto. constructor; auto.
Qed.

(* ---------- equality ---------- *)

Definition veq_list :=
  fix go (la lb : list value) : res bool :=
    match la, lb with
    | x :: la', y :: lb' => match veq x y with Ok true => go la' lb' | r => r end
    | _, _ => Ok true
    end.

Definition veq_map (mb : list (str * value)) :=
  fix go (ma : list (str * value)) : res bool :=
    match ma with
    | (k, v) :: ma' =>
        worse (match assoc_v k mb with
               | Some o => veq v o
               | None => Ok false
               end) (go ma')
    | [] => Ok true
    end.

Lemma veq_VList la lb :
  veq (VList la) (VList lb) =
  if negb (Nat.eqb (length la) (length lb)) then Ok false else veq_list la lb.
Proof. reflexivity. Qed.

Lemma veq_VMap ma mb :
  veq (VMap ma) (VMap mb) =
  if negb (Nat.eqb (length ma) (length mb)) then Ok false else veq_map mb ma.
Proof. reflexivity. Qed.

Lemma eq_scalar_rel a a' b b' : vrel a a' -> vrel b b' -> eq_scalar a b = eq_scalar a' b'.
Proof. intros Ha Hb. inv Ha; inv Hb; reflexivity. Qed.

Lemma veq_rel : forall a a' b b', vrel a a' -> vrel b b' -> veq a b = veq a' b'.
Proof.
  induction a as [z|f|s|b0|l IH|m IH|ps b0 c s|t] using value_ind2; intros a' b b' Ha Hb.
  - inv Ha. inv Hb; reflexivity.
  - inv Ha. inv Hb; reflexivity.
  - inv Ha. inv Hb; reflexivity.
  - inv Ha. inv Hb; reflexivity.
  - inv Ha. rename l2 into l'. rename H0 into Hl.
    inv Hb; try reflexivity. rename l1 into lb. rename l2 into lb'. rename H into Hlb.
    rewrite !veq_VList.
    rewrite <- (Forall2_length' _ _ _ Hl), <- (Forall2_length' _ _ _ Hlb).
    destruct (negb (Nat.eqb (length l) (length lb))); auto.
    revert lb lb' Hlb. induction Hl as [|x x' l l' Hx Hl IHl]; intros lb lb' Hlb.
    + reflexivity.
    + inv IH. destruct Hlb as [|y y' lb lb' Hy Hlb]; [reflexivity|].
      cbn [veq_list]. rewrite (H1 _ _ _ Hx Hy). destruct (veq x' y') as [[|]| | | |]; auto.
  - inv Ha. rename m2 into m'. rename H0 into Hm.
    inv Hb; try reflexivity. rename m1 into mb. rename m2 into mb'. rename H into Hmb.
    rewrite !veq_VMap.
    rewrite <- (Forall2_length' _ _ _ Hm), <- (Forall2_length' _ _ _ Hmb).
    destruct (negb (Nat.eqb (length m) (length mb))); auto.
    induction Hm as [|[k v] [k' v'] m m' [Hk Hv] Hm IHm]; [reflexivity|].
    simpl in Hk, Hv. subst k'. inv IH. simpl in H1.
    cbn [veq_map]. f_equal; [|auto].
    destruct (assoc_v_rel k _ _ Hmb) as [|o o' Ho]; auto.
  - inv Ha. inv Hb; reflexivity.
  - inv Ha. inv Hb; reflexivity.
Qed.

Lemma equal_fg_rel a a' b b' : vrel a a' -> vrel b b' -> equal_fg a b = equal_fg a' b'.
Proof. apply veq_rel. Qed.

Lemma vless_rel a a' b b' : vrel a a' -> vrel b b' -> vless a b = vless a' b'.
Proof. intros Ha Hb. inv Ha; inv Hb; reflexivity. Qed.

Lemma to_string_rel a a' : vrel a a' -> to_string a = to_string a'.
Proof. intros Ha. inv Ha; reflexivity. Qed.

Lemma orel_rbool r : orel (rbool r) (rbool r).
Proof. destruct r; simpl; repeat constructor. Qed.

Lemma orel_bool b : orel (Ok (VBool b)) (Ok (VBool b)).
Proof. repeat constructor. Qed.

(* ---------- membership ---------- *)

Lemma contains_item_rel x x' l l' :
  vrel x x' -> Forall2 vrel l l' -> contains_item x l = contains_item x' l'.
Proof.
  intros Hx Hl. induction Hl as [|y y' l l' Hy Hl IH]; simpl; auto.
  rewrite (equal_fg_rel _ _ _ _ Hx Hy). destruct (equal_fg x' y') as [[|]| | | |]; auto.
Qed.

Lemma remove_first_equal_rel look look' v v' :
  Forall2 vrel look look' -> vrel v v' ->
  rrel (Forall2 vrel) (remove_first_equal look v) (remove_first_equal look' v').
Proof.
  intros Hl Hv. induction Hl as [|y y' l l' Hy Hl IH]; simpl.
  - repeat constructor.
  - rewrite (equal_fg_rel _ _ _ _ Hy Hv). destruct (equal_fg y' v') as [[|]| | | |]; try constructor; auto.
    destruct IH; constructor; auto.
Qed.

Lemma contains_all_rel l l' look look' :
  Forall2 vrel l l' -> Forall2 vrel look look' -> contains_all l look = contains_all l' look'.
Proof.
  intros Hl; revert look look'. induction Hl as [|v v' l l' Hv Hl IH]; intros look look' Hk; simpl.
  - destruct Hk; auto.
  - destruct (remove_first_equal_rel _ _ _ _ Hk Hv) as [r r' Hr| | | |]; auto.
    destruct Hr as [|a a' r r' Ha Hr]; auto.
Qed.

(* ---------- maps ---------- *)

Lemma first_dup_rel a a' b b' :
  Forall2 erel a a' -> Forall2 erel b b' -> first_dup a b = first_dup a' b'.
Proof.
  intros Ha Hb. induction Hb as [|[k v] [k' v'] b b' [Hk Hv] Hb IH]; simpl in *; auto.
  subst k'. destruct (assoc_v_rel k _ _ Ha); auto.
Qed.

Lemma map_merge_rel a a' b b' :
  Forall2 erel a a' -> Forall2 erel b b' -> orel (map_merge a b) (map_merge a' b').
Proof.
  intros Ha Hb. unfold map_merge. rewrite (first_dup_rel _ _ _ _ Ha Hb).
  assert (Hr : orel (Ok (VMap (a ++ b))) (Ok (VMap (a' ++ b')))).
  { constructor. constructor. apply Forall2_app'; auto. }
  destruct (first_dup a' b') as [k|]; auto. constructor.
Qed.

(* ---------- arithmetic ---------- *)

Lemma arith_rel fi ff a a' b b' :
  (forall x y, orel (fi x y) (fi x y)) ->
  vrel a a' -> vrel b b' -> orel (arith fi ff a b) (arith fi ff a' b').
Proof.
  intros Hfi Ha Hb. inv Ha; inv Hb; cbn; auto; try constructor.
  all: repeat match goal with
       | |- context [fl_of_int ?z] => destruct (fl_of_int z); cbn
       | |- context [ofl ?o _] => destruct o; cbn
       end; repeat constructor.
Qed.

Lemma orel_int z : orel (Ok (VInt z)) (Ok (VInt z)).
Proof. repeat constructor. Qed.

Lemma orel_err : orel (Err None) (Err None).
Proof. constructor. Qed.

Lemma orel_unsup : orel Unsup Unsup.
Proof. constructor. Qed.

#[export] Hint Resolve orel_int orel_bool orel_err orel_unsup orel_rbool : orel.

Lemma int_op_rel (g : Z -> Z -> res value) a a' b b' :
  (forall x y, orel (g x y) (g x y)) ->
  vrel a a' -> vrel b b' ->
  orel (match a, b with VInt x, VInt y => g x y | VErrText _, _ | _, VErrText _ => Unsup | _, _ => Err None end)
       (match a', b' with VInt x, VInt y => g x y | VErrText _, _ | _, VErrText _ => Unsup | _, _ => Err None end).
Proof. intros Hg Ha Hb. inv Ha; inv Hb; auto; constructor. Qed.

Lemma int_pow_refl x y : orel (int_pow x y) (int_pow x y).
Proof. unfold int_pow. repeat match goal with |- context [if ?c then _ else _] => destruct c end; repeat constructor. Qed.
Lemma int_shl_refl x y : orel (int_shl x y) (int_shl x y).
Proof. unfold int_shl. repeat match goal with |- context [if ?c then _ else _] => destruct c end; repeat constructor. Qed.
Lemma int_shr_refl x y : orel (int_shr x y) (int_shr x y).
Proof. unfold int_shr. repeat match goal with |- context [if ?c then _ else _] => destruct c end; repeat constructor. Qed.
Lemma int_mod_refl x y : orel (int_mod x y) (int_mod x y).
Proof. unfold int_mod. repeat match goal with |- context [if ?c then _ else _] => destruct c end; repeat constructor. Qed.

(* ---------- the operator table ---------- *)

Theorem calc_rel op a a' b b' : vrel a a' -> vrel b b' -> orel (calc op a b) (calc op a' b').
Proof.
  intros Ha Hb. unfold calc.
  destruct (str_eqb op op_or). { inv Ha; inv Hb; repeat constructor. }
  destruct (str_eqb op op_and). { inv Ha; inv Hb; repeat constructor. }
  destruct (str_eqb op op_eq). { rewrite (veq_rel _ _ _ _ Ha Hb). apply orel_rbool. }
  destruct (str_eqb op op_ne).
  { rewrite (veq_rel _ _ _ _ Ha Hb). destruct (veq a' b'); repeat constructor. }
  destruct (str_eqb op op_in).
  { inv Hb.
    - inv Ha; repeat constructor.
    - inv Ha; repeat constructor.
    - inv Ha; repeat constructor.
      all: try (destruct (contains_str s s0); repeat constructor).
    - inv Ha; repeat constructor.
    - destruct t as [t|]; inv Ha; repeat constructor.
      destruct (contains_str t s); repeat constructor.
    - inv Ha; try (apply orel_rbool).
      all: try (erewrite contains_item_rel; [apply orel_rbool| |eassumption]; constructor; eauto; fail).
      unfold contains_all_repr.
      match goal with Hl : Forall2 vrel ?l ?l', Hk : Forall2 vrel ?k ?k' |- context [contains_all ?l ?k] =>
        rewrite <- (Forall2_length' _ _ _ Hl), <- (Forall2_length' _ _ _ Hk);
        destruct (true && Nat.ltb (length l) (length k)); [repeat constructor|];
        erewrite contains_all_rel; [apply orel_rbool|eassumption|eassumption] end.
    - inv Ha; repeat constructor.
      destruct (assoc_v_rel s _ _ H); repeat constructor.
    - inv Ha; repeat constructor. }
  destruct (str_eqb op op_lt). { rewrite (vless_rel _ _ _ _ Ha Hb). apply orel_rbool. }
  destruct (str_eqb op op_gt). { rewrite (vless_rel _ _ _ _ Hb Ha). apply orel_rbool. }
  destruct (str_eqb op op_le).
  { rewrite (vless_rel _ _ _ _ Ha Hb), (veq_rel _ _ _ _ Ha Hb).
    destruct (vless a' b') as [[|]| | | |]; try apply orel_rbool; repeat constructor. }
  destruct (str_eqb op op_ge).
  { rewrite (vless_rel _ _ _ _ Hb Ha), (veq_rel _ _ _ _ Ha Hb).
    destruct (vless b' a') as [[|]| | | |]; try apply orel_rbool; repeat constructor. }
  destruct (str_eqb op op_add).
  { assert (Har : orel (arith (fun x y => Ok (VInt (wrap64 (x + y)))) fl_add a b)
                       (arith (fun x y => Ok (VInt (wrap64 (x + y)))) fl_add a' b')).
    { apply arith_rel; auto. intros; apply orel_int. }
    inv Ha; auto.
    - rewrite (to_string_rel _ _ Hb). destruct (to_string b'); repeat constructor.
    - inv Hb; auto. constructor. constructor. apply Forall2_app'; auto.
    - inv Hb; auto. apply map_merge_rel; auto. }
  destruct (str_eqb op op_sub). { apply arith_rel; auto. intros; apply orel_int. }
  destruct (str_eqb op op_shl). { apply int_op_rel; auto. apply int_shl_refl. }
  destruct (str_eqb op op_shr). { apply int_op_rel; auto. apply int_shr_refl. }
  destruct (str_eqb op op_mul). { apply arith_rel; auto. intros; apply orel_int. }
  destruct (str_eqb op op_mod). { apply int_op_rel; auto. apply int_mod_refl. }
  destruct (str_eqb op op_div).
  { apply arith_rel; auto. intros x y. destruct (fl_of_int x), (fl_of_int y); try constructor.
    destruct (fl_div f f0); repeat constructor. }
  destruct (str_eqb op op_pow).
  { inv Ha; inv Hb; cbn; try constructor. apply int_pow_refl. }
  constructor.
Qed.

Theorem ucalc_rel op a a' : vrel a a' -> orel (ucalc op a) (ucalc op a').
Proof.
  intros Ha. unfold ucalc.
  destruct (str_eqb op op_sub). { inv Ha; repeat constructor. }
  destruct (str_eqb op op_not). { inv Ha; repeat constructor. }
  constructor.
Qed.

Theorem access_list_rel l l' i i' : vrel l l' -> vrel i i' -> orel (access_list l i) (access_list l' i').
Proof.
  intros Hl Hi. inv Hl; try (simpl; constructor; fail).
  inv Hi; simpl; try constructor.
  destruct (z <? 0); [constructor|].
  rewrite <- (Forall2_length' _ _ _ H).
  destruct (Z.of_nat (length l1) <=? z); [constructor|].
  destruct (nth_error l1 (Z.to_nat z)) eqn:E1.
  - destruct (Forall2_nth _ _ _ _ _ H E1) as (w & -> & Hw). constructor; auto.
  - assert (E2 : nth_error l2 (Z.to_nat z) = None).
    { apply nth_error_None. apply nth_error_None in E1. rewrite <- (Forall2_length' _ _ _ H). auto. }
    rewrite E2. constructor.
Qed.

Theorem access_map_rel m m' key : vrel m m' -> orel (access_map m key) (access_map m' key).
Proof.
  intros Hm. inv Hm; try (simpl; constructor; fail).
  simpl. destruct (assoc_v_rel key _ _ H); constructor; auto.
Qed.
