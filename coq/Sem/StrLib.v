(* The string methods of value.New() (value/string.go createStringMethods) as pure functions on code
   point lists, and their dispatch [run_str_method] for the semantic core (Sem/Lib.v run_method).
   The functions are shared with the C07 implementation models (Lib/Builtins.v re-exports them through
   Sem/Lib.v; Run/C07Run.v run_string calls the same definitions).
   Where the Go code depends on Unicode tables (TrimSpace, ToLower, ToUpper) only ASCII strings are
   modelled; everything else answers Unsup (the case is skipped). *)
From P2 Require Import Base.Prelude Sem.Num Sem.Syntax Sem.Ops.
Local Open Scope Z_scope.

Definition n_trim : str := [116;114;105;109]%N.
Definition n_toLower : str := [116;111;76;111;119;101;114]%N.
Definition n_toUpper : str := [116;111;85;112;112;101;114]%N.
Definition n_contains : str := [99;111;110;116;97;105;110;115]%N.
Definition n_indexOf : str := [105;110;100;101;120;79;102]%N.
Definition n_split : str := [115;112;108;105;116]%N.
Definition n_cut : str := [99;117;116]%N.
Definition n_behind : str := [98;101;104;105;110;100]%N.
Definition n_behindList : str := [98;101;104;105;110;100;76;105;115;116]%N.
Definition n_replace : str := [114;101;112;108;97;99;101]%N.
Definition n_toInt : str := [116;111;73;110;116]%N.

(* ---------- string methods (on code points; byte offsets where Go counts bytes) ---------- *)

Definition rune_len (c : N) : Z :=
  (if (c <? 128)%N then 1 else if (c <? 2048)%N then 2 else if (c <? 65536)%N then 3 else 4).

(* strings.Index: BYTE offset of the first occurrence, -1 if there is none *)
Fixpoint index_of (s p : str) (off : Z) : Z :=
  if is_prefix p s then off
  else match s with [] => -1 | c :: s' => index_of s' p (off + rune_len c) end.

(* strings.Split with a non-empty separator *)
Fixpoint split_go (sep : str) (skip : nat) (cur : str) (s : str) : list str :=
  match s with
  | [] => [rev cur]
  | c :: s' =>
      match skip with
      | S k => split_go sep k cur s'
      | O => if is_prefix sep s then rev cur :: split_go sep (length sep - 1) [] s'
             else split_go sep 0 (c :: cur) s'
      end
  end.

Definition str_split (s sep : str) : list str :=
  match sep with
  | [] => map (fun c => [c]) s           (* explode into code points; "" gives no item at all *)
  | _ => split_go sep 0 [] s
  end.

(* strings.Replace(s, old, new, -1) *)
Fixpoint replace_go (old new : str) (skip : nat) (s : str) : str :=
  match s with
  | [] => []
  | c :: s' =>
      match skip with
      | S k => replace_go old new k s'
      | O => if is_prefix old s then new ++ replace_go old new (length old - 1) s'
             else c :: replace_go old new 0 s'
      end
  end.

Definition str_replace (s old new : str) : str :=
  match old with
  | [] => new ++ flat_map (fun c => c :: new) s
  | _ => replace_go old new 0 s
  end.

(* String.Cut (after the repair: an empty receiver gives ""): skip p code points, then take n,
   n <= 0 takes the rest *)
Definition str_cut (s : str) (p n : Z) : str :=
  match s with
  | [] => []
  | _ =>
      let s1 := if p <=? 0 then s
                else if Z.of_nat (length s) <=? p then [] else skipn (Z.to_nat p) s in
      if n <=? 0 then s1
      else if Z.of_nat (length s1) <=? n then s1 else firstn (Z.to_nat n) s1
  end.

Definition is_ascii (s : str) : bool := forallb (fun c => (c <? 128)%N) s.
Definition is_space (c : N) : bool := ((9 <=? c) && (c <=? 13) || (c =? 32))%N.

Fixpoint trim_left (s : str) : str :=
  match s with c :: r => if is_space c then trim_left r else s | [] => [] end.

(* strings.TrimSpace / ToLower / ToUpper: modelled on ASCII strings only *)
Definition str_trim (s : str) : res str :=
  if is_ascii s then Ok (rev (trim_left (rev (trim_left s)))) else Unsup.
Definition str_lower (s : str) : res str :=
  if is_ascii s then Ok (map (fun c => if (65 <=? c) && (c <=? 90) then c + 32 else c)%N s) else Unsup.
Definition str_upper (s : str) : res str :=
  if is_ascii s then Ok (map (fun c => if (97 <=? c) && (c <=? 122) then c - 32 else c)%N s) else Unsup.

(* strconv.Atoi: [+-]digits, value in int64 *)
Fixpoint parse_digits (s : str) (acc : Z) : option Z :=
  match s with
  | [] => Some acc
  | c :: r => if ((48 <=? c) && (c <=? 57))%N then parse_digits r (acc * 10 + (Z.of_N c - 48)) else None
  end.

(* the optional sign in front of a numeral: (negative?, rest) *)
Definition split_sign (s : str) : bool * str :=
  match s with
  | c :: r => if (c =? 45)%N then (true, r) else if (c =? 43)%N then (false, r) else (false, s)
  | [] => (false, [])
  end.

Definition str_to_int (s : str) : res value :=
  let '(neg, ds) := split_sign s in
  match ds with
  | [] => Err None
  | _ => match parse_digits ds 0 with
         | Some z => let v := if neg then - z else z in
                     if in_int64 v then Ok (VInt v) else Err None
         | None => Err None
         end
  end.


(* String.Behind: the first line (split at "\n") that contains the prefix gives the text behind the first
   occurrence of the prefix, with TrimSpace applied (ASCII only); no such line gives "" *)
Fixpoint after_first (p s : str) : option str :=
  if is_prefix p s then Some (skipn (length p) s)
  else match s with [] => None | _ :: s' => after_first p s' end.

Fixpoint behind_lines (pre : str) (ls : list str) : res str :=
  match ls with
  | [] => Ok []
  | e :: r => match after_first pre e with Some t => str_trim t | None => behind_lines pre r end
  end.

Definition str_behind (s pre : str) : res str := behind_lines pre (str_split s [10%N]).

(* String.BehindList: the trimmed lines that follow the first line equal (after trimming both) to the
   header, up to the first empty (after trimming) line.  ASCII only. *)
Definition trim_raw (s : str) : str := rev (trim_left (rev (trim_left s))).

Fixpoint bl_take (ls : list str) : list str :=
  match ls with
  | [] => []
  | l :: r => match trim_raw l with [] => [] | t => t :: bl_take r end
  end.

Fixpoint bl_find (key : str) (ls : list str) : list str :=
  match ls with
  | [] => []
  | l :: r => if str_eqb (trim_raw l) key then bl_take r else bl_find key r
  end.

Definition str_behindList (s kl : str) : res (list str) :=
  if is_ascii s && is_ascii kl then Ok (bl_find (trim_raw kl) (str_split s [10%N])) else Unsup.

(* ---------- dispatch ---------- *)

(* all a string method ever looks at in an argument: an Int, a String, the opaque text of a caught
   error (a String whose content the model does not know), or anything else *)
Inductive sarg := SInt (z : Z) | SStr (s : str) | SErrT | SOther.

Definition sarg_of (v : value) : sarg :=
  match v with VInt z => SInt z | VStr s => SStr s | VErrText _ => SErrT | _ => SOther end.

(* all a string method ever returns *)
Inductive sres := RStr (s : str) | RInt (z : Z) | RBool (b : bool) | RStrs (l : list str).

Definition sres_val (r : sres) : value :=
  match r with RStr s => VStr s | RInt z => VInt z | RBool b => VBool b | RStrs l => VList (map VStr l) end.

(* "if s2, ok := st.Get(i).(String); ok ... else error" *)
Definition with_s (a : sarg) (k : str -> res sres) : res sres :=
  match a with SStr p => k p | SErrT => Unsup | _ => Err None end.
Definition with_i (a : sarg) (k : Z -> res sres) : res sres :=
  match a with SInt z => k z | SErrT => Unsup | _ => Err None end.

Definition run_str_core (mname : name) (s : str) (args : list sarg) : res sres :=
  if str_eqb mname n_trim then bind (str_trim s) (fun r => Ok (RStr r))
  else if str_eqb mname n_toLower then bind (str_lower s) (fun r => Ok (RStr r))
  else if str_eqb mname n_toUpper then bind (str_upper s) (fun r => Ok (RStr r))
  else if str_eqb mname n_contains then
    match args with [a] => with_s a (fun p => Ok (RBool (contains_str s p))) | _ => Err None end
  else if str_eqb mname n_indexOf then
    match args with [a] => with_s a (fun p => Ok (RInt (index_of s p 0))) | _ => Err None end
  else if str_eqb mname n_split then
    match args with [a] => with_s a (fun p => Ok (RStrs (str_split s p))) | _ => Err None end
  else if str_eqb mname n_cut then
    match args with
    | [p; n] => with_i p (fun p => with_i n (fun n => Ok (RStr (str_cut s p n))))
    | _ => Err None
    end
  else if str_eqb mname n_behind then
    match args with [a] => with_s a (fun p => bind (str_behind s p) (fun r => Ok (RStr r))) | _ => Err None end
  else if str_eqb mname n_behindList then
    match args with [a] => with_s a (fun p => bind (str_behindList s p) (fun r => Ok (RStrs r))) | _ => Err None end
  else if str_eqb mname n_replace then
    match args with
    | [o; n] => with_s o (fun o => with_s n (fun n => Ok (RStr (str_replace s o n))))
    | _ => Err None
    end
  else if str_eqb mname n_toInt then
    match str_to_int s with
    | Ok (VInt z) => Ok (RInt z)
    | Ok _ => Unsup
    | Err t => Err t | Panic => Panic | OOF => OOF | Unsup => Unsup
    end
  else Unsup.

(* number of arguments as in the method table; None = not modelled here *)
Definition str_method_args (mname : name) : option nat :=
  if str_eqb mname n_trim || str_eqb mname n_toLower || str_eqb mname n_toUpper || str_eqb mname n_toInt
  then Some 0%nat
  else if str_eqb mname n_contains || str_eqb mname n_indexOf || str_eqb mname n_split
          || str_eqb mname n_behind || str_eqb mname n_behindList
  then Some 1%nat
  else if str_eqb mname n_cut || str_eqb mname n_replace then Some 2%nat
  else None.

Definition run_str_method (mname : name) (s : str) (args : list value) : res value :=
  bind (run_str_core mname s (map sarg_of args)) (fun r => Ok (sres_val r)).

Definition modelled_str_methods : list name :=
  [n_trim; n_toLower; n_toUpper; n_contains; n_indexOf; n_split; n_cut; n_behind; n_behindList;
   n_replace; n_toInt].
