(* C01, theorem T1: the slot discipline of the generator (Sem/Gen.v) implements the lexically scoped
   reference semantics (Sem/Ref.v).  Lock-step simulation by induction on the fuel only. *)
From P2 Require Import Base.Prelude Base.PreludeProofs Sem.Num Sem.Syntax Sem.Ops Sem.Lib Sem.Ref Sem.Gen
     Sem.Sim Sem.RelProofs Sem.OpsProofs Sem.LibProofs.
Require Import Lia.

(* ---------- Ref.eval / Gen.exec unfold to the named step functions ---------- *)

Lemma eval_S known f env a : eval known (S f) env a = ref_step known (eval known f) env a.
Proof. reflexivity. Qed.

Lemma exec_S known f am cm st offs size cs a :
  exec known (S f) am cm st offs size cs a = gen_step known (exec known f) am cm offs size cs st a.
Proof. reflexivity. Qed.

(* ---------- the frame of a closure call ---------- *)

Lemma pushedv_self vs : pushedv vs 0 vs.
Proof. intros j v Hj. exact Hj. Qed.

Lemma frame_ok_call ps b c1 c2 s1 s2 vs1 vs2 stk base :
  vrel (VClo ps b c1 s1) (VClo ps b c2 s2) ->
  Forall2 vrel vs1 vs2 -> length vs2 = length ps ->
  base + length ps <= length stk -> pushedv stk base vs2 ->
  frame_ok (map Some ps) (clo_cm c2 s2) stk base (length ps)
           (clo_cs c2 s2 (VClo ps b c2 s2))
           (combine ps vs1 ++ self_binding s1 (VClo ps b c1 s1) ++ c1).
Proof.
  intros Hc Hvs Lvs Hb Hp.
  assert (Lvs1 : length vs1 = length ps) by (rewrite (Forall2_length' _ _ _ Hvs); auto).
  inversion Hc as [| | | | | | |ps' b' c1' c2' s1' s2' HA HB HW]; subst.
  split. { apply map_length. } split; [exact Hb|].
  intros x Hx. unfold resolve. rewrite index_of_map_some.
  destruct (index_of str_eqb x ps) eqn:Ei.
  - assert (Hi := index_of_some_lt _ _ _ _ Ei).
    destruct (nth_error vs2 n) as [v2|] eqn:E2; [|apply nth_error_None in E2; unfold name in *; lia].
    destruct (Forall2_nth_r _ _ _ _ _ Hvs E2) as (v1 & E1 & Hv).
    exists v1, v2. split; [|split; auto].
    apply lookup_app_some. rewrite (lookup_combine ps vs1 x n); auto.
  - assert (Hn : ~ In x ps).
    { intros Hin. destruct (index_of_str_in _ _ Hin) as [i Hi]. congruence. }
    assert (Hcm : In x (clo_cm c2 s2)).
    { destruct Hx as [Hx|Hx]; auto. apply in_map_iff in Hx. destruct Hx as (y & [= ->] & Hy). tauto. }
    rewrite lookup_app_notin by (rewrite combine_keys; auto).
    unfold clo_cm, clo_cs in *.
    destruct (index_of str_eqb x (map fst c2)) eqn:Ec.
    + rewrite (index_of_str_app_l _ _ _ _ Ec).
      assert (Hi := index_of_some_lt _ _ _ _ Ec). rewrite map_length in Hi.
      rewrite nth_error_app1 by (rewrite map_length; auto).
      rewrite (lookup_index _ _ _ Ec).
      destruct (lookup_in_some x c2 (index_of_str_some_in _ _ _ Ec)) as [v2 Hv2].
      destruct (HA _ _ Hv2) as [Hs (v1 & Hv1 & Hv)].
      exists v1, v2. split; [|split; auto].
      destruct s1 as [|n1 s1']; [exact Hv1|].
      cbn [self_binding app]. rewrite lookup_cons.
      destruct Hs as [Hs|Hs]; [discriminate|]. rewrite (str_eqb_neq _ _ Hs). exact Hv1.
    + assert (Hnc : ~ In x (map fst c2)).
      { intros Hin. destruct (index_of_str_in _ _ Hin) as [i Hi]. congruence. }
      apply in_app_iff in Hcm. destruct Hcm as [Hcm|Hcm]; [tauto|].
      rewrite index_of_str_app_r by auto.
      destruct s2 as [|n2 s2']; [destruct Hcm|].
      destruct Hcm as [<-|[]].
      destruct HB as [HB|HB]; [discriminate|]. subst s1.
      cbn [index_of]. rewrite str_eqb_refl. cbn [option_map].
      rewrite nth_error_app2 by (rewrite !map_length; lia).
      rewrite !map_length. replace (length c2 + 0 - length c2) with 0 by lia.
      exists (VClo ps b c1 (n2 :: s2')), (VClo ps b c2 (n2 :: s2')).
      split; [|split; [reflexivity|exact Hc]].
      cbn [self_binding app]. rewrite lookup_cons, str_eqb_refl. reflexivity.
Qed.

(* ---------- the cases, with the recursive calls abstracted ---------- *)

Ltac sb := eauto 6 using same_below_refl, same_below_trans.

Section Cases.
Variable known : list (N * list name).
Variable ev : list (name * value) -> ast -> res value.
Variable E : exec_t.
Hypothesis H : SimAt ev E.

(* the induction hypothesis, used after the storage has evolved from st to st1 *)
Lemma sim_then a env am cm st st1 offs size cs :
  frame_ok am cm st offs size cs env -> same_below (offs + size) st st1 -> wf am cm a ->
  orel (ev env a) (fst (E am cm st1 offs size cs a)) /\
  same_below (offs + size) st (snd (E am cm st1 offs size cs a)).
Proof.
  intros F S W. destruct (H a env am cm st1 offs size cs (frame_ok_same _ _ _ _ _ _ _ _ F S) W) as [O S1].
  split; auto. eapply same_below_trans; eauto.
Qed.

(* evaluate sub-expression: names for the related values, the new storage and its invariant;
   the cases in which the sub-expression does not give a value are closed *)
Ltac sim_step F S W v1 v2 Hv st1 S1 :=
  let O := fresh "O" in
  destruct (sim_then _ _ _ _ _ _ _ _ _ F S W) as [O S1];
  match type of O with
  | orel _ (fst ?p) =>
      let r := fresh "r" in
      destruct p as [r st1]; cbn [fst snd] in O, S1;
      destruct O as [v1 v2 Hv|?t| | |]; cbn [bind fst snd];
      [ | split; [constructor|exact S1] .. ]
  end.

Lemma sim_app c c' vs vs' :
  vrel c c' -> Forall2 vrel vs vs' -> orel (r_app ev c vs) (g_app E c' vs').
Proof.
  intros Hc Hvs. assert (L := Forall2_length' _ _ _ Hvs).
  inversion Hc as [| | | | | | |ps b c1 c2 s1 s2 HA HB HW]; subst; cbn [r_app g_app]; try constructor.
  rewrite L. destruct (Nat.eqb (length vs') (length ps)) eqn:El; [|constructor].
  apply Nat.eqb_eq in El. rewrite El.
  apply H; auto.
  apply frame_ok_call with (vs2 := vs'); auto; try lia. apply pushedv_self.
Qed.

Lemma sim_call ps b c1 c2 s1 s2 vs1 vs2 stk base :
  vrel (VClo ps b c1 s1) (VClo ps b c2 s2) ->
  Forall2 vrel vs1 vs2 -> length vs2 = length ps ->
  base + length ps <= length stk -> pushedv stk base vs2 ->
  orel (r_app ev (VClo ps b c1 s1) vs1) (fst (g_call E (VClo ps b c2 s2) (length ps) stk base)) /\
  same_below (base + length ps) stk (snd (g_call E (VClo ps b c2 s2) (length ps) stk base)).
Proof.
  intros Hc Hvs L Hb Hp. cbn [r_app g_call].
  rewrite (Forall2_length' _ _ _ Hvs), L, Nat.eqb_refl.
  apply H; [apply frame_ok_call with (vs2 := vs2); auto|].
  inversion Hc; subst; auto.
Qed.

Section Frame.
Variable env : list (name * value).
Variable am : list (option name).
Variable cm : list name.
Variable st : list value.
Variables offs size : nat.
Variable cs : list value.
Hypothesis F : frame_ok am cm st offs size cs env.

Lemma sim_plain : forall l st1,
  same_below (offs + size) st st1 -> wf_list (wf am cm) l ->
  rrel (Forall2 vrel) (r_list ev env l) (fst (g_plain E am cm offs size cs l st1)) /\
  same_below (offs + size) st (snd (g_plain E am cm offs size cs l st1)).
Proof.
  induction l as [|x l IH]; intros st1 S W; cbn [r_list g_plain].
  - split; [repeat constructor|exact S].
  - destruct W as [Wx Wl].
    sim_step F S Wx v1 v2 Hv st2 S2.
    destruct (IH st2 S2 Wl) as [Ol Sl].
    destruct (g_plain E am cm offs size cs l st2) as [rl st3]. cbn [fst snd] in *.
    destruct Ol; cbn [bind fst snd]; split; auto; constructor; auto.
Qed.

Lemma sim_switch sv1 sv2 d : vrel sv1 sv2 -> wf am cm d -> forall cases st1,
  same_below (offs + size) st st1 -> wf_cases (wf am cm) cases ->
  orel (r_switch ev env sv1 d cases) (fst (g_switch E am cm offs size cs sv2 d cases st1)) /\
  same_below (offs + size) st (snd (g_switch E am cm offs size cs sv2 d cases st1)).
Proof.
  intros Hsv Wd. induction cases as [|[cc cr] cases IH]; intros st1 S W; cbn [r_switch g_switch].
  - apply sim_then; auto.
  - destruct W as (Wc & Wr & Wl).
    sim_step F S Wc cv1 cv2 Hcv st2 S2.
    rewrite (equal_fg_rel _ _ _ _ Hsv Hcv).
    destruct (equal_fg sv2 cv2) as [[|]| | | |]; cbn [fst snd]; try (split; [constructor|exact S2]).
    + apply sim_then; auto.
    + apply IH; auto.
Qed.

Lemma sim_map : forall m acc1 acc2 st1,
  same_below (offs + size) st st1 -> wf_entries (wf am cm) m -> Forall2 erel acc1 acc2 ->
  orel (r_map ev env m acc1) (fst (g_map E am cm offs size cs m st1 acc2)) /\
  same_below (offs + size) st (snd (g_map E am cm offs size cs m st1 acc2)).
Proof.
  induction m as [|[k x] m IH]; intros acc1 acc2 st1 S W Ha; cbn [r_map g_map].
  - split; [repeat constructor; auto|exact S].
  - destruct W as [Wx Wl].
    sim_step F S Wx v1 v2 Hv st2 S2.
    apply IH; auto. apply Forall2_app'; auto. constructor; [split; auto|constructor].
Qed.

(* call arguments: argument number |acc| is compiled with kb + |acc| reserved slots and pushed at
   offs + size + kb + |acc|; kb = 1 when a method receiver has been pushed before *)
Lemma sim_args kb : forall l acc1 acc2 stk,
  wf_list (wf am cm) l -> Forall2 vrel acc1 acc2 ->
  same_below (offs + size) st stk ->
  offs + size + kb + length acc2 <= length stk ->
  pushedv stk (offs + size + kb) acc2 ->
  exists r2 st2,
    g_args E am cm offs size cs l (kb + length acc2) stk acc2 = (r2, st2) /\
    rrel (fun vs1 vs2 => Forall2 vrel (acc1 ++ vs1) vs2 /\ length vs2 = length acc2 + length l /\
                         offs + size + kb + length vs2 <= length st2 /\
                         pushedv st2 (offs + size + kb) vs2)
         (r_list ev env l) r2 /\
    same_below (offs + size) st st2.
Proof.
  induction l as [|x l IH]; intros acc1 acc2 stk W Ha Ss Hb Hp; cbn [r_list g_args].
  - exists (Ok acc2), stk. split; auto. split; auto.
    constructor. rewrite app_nil_r. cbn [length]. repeat split; auto; lia.
  - destruct W as [Wx Wl].
    set (k := kb + length acc2) in *.
    assert (Fk : frame_ok (am ++ repeat None k) cm stk offs (size + k) cs env).
    { apply frame_ok_reserved; [|unfold k; lia]. exact (frame_ok_same _ _ _ _ _ _ _ _ F Ss). }
    destruct (H x env _ cm stk offs (size + k) cs Fk (wf_reserved _ _ _ k Wx)) as [Ox Sx].
    destruct (E (am ++ repeat None k) cm stk offs (size + k) cs x) as [rx stx]. cbn [fst snd] in *.
    assert (Sst : same_below (offs + size) st stx).
    { eapply same_below_trans; [exact Ss|]. eapply same_below_le; [|exact Sx]. lia. }
    destruct Ox as [v1 v2 Hv|t| | |]; cbn [bind];
      try (eexists _, stx; split; [reflexivity|split; [constructor|exact Sst]]; fail).
    destruct Sx as [Lx Nx].
    destruct (IH (acc1 ++ [v1]) (acc2 ++ [v2]) (set_slot stx (offs + size + k) v2)) as (r2 & st2 & E2 & O2 & S2); auto.
    + apply Forall2_app'; auto.
    + eapply same_below_trans; [exact Sst|]. apply same_below_set; lia.
    + rewrite length_set by lia. rewrite app_length. cbn [length]. unfold k in *. lia.
    + intros j w Hj. destruct (Nat.eq_dec j (length acc2)) as [->|Hne].
      * rewrite nth_error_app2 in Hj by lia. rewrite Nat.sub_diag in Hj. cbn in Hj.
        inversion Hj; subst w.
        replace (offs + size + kb + length acc2) with (offs + size + k) by (unfold k; lia).
        apply nth_set_eq. lia.
      * assert (Hlt : (j < length acc2)%nat).
        { assert (Hl : (j < length (acc2 ++ [v2]))%nat) by (apply nth_error_Some; congruence).
          rewrite app_length in Hl; cbn [length] in Hl. lia. }
        rewrite nth_error_app1 in Hj by lia.
        rewrite nth_set_lt by (unfold k; lia). rewrite Nx by (unfold k; lia). apply Hp; auto.
    + replace (kb + length (acc2 ++ [v2])) with (S k) in E2
        by (rewrite app_length; cbn [length]; unfold k; lia).
      exists r2, st2. split; [exact E2|]. split; [|exact S2].
      destruct O2 as [vs1 vs2 (A1 & A2 & A3 & A4)|t| | |]; cbn [bind]; constructor.
      rewrite <- app_assoc in A1. cbn [app] in A1.
      rewrite app_length in A2. cbn [length] in *. repeat split; auto; lia.
Qed.

End Frame.

(* ---------- one lemma per construct ---------- *)

Definition StepOK (a : ast) : Prop :=
  forall env am cm st offs size cs,
    frame_ok am cm st offs size cs env -> wf am cm a ->
    orel (ref_step known ev env a) (fst (gen_step known E am cm offs size cs st a)) /\
    same_below (offs + size) st (snd (gen_step known E am cm offs size cs st a)).

Lemma step_const v : StepOK (AConst v).
Proof.
  intros env am cm st offs size cs F W. cbn [ref_step gen_step fst snd].
  split; [constructor; apply cwf_vrel; exact W|apply same_below_refl].
Qed.

Lemma step_ident x : StepOK (AIdent x).
Proof.
  intros env am cm st offs size cs F W. cbn [ref_step gen_step fst snd].
  split; [|apply same_below_refl].
  destruct F as (_ & _ & R). destruct (R x W) as (v1 & v2 & A1 & A2 & A3).
  rewrite A1, A2. constructor; auto.
Qed.

Lemma step_let x v b : StepOK (ALet x v b).
Proof.
  intros env am cm st offs size cs F W. cbn [ref_step gen_step].
  destruct W as (W1 & W2 & W3).
  sim_step F (same_below_refl (offs + size) st) W1 v1 v2 Hv st1 S1.
  assert (F1 := frame_ok_same _ _ _ _ _ _ _ _ F S1).
  assert (F2 := frame_ok_let _ _ _ _ _ _ _ x v1 v2 F1 W2 Hv).
  destruct (H _ _ _ _ _ _ _ _ F2 W3) as [O2 S2].
  split; [exact O2|].
  eapply same_below_trans; [exact S1|].
  destruct F1 as (_ & B & _).
  eapply same_below_trans; [apply (same_below_set (offs + size) st1 (offs + size) v2); lia|].
  eapply same_below_le; [|exact S2]. lia.
Qed.

Lemma step_if c t e : StepOK (AIf c t e).
Proof.
  intros env am cm st offs size cs F W. cbn [ref_step gen_step].
  destruct W as (W1 & W2 & W3).
  sim_step F (same_below_refl (offs + size) st) W1 v1 v2 Hv st1 S1.
  inversion Hv; subst; cbn [fst snd]; try (split; [constructor|exact S1]).
  destruct b; apply sim_then; auto.
Qed.

Lemma step_switch v cases d : StepOK (ASwitch v cases d).
Proof.
  intros env am cm st offs size cs F W. cbn [ref_step gen_step].
  destruct W as (W1 & W2 & W3).
  sim_step F (same_below_refl (offs + size) st) W1 v1 v2 Hv st1 S1.
  apply sim_switch; auto.
Qed.

Lemma step_try t c : StepOK (ATry t c).
Proof.
  intros env am cm st offs size cs F W. cbn [ref_step gen_step].
  destruct W as (W1 & W2).
  destruct (sim_then _ _ _ _ _ _ _ _ _ F (same_below_refl (offs + size) st) W1) as [O S1].
  destruct (E am cm st offs size cs t) as [r st1]. cbn [fst snd] in O, S1.
  destruct O as [v1 v2 Hv|thrown| | |]; cbn [fst snd];
    try (split; [constructor; auto|exact S1]; fail).
  sim_step F S1 W2 cv1 cv2 Hcv st2 S2.
  inversion Hcv as [| | | | | | |ps b c1 c2 s1 s2 HA HB HW]; subst; cbn [fst snd];
    try (split; [constructor; auto|exact S2]; fail).
  destruct ps as [|p [|q ps]]; try (split; [constructor; auto|exact S2]; fail).
  assert (B2 : offs + size <= length st2) by (destruct F as (_ & B & _); destruct S2; lia).
  destruct (sim_call [p] b c1 c2 s1 s2 [VErrText thrown] [VErrText thrown]
              (set_slot st2 (offs + size) (VErrText thrown)) (offs + size)) as [Oc Sc]; auto.
  - repeat constructor.
  - rewrite length_set by lia. cbn [length]. lia.
  - intros [|j] w Hj; cbn in Hj; [|destruct j; discriminate].
    inversion Hj; subst. rewrite Nat.add_0_r. apply nth_set_eq. lia.
  - split; [exact Oc|].
    eapply same_below_trans; [exact S2|].
    eapply same_below_trans; [apply (same_below_set (offs + size) st2 (offs + size)); lia|].
    eapply same_below_le; [|exact Sc]. lia.
Qed.

Lemma step_unary op x : StepOK (AUnary op x).
Proof.
  intros env am cm st offs size cs F W. cbn [ref_step gen_step]. cbn [wf] in W.
  sim_step F (same_below_refl (offs + size) st) W v1 v2 Hv st1 S1.
  split; [apply ucalc_rel; auto|exact S1].
Qed.

Lemma step_plain_op op x y env am cm st offs size cs :
  frame_ok am cm st offs size cs env -> wf am cm x -> wf am cm y ->
  orel (bind (ev env x) (fun av => bind (ev env y) (fun bv => calc op av bv)))
       (fst (match E am cm st offs size cs x with
             | (Ok av, st1) =>
                 match E am cm st1 offs size cs y with
                 | (Ok bv, st2) => (calc op av bv, st2)
                 | r => r
                 end
             | r => r
             end)) /\
  same_below (offs + size) st
       (snd (match E am cm st offs size cs x with
             | (Ok av, st1) =>
                 match E am cm st1 offs size cs y with
                 | (Ok bv, st2) => (calc op av bv, st2)
                 | r => r
                 end
             | r => r
             end)).
Proof.
  intros F W1 W2.
  sim_step F (same_below_refl (offs + size) st) W1 v1 v2 Hv st1 S1.
  sim_step F S1 W2 w1 w2 Hw st2 S2.
  split; [apply calc_rel; auto|exact S2].
Qed.

Lemma step_op op x y : StepOK (AOp op x y).
Proof.
  intros env am cm st offs size cs F W. cbn [ref_step gen_step].
  destruct W as (W1 & W2).
  destruct (str_eqb op op_and); [|destruct (str_eqb op op_or); [|apply step_plain_op; auto]].
  - sim_step F (same_below_refl (offs + size) st) W1 v1 v2 Hv st1 S1.
    inversion Hv; subst; cbn [fst snd];
      try (sim_step F S1 W2 w1 w2 Hw st2 S2; split; [apply calc_rel; auto|exact S2]; fail).
    destruct b; [|split; [repeat constructor|exact S1]].
    sim_step F S1 W2 w1 w2 Hw st2 S2.
    inversion Hw; subst; cbn [fst snd]; split; auto; repeat constructor.
  - sim_step F (same_below_refl (offs + size) st) W1 v1 v2 Hv st1 S1.
    inversion Hv; subst; cbn [fst snd];
      try (sim_step F S1 W2 w1 w2 Hw st2 S2; split; [apply calc_rel; auto|exact S2]; fail).
    destruct b; [split; [repeat constructor|exact S1]|].
    sim_step F S1 W2 w1 w2 Hw st2 S2.
    inversion Hw; subst; cbn [fst snd]; split; auto; repeat constructor.
Qed.

Lemma step_closure ps body outer r this : StepOK (AClosure ps body outer r this).
Proof.
  intros env am cm st offs size cs F W. cbn [ref_step gen_step fst snd].
  split; [|apply same_below_refl].
  destruct W as (W1 & W2 & W3). destruct F as (L & B & R).
  destruct (capture_spec am cm st offs cs outer) as (cap & C1 & C2 & C3).
  { intros n Hn. destruct (R n (W1 n Hn)) as (? & v2 & _ & A & _). eauto. }
  rewrite C1. constructor. constructor.
  - intros x v2 Hx. specialize (C3 _ _ Hx).
    assert (Hin : In x outer) by (rewrite <- C2; eapply lookup_some_in; eauto).
    split.
    + destruct this as [|n this']; [left; reflexivity|right].
      intros ->. apply W2; [discriminate|exact Hin].
    + destruct (R x (W1 x Hin)) as (v1 & v2' & A1 & A2 & A3).
      rewrite C3 in A2. inversion A2; subst. eauto.
  - destruct r; auto.
  - unfold clo_cm. rewrite C2. exact W3.
Qed.

Lemma step_list l : StepOK (AList l).
Proof.
  intros env am cm st offs size cs F W. cbn [ref_step gen_step]. cbn [wf] in W.
  destruct (sim_plain _ _ _ _ _ _ _ F l st (same_below_refl _ _) W) as [O S1].
  destruct (g_plain E am cm offs size cs l st) as [r st1]. cbn [fst snd] in *.
  destruct O; cbn [bind fst snd]; split; auto; repeat constructor; auto.
Qed.

Lemma step_index l i : StepOK (AIndex l i).
Proof.
  intros env am cm st offs size cs F W. cbn [ref_step gen_step].
  destruct W as (W1 & W2).
  sim_step F (same_below_refl (offs + size) st) W1 v1 v2 Hv st1 S1.
  sim_step F S1 W2 w1 w2 Hw st2 S2.
  split; [apply access_list_rel; auto|exact S2].
Qed.

Lemma step_map m : StepOK (AMap m).
Proof.
  intros env am cm st offs size cs F W. cbn [ref_step gen_step]. cbn [wf] in W.
  apply sim_map; auto. apply same_below_refl.
Qed.

Lemma step_member m key : StepOK (AMember m key).
Proof.
  intros env am cm st offs size cs F W. cbn [ref_step gen_step]. cbn [wf] in W.
  sim_step F (same_below_refl (offs + size) st) W v1 v2 Hv st1 S1.
  split; [apply access_map_rel; auto|exact S1].
Qed.

Lemma step_call fn args : StepOK (ACall fn args).
Proof.
  intros env am cm st offs size cs F W. cbn [ref_step gen_step].
  destruct W as (W1 & W2).
  sim_step F (same_below_refl (offs + size) st) W1 v1 v2 Hv st1 S1.
  inversion Hv as [| | | | | | |ps b c1 c2 s1 s2 HA HB HW]; subst; cbn [fst snd];
    try (split; [constructor|exact S1]; fail).
  destruct (Nat.eqb (length args) (length ps)) eqn:El; [|split; [constructor|exact S1]].
  apply Nat.eqb_eq in El.
  assert (B1 : offs + size <= length st1) by (destruct F as (_ & B & _); destruct S1; lia).
  destruct (sim_args _ _ _ _ _ _ _ F 0 args [] [] st1) as (r2 & st2 & E2 & O2 & S2); auto.
  { cbn [length]. lia. }
  { intros j w Hj. destruct j; discriminate. }
  cbn [length] in E2. rewrite Nat.add_0_r in E2. rewrite E2.
  destruct O2 as [vs1 vs2 (A1 & A2 & A3 & A4)|t| | |]; cbn [bind fst snd];
    try (split; [constructor|exact S2]; fail).
  cbn [app length] in *. rewrite Nat.add_0_r in *.
  rewrite El.
  destruct (sim_call ps b c1 c2 s1 s2 vs1 vs2 st2 (offs + size)) as [Oc Sc]; auto; try lia.
  split; [exact Oc|].
  eapply same_below_trans; [exact S2|]. eapply same_below_le; [|exact Sc]. lia.
Qed.

Lemma step_static fname args : StepOK (AStatic fname args).
Proof.
  intros env am cm st offs size cs F W. cbn [ref_step gen_step]. cbn [wf] in W.
  destruct (static_arity fname) as [ar|]; [|split; [constructor|apply same_below_refl]].
  destruct (arity_ok ar (length args)); [|split; [constructor|apply same_below_refl]].
  assert (B1 : offs + size <= length st) by (destruct F as (_ & B & _); lia).
  destruct (sim_args _ _ _ _ _ _ _ F 0 args [] [] st) as (r2 & st2 & E2 & O2 & S2); auto.
  { apply same_below_refl. }
  { cbn [length]. lia. }
  { intros j w Hj. destruct j; discriminate. }
  cbn [length] in E2. rewrite Nat.add_0_r in E2. rewrite E2.
  destruct O2 as [vs1 vs2 (A1 & A2 & A3 & A4)|t| | |]; cbn [bind fst snd];
    try (split; [constructor|exact S2]; fail).
  split; [apply run_static_rel; exact A1|exact S2].
Qed.

Lemma step_method recv mname args : StepOK (AMethod recv mname args).
Proof.
  intros env am cm st offs size cs F W. cbn [ref_step gen_step].
  destruct W as (W1 & W2).
  sim_step F (same_below_refl (offs + size) st) W1 rv1 rv2 Hrv st1 S1.
  assert (B1 : offs + size <= length st1) by (destruct F as (_ & B & _); destruct S1; lia).
  assert (Sp : same_below (offs + size) st (set_slot st1 (offs + size) rv2)).
  { eapply same_below_trans; [exact S1|]. apply same_below_set; lia. }
  assert (ARGS : exists r2 st2,
    g_args E am cm offs size cs args 1 (set_slot st1 (offs + size) rv2) [] = (r2, st2) /\
    rrel (fun vs1 vs2 => Forall2 vrel vs1 vs2 /\ length vs2 = length args /\
                         offs + size + 1 + length vs2 <= length st2 /\
                         pushedv st2 (offs + size + 1) vs2)
         (r_list ev env args) r2 /\
    same_below (offs + size) st st2).
  { destruct (sim_args _ _ _ _ _ _ _ F 1 args [] [] (set_slot st1 (offs + size) rv2))
      as (r2 & st2 & E2 & O2 & S2); auto.
    { rewrite length_set by lia. cbn [length]. lia. }
    { intros j w Hj. destruct j; discriminate. }
    exists r2, st2. split; [exact E2|]. split; [exact O2|exact S2]. }
  destruct ARGS as (r2 & st2 & E2 & O2 & S2).
  destruct (field_of_rel _ _ mname Hrv) as [|ps b c1 c2 s1 s2 Hc].
  - (* a built-in method *)
    rewrite (method_arity_rel _ _ mname Hrv).
    destruct (method_arity rv2 mname) as [ar|].
    + destruct (arity_ok ar (length args)); [|split; [constructor|exact S1]].
      rewrite E2.
      destruct O2 as [vs1 vs2 (A1 & A2 & A3 & A4)|t| | |]; cbn [bind fst snd];
        try (split; [constructor|exact S2]; fail).
      split; [|exact S2]. apply run_method_rel; auto. apply sim_app.
    + cbn [fst snd]. split; [|exact S1].
      rewrite (method_exists_rel _ _ mname known Hrv).
      inversion Hrv; subst; try constructor;
        match goal with |- context [method_exists ?r ?m ?k] => destruct (method_exists r m k) end;
        constructor.
  - (* a map field holding a closure *)
    destruct (Nat.eqb (length args) (length ps)) eqn:El; [|split; [constructor|exact S1]].
    apply Nat.eqb_eq in El.
    rewrite E2.
    destruct O2 as [vs1 vs2 (A1 & A2 & A3 & A4)|t| | |]; cbn [bind fst snd];
      try (split; [constructor|exact S2]; fail).
    destruct (sim_call ps b c1 c2 s1 s2 vs1 vs2 st2 (offs + size + 1)) as [Oc Sc]; auto; try lia.
    split; [exact Oc|].
    eapply same_below_trans; [exact S2|]. eapply same_below_le; [|exact Sc]. lia.
Qed.

Theorem step_ok : forall a, StepOK a.
Proof.
  destruct a.
  - apply step_const.
  - apply step_ident.
  - apply step_let.
  - apply step_if.
  - apply step_switch.
  - apply step_try.
  - apply step_unary.
  - apply step_op.
  - apply step_closure.
  - apply step_list.
  - apply step_index.
  - apply step_map.
  - apply step_member.
  - apply step_call.
  - apply step_static.
  - apply step_method.
Qed.

End Cases.

(* ---------- T1 ---------- *)

Theorem exec_sim_at known : forall fuel, SimAt (eval known fuel) (exec known fuel).
Proof.
  induction fuel as [|f IH]; intros a env am cm st offs size cs F W.
  - cbn. split; [constructor|apply same_below_refl].
  - rewrite eval_S, exec_S. apply step_ok; auto.
Qed.

Theorem exec_sim_lemma : forall known fuel a env am cm st offs size cs,
  frame_ok am cm st offs size cs env -> wf am cm a ->
  orel (eval known fuel env a) (fst (exec known fuel am cm st offs size cs a)) /\
  same_below (offs + size) st (snd (exec known fuel am cm st offs size cs a)).
Proof. intros known fuel a env am cm st offs size cs. apply exec_sim_at. Qed.

Print Assumptions exec_sim_lemma.

(* ---------- Generate + Eval on an argument tuple ---------- *)

(* the program as a closure over nothing: well-formed programs are related to themselves *)
Lemma program_closure argnames a :
  wf (map Some argnames) [] a -> vrel (VClo argnames a [] []) (VClo argnames a [] []).
Proof.
  intros W. constructor; auto. cbn. discriminate.
Qed.

Theorem C01_from_ast_lemma : forall known fuel a argnames args1 args2,
  wf (map Some argnames) [] a ->
  gen_check (S (ast_size a)) (map Some argnames) [] a = true ->
  Forall2 vrel args1 args2 -> length args2 = length argnames ->
  orel (eval known fuel (combine argnames args1) a) (run known fuel a argnames args2).
Proof.
  intros known fuel a argnames args1 args2 W G Ha L.
  unfold run. rewrite L, Nat.eqb_refl. cbn [negb]. rewrite G.
  pose proof (sim_app _ _ (exec_sim_at known fuel) _ _ _ _ (program_closure _ _ W) Ha) as Hs.
  cbn [r_app g_app self_binding clo_cm clo_cs map app] in Hs.
  rewrite (Forall2_length' _ _ _ Ha), L, Nat.eqb_refl, app_nil_r in Hs. exact Hs.
Qed.

(* first-order argument tuples: the same tuple on both sides *)
Theorem C01_from_ast_fo_lemma : forall known fuel a argnames args,
  wf (map Some argnames) [] a ->
  gen_check (S (ast_size a)) (map Some argnames) [] a = true ->
  forallb fo args = true -> length args = length argnames ->
  orel (eval known fuel (combine argnames args) a) (run known fuel a argnames args).
Proof.
  intros known fuel a argnames args W G Hf L. apply C01_from_ast_lemma; auto.
  clear L. induction args as [|v args IH]; simpl in *; auto.
  apply andb_true_iff in Hf. destruct Hf. constructor; auto. apply fo_vrel; auto.
Qed.

(* what the caller of the generated function observes *)
Definition out_rel (o1 o2 : outcome) : Prop :=
  match o1, o2 with
  | OVal v1, OVal v2 => vrel v1 v2
  | OErr t1, OErr t2 => t1 = t2
  | OSkip, OSkip => True
  | _, _ => False
  end.

Lemma orel_outcome r1 r2 : orel r1 r2 -> out_rel (outcome_of r1) (outcome_of r2).
Proof. destruct 1; cbn; auto. Qed.

(* a first-order reference result is reproduced exactly *)
Lemma orel_fo_eq r1 r2 v : orel r1 r2 -> r1 = Ok v -> fo v = true -> r2 = Ok v.
Proof.
  intros O E Hf. destruct O; try discriminate. inversion E; subst.
  f_equal. symmetry. apply vrel_fo_eq; auto.
Qed.

(* ---------- a closure call does not depend on where its frame lies ---------- *)

(* calling a closure on the shared storage (frame = the n pushed arguments at any base, whatever
   lies above or below) and running it on a fresh storage (as the built-in methods do in the
   model) give results related to one and the same reference result: the same kind of outcome,
   the same thrown text, and values that are related to a common reference value (equal when that
   value is first-order, see orel_fo_eq). *)
Theorem call_frame_independent_lemma : forall known fuel ps b c1 c2 s1 s2 vs1 vs2 stk base,
  vrel (VClo ps b c1 s1) (VClo ps b c2 s2) ->
  Forall2 vrel vs1 vs2 -> length vs2 = length ps ->
  base + length ps <= length stk -> pushedv stk base vs2 ->
  let r := r_app (eval known fuel) (VClo ps b c1 s1) vs1 in
  orel r (fst (g_call (exec known fuel) (VClo ps b c2 s2) (length ps) stk base)) /\
  orel r (g_app (exec known fuel) (VClo ps b c2 s2) vs2) /\
  same_below (base + length ps) stk
             (snd (g_call (exec known fuel) (VClo ps b c2 s2) (length ps) stk base)).
Proof.
  intros known fuel ps b c1 c2 s1 s2 vs1 vs2 stk base Hc Hvs L Hb Hp r.
  destruct (sim_call _ _ (exec_sim_at known fuel) ps b c1 c2 s1 s2 vs1 vs2 stk base Hc Hvs L Hb Hp)
    as [O S].
  split; [exact O|]. split; [|exact S].
  apply (sim_app _ _ (exec_sim_at known fuel)); auto.
Qed.

Print Assumptions C01_from_ast_lemma.
Print Assumptions call_frame_independent_lemma.

(* ---------- what Generate accepts is well-formed ---------- *)

Lemma wf_unreserved a am cm k : wf (am ++ repeat None k) cm a -> wf am cm a.
Proof. apply wf_equiv. intros; apply in_reserved. Qed.

Lemma resolvable_idx am cm n :
  match index_of oname_eqb (Some n) am with
  | Some _ => true
  | None => match index_of str_eqb n cm with Some _ => true | None => false end
  end = true -> In (Some n) am \/ In n cm.
Proof.
  destruct (index_of oname_eqb (Some n) am) eqn:E1.
  - intros _. left. eapply index_of_oeqb_some_in; eauto.
  - destruct (index_of str_eqb n cm) eqn:E2; [|discriminate].
    intros _. right. eapply index_of_str_some_in; eauto.
Qed.

Theorem gen_check_wf_lemma : forall f a am cm,
  gen_check f am cm a = true -> side_ok a = true -> wf am cm a.
Proof.
  induction f as [|f IH]; intros a am cm G K; [discriminate|].
  destruct a as [v|x|x v b|c t e|v cases d|t c|op x|op x y|ps body outer recursive this|l|l i|m|m key
                |fn args|fname args|recv mname args]; cbn [gen_check side_ok wf] in *.
  - apply fo_cwf; auto.
  - apply resolvable_idx; auto.
  - bsplit G. bsplit K. split; [eauto|]. split; [|eauto].
    intros Hin. destruct (index_of_oeqb_in _ _ Hin) as [i Hi]. rewrite Hi in B0. discriminate.
  - bsplit G. bsplit K. repeat split; eauto.
  - bsplit G. bsplit K. split; [eauto|]. split; [eauto|].
    clear G B0 K B2. induction cases as [|[cc cr] cases IHc]; cbn in *; auto.
    bsplit B. bsplit B1. repeat split; eauto.
  - bsplit G. bsplit K. repeat split; eauto.
  - eauto.
  - bsplit G. bsplit K. repeat split; eauto.
  - bsplit G. bsplit K. split; [|split].
    + intros n Hn. rewrite forallb_forall in B0. apply resolvable_idx. auto.
    + intros Hne. destruct this as [|c this']; [tauto|]. apply mem_name_false.
      destruct (mem_name (c :: this') outer); auto; discriminate.
    + apply (IH body); auto.
      destruct recursive; cbn [self_of names_self] in *; auto.
      destruct this as [|c this']; auto.
      rewrite orb_true_r in G. discriminate.
  - induction l as [|x l IHl]; cbn in *; auto. bsplit G. bsplit K. split; eauto.
  - bsplit G. bsplit K. repeat split; eauto.
  - induction m as [|[k x] m IHm]; cbn in *; auto. bsplit G. bsplit K. split; eauto.
  - eauto.
  - bsplit G. bsplit K. split; [eauto|]. clear G K.
    revert B B0. generalize 0 at 1. induction args as [|x args IHa]; intros k B B0; cbn in *; auto.
    bsplit B. bsplit B0. split; [eapply wf_unreserved; eauto|eauto].
  - bsplit G. clear G.
    revert B K. generalize 0 at 1. induction args as [|x args IHa]; intros k B B0; cbn in *; auto.
    bsplit B. bsplit B0. split; [eapply wf_unreserved; eauto|eauto].
  - bsplit G. bsplit K. split; [eauto|]. clear G K.
    revert B B0. generalize 1 at 1. induction args as [|x args IHa]; intros k B B0; cbn in *; auto.
    bsplit B. bsplit B0. split; [eapply wf_unreserved; eauto|eauto].
Qed.

Print Assumptions gen_check_wf_lemma.

(* Generate accepts the program + the two side conditions Generate does not look at: no wf needed *)
Theorem C01_generated_lemma : forall known fuel a argnames args1 args2,
  gen_check (S (ast_size a)) (map Some argnames) [] a = true -> side_ok a = true ->
  Forall2 vrel args1 args2 -> length args2 = length argnames ->
  orel (eval known fuel (combine argnames args1) a) (run known fuel a argnames args2).
Proof.
  intros known fuel a argnames args1 args2 G K. apply C01_from_ast_lemma; auto.
  eapply gen_check_wf_lemma; eauto.
Qed.

(* ---------- the initial frame of a generated function ---------- *)

Lemma frame_ok_init argnames args1 args2 :
  Forall2 vrel args1 args2 -> length args2 = length argnames ->
  frame_ok (map Some argnames) [] args2 0 (length argnames) [] (combine argnames args1).
Proof.
  intros Ha L.
  pose proof (frame_ok_call argnames (AConst (VInt 0)) [] [] [] [] args1 args2 args2 0) as F.
  cbn [self_binding clo_cm clo_cs map app] in F. rewrite app_nil_r in F.
  apply F; auto; [|lia|apply pushedv_self].
  constructor; [cbn; discriminate|auto|cbn; auto].
Qed.
