(* Fuel monotonicity of the reference semantics: a result other than "out of fuel" does not change
   when more fuel is given (values, errors, panics and Unsup alike). *)
From P2 Require Import Base.Prelude Base.PreludeProofs Sem.Num Sem.Syntax Sem.Ops Sem.Lib Sem.Ref Sem.Gen Sem.Sim Sem.RelProofs Sem.GenProofs.
Require Import Lia.

Definition le_res {A} (r1 r2 : res A) : Prop := r1 <> OOF -> r2 = r1.

Lemma le_refl {A} (r : res A) : le_res r r.
Proof. intros _. reflexivity. Qed.

Lemma le_bind {A B} (r1 r2 : res A) (k1 k2 : A -> res B) :
  le_res r1 r2 -> (forall a, le_res (k1 a) (k2 a)) -> le_res (bind r1 k1) (bind r2 k2).
Proof.
  intros H K N. assert (N1 : r1 <> OOF) by (intros E; rewrite E in N; auto).
  rewrite (H N1). destruct r1; cbn [bind] in *; auto. apply K; auto.
Qed.

Definition app_le (app1 app2 : value -> list value -> res value) : Prop :=
  forall c args, le_res (app1 c args) (app2 c args).

Section Lib.
Variables app1 app2 : value -> list value -> res value.
Hypothesis HA : app_le app1 app2.

Lemma map_app_le f l : le_res (map_app app1 f l) (map_app app2 f l).
Proof.
  induction l as [|x l IH]; cbn [map_app]; [apply le_refl|].
  apply le_bind; [apply HA|]. intros y. apply le_bind; [exact IH|]. intros; apply le_refl.
Qed.

Lemma accept_app_le f l : le_res (accept_app app1 f l) (accept_app app2 f l).
Proof.
  induction l as [|x l IH]; cbn [accept_app]; [apply le_refl|].
  apply le_bind; [apply HA|]. intros y. destruct y; try apply le_refl.
  apply le_bind; [exact IH|]. intros; apply le_refl.
Qed.

Lemma fold_app_le f l : forall acc, le_res (fold_app app1 f acc l) (fold_app app2 f acc l).
Proof.
  induction l as [|x l IH]; intros acc; cbn [fold_app]; [apply le_refl|].
  apply le_bind; [apply HA|]. intros; apply IH.
Qed.

Lemma index_where_le f l : forall i, le_res (index_where app1 f l i) (index_where app2 f l i).
Proof.
  induction l as [|x l IH]; intros i; cbn [index_where]; [apply le_refl|].
  apply le_bind; [apply HA|]. intros y. destruct y; try apply le_refl. destruct b; [apply le_refl|apply IH].
Qed.

Lemma mapargs_app_le f a : le_res (mapargs_app app1 f a) (mapargs_app app2 f a).
Proof.
  induction a as [|x a IH]; cbn [mapargs_app]; [apply le_refl|].
  apply le_bind; [apply HA|]. intros y. apply le_bind; [exact IH|]. intros; apply le_refl.
Qed.

Lemma compact_app_le f l : forall last, le_res (compact_app app1 f last l) (compact_app app2 f last l).
Proof.
  induction l as [|x l IH]; intros last; cbn [compact_app]; [apply le_refl|].
  apply le_bind; [apply HA|]. intros y. destruct y; try apply le_refl.
  destruct b; [apply IH|]. apply le_bind; [apply IH|]. intros; apply le_refl.
Qed.

Lemma scan_app_le three f l : forall li la, le_res (scan_app app1 three f li la l) (scan_app app2 three f li la l).
Proof.
  induction l as [|x l IH]; intros li la; cbn [scan_app]; [apply le_refl|].
  apply le_bind; [apply HA|]. intros o. apply le_bind; [apply IH|]. intros; apply le_refl.
Qed.

Lemma iir_app_le three ini f l : le_res (iir_app app1 three ini f l) (iir_app app2 three ini f l).
Proof.
  destruct l as [|x l]; cbn [iir_app]; [apply le_refl|].
  apply le_bind; [apply HA|]. intros o. apply le_bind; [apply scan_app_le|]. intros; apply le_refl.
Qed.

Lemma merge_app_le f l1 : forall l2, le_res (merge_app app1 f l1 l2) (merge_app app2 f l1 l2).
Proof.
  induction l1 as [|a l1 IH1]; intros l2.
  - destruct l2; cbn [merge_app]; apply le_refl.
  - induction l2 as [|b l2 IH2]; cbn [merge_app]; [apply le_refl|].
    apply le_bind; [apply HA|]. intros y. destruct y; try apply le_refl.
    destruct b0.
    + apply le_bind; [apply IH1|]. intros; apply le_refl.
    + apply le_bind; [exact IH2|]. intros; apply le_refl.
Qed.

Lemma minmax_app_le f l : forall mn mx mni mxi,
  le_res (minmax_app app1 f mn mx mni mxi l) (minmax_app app2 f mn mx mni mxi l).
Proof.
  induction l as [|x l IH]; intros mn mx mni mxi; cbn [minmax_app]; [apply le_refl|].
  apply le_bind; [apply HA|]. intros k. apply le_bind; [apply le_refl|]. intros le.
  apply le_bind; [apply le_refl|]. intros gr. apply IH.
Qed.

Lemma run_list_method_le m l args : le_res (run_list_method app1 m l args) (run_list_method app2 m l args).
Proof.
  unfold run_list_method.
  repeat match goal with
         | |- context [if str_eqb m ?n then _ else _] => destruct (str_eqb m n)
         end; try apply le_refl.
  - destruct args as [|f [|? ?]]; try apply le_refl. destruct (is_func f 1); [|apply le_refl].
    apply le_bind; [apply map_app_le|intros; apply le_refl].
  - destruct args as [|f [|? ?]]; try apply le_refl. destruct (is_func f 1); [|apply le_refl].
    apply le_bind; [apply accept_app_le|intros; apply le_refl].
  - destruct args as [|f [|? ?]]; try apply le_refl. destruct (is_func f 2); [|apply le_refl].
    destruct l; [apply le_refl|apply fold_app_le].
  - destruct args as [|i [|f [|? ?]]]; try apply le_refl. destruct (is_func f 2); [|apply le_refl].
    apply fold_app_le.
  - destruct args as [|f [|? ?]]; try apply le_refl. destruct (is_func f 1); [|apply le_refl].
    apply le_bind; [apply index_where_le|intros; apply le_refl].
  - destruct args as [|f [|? ?]]; try apply le_refl. destruct (is_func f 1); [|apply le_refl].
    apply le_bind; [apply index_where_le|intros; apply le_refl].
  - (* minMax *)
    destruct args as [|f [|? ?]]; try apply le_refl. destruct (is_func f 1); [|apply le_refl].
    destruct l; [apply le_refl|]. apply le_bind; [apply HA|]. intros; apply minmax_app_le.
  - (* number *)
    destruct args as [|f [|? ?]]; try apply le_refl. destruct (is_func f 2); [|apply le_refl].
    apply le_bind; [apply mapargs_app_le|intros; apply le_refl].
  - (* compact *)
    destruct args as [|f [|? ?]]; try apply le_refl. destruct (is_func f 2); [|apply le_refl].
    destruct l; [apply le_refl|]. apply le_bind; [apply compact_app_le|intros; apply le_refl].
  - (* combine *)
    destruct args as [|f [|? ?]]; try apply le_refl. destruct (is_func f 2); [|apply le_refl].
    apply le_bind; [apply mapargs_app_le|intros; apply le_refl].
  - (* combine3 *)
    destruct args as [|f [|? ?]]; try apply le_refl. destruct (is_func f 3); [|apply le_refl].
    apply le_bind; [apply mapargs_app_le|intros; apply le_refl].
  - (* combineN *)
    destruct args as [|n [|f [|? ?]]]; try apply le_refl; destruct n; try apply le_refl.
    destruct (z <? 1)%Z; [apply le_refl|]. destruct (is_func f 1); [|apply le_refl].
    destruct (100000 <? z)%Z; [apply le_refl|].
    apply le_bind; [apply mapargs_app_le|intros; apply le_refl].
  - (* iir *)
    destruct args as [|i [|f [|? ?]]]; try apply le_refl.
    destruct (is_func i 1); [|apply le_refl]. destruct (is_func f 2); [|apply le_refl].
    apply le_bind; [apply iir_app_le|intros; apply le_refl].
  - (* iirCombine *)
    destruct args as [|i [|f [|? ?]]]; try apply le_refl.
    destruct (is_func i 1); [|apply le_refl]. destruct (is_func f 3); [|apply le_refl].
    apply le_bind; [apply iir_app_le|intros; apply le_refl].
  - (* cross *)
    destruct args as [|o [|f [|? ?]]]; try apply le_refl.
    destruct (is_func f 2); [|apply le_refl]. destruct o; try apply le_refl.
    apply le_bind; [apply mapargs_app_le|intros; apply le_refl].
  - (* merge *)
    destruct args as [|o [|f [|? ?]]]; try apply le_refl.
    destruct (is_func f 2); [|apply le_refl]. destruct o; try apply le_refl.
    apply le_bind; [apply merge_app_le|intros; apply le_refl].
  - (* visit *)
    destruct args as [|i [|f [|? ?]]]; try apply le_refl. destruct (is_func f 2); [|apply le_refl].
    apply fold_app_le.
Qed.

Lemma run_method_le rv m args : le_res (run_method app1 rv m args) (run_method app2 rv m args).
Proof. destruct rv; cbn [run_method]; try apply run_list_method_le; apply le_refl. Qed.

End Lib.

Section Step.
Variable known : list (N * list name).
Variables ev1 ev2 : list (name * value) -> ast -> res value.
Hypothesis HE : forall env a, le_res (ev1 env a) (ev2 env a).

Lemma r_app_le : app_le (r_app ev1) (r_app ev2).
Proof.
  intros c args. destruct c; cbn [r_app]; try apply le_refl.
  destruct (Nat.eqb (length args) (length ps)); [apply HE|apply le_refl].
Qed.

Lemma r_list_le env l : le_res (r_list ev1 env l) (r_list ev2 env l).
Proof.
  induction l as [|x l IH]; cbn [r_list]; [apply le_refl|].
  apply le_bind; [apply HE|]. intros v. apply le_bind; [exact IH|]. intros; apply le_refl.
Qed.

Lemma r_switch_le env sv d cases : le_res (r_switch ev1 env sv d cases) (r_switch ev2 env sv d cases).
Proof.
  induction cases as [|[cc cr] cases IH]; cbn [r_switch]; [apply HE|].
  apply le_bind; [apply HE|]. intros cv.
  destruct (equal_fg sv cv) as [[|]| | | |]; try apply le_refl; [apply HE|exact IH].
Qed.

Lemma r_map_le env m : forall acc, le_res (r_map ev1 env m acc) (r_map ev2 env m acc).
Proof.
  induction m as [|[k x] m IH]; intros acc; cbn [r_map]; [apply le_refl|].
  apply le_bind; [apply HE|]. intros; apply IH.
Qed.

Lemma ref_step_le env a : le_res (ref_step known ev1 env a) (ref_step known ev2 env a).
Proof.
  destruct a; cbn [ref_step].
  - (* const *) apply le_refl.
  - (* ident *) apply le_refl.
  - (* let *) apply le_bind; [apply HE|]. intros; apply HE.
  - (* if *) apply le_bind; [apply HE|]. intros cv. destruct cv; try apply le_refl.
    destruct b; apply HE.
  - (* switch *) apply le_bind; [apply HE|]. intros; apply r_switch_le.
  - (* try *) intros N.
    assert (N1 : ev1 env a1 <> OOF).
    { intros E. rewrite E in N. auto. }
    rewrite (HE _ _ N1). destruct (ev1 env a1); auto.
    revert N. apply le_bind; [apply HE|]. intros cv. destruct cv; try apply le_refl.
    destruct ps as [|p [|? ?]]; try apply le_refl. apply r_app_le.
  - (* unary *) apply le_bind; [apply HE|]. intros; apply le_refl.
  - (* op *)
    destruct (str_eqb op op_and).
    { apply le_bind; [apply HE|]. intros av.
      destruct av; try (apply le_bind; [apply HE|intros; apply le_refl]).
      destruct b; [|apply le_refl]. apply le_bind; [apply HE|intros; apply le_refl]. }
    destruct (str_eqb op op_or).
    { apply le_bind; [apply HE|]. intros av.
      destruct av; try (apply le_bind; [apply HE|intros; apply le_refl]).
      destruct b; [apply le_refl|]. apply le_bind; [apply HE|intros; apply le_refl]. }
    apply le_bind; [apply HE|]. intros. apply le_bind; [apply HE|intros; apply le_refl].
  - (* closure *) apply le_refl.
  - (* list *) apply le_bind; [apply r_list_le|intros; apply le_refl].
  - (* index *) apply le_bind; [apply HE|]. intros. apply le_bind; [apply HE|intros; apply le_refl].
  - (* map *) apply r_map_le.
  - (* member *) apply le_bind; [apply HE|intros; apply le_refl].
  - (* call *) apply le_bind; [apply HE|]. intros fv0. destruct fv0; try apply le_refl.
    destruct (Nat.eqb (length args) (length ps)); [|apply le_refl].
    apply le_bind; [apply r_list_le|]. intros; apply r_app_le.
  - (* static *) destruct (static_arity f) as [ar|]; [|apply le_refl].
    destruct (arity_ok ar (length args)); [|apply le_refl].
    apply le_bind; [apply r_list_le|intros; apply le_refl].
  - (* method *) apply le_bind; [apply HE|]. intros rv.
    destruct (field_of rv mname) as [[cv k]|].
    + destruct (Nat.eqb (length args) k); [|apply le_refl].
      apply le_bind; [apply r_list_le|]. intros; apply r_app_le.
    + destruct (method_arity rv mname) as [ar|]; [|apply le_refl].
      destruct (arity_ok ar (length args)); [|apply le_refl].
      apply le_bind; [apply r_list_le|]. intros. apply run_method_le. apply r_app_le.
Qed.

End Step.

Theorem eval_mono known : forall n m env a, n <= m -> le_res (eval known n env a) (eval known m env a).
Proof.
  induction n as [|n IH]; intros m env a L.
  - intros N. exfalso. apply N. reflexivity.
  - destruct m as [|m]; [lia|]. rewrite !eval_S. apply ref_step_le.
    intros env0 a0. apply IH. lia.
Qed.

(* two decided-or-failed runs agree: whichever fuel is larger *)
Corollary eval_agree known n m env a :
  eval known n env a <> OOF -> eval known m env a <> OOF -> eval known m env a = eval known n env a.
Proof.
  intros Hn Hm. destruct (Nat.le_ge_cases n m) as [L|L].
  - apply (eval_mono known n m env a L Hn).
  - symmetry. apply (eval_mono known m n env a L Hm).
Qed.

Print Assumptions eval_mono.
