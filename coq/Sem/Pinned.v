(* The call-site discipline of the PINNED commit (before the repair "locals created inside call
   arguments no longer overwrite pending arguments"): argument k of a call is compiled under the
   caller's compile-time names WITHOUT reserving the k (+1 for a method receiver) slots that are
   already pushed when it runs.  This file is a copy of the GenStep section of Sem/Sim.v with exactly
   that one line changed in p_args; it is used only by exec_sim_pinned_refuted (Props/C01.v),
   which shows that theorem exec_sim discriminates between the two disciplines.  Definitions only. *)
From P2 Require Import Base.Prelude Sem.Num Sem.Syntax Sem.Ops Sem.Lib Sem.Ref Sem.Gen Sem.Sim.

Section PinnedStep.
Variable known : list (N * list name).
Variable E : exec_t.

Definition p_app (c : value) (args : list value) : res value :=
  match c with
  | VClo ps body cap self =>
      if Nat.eqb (length args) (length ps)
      then fst (E (map Some ps) (clo_cm cap self) args 0 (length args) (clo_cs cap self c) body)
      else Err None
  | VErrText _ => Unsup
  | _ => Err None
  end.

Definition p_call (c : value) (n : nat) (st' : list value) (base : nat) : res value * list value :=
  match c with
  | VClo ps body cap self =>
      E (map Some ps) (clo_cm cap self) st' base n (clo_cs cap self c) body
  | _ => (Err None, st')
  end.

Section Frame.
Variable am : list (option name).
Variable cm : list name.
Variables offs size : nat.
Variable cs : list value.

Fixpoint p_args (l : list ast) (pushed : nat) (st0 : list value) (acc : list value)
  : res (list value) * list value :=
  match l with
  | [] => (Ok acc, st0)
  | x :: r =>
      match E am cm st0 offs (size + pushed) cs x with      (* no reserved slots *)
      | (Ok v, st1) => p_args r (S pushed) (set_slot st1 (offs + size + pushed) v) (acc ++ [v])
      | (Err t, st1) => (Err t, st1)
      | (Panic, st1) => (Panic, st1)
      | (OOF, st1) => (OOF, st1)
      | (Unsup, st1) => (Unsup, st1)
      end
  end.

Fixpoint p_plain (l : list ast) (st0 : list value) : res (list value) * list value :=
  match l with
  | [] => (Ok [], st0)
  | x :: r =>
      match E am cm st0 offs size cs x with
      | (Ok v, st1) =>
          match p_plain r st1 with
          | (Ok vs, st2) => (Ok (v :: vs), st2)
          | (e, st2) => (e, st2)
          end
      | (Err t, st1) => (Err t, st1)
      | (Panic, st1) => (Panic, st1)
      | (OOF, st1) => (OOF, st1)
      | (Unsup, st1) => (Unsup, st1)
      end
  end.

Section Switch.
Variable sv : value.
Variable d : ast.
Fixpoint p_switch (l : list (ast * ast)) (st0 : list value)
  : res value * list value :=
  match l with
  | [] => E am cm st0 offs size cs d
  | (cc, cr) :: rest =>
      match E am cm st0 offs size cs cc with
      | (Ok cv, st2) =>
          match equal_fg sv cv with
          | Ok true => E am cm st2 offs size cs cr
          | Ok false => p_switch rest st2
          | Err t => (Err t, st2)
          | Panic => (Panic, st2)
          | OOF => (OOF, st2)
          | Unsup => (Unsup, st2)
          end
      | r => r
      end
  end.
End Switch.

Fixpoint p_map (m : list (name * ast)) (st0 : list value) (acc : list (str * value))
  : res value * list value :=
  match m with
  | [] => (Ok (VMap acc), st0)
  | (k, x) :: r =>
      match E am cm st0 offs size cs x with
      | (Ok v, st1) => p_map r st1 (acc ++ [(k, v)])
      | r' => r'
      end
  end.

Definition pinned_step (st : list value) (a : ast) : res value * list value :=
  match a with
  | AConst v => (Ok v, st)
  | AIdent x => (match resolve am cm st offs cs x with Some v => Ok v | None => Err None end, st)
  | ALet x v b =>
      match E am cm st offs size cs v with
      | (Ok vv, st1) => E (am ++ [Some x]) cm (set_slot st1 (offs + size) vv) offs (S size) cs b
      | r => r
      end
  | AIf c t e =>
      match E am cm st offs size cs c with
      | (Ok (VBool true), st1) => E am cm st1 offs size cs t
      | (Ok (VBool false), st1) => E am cm st1 offs size cs e
      | (Ok (VErrText _), st1) => (Unsup, st1)
      | (Ok _, st1) => (Err None, st1)
      | r => r
      end
  | ASwitch v cases d =>
      match E am cm st offs size cs v with
      | (Ok sv, st1) => p_switch sv d cases st1
      | r => r
      end
  | ATry t c =>
      match E am cm st offs size cs t with
      | (Err thrown, st1) =>
          match E am cm st1 offs size cs c with
          | (Ok cv, st2) =>
              match cv with
              | VClo [_] _ _ _ =>
                  p_call cv 1%nat (set_slot st2 (offs + size) (VErrText thrown)) (offs + size)
              | _ => (Ok cv, st2)
              end
          | r => r
          end
      | r => r
      end
  | AUnary op x =>
      match E am cm st offs size cs x with
      | (Ok v, st1) => (ucalc op v, st1)
      | r => r
      end
  | AOp op x y =>
      if str_eqb op op_and then
        match E am cm st offs size cs x with
        | (Ok (VBool false), st1) => (Ok (VBool false), st1)
        | (Ok (VBool true), st1) =>
            match E am cm st1 offs size cs y with
            | (Ok (VBool b), st2) => (Ok (VBool b), st2)
            | (Ok (VErrText _), st2) => (Unsup, st2)
            | (Ok _, st2) => (Err None, st2)
            | r => r
            end
        | (Ok av, st1) =>
            match E am cm st1 offs size cs y with
            | (Ok bv, st2) => (calc op av bv, st2)
            | r => r
            end
        | r => r
        end
      else if str_eqb op op_or then
        match E am cm st offs size cs x with
        | (Ok (VBool true), st1) => (Ok (VBool true), st1)
        | (Ok (VBool false), st1) =>
            match E am cm st1 offs size cs y with
            | (Ok (VBool b), st2) => (Ok (VBool b), st2)
            | (Ok (VErrText _), st2) => (Unsup, st2)
            | (Ok _, st2) => (Err None, st2)
            | r => r
            end
        | (Ok av, st1) =>
            match E am cm st1 offs size cs y with
            | (Ok bv, st2) => (calc op av bv, st2)
            | r => r
            end
        | r => r
        end
      else
        match E am cm st offs size cs x with
        | (Ok av, st1) =>
            match E am cm st1 offs size cs y with
            | (Ok bv, st2) => (calc op av bv, st2)
            | r => r
            end
        | r => r
        end
  | AClosure ps body outer recursive this =>
      (match capture am cm st offs cs outer with
       | Some cap => Ok (VClo ps body cap (if recursive then this else []))
       | None => Err None
       end, st)
  | AList l =>
      match p_plain l st with
      | (Ok vs, st1) => (Ok (VList vs), st1)
      | (Err t, st1) => (Err t, st1)
      | (Panic, st1) => (Panic, st1)
      | (OOF, st1) => (OOF, st1)
      | (Unsup, st1) => (Unsup, st1)
      end
  | AIndex l i =>
      match E am cm st offs size cs i with
      | (Ok iv, st1) =>
          match E am cm st1 offs size cs l with
          | (Ok lv, st2) => (access_list lv iv, st2)
          | r => r
          end
      | r => r
      end
  | AMap m => p_map m st []
  | AMember m key =>
      match E am cm st offs size cs m with
      | (Ok mv, st1) => (access_map mv key, st1)
      | r => r
      end
  | ACall fn args =>
      match E am cm st offs size cs fn with
      | (Ok fv, st1) =>
          match fv with
          | VClo ps _ _ _ =>
              if Nat.eqb (length args) (length ps) then
                match p_args args 0%nat st1 [] with
                | (Ok _, st2) => p_call fv (length args) st2 (offs + size)
                | (Err t, st2) => (Err t, st2)
                | (Panic, st2) => (Panic, st2)
                | (OOF, st2) => (OOF, st2)
                | (Unsup, st2) => (Unsup, st2)
                end
              else (Err None, st1)
          | VErrText _ => (Unsup, st1)
          | _ => (Err None, st1)
          end
      | r => r
      end
  | AStatic fname args =>
      match static_arity fname with
      | Some ar =>
          if arity_ok ar (length args) then
            match p_args args 0%nat st [] with
            | (Ok vs, st1) => (run_static fname vs, st1)
            | (Err t, st1) => (Err t, st1)
            | (Panic, st1) => (Panic, st1)
            | (OOF, st1) => (OOF, st1)
            | (Unsup, st1) => (Unsup, st1)
            end
          else (Err None, st)
      | None => (Unsup, st)
      end
  | AMethod recv mname args =>
      match E am cm st offs size cs recv with
      | (Ok rv, st1) =>
          match field_of rv mname with
          | Some (cv, n) =>
              if Nat.eqb (length args) n then
                match p_args args 1%nat (set_slot st1 (offs + size) rv) [] with
                | (Ok _, st2) => p_call cv n st2 (offs + size + 1)
                | (Err t, st2) => (Err t, st2)
                | (Panic, st2) => (Panic, st2)
                | (OOF, st2) => (OOF, st2)
                | (Unsup, st2) => (Unsup, st2)
                end
              else (Err None, st1)
          | None =>
              match method_arity rv mname with
              | Some ar =>
                  if arity_ok ar (length args) then
                    match p_args args 1%nat (set_slot st1 (offs + size) rv) [] with
                    | (Ok vs, st2) => (run_method p_app rv mname vs, st2)
                    | (Err t, st2) => (Err t, st2)
                    | (Panic, st2) => (Panic, st2)
                    | (OOF, st2) => (OOF, st2)
                    | (Unsup, st2) => (Unsup, st2)
                    end
                  else (Err None, st1)
              | None =>
                  (match rv with
                   | VErrText _ => Unsup
                   | _ => if method_exists rv mname known then Unsup else Err None
                   end, st1)
              end
          end
      | r => r
      end
  end.
End Frame.
End PinnedStep.

Fixpoint exec_pinned (known : list (N * list name)) (fuel : nat) (am : list (option name)) (cm : list name)
         (st : list value) (offs size : nat) (cs : list value) (a : ast) {struct fuel}
  : res value * list value :=
  match fuel with
  | O => (OOF, st)
  | S f => pinned_step known (exec_pinned known f) am cm offs size cs st a
  end.

(* (\(a,b). b) (x, let y = x+1 in y) *)
Definition pin_x : name := [120%N].
Definition pin_y : name := [121%N].
Definition pin_a : name := [97%N].
Definition pin_b : name := [98%N].
Definition pinned_witness : ast :=
  ACall (AClosure [pin_a; pin_b] (AIdent pin_b) [] false [])
        [AIdent pin_x; ALet pin_y (AOp op_add (AIdent pin_x) (AConst (VInt 1))) (AIdent pin_y)].
