(* "Unless the first run panics, the second run gives the same result" for the built-in pool: the
   lemmas of Sem/RefMono.v (there for out-of-fuel) with Panic as the distinguished outcome.  Used for
   the recursion guard (Sem/GuardProofs.v): the guarded closure application panics or agrees. *)
From P2 Require Import Base.Prelude Base.PreludeProofs Sem.Num Sem.Syntax Sem.Ops Sem.Lib.
Require Import Lia.

Definition pn_res {A} (r1 r2 : res A) : Prop := r1 <> Panic -> r2 = r1.

Lemma pn_refl {A} (r : res A) : pn_res r r.
Proof. intros _. reflexivity. Qed.

Lemma pn_bind {A B} (r1 r2 : res A) (k1 k2 : A -> res B) :
  pn_res r1 r2 -> (forall a, pn_res (k1 a) (k2 a)) -> pn_res (bind r1 k1) (bind r2 k2).
Proof.
  intros H K N. assert (N1 : r1 <> Panic) by (intros E; rewrite E in N; auto).
  rewrite (H N1). destruct r1; cbn [bind] in *; auto. apply K; auto.
Qed.

Definition app_pn (app1 app2 : value -> list value -> res value) : Prop :=
  forall c args, pn_res (app1 c args) (app2 c args).

Section LibPn.
Variables app1 app2 : value -> list value -> res value.
Hypothesis HA : app_pn app1 app2.

Lemma map_app_pn f l : pn_res (map_app app1 f l) (map_app app2 f l).
Proof.
  induction l as [|x l IH]; cbn [map_app]; [apply pn_refl|].
  apply pn_bind; [apply HA|]. intros y. apply pn_bind; [exact IH|]. intros; apply pn_refl.
Qed.

Lemma accept_app_pn f l : pn_res (accept_app app1 f l) (accept_app app2 f l).
Proof.
  induction l as [|x l IH]; cbn [accept_app]; [apply pn_refl|].
  apply pn_bind; [apply HA|]. intros y. destruct y; try apply pn_refl.
  apply pn_bind; [exact IH|]. intros; apply pn_refl.
Qed.

Lemma fold_app_pn f l : forall acc, pn_res (fold_app app1 f acc l) (fold_app app2 f acc l).
Proof.
  induction l as [|x l IH]; intros acc; cbn [fold_app]; [apply pn_refl|].
  apply pn_bind; [apply HA|]. intros; apply IH.
Qed.

Lemma index_where_pn f l : forall i, pn_res (index_where app1 f l i) (index_where app2 f l i).
Proof.
  induction l as [|x l IH]; intros i; cbn [index_where]; [apply pn_refl|].
  apply pn_bind; [apply HA|]. intros y. destruct y; try apply pn_refl. destruct b; [apply pn_refl|apply IH].
Qed.

Lemma mapargs_app_pn f a : pn_res (mapargs_app app1 f a) (mapargs_app app2 f a).
Proof.
  induction a as [|x a IH]; cbn [mapargs_app]; [apply pn_refl|].
  apply pn_bind; [apply HA|]. intros y. apply pn_bind; [exact IH|]. intros; apply pn_refl.
Qed.

Lemma compact_app_pn f l : forall last, pn_res (compact_app app1 f last l) (compact_app app2 f last l).
Proof.
  induction l as [|x l IH]; intros last; cbn [compact_app]; [apply pn_refl|].
  apply pn_bind; [apply HA|]. intros y. destruct y; try apply pn_refl.
  destruct b; [apply IH|]. apply pn_bind; [apply IH|]. intros; apply pn_refl.
Qed.

Lemma scan_app_pn three f l : forall li la, pn_res (scan_app app1 three f li la l) (scan_app app2 three f li la l).
Proof.
  induction l as [|x l IH]; intros li la; cbn [scan_app]; [apply pn_refl|].
  apply pn_bind; [apply HA|]. intros o. apply pn_bind; [apply IH|]. intros; apply pn_refl.
Qed.

Lemma iir_app_pn three ini f l : pn_res (iir_app app1 three ini f l) (iir_app app2 three ini f l).
Proof.
  destruct l as [|x l]; cbn [iir_app]; [apply pn_refl|].
  apply pn_bind; [apply HA|]. intros o. apply pn_bind; [apply scan_app_pn|]. intros; apply pn_refl.
Qed.

Lemma merge_app_pn f l1 : forall l2, pn_res (merge_app app1 f l1 l2) (merge_app app2 f l1 l2).
Proof.
  induction l1 as [|a l1 IH1]; intros l2.
  - destruct l2; cbn [merge_app]; apply pn_refl.
  - induction l2 as [|b l2 IH2]; cbn [merge_app]; [apply pn_refl|].
    apply pn_bind; [apply HA|]. intros y. destruct y; try apply pn_refl.
    destruct b0.
    + apply pn_bind; [apply IH1|]. intros; apply pn_refl.
    + apply pn_bind; [exact IH2|]. intros; apply pn_refl.
Qed.

Lemma minmax_app_pn f l : forall mn mx mni mxi,
  pn_res (minmax_app app1 f mn mx mni mxi l) (minmax_app app2 f mn mx mni mxi l).
Proof.
  induction l as [|x l IH]; intros mn mx mni mxi; cbn [minmax_app]; [apply pn_refl|].
  apply pn_bind; [apply HA|]. intros k. apply pn_bind; [apply pn_refl|]. intros le.
  apply pn_bind; [apply pn_refl|]. intros gr. apply IH.
Qed.

Lemma run_list_method_pn m l args : pn_res (run_list_method app1 m l args) (run_list_method app2 m l args).
Proof.
  unfold run_list_method.
  repeat match goal with
         | |- context [if str_eqb m ?n then _ else _] => destruct (str_eqb m n)
         end; try apply pn_refl.
  - destruct args as [|f [|? ?]]; try apply pn_refl. destruct (is_func f 1); [|apply pn_refl].
    apply pn_bind; [apply map_app_pn|intros; apply pn_refl].
  - destruct args as [|f [|? ?]]; try apply pn_refl. destruct (is_func f 1); [|apply pn_refl].
    apply pn_bind; [apply accept_app_pn|intros; apply pn_refl].
  - destruct args as [|f [|? ?]]; try apply pn_refl. destruct (is_func f 2); [|apply pn_refl].
    destruct l; [apply pn_refl|apply fold_app_pn].
  - destruct args as [|i [|f [|? ?]]]; try apply pn_refl. destruct (is_func f 2); [|apply pn_refl].
    apply fold_app_pn.
  - destruct args as [|f [|? ?]]; try apply pn_refl. destruct (is_func f 1); [|apply pn_refl].
    apply pn_bind; [apply index_where_pn|intros; apply pn_refl].
  - destruct args as [|f [|? ?]]; try apply pn_refl. destruct (is_func f 1); [|apply pn_refl].
    apply pn_bind; [apply index_where_pn|intros; apply pn_refl].
  - (* minMax *)
    destruct args as [|f [|? ?]]; try apply pn_refl. destruct (is_func f 1); [|apply pn_refl].
    destruct l; [apply pn_refl|]. apply pn_bind; [apply HA|]. intros; apply minmax_app_pn.
  - (* number *)
    destruct args as [|f [|? ?]]; try apply pn_refl. destruct (is_func f 2); [|apply pn_refl].
    apply pn_bind; [apply mapargs_app_pn|intros; apply pn_refl].
  - (* compact *)
    destruct args as [|f [|? ?]]; try apply pn_refl. destruct (is_func f 2); [|apply pn_refl].
    destruct l; [apply pn_refl|]. apply pn_bind; [apply compact_app_pn|intros; apply pn_refl].
  - (* combine *)
    destruct args as [|f [|? ?]]; try apply pn_refl. destruct (is_func f 2); [|apply pn_refl].
    apply pn_bind; [apply mapargs_app_pn|intros; apply pn_refl].
  - (* combine3 *)
    destruct args as [|f [|? ?]]; try apply pn_refl. destruct (is_func f 3); [|apply pn_refl].
    apply pn_bind; [apply mapargs_app_pn|intros; apply pn_refl].
  - (* combineN *)
    destruct args as [|n [|f [|? ?]]]; try apply pn_refl; destruct n; try apply pn_refl.
    destruct (z <? 1)%Z; [apply pn_refl|]. destruct (is_func f 1); [|apply pn_refl].
    destruct (100000 <? z)%Z; [apply pn_refl|].
    apply pn_bind; [apply mapargs_app_pn|intros; apply pn_refl].
  - (* iir *)
    destruct args as [|i [|f [|? ?]]]; try apply pn_refl.
    destruct (is_func i 1); [|apply pn_refl]. destruct (is_func f 2); [|apply pn_refl].
    apply pn_bind; [apply iir_app_pn|intros; apply pn_refl].
  - (* iirCombine *)
    destruct args as [|i [|f [|? ?]]]; try apply pn_refl.
    destruct (is_func i 1); [|apply pn_refl]. destruct (is_func f 3); [|apply pn_refl].
    apply pn_bind; [apply iir_app_pn|intros; apply pn_refl].
  - (* cross *)
    destruct args as [|o [|f [|? ?]]]; try apply pn_refl.
    destruct (is_func f 2); [|apply pn_refl]. destruct o; try apply pn_refl.
    apply pn_bind; [apply mapargs_app_pn|intros; apply pn_refl].
  - (* merge *)
    destruct args as [|o [|f [|? ?]]]; try apply pn_refl.
    destruct (is_func f 2); [|apply pn_refl]. destruct o; try apply pn_refl.
    apply pn_bind; [apply merge_app_pn|intros; apply pn_refl].
  - (* visit *)
    destruct args as [|i [|f [|? ?]]]; try apply pn_refl. destruct (is_func f 2); [|apply pn_refl].
    apply fold_app_pn.
Qed.

Lemma run_method_pn rv m args : pn_res (run_method app1 rv m args) (run_method app2 rv m args).
Proof. destruct rv; cbn [run_method]; try apply run_list_method_pn; apply pn_refl. Qed.

End LibPn.
