(* Opt.opt produces an optimized form in the sense of OptRel.arel; with the simulation theorem of
   Sem/OptProofs.v this gives the soundness of the optimizer model. *)
From P2 Require Import Base.Prelude Base.PreludeProofs Sem.Num Sem.Syntax Sem.Ops Sem.Lib Sem.Ref Sem.Gen Sem.Opt Sem.OptRel Sem.OptRelProofs Sem.OptOpsProofs Sem.OptLibProofs Sem.OptProofs.
Require Import Lia.

(* ---------- application of closures at Generate time vs. in the reference semantics ---------- *)

(* whenever app1 answers Ok v, app2 answers the same unless it runs out of fuel *)
Definition app_agrees (app1 app2 : value -> list value -> res value) : Prop :=
  forall c args v, app1 c args = Ok v -> app2 c args <> OOF -> app2 c args = Ok v.

Section Agree.
Variables app1 app2 : value -> list value -> res value.
Hypothesis HA : app_agrees app1 app2.

Lemma bind_ok_inv {A B} (r : res A) (k : A -> res B) v : bind r k = Ok v -> exists a, r = Ok a /\ k a = Ok v.
Proof. destruct r; simpl; try discriminate. eauto. Qed.

Lemma bind_not_oof {A B} (r : res A) (k : A -> res B) : bind r k <> OOF -> r <> OOF.
Proof. intros H E. rewrite E in H. auto. Qed.

Lemma map_app_agrees f l ys :
  map_app app1 f l = Ok ys -> map_app app2 f l <> OOF -> map_app app2 f l = Ok ys.
Proof.
  revert ys. induction l as [|x l IH]; simpl; intros ys H N; auto.
  apply bind_ok_inv in H. destruct H as (y & E1 & H).
  apply bind_ok_inv in H. destruct H as (ys' & E2 & H). inv H.
  pose proof (HA _ _ _ E1 (bind_not_oof _ _ N)) as E3. rewrite E3 in *. simpl in *.
  rewrite (IH _ E2 (bind_not_oof _ _ N)). reflexivity.
Qed.

Lemma accept_app_agrees f l ys :
  accept_app app1 f l = Ok ys -> accept_app app2 f l <> OOF -> accept_app app2 f l = Ok ys.
Proof.
  revert ys. induction l as [|x l IH]; simpl; intros ys H N; auto.
  apply bind_ok_inv in H. destruct H as (y & E1 & H).
  pose proof (HA _ _ _ E1 (bind_not_oof _ _ N)) as E3. rewrite E3 in *. simpl in *.
  destruct y; try discriminate.
  apply bind_ok_inv in H. destruct H as (ys' & E2 & H). inv H.
  rewrite (IH _ E2 (bind_not_oof _ _ N)). reflexivity.
Qed.

Lemma fold_app_agrees f l acc v :
  fold_app app1 f acc l = Ok v -> fold_app app2 f acc l <> OOF -> fold_app app2 f acc l = Ok v.
Proof.
  revert acc. induction l as [|x l IH]; simpl; intros acc H N; auto.
  apply bind_ok_inv in H. destruct H as (y & E1 & H).
  pose proof (HA _ _ _ E1 (bind_not_oof _ _ N)) as E3. rewrite E3 in *. simpl in *. auto.
Qed.

Lemma index_where_agrees f l i z :
  index_where app1 f l i = Ok z -> index_where app2 f l i <> OOF -> index_where app2 f l i = Ok z.
Proof.
  revert i. induction l as [|x l IH]; simpl; intros i H N; auto.
  apply bind_ok_inv in H. destruct H as (y & E1 & H).
  pose proof (HA _ _ _ E1 (bind_not_oof _ _ N)) as E3. rewrite E3 in *. simpl in *.
  destruct y; try discriminate. destruct b; auto.
Qed.

Lemma run_list_method_agrees m l args v :
  run_list_method app1 m l args = Ok v -> run_list_method app2 m l args <> OOF ->
  run_list_method app2 m l args = Ok v.
Proof.
  unfold run_list_method.
  repeat match goal with
         | |- context [if str_eqb m ?n then _ else _] => destruct (str_eqb m n)
         end; auto.
  - destruct args as [|f [|? ?]]; auto. destruct (is_func f 1); auto. intros H N.
    apply bind_ok_inv in H. destruct H as (ys & E & H).
    rewrite (map_app_agrees _ _ _ E (bind_not_oof _ _ N)). exact H.
  - destruct args as [|f [|? ?]]; auto. destruct (is_func f 1); auto. intros H N.
    apply bind_ok_inv in H. destruct H as (ys & E & H).
    rewrite (accept_app_agrees _ _ _ E (bind_not_oof _ _ N)). exact H.
  - destruct args as [|f [|? ?]]; auto. destruct (is_func f 2); auto. destruct l; auto.
    apply fold_app_agrees.
  - destruct args as [|i [|f [|? ?]]]; auto. destruct (is_func f 2); auto.
    apply fold_app_agrees.
  - destruct args as [|f [|? ?]]; auto. destruct (is_func f 1); auto. intros H N.
    apply bind_ok_inv in H. destruct H as (ys & E & H).
    rewrite (index_where_agrees _ _ _ _ E (bind_not_oof _ _ N)). exact H.
  - destruct args as [|f [|? ?]]; auto. destruct (is_func f 1); auto. intros H N.
    apply bind_ok_inv in H. destruct H as (ys & E & H).
    rewrite (index_where_agrees _ _ _ _ E (bind_not_oof _ _ N)). exact H.
Qed.

Lemma run_method_agrees rv m args v :
  run_method app1 rv m args = Ok v -> run_method app2 rv m args <> OOF -> run_method app2 rv m args = Ok v.
Proof.
  destruct rv; cbn [run_method]; auto. apply run_list_method_agrees.
Qed.

End Agree.

(* ---------- the rewrite steps of the optimizer preserve the meaning ---------- *)

Section Steps.
Variable known : list (N * list name).
Local Notation eval := (Ref.eval known).
Local Notation seq := (OptRel.seq known).

Lemma eval_const' k env v : eval (S k) env (AConst v) = Ok v.
Proof. reflexivity. Qed.

Ltac oof0 N := exfalso; apply N; reflexivity.

Lemma seq_op op a b v : rt op a b = Ok v -> seq (AOp op (AConst a) (AConst b)) (AConst v).
Proof.
  intros H n env N. destruct n as [|n]; [oof0 N|].
  destruct n as [|n].
  { exfalso. apply N. rewrite eval_S. cbn [ref_step].
    destruct (str_eqb op op_and); [reflexivity|]. destruct (str_eqb op op_or); reflexivity. }
  rewrite (eval_S known (S n) env (AOp _ _ _)). cbn [ref_step]. rewrite !eval_const'. cbn [bind].
  unfold rt in H. symmetry. exact H.
Qed.

Lemma seq_unary op c v : ucalc op c = Ok v -> seq (AUnary op (AConst c)) (AConst v).
Proof.
  intros H n env N. destruct n as [|n]; [oof0 N|].
  destruct n as [|n]; [oof0 N|].
  rewrite (eval_S known (S n) env (AUnary _ _)). cbn [ref_step]. rewrite !eval_const'. cbn [bind].
  symmetry; exact H.
Qed.

Lemma all_const_spec l vs : all_const l = Some vs -> l = map AConst vs.
Proof.
  revert vs. induction l as [|x l IH]; simpl; intros vs H.
  - inv H. reflexivity.
  - destruct x; simpl in H; try discriminate. destruct (all_const l); [|discriminate]. inv H.
    simpl. f_equal. auto.
Qed.

Lemma all_const_map_spec m vs :
  all_const_map m = Some vs -> m = map (fun e => (fst e, AConst (snd e))) vs.
Proof.
  revert vs. induction m as [|[k x] m IH]; simpl; intros vs H.
  - inv H. reflexivity.
  - destruct x; simpl in H; try discriminate. destruct (all_const_map m); [|discriminate]. inv H.
    simpl. f_equal. auto.
Qed.

Lemma r_list_consts k env vs : r_list (eval (S k)) env (map AConst vs) = Ok vs.
Proof. induction vs as [|v vs IH]; cbn [r_list map]; auto. rewrite eval_const', IH. reflexivity. Qed.

Lemma r_list_consts0 env vs : r_list (eval 0) env (map AConst vs) = match vs with [] => Ok [] | _ => OOF end.
Proof. destruct vs; reflexivity. Qed.

Lemma seq_list vs : seq (AList (map AConst vs)) (AConst (VList vs)).
Proof.
  intros n env N. destruct n as [|n]; [oof0 N|].
  rewrite (eval_S known n env (AList _)) in *. cbn [ref_step] in *.
  destruct n as [|n].
  - rewrite r_list_consts0 in *. destruct vs; [reflexivity|oof0 N].
  - rewrite r_list_consts. reflexivity.
Qed.

Lemma seq_index lv iv v : access_list lv iv = Ok v -> seq (AIndex (AConst lv) (AConst iv)) (AConst v).
Proof.
  intros H n env N. destruct n as [|n]; [oof0 N|].
  destruct n as [|n]; [oof0 N|].
  rewrite (eval_S known (S n) env (AIndex _ _)). cbn [ref_step]. rewrite !eval_const'. cbn [bind].
  symmetry; exact H.
Qed.

Lemma r_map_consts k env vs acc :
  r_map (eval (S k)) env (map (fun e => (fst e, AConst (snd e))) vs) acc = Ok (VMap (acc ++ vs)).
Proof.
  revert acc. induction vs as [|[kk v] vs IH]; intros acc; cbn [r_map map fst snd].
  - rewrite app_nil_r. reflexivity.
  - rewrite eval_const'. cbn [bind]. rewrite IH, <- app_assoc. reflexivity.
Qed.

Lemma seq_map vs : seq (AMap (map (fun e => (fst e, AConst (snd e))) vs)) (AConst (VMap vs)).
Proof.
  intros n env N. destruct n as [|n]; [oof0 N|].
  rewrite (eval_S known n env (AMap _)) in *. cbn [ref_step] in *.
  destruct n as [|n].
  - destruct vs as [|[kk v] vs]; [reflexivity|oof0 N].
  - rewrite r_map_consts. reflexivity.
Qed.

Lemma seq_member mv key v : access_map mv key = Ok v -> seq (AMember (AConst mv) key) (AConst v).
Proof.
  intros H n env N. destruct n as [|n]; [oof0 N|].
  destruct n as [|n]; [oof0 N|].
  rewrite (eval_S known (S n) env (AMember _ _)). cbn [ref_step]. rewrite !eval_const'. cbn [bind].
  symmetry; exact H.
Qed.

Lemma arity_matches_ok ar k : arity_matches ar k = arity_ok ar k.
Proof. reflexivity. Qed.

Lemma seq_static f ar cs v :
  static_arity f = Some ar -> arity_matches ar (length (map AConst cs)) = true -> run_static f cs = Ok v ->
  seq (AStatic f (map AConst cs)) (AConst v).
Proof.
  intros Har Hm H n env N. destruct n as [|n]; [oof0 N|].
  rewrite (eval_S known n env (AStatic _ _)) in *. cbn [ref_step] in *.
  rewrite Har in *. rewrite arity_matches_ok in Hm. rewrite Hm in *.
  destruct n as [|n].
  - rewrite r_list_consts0 in *. destruct cs; [cbn [bind]; symmetry; exact H|oof0 N].
  - rewrite r_list_consts. cbn [bind]. symmetry; exact H.
Qed.

End Steps.

(* ---------- Opt.opt produces an optimized form ---------- *)

Section OptArel.
Variable fl : cfgflags.
Variable known : list (N * list name).
Variable fuel : nat.
Local Notation eval := (Ref.eval known).
Local Notation seq := (OptRel.seq known).
Local Notation arel := (OptRel.arel known).
Local Notation vrel := (OptRel.vrel known).
Local Notation opt := (Opt.opt fl known fuel).

(* what the flags must guarantee (OptRel.flags_ok with the exact regrouping law) *)
Hypothesis Hfold : fold_agrees fl.
Hypothesis Hreg : regroup_exact_ok fl.
(* the closure-literal rule is switched off (no closure handler): see optimize_sound_partial_* *)
Hypothesis Hclo : f_closure fl = false.
(* the method rule leaves closure fields alone (the repaired code) *)
Hypothesis Hfc : f_fieldcheck fl = true.
Hypothesis Hmap : f_map fl = true.
(* code run at Generate time (Gen.exec on a fresh stack) agrees with the reference semantics:
   this is the subject of C01 (exec_sim) together with fuel monotonicity *)
Hypothesis HG : forall n, app_agrees (gapp known fuel) (r_app (eval n)).

Lemma is_const_spec a v : is_const a = Some v -> a = AConst v.
Proof. destruct a; simpl; intros H; inv H; reflexivity. Qed.

Lemma seq_call cv cs v :
  (match cv with VClo ps _ _ _ => Nat.eqb (length ps) (length (map AConst cs)) | _ => false end) = true ->
  gapp known fuel cv cs = Ok v -> seq (ACall (AConst cv) (map AConst cs)) (AConst v).
Proof.
  intros Hl H n env N. destruct n as [|n]; [exfalso; apply N; reflexivity|].
  destruct n as [|n]; [exfalso; apply N; reflexivity|].
  rewrite (eval_S known (S n) env (ACall _ _)) in N. rewrite (eval_S known (S n) env (ACall _ _)).
  cbn [ref_step] in *.
  rewrite !eval_const' in N. rewrite !eval_const'. cbn [bind] in *.
  destruct cv; try discriminate. cbv beta iota in N |- *. rewrite Nat.eqb_sym in Hl. rewrite Hl in N. rewrite Hl.
  rewrite r_list_consts in N. rewrite r_list_consts. cbn [bind] in *.
  rewrite (HG (S n) _ _ _ H N). reflexivity.
Qed.

Lemma field_of_none rv m : closure_field rv m = false -> field_of rv m = None.
Proof.
  destruct rv; simpl; auto. destruct (assoc_v m m0) as [[]|]; auto. discriminate.
Qed.

Lemma seq_method rv m ar cs v :
  closure_field rv m = false -> method_arity rv m = Some ar -> arity_matches ar (length cs) = true ->
  run_method (gapp known fuel) rv m cs = Ok v ->
  seq (AMethod (AConst rv) m (map AConst cs)) (AConst v).
Proof.
  intros Hf Har Hm H n env N. destruct n as [|n]; [exfalso; apply N; reflexivity|].
  destruct n as [|n]; [exfalso; apply N; reflexivity|].
  rewrite (eval_S known (S n) env (AMethod _ _ _)) in N. rewrite (eval_S known (S n) env (AMethod _ _ _)).
  cbn [ref_step] in *.
  rewrite !eval_const' in N. rewrite !eval_const'. cbn [bind] in *.
  rewrite (field_of_none _ _ Hf), Har in N. rewrite (field_of_none _ _ Hf), Har.
  rewrite map_length in N. rewrite map_length.
  rewrite arity_matches_ok in Hm. rewrite Hm in N. rewrite Hm.
  rewrite r_list_consts in N. rewrite r_list_consts. cbn [bind] in *.
  rewrite (run_method_agrees _ _ (HG (S n)) _ _ _ _ H N). reflexivity.
Qed.

(* the node rules *)

Lemma rule_if_arel s c c' t t' e e' :
  arel s c c' -> arel s t t' -> arel s e e' -> arel s (AIf c t e) (rule_if fl c' t' e').
Proof.
  intros Hc Ht He. unfold rule_if. destruct (f_tobool fl); [|constructor; auto].
  destruct (is_const c') as [cv|] eqn:E; [|constructor; auto].
  apply is_const_spec in E. subst c'.
  destruct cv; cbn [to_bool]; try (constructor; auto; fail).
  destruct b; [eapply ar_if_true|eapply ar_if_false]; eauto.
Qed.

Lemma rule_unary_arel s op x x' : arel s x x' -> arel s (AUnary op x) (rule_unary fl op x').
Proof.
  intros Hx. unfold rule_unary. destruct (mem_name op (f_unary fl)); [|constructor; auto].
  destruct (is_const x') as [cv|] eqn:E; [|constructor; auto].
  apply is_const_spec in E. subst x'.
  destruct (ucalc op cv) eqn:U; try (constructor; auto; fail).
  eapply ar_step; [constructor; eauto|]. apply seq_unary; auto.
Qed.

Lemma rule_op_arel s op x x' y y' :
  arel s x x' -> arel s y y' -> arel s (AOp op x y) (rule_op fl op x' y').
Proof.
  intros Hx Hy. unfold rule_op.
  destruct (op_flags fl op) as [[pure comm]|] eqn:F; [|constructor; auto].
  destruct (is_const y') as [bc|] eqn:E; [|constructor; auto].
  apply is_const_spec in E. subst y'.
  assert (Hcomm : arel s (AOp op x y)
    (if comm then
       match x' with
       | AOp op2 ia ib =>
           if str_eqb op2 op then
             match is_const ia with
             | Some iac => match calc op iac bc with Ok co => AOp op (AConst co) ib | _ => AOp op x' (AConst bc) end
             | None =>
                 match is_const ib with
                 | Some ibc => match calc op ibc bc with Ok co => AOp op ia (AConst co) | _ => AOp op x' (AConst bc) end
                 | None => AOp op x' (AConst bc)
                 end
             end
           else AOp op x' (AConst bc)
       | _ => AOp op x' (AConst bc)
       end
     else AOp op x' (AConst bc))).
  { destruct comm; [|constructor; auto].
    destruct (Hreg _ _ F) as [Hsc Hlaw].
    destruct x'; try (constructor; auto; fail).
    destruct (str_eqb op0 op) eqn:Eop; [|constructor; auto].
    apply str_eqb_true in Eop. subst op0.
    destruct (is_const x'1) as [iac|] eqn:E1.
    - apply is_const_spec in E1. subst x'1.
      destruct (calc op iac bc) eqn:C; try (constructor; auto; fail).
      eapply ar_regroup_l; eauto.
    - destruct (is_const x'2) as [ibc|] eqn:E2; [|constructor; auto].
      apply is_const_spec in E2. subst x'2.
      destruct (calc op ibc bc) eqn:C; try (constructor; auto; fail).
      eapply ar_regroup_r; eauto. }
  destruct pure; [|exact Hcomm].
  destruct (is_const x') as [ac|] eqn:E; [|exact Hcomm].
  apply is_const_spec in E. subst x'.
  destruct (calc op ac bc) eqn:C; try (constructor; auto; fail).
  eapply ar_step; [constructor; eauto|]. apply seq_op. eapply Hfold; eauto.
Qed.

Lemma rule_list_arel s l l' : Forall2 (arel s) l l' -> arel s (AList l) (rule_list fl l').
Proof.
  intros Hl. unfold rule_list. destruct (f_list fl); [|constructor; auto].
  destruct (all_const l') as [vs|] eqn:E; [|constructor; auto].
  apply all_const_spec in E. subst l'.
  eapply ar_step; [constructor; eauto|]. apply seq_list.
Qed.

Lemma rule_index_arel s l l' i i' : arel s l l' -> arel s i i' -> arel s (AIndex l i) (rule_index fl l' i').
Proof.
  intros Hl Hi. unfold rule_index. destruct (f_list fl); [|constructor; auto].
  destruct (is_const l') as [lv|] eqn:E1; [|constructor; auto].
  destruct (is_const i') as [iv|] eqn:E2; [|constructor; auto].
  apply is_const_spec in E1, E2. subst.
  destruct (access_list lv iv) eqn:A; try (constructor; auto; fail).
  eapply ar_step; [constructor; eauto|]. apply seq_index; auto.
Qed.

Lemma rule_map_arel s m m' :
  Forall2 (fun e e' => fst e = fst e' /\ arel s (snd e) (snd e')) m m' -> arel s (AMap m) (rule_map fl m').
Proof.
  intros Hm. unfold rule_map. destruct (f_map fl); [|constructor; auto].
  destruct (all_const_map m') as [vs|] eqn:E; [|constructor; auto].
  apply all_const_map_spec in E. subst m'.
  eapply ar_step; [constructor; eauto|]. apply seq_map.
Qed.

Lemma rule_member_arel s m m' key : arel s m m' -> arel s (AMember m key) (rule_member fl m' key).
Proof.
  intros Hm. unfold rule_member. destruct (f_map fl); [|constructor; auto].
  destruct (is_const m') as [mv|] eqn:E1; [|constructor; auto].
  apply is_const_spec in E1. subst.
  destruct (access_map mv key) eqn:A; try (constructor; auto; fail).
  eapply ar_step; [constructor; eauto|]. apply seq_member; auto.
Qed.

Lemma rule_static_arel s f args args' :
  Forall2 (arel s) args args' -> arel s (AStatic f args) (rule_static fl f args').
Proof.
  intros Ha. unfold rule_static. destruct (static_pure fl f); [|constructor; auto].
  destruct (static_arity f) as [ar|] eqn:Ar; [|constructor; auto].
  destruct (arity_matches ar (length args')) eqn:Am; [|constructor; auto].
  destruct (all_const args') as [cs|] eqn:E; [|constructor; auto].
  apply all_const_spec in E. subst args'.
  destruct (run_static f cs) eqn:Rs; try (constructor; auto; fail).
  eapply ar_step; [constructor; eauto|]. eapply seq_static; eauto.
Qed.

Lemma rule_call_arel s fn fn' args args' :
  arel s fn fn' -> Forall2 (arel s) args args' -> arel s (ACall fn args) (rule_call fl known fuel fn' args').
Proof.
  intros Hf Ha. unfold rule_call.
  destruct (is_const fn') as [cv|] eqn:E1; [|constructor; auto].
  apply is_const_spec in E1. subst fn'.
  destruct (f_closure fl); [|constructor; auto].
  destruct cv; try (constructor; auto; fail).
  destruct (clo_value_pure fl _); [|constructor; auto].
  destruct (Nat.eqb (length ps) (length args')) eqn:L; [|constructor; auto].
  destruct (all_const args') as [cs|] eqn:E; [|constructor; auto].
  apply all_const_spec in E. subst args'.
  destruct (gapp known fuel (VClo ps body cap self) cs) eqn:G; try (constructor; auto; fail).
  eapply ar_step; [constructor; eauto|]. eapply seq_call; eauto.
Qed.

Lemma rule_method_arel s recv recv' m args args' :
  arel s recv recv' -> Forall2 (arel s) args args' ->
  arel s (AMethod recv m args) (rule_method fl known fuel recv' m args').
Proof.
  intros Hr Ha. unfold rule_method.
  destruct (is_const recv') as [rv|] eqn:E1; [|constructor; auto].
  apply is_const_spec in E1. subst recv'.
  rewrite Hfc, Hmap. cbn [andb].
  destruct (closure_field rv m) eqn:Cf; [constructor; auto|].
  destruct (all_const args') as [cs|] eqn:E; [|constructor; auto].
  apply all_const_spec in E. subst args'.
  destruct (f_method fl); [|constructor; auto].
  destruct (method_arity rv m) as [ar|] eqn:Ar; [|constructor; auto].
  destruct (method_pure fl rv m); [|constructor; auto].
  destruct (arity_matches ar (length cs)) eqn:Am; [|constructor; auto].
  destruct (run_method (gapp known fuel) rv m cs) eqn:Rm; try (constructor; auto; fail).
  eapply ar_step; [constructor; eauto|]. eapply seq_method; eauto.
Qed.

Lemma rule_closure_arel s s' ps b b' outer outer' r this :
  arel s' b b' -> s' = sdrop (ps ++ this_names this) s ->
  arel s (AClosure ps b outer r this) (rule_closure fl ps b' outer' r this).
Proof.
  intros Hb ->. unfold rule_closure. rewrite Hclo. constructor. auto.
Qed.

(* the traversal *)

Definition opt_cases (deep : bool) (s : list (name * value)) (cases : list (ast * ast)) : list (ast * ast) :=
  map (fun c => (opt false s (fst c), opt deep s (snd c))) cases.
Definition opt_entries (deep : bool) (s : list (name * value)) (m : list (name * ast)) : list (name * ast) :=
  map (fun e => (fst e, opt deep s (snd e))) m.

Lemma opt_eq_let deep s x v b :
  opt deep s (ALet x v b) =
  match opt true s v with
  | AConst c => opt deep ((x, c) :: s) b
  | v' => ALet x v' (opt deep (sdrop [x] s) b)
  end.
Proof. reflexivity. Qed.

Lemma opt_eq_switch deep s v cases d :
  opt deep s (ASwitch v cases d) = ASwitch (opt deep s v) (opt_cases deep s cases) (opt deep s d).
Proof.
  cbn [Opt.opt]. f_equal. unfold opt_cases.
  induction cases as [|[cc cr] cases IH]; [reflexivity|]. cbn [map fst snd]. rewrite <- IH. reflexivity.
Qed.

Lemma opt_eq_list deep s l :
  opt deep s (AList l) = if deep then rule_list fl (map (opt deep s) l) else AList (map (opt deep s) l).
Proof. reflexivity. Qed.

Lemma opt_eq_map deep s m :
  opt deep s (AMap m) = if deep then rule_map fl (opt_entries deep s m) else AMap (opt_entries deep s m).
Proof.
  cbn [Opt.opt].
  assert (E : (fix go (m0 : list (name * ast)) : list (name * ast) :=
                 match m0 with [] => [] | (k, x) :: rest => (k, opt deep s x) :: go rest end) m
              = opt_entries deep s m).
  { unfold opt_entries. induction m as [|[k x] m IH]; [reflexivity|]. cbn [map fst snd]. rewrite <- IH. reflexivity. }
  rewrite E. reflexivity.
Qed.

Lemma opt_eq_call deep s fn args :
  opt deep s (ACall fn args) =
  if deep then rule_call fl known fuel (opt deep s fn) (map (opt deep s) args)
  else ACall (opt deep s fn) (map (opt deep s) args).
Proof. reflexivity. Qed.

Lemma opt_eq_static deep s f args :
  opt deep s (AStatic f args) =
  if deep then rule_static fl f (map (opt deep s) args) else AStatic f (map (opt deep s) args).
Proof. reflexivity. Qed.

Lemma opt_eq_method deep s recv m args :
  opt deep s (AMethod recv m args) =
  if deep then rule_method fl known fuel (opt deep s recv) m (map (opt deep s) args)
  else AMethod (opt deep s recv) m (map (opt deep s) args).
Proof. reflexivity. Qed.

Lemma consts_fo_list l : consts_fo (AList l) = forallb consts_fo l.
Proof. reflexivity. Qed.
Lemma consts_fo_call fn args : consts_fo (ACall fn args) = consts_fo fn && forallb consts_fo args.
Proof. reflexivity. Qed.
Lemma consts_fo_static f args : consts_fo (AStatic f args) = forallb consts_fo args.
Proof. reflexivity. Qed.
Lemma consts_fo_method recv m args : consts_fo (AMethod recv m args) = consts_fo recv && forallb consts_fo args.
Proof. reflexivity. Qed.
Lemma consts_fo_map m : consts_fo (AMap m) = forallb (fun e => consts_fo (snd e)) m.
Proof. cbn [consts_fo]. induction m as [|[k x] m IH]; [reflexivity|]. cbn [forallb snd]. rewrite <- IH. reflexivity. Qed.
Lemma consts_fo_switch v cases d :
  consts_fo (ASwitch v cases d) =
  consts_fo v && consts_fo d && forallb (fun c => consts_fo (fst c) && consts_fo (snd c)) cases.
Proof.
  cbn [consts_fo]. f_equal. induction cases as [|[cc cr] cases IH]; [reflexivity|].
  rewrite IH. reflexivity.
Qed.

Definition Popt (a : ast) : Prop :=
  forall deep s, consts_fo a = true -> arel s a (opt deep s a).

Lemma Forall2_map_opt deep s l :
  Forall Popt l -> forallb consts_fo l = true -> Forall2 (arel s) l (map (opt deep s) l).
Proof.
  induction 1 as [|x l Hx Hl IH]; cbn [forallb map]; intros H; [constructor|].
  apply andb_true_iff in H. destruct H. constructor; auto.
Qed.

Theorem opt_arel : forall a, Popt a.
Proof.
  induction a using ast_ind2; unfold Popt in *; intros deep s C.
  - (* const *) cbn [Opt.opt]. constructor. apply fo_vrel. exact C.
  - (* ident *) cbn [Opt.opt]. destruct (lookup x s) eqn:L; constructor; auto.
  - (* let *) rewrite opt_eq_let. cbn [consts_fo] in C. apply andb_true_iff in C. destruct C as [C1 C2].
    pose proof (IHa1 true s C1) as Hv.
    destruct (opt true s a1) eqn:E;
      try (apply ar_let; [exact Hv|apply IHa2; exact C2]).
    eapply ar_let_const; [exact Hv|apply IHa2; exact C2].
  - (* if *) cbn [Opt.opt]. cbn [consts_fo] in C.
    apply andb_true_iff in C. destruct C as [C C3]. apply andb_true_iff in C. destruct C as [C1 C2].
    destruct deep; [apply rule_if_arel; auto|constructor; auto].
  - (* switch *) rewrite opt_eq_switch. rewrite consts_fo_switch in C.
    apply andb_true_iff in C. destruct C as [C C3]. apply andb_true_iff in C. destruct C as [C1 C2].
    constructor; auto. unfold opt_cases.
    induction H as [|[cc cr] cases [Hc1 Hc2] Hcs IH]; cbn [forallb map fst snd] in *; [constructor|].
    apply andb_true_iff in C3. destruct C3 as [C3 C4]. apply andb_true_iff in C3. destruct C3.
    constructor; [cbn [fst snd] in *; split; auto|auto].
  - (* try *) cbn [Opt.opt]. cbn [consts_fo] in C. apply andb_true_iff in C. destruct C.
    constructor; auto.
  - (* unary *) cbn [Opt.opt]. cbn [consts_fo] in C.
    destruct deep; [apply rule_unary_arel; auto|constructor; auto].
  - (* op *) cbn [Opt.opt]. cbn [consts_fo] in C. apply andb_true_iff in C. destruct C.
    destruct deep; [apply rule_op_arel; auto|constructor; auto].
  - (* closure *) cbn [Opt.opt]. cbn [consts_fo] in C.
    destruct deep; [eapply rule_closure_arel; eauto|constructor; auto].
  - (* list *) rewrite opt_eq_list. rewrite consts_fo_list in C.
    pose proof (Forall2_map_opt deep s _ H C).
    destruct deep; [apply rule_list_arel; auto|constructor; auto].
  - (* index *) cbn [Opt.opt]. cbn [consts_fo] in C. apply andb_true_iff in C. destruct C.
    destruct deep; [apply rule_index_arel; auto|constructor; auto].
  - (* map *) rewrite opt_eq_map. rewrite consts_fo_map in C.
    assert (HH : Forall2 (fun e e' => fst e = fst e' /\ arel s (snd e) (snd e')) m (opt_entries deep s m)).
    { unfold opt_entries. induction H as [|[k x] m Hx Hm IH]; cbn [forallb map fst snd] in *; [constructor|].
      apply andb_true_iff in C. destruct C. constructor; [cbn [fst snd] in *; split; auto|auto]. }
    destruct deep; [apply rule_map_arel; auto|constructor; auto].
  - (* member *) cbn [Opt.opt]. cbn [consts_fo] in C.
    destruct deep; [apply rule_member_arel; auto|constructor; auto].
  - (* call *) rewrite opt_eq_call. rewrite consts_fo_call in C. apply andb_true_iff in C. destruct C as [C1 C2].
    pose proof (Forall2_map_opt deep s _ H C2).
    destruct deep; [apply rule_call_arel; auto|constructor; auto].
  - (* static *) rewrite opt_eq_static. rewrite consts_fo_static in C.
    pose proof (Forall2_map_opt deep s _ H C).
    destruct deep; [apply rule_static_arel; auto|constructor; auto].
  - (* method *) rewrite opt_eq_method. rewrite consts_fo_method in C. apply andb_true_iff in C. destruct C as [C1 C2].
    pose proof (Forall2_map_opt deep s _ H C2).
    destruct deep; [apply rule_method_arel; auto|constructor; auto].
Qed.

(* ---------- soundness of the optimizer model ---------- *)

Lemma env_rel_refl env :
  (forall x v, lookup x env = Some v -> vrel v v) -> OptRel.env_rel known [] env env.
Proof.
  intros H. split; [intros x c L; discriminate|]. intros x _.
  destruct (lookup x env) eqn:L; constructor. eauto.
Qed.

Theorem optimize_sound_gen : forall n env a,
  consts_fo a = true ->
  (forall x v, lookup x env = Some v -> vrel v v) ->
  decided (eval n env a) ->
  wrel vrel (eval n env a) (eval n env (optimize fl known fuel a)).
Proof.
  intros n env a C He D.
  eapply (sim known n); eauto.
  - apply opt_arel. exact C.
  - apply env_rel_refl. exact He.
Qed.

End OptArel.
