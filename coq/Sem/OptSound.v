(* Opt.opt produces an optimized form in the sense of OptRel.arel; with the simulation theorem of
   Sem/OptProofs.v this gives the soundness of the optimizer model.  What is run at Generate time is
   tied to the reference semantics by the C01 theorems (Sem/OptWf.v). *)
From P2 Require Import Base.Prelude Base.PreludeProofs Sem.Num Sem.Syntax Sem.Ops Sem.Lib Sem.Ref Sem.Gen Sem.Sim Sem.RelProofs Sem.GenProofs Sem.RefMono Sem.Trace Sem.TraceProofs Sem.Opt Sem.OptRel Sem.OptRelProofs Sem.OptOpsProofs Sem.OptLibProofs Sem.OptProofs Sem.OptWf.
Require Import Lia.

(* ---------- the rewrite steps of the optimizer preserve the meaning ---------- *)

Section Steps.
Variable known : list (N * list name).
Local Notation eval := (Ref.eval known).
Local Notation seq := (OptRel.seq known).

Lemma eval_const' k env v : eval (S k) env (AConst v) = Ok v.
Proof. reflexivity. Qed.

Ltac oof0 N := exfalso; apply N; reflexivity.

Lemma seq_op op a b v : rt op a b = Ok v -> seq (AOp op (AConst a) (AConst b)) (AConst v).
Proof.
  intros H n env N. destruct n as [|n]; [oof0 N|].
  destruct n as [|n].
  { exfalso. apply N. rewrite eval_S. cbn [ref_step].
    destruct (str_eqb op op_and); [reflexivity|]. destruct (str_eqb op op_or); reflexivity. }
  rewrite (eval_S known (S n) env (AOp _ _ _)). cbn [ref_step]. rewrite !eval_const'. cbn [bind].
  unfold rt in H. symmetry. exact H.
Qed.

Lemma seq_unary op c v : ucalc op c = Ok v -> seq (AUnary op (AConst c)) (AConst v).
Proof.
  intros H n env N. destruct n as [|n]; [oof0 N|].
  destruct n as [|n]; [oof0 N|].
  rewrite (eval_S known (S n) env (AUnary _ _)). cbn [ref_step]. rewrite !eval_const'. cbn [bind].
  symmetry; exact H.
Qed.

Lemma all_const_spec l vs : all_const l = Some vs -> l = map AConst vs.
Proof.
  revert vs. induction l as [|x l IH]; simpl; intros vs H.
  - inv H. reflexivity.
  - destruct x; simpl in H; try discriminate. destruct (all_const l); [|discriminate]. inv H.
    simpl. f_equal. auto.
Qed.

Lemma all_const_map_spec m vs :
  all_const_map m = Some vs -> m = map (fun e => (fst e, AConst (snd e))) vs.
Proof.
  revert vs. induction m as [|[k x] m IH]; simpl; intros vs H.
  - inv H. reflexivity.
  - destruct x; simpl in H; try discriminate. destruct (all_const_map m); [|discriminate]. inv H.
    simpl. f_equal. auto.
Qed.

Lemma r_list_consts k env vs : r_list (eval (S k)) env (map AConst vs) = Ok vs.
Proof. induction vs as [|v vs IH]; cbn [r_list map]; auto. rewrite eval_const', IH. reflexivity. Qed.

Lemma r_list_consts0 env vs : r_list (eval 0) env (map AConst vs) = match vs with [] => Ok [] | _ => OOF end.
Proof. destruct vs; reflexivity. Qed.

Lemma seq_list vs : seq (AList (map AConst vs)) (AConst (VList vs)).
Proof.
  intros n env N. destruct n as [|n]; [oof0 N|].
  rewrite (eval_S known n env (AList _)) in *. cbn [ref_step] in *.
  destruct n as [|n].
  - rewrite r_list_consts0 in *. destruct vs; [reflexivity|oof0 N].
  - rewrite r_list_consts. reflexivity.
Qed.

Lemma seq_index lv iv v : access_list lv iv = Ok v -> seq (AIndex (AConst lv) (AConst iv)) (AConst v).
Proof.
  intros H n env N. destruct n as [|n]; [oof0 N|].
  destruct n as [|n]; [oof0 N|].
  rewrite (eval_S known (S n) env (AIndex _ _)). cbn [ref_step]. rewrite !eval_const'. cbn [bind].
  symmetry; exact H.
Qed.

Lemma r_map_consts k env vs acc :
  r_map (eval (S k)) env (map (fun e => (fst e, AConst (snd e))) vs) acc = Ok (VMap (acc ++ vs)).
Proof.
  revert acc. induction vs as [|[kk v] vs IH]; intros acc; cbn [r_map map fst snd].
  - rewrite app_nil_r. reflexivity.
  - rewrite eval_const'. cbn [bind]. rewrite IH, <- app_assoc. reflexivity.
Qed.

Lemma seq_map vs : seq (AMap (map (fun e => (fst e, AConst (snd e))) vs)) (AConst (VMap vs)).
Proof.
  intros n env N. destruct n as [|n]; [oof0 N|].
  rewrite (eval_S known n env (AMap _)) in *. cbn [ref_step] in *.
  destruct n as [|n].
  - destruct vs as [|[kk v] vs]; [reflexivity|oof0 N].
  - rewrite r_map_consts. reflexivity.
Qed.

Lemma seq_member mv key v : access_map mv key = Ok v -> seq (AMember (AConst mv) key) (AConst v).
Proof.
  intros H n env N. destruct n as [|n]; [oof0 N|].
  destruct n as [|n]; [oof0 N|].
  rewrite (eval_S known (S n) env (AMember _ _)). cbn [ref_step]. rewrite !eval_const'. cbn [bind].
  symmetry; exact H.
Qed.

Lemma arity_matches_ok ar k : arity_matches ar k = arity_ok ar k.
Proof. reflexivity. Qed.

Lemma seq_static f ar cs v :
  static_arity f = Some ar -> arity_matches ar (length (map AConst cs)) = true -> run_static f cs = Ok v ->
  seq (AStatic f (map AConst cs)) (AConst v).
Proof.
  intros Har Hm H n env N. destruct n as [|n]; [oof0 N|].
  rewrite (eval_S known n env (AStatic _ _)) in *. cbn [ref_step] in *.
  rewrite Har in *. rewrite arity_matches_ok in Hm. rewrite Hm in *.
  destruct n as [|n].
  - rewrite r_list_consts0 in *. destruct cs; [cbn [bind]; symmetry; exact H|oof0 N].
  - rewrite r_list_consts. cbn [bind]. symmetry; exact H.
Qed.

(* the same redexes with a fixed fuel: they evaluate to the constant in every environment *)
Lemma evalk_op op a b v env : rt op a b = Ok v -> eval 2 env (AOp op (AConst a) (AConst b)) = Ok v.
Proof.
  intros H. rewrite (eval_S known 1 env (AOp _ _ _)). cbn [ref_step]. rewrite !eval_const'. cbn [bind].
  unfold rt in H. exact H.
Qed.
Lemma evalk_unary op c v env : ucalc op c = Ok v -> eval 2 env (AUnary op (AConst c)) = Ok v.
Proof. intros H. rewrite (eval_S known 1 env (AUnary _ _)). cbn [ref_step]. rewrite !eval_const'. exact H. Qed.
Lemma evalk_list vs env : eval 2 env (AList (map AConst vs)) = Ok (VList vs).
Proof. rewrite (eval_S known 1 env (AList _)). cbn [ref_step]. rewrite r_list_consts. reflexivity. Qed.
Lemma evalk_index lv iv v env : access_list lv iv = Ok v -> eval 2 env (AIndex (AConst lv) (AConst iv)) = Ok v.
Proof. intros H. rewrite (eval_S known 1 env (AIndex _ _)). cbn [ref_step]. rewrite !eval_const'. exact H. Qed.
Lemma evalk_map vs env : eval 2 env (AMap (map (fun e => (fst e, AConst (snd e))) vs)) = Ok (VMap vs).
Proof. rewrite (eval_S known 1 env (AMap _)). cbn [ref_step]. rewrite r_map_consts. reflexivity. Qed.
Lemma evalk_member mv key v env : access_map mv key = Ok v -> eval 2 env (AMember (AConst mv) key) = Ok v.
Proof. intros H. rewrite (eval_S known 1 env (AMember _ _)). cbn [ref_step]. rewrite !eval_const'. exact H. Qed.
Lemma evalk_static f ar cs v env :
  static_arity f = Some ar -> arity_matches ar (length (map AConst cs)) = true -> run_static f cs = Ok v ->
  eval 2 env (AStatic f (map AConst cs)) = Ok v.
Proof.
  intros Har Hm H. rewrite (eval_S known 1 env (AStatic _ _)). cbn [ref_step].
  rewrite Har. rewrite arity_matches_ok in Hm. rewrite Hm. rewrite r_list_consts. exact H.
Qed.

(* a closed term that evaluates to v with fuel k in every environment means the constant v, in the
   reference semantics and (erasure, fuel monotonicity) in the trace semantics under every oracle *)
Lemma step_of_evalk k t v :
  (forall env, eval k env t = Ok v) ->
  seq t (AConst v) /\ (forall host, tseq known host t (AConst v)).
Proof.
  intros H. split.
  - intros n env N. destruct n as [|n]; [exfalso; apply N; reflexivity|]. rewrite eval_const'.
    symmetry. rewrite <- (H env). apply eval_agree; [rewrite H; discriminate|exact N].
  - intros host n env D. destruct n as [|n]; [destruct D|].
    assert (E : teval known host k env t = (Ok v, [])).
    { rewrite <- (H env). apply eval_teval. rewrite H. exact I. }
    rewrite (teval_agree known host k (S n) env t).
    + rewrite E. reflexivity.
    + rewrite E. discriminate.
    + intros EO. rewrite EO in D. destruct D.
Qed.

End Steps.

(* the redexes of the optimizer have no free names *)
Lemma closed_op op a b : closed (AOp op (AConst a) (AConst b)).
Proof. intros x. reflexivity. Qed.
Lemma closed_unary op c : closed (AUnary op (AConst c)).
Proof. intros x. reflexivity. Qed.
Lemma closed_list vs : closed (AList (map AConst vs)).
Proof. intros x. rewrite fv_list. apply existsb_consts. Qed.
Lemma closed_index a b : closed (AIndex (AConst a) (AConst b)).
Proof. intros x. reflexivity. Qed.
Lemma closed_map vs : closed (AMap (map (fun e => (fst e, AConst (snd e))) vs)).
Proof. intros x. rewrite fv_map. apply existsb_const_entries. Qed.
Lemma closed_member a k : closed (AMember (AConst a) k).
Proof. intros x. reflexivity. Qed.
Lemma closed_static f cs : closed (AStatic f (map AConst cs)).
Proof. intros x. rewrite fv_static. apply existsb_consts. Qed.
Lemma closed_call c cs : closed (ACall (AConst c) (map AConst cs)).
Proof. intros x. rewrite fv_call. cbn [fv orb]. apply existsb_consts. Qed.
Lemma closed_method c m cs : closed (AMethod (AConst c) m (map AConst cs)).
Proof. intros x. rewrite fv_method. cbn [fv orb]. apply existsb_consts. Qed.

(* ---------- Opt.opt produces an optimized form ---------- *)

Section OptArel.
Variable fl : cfgflags.
Variable known : list (N * list name).
Variable fuel : nat.
Local Notation eval := (Ref.eval known).
Local Notation seq := (OptRel.seq known).
Local Notation arel := (OptRel.arel known).
Local Notation vrel := (OptRel.vrel known).
Local Notation opt := (Opt.opt fl known fuel).

(* what the flags must guarantee (OptRel.flags_ok with the exact regrouping law) *)
Hypothesis Hfold : fold_agrees fl.
Hypothesis Hreg : regroup_exact_ok fl.
(* the method rule leaves closure fields alone (the repaired code) *)
Hypothesis Hfc : f_fieldcheck fl = true.
Hypothesis Hmap : f_map fl = true.

Lemma is_const_spec a v : is_const a = Some v -> a = AConst v.
Proof. destruct a; simpl; intros H; inv H; reflexivity. Qed.

(* a computed constant is kept (always by the implementation's optimizer, only when first-order by
   the strict one); it is a well-formed constant *)
Lemma konst_side orig v : sidep orig -> cwf v -> sidep (konst fl orig v).
Proof. intros H C. unfold konst. destruct (strict_ok fl v); auto. Qed.

(* a fold: the redex t is closed and means the constant *)
Lemma konst_arel k s a t v :
  arel s a t -> closed t -> (forall env, eval k env t = Ok v) -> arel s a (konst fl t v).
Proof.
  intros Ha Hc Hs. unfold konst. destruct (strict_ok fl v); auto.
  destruct (step_of_evalk known k t v Hs). eapply ar_step; eauto.
Qed.

(* a constant closure applied to constants at Generate time *)
Lemma gsem_call cv cs v :
  cwf cv -> Forall cwf cs ->
  (match cv with VClo ps _ _ _ => Nat.eqb (length ps) (length (map AConst cs)) | _ => false end) = true ->
  gapp known fuel cv cs = Ok v ->
  (exists k v1, (forall env, eval k env (ACall (AConst cv) (map AConst cs)) = Ok v1) /\ Sim.vrel v1 v) /\ cwf v.
Proof.
  intros Wc Wcs Hl H. destruct (gapp_rel known fuel _ _ _ Wc Wcs H) as (v1 & E1 & R1).
  split; [|eapply vrel_cwf_r; eauto].
  exists (S (S fuel)), v1. split; [|exact R1]. intros env.
  rewrite (eval_S known (S fuel) env (ACall _ _)). cbn [ref_step].
  rewrite !eval_const'. cbn [bind].
  destruct cv; try discriminate. cbv beta iota. rewrite Nat.eqb_sym in Hl. rewrite Hl.
  rewrite r_list_consts. cbn [bind].
  rewrite (r_app_le _ _ (fun env0 a => eval_mono known fuel (S fuel) env0 a (Nat.le_succ_diag_r fuel)) _ cs);
    [exact E1|rewrite E1; discriminate].
Qed.

Lemma field_of_none rv m : closure_field rv m = false -> field_of rv m = None.
Proof.
  destruct rv; simpl; auto. destruct (assoc_v m m0) as [[]|]; auto. discriminate.
Qed.

(* a method (possibly with callbacks) run on constants at Generate time *)
Lemma gsem_method rv m ar cs v :
  cwf rv -> Forall cwf cs ->
  closure_field rv m = false -> method_arity rv m = Some ar -> arity_matches ar (length cs) = true ->
  run_method (gapp known fuel) rv m cs = Ok v ->
  (exists k v1, (forall env, eval k env (AMethod (AConst rv) m (map AConst cs)) = Ok v1) /\ Sim.vrel v1 v) /\ cwf v.
Proof.
  intros Wr Wcs Hf Har Hm H. destruct (method_rel known fuel _ _ _ _ Wr Wcs H) as (v1 & E1 & R1).
  split; [|eapply vrel_cwf_r; eauto].
  exists (S (S fuel)), v1. split; [|exact R1]. intros env.
  rewrite (eval_S known (S fuel) env (AMethod _ _ _)). cbn [ref_step].
  rewrite !eval_const'. cbn [bind].
  rewrite (field_of_none _ _ Hf), Har. rewrite map_length.
  rewrite arity_matches_ok in Hm. rewrite Hm.
  rewrite r_list_consts. cbn [bind].
  (* the side condition first: see the remark in OptWf.method_ref *)
  assert (N1 : run_method (r_app (eval fuel)) rv m cs <> OOF) by (rewrite E1; discriminate).
  rewrite (run_method_le _ _ (r_app_le _ _ (fun env0 a => eval_mono known fuel (S fuel) env0 a (Nat.le_succ_diag_r fuel))) rv m cs N1).
  exact E1.
Qed.

(* constants among optimized children are well-formed *)
Lemma sidep_consts l cs : wf_list sidep l -> l = map AConst cs -> Forall cwf cs.
Proof.
  revert l. induction cs as [|c cs IH]; intros l W ->; constructor; cbn in W; [tauto|].
  eapply IH; [|reflexivity]. tauto.
Qed.

(* ---------- the node rules: optimized form ---------- *)

Lemma rule_if_arel s c c' t t' e e' :
  arel s c c' -> arel s t t' -> arel s e e' -> arel s (AIf c t e) (rule_if fl c' t' e').
Proof.
  intros Hc Ht He. unfold rule_if. destruct (f_tobool fl); [|constructor; auto].
  destruct (is_const c') as [cv|] eqn:E; [|constructor; auto].
  apply is_const_spec in E. subst c'.
  destruct cv; cbn [to_bool]; try (constructor; auto; fail).
  destruct b; [eapply ar_if_true|eapply ar_if_false]; eauto.
Qed.

Lemma rule_unary_arel s op x x' : arel s x x' -> arel s (AUnary op x) (rule_unary fl op x').
Proof.
  intros Hx. unfold rule_unary. destruct (mem_name op (f_unary fl)); [|constructor; auto].
  destruct (is_const x') as [cv|] eqn:E; [|constructor; auto].
  apply is_const_spec in E. subst x'.
  destruct (ucalc op cv) eqn:U; try (constructor; auto; fail).
  apply (konst_arel 2); [constructor; auto|apply closed_unary|intros; apply evalk_unary; auto].
Qed.

Lemma rule_op_arel s op x x' y y' :
  arel s x x' -> arel s y y' -> arel s (AOp op x y) (rule_op fl op x' y').
Proof.
  intros Hx Hy. unfold rule_op.
  destruct (op_flags fl op) as [[pure comm]|] eqn:F; [|constructor; auto].
  destruct (is_const y') as [bc|] eqn:E; [|constructor; auto].
  apply is_const_spec in E. subst y'.
  assert (Hcomm : arel s (AOp op x y)
    (if comm then
       match x' with
       | AOp op2 ia ib =>
           if str_eqb op2 op then
             match is_const ia with
             | Some iac => match calc op iac bc with
                           | Ok co => if strict_ok fl co then AOp op (AConst co) ib else AOp op x' (AConst bc)
                           | _ => AOp op x' (AConst bc) end
             | None =>
                 match is_const ib with
                 | Some ibc => match calc op ibc bc with
                               | Ok co => if strict_ok fl co then AOp op ia (AConst co) else AOp op x' (AConst bc)
                               | _ => AOp op x' (AConst bc) end
                 | None => AOp op x' (AConst bc)
                 end
             end
           else AOp op x' (AConst bc)
       | _ => AOp op x' (AConst bc)
       end
     else AOp op x' (AConst bc))).
  { destruct comm; [|constructor; auto].
    destruct (Hreg _ _ F) as [Hsc Hlaw].
    destruct x'; try (constructor; auto; fail).
    destruct (str_eqb op0 op) eqn:Eop; [|constructor; auto].
    apply str_eqb_true in Eop. subst op0.
    destruct (is_const x'1) as [iac|] eqn:E1.
    - apply is_const_spec in E1. subst x'1.
      destruct (calc op iac bc) eqn:C; try (constructor; auto; fail).
      destruct (strict_ok fl a); [|constructor; auto].
      eapply ar_regroup_l; eauto.
    - destruct (is_const x'2) as [ibc|] eqn:E2; [|constructor; auto].
      apply is_const_spec in E2. subst x'2.
      destruct (calc op ibc bc) eqn:C; try (constructor; auto; fail).
      destruct (strict_ok fl a); [|constructor; auto].
      eapply ar_regroup_r; eauto. }
  destruct pure; [|exact Hcomm].
  destruct (is_const x') as [ac|] eqn:E; [|exact Hcomm].
  apply is_const_spec in E. subst x'.
  destruct (calc op ac bc) eqn:C; try (constructor; auto; fail).
  apply (konst_arel 2); [constructor; auto|apply closed_op|]. intros; apply evalk_op. eapply Hfold; eauto.
Qed.

Lemma rule_list_arel s l l' : Forall2 (arel s) l l' -> arel s (AList l) (rule_list fl l').
Proof.
  intros Hl. unfold rule_list. destruct (f_list fl); [|constructor; auto].
  destruct (all_const l') as [vs|] eqn:E; [|constructor; auto].
  apply all_const_spec in E. subst l'.
  apply (konst_arel 2); [constructor; auto|apply closed_list|intros; apply evalk_list].
Qed.

Lemma rule_index_arel s l l' i i' : arel s l l' -> arel s i i' -> arel s (AIndex l i) (rule_index fl l' i').
Proof.
  intros Hl Hi. unfold rule_index. destruct (f_list fl); [|constructor; auto].
  destruct (is_const l') as [lv|] eqn:E1; [|constructor; auto].
  destruct (is_const i') as [iv|] eqn:E2; [|constructor; auto].
  apply is_const_spec in E1, E2. subst.
  destruct (access_list lv iv) eqn:A; try (constructor; auto; fail).
  apply (konst_arel 2); [constructor; auto|apply closed_index|intros; apply evalk_index; auto].
Qed.

Lemma rule_map_arel s m m' :
  Forall2 (fun e e' => fst e = fst e' /\ arel s (snd e) (snd e')) m m' -> arel s (AMap m) (rule_map fl m').
Proof.
  intros Hm. unfold rule_map. destruct (f_map fl); [|constructor; auto].
  destruct (all_const_map m') as [vs|] eqn:E; [|constructor; auto].
  apply all_const_map_spec in E. subst m'.
  apply (konst_arel 2); [constructor; auto|apply closed_map|intros; apply evalk_map].
Qed.

Lemma rule_member_arel s m m' key : arel s m m' -> arel s (AMember m key) (rule_member fl m' key).
Proof.
  intros Hm. unfold rule_member. destruct (f_map fl); [|constructor; auto].
  destruct (is_const m') as [mv|] eqn:E1; [|constructor; auto].
  apply is_const_spec in E1. subst.
  destruct (access_map mv key) eqn:A; try (constructor; auto; fail).
  apply (konst_arel 2); [constructor; auto|apply closed_member|intros; apply evalk_member; auto].
Qed.

Lemma rule_static_arel s f args args' :
  Forall2 (arel s) args args' -> arel s (AStatic f args) (rule_static fl f args').
Proof.
  intros Ha. unfold rule_static. destruct (static_pure fl f); [|constructor; auto].
  destruct (static_arity f) as [ar|] eqn:Ar; [|constructor; auto].
  destruct (arity_matches ar (length args')) eqn:Am; [|constructor; auto].
  destruct (all_const args') as [cs|] eqn:E; [|constructor; auto].
  apply all_const_spec in E. subst args'.
  destruct (run_static f cs) eqn:Rs; try (constructor; auto; fail).
  apply (konst_arel 2); [constructor; auto|apply closed_static|intros; eapply evalk_static; eauto].
Qed.

Lemma rule_call_arel s fn fn' args args' :
  arel s fn fn' -> Forall2 (arel s) args args' -> sidep fn' -> wf_list sidep args' ->
  arel s (ACall fn args) (rule_call fl known fuel fn' args').
Proof.
  intros Hf Ha Sf Sa. unfold rule_call.
  destruct (is_const fn') as [cv|] eqn:E1; [|constructor; auto].
  apply is_const_spec in E1. subst fn'.
  destruct (f_closure fl); [|constructor; auto].
  destruct cv; try (constructor; auto; fail).
  destruct (clo_value_pure fl _); [|constructor; auto].
  destruct (Nat.eqb (length ps) (length args')) eqn:L; [|constructor; auto].
  destruct (all_const args') as [cs|] eqn:E; [|constructor; auto].
  apply all_const_spec in E. subst args'.
  destruct (gapp known fuel (VClo ps body cap self) cs) eqn:G; try (constructor; auto; fail).
  unfold konst. destruct (strict_ok fl a) eqn:So; [|constructor; auto].
  eapply ar_gstep; [constructor; eauto|apply closed_call|].
  eapply gsem_call; eauto. eapply sidep_consts; eauto.
Qed.

Lemma rule_method_arel s recv recv' m args args' :
  arel s recv recv' -> Forall2 (arel s) args args' -> sidep recv' -> wf_list sidep args' ->
  arel s (AMethod recv m args) (rule_method fl known fuel recv' m args').
Proof.
  intros Hr Ha Sr Sa. unfold rule_method.
  destruct (is_const recv') as [rv|] eqn:E1; [|constructor; auto].
  apply is_const_spec in E1. subst recv'.
  rewrite Hfc, Hmap. cbn [andb].
  destruct (closure_field rv m) eqn:Cf; [constructor; auto|].
  destruct (all_const args') as [cs|] eqn:E; [|constructor; auto].
  apply all_const_spec in E. subst args'.
  destruct (f_method fl); [|constructor; auto].
  destruct (method_arity rv m) as [ar|] eqn:Ar; [|constructor; auto].
  destruct (method_pure fl rv m); [|constructor; auto].
  destruct (arity_matches ar (length cs)) eqn:Am; [|constructor; auto].
  destruct (run_method (gapp known fuel) rv m cs) eqn:Rm; try (constructor; auto; fail).
  unfold konst. destruct (strict_ok fl a) eqn:So; [|constructor; auto].
  eapply ar_gstep; [constructor; eauto|apply closed_method|].
  eapply gsem_method; eauto. eapply sidep_consts; eauto.
Qed.

Lemma rule_closure_arel s ps b b' outer outer' r this :
  arel (sdrop (ps ++ this_names this) s) b b' -> sidep b' ->
  arel s (AClosure ps b outer r this) (rule_closure fl ps b' outer' r this).
Proof.
  intros Hb Sb. unfold rule_closure. destruct (f_closure fl); [|constructor; auto].
  destruct outer'; [|constructor; auto]. destruct r; [constructor; auto|].
  destruct (clo_const_ok fl ps b') eqn:C; [|constructor; auto].
  unfold clo_const_ok in C. apply andb_true_iff in C. destruct C as [G _].
  destruct (gen_check_closed _ _ _ G Sb) as [_ Hcl].
  apply ar_closure_fold; auto.
Qed.

(* ---------- the node rules: the side conditions are kept ---------- *)

Lemma rule_if_side c t e : sidep c -> sidep t -> sidep e -> sidep (rule_if fl c t e).
Proof.
  intros. unfold rule_if. destruct (f_tobool fl); cbn [sidep]; auto.
  destruct (is_const c); cbn [sidep]; auto. destruct (to_bool v) as [[|]|]; cbn [sidep]; auto.
Qed.

Lemma is_const_cwf a v : sidep a -> is_const a = Some v -> cwf v.
Proof. intros S E. apply is_const_spec in E. subst. exact S. Qed.

Lemma all_const_cwf l vs : wf_list sidep l -> all_const l = Some vs -> Forall cwf vs.
Proof. intros S E. apply all_const_spec in E. eapply sidep_consts; eauto. Qed.

Lemma all_const_map_cwf m vs :
  wf_entries sidep m -> all_const_map m = Some vs -> Forall (fun e => cwf (snd e)) vs.
Proof.
  intros S E. apply all_const_map_spec in E. subst m.
  induction vs as [|[k v] vs IH]; constructor; cbn in S; [tauto|]. apply IH. tauto.
Qed.

Lemma rule_unary_side op x : sidep x -> sidep (rule_unary fl op x).
Proof.
  intros S. unfold rule_unary. destruct (mem_name op (f_unary fl)); cbn [sidep]; auto.
  destruct (is_const x) eqn:E; cbn [sidep]; auto. destruct (ucalc op v) eqn:U; cbn [sidep]; auto.
  apply konst_side; auto. exact (ucalc_cwf op v a (is_const_cwf _ _ S E) U).
Qed.

Lemma rule_op_side op x y : sidep x -> sidep y -> sidep (rule_op fl op x y).
Proof.
  intros Sx Sy. unfold rule_op.
  destruct (op_flags fl op) as [[pure comm]|]; [|cbn [sidep]; auto].
  destruct (is_const y) as [bc|] eqn:Ey; [|cbn [sidep]; auto].
  pose proof (is_const_cwf _ _ Sy Ey) as Cb.
  assert (So : sidep (AOp op x y)) by (cbn [sidep]; auto).
  assert (Hc : sidep
    (if comm then
       match x with
       | AOp op2 ia ib =>
           if str_eqb op2 op then
             match is_const ia with
             | Some iac => match calc op iac bc with
                           | Ok co => if strict_ok fl co then AOp op (AConst co) ib else AOp op x y
                           | _ => AOp op x y end
             | None =>
                 match is_const ib with
                 | Some ibc => match calc op ibc bc with
                               | Ok co => if strict_ok fl co then AOp op ia (AConst co) else AOp op x y
                               | _ => AOp op x y end
                 | None => AOp op x y
                 end
             end
           else AOp op x y
       | _ => AOp op x y
       end
     else AOp op x y)).
  { destruct comm; auto. destruct x; auto. destruct (str_eqb op0 op); auto.
    cbn [sidep] in Sx. destruct Sx as [S1 S2].
    destruct (is_const x1) eqn:E1.
    - destruct (calc op v bc) eqn:C; auto. destruct (strict_ok fl a); auto.
      cbn [sidep]. split; auto. exact (calc_cwf op v bc a (is_const_cwf _ _ S1 E1) Cb C).
    - destruct (is_const x2) eqn:E2; auto. destruct (calc op v bc) eqn:C; auto. destruct (strict_ok fl a); auto.
      cbn [sidep]. split; auto. exact (calc_cwf op v bc a (is_const_cwf _ _ S2 E2) Cb C). }
  destruct pure; auto. destruct (is_const x) eqn:Ex; auto. destruct (calc op v bc) eqn:C; auto.
  apply konst_side; auto. exact (calc_cwf op v bc a (is_const_cwf _ _ Sx Ex) Cb C).
Qed.

Lemma rule_list_side l : wf_list sidep l -> sidep (rule_list fl l).
Proof.
  intros S. unfold rule_list. destruct (f_list fl); cbn [sidep]; auto.
  destruct (all_const l) eqn:E; cbn [sidep]; auto. apply konst_side; auto.
  apply cwf_VList. eapply all_const_cwf; eauto.
Qed.

Lemma rule_index_side l i : sidep l -> sidep i -> sidep (rule_index fl l i).
Proof.
  intros Sl Si. unfold rule_index. destruct (f_list fl); cbn [sidep]; auto.
  destruct (is_const l) eqn:El; cbn [sidep]; auto. destruct (is_const i) eqn:Ei; cbn [sidep]; auto.
  destruct (access_list v v0) eqn:A; cbn [sidep]; auto. apply konst_side; cbn [sidep]; auto.
  exact (access_list_cwf v v0 a (is_const_cwf _ _ Sl El) (is_const_cwf _ _ Si Ei) A).
Qed.

Lemma rule_map_side m : wf_entries sidep m -> sidep (rule_map fl m).
Proof.
  intros S. unfold rule_map. destruct (f_map fl); cbn [sidep]; auto.
  destruct (all_const_map m) eqn:E; cbn [sidep]; auto. apply konst_side; auto.
  apply cwf_VMap. eapply all_const_map_cwf; eauto.
Qed.

Lemma rule_member_side m k : sidep m -> sidep (rule_member fl m k).
Proof.
  intros S. unfold rule_member. destruct (f_map fl); cbn [sidep]; auto.
  destruct (is_const m) eqn:E; cbn [sidep]; auto. destruct (access_map v k) eqn:A; cbn [sidep]; auto.
  apply konst_side; auto. exact (access_map_cwf v k a (is_const_cwf _ _ S E) A).
Qed.

Lemma rule_static_side f args : wf_list sidep args -> sidep (rule_static fl f args).
Proof.
  intros S. unfold rule_static. destruct (static_pure fl f); cbn [sidep]; auto.
  destruct (static_arity f); cbn [sidep]; auto. destruct (arity_matches a (length args)); cbn [sidep]; auto.
  destruct (all_const args) eqn:E; cbn [sidep]; auto. destruct (run_static f l) eqn:Rs; cbn [sidep]; auto.
  apply konst_side; auto. exact (run_static_cwf f l a0 (all_const_cwf _ _ S E) Rs).
Qed.

Lemma rule_call_side fn args : sidep fn -> wf_list sidep args -> sidep (rule_call fl known fuel fn args).
Proof.
  intros Sf Sa. assert (So : sidep (ACall fn args)) by (cbn [sidep]; auto).
  unfold rule_call. destruct (is_const fn) eqn:Ef; auto. destruct (f_closure fl); auto.
  pose proof (is_const_cwf _ _ Sf Ef) as Cf.
  destruct v; auto. destruct (clo_value_pure fl _); auto.
  destruct (Nat.eqb (length ps) (length args)) eqn:L; auto. destruct (all_const args) eqn:E; auto.
  destruct (gapp known fuel _ l) eqn:G; auto. apply konst_side; auto.
  pose proof (all_const_spec _ _ E) as Ea. subst args.
  exact (proj2 (gsem_call _ _ _ Cf (all_const_cwf _ _ Sa E) L G)).
Qed.

Lemma rule_method_side recv m args :
  sidep recv -> wf_list sidep args -> sidep (rule_method fl known fuel recv m args).
Proof.
  intros Sr Sa. assert (So : sidep (AMethod recv m args)) by (cbn [sidep]; auto).
  unfold rule_method. destruct (is_const recv) eqn:Er; auto.
  pose proof (is_const_cwf _ _ Sr Er) as Cr.
  rewrite Hfc, Hmap. cbn [andb].
  destruct (closure_field v m) eqn:Cf; auto.
  destruct (all_const args) eqn:E; auto. destruct (f_method fl); auto.
  destruct (method_arity v m) eqn:Ar; auto. destruct (method_pure fl v m); auto.
  destruct (arity_matches a (length l)) eqn:Am; auto. destruct (run_method _ v m l) eqn:Rm; auto.
  apply konst_side; auto.
  exact (proj2 (gsem_method _ _ _ _ _ Cr (all_const_cwf _ _ Sa E) Cf Ar Am Rm)).
Qed.

Lemma rule_closure_side ps b outer r this :
  match this with [] => True | _ => mem_name this outer = false end -> sidep b ->
  sidep (rule_closure fl ps b outer r this).
Proof.
  intros St Sb. assert (So : sidep (AClosure ps b outer r this)) by (cbn [sidep]; auto).
  unfold rule_closure. destruct (f_closure fl); auto. destruct outer; auto. destruct r; auto.
  destruct (clo_const_ok fl ps b) eqn:C; auto.
  unfold clo_const_ok in C. apply andb_true_iff in C. destruct C as [G _].
  destruct (gen_check_closed _ _ _ G Sb) as [W _].
  cbn [sidep cwf cap_ok]. repeat split; auto.
Qed.

(* ---------- the traversal ---------- *)

Definition opt_cases (deep : bool) (s : list (name * value)) (cases : list (ast * ast)) : list (ast * ast) :=
  map (fun c => (opt false s (fst c), opt deep s (snd c))) cases.
Definition opt_entries (deep : bool) (s : list (name * value)) (m : list (name * ast)) : list (name * ast) :=
  map (fun e => (fst e, opt deep s (snd e))) m.

Lemma opt_eq_let deep s x v b :
  opt deep s (ALet x v b) =
  match opt true s v with
  | AConst c => opt deep ((x, c) :: s) b
  | v' => ALet x v' (opt deep (sdrop [x] s) b)
  end.
Proof. reflexivity. Qed.

Lemma opt_eq_switch deep s v cases d :
  opt deep s (ASwitch v cases d) = ASwitch (opt deep s v) (opt_cases deep s cases) (opt deep s d).
Proof.
  cbn [Opt.opt]. f_equal. unfold opt_cases.
  induction cases as [|[cc cr] cases IH]; [reflexivity|]. cbn [map fst snd]. rewrite <- IH. reflexivity.
Qed.

Lemma opt_eq_list deep s l :
  opt deep s (AList l) = if deep then rule_list fl (map (opt deep s) l) else AList (map (opt deep s) l).
Proof. reflexivity. Qed.

Lemma opt_eq_map deep s m :
  opt deep s (AMap m) = if deep then rule_map fl (opt_entries deep s m) else AMap (opt_entries deep s m).
Proof.
  cbn [Opt.opt].
  assert (E : (fix go (m0 : list (name * ast)) : list (name * ast) :=
                 match m0 with [] => [] | (k, x) :: rest => (k, opt deep s x) :: go rest end) m
              = opt_entries deep s m).
  { unfold opt_entries. induction m as [|[k x] m IH]; [reflexivity|]. cbn [map fst snd]. rewrite <- IH. reflexivity. }
  rewrite E. reflexivity.
Qed.

Lemma opt_eq_call deep s fn args :
  opt deep s (ACall fn args) =
  if deep then rule_call fl known fuel (opt deep s fn) (map (opt deep s) args)
  else ACall (opt deep s fn) (map (opt deep s) args).
Proof. reflexivity. Qed.

Lemma opt_eq_static deep s f args :
  opt deep s (AStatic f args) =
  if deep then rule_static fl f (map (opt deep s) args) else AStatic f (map (opt deep s) args).
Proof. reflexivity. Qed.

Lemma opt_eq_method deep s recv m args :
  opt deep s (AMethod recv m args) =
  if deep then rule_method fl known fuel (opt deep s recv) m (map (opt deep s) args)
  else AMethod (opt deep s recv) m (map (opt deep s) args).
Proof. reflexivity. Qed.

Definition scwf (s : list (name * value)) : Prop := forall x c, lookup x s = Some c -> cwf c.

Lemma scwf_sdrop D s : scwf s -> scwf (sdrop D s).
Proof.
  intros H x c. rewrite lookup_sdrop. destruct (mem_name x D); [discriminate|]. apply H.
Qed.

Lemma scwf_cons x c s : cwf c -> scwf s -> scwf ((x, c) :: s).
Proof.
  intros Hc H y k. simpl. destruct (str_eqb y x); [intros E; inv E; auto|apply H].
Qed.

(* the source program: first-order constants, and the own name of a closure literal is not among its
   OuterIdents (Sim.side_ok: what the parser produces without an optimizer) *)
Definition Popt (a : ast) : Prop :=
  forall deep s, side_ok a = true -> scwf s -> arel s a (opt deep s a) /\ sidep (opt deep s a).

Lemma Popt_list deep s l :
  Forall Popt l -> forallb side_ok l = true -> scwf s ->
  Forall2 (arel s) l (map (opt deep s) l) /\ wf_list sidep (map (opt deep s) l).
Proof.
  induction 1 as [|x l Hx Hl IH]; cbn [forallb map wf_list]; intros H Ss; [split; [constructor|exact I]|].
  apply andb_true_iff in H. destruct H as [H1 H2].
  destruct (Hx deep s H1 Ss). destruct (IH H2 Ss). split; [constructor|]; auto.
Qed.

Lemma mem_name_filter x (f : name -> bool) l : mem_name x l = false -> mem_name x (filter f l) = false.
Proof.
  induction l as [|y l IH]; simpl; auto. intros H. apply orb_false_iff in H. destruct H as [H1 H2].
  destruct (f y); simpl; [rewrite H1|]; auto.
Qed.

Theorem opt_arel : forall a, Popt a.
Proof.
  induction a using ast_ind2; unfold Popt in *; intros deep s C Ss.
  - (* const *) cbn [Opt.opt side_ok] in *. split; [constructor; apply fo_ovrel; exact C|apply fo_cwf; exact C].
  - (* ident *) cbn [Opt.opt]. destruct (lookup x s) eqn:L.
    + split; [constructor; auto|cbn [sidep]; eapply Ss; eauto].
    + split; [constructor; auto|exact I].
  - (* let *) rewrite opt_eq_let. cbn [side_ok] in C. apply andb_true_iff in C. destruct C as [C1 C2].
    destruct (IHa1 true s C1 Ss) as [Hv Sv].
    destruct (opt true s a1) eqn:E;
      try (destruct (IHa2 deep (sdrop [x] s) C2 (scwf_sdrop _ _ Ss)) as [Hb Sb];
           split; [apply ar_let; assumption|cbn [sidep] in *; auto]).
    destruct (IHa2 deep ((x, v) :: s) C2 (scwf_cons _ _ _ Sv Ss)) as [Hb Sb].
    split; [eapply ar_let_const; eauto|exact Sb].
  - (* if *) cbn [Opt.opt]. cbn [side_ok] in C.
    apply andb_true_iff in C. destruct C as [C C3]. apply andb_true_iff in C. destruct C as [C1 C2].
    destruct (IHa1 deep s C1 Ss), (IHa2 deep s C2 Ss), (IHa3 deep s C3 Ss).
    destruct deep; split; try (apply rule_if_arel; auto); try (apply rule_if_side; auto);
      try (constructor; auto); cbn [sidep]; auto.
  - (* switch *) rewrite opt_eq_switch. cbn [side_ok] in C.
    apply andb_true_iff in C. destruct C as [C C3]. apply andb_true_iff in C. destruct C as [C1 C2].
    destruct (IHa1 deep s C1 Ss), (IHa2 deep s C2 Ss).
    assert (HH : Forall2 (fun c c' => arel s (fst c) (fst c') /\ arel s (snd c) (snd c')) cases (opt_cases deep s cases)
                 /\ wf_cases sidep (opt_cases deep s cases)).
    { unfold opt_cases. clear H0 H1 H2 H3.
      induction H as [|[cc cr] cases [Hc1 Hc2] Hcs IH]; cbn [forallb map fst snd wf_cases] in *; [split; [constructor|exact I]|].
      apply andb_true_iff in C3. destruct C3 as [C3 C4]. apply andb_true_iff in C3. destruct C3 as [C5 C6].
      destruct (Hc1 false s C5 Ss), (Hc2 deep s C6 Ss), (IH C4).
      split; [constructor; [cbn [fst snd]; split; auto|auto]|cbn [fst snd]; auto]. }
    destruct HH. split; [constructor; auto|cbn [sidep]; auto].
  - (* try *) cbn [Opt.opt]. cbn [side_ok] in C. apply andb_true_iff in C. destruct C as [C1 C2].
    destruct (IHa1 deep s C1 Ss), (IHa2 deep s C2 Ss). split; [constructor; auto|cbn [sidep]; auto].
  - (* unary *) cbn [Opt.opt]. cbn [side_ok] in C. destruct (IHa deep s C Ss).
    destruct deep; split; try (apply rule_unary_arel; auto); try (apply rule_unary_side; auto);
      try (constructor; auto); cbn [sidep]; auto.
  - (* op *) cbn [Opt.opt]. cbn [side_ok] in C. apply andb_true_iff in C. destruct C as [C1 C2].
    destruct (IHa1 deep s C1 Ss), (IHa2 deep s C2 Ss).
    destruct deep; split; try (apply rule_op_arel; auto); try (apply rule_op_side; auto);
      try (constructor; auto); cbn [sidep]; auto.
  - (* closure *) cbn [Opt.opt]. cbn [side_ok] in C. apply andb_true_iff in C. destruct C as [C1 C2].
    destruct (IHa deep (sdrop (ps ++ this_names this) s) C2 (scwf_sdrop _ _ Ss)) as [Hb Sb].
    assert (St : match this with [] => True | _ => mem_name this (outer_minus s outer) = false end).
    { destruct this; [exact I|]. apply mem_name_filter. apply negb_true_iff. exact C1. }
    destruct deep; split; try (apply rule_closure_arel; auto); try (apply rule_closure_side; auto);
      try (constructor; auto); cbn [sidep]; auto.
  - (* list *) rewrite opt_eq_list. cbn [side_ok] in C. destruct (Popt_list deep s _ H C Ss).
    destruct deep; split; try (apply rule_list_arel; auto); try (apply rule_list_side; auto);
      try (constructor; auto); cbn [sidep]; auto.
  - (* index *) cbn [Opt.opt]. cbn [side_ok] in C. apply andb_true_iff in C. destruct C as [C1 C2].
    destruct (IHa1 deep s C1 Ss), (IHa2 deep s C2 Ss).
    destruct deep; split; try (apply rule_index_arel; auto); try (apply rule_index_side; auto);
      try (constructor; auto); cbn [sidep]; auto.
  - (* map *) rewrite opt_eq_map. cbn [side_ok] in C.
    assert (HH : Forall2 (fun e e' => fst e = fst e' /\ arel s (snd e) (snd e')) m (opt_entries deep s m)
                 /\ wf_entries sidep (opt_entries deep s m)).
    { unfold opt_entries. induction H as [|[k x] m Hx Hm IH]; cbn [forallb map fst snd wf_entries] in *; [split; [constructor|exact I]|].
      apply andb_true_iff in C. destruct C as [C1 C2]. destruct (Hx deep s C1 Ss), (IH C2).
      split; [constructor; [cbn [fst snd]; split; auto|auto]|cbn [fst snd]; auto]. }
    destruct HH.
    destruct deep; split; try (apply rule_map_arel; auto); try (apply rule_map_side; auto);
      try (constructor; auto); cbn [sidep]; auto.
  - (* member *) cbn [Opt.opt]. cbn [side_ok] in C. destruct (IHa deep s C Ss).
    destruct deep; split; try (apply rule_member_arel; auto); try (apply rule_member_side; auto);
      try (constructor; auto); cbn [sidep]; auto.
  - (* call *) rewrite opt_eq_call. cbn [side_ok] in C. apply andb_true_iff in C. destruct C as [C1 C2].
    destruct (IHa deep s C1 Ss). destruct (Popt_list deep s _ H C2 Ss).
    destruct deep; split; try (apply rule_call_arel; auto); try (apply rule_call_side; auto);
      try (constructor; auto); cbn [sidep]; auto.
  - (* static *) rewrite opt_eq_static. cbn [side_ok] in C. destruct (Popt_list deep s _ H C Ss).
    destruct deep; split; try (apply rule_static_arel; auto); try (apply rule_static_side; auto);
      try (constructor; auto); cbn [sidep]; auto.
  - (* method *) rewrite opt_eq_method. cbn [side_ok] in C. apply andb_true_iff in C. destruct C as [C1 C2].
    destruct (IHa deep s C1 Ss). destruct (Popt_list deep s _ H C2 Ss).
    destruct deep; split; try (apply rule_method_arel; auto); try (apply rule_method_side; auto);
      try (constructor; auto); cbn [sidep]; auto.
Qed.

(* ---------- soundness of the optimizer model (strict or not) ---------- *)

Theorem optimize_sound_all : forall n m env a,
  side_ok a = true ->
  (forall x v, lookup x env = Some v -> vrel v v) ->
  n <= m ->
  decided (eval n env a) ->
  wrel vrel (eval n env a) (eval m env (optimize fl known fuel a)).
Proof.
  intros n m env a C He L D.
  eapply (sim known n); eauto.
  - apply opt_arel; [exact C|]. intros x c E. discriminate.
  - split; [intros x c E; discriminate|]. intros x _ _.
    destruct (lookup x env) eqn:E; constructor. eauto.
Qed.

End OptArel.
