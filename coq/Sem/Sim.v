(* Definitions for the simulation proof of C01 (Sem/GenProofs.v): well-formedness of annotated
   programs, the relation between reference values and generator values, the frame invariant, and
   one-step unfoldings of Ref.eval / Gen.exec in which the local recursive helpers are named.
   Definitions only; the proofs are in Sem/RelProofs.v, Sem/OpsProofs.v, Sem/LibProofs.v and
   Sem/GenProofs.v. *)
From P2 Require Import Base.Prelude Sem.Num Sem.Syntax Sem.Ops Sem.Lib Sem.Ref Sem.Gen.

(* ---------- first-order values: no closure anywhere inside ---------- *)

Fixpoint fo (v : value) : bool :=
  match v with
  | VList l => forallb fo l
  | VMap m => forallb (fun e => fo (snd e)) m
  | VClo _ _ _ _ => false
  | _ => true
  end.

(* ---------- well-formedness of an annotated program under compile-time names ---------- *)

Definition names_self (s : name) : list name := match s with [] => [] | _ => [s] end.
Definition self_of (recursive : bool) (this : name) : name := if recursive then this else [].

Definition wf_list (W : ast -> Prop) : list ast -> Prop :=
  fix go (l : list ast) : Prop := match l with [] => True | a :: r => W a /\ go r end.
Definition wf_cases (W : ast -> Prop) : list (ast * ast) -> Prop :=
  fix go (l : list (ast * ast)) : Prop :=
    match l with [] => True | (cc, cr) :: r => W cc /\ W cr /\ go r end.
Definition wf_entries (W : ast -> Prop) : list (name * ast) -> Prop :=
  fix go (l : list (name * ast)) : Prop := match l with [] => True | (_, x) :: r => W x /\ go r end.

(* the first binding of every name in a captured context satisfies W *)
Definition cap_ok (W : value -> Prop) : list (name * value) -> list name -> Prop :=
  fix go (c : list (name * value)) (seen : list name) : Prop :=
    match c with
    | [] => True
    | e :: r => (mem_name (fst e) seen = true \/ W (snd e)) /\ go r (fst e :: seen)
    end.

(* every name that is used resolves (slot or captured value); a let does not redeclare a name of
   the current frame (Generate-time error, excluded by the property); the OuterIdents of a closure
   literal resolve where the literal stands, do not contain the closure's own name, and together
   with the parameters (and the own name when Recursive is set) cover what the body uses;
   constants are first-order values or closures (folded by the optimizer from a literal, or computed
   at Generate time) whose body is well-formed under the parameters and the captured names *)
Fixpoint wf (am : list (option name)) (cm : list name) (a : ast) {struct a} : Prop :=
  match a with
  | AConst v => cwf v
  | AIdent x => In (Some x) am \/ In x cm
  | ALet x v b => wf am cm v /\ ~ In (Some x) am /\ wf (am ++ [Some x]) cm b
  | AIf c t e => wf am cm c /\ wf am cm t /\ wf am cm e
  | ASwitch v cases d => wf am cm v /\ wf am cm d /\ wf_cases (wf am cm) cases
  | ATry t c => wf am cm t /\ wf am cm c
  | AUnary _ x => wf am cm x
  | AOp _ x y => wf am cm x /\ wf am cm y
  | AClosure ps body outer recursive this =>
      (forall n, In n outer -> In (Some n) am \/ In n cm) /\
      (this <> [] -> ~ In this outer) /\
      wf (map Some ps) (outer ++ names_self (self_of recursive this)) body
  | AList l => wf_list (wf am cm) l
  | AIndex l i => wf am cm i /\ wf am cm l
  | AMap m => wf_entries (wf am cm) m
  | AMember m _ => wf am cm m
  | ACall fn args => wf am cm fn /\ wf_list (wf am cm) args
  | AStatic _ args => wf_list (wf am cm) args
  | AMethod recv _ args => wf am cm recv /\ wf_list (wf am cm) args
  end
with cwf (v : value) {struct v} : Prop :=
  match v with
  | VList l => (fix go (l : list value) : Prop := match l with [] => True | x :: r => cwf x /\ go r end) l
  | VMap m => (fix go (m : list (str * value)) : Prop :=
                 match m with [] => True | e :: r => cwf (snd e) /\ go r end) m
  | VClo ps b cap self =>
      (* a closure constant: folded from a literal (nothing captured) or computed at Generate time
         (values captured by name, possibly its own name): the first binding of every captured name
         is a well-formed constant, the own name is not among the captured names, and the body is
         well-formed under the parameters and the captured names *)
      cap_ok cwf cap [] /\
      (self = [] \/ mem_name self (map fst cap) = false) /\
      wf (map Some ps) (clo_cm cap self) b
  | _ => True
  end.

(* a decidable, sound (Sem/RelProofs.v: wfb_sound) check of wf; constants must be first-order here *)
Definition in_am (am : list (option name)) (x : name) : bool :=
  match index_of oname_eqb (Some x) am with Some _ => true | None => false end.

Fixpoint wfb (am : list (option name)) (cm : list name) (a : ast) {struct a} : bool :=
  match a with
  | AConst v => fo v
  | AIdent x => in_am am x || mem_name x cm
  | ALet x v b => wfb am cm v && negb (in_am am x) && wfb (am ++ [Some x]) cm b
  | AIf c t e => wfb am cm c && wfb am cm t && wfb am cm e
  | ASwitch v cases d =>
      wfb am cm v && wfb am cm d && forallb (fun c => wfb am cm (fst c) && wfb am cm (snd c)) cases
  | ATry t c => wfb am cm t && wfb am cm c
  | AUnary _ x => wfb am cm x
  | AOp _ x y => wfb am cm x && wfb am cm y
  | AClosure ps body outer recursive this =>
      forallb (fun n => in_am am n || mem_name n cm) outer &&
      match this with [] => true | _ => negb (mem_name this outer) end &&
      wfb (map Some ps) (outer ++ names_self (self_of recursive this)) body
  | AList l => forallb (wfb am cm) l
  | AIndex l i => wfb am cm i && wfb am cm l
  | AMap m => forallb (fun e => wfb am cm (snd e)) m
  | AMember m _ => wfb am cm m
  | ACall fn args => wfb am cm fn && forallb (wfb am cm) args
  | AStatic _ args => forallb (wfb am cm) args
  | AMethod recv _ args => wfb am cm recv && forallb (wfb am cm) args
  end.

(* the two requirements of wf that Generate does not check (Gen.gen_check): constants are
   first-order, and a closure literal's own name is not among its OuterIdents (the parser never
   produces that: AddThis intercepts the name before AddArgs can record it) *)
Fixpoint side_ok (a : ast) : bool :=
  match a with
  | AConst v => fo v
  | AIdent _ => true
  | ALet _ v b => side_ok v && side_ok b
  | AIf c t e => side_ok c && side_ok t && side_ok e
  | ASwitch v cases d =>
      side_ok v && side_ok d && forallb (fun c => side_ok (fst c) && side_ok (snd c)) cases
  | ATry t c => side_ok t && side_ok c
  | AUnary _ x => side_ok x
  | AOp _ x y => side_ok x && side_ok y
  | AClosure _ body outer _ this =>
      match this with [] => true | _ => negb (mem_name this outer) end && side_ok body
  | AList l => forallb side_ok l
  | AIndex l i => side_ok l && side_ok i
  | AMap m => forallb (fun e => side_ok (snd e)) m
  | AMember m _ => side_ok m
  | ACall fn args => side_ok fn && forallb side_ok args
  | AStatic _ args => forallb side_ok args
  | AMethod recv _ args => side_ok recv && forallb side_ok args
  end.

(* ---------- related values and outcomes ---------- *)

(* reference value / generator value.  Closures: same parameters and body; every captured name of
   the generator's closure is bound to a related value in the reference closure's environment and
   is not hidden there by the reference closure's own name; the generator's closure knows its own
   name only if the reference closure has the same one; the body is well-formed under the
   generator's names. *)
Inductive vrel : value -> value -> Prop :=
| vr_int z : vrel (VInt z) (VInt z)
| vr_float f : vrel (VFloat f) (VFloat f)
| vr_str s : vrel (VStr s) (VStr s)
| vr_bool b : vrel (VBool b) (VBool b)
| vr_err t : vrel (VErrText t) (VErrText t)
| vr_list l1 l2 : Forall2 vrel l1 l2 -> vrel (VList l1) (VList l2)
| vr_map m1 m2 :
    Forall2 (fun e1 e2 => fst e1 = fst e2 /\ vrel (snd e1) (snd e2)) m1 m2 ->
    vrel (VMap m1) (VMap m2)
| vr_clo ps b c1 c2 s1 s2 :
    (forall x v2, lookup x c2 = Some v2 ->
       (s1 = [] \/ x <> s1) /\ exists v1, lookup x c1 = Some v1 /\ vrel v1 v2) ->
    (s2 = [] \/ s2 = s1) ->
    wf (map Some ps) (clo_cm c2 s2) b ->
    vrel (VClo ps b c1 s1) (VClo ps b c2 s2).

Definition erel (e1 e2 : str * value) : Prop := fst e1 = fst e2 /\ vrel (snd e1) (snd e2).

Inductive rrel {A B} (R : A -> B -> Prop) : res A -> res B -> Prop :=
| rr_ok a b : R a b -> rrel R (Ok a) (Ok b)
| rr_err t : rrel R (Err t) (Err t)
| rr_panic : rrel R Panic Panic
| rr_oof : rrel R OOF OOF
| rr_unsup : rrel R Unsup Unsup.

Definition orel : res value -> res value -> Prop := rrel vrel.

(* ---------- the frame invariant ---------- *)

(* nothing below position n changes, and the storage never shrinks *)
Definition same_below (n : nat) (st st' : list value) : Prop :=
  length st <= length st' /\ forall i, i < n -> nth_error st' i = nth_error st i.

(* size = |am|, the frame lies inside the storage, and every compile-time name resolves (by slot
   index or by context index) to a value related to the one the environment binds to that name *)
Definition frame_ok (am : list (option name)) (cm : list name) (st : list value) (offs size : nat)
           (cs : list value) (env : list (name * value)) : Prop :=
  length am = size /\ offs + size <= length st /\
  forall x, In (Some x) am \/ In x cm ->
    exists v1 v2, lookup x env = Some v1 /\ resolve am cm st offs cs x = Some v2 /\ vrel v1 v2.

(* the values vs lie on the storage from position base on *)
Definition pushedv (st : list value) (base : nat) (vs : list value) : Prop :=
  forall j v, nth_error vs j = Some v -> nth_error st (base + j) = Some v.

(* ---------- one step of Ref.eval with the recursive calls abstracted ---------- *)

Section RefStep.
Variable known : list (N * list name).
Variable ev : list (name * value) -> ast -> res value.

Definition r_app (c : value) (args : list value) : res value :=
  match c with
  | VClo ps body cap self =>
      if Nat.eqb (length args) (length ps)
      then ev (combine ps args ++ self_binding self c ++ cap) body
      else Err None
  | VErrText _ => Unsup
  | _ => Err None
  end.

Section Env.
Variable env : list (name * value).

Fixpoint r_list (l : list ast) : res (list value) :=
  match l with
  | [] => Ok []
  | x :: r => bind (ev env x) (fun v => bind (r_list r) (fun vs => Ok (v :: vs)))
  end.

Section Switch.
Variable sv : value.
Variable d : ast.
Fixpoint r_switch (cs : list (ast * ast)) : res value :=
  match cs with
  | [] => ev env d
  | (cc, cr) :: rest =>
      bind (ev env cc) (fun cv =>
        match equal_fg sv cv with
        | Ok true => ev env cr
        | Ok false => r_switch rest
        | Err t => Err t | Panic => Panic | OOF => OOF | Unsup => Unsup
        end)
  end.
End Switch.

Fixpoint r_map (m : list (name * ast)) (acc : list (str * value)) : res value :=
  match m with
  | [] => Ok (VMap acc)
  | (k, x) :: r => bind (ev env x) (fun v => r_map r (acc ++ [(k, v)]))
  end.

Definition field_of (rv : value) (mname : name) : option (value * nat) :=
  match rv with
  | VMap entries => match assoc_v mname entries with
                    | Some (VClo ps b c s) => Some (VClo ps b c s, length ps)
                    | _ => None
                    end
  | _ => None
  end.

Definition arity_ok (ar : arity) (n : nat) : bool :=
  match ar with Fixed k => Nat.eqb k n | VarArgs => true end.

Definition ref_step (a : ast) : res value :=
  match a with
  | AConst v => Ok v
  | AIdent x => match lookup x env with Some v => Ok v | None => Err None end
  | ALet x v b => bind (ev env v) (fun vv => ev ((x, vv) :: env) b)
  | AIf c t e =>
      bind (ev env c) (fun cv =>
        match cv with
        | VBool true => ev env t
        | VBool false => ev env e
        | VErrText _ => Unsup
        | _ => Err None
        end)
  | ASwitch v cases d => bind (ev env v) (fun sv => r_switch sv d cases)
  | ATry t c =>
      match ev env t with
      | Err thrown =>
          bind (ev env c) (fun cv =>
            match cv with
            | VClo [_] _ _ _ => r_app cv [VErrText thrown]
            | _ => Ok cv
            end)
      | r => r
      end
  | AUnary op x => bind (ev env x) (fun v => ucalc op v)
  | AOp op x y =>
      if str_eqb op op_and then
        bind (ev env x) (fun av =>
          match av with
          | VBool false => Ok (VBool false)
          | VBool true =>
              bind (ev env y) (fun bv =>
                match bv with VBool b => Ok (VBool b) | VErrText _ => Unsup | _ => Err None end)
          | _ => bind (ev env y) (fun bv => calc op av bv)
          end)
      else if str_eqb op op_or then
        bind (ev env x) (fun av =>
          match av with
          | VBool true => Ok (VBool true)
          | VBool false =>
              bind (ev env y) (fun bv =>
                match bv with VBool b => Ok (VBool b) | VErrText _ => Unsup | _ => Err None end)
          | _ => bind (ev env y) (fun bv => calc op av bv)
          end)
      else bind (ev env x) (fun av => bind (ev env y) (fun bv => calc op av bv))
  | AClosure ps body _ _ this => Ok (VClo ps body env this)
  | AList l => bind (r_list l) (fun vs => Ok (VList vs))
  | AIndex l i => bind (ev env i) (fun iv => bind (ev env l) (fun lv => access_list lv iv))
  | AMap m => r_map m []
  | AMember m key => bind (ev env m) (fun mv => access_map mv key)
  | ACall fn args =>
      bind (ev env fn) (fun fv =>
        match fv with
        | VClo ps _ _ _ =>
            if Nat.eqb (length args) (length ps)
            then bind (r_list args) (fun vs => r_app fv vs)
            else Err None
        | VErrText _ => Unsup
        | _ => Err None
        end)
  | AStatic fname args =>
      match static_arity fname with
      | Some ar =>
          if arity_ok ar (length args)
          then bind (r_list args) (fun vs => run_static fname vs)
          else Err None
      | None => Unsup
      end
  | AMethod recv mname args =>
      bind (ev env recv) (fun rv =>
        match field_of rv mname with
        | Some (cv, n) =>
            if Nat.eqb (length args) n then bind (r_list args) (fun vs => r_app cv vs) else Err None
        | None =>
            match method_arity rv mname with
            | Some ar =>
                if arity_ok ar (length args)
                then bind (r_list args) (fun vs => run_method r_app rv mname vs)
                else Err None
            | None => match rv with
                      | VErrText _ => Unsup
                      | _ => if method_exists rv mname known then Unsup else Err None
                      end
            end
        end)
  end.
End Env.
End RefStep.

(* ---------- one step of Gen.exec with the recursive calls abstracted ---------- *)

Definition exec_t : Type :=
  list (option name) -> list name -> list value -> nat -> nat -> list value -> ast -> res value * list value.

Section GenStep.
Variable known : list (N * list name).
Variable E : exec_t.

Definition g_app (c : value) (args : list value) : res value :=
  match c with
  | VClo ps body cap self =>
      if Nat.eqb (length args) (length ps)
      then fst (E (map Some ps) (clo_cm cap self) args 0 (length args) (clo_cs cap self c) body)
      else Err None
  | VErrText _ => Unsup
  | _ => Err None
  end.

Definition g_call (c : value) (n : nat) (st' : list value) (base : nat) : res value * list value :=
  match c with
  | VClo ps body cap self =>
      E (map Some ps) (clo_cm cap self) st' base n (clo_cs cap self c) body
  | _ => (Err None, st')
  end.

Section Frame.
Variable am : list (option name).
Variable cm : list name.
Variables offs size : nat.
Variable cs : list value.

Fixpoint g_args (l : list ast) (pushed : nat) (st0 : list value) (acc : list value)
  : res (list value) * list value :=
  match l with
  | [] => (Ok acc, st0)
  | x :: r =>
      match E (am ++ repeat None pushed) cm st0 offs (size + pushed) cs x with
      | (Ok v, st1) => g_args r (S pushed) (set_slot st1 (offs + size + pushed) v) (acc ++ [v])
      | (Err t, st1) => (Err t, st1)
      | (Panic, st1) => (Panic, st1)
      | (OOF, st1) => (OOF, st1)
      | (Unsup, st1) => (Unsup, st1)
      end
  end.

Fixpoint g_plain (l : list ast) (st0 : list value) : res (list value) * list value :=
  match l with
  | [] => (Ok [], st0)
  | x :: r =>
      match E am cm st0 offs size cs x with
      | (Ok v, st1) =>
          match g_plain r st1 with
          | (Ok vs, st2) => (Ok (v :: vs), st2)
          | (e, st2) => (e, st2)
          end
      | (Err t, st1) => (Err t, st1)
      | (Panic, st1) => (Panic, st1)
      | (OOF, st1) => (OOF, st1)
      | (Unsup, st1) => (Unsup, st1)
      end
  end.

Section Switch.
Variable sv : value.
Variable d : ast.
Fixpoint g_switch (l : list (ast * ast)) (st0 : list value)
  : res value * list value :=
  match l with
  | [] => E am cm st0 offs size cs d
  | (cc, cr) :: rest =>
      match E am cm st0 offs size cs cc with
      | (Ok cv, st2) =>
          match equal_fg sv cv with
          | Ok true => E am cm st2 offs size cs cr
          | Ok false => g_switch rest st2
          | Err t => (Err t, st2)
          | Panic => (Panic, st2)
          | OOF => (OOF, st2)
          | Unsup => (Unsup, st2)
          end
      | r => r
      end
  end.
End Switch.

Fixpoint g_map (m : list (name * ast)) (st0 : list value) (acc : list (str * value))
  : res value * list value :=
  match m with
  | [] => (Ok (VMap acc), st0)
  | (k, x) :: r =>
      match E am cm st0 offs size cs x with
      | (Ok v, st1) => g_map r st1 (acc ++ [(k, v)])
      | r' => r'
      end
  end.

Definition gen_step (st : list value) (a : ast) : res value * list value :=
  match a with
  | AConst v => (Ok v, st)
  | AIdent x => (match resolve am cm st offs cs x with Some v => Ok v | None => Err None end, st)
  | ALet x v b =>
      match E am cm st offs size cs v with
      | (Ok vv, st1) => E (am ++ [Some x]) cm (set_slot st1 (offs + size) vv) offs (S size) cs b
      | r => r
      end
  | AIf c t e =>
      match E am cm st offs size cs c with
      | (Ok (VBool true), st1) => E am cm st1 offs size cs t
      | (Ok (VBool false), st1) => E am cm st1 offs size cs e
      | (Ok (VErrText _), st1) => (Unsup, st1)
      | (Ok _, st1) => (Err None, st1)
      | r => r
      end
  | ASwitch v cases d =>
      match E am cm st offs size cs v with
      | (Ok sv, st1) => g_switch sv d cases st1
      | r => r
      end
  | ATry t c =>
      match E am cm st offs size cs t with
      | (Err thrown, st1) =>
          match E am cm st1 offs size cs c with
          | (Ok cv, st2) =>
              match cv with
              | VClo [_] _ _ _ =>
                  g_call cv 1%nat (set_slot st2 (offs + size) (VErrText thrown)) (offs + size)
              | _ => (Ok cv, st2)
              end
          | r => r
          end
      | r => r
      end
  | AUnary op x =>
      match E am cm st offs size cs x with
      | (Ok v, st1) => (ucalc op v, st1)
      | r => r
      end
  | AOp op x y =>
      if str_eqb op op_and then
        match E am cm st offs size cs x with
        | (Ok (VBool false), st1) => (Ok (VBool false), st1)
        | (Ok (VBool true), st1) =>
            match E am cm st1 offs size cs y with
            | (Ok (VBool b), st2) => (Ok (VBool b), st2)
            | (Ok (VErrText _), st2) => (Unsup, st2)
            | (Ok _, st2) => (Err None, st2)
            | r => r
            end
        | (Ok av, st1) =>
            match E am cm st1 offs size cs y with
            | (Ok bv, st2) => (calc op av bv, st2)
            | r => r
            end
        | r => r
        end
      else if str_eqb op op_or then
        match E am cm st offs size cs x with
        | (Ok (VBool true), st1) => (Ok (VBool true), st1)
        | (Ok (VBool false), st1) =>
            match E am cm st1 offs size cs y with
            | (Ok (VBool b), st2) => (Ok (VBool b), st2)
            | (Ok (VErrText _), st2) => (Unsup, st2)
            | (Ok _, st2) => (Err None, st2)
            | r => r
            end
        | (Ok av, st1) =>
            match E am cm st1 offs size cs y with
            | (Ok bv, st2) => (calc op av bv, st2)
            | r => r
            end
        | r => r
        end
      else
        match E am cm st offs size cs x with
        | (Ok av, st1) =>
            match E am cm st1 offs size cs y with
            | (Ok bv, st2) => (calc op av bv, st2)
            | r => r
            end
        | r => r
        end
  | AClosure ps body outer recursive this =>
      (match capture am cm st offs cs outer with
       | Some cap => Ok (VClo ps body cap (if recursive then this else []))
       | None => Err None
       end, st)
  | AList l =>
      match g_plain l st with
      | (Ok vs, st1) => (Ok (VList vs), st1)
      | (Err t, st1) => (Err t, st1)
      | (Panic, st1) => (Panic, st1)
      | (OOF, st1) => (OOF, st1)
      | (Unsup, st1) => (Unsup, st1)
      end
  | AIndex l i =>
      match E am cm st offs size cs i with
      | (Ok iv, st1) =>
          match E am cm st1 offs size cs l with
          | (Ok lv, st2) => (access_list lv iv, st2)
          | r => r
          end
      | r => r
      end
  | AMap m => g_map m st []
  | AMember m key =>
      match E am cm st offs size cs m with
      | (Ok mv, st1) => (access_map mv key, st1)
      | r => r
      end
  | ACall fn args =>
      match E am cm st offs size cs fn with
      | (Ok fv, st1) =>
          match fv with
          | VClo ps _ _ _ =>
              if Nat.eqb (length args) (length ps) then
                match g_args args 0%nat st1 [] with
                | (Ok _, st2) => g_call fv (length args) st2 (offs + size)
                | (Err t, st2) => (Err t, st2)
                | (Panic, st2) => (Panic, st2)
                | (OOF, st2) => (OOF, st2)
                | (Unsup, st2) => (Unsup, st2)
                end
              else (Err None, st1)
          | VErrText _ => (Unsup, st1)
          | _ => (Err None, st1)
          end
      | r => r
      end
  | AStatic fname args =>
      match static_arity fname with
      | Some ar =>
          if arity_ok ar (length args) then
            match g_args args 0%nat st [] with
            | (Ok vs, st1) => (run_static fname vs, st1)
            | (Err t, st1) => (Err t, st1)
            | (Panic, st1) => (Panic, st1)
            | (OOF, st1) => (OOF, st1)
            | (Unsup, st1) => (Unsup, st1)
            end
          else (Err None, st)
      | None => (Unsup, st)
      end
  | AMethod recv mname args =>
      match E am cm st offs size cs recv with
      | (Ok rv, st1) =>
          match field_of rv mname with
          | Some (cv, n) =>
              if Nat.eqb (length args) n then
                match g_args args 1%nat (set_slot st1 (offs + size) rv) [] with
                | (Ok _, st2) => g_call cv n st2 (offs + size + 1)
                | (Err t, st2) => (Err t, st2)
                | (Panic, st2) => (Panic, st2)
                | (OOF, st2) => (OOF, st2)
                | (Unsup, st2) => (Unsup, st2)
                end
              else (Err None, st1)
          | None =>
              match method_arity rv mname with
              | Some ar =>
                  if arity_ok ar (length args) then
                    match g_args args 1%nat (set_slot st1 (offs + size) rv) [] with
                    | (Ok vs, st2) => (run_method g_app rv mname vs, st2)
                    | (Err t, st2) => (Err t, st2)
                    | (Panic, st2) => (Panic, st2)
                    | (OOF, st2) => (OOF, st2)
                    | (Unsup, st2) => (Unsup, st2)
                    end
                  else (Err None, st1)
              | None =>
                  (match rv with
                   | VErrText _ => Unsup
                   | _ => if method_exists rv mname known then Unsup else Err None
                   end, st1)
              end
          end
      | r => r
      end
  end.
End Frame.
End GenStep.

(* the statement that is proved by induction on the fuel *)
Definition SimAt (ev : list (name * value) -> ast -> res value) (E : exec_t) : Prop :=
  forall a env am cm st offs size cs,
    frame_ok am cm st offs size cs env -> wf am cm a ->
    orel (ev env a) (fst (E am cm st offs size cs a)) /\
    same_below (offs + size) st (snd (E am cm st offs size cs a)).
