(* Soundness of the optimizer model (C02): if t is an optimized form of a (arel), the unoptimized
   evaluation of a is decided with fuel n, and the environments are related, then the optimized
   program evaluated with any fuel m >= n gives a related outcome (or is inexact: Unsup).
   Then: Opt.opt produces an optimized form in this sense. *)
From P2 Require Import Base.Prelude Base.PreludeProofs Sem.Num Sem.Syntax Sem.Ops Sem.Lib Sem.Ref Sem.Gen Sem.Sim Sem.RelProofs Sem.GenProofs Sem.Opt Sem.OptRel Sem.OptRelProofs Sem.OptOpsProofs Sem.OptLibProofs Sem.RefMono Sem.OptWf.
Require Import Lia.

(* ---------- names, lookups ---------- *)

Lemma lookup_app x (l1 l2 : list (name * value)) :
  lookup x (l1 ++ l2) = match lookup x l1 with Some v => Some v | None => lookup x l2 end.
Proof.
  induction l1 as [|[y v] l1 IH]; simpl; auto. destruct (str_eqb x y); auto.
Qed.

Lemma mem_name_app x l1 l2 : mem_name x (l1 ++ l2) = mem_name x l1 || mem_name x l2.
Proof. induction l1; simpl; auto. rewrite IHl1. apply orb_assoc. Qed.

Lemma mem_name_eq x y l : str_eqb x y = true -> mem_name x l = mem_name y l.
Proof. intros H. apply str_eqb_true in H. subst. reflexivity. Qed.

Lemma lookup_sdrop x D s : lookup x (sdrop D s) = if mem_name x D then None else lookup x s.
Proof.
  induction s as [|[y v] s IH]; simpl.
  - destruct (mem_name x D); reflexivity.
  - destruct (mem_name y D) eqn:My; simpl.
    + rewrite IH. destruct (str_eqb x y) eqn:E; auto.
      rewrite (mem_name_eq _ _ _ E), My. reflexivity.
    + rewrite IH. destruct (str_eqb x y) eqn:E; auto.
      rewrite (mem_name_eq _ _ _ E), My. reflexivity.
Qed.

Lemma lookup_combine_notin x ps (vs : list value) :
  mem_name x ps = false -> lookup x (combine ps vs) = None.
Proof.
  revert vs. induction ps as [|p ps IH]; intros [|v vs] H; simpl in *; auto.
  apply orb_false_iff in H. destruct H as [H1 H2]. rewrite H1. auto.
Qed.

Lemma this_names_mem x self : mem_name x (this_names self) = match self with [] => false | _ => str_eqb x self end.
Proof. destruct self; simpl; auto. apply orb_false_r. Qed.

Lemma lookup_self_binding x self c :
  lookup x (self_binding self c) = if mem_name x (this_names self) then Some c else None.
Proof.
  rewrite this_names_mem. destruct self; simpl; auto.
Qed.

Section Sim.
Variable known : list (N * list name).
Local Notation vrel := (OptRel.vrel known).
Local Notation arel := (OptRel.arel known).
Local Notation env_rel := (OptRel.env_rel known).
Local Notation R := (OptRel.R known).
Local Notation Rl := (OptRel.Rl known).
Local Notation orel := (OptRel.orel known).
Local Notation erel := (OptRel.erel known).
Local Notation eval := (Ref.eval known).

Lemma lookup_combine_rel x ps vs vs' :
  Forall2 vrel vs vs' -> length vs = length ps -> mem_name x ps = true ->
  exists v v', lookup x (combine ps vs) = Some v /\ lookup x (combine ps vs') = Some v' /\ vrel v v'.
Proof.
  intros H; revert ps. induction H as [|v v' vs vs' Hv H IH]; intros [|p ps] L M; simpl in *; try discriminate.
  destruct (str_eqb x p) eqn:E.
  - eauto.
  - simpl in M. apply IH; auto.
Qed.

Lemma env_rel_weaken s (P Q : name -> Prop) env env' :
  (forall x, Q x -> P x) -> env_rel s P env env' -> env_rel s Q env env'.
Proof. intros H [H1 H2]. split; auto. Qed.

Lemma env_rel_closed s (P : name -> Prop) t env env' :
  closed t -> env_rel s P env env' -> env_rel s (fvp t) env env'.
Proof. intros C [H1 _]. split; auto. intros x Hx. unfold fvp in Hx. rewrite C in Hx. discriminate. Qed.

Lemma env_rel_app s ps b' vs vs' self self' c c' env env' :
  Forall2 vrel vs vs' -> length vs = length ps -> vrel c c' ->
  (forall x k, lookup x s = Some k -> exists v, lookup x env = Some v /\ vrel v k) ->
  (self' = self \/ (self' = [] /\ (mem_name self ps = true \/ fv self b' = false))) ->
  (forall x, fv x b' = true -> mem_name x (ps ++ this_names self) = false -> lookup x s = None ->
             oprel vrel (lookup x env) (lookup x env')) ->
  env_rel (sdrop (ps ++ this_names self) s) (fvp b')
          (combine ps vs ++ self_binding self c ++ env)
          (combine ps vs' ++ self_binding self' c' ++ env').
Proof.
  intros Hvs L Hc H1 Hself H2. split.
  - intros x k. rewrite lookup_sdrop, mem_name_app.
    destruct (mem_name x ps) eqn:Mp; [discriminate|].
    destruct (mem_name x (this_names self)) eqn:Ms; [discriminate|]. simpl. intros Hk.
    rewrite !lookup_app, (lookup_combine_notin _ _ _ Mp), lookup_self_binding, Ms. auto.
  - intros x Hfv. unfold fvp in Hfv. rewrite lookup_sdrop. pose proof (mem_name_app x ps (this_names self)) as Mapp.
    destruct (mem_name x ps) eqn:Mp.
    + rewrite Mapp. intros _. destruct (lookup_combine_rel x ps vs vs' Hvs L Mp) as (v & v' & E1 & E2 & Hv).
      rewrite !lookup_app, E1, E2. constructor; auto.
    + rewrite !lookup_app, (lookup_combine_notin _ _ _ Mp), (lookup_combine_notin _ _ _ Mp), !lookup_self_binding.
      destruct (mem_name x (this_names self)) eqn:Ms.
      * rewrite Mapp. simpl. intros _.
        assert (Ex : x = self).
        { rewrite this_names_mem in Ms. destruct self; [discriminate|]. apply str_eqb_true. exact Ms. }
        subst x. destruct Hself as [->|[-> [Hm|Hf]]].
        -- rewrite Ms. constructor; auto.
        -- congruence.
        -- congruence.
      * rewrite Mapp. simpl. intros Ls.
        assert (Ms' : mem_name x (this_names self') = false).
        { destruct Hself as [->|[-> _]]; auto. }
        rewrite Ms'. apply H2; auto.
Qed.

Lemma env_rel_let s (P Q : name -> Prop) x v v' env env' :
  vrel v v' -> env_rel s P env env' -> (forall y, Q y -> str_eqb y x = false -> P y) ->
  env_rel (sdrop [x] s) Q ((x, v) :: env) ((x, v') :: env').
Proof.
  intros Hv [H1 H2] HQ. split.
  - intros y k. rewrite lookup_sdrop. simpl. rewrite orb_false_r.
    destruct (str_eqb y x) eqn:E; [discriminate|]. auto.
  - intros y Qy. rewrite lookup_sdrop. simpl. rewrite orb_false_r.
    destruct (str_eqb y x) eqn:E; [intros _; constructor; auto|]. auto.
Qed.

Lemma env_rel_let_const s (P : name -> Prop) x v c env env' :
  vrel v c -> env_rel s P env env' -> env_rel ((x, c) :: s) P ((x, v) :: env) env'.
Proof.
  intros Hv [H1 H2]. split.
  - intros y k. simpl. destruct (str_eqb y x) eqn:E; auto.
    intros K. inv K. eauto.
  - intros y Py. simpl. destruct (str_eqb y x) eqn:E; [discriminate|]. auto.
Qed.

Ltac fvt :=
  let y := fresh "y" in let Hy := fresh "Hy" in
  intros y Hy; unfold fvp in *; cbn [fv] in Hy |- *;
  first [ exact Hy | discriminate Hy
        | rewrite Hy; repeat match goal with |- context [fv ?a ?b] => destruct (fv a b) end; reflexivity ].

#[local] Hint Extern 2 (OptRel.env_rel _ _ _ _ _) => (eapply env_rel_weaken; [|eassumption]; fvt) : core.

(* ---------- the simulation ---------- *)

Definition sim_at (n : nat) : Prop :=
  forall s a a' env env' m, arel s a a' -> env_rel s (fvp a') env env' -> n <= m ->
    decided (eval n env a) -> R (eval n env a) (eval m env' a').

Lemma R_ok v v' : vrel v v' -> R (Ok v) (Ok v').
Proof. rr. constructor. auto. Qed.

Lemma R_inv_ok r v' : decided r -> R r (Ok v') -> exists v, r = Ok v /\ vrel v v'.
Proof.
  intros D H. inv H. eauto.
Qed.

Lemma undecided_false_ok {A} (r : res A) : decided r -> r <> OOF /\ r <> Unsup.
Proof. unfold decided. destruct r; cbn; intros; split; congruence. Qed.

Section Step.
Variables n m : nat.
Hypothesis IH : sim_at n.
Hypothesis Hnm : n <= m.
Local Notation E := (eval n).
Local Notation E' := (eval m).

Lemma app_sim c c' vs vs' :
  vrel c c' -> Forall2 vrel vs vs' -> decided (r_app E c vs) -> R (r_app E c vs) (r_app E' c' vs').
Proof.
  intros Hc Hvs. pose proof Hc as Hc0. inv Hc; cbn [r_app]; try (intros _; rr; constructor).
  rewrite <- (Forall2_length' _ _ _ Hvs).
  destruct (Nat.eqb (length vs) (length ps)) eqn:L; [|intros _; rr; constructor].
  apply Nat.eqb_eq in L. intros D.
  eapply IH; eauto. apply env_rel_app; auto.
Qed.

Lemma existsb_cons_l {A} (f : A -> bool) x l : f x = true -> existsb f (x :: l) = true.
Proof. intros H. simpl. rewrite H. reflexivity. Qed.
Lemma existsb_cons_r {A} (f : A -> bool) x l : existsb f l = true -> existsb f (x :: l) = true.
Proof. intros H. simpl. rewrite H. apply orb_true_r. Qed.

Lemma list_sim s env env' l l' :
  Forall2 (arel s) l l' -> env_rel s (fun x => existsb (fv x) l' = true) env env' ->
  decided (r_list E env l) -> Rl (r_list E env l) (r_list E' env' l').
Proof.
  intros Hl He. induction Hl as [|x x' l l' Hx Hl IHl]; cbn [r_list]; intros D.
  - rr. repeat constructor.
  - eapply wrel_bind; [exact D|intros; eapply IH; eauto;
      eapply env_rel_weaken; [|exact He]; intros y Hy; apply existsb_cons_l; exact Hy|]. intros v v' _ Hv D2.
    eapply wrel_bind; [exact D2|intros; apply IHl; auto;
      eapply env_rel_weaken; [|exact He]; intros y Hy; apply existsb_cons_r; exact Hy|]. intros ys ys' _ Hys _.
    rr. repeat constructor; auto.
Qed.

Lemma switch_sim s env env' sv sv' d d' cases cases' :
  vrel sv sv' -> arel s d d' ->
  env_rel s (fun x => fv x d' = true \/ existsb (fun c => fv x (fst c) || fv x (snd c)) cases' = true) env env' ->
  Forall2 (fun c c' => arel s (fst c) (fst c') /\ arel s (snd c) (snd c')) cases cases' ->
  decided (r_switch E env sv d cases) ->
  R (r_switch E env sv d cases) (r_switch E' env' sv' d' cases').
Proof.
  intros Hsv Hd He Hc. induction Hc as [|[cc cr] [cc' cr'] cases cases' [H1 H2] Hc IHc]; cbn [r_switch]; intros D.
  - eapply IH; eauto. eapply env_rel_weaken; [|exact He]. intros y Hy; left; exact Hy.
  - simpl in H1, H2.
    eapply wrel_bind; [exact D|intros; eapply IH; eauto;
      eapply env_rel_weaken; [|exact He]; intros y Hy; right; apply existsb_cons_l; cbn [fst snd];
      unfold fvp in Hy; rewrite Hy; reflexivity|]. intros cv cv' _ Hcv D2.
    rewrite <- (equal_fg_rel known _ _ _ _ Hsv Hcv).
    destruct (equal_fg sv cv) as [[|]| | | |]; try (rr; constructor).
    + eapply IH; eauto. eapply env_rel_weaken; [|exact He]. intros y Hy; right; apply existsb_cons_l; cbn [fst snd].
      unfold fvp in Hy; rewrite Hy. apply orb_true_r.
    + apply IHc; auto. eapply env_rel_weaken; [|exact He]. intros y [Hy|Hy]; [left; exact Hy|right; apply existsb_cons_r; exact Hy].
Qed.

Lemma map_sim s env env' mm mm' acc acc' :
  Forall2 (fun e e' => fst e = fst e' /\ arel s (snd e) (snd e')) mm mm' ->
  env_rel s (fun x => existsb (fun e => fv x (snd e)) mm' = true) env env' ->
  Forall2 erel acc acc' ->
  decided (r_map E env mm acc) -> R (r_map E env mm acc) (r_map E' env' mm' acc').
Proof.
  intros Hm He. revert acc acc'.
  induction Hm as [|[k x] [k' x'] mm mm' [H1 H2] Hm IHm]; intros acc acc' Ha; cbn [r_map]; intros D.
  - rr. constructor. constructor. auto.
  - simpl in H1, H2. subst k'.
    eapply wrel_bind; [exact D|intros; eapply IH; eauto;
      eapply env_rel_weaken; [|exact He]; intros y Hy; apply existsb_cons_l; exact Hy|]. intros v v' _ Hv D2.
    apply IHm; auto.
    + eapply env_rel_weaken; [|exact He]. intros y Hy; apply existsb_cons_r; exact Hy.
    + apply Forall2_app'; auto. constructor; [split; auto|constructor].
Qed.

End Step.

Lemma bind_ext {A B} (r : res A) (k1 k2 : A -> res B) : (forall a, k1 a = k2 a) -> bind r k1 = bind r k2.
Proof. intros H. destruct r; simpl; auto. Qed.

Lemma bind_assoc {A B C} (r : res A) (k1 : A -> res B) (k2 : B -> res C) :
  bind (bind r k1) k2 = bind r (fun a => bind (k1 a) k2).
Proof. destruct r; reflexivity. Qed.

Lemma rrel_oof_inv {A B} (Q : A -> B -> Prop) r : rrel Q r OOF -> r = OOF.
Proof. inversion 1; reflexivity. Qed.

Lemma rrel_ok_inv_r {A B} (Q : A -> B -> Prop) r b : rrel Q r (Ok b) -> exists a, r = Ok a /\ Q a b.
Proof. inversion 1; subst. eauto. Qed.

Lemma eval_0 env a : eval 0 env a = OOF.
Proof. reflexivity. Qed.

Lemma eval_const k env v : eval (S k) env (AConst v) = Ok v.
Proof. reflexivity. Qed.

Lemma short_circuit_false op : short_circuit op = false -> str_eqb op op_and = false /\ str_eqb op op_or = false.
Proof. unfold short_circuit. intros H. apply orb_false_iff in H. exact H. Qed.

Ltac fuel0 D := (* the source ran with fuel 0 *)
  exfalso; cbn in D; unfold decided in D; cbn in D; discriminate D.

Theorem sim : forall n, sim_at n.
Proof.
  induction n as [|n IHn].
  { intros s a a' env env' m _ _ _ D. discriminate D. }
  intros s a a' env env' m Ha. revert env env' m.
  induction Ha as
    [ s v v' H
    | s x H
    | s x c H
    | s x v v' b b' Hv IHv Hb IHb
    | s x v c b b' Hv IHv Hb IHb
    | s c c' t t' e e' Hc IHc Ht IHt He IHe
    | s c t t' e Hc IHc Ht IHt
    | s c t e e' Hc IHc He IHe
    | s v v' cases cases' d d' Hv IHv Hcases Hd IHd
    | s t t' c c' Ht IHt Hc IHc
    | s op x x' Hx IHx
    | s op x x' y y' Hx IHx Hy IHy
    | s op a b c1 c2 c x' Hsc Hlaw Ha IHa Hb IHb Hcalc
    | s op a b c1 c2 c x' Hsc Hlaw Ha IHa Hb IHb Hcalc
    | s ps b b' outer outer' r r' this Hb IHb
    | s ps b b' outer r this Hb IHb Hcl
    | s l l' Hl
    | s l l' i i' Hl IHl Hi IHi
    | s mm mm' Hm
    | s mm mm' key Hm IHm
    | s fn fn' args args' Hfn IHfn Hargs
    | s f args args' Hargs
    | s recv recv' mname args args' Hrecv IHrecv Hargs
    | s a t t' Ha IHa Hclosed Hseq Htseq
    | s a t v Ha IHa Hclosed Hg ];
    intros env env' k Henv Hk D.
  - (* const *) destruct k as [|k]; [lia|]. rr. constructor. auto.
  - (* ident *) destruct k as [|k]; [lia|]. rewrite !eval_S. cbn [ref_step].
    destruct Henv as [_ H2].
    assert (Fx : fvp (AIdent x) x) by (unfold fvp; cbn [fv]; apply str_eqb_refl).
    destruct (H2 x Fx H); rr; constructor; auto.
  - (* ident const *) destruct k as [|k]; [lia|]. rewrite !eval_S. cbn [ref_step].
    destruct Henv as [H1 _]. destruct (H1 x c H) as (v & -> & Hv). rr. constructor. auto.
  - (* let *) destruct k as [|k]; [lia|]. rewrite eval_S in D. rewrite !eval_S. cbn [ref_step] in *.
    eapply wrel_bind; [exact D|intros; eapply IHn; eauto; lia|]. intros vv vv' _ Hvv D2.
    eapply IHn; eauto; [eapply env_rel_let; [exact Hvv|exact Henv|]|lia].
    intros y Hy Ey. unfold fvp in *. cbn [fv]. rewrite Hy, Ey. cbn. apply orb_true_r.
  - (* let const *) rewrite eval_S in D. rewrite eval_S. cbn [ref_step] in *.
    pose proof (decided_bind _ _ D) as D1.
    assert (Hc : R (eval n env v) (Ok c)).
    { destruct k as [|k]; [lia|]. rewrite <- (eval_const k env' c). eapply IHn; eauto. lia. }
    destruct (R_inv_ok _ _ D1 Hc) as (vv & Ev & Hvv). rewrite Ev in *. cbn [bind] in *.
    eapply IHn; eauto; [apply env_rel_let_const; auto|lia].
  - (* if *) destruct k as [|k]; [lia|]. rewrite eval_S in D. rewrite !eval_S. cbn [ref_step] in *.
    eapply wrel_bind; [exact D|intros; eapply IHn; eauto; lia|]. intros cv cv' _ Hcv D2.
    inv Hcv; try (rr; constructor).
    destruct b; eapply IHn; eauto; lia.
  - (* if true *) rewrite eval_S in D. rewrite eval_S. cbn [ref_step] in *.
    pose proof (decided_bind _ _ D) as D1.
    assert (Hcc : R (eval n env c) (Ok (VBool true))).
    { destruct k as [|k]; [lia|]. rewrite <- (eval_const k env' (VBool true)). eapply IHn; eauto. lia. }
    destruct (R_inv_ok _ _ D1 Hcc) as (vv & Ev & Hvv). rewrite Ev in *. inv Hvv. cbn [bind] in *.
    eapply IHn; eauto. lia.
  - (* if false *) rewrite eval_S in D. rewrite eval_S. cbn [ref_step] in *.
    pose proof (decided_bind _ _ D) as D1.
    assert (Hcc : R (eval n env c) (Ok (VBool false))).
    { destruct k as [|k]; [lia|]. rewrite <- (eval_const k env' (VBool false)). eapply IHn; eauto. lia. }
    destruct (R_inv_ok _ _ D1 Hcc) as (vv & Ev & Hvv). rewrite Ev in *. inv Hvv. cbn [bind] in *.
    eapply IHn; eauto. lia.
  - (* switch *) destruct k as [|k]; [lia|]. rewrite eval_S in D. rewrite !eval_S. cbn [ref_step] in *.
    eapply wrel_bind; [exact D|intros; eapply IHn; eauto; lia|]. intros sv sv' _ Hsv D2.
    eapply switch_sim; eauto; [lia|].
    eapply env_rel_weaken; [|exact Henv]. intros y Hy. unfold fvp. rewrite fv_switch.
    destruct Hy as [Hy|Hy]; rewrite Hy; rewrite ?orb_true_r; reflexivity.
  - (* try *) destruct k as [|k]; [lia|]. rewrite eval_S in D. rewrite !eval_S. cbn [ref_step] in *.
    assert (Dt : decided (eval n env t)).
    { unfold decided in *. destruct (eval n env t); cbn in *; auto. }
    assert (Ht1 : R (eval n env t) (eval k env' t')) by (eapply IHn; eauto; lia).
    unfold OptRel.R, wrel in Ht1.
    inv Ht1; try (rr; constructor; auto; fail).
    + (* Err thrown *)
      rewrite <- H0 in D.
      eapply wrel_bind; [exact D|intros; eapply IHn; eauto; lia|]. intros cv cv' _ Hcv D2.
      pose proof Hcv as Hcv0. inv Hcv; try (rr; constructor; auto; fail).
      destruct ps as [|p1 [|p2 ps]]; try (rr; constructor; auto; fail).
      eapply app_sim; eauto; [lia|repeat constructor].
  - (* unary *) destruct k as [|k]; [lia|]. rewrite eval_S in D. rewrite !eval_S. cbn [ref_step] in *.
    eapply wrel_bind; [exact D|intros; eapply IHn; eauto; lia|]. intros xv xv' _ Hxv _.
    rr. apply ucalc_rel. auto.
  - (* op *) destruct k as [|k]; [lia|]. rewrite eval_S in D. rewrite !eval_S. cbn [ref_step] in *.
    destruct (str_eqb op op_and).
    { eapply wrel_bind; [exact D|intros; eapply IHn; eauto; lia|]. intros av av' _ Hav D2.
      pose proof Hav as Hav0.
      inv Hav; try (eapply wrel_bind; [exact D2|intros; eapply IHn; eauto; lia|];
                    intros bv bv' _ Hbv _; rr; apply calc_rel; auto).
      destruct b; [|rr; constructor; constructor].
      eapply wrel_bind; [exact D2|intros; eapply IHn; eauto; lia|]. intros bv bv' _ Hbv _.
      inv Hbv; rr; constructor. constructor. }
    destruct (str_eqb op op_or).
    { eapply wrel_bind; [exact D|intros; eapply IHn; eauto; lia|]. intros av av' _ Hav D2.
      pose proof Hav as Hav0.
      inv Hav; try (eapply wrel_bind; [exact D2|intros; eapply IHn; eauto; lia|];
                    intros bv bv' _ Hbv _; rr; apply calc_rel; auto).
      destruct b; [rr; constructor; constructor|].
      eapply wrel_bind; [exact D2|intros; eapply IHn; eauto; lia|]. intros bv bv' _ Hbv _.
      inv Hbv; rr; constructor. constructor. }
    eapply wrel_bind; [exact D|intros; eapply IHn; eauto; lia|]. intros av av' _ Hav D2.
    eapply wrel_bind; [exact D2|intros; eapply IHn; eauto; lia|]. intros bv bv' _ Hbv _.
    rr. apply calc_rel; auto.
  - (* regroup, constant on the left *)
    destruct (short_circuit_false _ Hsc) as [Ea Eo].
    destruct k as [|k]; [lia|]. rewrite eval_S in D. cbn [ref_step] in D. rewrite Ea, Eo in D.
    destruct k as [|k].
    { assert (n = 0) by lia. subst n. rewrite eval_0 in D. fuel0 D. }
    rewrite (eval_S known n env), (eval_S known (S k) env'). cbn [ref_step]. rewrite Ea, Eo, eval_const. cbn [bind].
    rewrite (bind_ext (eval (S k) env' x') (fun bv => calc op c bv)
                      (fun bv => bind (calc op c1 bv) (fun r => calc op r c2)));
      [|intros; apply (proj1 (Hlaw c1 c2 c _ Hcalc))].
    rewrite <- (bind_assoc (eval (S k) env' x')).
    assert (HA : decided (eval n env a) ->
                 R (eval n env a) (bind (eval (S k) env' x') (fun bv => calc op c1 bv))).
    { intros Da. assert (HH : R (eval n env a) (eval (S (S k)) env' (AOp op (AConst c1) x'))) by (eapply IHn; eauto; lia).
      rewrite eval_S in HH. cbn [ref_step] in HH. rewrite Ea, Eo, eval_const in HH. exact HH. }
    eapply wrel_bind; [exact D|exact HA|]. intros av av' _ Hav D2.
    pose proof (decided_bind _ _ D2) as Db.
    assert (HB : R (eval n env b) (Ok c2)).
    { rewrite <- (eval_const k env' c2). eapply IHn; eauto. lia. }
    destruct (R_inv_ok _ _ Db HB) as (bv & Eb & Hbv). rewrite Eb. cbn [bind].
    rr. apply calc_rel; auto.
  - (* regroup, constant on the right *)
    destruct (short_circuit_false _ Hsc) as [Ea Eo].
    destruct k as [|k]; [lia|]. rewrite eval_S in D. cbn [ref_step] in D. rewrite Ea, Eo in D.
    destruct k as [|k].
    { assert (n = 0) by lia. subst n. rewrite eval_0 in D. fuel0 D. }
    rewrite (eval_S known n env), (eval_S known (S k) env'). cbn [ref_step]. rewrite Ea, Eo.
    rewrite (bind_ext (eval (S k) env' x') (fun av => bind (eval (S k) env' (AConst c)) (fun bv => calc op av bv))
                      (fun av => bind (bind (Ok c1) (fun bv => calc op av bv)) (fun r => calc op r c2)));
      [|intros; rewrite eval_const; cbn [bind]; apply (proj2 (Hlaw c1 c2 c _ Hcalc))].
    rewrite <- (bind_assoc (eval (S k) env' x')).
    assert (HA : decided (eval n env a) ->
                 R (eval n env a) (bind (eval (S k) env' x') (fun av => bind (Ok c1) (fun bv => calc op av bv)))).
    { intros Da. assert (HH : R (eval n env a) (eval (S (S k)) env' (AOp op x' (AConst c1)))) by (eapply IHn; eauto; lia).
      rewrite eval_S in HH. cbn [ref_step] in HH. rewrite Ea, Eo, eval_const in HH. exact HH. }
    eapply wrel_bind; [exact D|exact HA|]. intros av av' _ Hav D2.
    pose proof (decided_bind _ _ D2) as Db.
    assert (HB : R (eval n env b) (Ok c2)).
    { rewrite <- (eval_const k env' c2). eapply IHn; eauto. lia. }
    destruct (R_inv_ok _ _ Db HB) as (bv & Eb & Hbv). rewrite Eb. cbn [bind].
    rr. apply calc_rel; auto.
  - (* closure literal *) destruct k as [|k]; [lia|]. rewrite !eval_S. cbn [ref_step].
    rr. constructor. destruct Henv as [H1 H2]. econstructor; eauto.
    intros x Hx Mx Lx. apply H2; auto. unfold fvp. cbn [fv]. rewrite Mx, Hx. reflexivity.
  - (* closure literal folded to a constant *) destruct k as [|k]; [lia|]. rewrite !eval_S. cbn [ref_step].
    rr. constructor. destruct Henv as [H1 H2]. econstructor; eauto.
    + right. split; auto. destruct (fv this b') eqn:F; auto.
    + intros x Hx Mx Lx. rewrite mem_name_app, (Hcl x Hx) in Mx. discriminate.
  - (* list *) destruct k as [|k]; [lia|]. rewrite eval_S in D. rewrite !eval_S. cbn [ref_step] in *.
    eapply wrel_bind; [exact D|intros; eapply list_sim; eauto; try lia; try exact Henv|]. intros vs vs' _ Hvs _.
    rr. constructor. constructor. auto.
  - (* index *) destruct k as [|k]; [lia|]. rewrite eval_S in D. rewrite !eval_S. cbn [ref_step] in *.
    eapply wrel_bind; [exact D|intros; eapply IHn; eauto; lia|]. intros iv iv' _ Hiv D2.
    eapply wrel_bind; [exact D2|intros; eapply IHn; eauto; lia|]. intros lv lv' _ Hlv _.
    rr. apply access_list_rel; auto.
  - (* map *) destruct k as [|k]; [lia|]. rewrite eval_S in D. rewrite !eval_S. cbn [ref_step] in *.
    eapply map_sim; eauto; try lia; try exact Henv.
  - (* member *) destruct k as [|k]; [lia|]. rewrite eval_S in D. rewrite !eval_S. cbn [ref_step] in *.
    eapply wrel_bind; [exact D|intros; eapply IHn; eauto; lia|]. intros mv mv' _ Hmv _.
    rr. apply access_map_rel; auto.
  - (* call *) destruct k as [|k]; [lia|]. rewrite eval_S in D. rewrite !eval_S. cbn [ref_step] in *.
    eapply wrel_bind; [exact D|intros; eapply IHn; eauto; lia|]. intros fnv fnv' _ Hfv D2.
    pose proof Hfv as Hfv0. inv Hfv; try (rr; constructor).
    rewrite <- (Forall2_length' _ _ _ Hargs).
    destruct (Nat.eqb (length args) (length ps)); [|rr; constructor].
    eapply wrel_bind; [exact D2|intros; eapply list_sim; eauto; try lia;
      (eapply env_rel_weaken; [|exact Henv]; intros y Hy; unfold fvp; rewrite fv_call, Hy; apply orb_true_r)|].
    intros vs vs' _ Hvs D3.
    eapply app_sim; eauto. lia.
  - (* static *) destruct k as [|k]; [lia|]. rewrite eval_S in D. rewrite !eval_S. cbn [ref_step] in *.
    destruct (static_arity f) as [ar|]; [|rr; constructor].
    rewrite <- (Forall2_length' _ _ _ Hargs).
    destruct (arity_ok ar (length args)); [|rr; constructor].
    eapply wrel_bind; [exact D|intros; eapply list_sim; eauto; try lia; try exact Henv|]. intros vs vs' _ Hvs _.
    rr. apply run_static_rel; auto.
  - (* method *) destruct k as [|k]; [lia|]. rewrite eval_S in D. rewrite !eval_S. cbn [ref_step] in *.
    eapply wrel_bind; [exact D|intros; eapply IHn; eauto; lia|]. intros rv rv' _ Hrv D2.
    rewrite <- (Forall2_length' _ _ _ Hargs).
    destruct (field_of_rel known _ _ mname Hrv) as [|cv cv' ar Hcv A1 A2].
    + rewrite <- (method_arity_rel known _ _ mname Hrv).
      destruct (method_arity rv mname) as [ar|].
      * destruct (arity_ok ar (length args)); [|rr; constructor].
        eapply wrel_bind; [exact D2|intros; eapply list_sim; eauto; try lia;
          (eapply env_rel_weaken; [|exact Henv]; intros y Hy; unfold fvp; rewrite fv_method, Hy; apply orb_true_r)|].
        intros vs vs' _ Hvs D3.
        eapply run_method_w; eauto. intros; eapply app_sim; eauto; lia.
      * rewrite <- (method_exists_rel known _ _ mname known Hrv).
        inv Hrv; rr; try constructor; destruct (method_exists _ mname known); constructor.
    + destruct (Nat.eqb (length args) ar); [|rr; constructor].
      eapply wrel_bind; [exact D2|intros; eapply list_sim; eauto; try lia;
          (eapply env_rel_weaken; [|exact Henv]; intros y Hy; unfold fvp; rewrite fv_method, Hy; apply orb_true_r)|].
        intros vs vs' _ Hvs D3.
      eapply app_sim; eauto. lia.
  - (* a rewrite step on the optimized side *)
    specialize (IHa env env' k (env_rel_closed _ _ _ _ _ Hclosed Henv) Hk D). rename IHa into Hr.
    unfold OptRel.R, wrel in *. rewrite (Hseq k env'); [exact Hr|].
    intros EO. rewrite EO in Hr.
    assert (Es : eval (S n) env a = OOF) by (eapply rrel_oof_inv; exact Hr).
    rewrite Es in D. discriminate D.
  - (* a value computed at Generate time *)
    destruct Hg as (kg & v1 & Hev & Hrel).
    specialize (IHa env env' k (env_rel_closed _ _ _ _ _ Hclosed Henv) Hk D).
    destruct k as [|k]; [lia|]. rewrite eval_const.
    assert (Et : eval (S k) env' t <> OOF -> eval (S k) env' t = Ok v1).
    { intros N. rewrite <- (Hev env'). apply eval_agree; [rewrite Hev; discriminate|exact N]. }
    rename IHa into Hr. unfold OptRel.R, wrel in *.
    assert (N : eval (S k) env' t <> OOF).
    { intros EO. rewrite EO in Hr.
      assert (Es : eval (S n) env a = OOF) by (eapply rrel_oof_inv; exact Hr).
      rewrite Es in D. discriminate D. }
    rewrite (Et N) in Hr. destruct (rrel_ok_inv_r _ _ _ Hr) as (v0 & E0 & R0).
    rewrite E0. constructor. eapply vrel_comp; eauto.
Qed.

End Sim.
