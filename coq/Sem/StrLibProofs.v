(* Facts about the dispatch of the string methods (Sem/StrLib.v) that the proofs about the semantic
   core need: the result depends on the arguments only through their first-order view [sarg_of],
   a result is always one of the four first-order shapes [sres_val], and no string method panics. *)
From P2 Require Import Base.Prelude Sem.Num Sem.Syntax Sem.Ops Sem.StrLib.
Require Import Lia.
Local Open Scope Z_scope.

Lemma run_str_method_same mname s args args' :
  map sarg_of args = map sarg_of args' -> run_str_method mname s args = run_str_method mname s args'.
Proof. intros E. unfold run_str_method. rewrite E. reflexivity. Qed.

Lemma run_str_method_shape mname s args v :
  run_str_method mname s args = Ok v -> exists r, v = sres_val r.
Proof.
  unfold run_str_method. destruct (run_str_core mname s (map sarg_of args)); cbn [bind]; try discriminate.
  intros E; inversion E; eauto.
Qed.

Lemma str_trim_np s : str_trim s <> Panic.
Proof. unfold str_trim. destruct (is_ascii s); discriminate. Qed.
Lemma str_lower_np s : str_lower s <> Panic.
Proof. unfold str_lower. destruct (is_ascii s); discriminate. Qed.
Lemma str_upper_np s : str_upper s <> Panic.
Proof. unfold str_upper. destruct (is_ascii s); discriminate. Qed.

Lemma behind_lines_np pre ls : behind_lines pre ls <> Panic.
Proof.
  induction ls as [|e r IH]; cbn [behind_lines]; [discriminate|].
  destruct (after_first pre e); [apply str_trim_np|exact IH].
Qed.

Lemma str_behindList_np s k : str_behindList s k <> Panic.
Proof. unfold str_behindList. destruct (is_ascii s && is_ascii k); discriminate. Qed.

Lemma str_to_int_np s : str_to_int s <> Panic.
Proof.
  unfold str_to_int.
  repeat match goal with
         | |- context [match ?x with _ => _ end] => destruct x
         end; discriminate.
Qed.

Lemma bind_ok_np {A B} (r : res A) (k : A -> B) : r <> Panic -> bind r (fun x => Ok (k x)) <> Panic.
Proof. destruct r; cbn; intros; try discriminate; auto. Qed.

Lemma with_s_np a k : (forall p, k p <> Panic) -> with_s a k <> Panic.
Proof. destruct a; cbn; intros; try discriminate; auto. Qed.
Lemma with_i_np a k : (forall p, k p <> Panic) -> with_i a k <> Panic.
Proof. destruct a; cbn; intros; try discriminate; auto. Qed.

Lemma run_str_core_np mname s args : run_str_core mname s args <> Panic.
Proof.
  unfold run_str_core.
  destruct (str_eqb mname n_trim). { apply bind_ok_np, str_trim_np. }
  destruct (str_eqb mname n_toLower). { apply bind_ok_np, str_lower_np. }
  destruct (str_eqb mname n_toUpper). { apply bind_ok_np, str_upper_np. }
  destruct (str_eqb mname n_contains).
  { destruct args as [|a [|? ?]]; try discriminate. apply with_s_np; discriminate. }
  destruct (str_eqb mname n_indexOf).
  { destruct args as [|a [|? ?]]; try discriminate. apply with_s_np; discriminate. }
  destruct (str_eqb mname n_split).
  { destruct args as [|a [|? ?]]; try discriminate. apply with_s_np; discriminate. }
  destruct (str_eqb mname n_cut).
  { destruct args as [|a [|b [|? ?]]]; try discriminate.
    apply with_i_np; intros; apply with_i_np; discriminate. }
  destruct (str_eqb mname n_behind).
  { destruct args as [|a [|? ?]]; try discriminate. apply with_s_np; intros.
    apply bind_ok_np, behind_lines_np. }
  destruct (str_eqb mname n_behindList).
  { destruct args as [|a [|? ?]]; try discriminate. apply with_s_np; intros.
    apply bind_ok_np, str_behindList_np. }
  destruct (str_eqb mname n_replace).
  { destruct args as [|a [|b [|? ?]]]; try discriminate.
    apply with_s_np; intros; apply with_s_np; discriminate. }
  destruct (str_eqb mname n_toInt).
  { pose proof (str_to_int_np s). destruct (str_to_int s) as [[]| | | |]; try discriminate; auto. }
  discriminate.
Qed.

Lemma run_str_method_np mname s args : run_str_method mname s args <> Panic.
Proof. unfold run_str_method. apply bind_ok_np, run_str_core_np. Qed.
