(* Canonical observations of evaluation outcomes, and the rule by which an outcome computed by a
   model (Sem/Ref.v, Sem/Gen.v) is compared with what the implementation returned.

   Only what property C01/C02 talks about is observed: ok-vs-error, the text passed through throw,
   and values with numbers tagged by kind and compared exactly, lists by element sequence, maps as
   key/value sets (sorted by key), closures by arity only.  Error message text is never compared,
   except that a text passed through throw must be contained in the implementation's message. *)
From P2 Require Import Base.Prelude Sem.Num Sem.Syntax Sem.Ops.
Local Open Scope Z_scope.

Inductive oval :=
| OInt (z : Z)
| OFloat (f : fl)
| OStr (s : str)
| OBool (b : bool)
| OList (l : list oval)
| OMap (m : list (str * oval))      (* sorted by key *)
| OClo (arity : N)
| OAny        (* model side only: the message of a caught error - some string *)
| OOther.     (* implementation side only: a value of a type outside the model *)

(* what the implementation did: Generate failed / Eval (incl. deep forcing of the result) failed with
   the message text / a value *)
Inductive iout :=
| IVal (v : oval)
| IErr (msg : str)
| IGenErr (msg : str).

(* stable insertion sort by key *)
Fixpoint insert_kv (k : str) (v : oval) (l : list (str * oval)) : list (str * oval) :=
  match l with
  | [] => [(k, v)]
  | (k', v') :: r => if str_ltb k k' then (k, v) :: l else (k', v') :: insert_kv k v r
  end.

Fixpoint sort_kv (l : list (str * oval)) : list (str * oval) :=
  match l with
  | [] => []
  | (k, v) :: r => insert_kv k v (sort_kv r)
  end.

Fixpoint obs_val (v : value) {struct v} : oval :=
  match v with
  | VInt z => OInt z
  | VFloat f => OFloat f
  | VStr s => OStr s
  | VBool b => OBool b
  | VList l => OList ((fix go (l : list value) : list oval :=
                         match l with [] => [] | x :: r => obs_val x :: go r end) l)
  | VMap m => OMap (sort_kv ((fix go (m : list (str * value)) : list (str * oval) :=
                               match m with [] => [] | (k, x) :: r => (k, obs_val x) :: go r end) m))
  | VClo ps _ _ _ => OClo (N.of_nat (length ps))
  | VErrText _ => OAny
  end.

(* floats are compared as values of the type, not numerically: -0 <> +0, NaN = NaN *)
Definition fl_same (a b : fl) : bool :=
  match a, b with
  | FFin m e, FFin m' e' =>
      let '(m1, e1) := norm m e in let '(m2, e2) := norm m' e' in (m1 =? m2) && (e1 =? e2)
  | FNegZero, FNegZero => true
  | FInf x, FInf y => Bool.eqb x y
  | FNaN, FNaN => true
  | _, _ => false
  end.

(* m: observation of a model value, i: observation of the implementation's value *)
Fixpoint oval_match (m i : oval) {struct m} : bool :=
  match m, i with
  | OInt x, OInt y => x =? y
  | OFloat x, OFloat y => fl_same x y
  | OStr x, OStr y => str_eqb x y
  | OBool x, OBool y => Bool.eqb x y
  | OList l, OList l' =>
      (fix go (l l' : list oval) : bool :=
         match l, l' with
         | [], [] => true
         | x :: r, y :: r' => oval_match x y && go r r'
         | _, _ => false
         end) l l'
  | OMap l, OMap l' =>
      (fix go (l l' : list (str * oval)) : bool :=
         match l, l' with
         | [], [] => true
         | (k, x) :: r, (k', y) :: r' => str_eqb k k' && oval_match x y && go r r'
         | _, _ => false
         end) l l'
  | OClo a, OClo b => (a =? b)%N
  | OAny, OStr _ => true
  | _, _ => false
  end.

Inductive verdict :=
| Agree
| Disagree
| SkipUnsup      (* the model left its fragment: inexact float, unmodelled built-in *)
| SkipOOF        (* the model ran out of fuel *)
| SkipLazy.      (* model: error, implementation: value, and the program has a lazy list stage: the
                    model's lists are eager, a failing callback of a list nobody consumes is an
                    error in the model only *)

(* lazy: the program contains a lazy list stage (map/accept/...) *)
Definition compare_out (lazy : bool) (r : res value) (i : iout) : verdict :=
  match r with
  | Ok v =>
      match i with
      | IVal w => if oval_match (obs_val v) w then Agree else Disagree
      | _ => Disagree
      end
  | Err (Some t) =>
      match i with
      | IVal _ => if lazy then SkipLazy else Disagree
      | IErr m | IGenErr m => if contains_str m t then Agree else Disagree
      end
  | Err None | Panic =>
      match i with
      | IVal _ => if lazy then SkipLazy else Disagree
      | _ => Agree
      end
  | OOF => SkipOOF
  | Unsup => SkipUnsup
  end.

Definition verdict_ok (v : verdict) : bool := match v with Disagree => false | _ => true end.
Definition is_unsup (v : verdict) : bool := match v with SkipUnsup => true | _ => false end.
Definition is_oof (v : verdict) : bool := match v with SkipOOF => true | _ => false end.
Definition is_lazy (v : verdict) : bool := match v with SkipLazy => true | _ => false end.
Definition is_agree (v : verdict) : bool := match v with Agree => true | _ => false end.
