(* The generator model never answers Panic: operators and built-ins return their faults as errors
   (Conc/NoPanicProofs.v), and nothing else in Gen.exec produces one.  Hence a Panic of the guarded
   executor (Sem/Guard.v) is the recursion guard, and nothing but the guard. *)
From P2 Require Import Base.Prelude Sem.Num Sem.Syntax Sem.Ops Sem.Lib Sem.Ref Sem.Gen Sem.Sim
     Sem.GenProofs Conc.NoPanicProofs.
Require Import Lia.

Section Step.
Variable known : list (N * list name).
Variable E : exec_t.
Hypothesis HE : forall am cm st offs size cs a, fst (E am cm st offs size cs a) <> Panic.

Ltac useE :=
  match goal with
  | |- context [E ?am ?cm ?st ?o ?s ?cs ?a] =>
      let H := fresh "H" in
      pose proof (HE am cm st o s cs a) as H;
      destruct (E am cm st o s cs a) as [[?v|?t| | |] ?sx]; cbn [fst snd] in H |- *;
      [ | | exfalso; apply H; reflexivity | | ]; clear H
  end.

Lemma g_app_np : forall c args, g_app E c args <> Panic.
Proof.
  intros c args. destruct c; cbn [g_app]; try discriminate.
  destruct (Nat.eqb (length args) (length ps)); [apply HE|discriminate].
Qed.

Lemma g_call_np c n st fb : fst (g_call E c n st fb) <> Panic.
Proof. destruct c; cbn [g_call fst]; try discriminate. apply HE. Qed.

Section Frame.
Variable am : list (option name).
Variable cm : list name.
Variables offs size : nat.
Variable cs : list value.

Lemma g_args_np : forall l pushed st acc, fst (g_args E am cm offs size cs l pushed st acc) <> Panic.
Proof.
  induction l as [|x l IH]; intros pushed st acc; cbn [g_args]; [discriminate|].
  useE; try discriminate. apply IH.
Qed.

Lemma g_plain_np : forall l st, fst (g_plain E am cm offs size cs l st) <> Panic.
Proof.
  induction l as [|x l IH]; intros st; cbn [g_plain]; [discriminate|].
  useE; try discriminate.
  specialize (IH sx). destruct (g_plain E am cm offs size cs l sx) as [[| | | |] s2]; cbn [fst] in *;
    try discriminate. exact IH.
Qed.

Lemma g_switch_np sv d : forall l st, fst (g_switch E am cm offs size cs sv d l st) <> Panic.
Proof.
  induction l as [|[cc cr] l IH]; intros st; cbn [g_switch]; [apply HE|].
  useE; try discriminate.
  pose proof (equal_fg_np sv v) as Hq.
  destruct (equal_fg sv v) as [[|]| | | |]; cbn [fst]; try discriminate; [apply HE|apply IH|tauto].
Qed.

Lemma g_map_np : forall m st acc, fst (g_map E am cm offs size cs m st acc) <> Panic.
Proof.
  induction m as [|[k x] m IH]; intros st acc; cbn [g_map]; [discriminate|].
  useE; try discriminate. apply IH.
Qed.

Ltac step :=
  first
    [ useE
    | match goal with
      | |- context [g_args E am cm offs size cs ?l ?p ?s ?acc] =>
          let H := fresh "H" in pose proof (g_args_np l p s acc) as H;
          destruct (g_args E am cm offs size cs l p s acc) as [[?vs|?t| | |] ?sx]; cbn [fst snd] in H |- *;
          [ | | exfalso; apply H; reflexivity | | ]; clear H
      | |- context [g_plain E am cm offs size cs ?l ?s] =>
          let H := fresh "H" in pose proof (g_plain_np l s) as H;
          destruct (g_plain E am cm offs size cs l s) as [[?vs|?t| | |] ?sx]; cbn [fst snd] in H |- *;
          [ | | exfalso; apply H; reflexivity | | ]; clear H
      | |- fst (E _ _ _ _ _ _ _) <> Panic => apply HE
      | |- fst (g_call E _ _ _ _) <> Panic => apply g_call_np
      | |- fst (g_switch E _ _ _ _ _ _ _ _ _) <> Panic => apply g_switch_np
      | |- fst (g_map E _ _ _ _ _ _ _ _) <> Panic => apply g_map_np
      | |- fst (calc _ _ _, _) <> Panic => apply calc_np
      | |- fst (ucalc _ _, _) <> Panic => apply ucalc_np
      | |- fst (access_list _ _, _) <> Panic => apply access_list_np
      | |- fst (access_map _ _, _) <> Panic => apply access_map_np
      | |- fst (run_static _ _, _) <> Panic => apply run_static_np
      | |- fst (run_method _ _ _ _, _) <> Panic => apply run_method_np; apply g_app_np
      | |- calc _ _ _ <> Panic => apply calc_np
      | |- ucalc _ _ <> Panic => apply ucalc_np
      | |- access_list _ _ <> Panic => apply access_list_np
      | |- access_map _ _ <> Panic => apply access_map_np
      | |- run_static _ _ <> Panic => apply run_static_np
      | |- run_method _ _ _ _ <> Panic => apply run_method_np; apply g_app_np
      end
    | match goal with |- context [match ?x with _ => _ end] => destruct x end
    | (cbn [fst]; discriminate) ].

Theorem gen_step_np st a : fst (gen_step known E am cm offs size cs st a) <> Panic.
Proof. destruct a; cbn [gen_step]; repeat step. Qed.

End Frame.
End Step.

Theorem exec_never_panics_lemma : forall known fuel am cm st offs size cs a,
  fst (exec known fuel am cm st offs size cs a) <> Panic.
Proof.
  intros known. induction fuel as [|f IH]; intros am cm st offs size cs a.
  - cbn. discriminate.
  - rewrite exec_S. apply gen_step_np. exact IH.
Qed.

Print Assumptions exec_never_panics_lemma.
