(* Definitions for the soundness proof of the optimizer (C02): the specification side (flags_ok,
   outcome relation), the relation "t is an optimized form of a under the known constants s"
   together with the relation between the values of the unoptimized and of the optimized program,
   and the one-step unfolding of Ref.eval with its local recursive helpers named.
   Definitions only; the proofs are in Sem/OptRelProofs.v, Sem/OptOpsProofs.v, Sem/OptLibProofs.v,
   Sem/OptFlagsProofs.v and Sem/OptProofs.v.
   The outcome relation rrel, the first-order test fo and the one-step unfolding of Ref.eval
   (ref_step, r_app, r_list, ...) are those of the C01 package (Sem/Sim.v). *)
From P2 Require Import Base.Prelude Sem.Num Sem.Syntax Sem.Ops Sem.Lib Sem.Ref Sem.Gen Sem.Sim Sem.Trace Sem.Opt.

(* ---------- outcomes ---------- *)

Definition undecided {A} (r : res A) : bool := match r with OOF | Unsup => true | _ => false end.
Definition decided {A} (r : res A) : Prop := undecided r = false.

(* related outcomes (the name is kept from the version of the proof in which the optimized side was
   allowed to be inexact; with the exact regrouping law it never is) *)
Definition wrel {A B} (Q : A -> B -> Prop) (r : res A) (r' : res B) : Prop := rrel Q r r'.

(* "same value or both fail", exact arithmetic: nothing is claimed when a side is inexact *)
Definition req (r1 r2 : res value) : Prop := r1 = Unsup \/ r2 = Unsup \/ r1 = r2.

(* ---------- the specification side: what the flags must guarantee ---------- *)

(* what the generated code computes for an operator on two values (value.GenerateCustom: & and |
   short-circuit on a bool left operand; everything else is Impl.Calc) *)
Definition rt (op : name) (a b : value) : res value :=
  if str_eqb op op_and then
    match a with
    | VBool false => Ok (VBool false)
    | VBool true => match b with VBool y => Ok (VBool y) | VErrText _ => Unsup | _ => Err None end
    | _ => calc op a b
    end
  else if str_eqb op op_or then
    match a with
    | VBool true => Ok (VBool true)
    | VBool false => match b with VBool y => Ok (VBool y) | VErrText _ => Unsup | _ => Err None end
    | _ => calc op a b
    end
  else calc op a b.

Definition short_circuit (op : name) : bool := str_eqb op op_and || str_eqb op op_or.

(* folding with Impl.Calc agrees with the generated code *)
Definition fold_agrees (fl : cfgflags) : Prop :=
  forall op comm a b v, op_flags fl op = Some (true, comm) -> calc op a b = Ok v -> rt op a b = Ok v.

(* (c1 op x) op c2 ~ (c1 op c2) op x   and   (x op c1) op c2 ~ x op (c1 op c2), for ALL x *)
Definition regroup_law (op : name) : Prop :=
  forall c1 c2 c x, calc op c1 c2 = Ok c ->
    req (bind (rt op c1 x) (fun r => rt op r c2)) (rt op c x) /\
    req (bind (rt op x c1) (fun r => rt op r c2)) (rt op x c).

(* the same law without the escape for inexact results: both groupings give the SAME outcome
   (also the same failure, also Unsup on both sides) *)
Definition regroup_exact (op : name) : Prop :=
  forall c1 c2 c x, calc op c1 c2 = Ok c ->
    (calc op c x = bind (calc op c1 x) (fun r => calc op r c2)) /\
    (calc op x c = bind (calc op x c1) (fun r => calc op r c2)).

Definition regroup_exact_ok (fl : cfgflags) : Prop :=
  forall op pure, op_flags fl op = Some (pure, true) -> short_circuit op = false /\ regroup_exact op.

(* an operator that regroups does not short-circuit (the regrouped operand x is evaluated exactly
   once on both sides) and obeys the law *)
Definition regroup_ok (fl : cfgflags) : Prop :=
  forall op pure, op_flags fl op = Some (pure, true) -> short_circuit op = false /\ regroup_law op.

(* nothing flagged pure is throw: a pure static function never fails with a thrown text *)
Definition pure_is_silent (fl : cfgflags) : Prop :=
  forall f args t, static_pure fl f = true -> run_static f args <> Err (Some t).

Definition flags_ok (fl : cfgflags) : Prop := fold_agrees fl /\ regroup_ok fl /\ pure_is_silent fl.

(* ---------- related programs and values ---------- *)

Inductive oprel (R : value -> value -> Prop) : option value -> option value -> Prop :=
| op_none : oprel R None None
| op_some v v' : R v v' -> oprel R (Some v) (Some v').

(* t is semantically the same as t' in every environment, with the same fuel (t' needs no more) *)
(* x occurs free in a (the reference semantics binds the parameters and the own name of a closure
   literal in its body, a let binds its name in the rest; constants are closed) *)
Fixpoint fv (x : name) (a : ast) {struct a} : bool :=
  match a with
  | AConst _ => false
  | AIdent y => str_eqb x y
  | ALet y v b => fv x v || (negb (str_eqb x y) && fv x b)
  | AIf c t e => fv x c || fv x t || fv x e
  | ASwitch v cases d =>
      fv x v || fv x d ||
      (fix go (l : list (ast * ast)) : bool :=
         match l with [] => false | c :: r => (fv x (fst c) || fv x (snd c)) || go r end) cases
  | ATry t c => fv x t || fv x c
  | AUnary _ y => fv x y
  | AOp _ y z => fv x y || fv x z
  | AClosure ps body _ _ this => negb (mem_name x (ps ++ this_names this)) && fv x body
  | AList l => (fix go (l : list ast) : bool := match l with [] => false | y :: r => fv x y || go r end) l
  | AIndex l i => fv x l || fv x i
  | AMap m => (fix go (m : list (name * ast)) : bool :=
                 match m with [] => false | e :: r => fv x (snd e) || go r end) m
  | AMember m _ => fv x m
  | ACall fn args =>
      fv x fn || (fix go (l : list ast) : bool := match l with [] => false | y :: r => fv x y || go r end) args
  | AStatic _ args =>
      (fix go (l : list ast) : bool := match l with [] => false | y :: r => fv x y || go r end) args
  | AMethod recv _ args =>
      fv x recv || (fix go (l : list ast) : bool := match l with [] => false | y :: r => fv x y || go r end) args
  end.

Definition closed (a : ast) : Prop := forall x, fv x a = false.

Section Seq.
Variable known : list (N * list name).
Definition seq (t t' : ast) : Prop :=
  forall n env, eval known n env t <> OOF -> eval known n env t' = eval known n env t.
End Seq.

Section Rel.
Variable known : list (N * list name).

(* arel s a t: t is an optimized form of a when the names in s are known to be the given constants.
   vrel v v': v' is the value the optimized program has where the unoptimized program has v. *)
Inductive arel : list (name * value) -> ast -> ast -> Prop :=
| ar_const s v v' : vrel v v' -> arel s (AConst v) (AConst v')
| ar_ident s x : lookup x s = None -> arel s (AIdent x) (AIdent x)
| ar_ident_const s x c : lookup x s = Some c -> arel s (AIdent x) (AConst c)
| ar_let s x v v' b b' :
    arel s v v' -> arel (sdrop [x] s) b b' -> arel s (ALet x v b) (ALet x v' b')
| ar_let_const s x v c b b' :
    arel s v (AConst c) -> arel ((x, c) :: s) b b' -> arel s (ALet x v b) b'
| ar_if s c c' t t' e e' :
    arel s c c' -> arel s t t' -> arel s e e' -> arel s (AIf c t e) (AIf c' t' e')
| ar_if_true s c t t' e : arel s c (AConst (VBool true)) -> arel s t t' -> arel s (AIf c t e) t'
| ar_if_false s c t e e' : arel s c (AConst (VBool false)) -> arel s e e' -> arel s (AIf c t e) e'
| ar_switch s v v' cases cases' d d' :
    arel s v v' ->
    Forall2 (fun c c' => arel s (fst c) (fst c') /\ arel s (snd c) (snd c')) cases cases' ->
    arel s d d' -> arel s (ASwitch v cases d) (ASwitch v' cases' d')
| ar_try s t t' c c' : arel s t t' -> arel s c c' -> arel s (ATry t c) (ATry t' c')
| ar_unary s op x x' : arel s x x' -> arel s (AUnary op x) (AUnary op x')
| ar_op s op x x' y y' : arel s x x' -> arel s y y' -> arel s (AOp op x y) (AOp op x' y')
| ar_regroup_l s op a b c1 c2 c x' :
    short_circuit op = false -> regroup_exact op ->
    arel s a (AOp op (AConst c1) x') -> arel s b (AConst c2) -> calc op c1 c2 = Ok c ->
    arel s (AOp op a b) (AOp op (AConst c) x')
| ar_regroup_r s op a b c1 c2 c x' :
    short_circuit op = false -> regroup_exact op ->
    arel s a (AOp op x' (AConst c1)) -> arel s b (AConst c2) -> calc op c1 c2 = Ok c ->
    arel s (AOp op a b) (AOp op x' (AConst c))
| ar_closure s ps b b' outer outer' r r' this :
    arel (sdrop (ps ++ this_names this) s) b b' ->
    arel s (AClosure ps b outer r this) (AClosure ps b' outer' r' this)
| ar_closure_fold s ps b b' outer r this :
    (* the closure-literal rule: the optimized body uses nothing but the parameters *)
    arel (sdrop (ps ++ this_names this) s) b b' ->
    (forall x, fv x b' = true -> mem_name x ps = true) ->
    arel s (AClosure ps b outer r this) (AConst (VClo ps b' [] []))
| ar_list s l l' : Forall2 (arel s) l l' -> arel s (AList l) (AList l')
| ar_index s l l' i i' : arel s l l' -> arel s i i' -> arel s (AIndex l i) (AIndex l' i')
| ar_map s m m' :
    Forall2 (fun e e' => fst e = fst e' /\ arel s (snd e) (snd e')) m m' -> arel s (AMap m) (AMap m')
| ar_member s m m' key : arel s m m' -> arel s (AMember m key) (AMember m' key)
| ar_call s fn fn' args args' :
    arel s fn fn' -> Forall2 (arel s) args args' -> arel s (ACall fn args) (ACall fn' args')
| ar_static s f args args' : Forall2 (arel s) args args' -> arel s (AStatic f args) (AStatic f args')
| ar_method s recv recv' mname args args' :
    arel s recv recv' -> Forall2 (arel s) args args' ->
    arel s (AMethod recv mname args) (AMethod recv' mname args')
| ar_step s a t t' :
    (* a closed redex replaced by a term with the same meaning, also in the trace semantics under
       every host oracle *)
    arel s a t -> closed t -> seq known t t' -> (forall host, tseq known host t t') -> arel s a t'
| ar_gstep s a t v :
    (* a closed redex replaced by the value that generated code computed for it at Generate time: the
       reference semantics gives a value that the C01 relation relates to it (the generator's closures
       capture only what they use) *)
    arel s a t -> closed t ->
    (exists k v1, (forall env, eval known k env t = Ok v1) /\ Sim.vrel v1 v) ->
    arel s a (AConst v)

with vrel : value -> value -> Prop :=
| vr_int z : vrel (VInt z) (VInt z)
| vr_float f : vrel (VFloat f) (VFloat f)
| vr_str s : vrel (VStr s) (VStr s)
| vr_bool b : vrel (VBool b) (VBool b)
| vr_err t : vrel (VErrText t) (VErrText t)
| vr_list l1 l2 : Forall2 vrel l1 l2 -> vrel (VList l1) (VList l2)
| vr_map m1 m2 :
    Forall2 (fun e1 e2 => fst e1 = fst e2 /\ vrel (snd e1) (snd e2)) m1 m2 ->
    vrel (VMap m1) (VMap m2)
| vr_clo s ps b b' env env' self self' :
    (* the body is an optimized form under constants the unoptimized closure has in its environment;
       the optimized closure knows its own name like the other one, or does not need it; the two
       environments agree on what the optimized body uses (the reference closure may capture more) *)
    arel (sdrop (ps ++ this_names self) s) b b' ->
    (forall x c, lookup x s = Some c -> exists v, lookup x env = Some v /\ vrel v c) ->
    (self' = self \/ (self' = [] /\ (mem_name self ps = true \/ fv self b' = false))) ->
    (forall x, fv x b' = true -> mem_name x (ps ++ this_names self) = false -> lookup x s = None ->
               oprel vrel (lookup x env) (lookup x env')) ->
    vrel (VClo ps b env self) (VClo ps b' env' self').

Definition erel (e1 e2 : str * value) : Prop := fst e1 = fst e2 /\ vrel (snd e1) (snd e2).

(* the environments of the two programs where s holds the known constants: related on the names in P
   (the names the optimized program uses) *)
Definition env_rel (s : list (name * value)) (P : name -> Prop) (env env' : list (name * value)) : Prop :=
  (forall x c, lookup x s = Some c -> exists v, lookup x env = Some v /\ vrel v c) /\
  (forall x, P x -> lookup x s = None -> oprel vrel (lookup x env) (lookup x env')).
Definition fvp (t : ast) : name -> Prop := fun x => fv x t = true.

Definition orel : res value -> res value -> Prop := rrel vrel.

Definition R : res value -> res value -> Prop := wrel vrel.
Definition Rl : res (list value) -> res (list value) -> Prop := wrel (Forall2 vrel).

End Rel.

(* every constant in the program is a first-order value (what the parser produces without an
   optimizer: number and string literals, true/false/pi) *)
Fixpoint consts_fo (a : ast) {struct a} : bool :=
  let all := fix go (l : list ast) : bool := match l with [] => true | x :: r => consts_fo x && go r end in
  match a with
  | AConst v => fo v
  | AIdent _ => true
  | ALet _ v b => consts_fo v && consts_fo b
  | AIf c t e => consts_fo c && consts_fo t && consts_fo e
  | ASwitch v cases d =>
      consts_fo v && consts_fo d &&
      (fix go (l : list (ast * ast)) : bool :=
         match l with [] => true | (cc, cr) :: r => consts_fo cc && consts_fo cr && go r end) cases
  | ATry t c => consts_fo t && consts_fo c
  | AUnary _ x => consts_fo x
  | AOp _ x y => consts_fo x && consts_fo y
  | AClosure _ body _ _ _ => consts_fo body
  | AList l => all l
  | AIndex l i => consts_fo l && consts_fo i
  | AMap m => (fix go (m : list (name * ast)) : bool :=
                 match m with [] => true | (_, x) :: r => consts_fo x && go r end) m
  | AMember m _ => consts_fo m
  | ACall fn args => consts_fo fn && all args
  | AStatic _ args => all args
  | AMethod recv _ args => consts_fo recv && all args
  end.

