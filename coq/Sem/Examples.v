(* Concrete programs used as non-vacuity examples of C01: for each, the surface tree T (no parser
   annotations; what Ref.eval is run on) and the AST A as the real parser builds it with the
   optimizer off (OuterIdents, Recursive, ThisName; what Gen.run is run on).  The terms were
   produced by the harness from the real parser (corpus cases 1, 3, 11, 12 of `p2h c01`). *)
From P2 Require Import Base.Prelude Sem.Num Sem.Syntax.
Local Open Scope N_scope.

Definition x_ : name := [120].

(* func f(a,b) a*100+b; f(x, let y=x+1; y)      - a let inside the 2nd argument of a call *)
Definition ex_let_in_arg_T : ast :=
  ALet [102] (AClosure [[97];[98]] (AOp [43] (AOp [42] (AIdent [97]) (AConst (VInt 100%Z))) (AIdent [98])) [] false [102])
    (ACall (AIdent [102]) [AIdent [120]; ALet [121] (AOp [43] (AIdent [120]) (AConst (VInt 1%Z))) (AIdent [121])]).
Definition ex_let_in_arg_A : ast := ex_let_in_arg_T.      (* nothing to annotate: no outer names, not recursive *)

(* let m={f:(a,b)->a*100+b}; m.f(x, let y=x+1; y)      - a closure stored in a map field *)
Definition ex_map_field_T : ast :=
  ALet [109] (AMap [([102], AClosure [[97];[98]] (AOp [43] (AOp [42] (AIdent [97]) (AConst (VInt 100%Z))) (AIdent [98])) [] false [])])
    (AMethod (AIdent [109]) [102] [AIdent [120]; ALet [121] (AOp [43] (AIdent [120]) (AConst (VInt 1%Z))) (AIdent [121])]).
Definition ex_map_field_A : ast := ex_map_field_T.

(* let p=x*2; (a->b->c->a+b+(c+p)+x)(1)(let q=x+1; q)(3)
   - three closure levels capturing an argument (x), a let (p) and outer captured values (a, b) *)
Definition ex_three_levels_body : ast :=
  AOp [43] (AOp [43] (AOp [43] (AIdent [97]) (AIdent [98])) (AOp [43] (AIdent [99]) (AIdent [112]))) (AIdent [120]).
Definition ex_three_levels_T : ast :=
  ALet [112] (AOp [42] (AIdent [120]) (AConst (VInt 2%Z)))
    (ACall (ACall (ACall
      (AClosure [[97]] (AClosure [[98]] (AClosure [[99]] ex_three_levels_body [] false []) [] false []) [] false [])
      [AConst (VInt 1%Z)])
      [ALet [113] (AOp [43] (AIdent [120]) (AConst (VInt 1%Z))) (AIdent [113])])
      [AConst (VInt 3%Z)]).
Definition ex_three_levels_A : ast :=
  ALet [112] (AOp [42] (AIdent [120]) (AConst (VInt 2%Z)))
    (ACall (ACall (ACall
      (AClosure [[97]] (AClosure [[98]] (AClosure [[99]] ex_three_levels_body
                                                     [[97];[98];[112];[120]] false [])
                                        [[97];[112];[120]] false [])
                       [[112];[120]] false [])
      [AConst (VInt 1%Z)])
      [ALet [113] (AOp [43] (AIdent [120]) (AConst (VInt 1%Z))) (AIdent [113])])
      [AConst (VInt 3%Z)]).

(* func fac(n) if n<=0 then 1 else n*fac(n-1); fac(x%6)      - a recursive func *)
Definition fac_ : name := [102;97;99].
Definition ex_fac_body : ast :=
  AIf (AOp [60;61] (AIdent [110]) (AConst (VInt 0%Z))) (AConst (VInt 1%Z))
      (AOp [42] (AIdent [110]) (ACall (AIdent fac_) [AOp [45] (AIdent [110]) (AConst (VInt 1%Z))])).
Definition ex_fac_T : ast :=
  ALet fac_ (AClosure [[110]] ex_fac_body [] false fac_) (ACall (AIdent fac_) [AOp [37] (AIdent [120]) (AConst (VInt 6%Z))]).
Definition ex_fac_A : ast :=
  ALet fac_ (AClosure [[110]] ex_fac_body [] true fac_) (ACall (AIdent fac_) [AOp [37] (AIdent [120]) (AConst (VInt 6%Z))]).
