(* The pinned commit's call-site discipline (Sem/Pinned.v) violates the statement of exec_sim. *)
From P2 Require Import Base.Prelude Sem.Num Sem.Syntax Sem.Ops Sem.Lib Sem.Ref Sem.Gen Sem.Sim
     Sem.Pinned Sem.RelProofs Sem.GenProofs.

Theorem exec_sim_pinned_refuted_lemma :
  exists a env am cm st offs size cs,
    frame_ok am cm st offs size cs env /\ wf am cm a /\
    eval [] 10 env a = Ok (VInt 6) /\
    fst (exec [] 10 am cm st offs size cs a) = Ok (VInt 6) /\
    fst (exec_pinned [] 10 am cm st offs size cs a) = Ok (VInt 5) /\
    ~ orel (eval [] 10 env a) (fst (exec_pinned [] 10 am cm st offs size cs a)).
Proof.
  exists pinned_witness, (combine [pin_x] [VInt 5]), (map Some [pin_x]), [], [VInt 5], 0, 1, [].
  split. { apply (frame_ok_init [pin_x] [VInt 5] [VInt 5]); auto. repeat constructor. }
  split. { apply wfb_sound. vm_compute. reflexivity. }
  split; [vm_compute; reflexivity|]. split; [vm_compute; reflexivity|].
  split; [vm_compute; reflexivity|].
  vm_compute. intros O. inversion O as [v1 v2 Hv| | | |]; subst. inversion Hv.
Qed.
