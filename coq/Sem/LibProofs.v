(* The built-in pool of Sem/Lib.v respects the value relation of the C01 simulation: static
   functions map related arguments to related results; methods with callbacks do so whenever the
   two ways of applying a closure (reference / generator) map related closures and arguments to
   related results (one logical-relation lemma per combinator). *)
From P2 Require Import Base.Prelude Base.PreludeProofs Sem.Num Sem.Syntax Sem.Ops Sem.Lib Sem.Ref Sem.Gen Sem.Sim Sem.RelProofs Sem.OpsProofs Sem.LibDataProofs Sem.StrLibProofs.
Require Import Lia.
Local Open Scope Z_scope.

(* finish a goal [orel X X'] whose two sides have the same head structure *)
Ltac fin :=
  cbn;
  repeat (first [ constructor
                | progress unfold ofl
                | match goal with |- context [match ?x with _ => _ end] => destruct x; cbn end ]).

Lemma vrel_list_ints l : Forall2 vrel (map (fun i => VInt (Z.of_nat i)) l) (map (fun i => VInt (Z.of_nat i)) l).
Proof. induction l; simpl; constructor; auto. constructor. Qed.

Lemma pick_min_rel m m' l l' : vrel m m' -> Forall2 vrel l l' -> orel (pick_min m l) (pick_min m' l').
Proof.
  intros Hm Hl; revert m m' Hm. induction Hl as [|v v' l l' Hv Hl IH]; intros m m' Hm; simpl.
  - constructor; auto.
  - rewrite (vless_rel _ _ _ _ Hv Hm). destruct (vless v' m') as [[|]| | | |]; auto; constructor.
Qed.

Lemma pick_max_rel m m' l l' : vrel m m' -> Forall2 vrel l l' -> orel (pick_max m l) (pick_max m' l').
Proof.
  intros Hm Hl; revert m m' Hm. induction Hl as [|v v' l l' Hv Hl IH]; intros m m' Hm; simpl.
  - constructor; auto.
  - rewrite (vless_rel _ _ _ _ Hm Hv). destruct (vless m' v') as [[|]| | | |]; auto; constructor.
Qed.

Ltac one_arg H :=
  let Hv := fresh "Hv" in let Hr := fresh "Hr" in
  destruct H as [|? ? ? ? Hv Hr]; [cbn; constructor|];
  destruct Hr; inv Hv; fin.

Ltac two_args H :=
  let Hv := fresh "Hv" in let Hr := fresh "Hr" in let Hw := fresh "Hw" in let Hr2 := fresh "Hr" in
  destruct H as [|? ? ? ? Hv Hr]; [cbn; constructor|];
  destruct Hr as [|? ? ? ? Hw Hr2]; [inv Hv; fin|];
  destruct Hr2; inv Hv; inv Hw; fin.

Theorem run_static_rel f args args' :
  Forall2 vrel args args' -> orel (run_static f args) (run_static f args').
Proof.
  intros H. unfold run_static.
  destruct (str_eqb f n_throw). { one_arg H. }
  destruct (str_eqb f n_string).
  { destruct H as [|v v' r r' Hv Hr]; [constructor|]. destruct Hr; [|constructor].
    rewrite (to_string_rel _ _ Hv). destruct (to_string v'); repeat constructor. }
  destruct (str_eqb f n_isFloat). { one_arg H. }
  destruct (str_eqb f n_isInt). { one_arg H. }
  destruct (str_eqb f n_float). { one_arg H. }
  destruct (str_eqb f n_int). { one_arg H. }
  destruct (str_eqb f n_abs). { one_arg H. }
  destruct (str_eqb f n_sign). { one_arg H. }
  destruct (str_eqb f n_sqr). { one_arg H. }
  destruct (str_eqb f n_binAnd). { two_args H. }
  destruct (str_eqb f n_binOr). { two_args H. }
  destruct (str_eqb f n_min). { destruct H; [constructor|]. apply pick_min_rel; auto. }
  destruct (str_eqb f n_max). { destruct H; [constructor|]. apply pick_max_rel; auto. }
  destruct (str_eqb f n_numbers).
  { destruct H as [|v v' r r' Hv Hr]; [constructor|]. destruct Hr; inv Hv; try (cbn; constructor; fail).
    cbn. destruct (z <? 0); [constructor|]. destruct (2000 <? z); [constructor|].
    constructor. constructor. apply vrel_list_ints. }
  constructor.
Qed.

(* ---------- methods ---------- *)

Lemma is_func_rel f f' n : vrel f f' -> is_func f n = is_func f' n.
Proof. intros H. inv H; reflexivity. Qed.

Lemma fold_calc_rel op acc acc' l l' :
  vrel acc acc' -> Forall2 vrel l l' -> orel (fold_calc op acc l) (fold_calc op acc' l').
Proof.
  intros Ha Hl; revert acc acc' Ha. induction Hl as [|x x' l l' Hx Hl IH]; intros acc acc' Ha; simpl.
  - constructor; auto.
  - eapply rrel_bind; [apply calc_rel; eauto|]. intros; apply IH; auto.
Qed.

Lemma all_avail_rel m m' keys keys' :
  Forall2 erel m m' -> Forall2 vrel keys keys' -> orel (all_avail m keys) (all_avail m' keys').
Proof.
  intros Hm Hk. induction Hk as [|k k' keys keys' Hk Hks IH]; simpl.
  - repeat constructor.
  - inv Hk; try constructor. destruct (assoc_v_rel s _ _ Hm); auto. repeat constructor.
Qed.

Lemma run_map_method_rel mname m m' args args' :
  Forall2 erel m m' -> Forall2 vrel args args' ->
  orel (run_map_method mname m args) (run_map_method mname m' args').
Proof.
  intros Hm H. unfold run_map_method.
  destruct (str_eqb mname n_size). { rewrite (Forall2_length' _ _ _ Hm). repeat constructor. }
  destruct (str_eqb mname n_get).
  { destruct H as [|v v' r r' Hv Hr]; [constructor|].
    destruct Hr; inv Hv; try (cbn; constructor; fail).
    cbn. destruct (assoc_v_rel s _ _ Hm); constructor; auto. }
  destruct (str_eqb mname n_put).
  { destruct H as [|v v' r r' Hv Hr]; [constructor|].
    destruct Hr as [|w w' r r' Hw Hr2]; [inv Hv; cbn; constructor|].
    destruct Hr2; inv Hv; try (cbn; constructor; fail).
    cbn. destruct (assoc_v_rel s _ _ Hm); constructor.
    constructor. constructor; [split; auto|exact Hm]. }
  destruct (str_eqb mname n_isAvail). { apply all_avail_rel; auto. }
  constructor.
Qed.


(* first-order string methods (Sem/StrLib.v): related arguments have the same first-order view and
   the result is a first-order value *)
Lemma sarg_of_rel v v' : vrel v v' -> sarg_of v = sarg_of v'.
Proof. intros H; inv H; reflexivity. Qed.

Lemma sargs_rel args args' : Forall2 vrel args args' -> map sarg_of args = map sarg_of args'.
Proof. induction 1 as [|v v' r r' Hv Hr IH]; cbn [map]; [reflexivity|]. rewrite (sarg_of_rel _ _ Hv), IH. reflexivity. Qed.

Lemma sres_val_rel r : vrel (sres_val r) (sres_val r).
Proof.
  destruct r as [s|z|b|l]; cbn [sres_val]; try constructor.
  induction l as [|x l IH]; cbn [map]; constructor; [constructor|exact IH].
Qed.

Lemma run_str_method_rel mname s args args' :
  Forall2 vrel args args' -> orel (run_str_method mname s args) (run_str_method mname s args').
Proof.
  intros H. rewrite (run_str_method_same _ _ _ _ (sargs_rel _ _ H)).
  destruct (run_str_method mname s args') eqn:E; try constructor.
  destruct (run_str_method_shape _ _ _ _ E) as [r ->]. apply sres_val_rel.
Qed.

Section WithApps.
Variable app1 app2 : value -> list value -> res value.
Hypothesis Happ : forall c c' vs vs',
  vrel c c' -> Forall2 vrel vs vs' -> orel (app1 c vs) (app2 c' vs').

Lemma map_app_rel f f' l l' :
  vrel f f' -> Forall2 vrel l l' -> rrel (Forall2 vrel) (map_app app1 f l) (map_app app2 f' l').
Proof.
  intros Hf Hl. induction Hl as [|x x' l l' Hx Hl IH]; simpl.
  - repeat constructor.
  - eapply rrel_bind; [apply Happ; auto|]. intros y y' Hy.
    eapply rrel_bind; [exact IH|]. intros ys ys' Hys. repeat constructor; auto.
Qed.

Lemma accept_app_rel f f' l l' :
  vrel f f' -> Forall2 vrel l l' -> rrel (Forall2 vrel) (accept_app app1 f l) (accept_app app2 f' l').
Proof.
  intros Hf Hl. induction Hl as [|x x' l l' Hx Hl IH]; simpl.
  - repeat constructor.
  - eapply rrel_bind; [apply Happ; auto|]. intros y y' Hy.
    inv Hy; try constructor.
    eapply rrel_bind; [exact IH|]. intros ys ys' Hys. constructor. destruct b; auto.
Qed.

Lemma fold_app_rel f f' acc acc' l l' :
  vrel f f' -> vrel acc acc' -> Forall2 vrel l l' ->
  orel (fold_app app1 f acc l) (fold_app app2 f' acc' l').
Proof.
  intros Hf Ha Hl; revert acc acc' Ha. induction Hl as [|x x' l l' Hx Hl IH]; intros acc acc' Ha; simpl.
  - constructor; auto.
  - eapply rrel_bind; [apply Happ; auto|]. intros; apply IH; auto.
Qed.

Lemma index_where_rel f f' l l' i :
  vrel f f' -> Forall2 vrel l l' -> rrel eq (index_where app1 f l i) (index_where app2 f' l' i).
Proof.
  intros Hf Hl; revert i. induction Hl as [|x x' l l' Hx Hl IH]; intros i; simpl.
  - repeat constructor.
  - eapply rrel_bind; [apply Happ; auto|]. intros y y' Hy.
    inv Hy; try constructor. destruct b; [constructor; auto|apply IH].
Qed.

Lemma mapargs_app_rel f f' a a' :
  vrel f f' -> Forall2 (Forall2 vrel) a a' ->
  rrel (Forall2 vrel) (mapargs_app app1 f a) (mapargs_app app2 f' a').
Proof.
  intros Hf Ha. induction Ha as [|x x' a a' Hx Ha IH]; cbn [mapargs_app].
  - repeat constructor.
  - eapply rrel_bind; [apply Happ; auto|]. intros y y' Hy.
    eapply rrel_bind; [exact IH|]. intros ys ys' Hys. repeat constructor; auto.
Qed.

Lemma compact_app_rel f f' l l' :
  vrel f f' -> Forall2 vrel l l' -> forall last last', vrel last last' ->
  rrel (Forall2 vrel) (compact_app app1 f last l) (compact_app app2 f' last' l').
Proof.
  intros Hf Hl. induction Hl as [|x x' l l' Hx Hl IH]; intros last last' Hlast; cbn [compact_app].
  - repeat constructor.
  - eapply rrel_bind; [apply Happ; auto|]. intros y y' Hy.
    inv Hy; try constructor. destruct b; [apply IH; auto|].
    eapply rrel_bind; [apply IH; auto|]. intros ys ys' Hys. repeat constructor; auto.
Qed.

Lemma scan_app_rel three f f' l l' :
  vrel f f' -> Forall2 vrel l l' -> forall li li' la la', vrel li li' -> vrel la la' ->
  rrel (Forall2 vrel) (scan_app app1 three f li la l) (scan_app app2 three f' li' la' l').
Proof.
  intros Hf Hl. induction Hl as [|x x' l l' Hx Hl IH]; intros li li' la la' Hli Hla; cbn [scan_app].
  - repeat constructor.
  - eapply rrel_bind; [apply Happ; auto; destruct three; repeat constructor; auto|]. intros o o' Ho.
    eapply rrel_bind; [apply IH; auto|]. intros ys ys' Hys. repeat constructor; auto.
Qed.

Lemma iir_app_rel three ini ini' f f' l l' :
  vrel ini ini' -> vrel f f' -> Forall2 vrel l l' ->
  rrel (Forall2 vrel) (iir_app app1 three ini f l) (iir_app app2 three ini' f' l').
Proof.
  intros Hi Hf Hl. destruct Hl as [|x x' l l' Hx Hl]; cbn [iir_app].
  - repeat constructor.
  - eapply rrel_bind; [apply Happ; auto|]. intros o o' Ho.
    eapply rrel_bind; [apply scan_app_rel; auto|]. intros ys ys' Hys. repeat constructor; auto.
Qed.

Lemma merge_app_rel f f' l1 l1' :
  vrel f f' -> Forall2 vrel l1 l1' -> forall l2 l2', Forall2 vrel l2 l2' ->
  rrel (Forall2 vrel) (merge_app app1 f l1 l2) (merge_app app2 f' l1' l2').
Proof.
  intros Hf H1. induction H1 as [|a a' l1 l1' Ha H1 IH1]; intros l2 l2' H2.
  - destruct H2; cbn [merge_app]; repeat constructor; auto.
  - induction H2 as [|b b' l2 l2' Hb H2 IH2]; cbn [merge_app].
    + repeat constructor; auto.
    + eapply rrel_bind; [apply Happ; auto|]. intros y y' Hy.
      inv Hy; try constructor. destruct b0.
      * eapply rrel_bind; [apply IH1; auto|]. intros ys ys' Hys. repeat constructor; auto.
      * eapply rrel_bind; [exact IH2|]. intros ys ys' Hys. repeat constructor; auto.
Qed.

Lemma minmax_map_rel mn mn' mx mx' mni mni' mxi mxi' b :
  vrel mn mn' -> vrel mx mx' -> vrel mni mni' -> vrel mxi mxi' ->
  vrel (minmax_map mn mx mni mxi b) (minmax_map mn' mx' mni' mxi' b).
Proof.
  intros. unfold minmax_map. apply vr_map.
  repeat (apply Forall2_cons; [split; cbn; auto; apply vr_bool|]). apply Forall2_nil.
Qed.

Lemma minmax_app_rel f f' l l' :
  vrel f f' -> Forall2 vrel l l' ->
  forall mn mn' mx mx' mni mni' mxi mxi',
  vrel mn mn' -> vrel mx mx' -> vrel mni mni' -> vrel mxi mxi' ->
  orel (minmax_app app1 f mn mx mni mxi l) (minmax_app app2 f' mn' mx' mni' mxi' l').
Proof.
  intros Hf Hl. induction Hl as [|x x' l l' Hx Hl IH]; intros mn mn' mx mx' mni mni' mxi mxi' H1 H2 H3 H4;
    cbn [minmax_app].
  - constructor. apply minmax_map_rel; auto.
  - eapply rrel_bind; [apply Happ; auto|]. intros k k' Hk.
    rewrite (vless_rel _ _ _ _ Hk H1), (vless_rel _ _ _ _ H2 Hk).
    destruct (vless k' mn') as [le| | | |]; cbn [bind]; try constructor.
    destruct (vless mx' k') as [gr| | | |]; cbn [bind]; try constructor.
    apply IH; [destruct le|destruct gr|destruct le|destruct gr]; auto.
Qed.

Ltac callback H Hl :=
  let Hv := fresh "Hv" in let Hr := fresh "Hr" in
  destruct H as [|? ? ? ? Hv Hr]; [constructor|];
  destruct Hr; [|constructor];
  rewrite (is_func_rel _ _ _ Hv);
  match goal with |- context [is_func ?f ?n] => destruct (is_func f n); [|constructor] end.

Lemma run_list_method_rel mname l l' args args' :
  Forall2 vrel l l' -> Forall2 vrel args args' ->
  orel (run_list_method app1 mname l args) (run_list_method app2 mname l' args').
Proof.
  intros Hl H. unfold run_list_method.
  destruct (str_eqb mname n_size). { rewrite (Forall2_length' _ _ _ Hl). repeat constructor. }
  destruct (str_eqb mname n_first). { destruct Hl; constructor; auto. }
  destruct (str_eqb mname n_last).
  { destruct (Forall2_rev' _ _ _ Hl); constructor; auto. }
  destruct (str_eqb mname n_map).
  { callback H Hl. eapply rrel_bind; [apply map_app_rel; auto|].
    intros; repeat constructor; auto. }
  destruct (str_eqb mname n_accept).
  { callback H Hl. eapply rrel_bind; [apply accept_app_rel; auto|].
    intros; repeat constructor; auto. }
  destruct (str_eqb mname n_reduce).
  { callback H Hl. destruct Hl; [constructor|]. apply fold_app_rel; auto. }
  destruct (str_eqb mname n_mapReduce).
  { destruct H as [|v v' r r' Hv Hr]; [constructor|].
    destruct Hr as [|w w' r r' Hw Hr2]; [constructor|].
    destruct Hr2; [|constructor].
    rewrite (is_func_rel _ _ _ Hw). destruct (is_func w' 2); [|constructor].
    apply fold_app_rel; auto. }
  destruct (str_eqb mname n_sum). { destruct Hl; [constructor|]. apply fold_calc_rel; auto. }
  destruct (str_eqb mname n_top).
  { destruct H as [|v v' r r' Hv Hr]; [constructor|].
    destruct Hr; inv Hv; try (cbn; constructor; fail).
    constructor. constructor. destruct (z <? 0); auto.
    rewrite <- (Forall2_length' _ _ _ Hl). apply Forall2_firstn; auto. }
  destruct (str_eqb mname n_skip).
  { destruct H as [|v v' r r' Hv Hr]; [constructor|].
    destruct Hr; inv Hv; try (cbn; constructor; fail).
    constructor. constructor. destruct (z <? 0); auto.
    rewrite <- (Forall2_length' _ _ _ Hl). apply Forall2_skipn; auto. }
  destruct (str_eqb mname n_append).
  { destruct H as [|v v' r r' Hv Hr]; [constructor|]. destruct Hr; [|constructor].
    constructor. constructor. apply Forall2_app'; auto. }
  destruct (str_eqb mname n_reverse). { constructor. constructor. apply Forall2_rev'; auto. }
  destruct (str_eqb mname n_indexWhere).
  { callback H Hl. eapply rrel_bind; [apply index_where_rel; auto|].
    intros ? ? ->. repeat constructor. }
  destruct (str_eqb mname n_present).
  { callback H Hl. eapply rrel_bind; [apply index_where_rel; auto|].
    intros ? ? ->. repeat constructor. }
  destruct (str_eqb mname n_single).
  { destruct Hl as [|e e' l l' Hx Hl]; [constructor|]. destruct Hl; constructor; auto. }
  destruct (str_eqb mname n_min). { destruct Hl; [constructor|]. apply pick_min_rel; auto. }
  destruct (str_eqb mname n_max). { destruct Hl; [constructor|]. apply pick_max_rel; auto. }
  destruct (str_eqb mname n_mean).
  { rewrite (Forall2_length' _ _ _ Hl). destruct Hl; [constructor|].
    eapply rrel_bind; [apply fold_calc_rel; auto|]. intros s s' Hs. apply calc_rel; auto. constructor. }
  destruct (str_eqb mname n_minMax).
  { callback H Hl. destruct Hl as [|e e' l l' Hx Hl].
    - constructor. apply minmax_map_rel; constructor.
    - eapply rrel_bind; [apply Happ; auto|]. intros k k' Hk. apply minmax_app_rel; auto. }
  destruct (str_eqb mname n_number).
  { callback H Hl. eapply rrel_bind; [apply mapargs_app_rel; auto; apply number_args_rel; auto; constructor|].
    intros; repeat constructor; auto. }
  destruct (str_eqb mname n_compact).
  { callback H Hl. destruct Hl as [|e e' l l' Hx Hl]; [repeat constructor|].
    eapply rrel_bind; [apply compact_app_rel; auto|]. intros; repeat constructor; auto. }
  destruct (str_eqb mname n_combine).
  { callback H Hl. eapply rrel_bind; [apply mapargs_app_rel; auto|intros; repeat constructor; auto].
    destruct Hl; [constructor|]. apply pair_args_rel; auto. }
  destruct (str_eqb mname n_combine3).
  { callback H Hl. eapply rrel_bind; [apply mapargs_app_rel; auto|intros; repeat constructor; auto].
    destruct Hl as [|e e' l l' Hx Hl]; [constructor|]. destruct Hl; [constructor|].
    apply triple_args_rel; auto. }
  destruct (str_eqb mname n_combineN).
  { destruct H as [|v v' r r' Hv Hr]; [constructor|].
    destruct Hr as [|w w' r r' Hw Hr2]; [inv Hv; constructor|].
    destruct Hr2; inv Hv; try (cbn; constructor; fail).
    destruct (z <? 1); [constructor|].
    rewrite (is_func_rel _ _ _ Hw). destruct (is_func w' 1); [|constructor].
    destruct (100000 <? z); [constructor|].
    eapply rrel_bind; [apply mapargs_app_rel; auto|intros; repeat constructor; auto].
    apply windows_rel; auto. intros; constructor; auto. }
  destruct (str_eqb mname n_iir).
  { destruct H as [|v v' r r' Hv Hr]; [constructor|].
    destruct Hr as [|w w' r r' Hw Hr2]; [constructor|].
    destruct Hr2; [|constructor].
    rewrite (is_func_rel _ _ _ Hv). destruct (is_func v' 1); [|constructor].
    rewrite (is_func_rel _ _ _ Hw). destruct (is_func w' 2); [|constructor].
    eapply rrel_bind; [apply iir_app_rel; auto|intros; repeat constructor; auto]. }
  destruct (str_eqb mname n_iirCombine).
  { destruct H as [|v v' r r' Hv Hr]; [constructor|].
    destruct Hr as [|w w' r r' Hw Hr2]; [constructor|].
    destruct Hr2; [|constructor].
    rewrite (is_func_rel _ _ _ Hv). destruct (is_func v' 1); [|constructor].
    rewrite (is_func_rel _ _ _ Hw). destruct (is_func w' 3); [|constructor].
    eapply rrel_bind; [apply iir_app_rel; auto|intros; repeat constructor; auto]. }
  destruct (str_eqb mname n_cross).
  { destruct H as [|v v' r r' Hv Hr]; [constructor|].
    destruct Hr as [|w w' r r' Hw Hr2]; [constructor|].
    destruct Hr2; [|constructor].
    rewrite (is_func_rel _ _ _ Hw). destruct (is_func w' 2); [|constructor].
    inv Hv; try constructor.
    eapply rrel_bind; [apply mapargs_app_rel; auto|intros; repeat constructor; auto].
    apply cross_args_rel; auto. }
  destruct (str_eqb mname n_merge).
  { destruct H as [|v v' r r' Hv Hr]; [constructor|].
    destruct Hr as [|w w' r r' Hw Hr2]; [constructor|].
    destruct Hr2; [|constructor].
    rewrite (is_func_rel _ _ _ Hw). destruct (is_func w' 2); [|constructor].
    inv Hv; try constructor.
    eapply rrel_bind; [apply merge_app_rel; auto|intros; repeat constructor; auto]. }
  destruct (str_eqb mname n_visit).
  { destruct H as [|v v' r r' Hv Hr]; [constructor|].
    destruct Hr as [|w w' r r' Hw Hr2]; [constructor|].
    destruct Hr2; [|constructor].
    rewrite (is_func_rel _ _ _ Hw). destruct (is_func w' 2); [|constructor].
    apply fold_app_rel; auto. }
  destruct (str_eqb mname n_eval). { constructor. constructor. exact Hl. }
  destruct (str_eqb mname n_set).
  { destruct H as [|v v' r r' Hv Hr]; [constructor|].
    destruct Hr as [|w w' r r' Hw Hr2]; [inv Hv; constructor|].
    destruct Hr2; inv Hv; try (cbn; constructor; fail).
    rewrite <- (Forall2_length' _ _ _ Hl).
    destruct ((z <? 0) || (Z.of_nat (length l) <=? z)); constructor. constructor.
    apply Forall2_app'; [apply Forall2_firstn; auto|]. constructor; [auto|apply Forall2_skipn; auto]. }
  constructor.
Qed.

Theorem run_method_rel rv rv' mname args args' :
  vrel rv rv' -> Forall2 vrel args args' ->
  orel (run_method app1 rv mname args) (run_method app2 rv' mname args').
Proof.
  intros Hr H. inv Hr; cbn [run_method].
  - destruct (str_eqb mname n_string); [|constructor]. cbn. repeat constructor.
  - destruct (str_eqb mname n_string); [|constructor]. cbn.
    destruct (fl_to_str f); repeat constructor.
  - destruct (str_eqb mname n_len); [repeat constructor|].
    destruct (str_eqb mname n_string); [repeat constructor|].
    apply run_str_method_rel; auto.
  - destruct (str_eqb mname n_string); [|constructor]. cbn. destruct b; repeat constructor.
  - constructor.
  - apply run_list_method_rel; auto.
  - apply run_map_method_rel; auto.
  - destruct (str_eqb mname n_args); repeat constructor.
Qed.

End WithApps.

Lemma method_arity_rel rv rv' mname : vrel rv rv' -> method_arity rv mname = method_arity rv' mname.
Proof. intros H. inv H; reflexivity. Qed.

Lemma method_exists_rel rv rv' mname known :
  vrel rv rv' -> method_exists rv mname known = method_exists rv' mname known.
Proof. intros H. inv H; reflexivity. Qed.

Inductive field_rel : option (value * nat) -> option (value * nat) -> Prop :=
| fr_none : field_rel None None
| fr_some ps b c1 c2 s1 s2 :
    vrel (VClo ps b c1 s1) (VClo ps b c2 s2) ->
    field_rel (Some (VClo ps b c1 s1, length ps)) (Some (VClo ps b c2 s2, length ps)).

Lemma field_of_rel rv rv' mname : vrel rv rv' -> field_rel (field_of rv mname) (field_of rv' mname).
Proof.
  intros H. inv H; cbn [field_of]; try constructor.
  destruct (assoc_v_rel mname _ _ H0) as [|v v' Hv]; [constructor|].
  inversion Hv; subst; try constructor. exact Hv.
Qed.
