(* The flags of value.New() and the obligations of OptRel.flags_ok; witnesses that the flags of the
   pinned commit (=, &, | commutative) and the regrouping of * across int and float break the
   regrouping law; the purity result of GenerateFunc excludes calls of impure static functions. *)
From P2 Require Import Base.Prelude Base.PreludeProofs Sem.Num Sem.Syntax Sem.Ops Sem.Lib Sem.Ref Sem.Gen Sem.Sim Sem.RelProofs Sem.Opt Sem.OptRel Sem.OptRelProofs.
Require Import Lia.
Local Open Scope Z_scope.

(* ---------- folding agrees with the generated code ---------- *)

Lemma fold_agrees_any : forall op a b v, calc op a b = Ok v -> rt op a b = Ok v.
Proof.
  intros op a b v H. unfold rt.
  destruct (str_eqb op op_and) eqn:Ea.
  { apply str_eqb_true in Ea. subst op.
    destruct a; auto; destruct b0; auto; destruct b; try discriminate; exact H. }
  destruct (str_eqb op op_or) eqn:Eo.
  { apply str_eqb_true in Eo. subst op.
    destruct a; auto; destruct b0; auto; destruct b; try discriminate; exact H. }
  exact H.
Qed.

Theorem fold_agrees_all : forall fl, fold_agrees fl.
Proof. intros fl op comm a b v _ H. apply fold_agrees_any. exact H. Qed.

(* ---------- flags without regrouping ---------- *)

Lemma assoc_no_comm (l : list (name * (bool * bool))) op p :
  assoc op (map (fun e => (fst e, (fst (snd e), false))) l) = Some (p, true) -> False.
Proof.
  induction l as [|[k [a b]] l IH]; simpl; [discriminate|].
  destruct (str_eqb op k); [intros H; inv H|auto].
Qed.

Theorem regroup_exact_no_regroup : forall fl, regroup_exact_ok (no_regroup fl).
Proof. intros fl op pure H. exfalso. unfold op_flags, no_regroup in H. simpl in H. eapply assoc_no_comm; eauto. Qed.

Theorem regroup_ok_no_regroup : forall fl, regroup_ok (no_regroup fl).
Proof. intros fl op pure H. exfalso. unfold op_flags, no_regroup in H. simpl in H. eapply assoc_no_comm; eauto. Qed.

(* ---------- the regrouping law: witnesses against it ---------- *)

(* (x = 1) = 1 at x = true: (true = 1) fails, true = (1 = 1) is true *)
Theorem regroup_unsound_for_eq_refuted : ~ regroup_law op_eq.
Proof.
  intros H. destruct (H (VInt 1) (VInt 1) (VBool true) (VBool true) eq_refl) as [_ H2].
  vm_compute in H2. destruct H2 as [H2|[H2|H2]]; discriminate.
Qed.

(* (false | x) | true at x = 5: false | 5 fails, (false | true) | 5 = true | 5 short-circuits to true *)
Theorem regroup_unsound_for_or_refuted : ~ regroup_law op_or.
Proof.
  intros H. destruct (H (VBool false) (VBool true) (VBool true) (VInt 5) eq_refl) as [H1 _].
  vm_compute in H1. destruct H1 as [H1|[H1|H1]]; discriminate.
Qed.

Theorem regroup_unsound_for_and_refuted : ~ regroup_law op_and.
Proof.
  intros H. destruct (H (VBool true) (VBool false) (VBool false) (VInt 5) eq_refl) as [H1 _].
  vm_compute in H1. destruct H1 as [H1|[H1|H1]]; discriminate.
Qed.

(* mutations of the operator table: flagging + or - commutative breaks the law as well
   ("a" + x) + "b" at x = "c": "acb" vs "abc";   (x - 1) - 2 at x = 0: -3 vs 0 - (1 - 2) = 1 *)
Theorem regroup_unsound_for_add_refuted : ~ regroup_law op_add.
Proof.
  intros H. destruct (H (VStr [97%N]) (VStr [98%N]) (VStr [97; 98]%N) (VStr [99%N]) eq_refl) as [H1 _].
  vm_compute in H1. destruct H1 as [H1|[H1|H1]]; discriminate.
Qed.

Theorem regroup_unsound_for_sub_refuted : ~ regroup_law op_sub.
Proof.
  intros H. destruct (H (VInt 1) (VInt 2) (VInt (-1)) (VInt 0) eq_refl) as [_ H2].
  vm_compute in H2. destruct H2 as [H2|[H2|H2]]; discriminate.
Qed.

Theorem regroup_ok_pinned_refuted : ~ regroup_ok pinned_flags.
Proof.
  intros H. destruct (H op_eq true eq_refl) as [_ L]. exact (regroup_unsound_for_eq_refuted L).
Qed.

(* * across int and float with int64 wrap-around: (2 * x) * 0.5 at x = 2^62:
   2 * 2^62 wraps to -2^63, times 0.5 = -2^62; (2 * 0.5) * 2^62 = +2^62.  FINDING on the real code. *)
Definition half : fl := FFin 1 (-1).
Theorem regroup_mul_mixed_refuted : ~ regroup_law op_mul.
Proof.
  intros H. destruct (H (VInt 2) (VFloat half) (VFloat (FFin 1 0)) (VInt 4611686018427387904) eq_refl) as [H1 _].
  vm_compute in H1. destruct H1 as [H1|[H1|H1]]; discriminate.
Qed.

(* why the commutative flag of * was removed from value.New() *)
Theorem regroup_ok_mul_commutative_refuted : ~ regroup_ok value_flags_mul_commutative.
Proof.
  intros H. destruct (H op_mul true eq_refl) as [_ L]. exact (regroup_mul_mixed_refuted L).
Qed.

(* ---------- the flags of value.New() now ---------- *)

Lemma assoc_all_noncomm (l : list name) op p :
  assoc op (map (fun o => (o, (true, false))) l) = Some (p, true) -> False.
Proof.
  induction l as [|k l IH]; simpl; [discriminate|].
  destruct (str_eqb op k); [intros H; inv H|auto].
Qed.

Theorem regroup_ok_value : regroup_ok value_flags.
Proof. intros op pure H. exfalso. unfold op_flags in H. cbn [value_flags f_ops value_ops] in H. eapply assoc_all_noncomm; eauto. Qed.

Theorem regroup_exact_ok_value : regroup_exact_ok value_flags.
Proof. intros op pure H. exfalso. unfold op_flags in H. cbn [value_flags f_ops value_ops] in H. eapply assoc_all_noncomm; eauto. Qed.

Theorem regroup_exact_ok_strict fl : regroup_exact_ok fl -> regroup_exact_ok (strict fl).
Proof. intros H op pure E. apply (H op pure). exact E. Qed.

(* only throw fails with a thrown text *)
Lemma vless_no_throw a b t : vless a b <> Err (Some t).
Proof.
  destruct a, b; cbn; try discriminate;
    repeat match goal with |- context [match ?x with _ => _ end] => destruct x end; discriminate.
Qed.

Lemma pick_min_no_throw l : forall m t, pick_min m l <> Err (Some t).
Proof.
  induction l as [|v l IH]; intros m t; cbn [pick_min]; [discriminate|].
  pose proof (vless_no_throw v m t). destruct (vless v m) as [[|]| | | |]; auto; try discriminate. congruence.
Qed.

Lemma pick_max_no_throw l : forall m t, pick_max m l <> Err (Some t).
Proof.
  induction l as [|v l IH]; intros m t; cbn [pick_max]; [discriminate|].
  pose proof (vless_no_throw m v t). destruct (vless m v) as [[|]| | | |]; auto; try discriminate. congruence.
Qed.

Lemma run_static_throws f args t : run_static f args = Err (Some t) -> str_eqb f n_throw = true.
Proof.
  unfold run_static. destruct (str_eqb f n_throw); [reflexivity|]. intros H. exfalso. revert H.
  repeat match goal with
         | |- context [if str_eqb f ?n then _ else _] => destruct (str_eqb f n)
         end;
  try (destruct args as [|a1 [|a2 [|a3 rest]]]; try discriminate;
       try (apply pick_min_no_throw); try (apply pick_max_no_throw);
       repeat match goal with
              | |- context [match ?x with _ => _ end] => destruct x; cbn [bind ofl to_string]; try discriminate
              end; fail).
  - destruct args as [|v [|? ?]]; try discriminate. destruct v; cbn [to_string bind]; try discriminate.
    + destruct (fl_to_str f0); discriminate.
    + destruct b; discriminate.
  - destruct args as [|v [|? ?]]; try discriminate; destruct v; try discriminate.
    unfold ofl. destruct (fl_mul f0 f0); discriminate.
Qed.

Theorem pure_is_silent_value : pure_is_silent value_flags.
Proof.
  intros f args t P H. apply run_static_throws in H. apply str_eqb_true in H. subst f.
  vm_compute in P. discriminate.
Qed.

Theorem flags_ok_value : flags_ok value_flags.
Proof. split; [apply fold_agrees_all|]. split; [apply regroup_ok_value|apply pure_is_silent_value]. Qed.

(* ---------- * on integers: wrap64 multiplication is associative and commutative ---------- *)

Lemma wrap64_mod z : exists q, wrap64 z = z + q * two64.
Proof.
  unfold wrap64. exists (- ((z + two63) / two64)).
  pose proof (Z.div_mod (z + two63) two64). unfold two64 in *. lia.
Qed.

Lemma wrap64_shift z q : wrap64 (z + q * two64) = wrap64 z.
Proof. unfold wrap64. replace (z + q * two64 + two63) with (z + two63 + q * two64) by lia. rewrite Z.mod_add; [reflexivity|unfold two64; lia]. Qed.

Lemma wrap64_mul_l a b : wrap64 (wrap64 a * b) = wrap64 (a * b).
Proof.
  destruct (wrap64_mod a) as [q ->]. replace ((a + q * two64) * b) with (a * b + (q * b) * two64) by lia.
  apply wrap64_shift.
Qed.

(* the partial result for the operator that IS flagged commutative: on three integers both
   groupings give the same value (exactly, also when the products wrap) *)
Theorem regroup_mul_partial_int : forall c1 c2 x c,
  calc op_mul (VInt c1) (VInt c2) = Ok c ->
  calc op_mul c (VInt x) = bind (calc op_mul (VInt c1) (VInt x)) (fun r => calc op_mul r (VInt c2)) /\
  calc op_mul (VInt x) c = bind (calc op_mul (VInt x) (VInt c1)) (fun r => calc op_mul r (VInt c2)).
Proof.
  intros c1 c2 x c H. change (calc op_mul (VInt c1) (VInt c2)) with (Ok (VInt (wrap64 (c1 * c2)))) in H. inv H.
  change (calc op_mul (VInt ?a) (VInt ?b)) with (Ok (VInt (wrap64 (a * b)))).
  split.
  - change (Ok (VInt (wrap64 (wrap64 (c1 * c2) * x))) = Ok (VInt (wrap64 (wrap64 (c1 * x) * c2)))).
    rewrite !wrap64_mul_l. do 2 f_equal. f_equal. lia.
  - change (Ok (VInt (wrap64 (x * wrap64 (c1 * c2)))) = Ok (VInt (wrap64 (wrap64 (x * c1) * c2)))).
    rewrite (Z.mul_comm x (wrap64 _)). rewrite !wrap64_mul_l. do 2 f_equal. f_equal. lia.
Qed.

(* ---------- purity ---------- *)

(* does the program contain a call of a static function that is not flagged pure?  (constants are
   not inspected: a constant closure was checked when it was folded) *)
Fixpoint calls_impure (fl : cfgflags) (a : ast) {struct a} : bool :=
  let any := fix go (l : list ast) : bool := match l with [] => false | x :: r => calls_impure fl x || go r end in
  match a with
  | AConst _ | AIdent _ => false
  | ALet _ v b => calls_impure fl v || calls_impure fl b
  | AIf c t e => calls_impure fl c || calls_impure fl t || calls_impure fl e
  | ASwitch v cases d =>
      calls_impure fl v || calls_impure fl d ||
      (fix go (l : list (ast * ast)) : bool :=
         match l with [] => false | (cc, cr) :: r => calls_impure fl cc || calls_impure fl cr || go r end) cases
  | ATry t c => calls_impure fl t || calls_impure fl c
  | AUnary _ x => calls_impure fl x
  | AOp _ x y => calls_impure fl x || calls_impure fl y
  | AClosure _ body _ _ _ => calls_impure fl body
  | AList l => any l
  | AIndex l i => calls_impure fl i || calls_impure fl l
  | AMap m => (fix go (m : list (name * ast)) : bool :=
                 match m with [] => false | (_, x) :: r => calls_impure fl x || go r end) m
  | AMember m _ => calls_impure fl m
  | ACall fn args => calls_impure fl fn || any args
  | AStatic f args => negb (static_pure fl f) || any args
  | AMethod recv _ args => calls_impure fl recv || any args
  end.

Theorem gen_pure_no_impure_call : forall fl a, gen_pure fl a = true -> calls_impure fl a = false.
Proof.
  intros fl. induction a using ast_ind2; cbn [gen_pure calls_impure]; intros G; auto;
    repeat match goal with
           | H : _ && _ = true |- _ => apply andb_true_iff in H; destruct H
           end;
    repeat match goal with
           | IH : gen_pure fl ?x = true -> _, G : gen_pure fl ?x = true |- _ => rewrite (IH G); clear IH
           end; cbn [orb]; auto.
  - (* switch *) revert H1. clear H0 H2. induction H as [|[cc cr] cases [Hc1 Hc2] Hc IH]; auto.
    intros G. apply andb_true_iff in G. destruct G as [G G3]. apply andb_true_iff in G. destruct G as [G1 G2].
    cbn [fst snd] in *. rewrite (Hc1 G1), (Hc2 G2), (IH G3). reflexivity.
  - (* list *) revert G. induction H as [|x l Hx Hl IH]; auto.
    intros G. apply andb_true_iff in G. destruct G as [G1 G2]. rewrite (Hx G1), (IH G2). reflexivity.
  - (* map *) revert G. induction H as [|[k x] m Hx Hm IH]; auto.
    intros G. apply andb_true_iff in G. destruct G as [G1 G2]. cbn [snd] in *. rewrite (Hx G1), (IH G2). reflexivity.
  - (* call *) revert H1. clear H0. induction H as [|x l Hx Hl IH]; auto.
    intros G. apply andb_true_iff in G. destruct G as [G1 G2]. rewrite (Hx G1), (IH G2). reflexivity.
  - (* static *) rewrite H0. cbn [negb orb]. revert H1. clear H0. induction H as [|x l Hx Hl IH]; auto.
    intros G. apply andb_true_iff in G. destruct G as [G1 G2]. rewrite (Hx G1), (IH G2). reflexivity.
  - (* method *) revert H1. clear H0. induction H as [|x l Hx Hl IH]; auto.
    intros G. apply andb_true_iff in G. destruct G as [G1 G2]. rewrite (Hx G1), (IH G2). reflexivity.
Qed.

(* what the optimizer runs at Generate time: a closure constant only if its body has the purity
   result (and hence contains no call of an impure static function), a static function only if it is
   flagged pure, a method only if it is flagged pure *)
Theorem closure_run_at_generate_is_pure : forall fl c,
  clo_value_pure fl c = true ->
  exists ps body, c = VClo ps body [] [] /\ gen_pure fl body = true /\ calls_impure fl body = false.
Proof.
  intros fl c H. destruct c; try discriminate. destruct cap; [|discriminate]. destruct self; [|discriminate].
  simpl in H. unfold clo_const_ok in H. apply andb_true_iff in H. destruct H as [_ H].
  exists ps, body. repeat split; auto. apply gen_pure_no_impure_call; auto.
Qed.

Theorem static_run_at_generate_is_pure : forall fl f args,
  rule_static fl f args <> AStatic f args -> static_pure fl f = true.
Proof. intros fl f args H. unfold rule_static in H. destruct (static_pure fl f); auto. Qed.

Theorem closure_folded_is_pure : forall fl ps body outer r this v,
  rule_closure fl ps body outer r this = AConst v ->
  v = VClo ps body [] [] /\ gen_pure fl body = true /\ calls_impure fl body = false.
Proof.
  intros fl ps body outer r this v H. unfold rule_closure in H.
  destruct (f_closure fl); [|discriminate]. destruct outer; [|discriminate]. destruct r; [discriminate|].
  destruct (clo_const_ok fl ps body) eqn:E; [|discriminate]. inv H.
  unfold clo_const_ok in E. apply andb_true_iff in E. destruct E as [_ E].
  repeat split; auto. apply gen_pure_no_impure_call; auto.
Qed.
