(* Reference semantics of the value language: a direct, lexically scoped, call-by-value,
   left-to-right interpreter with environments.  It ignores every annotation the parser computes
   for the generator (OuterIdents, Recursive); a closure simply captures the whole environment,
   and a closure defined by `func` can call itself by name.
   The order in which sub-expressions are evaluated and checked follows the language definition
   given by the implementation (callee before arguments, arity before arguments, receiver before
   arguments), so that ok-vs-error and the text passed through throw are comparable. *)
From P2 Require Import Base.Prelude Sem.Num Sem.Syntax Sem.Ops Sem.Lib.

Section Ref.
(* names of the methods that exist per type id (regenerated table); unmodelled ones answer Unsup *)
Variable known : list (N * list name).

Definition self_binding (self : name) (c : value) : list (name * value) :=
  match self with [] => [] | _ => [(self, c)] end.

Fixpoint eval (fuel : nat) (env : list (name * value)) (a : ast) {struct fuel} : res value :=
  match fuel with
  | O => OOF
  | S f =>
    let app := fun (c : value) (args : list value) =>
      match c with
      | VClo ps body cap self =>
          if Nat.eqb (length args) (length ps)
          then eval f (combine ps args ++ self_binding self c ++ cap) body
          else Err None
      | VErrText _ => Unsup
      | _ => Err None
      end in
    let fix eval_list (l : list ast) : res (list value) :=
      match l with
      | [] => Ok []
      | x :: r => bind (eval f env x) (fun v => bind (eval_list r) (fun vs => Ok (v :: vs)))
      end in
    match a with
    | AConst v => Ok v
    | AIdent x => match lookup x env with Some v => Ok v | None => Err None end
    | ALet x v b => bind (eval f env v) (fun vv => eval f ((x, vv) :: env) b)
    | AIf c t e =>
        bind (eval f env c) (fun cv =>
          match cv with
          | VBool true => eval f env t
          | VBool false => eval f env e
          | VErrText _ => Unsup
          | _ => Err None
          end)
    | ASwitch v cases d =>
        bind (eval f env v) (fun sv =>
          (fix go (cs : list (ast * ast)) : res value :=
             match cs with
             | [] => eval f env d
             | (cc, cr) :: rest =>
                 bind (eval f env cc) (fun cv =>
                   match equal_fg sv cv with
                   | Ok true => eval f env cr
                   | Ok false => go rest
                   | Err t => Err t | Panic => Panic | OOF => OOF | Unsup => Unsup
                   end)
             end) cases)
    | ATry t c =>
        match eval f env t with
        | Err thrown =>
            bind (eval f env c) (fun cv =>
              match cv with
              | VClo [_] _ _ _ => app cv [VErrText thrown]
              | _ => Ok cv
              end)
        | r => r
        end
    | AUnary op x => bind (eval f env x) (fun v => ucalc op v)
    | AOp op x y =>
        if str_eqb op op_and then
          bind (eval f env x) (fun av =>
            match av with
            | VBool false => Ok (VBool false)
            | VBool true =>
                bind (eval f env y) (fun bv =>
                  match bv with VBool b => Ok (VBool b) | VErrText _ => Unsup | _ => Err None end)
            | _ => bind (eval f env y) (fun bv => calc op av bv)
            end)
        else if str_eqb op op_or then
          bind (eval f env x) (fun av =>
            match av with
            | VBool true => Ok (VBool true)
            | VBool false =>
                bind (eval f env y) (fun bv =>
                  match bv with VBool b => Ok (VBool b) | VErrText _ => Unsup | _ => Err None end)
            | _ => bind (eval f env y) (fun bv => calc op av bv)
            end)
        else bind (eval f env x) (fun av => bind (eval f env y) (fun bv => calc op av bv))
    | AClosure ps body _ _ this => Ok (VClo ps body env this)
    | AList l => bind (eval_list l) (fun vs => Ok (VList vs))
    | AIndex l i => bind (eval f env i) (fun iv => bind (eval f env l) (fun lv => access_list lv iv))
    | AMap m =>
        (fix go (m : list (name * ast)) (acc : list (str * value)) : res value :=
           match m with
           | [] => Ok (VMap acc)
           | (k, x) :: r => bind (eval f env x) (fun v => go r (acc ++ [(k, v)]))
           end) m []
    | AMember m key => bind (eval f env m) (fun mv => access_map mv key)
    | ACall fn args =>
        bind (eval f env fn) (fun fv =>
          match fv with
          | VClo ps _ _ _ =>
              if Nat.eqb (length args) (length ps)
              then bind (eval_list args) (fun vs => app fv vs)
              else Err None
          | VErrText _ => Unsup
          | _ => Err None
          end)
    | AStatic fname args =>
        match static_arity fname with
        | Some ar =>
            if match ar with Fixed n => Nat.eqb n (length args) | VarArgs => true end
            then bind (eval_list args) (fun vs => run_static fname vs)
            else Err None
        | None => Unsup
        end
    | AMethod recv mname args =>
        bind (eval f env recv) (fun rv =>
          (* a map field holding a closure is called like a method *)
          let field := match rv with
                       | VMap entries => match assoc_v mname entries with
                                         | Some (VClo ps b c s) => Some (VClo ps b c s, length ps)
                                         | _ => None
                                         end
                       | _ => None
                       end in
          match field with
          | Some (cv, n) =>
              if Nat.eqb (length args) n then bind (eval_list args) (fun vs => app cv vs) else Err None
          | None =>
              match method_arity rv mname with
              | Some ar =>
                  if match ar with Fixed n => Nat.eqb n (length args) | VarArgs => true end
                  then bind (eval_list args) (fun vs => run_method app rv mname vs)
                  else Err None
              | None => match rv with
                        | VErrText _ => Unsup
                        | _ => if method_exists rv mname known then Unsup else Err None
                        end
              end
          end)
    end
  end.

End Ref.
