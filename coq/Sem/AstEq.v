(* Boolean structural equality of ASTs and values (Sem/Syntax.v), the comparison of the AST tie of C02:
   the optimizer MODEL's output against the REAL optimizer's output as dumped by the harness.

   Nothing is normalised away inside the comparison - it decides Leibniz equality (AstEqProofs.v:
   ast_eqb_sound / ast_eqb_complete), so every theorem about [optimize fl known fuel a] transports to
   a tree b with [ast_eqb (optimize ...) b = true] by rewriting.  What cannot be compared is decided
   BEFORE the comparison, by the harness (harness/c02.go, c02DumpValue), and reported as "not comparable":
     * floats are compared exactly as dyadics: sign, mantissa, exponent of the binary64 value with an odd
       mantissa (what Sem/Num.v's norm produces and pgCoqFloat prints); -0, infinities and NaN by constructor;
     * a list constant is compared by content (the harness forces a lazy list; the model's lists are eager);
     * a map constant is compared entry by entry in the iteration order of the implementation's map
       against the order of the model's association list;
     * a closure constant created by the closure-literal rule is compared by parameter names and
       (optimized) body, captured values [] and no own name - the harness recovers names and body from the
       ClosureLiteral the real rule consumed; a closure computed by generated code at Generate time is
       opaque Go code: not comparable. *)
From P2 Require Import Base.Prelude Sem.Num Sem.Syntax.

Definition fl_eqb (a b : fl) : bool :=
  match a, b with
  | FFin m e, FFin m' e' => (m =? m')%Z && (e =? e')%Z
  | FNegZero, FNegZero => true
  | FInf x, FInf y => Bool.eqb x y
  | FNaN, FNaN => true
  | _, _ => false
  end.


Fixpoint names_eqb (a b : list name) : bool :=
  match a, b with
  | [], [] => true
  | x :: a', y :: b' => str_eqb x y && names_eqb a' b'
  | _, _ => false
  end.

Fixpoint ast_eqb (a b : ast) {struct a} : bool :=
  match a, b with
  | AConst v, AConst w => value_eqb v w
  | AIdent x, AIdent y => str_eqb x y
  | ALet x v1 b1, ALet y v2 b2 => str_eqb x y && ast_eqb v1 v2 && ast_eqb b1 b2
  | AIf c1 t1 e1, AIf c2 t2 e2 => ast_eqb c1 c2 && ast_eqb t1 t2 && ast_eqb e1 e2
  | ASwitch v1 cs1 d1, ASwitch v2 cs2 d2 =>
      ast_eqb v1 v2 && ast_eqb d1 d2 &&
      (fix go (l m : list (ast * ast)) : bool :=
         match l, m with
         | [], [] => true
         | (c, r) :: l', (c', r') :: m' => ast_eqb c c' && ast_eqb r r' && go l' m'
         | _, _ => false
         end) cs1 cs2
  | ATry t1 c1, ATry t2 c2 => ast_eqb t1 t2 && ast_eqb c1 c2
  | AUnary o1 x1, AUnary o2 x2 => str_eqb o1 o2 && ast_eqb x1 x2
  | AOp o1 x1 y1, AOp o2 x2 y2 => str_eqb o1 o2 && ast_eqb x1 x2 && ast_eqb y1 y2
  | AClosure ps1 b1 o1 r1 t1, AClosure ps2 b2 o2 r2 t2 =>
      names_eqb ps1 ps2 && ast_eqb b1 b2 && names_eqb o1 o2 && Bool.eqb r1 r2 && str_eqb t1 t2
  | AList l1, AList l2 =>
      (fix go (l m : list ast) : bool :=
         match l, m with
         | [], [] => true
         | x :: l', y :: m' => ast_eqb x y && go l' m'
         | _, _ => false
         end) l1 l2
  | AIndex l1 i1, AIndex l2 i2 => ast_eqb l1 l2 && ast_eqb i1 i2
  | AMap m1, AMap m2 =>
      (fix go (l m : list (name * ast)) : bool :=
         match l, m with
         | [], [] => true
         | (k, x) :: l', (k', y) :: m' => str_eqb k k' && ast_eqb x y && go l' m'
         | _, _ => false
         end) m1 m2
  | AMember m1 k1, AMember m2 k2 => ast_eqb m1 m2 && str_eqb k1 k2
  | ACall f1 a1, ACall f2 a2 =>
      ast_eqb f1 f2 &&
      (fix go (l m : list ast) : bool :=
         match l, m with
         | [], [] => true
         | x :: l', y :: m' => ast_eqb x y && go l' m'
         | _, _ => false
         end) a1 a2
  | AStatic f1 a1, AStatic f2 a2 =>
      str_eqb f1 f2 &&
      (fix go (l m : list ast) : bool :=
         match l, m with
         | [], [] => true
         | x :: l', y :: m' => ast_eqb x y && go l' m'
         | _, _ => false
         end) a1 a2
  | AMethod r1 n1 a1, AMethod r2 n2 a2 =>
      ast_eqb r1 r2 && str_eqb n1 n2 &&
      (fix go (l m : list ast) : bool :=
         match l, m with
         | [], [] => true
         | x :: l', y :: m' => ast_eqb x y && go l' m'
         | _, _ => false
         end) a1 a2
  | _, _ => false
  end
with value_eqb (v w : value) {struct v} : bool :=
  match v, w with
  | VInt x, VInt y => Z.eqb x y
  | VFloat x, VFloat y => fl_eqb x y
  | VStr x, VStr y => str_eqb x y
  | VBool x, VBool y => Bool.eqb x y
  | VList l1, VList l2 =>
      (fix go (l m : list value) : bool :=
         match l, m with
         | [], [] => true
         | x :: l', y :: m' => value_eqb x y && go l' m'
         | _, _ => false
         end) l1 l2
  | VMap m1, VMap m2 =>
      (fix go (l m : list (str * value)) : bool :=
         match l, m with
         | [], [] => true
         | (k, x) :: l', (k', y) :: m' => str_eqb k k' && value_eqb x y && go l' m'
         | _, _ => false
         end) m1 m2
  | VClo ps1 b1 c1 s1, VClo ps2 b2 c2 s2 =>
      names_eqb ps1 ps2 && ast_eqb b1 b2 && str_eqb s1 s2 &&
      (fix go (l m : list (name * value)) : bool :=
         match l, m with
         | [], [] => true
         | (k, x) :: l', (k', y) :: m' => str_eqb k k' && value_eqb x y && go l' m'
         | _, _ => false
         end) c1 c2
  | VErrText None, VErrText None => true
  | VErrText (Some s), VErrText (Some t) => str_eqb s t
  | _, _ => false
  end.
