(* The optimizer configuration (Sem/Opt.v cfgflags) of value.New() as REGENERATED from the current
   tree (Generated/ValueCfg.v: operator flags, unary operators, static functions, impure methods).
   The five handler flags cannot be read through a table; value.New() installs all handlers
   (SetToBool, SetListHandler, SetMapHandler, SetClosureHandler, SetMethodHandler), and the method
   rule of the optimizer checks for closure fields since the repair. *)
From P2 Require Import Base.Prelude Sem.Syntax Sem.Opt Generated.ValueCfg.

Definition generated_flags : cfgflags :=
  mkflags vcfg_ops vcfg_unary vcfg_static_pure vcfg_meth_impure true true true true true true false.
