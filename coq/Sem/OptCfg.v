(* The optimizer configuration (Sem/Opt.v cfgflags) of value.New() as REGENERATED from the current
   tree (Generated/ValueCfg.v: operator flags, unary operators, static functions, impure methods).
   The five handler flags cannot be read through a table; value.New() installs all handlers
   (SetToBool, SetListHandler, SetMapHandler, SetClosureHandler, SetMethodHandler), and the method
   rule of the optimizer checks for closure fields since the repair. *)
From P2 Require Import Base.Prelude Sem.Syntax Sem.Lib Sem.Opt Generated.ValueCfg.

Definition generated_flags : cfgflags :=
  mkflags vcfg_ops vcfg_unary vcfg_static_pure vcfg_meth_impure true true true true true true false.

(* ---------- the regenerated flags against the flags the theorems are about ---------- *)

Definition flag_pair_eqb (a b : bool * bool) : bool :=
  Bool.eqb (fst a) (fst b) && Bool.eqb (snd a) (snd b).

(* every entry of l1 is in l2 with an equal value *)
Definition assoc_sub {A} (eqb : A -> A -> bool) (l1 l2 : list (str * A)) : bool :=
  forallb (fun e => match assoc (fst e) l2 with Some x => eqb x (snd e) | None => false end) l1.

(* g (regenerated) describes the same optimizer configuration as v (the one of the theorems):
   same operators with the same flags, same unary operators, every static function of v has the same
   IsPure flag in g, every further static function of g is outside the modelled pool (the model leaves
   calls of it alone: Opt.node_unmodelled), no impure method, same handlers *)
Definition flags_match (g v : cfgflags) : bool :=
  assoc_sub flag_pair_eqb (f_ops g) (f_ops v) && assoc_sub flag_pair_eqb (f_ops v) (f_ops g) &&
  Nat.eqb (length (f_ops g)) (length (f_ops v)) &&
  forallb (fun u => mem_name u (f_unary v)) (f_unary g) && forallb (fun u => mem_name u (f_unary g)) (f_unary v) &&
  assoc_sub Bool.eqb (f_static v) (f_static g) &&
  forallb (fun e => match assoc (fst e) (f_static v) with
                    | Some _ => true
                    | None => match Lib.static_arity (fst e) with None => true | Some _ => false end
                    end) (f_static g) &&
  match f_meth_impure g, f_meth_impure v with [], [] => true | _, _ => false end &&
  Bool.eqb (f_tobool g) (f_tobool v) && Bool.eqb (f_list g) (f_list v) && Bool.eqb (f_map g) (f_map v) &&
  Bool.eqb (f_closure g) (f_closure v) && Bool.eqb (f_method g) (f_method v) &&
  Bool.eqb (f_fieldcheck g) (f_fieldcheck v) && Bool.eqb (f_strict g) (f_strict v).
