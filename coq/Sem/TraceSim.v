(* The optimizer preserves the trace: the simulation of Sem/OptProofs.v carried out for the trace
   semantics Sem/Trace.v.  If t is an optimized form of a and the traced evaluation of a is decided
   (a value, an error or a panic - with whatever events), the optimized program gives the related
   outcome AND the same events: the same host functions called in the same order with related
   arguments (equal when first-order).  This includes error outcomes: the events before the error are
   the same.  The oracle must respect the value relation (host_ok): it answers related results on
   related arguments (e.g. any oracle on first-order arguments with first-order results). *)
From P2 Require Import Base.Prelude Base.PreludeProofs Sem.Num Sem.Syntax Sem.Ops Sem.Lib Sem.Ref Sem.Gen Sem.Sim Sem.RelProofs Sem.GenProofs Sem.RefMono Sem.Trace Sem.TraceProofs Sem.Opt Sem.OptRel Sem.OptRelProofs Sem.OptOpsProofs Sem.OptLibProofs Sem.OptWf Sem.OptProofs.
Require Import Lia.

Definition Td {A} (p : tres A) : Prop := tdecided (fst p).

Lemma tbind_ok {A B} (a : A) (k : A -> tres B) : tbind (Ok a, []) k = k a.
Proof. unfold tbind. cbn [fst snd app]. destruct (k a); reflexivity. Qed.

Lemma tbind_ret_ok {A B} (a : A) (k : A -> tres B) : tbind (tret (Ok a)) k = k a.
Proof. apply tbind_ok. Qed.

Lemma tbind_ext {A B} (p : tres A) (k1 k2 : A -> tres B) : (forall a, k1 a = k2 a) -> tbind p k1 = tbind p k2.
Proof. intros H. unfold tbind. destruct (fst p); auto. rewrite H. reflexivity. Qed.

Lemma tbind_assoc {A B C} (p : tres A) (k1 : A -> tres B) (k2 : B -> tres C) :
  tbind (tbind p k1) k2 = tbind p (fun a => tbind (k1 a) k2).
Proof.
  unfold tbind. destruct (fst p) eqn:E; cbn [fst snd]; try rewrite E; auto.
  destruct (fst (k1 a)); cbn [fst snd]; rewrite ?app_assoc; reflexivity.
Qed.

Lemma tbind_tret {A B} (r : res A) (k : A -> res B) : tbind (tret r) (fun a => tret (k a)) = tret (bind r k).
Proof. destruct r; reflexivity. Qed.

Lemma Td_bind {A B} (p : tres A) (k : A -> tres B) : Td (tbind p k) -> Td p.
Proof. unfold Td, tbind. destruct (fst p); cbn; auto. Qed.

Section TSim.
Variable known : list (N * list name).
Variable host : name -> list value -> res value.
Local Notation vrel := (OptRel.vrel known).
Local Notation arel := (OptRel.arel known).
Local Notation env_rel := (OptRel.env_rel known).
Local Notation erel := (OptRel.erel known).
Local Notation tev := (teval known host).

(* the oracle answers related results on related arguments *)
Hypothesis host_ok : forall f vs vs', Forall2 vrel vs vs' -> rrel vrel (host f vs) (host f vs').

Definition evrel (e e' : event) : Prop := fst e = fst e' /\ Forall2 vrel (snd e) (snd e').

(* related outcomes and the same events *)
Definition TR {A B} (Q : A -> B -> Prop) (p : tres A) (p' : tres B) : Prop :=
  rrel Q (fst p) (fst p') /\ Forall2 evrel (snd p) (snd p').
Local Notation TRv := (TR vrel).
Local Notation TRl := (TR (Forall2 vrel)).

Lemma TR_ret {A B} (Q : A -> B -> Prop) r r' : rrel Q r r' -> TR Q (tret r) (tret r').
Proof. intros H. split; [exact H|constructor]. Qed.

Ltac rr := intros; apply TR_ret.

Lemma twrel_bind {A B C D} (Q : A -> B -> Prop) (Q' : C -> D -> Prop) p1 p2 k1 k2 :
  Td (tbind p1 k1) ->
  (Td p1 -> TR Q p1 p2) ->
  (forall a b, fst p1 = Ok a -> Q a b -> Td (k1 a) -> TR Q' (k1 a) (k2 b)) ->
  TR Q' (tbind p1 k1) (tbind p2 k2).
Proof.
  intros Dd H1 H2. pose proof (Td_bind _ _ Dd) as D1. destruct (H1 D1) as [Hr Ht].
  unfold Td, tbind in *. destruct Hr as [a b Hab|t| | |]; cbn [fst snd] in *; try (split; [constructor|exact Ht]); try contradiction.
  destruct (H2 a b eq_refl Hab Dd) as [Hr2 Ht2]. split; [exact Hr2|apply Forall2_app'; auto].
Qed.

Ltac fvt :=
  let y := fresh "y" in let Hy := fresh "Hy" in
  intros y Hy; unfold fvp in *; cbn [fv] in Hy |- *;
  first [ exact Hy | discriminate Hy
        | rewrite Hy; repeat match goal with |- context [fv ?a ?b] => destruct (fv a b) end; reflexivity ].

#[local] Hint Extern 2 (OptRel.env_rel _ _ _ _ _) => (eapply env_rel_weaken; [|eassumption]; fvt) : core.

Definition tsim_at (n : nat) : Prop :=
  forall s a a' env env' m, arel s a a' -> env_rel s (fvp a') env env' -> n <= m ->
    Td (tev n env a) -> TRv (tev n env a) (tev m env' a').

Lemma TR_inv_ok (p : tres value) v' : Td p -> TRv p (tret (Ok v')) -> exists v, p = (Ok v, []) /\ vrel v v'.
Proof.
  intros D [Hr Ht]. destruct p as [r tr]. cbn [fst snd tret] in *. inv Ht. inv Hr. eauto.
Qed.

Lemma tdec_dec {A} (r : res A) : tdecided r -> decided r.
Proof. unfold decided. destruct r; cbn; intros H; try reflexivity; destruct H. Qed.

Lemma rrel_dec {A B} (Q : A -> B -> Prop) r r' : rrel Q r r' -> tdecided r -> tdecided r'.
Proof. destruct 1; cbn; auto. Qed.

Lemma decided_Td (r : res value) : decided r -> tdecided r.
Proof. unfold decided. destruct r; cbn; auto; discriminate. Qed.

Section Step.
Variables n m : nat.
Hypothesis IH : tsim_at n.
Hypothesis Hnm : n <= m.
Local Notation E := (tev n).
Local Notation E' := (tev m).

Lemma tapp_sim c c' vs vs' :
  vrel c c' -> Forall2 vrel vs vs' -> Td (t_app E c vs) -> TRv (t_app E c vs) (t_app E' c' vs').
Proof.
  intros Hc Hvs. pose proof Hc as Hc0. inv Hc; cbn [t_app]; try (intros _; rr; constructor).
  rewrite <- (Forall2_length' _ _ _ Hvs).
  destruct (Nat.eqb (length vs) (length ps)) eqn:L; [|intros _; rr; constructor].
  apply Nat.eqb_eq in L. intros D.
  eapply IH; eauto. apply env_rel_app; auto.
Qed.

Lemma qapp_sim c c' vs vs' :
  vrel c c' -> Forall2 vrel vs vs' -> decided (q_app E c vs) -> wrel vrel (q_app E c vs) (q_app E' c' vs').
Proof.
  intros Hc Hvs. pose proof (tapp_sim c c' vs vs' Hc Hvs) as HS. revert HS.
  unfold q_app, quiet, Td, TR, wrel, decided.
  generalize (t_app E c vs) (t_app E' c' vs'). intros [r tr] [r' tr']. cbn [fst snd]. intros HS D.
  assert (Dr : tdecided r /\ tr = []).
  { destruct r; destruct tr; cbn in *; try discriminate; auto. }
  destruct Dr as [Dr ->]. destruct (HS Dr) as [Hr Ht]. inv Ht.
  destruct Hr; constructor; auto.
Qed.

Lemma existsb_cons_l {A} (f : A -> bool) x l : f x = true -> existsb f (x :: l) = true.
Proof. intros H. simpl. rewrite H. reflexivity. Qed.
Lemma existsb_cons_r {A} (f : A -> bool) x l : existsb f l = true -> existsb f (x :: l) = true.
Proof. intros H. simpl. rewrite H. apply orb_true_r. Qed.

Lemma tlist_sim s env env' l l' :
  Forall2 (arel s) l l' -> env_rel s (fun x => existsb (fv x) l' = true) env env' ->
  Td (t_list E env l) -> TRl (t_list E env l) (t_list E' env' l').
Proof.
  intros Hl He. induction Hl as [|x x' l l' Hx Hl IHl]; cbn [t_list]; intros D.
  - rr. repeat constructor.
  - eapply twrel_bind; [exact D|intros; eapply IH; eauto;
      eapply env_rel_weaken; [|exact He]; intros y Hy; apply existsb_cons_l; exact Hy|]. intros v v' _ Hv D2.
    eapply twrel_bind; [exact D2|intros; apply IHl; auto;
      eapply env_rel_weaken; [|exact He]; intros y Hy; apply existsb_cons_r; exact Hy|]. intros ys ys' _ Hys _.
    rr. repeat constructor; auto.
Qed.

Lemma tswitch_sim s env env' sv sv' d d' cases cases' :
  vrel sv sv' -> arel s d d' ->
  env_rel s (fun x => fv x d' = true \/ existsb (fun c => fv x (fst c) || fv x (snd c)) cases' = true) env env' ->
  Forall2 (fun c c' => arel s (fst c) (fst c') /\ arel s (snd c) (snd c')) cases cases' ->
  Td (t_switch E env sv d cases) ->
  TRv (t_switch E env sv d cases) (t_switch E' env' sv' d' cases').
Proof.
  intros Hsv Hd He Hc. induction Hc as [|[cc cr] [cc' cr'] cases cases' [H1 H2] Hc IHc]; cbn [t_switch]; intros D.
  - eapply IH; eauto. eapply env_rel_weaken; [|exact He]. intros y Hy; left; exact Hy.
  - simpl in H1, H2.
    eapply twrel_bind; [exact D|intros; eapply IH; eauto;
      eapply env_rel_weaken; [|exact He]; intros y Hy; right; apply existsb_cons_l; cbn [fst snd];
      unfold fvp in Hy; rewrite Hy; reflexivity|]. intros cv cv' _ Hcv D2.
    rewrite <- (equal_fg_rel known _ _ _ _ Hsv Hcv).
    destruct (equal_fg sv cv) as [[|]| | | |]; try (rr; constructor).
    + eapply IH; eauto. eapply env_rel_weaken; [|exact He]. intros y Hy; right; apply existsb_cons_l; cbn [fst snd].
      unfold fvp in Hy; rewrite Hy. apply orb_true_r.
    + apply IHc; auto. eapply env_rel_weaken; [|exact He]. intros y [Hy|Hy]; [left; exact Hy|right; apply existsb_cons_r; exact Hy].
Qed.

Lemma tmap_sim s env env' mm mm' acc acc' :
  Forall2 (fun e e' => fst e = fst e' /\ arel s (snd e) (snd e')) mm mm' ->
  env_rel s (fun x => existsb (fun e => fv x (snd e)) mm' = true) env env' ->
  Forall2 erel acc acc' ->
  Td (t_map E env mm acc) -> TRv (t_map E env mm acc) (t_map E' env' mm' acc').
Proof.
  intros Hm He. revert acc acc'.
  induction Hm as [|[k x] [k' x'] mm mm' [H1 H2] Hm IHm]; intros acc acc' Ha; cbn [t_map]; intros D.
  - rr. constructor. constructor. auto.
  - simpl in H1, H2. subst k'.
    eapply twrel_bind; [exact D|intros; eapply IH; eauto;
      eapply env_rel_weaken; [|exact He]; intros y Hy; apply existsb_cons_l; exact Hy|]. intros v v' _ Hv D2.
    apply IHm; auto.
    + eapply env_rel_weaken; [|exact He]. intros y Hy; apply existsb_cons_r; exact Hy.
    + apply Forall2_app'; auto. constructor; [split; auto|constructor].
Qed.

End Step.

Lemma tev_0 env a : tev 0 env a = tret OOF.
Proof. reflexivity. Qed.

Lemma tev_const k env v : tev (S k) env (AConst v) = tret (Ok v).
Proof. reflexivity. Qed.

Ltac fuel0 D := exfalso; unfold Td in D; cbn [fst tret tbind] in D; exact D.

Theorem tsim : forall n, tsim_at n.
Proof.
  induction n as [|n IHn].
  { intros s a a' env env' m _ _ _ D. destruct D. }
  intros s a a' env env' m Ha. revert env env' m.
  induction Ha as
    [ s v v' H
    | s x H
    | s x c H
    | s x v v' b b' Hv IHv Hb IHb
    | s x v c b b' Hv IHv Hb IHb
    | s c c' t t' e e' Hc IHc Ht IHt He IHe
    | s c t t' e Hc IHc Ht IHt
    | s c t e e' Hc IHc He IHe
    | s v v' cases cases' d d' Hv IHv Hcases Hd IHd
    | s t t' c c' Ht IHt Hc IHc
    | s op x x' Hx IHx
    | s op x x' y y' Hx IHx Hy IHy
    | s op a b c1 c2 c x' Hsc Hlaw Ha IHa Hb IHb Hcalc
    | s op a b c1 c2 c x' Hsc Hlaw Ha IHa Hb IHb Hcalc
    | s ps b b' outer outer' r r' this Hb IHb
    | s ps b b' outer r this Hb IHb Hcl
    | s l l' Hl
    | s l l' i i' Hl IHl Hi IHi
    | s mm mm' Hm
    | s mm mm' key Hm IHm
    | s fn fn' args args' Hfn IHfn Hargs
    | s f args args' Hargs
    | s recv recv' mname args args' Hrecv IHrecv Hargs
    | s a t t' Ha IHa Hclosed Hseq Htseq
    | s a t v Ha IHa Hclosed Hg ];
    intros env env' k Henv Hk D.
  - (* const *) destruct k as [|k]; [lia|]. rr. constructor. auto.
  - (* ident *) destruct k as [|k]; [lia|]. rewrite !teval_S. cbn [tstep].
    destruct Henv as [_ H2].
    assert (Fx : fvp (AIdent x) x) by (unfold fvp; cbn [fv]; apply str_eqb_refl).
    destruct (H2 x Fx H); rr; constructor; auto.
  - (* ident const *) destruct k as [|k]; [lia|]. rewrite !teval_S. cbn [tstep].
    destruct Henv as [H1 _]. destruct (H1 x c H) as (v & -> & Hv). rr. constructor. auto.
  - (* let *) destruct k as [|k]; [lia|]. rewrite teval_S in D. rewrite !teval_S. cbn [tstep] in *.
    eapply twrel_bind; [exact D|intros; eapply IHn; eauto; lia|]. intros vv vv' _ Hvv D2.
    eapply IHn; eauto; [eapply env_rel_let; [exact Hvv|exact Henv|]|lia].
    intros y Hy Ey. unfold fvp in *. cbn [fv]. rewrite Hy, Ey. cbn. apply orb_true_r.
  - (* let const *) rewrite teval_S in D. rewrite teval_S. cbn [tstep] in *.
    pose proof (Td_bind _ _ D) as D1.
    assert (Hc : TRv (tev n env v) (tret (Ok c))).
    { destruct k as [|k]; [lia|]. rewrite <- (tev_const k env' c). eapply IHn; eauto. lia. }
    destruct (TR_inv_ok _ _ D1 Hc) as (vv & Ev & Hvv). rewrite Ev in *. rewrite tbind_ok in *.
    eapply IHn; eauto; [apply env_rel_let_const; auto|lia].
  - (* if *) destruct k as [|k]; [lia|]. rewrite teval_S in D. rewrite !teval_S. cbn [tstep] in *.
    eapply twrel_bind; [exact D|intros; eapply IHn; eauto; lia|]. intros cv cv' _ Hcv D2.
    inv Hcv; try (rr; constructor).
    destruct b; eapply IHn; eauto; lia.
  - (* if true *) rewrite teval_S in D. rewrite teval_S. cbn [tstep] in *.
    pose proof (Td_bind _ _ D) as D1.
    assert (Hcc : TRv (tev n env c) (tret (Ok (VBool true)))).
    { destruct k as [|k]; [lia|]. rewrite <- (tev_const k env' (VBool true)). eapply IHn; eauto. lia. }
    destruct (TR_inv_ok _ _ D1 Hcc) as (vv & Ev & Hvv). rewrite Ev in *. inv Hvv. rewrite tbind_ok in *.
    eapply IHn; eauto. lia.
  - (* if false *) rewrite teval_S in D. rewrite teval_S. cbn [tstep] in *.
    pose proof (Td_bind _ _ D) as D1.
    assert (Hcc : TRv (tev n env c) (tret (Ok (VBool false)))).
    { destruct k as [|k]; [lia|]. rewrite <- (tev_const k env' (VBool false)). eapply IHn; eauto. lia. }
    destruct (TR_inv_ok _ _ D1 Hcc) as (vv & Ev & Hvv). rewrite Ev in *. inv Hvv. rewrite tbind_ok in *.
    eapply IHn; eauto. lia.
  - (* switch *) destruct k as [|k]; [lia|]. rewrite teval_S in D. rewrite !teval_S. cbn [tstep] in *.
    eapply twrel_bind; [exact D|intros; eapply IHn; eauto; lia|]. intros sv sv' _ Hsv D2.
    eapply tswitch_sim; eauto; [lia|].
    eapply env_rel_weaken; [|exact Henv]. intros y Hy. unfold fvp. rewrite fv_switch.
    destruct Hy as [Hy|Hy]; rewrite Hy; rewrite ?orb_true_r; reflexivity.
  - (* try *) destruct k as [|k]; [lia|]. rewrite teval_S in D. rewrite !teval_S. cbn [tstep] in *. cbv zeta in *.
    assert (Dt : Td (tev n env t)).
    { unfold Td in *. revert D. destruct (fst (tev n env t)) eqn:E; cbn; auto; intros D; rewrite E in D; exact D. }
    assert (Ht1 : TRv (tev n env t) (tev k env' t')) by (eapply IHn; eauto; lia).
    destruct Ht1 as [Hr Htr].
    destruct (tev n env t) as [r tr]. destruct (tev k env' t') as [r' tr']. cbn [fst snd] in *.
    destruct Hr as [a b Hab|thrown| | |].
    + split; [constructor; auto|exact Htr].
    + eapply (twrel_bind (fun _ _ : unit => True)); [exact D|intros _; split; [constructor; exact I|exact Htr]|].
      intros _ _ _ _ D1.
      eapply twrel_bind; [exact D1|intros; eapply IHn; eauto; lia|]. intros cv cv' _ Hcv D2.
      pose proof Hcv as Hcv0. inv Hcv; try (rr; constructor; auto; fail).
      destruct ps as [|p1 [|p2 ps]]; try (rr; constructor; auto; fail).
      eapply tapp_sim; eauto; [lia|repeat constructor].
    + split; [constructor|exact Htr].
    + destruct D.
    + destruct D.
  - (* unary *) destruct k as [|k]; [lia|]. rewrite teval_S in D. rewrite !teval_S. cbn [tstep] in *.
    eapply twrel_bind; [exact D|intros; eapply IHn; eauto; lia|]. intros xv xv' _ Hxv _.
    rr. apply ucalc_rel. auto.
  - (* op *) destruct k as [|k]; [lia|]. rewrite teval_S in D. rewrite !teval_S. cbn [tstep] in *.
    destruct (str_eqb op op_and).
    { eapply twrel_bind; [exact D|intros; eapply IHn; eauto; lia|]. intros av av' _ Hav D2.
      pose proof Hav as Hav0.
      inv Hav; try (eapply twrel_bind; [exact D2|intros; eapply IHn; eauto; lia|];
                    intros bv bv' _ Hbv _; rr; apply calc_rel; auto).
      destruct b; [|rr; constructor; constructor].
      eapply twrel_bind; [exact D2|intros; eapply IHn; eauto; lia|]. intros bv bv' _ Hbv _.
      inv Hbv; rr; constructor. constructor. }
    destruct (str_eqb op op_or).
    { eapply twrel_bind; [exact D|intros; eapply IHn; eauto; lia|]. intros av av' _ Hav D2.
      pose proof Hav as Hav0.
      inv Hav; try (eapply twrel_bind; [exact D2|intros; eapply IHn; eauto; lia|];
                    intros bv bv' _ Hbv _; rr; apply calc_rel; auto).
      destruct b; [rr; constructor; constructor|].
      eapply twrel_bind; [exact D2|intros; eapply IHn; eauto; lia|]. intros bv bv' _ Hbv _.
      inv Hbv; rr; constructor. constructor. }
    eapply twrel_bind; [exact D|intros; eapply IHn; eauto; lia|]. intros av av' _ Hav D2.
    eapply twrel_bind; [exact D2|intros; eapply IHn; eauto; lia|]. intros bv bv' _ Hbv _.
    rr. apply calc_rel; auto.
  - (* regroup, constant on the left *)
    destruct (short_circuit_false _ Hsc) as [Ea Eo].
    destruct k as [|k]; [lia|]. rewrite teval_S in D. cbn [tstep] in D. rewrite Ea, Eo in D.
    destruct k as [|k].
    { assert (n = 0) by lia. subst n. rewrite tev_0 in D. fuel0 D. }
    rewrite (teval_S known host n env), (teval_S known host (S k) env'). cbn [tstep]. rewrite Ea, Eo, tev_const.
    rewrite tbind_ret_ok.
    rewrite (tbind_ext (tev (S k) env' x') (fun bv => tret (calc op c bv))
                      (fun bv => tbind (tret (calc op c1 bv)) (fun r => tret (calc op r c2))));
      [|intros bv0; rewrite tbind_tret; f_equal; apply (proj1 (Hlaw c1 c2 c _ Hcalc))].
    rewrite <- (tbind_assoc (tev (S k) env' x')).
    assert (HA : Td (tev n env a) ->
                 TRv (tev n env a) (tbind (tev (S k) env' x') (fun bv => tret (calc op c1 bv)))).
    { intros Da. assert (HH : TRv (tev n env a) (tev (S (S k)) env' (AOp op (AConst c1) x'))) by (eapply IHn; eauto; lia).
      rewrite teval_S in HH. cbn [tstep] in HH. rewrite Ea, Eo, tev_const in HH.
      rewrite tbind_ret_ok in HH. exact HH. }
    eapply twrel_bind; [exact D|exact HA|]. intros av av' _ Hav D2.
    pose proof (Td_bind _ _ D2) as Db.
    assert (HB : TRv (tev n env b) (tret (Ok c2))).
    { rewrite <- (tev_const k env' c2). eapply IHn; eauto. lia. }
    destruct (TR_inv_ok _ _ Db HB) as (bv & Eb & Hbv). rewrite Eb. rewrite tbind_ok.
    rr. apply calc_rel; auto.
  - (* regroup, constant on the right *)
    destruct (short_circuit_false _ Hsc) as [Ea Eo].
    destruct k as [|k]; [lia|]. rewrite teval_S in D. cbn [tstep] in D. rewrite Ea, Eo in D.
    destruct k as [|k].
    { assert (n = 0) by lia. subst n. rewrite tev_0 in D. fuel0 D. }
    rewrite (teval_S known host n env), (teval_S known host (S k) env'). cbn [tstep]. rewrite Ea, Eo.
    rewrite (tbind_ext (tev (S k) env' x')
                      (fun av => tbind (tev (S k) env' (AConst c)) (fun bv => tret (calc op av bv)))
                      (fun av => tbind (tret (calc op av c1)) (fun r => tret (calc op r c2))));
      [|intros av0; rewrite tev_const; rewrite tbind_ret_ok; rewrite tbind_tret; f_equal;
        apply (proj2 (Hlaw c1 c2 c _ Hcalc))].
    rewrite <- (tbind_assoc (tev (S k) env' x')).
    assert (HA : Td (tev n env a) ->
                 TRv (tev n env a) (tbind (tev (S k) env' x') (fun av => tret (calc op av c1)))).
    { intros Da. assert (HH : TRv (tev n env a) (tev (S (S k)) env' (AOp op x' (AConst c1)))) by (eapply IHn; eauto; lia).
      rewrite teval_S in HH. cbn [tstep] in HH. rewrite Ea, Eo in HH.
      rewrite (tbind_ext (tev (S k) env' x')
                 (fun av => tbind (tev (S k) env' (AConst c1)) (fun bv => tret (calc op av bv)))
                 (fun av => tret (calc op av c1))) in HH; [exact HH|].
      intros av0. rewrite tev_const. rewrite tbind_ret_ok. reflexivity. }
    eapply twrel_bind; [exact D|exact HA|]. intros av av' _ Hav D2.
    pose proof (Td_bind _ _ D2) as Db.
    assert (HB : TRv (tev n env b) (tret (Ok c2))).
    { rewrite <- (tev_const k env' c2). eapply IHn; eauto. lia. }
    destruct (TR_inv_ok _ _ Db HB) as (bv & Eb & Hbv). rewrite Eb. rewrite tbind_ok.
    rr. apply calc_rel; auto.
  - (* closure literal *) destruct k as [|k]; [lia|]. rewrite !teval_S. cbn [tstep].
    rr. constructor. destruct Henv as [H1 H2]. econstructor; eauto.
    intros x Hx Mx Lx. apply H2; auto. unfold fvp. cbn [fv]. rewrite Mx, Hx. reflexivity.
  - (* closure literal folded to a constant *) destruct k as [|k]; [lia|]. rewrite !teval_S. cbn [tstep].
    rr. constructor. destruct Henv as [H1 H2]. econstructor; eauto.
    + right. split; auto. destruct (fv this b') eqn:F; auto.
    + intros x Hx Mx Lx. rewrite mem_name_app, (Hcl x Hx) in Mx. discriminate.
  - (* list *) destruct k as [|k]; [lia|]. rewrite teval_S in D. rewrite !teval_S. cbn [tstep] in *.
    eapply twrel_bind; [exact D|intros; eapply tlist_sim; eauto; try lia; try exact Henv|]. intros vs vs' _ Hvs _.
    rr. constructor. constructor. auto.
  - (* index *) destruct k as [|k]; [lia|]. rewrite teval_S in D. rewrite !teval_S. cbn [tstep] in *.
    eapply twrel_bind; [exact D|intros; eapply IHn; eauto; lia|]. intros iv iv' _ Hiv D2.
    eapply twrel_bind; [exact D2|intros; eapply IHn; eauto; lia|]. intros lv lv' _ Hlv _.
    rr. apply access_list_rel; auto.
  - (* map *) destruct k as [|k]; [lia|]. rewrite teval_S in D. rewrite !teval_S. cbn [tstep] in *.
    eapply tmap_sim; eauto; try lia; try exact Henv.
  - (* member *) destruct k as [|k]; [lia|]. rewrite teval_S in D. rewrite !teval_S. cbn [tstep] in *.
    eapply twrel_bind; [exact D|intros; eapply IHn; eauto; lia|]. intros mv mv' _ Hmv _.
    rr. apply access_map_rel; auto.
  - (* call *) destruct k as [|k]; [lia|]. rewrite teval_S in D. rewrite !teval_S. cbn [tstep] in *.
    eapply twrel_bind; [exact D|intros; eapply IHn; eauto; lia|]. intros fnv fnv' _ Hfv D2.
    pose proof Hfv as Hfv0. inv Hfv; try (rr; constructor).
    rewrite <- (Forall2_length' _ _ _ Hargs).
    destruct (Nat.eqb (length args) (length ps)); [|rr; constructor].
    eapply twrel_bind; [exact D2|intros; eapply tlist_sim; eauto; try lia;
      (eapply env_rel_weaken; [|exact Henv]; intros y Hy; unfold fvp; rewrite fv_call, Hy; apply orb_true_r)|].
    intros vs vs' _ Hvs D3.
    eapply tapp_sim; eauto. lia.
  - (* static *) destruct k as [|k]; [lia|]. rewrite teval_S in D. rewrite !teval_S. cbn [tstep] in *.
    destruct (static_arity f) as [ar|].
    + rewrite <- (Forall2_length' _ _ _ Hargs).
      destruct (arity_ok ar (length args)); [|rr; constructor].
      eapply twrel_bind; [exact D|intros; eapply tlist_sim; eauto; try lia; try exact Henv|]. intros vs vs' _ Hvs _.
      rr. apply run_static_rel; auto.
    + (* a host function: the same event, related answers of the oracle *)
      eapply twrel_bind; [exact D|intros; eapply tlist_sim; eauto; try lia; try exact Henv|]. intros vs vs' _ Hvs _.
      split; cbn [fst snd]; [apply host_ok; exact Hvs|].
      constructor; [split; [reflexivity|exact Hvs]|constructor].
  - (* method *) destruct k as [|k]; [lia|]. rewrite teval_S in D. rewrite !teval_S. cbn [tstep] in *.
    eapply twrel_bind; [exact D|intros; eapply IHn; eauto; lia|]. intros rv rv' _ Hrv D2.
    rewrite <- (Forall2_length' _ _ _ Hargs).
    destruct (field_of_rel known _ _ mname Hrv) as [|cv cv' ar Hcv A1 A2].
    + rewrite <- (method_arity_rel known _ _ mname Hrv).
      destruct (method_arity rv mname) as [ar|].
      * destruct (arity_ok ar (length args)); [|rr; constructor].
        eapply twrel_bind; [exact D2|intros; eapply tlist_sim; eauto; try lia;
          (eapply env_rel_weaken; [|exact Henv]; intros y Hy; unfold fvp; rewrite fv_method, Hy; apply orb_true_r)|].
        intros vs vs' _ Hvs D3.
        rr. eapply run_method_w; eauto; [intros; eapply qapp_sim; eauto; lia|apply tdec_dec; exact D3].
      * rewrite <- (method_exists_rel known _ _ mname known Hrv).
        inv Hrv; rr; try constructor; destruct (method_exists _ mname known); constructor.
    + destruct (Nat.eqb (length args) ar); [|rr; constructor].
      eapply twrel_bind; [exact D2|intros; eapply tlist_sim; eauto; try lia;
          (eapply env_rel_weaken; [|exact Henv]; intros y Hy; unfold fvp; rewrite fv_method, Hy; apply orb_true_r)|].
        intros vs vs' _ Hvs D3.
      eapply tapp_sim; eauto. lia.
  - (* a rewrite step on the optimized side *)
    specialize (IHa env env' k (env_rel_closed known _ _ _ _ _ Hclosed Henv) Hk D). destruct IHa as [Hr Ht].
    assert (Dt : tdecided (fst (tev k env' t))).
    { exact (rrel_dec _ _ _ Hr D). }
    rewrite (Htseq host k env' Dt). split; assumption.
  - (* a value computed at Generate time *)
    destruct Hg as (kg & v1 & Hev & Hrel).
    specialize (IHa env env' k (env_rel_closed known _ _ _ _ _ Hclosed Henv) Hk D). destruct IHa as [Hr Ht].
    destruct k as [|k]; [lia|]. rewrite tev_const.
    assert (Dt : tdecided (fst (tev (S k) env' t))).
    { exact (rrel_dec _ _ _ Hr D). }
    assert (Eg : tev kg env' t = (Ok v1, [])).
    { rewrite <- (Hev env'). apply eval_teval. rewrite Hev. exact I. }
    assert (Et : tev (S k) env' t = (Ok v1, [])).
    { rewrite <- Eg. apply teval_agree; [rewrite Eg; discriminate|].
      intros EO. rewrite EO in Dt. destruct Dt. }
    rewrite Et in Hr, Ht. cbn [fst snd] in *. inv Ht.
    destruct (rrel_ok_inv_r _ _ _ Hr) as (v0 & E0 & R0).
    split; cbn [fst snd tret]; [rewrite E0; constructor; eapply vrel_comp; eauto|].
    rewrite teval_S. rewrite <- H0. constructor.
Qed.


End TSim.
