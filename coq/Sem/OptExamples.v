(* Example programs used by Props/C02.v (definitions only). *)
From P2 Require Import Base.Prelude Sem.Num Sem.Syntax Sem.Ops Sem.Lib Sem.Opt.

(* {get: k -> 42, a: 7}.get("a"): a map field holding a closure is called like a method *)
Definition field_witness : ast :=
  AMethod (AMap [(n_get, AClosure [[107%N]] (AConst (VInt 42)) [] false []); ([97%N], AConst (VInt 7))])
          n_get [AConst (VStr [97%N])].

(* non-vacuity program of C02: operator fold, constant if, const-let propagation into a closure body,
   the closure-literal rule, a constant closure run at Generate time, a method with a callback run at
   Generate time and a static function *)
Definition nv_x : name := [120%N].
Definition nv_y : name := [121%N].
Definition nv_f : name := [102%N].
Definition nv_z : name := [122%N].
Definition nv_prog : ast :=
  ALet nv_y (AOp op_add (AConst (VInt 1)) (AConst (VInt 2)))
   (ALet nv_f (AClosure [nv_z] (AOp op_mul (AIdent nv_z) (AIdent nv_y)) [nv_y] false [])
    (AIf (AOp op_lt (AConst (VInt 1)) (AConst (VInt 2)))
         (AOp op_add
            (AOp op_mul (AIdent nv_x) (ACall (AIdent nv_f) [AStatic n_abs [AUnary op_sub (AIdent nv_y)]]))
            (AMethod (AMethod (AList [AConst (VInt 1); AConst (VInt 2)]) n_map [AIdent nv_f]) n_size []))
         (AStatic n_throw [AConst (VStr nv_y)]))).

(* second non-vacuity program: let g = (x -> y -> x + y)(1); g(2) + a - the call at Generate time
   returns a closure that captures x = 1; the implementation's optimizer keeps it as a constant (the
   strict optimizer does not), and g(2) is then executed at run time on that constant *)
Definition nv_g : name := [103%N].
Definition nv_a : name := [97%N].
Definition nv_prog2 : ast :=
  ALet nv_g (ACall (AClosure [nv_x] (AClosure [nv_y] (AOp op_add (AIdent nv_x) (AIdent nv_y)) [nv_x] false []) [] false [])
                   [AConst (VInt 1)])
    (AOp op_add (ACall (AIdent nv_g) [AConst (VInt 2)]) (AIdent nv_a)).

(* trace examples: (x -> tick(1, x) + 1)(2) + tick(2, 3) + (1 + 2) - two host calls, one inside a closure
   that is applied to a constant (not folded: its body calls a function that is not flagged pure),
   next to a constant sub-expression that is folded *)
Definition n_tick_ex : name := [116; 105; 99; 107]%N.
Definition nv_prog3 : ast :=
  AOp op_add
    (AOp op_add
       (ACall (AClosure [nv_x] (AOp op_add (AStatic n_tick_ex [AConst (VInt 1); AIdent nv_x]) (AConst (VInt 1))) [] false [])
              [AConst (VInt 2)])
       (AStatic n_tick_ex [AConst (VInt 2); AConst (VInt 3)]))
    (AOp op_add (AConst (VInt 1)) (AConst (VInt 2))).
(* an oracle: tick answers the sum of its two integer arguments *)
Definition host_ex (f : name) (vs : list value) : res value :=
  match vs with [VInt a; VInt b] => Ok (VInt (a + b)) | _ => Err None end.
(* tick(x -> 1 + 2): the argument is a closure; the optimizer folds the literal to a closure constant
   with the folded body, so the event's argument is related, not equal *)
Definition nv_prog4 : ast :=
  AStatic n_tick_ex [AClosure [nv_x] (AOp op_add (AConst (VInt 1)) (AConst (VInt 2))) [] false []].
