(* Numbers of the value language.
   Int is Go's int (64 bit): Z with explicit wrap-around.
   Float is modelled WITHOUT an IEEE model: a finite float is the exact dyadic rational m * 2^e.
   Arithmetic is computed exactly; when the exact result is not representable in binary64 (or the
   operation is transcendental / involves Inf or NaN) the answer is None ("inexact"): the case is
   outside the model and is dropped from comparisons.  When the exact result IS representable,
   round-to-nearest returns it, so no rounding model is needed. *)
From P2 Require Import Base.Prelude.
Local Open Scope Z_scope.

(* ---------- int64 ---------- *)

Definition two63 : Z := 9223372036854775808.
Definition two64 : Z := 18446744073709551616.

Definition wrap64 (z : Z) : Z := ((z + two63) mod two64) - two63.
Definition in_int64 (z : Z) : bool := (- two63 <=? z) && (z <? two63).

(* ---------- floats ---------- *)

Inductive fl :=
| FFin (m e : Z)        (* m * 2^e; normal form: m odd, or m = 0 and e = 0 (that is +0) *)
| FNegZero
| FInf (neg : bool)
| FNaN.

(* strip factors of two from the mantissa; fuel = number of bits *)
Fixpoint norm_fuel (fuel : nat) (m e : Z) : Z * Z :=
  match fuel with
  | O => (m, e)
  | S f => if Z.even m then norm_fuel f (m / 2) (e + 1) else (m, e)
  end.

Definition norm (m e : Z) : Z * Z :=
  if m =? 0 then (0, 0) else norm_fuel (Z.to_nat (Z.log2 (Z.abs m)) + 1) m e.

Definition bitlen (m : Z) : Z := if m =? 0 then 0 else Z.log2 (Z.abs m) + 1.

(* is m * 2^e (normalised) a binary64 value? *)
Definition representable (m e : Z) : bool :=
  (m =? 0) || ((bitlen m <=? 53) && (-1074 <=? e) && (e + bitlen m <=? 1024)).

Definition mkfl (m e : Z) : option fl :=
  let '(m', e') := norm m e in
  if representable m' e' then Some (FFin m' e') else None.

Definition fl_of_int (z : Z) : option fl := mkfl z 0.

Definition fl_zero : fl := FFin 0 0.

Definition is_finite (a : fl) : bool := match a with FFin _ _ | FNegZero => true | _ => false end.

(* mantissa/exponent of a finite value (-0 as 0) *)
Definition fin_me (a : fl) : Z * Z := match a with FFin m e => (m, e) | _ => (0, 0) end.
Definition is_zero (a : fl) : bool := match a with FFin m _ => m =? 0 | FNegZero => true | _ => false end.
Definition is_negzero (a : fl) : bool := match a with FNegZero => true | _ => false end.

(* exact sum of two finite values on a common exponent *)
Definition add_me (a b : Z * Z) : Z * Z :=
  let '(m1, e1) := a in let '(m2, e2) := b in
  let e := Z.min e1 e2 in
  (m1 * 2 ^ (e1 - e) + m2 * 2 ^ (e2 - e), e).

Definition fl_add (a b : fl) : option fl :=
  if is_finite a && is_finite b then
    if is_zero a && is_zero b then
      Some (if is_negzero a && is_negzero b then FNegZero else fl_zero)
    else if is_zero a then Some b
    else if is_zero b then Some a
    else let '(m, e) := add_me (fin_me a) (fin_me b) in mkfl m e
  else None.

Definition fl_neg (a : fl) : fl :=
  match a with
  | FFin m e => if m =? 0 then FNegZero else FFin (- m) e
  | FNegZero => fl_zero
  | FInf n => FInf (negb n)
  | FNaN => FNaN
  end.

Definition fl_sub (a b : fl) : option fl := fl_add a (fl_neg b).

Definition sign_neg (a : fl) : bool :=
  match a with FFin m _ => m <? 0 | FNegZero => true | FInf n => n | FNaN => false end.

Definition fl_mul (a b : fl) : option fl :=
  if is_finite a && is_finite b then
    if is_zero a || is_zero b then
      Some (if xorb (sign_neg a) (sign_neg b) then FNegZero else fl_zero)
    else let '(m1, e1) := fin_me a in let '(m2, e2) := fin_me b in mkfl (m1 * m2) (e1 + e2)
  else None.

(* exact only when the quotient is a dyadic rational, e.g. division by a power of two *)
Definition fl_div (a b : fl) : option fl :=
  if is_finite a && is_finite b then
    if is_zero b then
      if is_zero a then Some FNaN else Some (FInf (xorb (sign_neg a) (sign_neg b)))
    else if is_zero a then Some (if xorb (sign_neg a) (sign_neg b) then FNegZero else fl_zero)
    else
      let '(m1, e1) := fin_me a in let '(m2, e2) := fin_me b in
      if (m1 mod m2 =? 0) then mkfl (m1 / m2) (e1 - e2) else None
  else None.

(* comparisons are exact on everything except that NaN is unordered *)
Definition fl_cmp_fin (a b : fl) : comparison :=
  let '(m, _) := add_me (fin_me a) (let '(m2, e2) := fin_me b in (- m2, e2)) in
  m ?= 0.

Definition fl_eqb (a b : fl) : bool :=
  match a, b with
  | FNaN, _ | _, FNaN => false
  | FInf x, FInf y => Bool.eqb x y
  | FInf _, _ | _, FInf _ => false
  | _, _ => match fl_cmp_fin a b with Eq => true | _ => false end
  end.

Definition fl_ltb (a b : fl) : bool :=
  match a, b with
  | FNaN, _ | _, FNaN => false
  | FInf x, FInf y => x && negb y
  | FInf x, _ => x
  | _, FInf y => negb y
  | _, _ => match fl_cmp_fin a b with Lt => true | _ => false end
  end.

(* ---------- decimal text ---------- *)

Fixpoint digits_fuel (fuel : nat) (n : Z) (acc : list N) : list N :=
  match fuel with
  | O => acc
  | S f => if n <? 10 then (Z.to_N n + 48)%N :: acc
           else digits_fuel f (n / 10) ((Z.to_N (n mod 10) + 48)%N :: acc)
  end.

(* decimal digits of a non-negative integer *)
Definition digits (n : Z) : list N := digits_fuel (Z.to_nat (Z.log2 (n + 1)) + 2) n [].

Definition int_to_str (z : Z) : str :=
  if z <? 0 then 45%N :: digits (- z) else digits z.

Fixpoint strip_trailing_zeros_rev (r : list N) : list N :=
  match r with
  | c :: r' => if (c =? 48)%N then strip_trailing_zeros_rev r' else r
  | [] => []
  end.

Definition strip_trailing_zeros (l : list N) : list N := rev (strip_trailing_zeros_rev (rev l)).

Definition two_digits (n : Z) : list N :=
  if n <? 10 then [48%N; (Z.to_N n + 48)%N] else digits n.

(* strconv.FormatFloat(f, 'g', -1, 64) for values whose shortest decimal form is their exact
   decimal expansion (at most 15 significant digits); None otherwise *)
Definition fl_to_str (a : fl) : option str :=
  match a with
  | FNaN => Some [78; 97; 78]%N
  | FInf false => Some [43; 73; 110; 102]%N
  | FInf true => Some [45; 73; 110; 102]%N
  | FNegZero => Some [45; 48]%N
  | FFin m e =>
      if m =? 0 then Some [48%N] else
      let neg := m <? 0 in
      let am := Z.abs m in
      (* value = n / 10^sh *)
      let '(n, sh) := if 0 <=? e then (am * 2 ^ e, 0) else (am * 5 ^ (- e), - e) in
      let ds := digits n in
      let dp := Z.of_nat (length ds) - sh in          (* position of the decimal point *)
      let sig := strip_trailing_zeros ds in
      let nd := Z.of_nat (length sig) in
      if 15 <? nd then None else
      let ex := dp - 1 in
      let body :=
        if (ex <? -4) || (6 <=? ex) then
          (* d.ddde+XX *)
          match sig with
          | d :: rest =>
              (d :: (match rest with [] => [] | _ => 46%N :: rest end)) ++
              [101%N; (if ex <? 0 then 45%N else 43%N)] ++ two_digits (Z.abs ex)
          | [] => []
          end
        else if dp <=? 0 then
          [48%N; 46%N] ++ repeat 48%N (Z.to_nat (- dp)) ++ sig
        else if nd <=? dp then
          sig ++ repeat 48%N (Z.to_nat (dp - nd))
        else
          firstn (Z.to_nat dp) sig ++ 46%N :: skipn (Z.to_nat dp) sig
      in Some (if neg then 45%N :: body else body)
  end.

(* float64 -> int conversion as Go's Int(f) for values in range; None when out of range / not finite *)
Definition fl_trunc (a : fl) : option Z :=
  match a with
  | FFin m e =>
      let z := if 0 <=? e then m * 2 ^ e else Z.quot m (2 ^ (- e)) in
      if in_int64 z then Some z else None
  | FNegZero => Some 0
  | _ => None
  end.
