(* The argument tuples of the stateless list stages (Sem/Lib.v: number, combine, combine3, combineN,
   cross) are pure list functions: they map element-wise related lists to element-wise related
   tuples, for ANY value relation that relates equal integers and relates lists element-wise.
   Used by Sem/LibProofs.v (C01 simulation relation) and Sem/OptLibProofs.v (C02 optimizer relation). *)
From P2 Require Import Base.Prelude Sem.Num Sem.Syntax Sem.Ops Sem.Lib Sem.Ref Sem.Gen Sem.Sim Sem.RelProofs.
Require Import Lia.

Section Data.
Variable R : value -> value -> Prop.
Hypothesis Rint : forall z, R (VInt z) (VInt z).
Hypothesis Rlist : forall l l', Forall2 R l l' -> R (VList l) (VList l').

Lemma number_args_rel : forall l l' i,
  Forall2 R l l' -> Forall2 (Forall2 R) (number_args i l) (number_args i l').
Proof.
  intros l l' i H; revert i. induction H as [|x x' l l' Hx Hl IH]; intros i; cbn [number_args]; constructor; auto.
Qed.

Lemma pair_args_rel : forall l l' a a',
  R a a' -> Forall2 R l l' -> Forall2 (Forall2 R) (pair_args a l) (pair_args a' l').
Proof.
  intros l l' a a' Ha H; revert a a' Ha.
  induction H as [|x x' l l' Hx Hl IH]; intros a a' Ha; cbn [pair_args]; constructor; auto.
Qed.

Lemma triple_args_rel : forall l l' a a' b b',
  R a a' -> R b b' -> Forall2 R l l' -> Forall2 (Forall2 R) (triple_args a b l) (triple_args a' b' l').
Proof.
  intros l l' a a' b b' Ha Hb H; revert a a' b b' Ha Hb.
  induction H as [|x x' l l' Hx Hl IH]; intros a a' b b' Ha Hb; cbn [triple_args]; constructor; auto.
Qed.

Lemma windows_rel n : forall l l',
  Forall2 R l l' -> Forall2 (Forall2 R) (windows n l) (windows n l').
Proof.
  intros l l' H. induction H as [|x x' l l' Hx Hl IH]; cbn [windows]; [constructor|].
  assert (HF : Forall2 R (x :: l) (x' :: l')) by (constructor; auto).
  rewrite <- (Forall2_length' _ _ _ HF).
  destruct (Nat.leb n (length (x :: l))); [|constructor].
  constructor; [|exact IH]. constructor; [|constructor]. apply Rlist. apply Forall2_firstn; exact HF.
Qed.

Lemma cross_args_rel : forall l1 l1' l2 l2',
  Forall2 R l1 l1' -> Forall2 R l2 l2' -> Forall2 (Forall2 R) (cross_args l1 l2) (cross_args l1' l2').
Proof.
  intros l1 l1' l2 l2' H1 H2. induction H1 as [|a a' l1 l1' Ha Hl IH]; cbn [cross_args]; [constructor|].
  apply Forall2_app'; [|exact IH].
  clear IH Hl. induction H2 as [|b b' l2 l2' Hb H2 IH2]; cbn [map]; constructor; auto.
Qed.

End Data.
