(* ast_eqb / value_eqb (Sem/AstEq.v) decide Leibniz equality of ASTs and values. *)
From P2 Require Import Base.Prelude Base.PreludeProofs Sem.Num Sem.Syntax Sem.AstEq.
Require Import Lia ZifyBool Bool.

Lemma fl_eqb_eq : forall f g, fl_eqb f g = true -> f = g.
Proof.
  intros f g. destruct f, g; cbn; try discriminate; try reflexivity; intros H.
  - apply andb_true_iff in H. destruct H as [H1 H2]. f_equal; lia.
  - apply Bool.eqb_prop in H. congruence.
Qed.

Lemma fl_eqb_refl : forall f, fl_eqb f f = true.
Proof. intros [m e| |b|]; cbn; try reflexivity; [rewrite !Z.eqb_refl; reflexivity|destruct b; reflexivity]. Qed.

Lemma names_eqb_eq : forall a b, names_eqb a b = true -> a = b.
Proof.
  induction a as [|x a IH]; intros [|y b]; cbn; try discriminate; [reflexivity|]. intros H.
  apply andb_true_iff in H. destruct H as [H1 H2]. apply str_eqb_eq in H1. subst. f_equal. apply IH. exact H2.
Qed.

Lemma names_eqb_refl : forall a, names_eqb a a = true.
Proof. induction a as [|x a IH]; cbn; [reflexivity|]. rewrite str_eqb_refl. exact IH. Qed.

Ltac split_and H :=
  repeat match type of H with
         | (_ && _) = true => let H1 := fresh H in apply andb_true_iff in H; destruct H as [H H1]; try split_and H1
         end.

Fixpoint ast_eqb_sound (a b : ast) {struct a} : ast_eqb a b = true -> a = b
with value_eqb_sound (v w : value) {struct v} : value_eqb v w = true -> v = w.
Proof.
  - assert (Hl : forall l m : list ast,
             (fix go (l m : list ast) : bool :=
                match l, m with
                | [], [] => true
                | x :: l', y :: m' => ast_eqb x y && go l' m'
                | _, _ => false
                end) l m = true -> l = m).
    { induction l as [|x l IH]; intros [|y m]; try discriminate; [reflexivity|]. intros H.
      apply andb_true_iff in H. destruct H as [H1 H2]. f_equal; [apply ast_eqb_sound; exact H1|apply IH; exact H2]. }
    destruct a, b; cbn [ast_eqb]; try discriminate; intros H.
    + f_equal. apply value_eqb_sound. exact H.
    + f_equal. apply str_eqb_eq. exact H.
    + split_and H. f_equal; [apply str_eqb_eq; assumption|apply ast_eqb_sound; assumption|apply ast_eqb_sound; assumption].
    + split_and H. f_equal; apply ast_eqb_sound; assumption.
    + apply andb_true_iff in H. destruct H as [H H1]. apply andb_true_iff in H. destruct H as [Hv Hd].
      f_equal; [apply ast_eqb_sound; assumption| |apply ast_eqb_sound; assumption]. clear Hv Hd.
      revert cases0 H1. induction cases as [|[c r] l IH]; intros [|[c' r'] m]; try discriminate; [reflexivity|]. intros H1.
      split_and H1. f_equal; [f_equal; apply ast_eqb_sound; assumption|apply IH; assumption].
    + split_and H. f_equal; apply ast_eqb_sound; assumption.
    + split_and H. f_equal; [apply str_eqb_eq; assumption|apply ast_eqb_sound; assumption].
    + split_and H. f_equal; [apply str_eqb_eq; assumption|apply ast_eqb_sound; assumption|apply ast_eqb_sound; assumption].
    + split_and H. f_equal; [apply names_eqb_eq; assumption|apply ast_eqb_sound; assumption|apply names_eqb_eq; assumption
                            |apply Bool.eqb_prop; assumption|apply str_eqb_eq; assumption].
    + f_equal. apply Hl. exact H.
    + split_and H. f_equal; apply ast_eqb_sound; assumption.
    + f_equal. revert m0 H. induction m as [|[k x] l IH]; intros [|[k' y] m']; try discriminate; [reflexivity|]. intros H.
      split_and H. f_equal; [f_equal; [apply str_eqb_eq; assumption|apply ast_eqb_sound; assumption]|apply IH; assumption].
    + split_and H. f_equal; [apply ast_eqb_sound; assumption|apply str_eqb_eq; assumption].
    + split_and H. f_equal; [apply ast_eqb_sound; assumption|apply Hl; assumption].
    + split_and H. f_equal; [apply str_eqb_eq; assumption|apply Hl; assumption].
    + split_and H. f_equal; [apply ast_eqb_sound; assumption|apply str_eqb_eq; assumption|apply Hl; assumption].
  - destruct v, w; cbn [value_eqb]; try discriminate; try (destruct thrown; discriminate); intros H.
    + f_equal. lia.
    + f_equal. apply fl_eqb_eq. exact H.
    + f_equal. apply str_eqb_eq. exact H.
    + f_equal. apply Bool.eqb_prop. exact H.
    + f_equal. revert l0 H. induction l as [|x l IH]; intros [|y m]; try discriminate; [reflexivity|]. intros H.
      split_and H. f_equal; [apply value_eqb_sound; assumption|apply IH; assumption].
    + f_equal. revert m0 H. induction m as [|[k x] l IH]; intros [|[k' y] m']; try discriminate; [reflexivity|]. intros H.
      split_and H. f_equal; [f_equal; [apply str_eqb_eq; assumption|apply value_eqb_sound; assumption]|apply IH; assumption].
    + apply andb_true_iff in H. destruct H as [H H2]. split_and H.
      f_equal; [apply names_eqb_eq; assumption|apply ast_eqb_sound; assumption| |apply str_eqb_eq; assumption].
      clear - H2 value_eqb_sound. revert cap0 H2. induction cap as [|[k x] l IH]; intros [|[k' y] m']; try discriminate; [reflexivity|]. intros H2.
      split_and H2. f_equal; [f_equal; [apply str_eqb_eq; assumption|apply value_eqb_sound; assumption]|apply IH; assumption].
    + match goal with |- VErrText ?t1 = VErrText ?t2 => destruct t1, t2 end; try discriminate; [|reflexivity].
      f_equal. f_equal. apply str_eqb_eq. exact H.
Qed.

(* ... and it accepts every tree compared with itself: the tie check cannot fail on equal trees *)
Fixpoint ast_eqb_refl (a : ast) {struct a} : ast_eqb a a = true
with value_eqb_refl (v : value) {struct v} : value_eqb v v = true.
Proof.
  - assert (Hl : forall l : list ast,
             (fix go (l m : list ast) : bool :=
                match l, m with
                | [], [] => true
                | x :: l', y :: m' => ast_eqb x y && go l' m'
                | _, _ => false
                end) l l = true).
    { induction l as [|x l IH]; [reflexivity|]. rewrite ast_eqb_refl. exact IH. }
    destruct a; cbn [ast_eqb]; rewrite ?str_eqb_refl, ?names_eqb_refl, ?ast_eqb_refl, ?Hl, ?Bool.eqb_reflx; cbn [andb];
      try reflexivity.
    + apply value_eqb_refl.
    + induction cases as [|[c r] l IH]; [reflexivity|]. rewrite !ast_eqb_refl. exact IH.
    + induction m as [|[k x] l IH]; [reflexivity|]. rewrite str_eqb_refl, ast_eqb_refl. exact IH.
  - destruct v; cbn [value_eqb]; rewrite ?str_eqb_refl, ?names_eqb_refl, ?ast_eqb_refl, ?Bool.eqb_reflx; cbn [andb];
      try reflexivity.
    + apply Z.eqb_refl.
    + apply fl_eqb_refl.
    + induction l as [|x l IH]; [reflexivity|]. rewrite value_eqb_refl. exact IH.
    + induction m as [|[k x] l IH]; [reflexivity|]. rewrite str_eqb_refl, value_eqb_refl. exact IH.
    + induction cap as [|[k x] l IH]; [reflexivity|]. rewrite str_eqb_refl, value_eqb_refl. exact IH.
    + destruct thrown; [apply str_eqb_refl|reflexivity].
Qed.

Theorem ast_eqb_iff : forall a b, ast_eqb a b = true <-> a = b.
Proof. intros a b. split; [apply ast_eqb_sound|intros <-; apply ast_eqb_refl]. Qed.
