(* Example programs (annotated ASTs) used by the non-vacuity and sharpness examples of Props/C01.v.
   Definitions only. *)
From P2 Require Import Base.Prelude Sem.Num Sem.Syntax Sem.Ops Sem.Lib Sem.Ref Sem.Gen Sem.Sim.
Local Open Scope N_scope.
Definition ex_nx : name := [120]. Definition ex_nn : name := [110]. Definition ex_nfac : name := [102;97;99].
Definition ex_ng : name := [103]. Definition ex_ny : name := [121]. Definition ex_nm : name := [109].
Definition ex_nf : name := [102]. Definition ex_np : name := [112]. Definition ex_nh : name := [104].
Definition ex_na : name := [97]. Definition ex_nb : name := [98]. Definition ex_nc : name := [99].
Definition ex_ci (z : Z) := AConst (VInt z).
Definition ex_prog : ast :=
  ALet ex_nfac (AClosure [ex_nn]
               (AIf (AOp op_lt (AIdent ex_nn) (ex_ci 2)) (ex_ci 1)
                    (AOp op_mul (AIdent ex_nn) (ACall (AIdent ex_nfac) [AOp op_sub (AIdent ex_nn) (ex_ci 1)])))
               [] true ex_nfac)
 (ALet ex_nh (AClosure [ex_na] (AClosure [ex_nb] (AClosure [ex_nc]
               (AOp op_add (AOp op_add (AOp op_add (AIdent ex_na) (AIdent ex_nb)) (AIdent ex_nc)) (AIdent ex_nx))
               [ex_na; ex_nb; ex_nx] false []) [ex_na; ex_nx] false []) [ex_nx] false [])
 (ALet ex_ng (AClosure [ex_na; ex_nb] (AIdent ex_nb) [] false [])
 (ALet ex_nm (AMap [(ex_nf, AClosure [ex_np] (AOp op_add (AIdent ex_np) (AIdent ex_nx)) [ex_nx] false [])])
   (AOp op_add (ACall (AIdent ex_nfac) [AIdent ex_nx])
   (AOp op_add (ACall (ACall (ACall (AIdent ex_nh) [ex_ci 1]) [ex_ci 2]) [ex_ci 3])
   (AOp op_add (ACall (AIdent ex_ng) [AIdent ex_nx; ALet ex_ny (AOp op_add (AIdent ex_nx) (ex_ci 1)) (AIdent ex_ny)])
               (AMethod (AIdent ex_nm) ex_nf [ALet ex_ny (ex_ci 10) (AIdent ex_ny)]))))))).

Definition bad_this : ast := ACall (AClosure [ex_np] (AIdent ex_nf) [ex_nf] false ex_nf) [ex_ci 1].
Definition arity_in_dead_branch : ast := AIf (AConst (VBool true)) (ex_ci 1) (AStatic n_sqr []).
