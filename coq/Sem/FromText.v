(* C01 from the TEXT: composition of
     text --tokenizer model (Lex/Tok.v, C15)--> tokens --parser model (Syn/Parse.v, C03)--> parser AST
          --Syn/Lower.v--> semantic AST --generator model (Sem/Gen.v)--> outcome
   with the reference semantics (Sem/Ref.v) of the semantic AST, for the value configuration value.New().
   The parts: C03_text_to_ast / parse_complete_full (text to annotated AST, every layout) and C01_generated. *)
From P2 Require Import Base.Prelude Lex.Token Sem.Num Sem.Syntax Sem.Ops Sem.Lib Sem.Ref Sem.Gen Sem.Sim
  Sem.RelProofs Sem.GenProofs Generated.ValueCfg.
From P2 Require Import Syn.Parse Syn.Render Syn.Full Syn.FullProofs Syn.TextToAst Syn.RenderText Syn.Lower.
From P2 Require Lex.Tok Lex.TokProofs.

(* ---------- the value configuration ---------- *)
Lemma value_table_ok : table_ok value_pcfg = true.
Proof. vm_compute. reflexivity. Qed.

(* keywords of value.New() (value/value.go SetKeyWords) *)
Definition value_keywords : list str :=
  [[108; 101; 116]; [102; 117; 110; 99]; [105; 102]; [116; 104; 101; 110]; [101; 108; 115; 101];
   [115; 119; 105; 116; 99; 104]; [99; 97; 115; 101]; [100; 101; 102; 97; 117; 108; 116];
   [99; 111; 110; 115; 116]; [116; 114; 121]; [99; 97; 116; 99; 104]]%N.

(* the tokenizer configuration Parser.Parse builds for value.New(): binary operators, "=", "->", prefix operators;
   no text operators; comments as configured (value.New(): off); comfort off; unicode classes as parameters *)
Definition value_tcfg (comments : bool) (letter number : N -> bool) : P2.Lex.Tok.tcfg :=
  P2.Lex.Tok.mkCfg (map fst vcfg_ops ++ [[61]; [45; 62]]%N ++ vcfg_unary) [] value_keywords comments false
    P2.Lex.Tok.MSimple letter number.

Lemma value_ops_ok : forall comments letter number, P2.Lex.TokProofs.ops_ok (value_tcfg comments letter number).
Proof.
  intros comments letter number o Ho H0. cbn in Ho.
  repeat (destruct Ho as [<-|Ho]; [cbn in H0; repeat (destruct H0 as [H0|H0]; [discriminate|]); contradiction|]).
  contradiction.
Qed.

(* ---------- text -> semantic AST -> generated function ---------- *)
(* tokenize, parse with the identifiers of Generate(exp, argnames...), lower *)
Definition text_ast (tc : P2.Lex.Tok.tcfg) (argnames : list str) (text : list N) : option ast :=
  match parse_tokens value_pcfg (value_ids argnames) (P2.Lex.Tok.tokenize tc text) with
  | POk x => lower x
  | _ => None
  end.

(* Generate(text, argnames...) then Eval(args...) in the models; a text that does not parse is a Generate error *)
Definition run_text (tc : P2.Lex.Tok.tcfg) (known : list (N * list name)) (fuel : nat) (argnames : list name)
  (text : list N) (args : list value) : res value :=
  match text_ast tc argnames text with
  | Some a => run known fuel a argnames args
  | None => Err None
  end.

Theorem from_text : forall tc known fuel argnames items r e u a args1 args2,
  P2.Lex.TokProofs.ops_ok tc -> P2.Lex.TokProofs.wf_layout tc tInvalid false items ->
  P2.Lex.TokProofs.lexeme_tokens items = fflatten value_pcfg r ->
  fwf value_pcfg r = true -> ferase value_pcfg (value_ids argnames) r = Some (e, u) -> lower e = Some a ->
  gen_check (S (ast_size a)) (map Some argnames) [] a = true -> side_ok a = true ->
  Forall2 vrel args1 args2 -> length args2 = length argnames ->
  text_ast tc argnames (P2.Lex.Tok.layout_text items) = Some a /\
  orel (eval known fuel (combine argnames args1) a)
       (run_text tc known fuel argnames (P2.Lex.Tok.layout_text items) args2).
Proof.
  intros tc known fuel argnames items r e u a args1 args2 Ho Hw Hl W E La G S V L.
  assert (T : text_ast tc argnames (P2.Lex.Tok.layout_text items) = Some a).
  { unfold text_ast. rewrite (text_to_ast tc value_pcfg (value_ids argnames) items r e u Ho Hw Hl value_table_ok W E).
    exact La. }
  split; [exact T|]. unfold run_text. rewrite T. apply C01_generated_lemma; assumption.
Qed.

(* the same from a computable hypothesis: the tokenizer model delivers exactly the tokens of the tree *)
Theorem from_text_tokens : forall tc known fuel argnames text r e u a args1 args2,
  map untok (P2.Lex.Tok.tokenize tc text) = fflatten value_pcfg r ->
  fwf value_pcfg r = true -> ferase value_pcfg (value_ids argnames) r = Some (e, u) -> lower e = Some a ->
  gen_check (S (ast_size a)) (map Some argnames) [] a = true -> side_ok a = true ->
  Forall2 vrel args1 args2 -> length args2 = length argnames ->
  text_ast tc argnames text = Some a /\
  orel (eval known fuel (combine argnames args1) a) (run_text tc known fuel argnames text args2).
Proof.
  intros tc known fuel argnames text r e u a args1 args2 Ht W E La G S V L.
  assert (T : text_ast tc argnames text = Some a).
  { unfold text_ast, parse_tokens. rewrite Ht.
    rewrite (parse_complete_full value_pcfg value_table_ok (value_ids argnames) r e u W E). exact La. }
  split; [exact T|]. unfold run_text. rewrite T. apply C01_generated_lemma; assumption.
Qed.

(* blanks, line breaks and comments between the same lexemes do not change the generated function *)
Theorem text_layout_irrelevant_run : forall tc known fuel argnames items items' args,
  P2.Lex.TokProofs.ops_ok tc ->
  P2.Lex.TokProofs.wf_layout tc tInvalid false items -> P2.Lex.TokProofs.wf_layout tc tInvalid false items' ->
  P2.Lex.TokProofs.lexeme_tokens items = P2.Lex.TokProofs.lexeme_tokens items' ->
  run_text tc known fuel argnames (P2.Lex.Tok.layout_text items) args
  = run_text tc known fuel argnames (P2.Lex.Tok.layout_text items') args.
Proof.
  intros tc known fuel argnames items items' args Ho H1 H2 He. unfold run_text, text_ast.
  rewrite (text_layout_irrelevant tc value_pcfg (value_ids argnames) items items' Ho H1 H2 He). reflexivity.
Qed.

(* ---------- the canonical text of a program tree (Syn/RenderText.v) ---------- *)
(* for the value configuration the conditions of [spellable] on the configuration hold as soon as the blank is neither
   a letter nor a digit: the table is usable, comfort mode is off, no operator contains a blank, a line break or NUL *)
Lemma value_cfg_spell : forall comments letter number, letter 32%N = false -> number 32%N = false ->
  cfg_spell (value_tcfg comments letter number) = true.
Proof.
  intros comments letter number Hl Hn. unfold cfg_spell.
  change (P2.Lex.Tok.c_letter (value_tcfg comments letter number) 32%N) with (letter 32%N).
  change (P2.Lex.Tok.c_number (value_tcfg comments letter number) 32%N) with (number 32%N).
  rewrite Hl, Hn. vm_compute. reflexivity.
Qed.

Lemma value_spellable : forall comments letter number r, letter 32%N = false -> number 32%N = false ->
  spellable (value_tcfg comments letter number) value_pcfg r
  = forallb (spell_tok (value_tcfg comments letter number)) (fflatten value_pcfg r).
Proof.
  intros comments letter number r Hl Hn. unfold spellable, spellable_toks.
  rewrite value_table_ok, (value_cfg_spell comments letter number Hl Hn). reflexivity.
Qed.

(* text -> tokens -> annotated AST for the canonical text, value configuration *)
Theorem value_render_roundtrip : forall comments letter number argnames r e u,
  letter 32%N = false -> number 32%N = false ->
  forallb (spell_tok (value_tcfg comments letter number)) (fflatten value_pcfg r) = true ->
  fwf value_pcfg r = true -> ferase value_pcfg (value_ids argnames) r = Some (e, u) ->
  parse_tokens value_pcfg (value_ids argnames)
    (P2.Lex.Tok.tokenize (value_tcfg comments letter number) (render_text value_pcfg r)) = POk e.
Proof.
  intros comments letter number argnames r e u Hl Hn Hs W E.
  apply (render_roundtrip _ value_pcfg (value_ids argnames) r e u); [|exact W|exact E].
  rewrite value_spellable by assumption. exact Hs.
Qed.

(* C01 from the canonical text: from_text with the layout hypotheses replaced by the decidable [spellable] *)
Theorem from_rendered_text : forall tc known fuel argnames r e u a args1 args2,
  spellable tc value_pcfg r = true ->
  fwf value_pcfg r = true -> ferase value_pcfg (value_ids argnames) r = Some (e, u) -> lower e = Some a ->
  gen_check (S (ast_size a)) (map Some argnames) [] a = true -> side_ok a = true ->
  Forall2 vrel args1 args2 -> length args2 = length argnames ->
  text_ast tc argnames (render_text value_pcfg r) = Some a /\
  orel (eval known fuel (combine argnames args1) a)
       (run_text tc known fuel argnames (render_text value_pcfg r) args2).
Proof.
  intros tc known fuel argnames r e u a args1 args2 Hs W E La G S V L.
  unfold spellable in Hs. apply andb_true_iff in Hs. destruct Hs as [_ Hs].
  destruct (render_layout tc (fflatten value_pcfg r) Hs) as (Ho & Hw & Hl & Hx).
  unfold render_text. rewrite <- Hx.
  exact (from_text tc known fuel argnames (layout_of (fflatten value_pcfg r)) r e u a args1 args2 Ho Hw Hl W E La G S V L).
Qed.
