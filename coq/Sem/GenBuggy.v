(* The call-site discipline of the PINNED commit (before the repair "locals created inside call
   arguments no longer overwrite pending arguments"), on the fragment
   const / ident / let / operator / closure literal / closure call:

   argument k of a call is COMPILED with the caller's own slot names (no reserved slots for the k
   values already pushed), while at run time it is evaluated after those k pushes.  A `let` inside
   argument k therefore pushes its value at run-time position offs+size+k but is read back through
   the compile-time index size, which is the slot of the first pending argument.

   This file exists to show that the reservation in Sem/Gen.v (am ++ repeat None pushed) is what
   makes the slot discipline lexically scoped: without it the model computes 505 where the
   reference semantics computes 506 (Sem/GenBuggyProofs.v). *)
From P2 Require Import Base.Prelude Sem.Num Sem.Syntax Sem.Ops Sem.Lib Sem.Gen.

Fixpoint exec_buggy (fuel : nat) (am : list (option name)) (cm : list name)
         (st : list value) (offs size : nat) (cs : list value) (a : ast) {struct fuel}
  : res value * list value :=
  match fuel with
  | O => (OOF, st)
  | S f =>
    let call := fun (c : value) (n : nat) (st' : list value) (base : nat) =>
      match c with
      | VClo ps body cap self =>
          exec_buggy f (map Some ps) (clo_cm cap self) st' base n (clo_cs cap self c) body
      | _ => (Err None, st')
      end in
    (* the pinned discipline: the compile-time names stay [am], only the run-time size grows *)
    let fix args_loop (l : list ast) (pushed : nat) (st0 : list value)
      : res unit * list value :=
      match l with
      | [] => (Ok tt, st0)
      | x :: r =>
          match exec_buggy f am cm st0 offs (size + pushed) cs x with
          | (Ok v, st1) => args_loop r (S pushed) (set_slot st1 (offs + size + pushed) v)
          | (Err t, st1) => (Err t, st1)
          | (Panic, st1) => (Panic, st1)
          | (OOF, st1) => (OOF, st1)
          | (Unsup, st1) => (Unsup, st1)
          end
      end in
    match a with
    | AConst v => (Ok v, st)
    | AIdent x => (match resolve am cm st offs cs x with Some v => Ok v | None => Err None end, st)
    | ALet x v b =>
        match exec_buggy f am cm st offs size cs v with
        | (Ok vv, st1) => exec_buggy f (am ++ [Some x]) cm (set_slot st1 (offs + size) vv) offs (S size) cs b
        | r => r
        end
    | AOp op x y =>
        match exec_buggy f am cm st offs size cs x with
        | (Ok av, st1) =>
            match exec_buggy f am cm st1 offs size cs y with
            | (Ok bv, st2) => (calc op av bv, st2)
            | r => r
            end
        | r => r
        end
    | AClosure ps body outer recursive this =>
        (match capture am cm st offs cs outer with
         | Some cap => Ok (VClo ps body cap (if recursive then this else []))
         | None => Err None
         end, st)
    | ACall fn args =>
        match exec_buggy f am cm st offs size cs fn with
        | (Ok fv, st1) =>
            match fv with
            | VClo ps _ _ _ =>
                if Nat.eqb (length args) (length ps) then
                  match args_loop args 0%nat st1 with
                  | (Ok _, st2) => call fv (length args) st2 (offs + size)
                  | (Err t, st2) => (Err t, st2)
                  | (Panic, st2) => (Panic, st2)
                  | (OOF, st2) => (OOF, st2)
                  | (Unsup, st2) => (Unsup, st2)
                  end
                else (Err None, st1)
            | _ => (Err None, st1)
            end
        | r => r
        end
    | _ => (Unsup, st)       (* outside the fragment *)
    end
  end.

Definition run_buggy (fuel : nat) (a : ast) (argnames : list name) (args : list value) : res value :=
  fst (exec_buggy fuel (map Some argnames) [] args 0 (length args) [] a).

(* func f(a,b) a*100+b; f(x, let y=x+1; y)   as the parser builds it (optimizer off) *)
Definition nm (c : N) : name := [c].
Definition witness_ast : ast :=
  ALet (nm 102)
       (AClosure [nm 97; nm 98]
                 (AOp op_add (AOp op_mul (AIdent (nm 97)) (AConst (VInt 100))) (AIdent (nm 98)))
                 [] false (nm 102))
       (ACall (AIdent (nm 102))
              [AIdent (nm 120);
               ALet (nm 121) (AOp op_add (AIdent (nm 120)) (AConst (VInt 1))) (AIdent (nm 121))]).
