(* Models of the two built-ins that are derived from = and <:
   - switch: the case loop of funcGen.GenerateFunc (case *parser2.Switch) over g.isEqual = fg.equal,
   - order: List.Order + sort.Sort with Less(i,j) = fg.less(item i, item j).
   Definitions only; the laws are in Sem/OrderSwitchLaws.v. *)
From P2 Require Import Base.Prelude Sem.Num Sem.Syntax Sem.Ops.

(* ---------- switch ---------- *)

(* switch x case c1: .. case c2: .. default ..: the number (from n) of the case taken, 0 = the default.
   The constants are compared in order with fg.equal(x, c); the first true wins, an error ends the loop. *)
Fixpoint switch_model (x : value) (cs : list value) (n : N) : res N :=
  match cs with
  | [] => Ok 0%N
  | c :: cs' => match equal_fg x c with
                | Ok true => Ok n
                | Ok false => switch_model x cs' (N.succ n)
                | Err t => Err t | Panic => Panic | OOF => OOF | Unsup => Unsup
                end
  end.

(* the same loop returning the selected result value *)
Fixpoint switch_pick (x : value) (crs : list (value * value)) (d : value) : res value :=
  match crs with
  | [] => Ok d
  | (c, r) :: rest => match equal_fg x c with
                      | Ok true => Ok r
                      | Ok false => switch_pick x rest d
                      | Err t => Err t | Panic => Panic | OOF => OOF | Unsup => Unsup
                      end
  end.

(* ---------- order ---------- *)

(* l.order(x->x): List.Order copies the items and calls sort.Sort with Less(i,j) = fg.less(item i, item j);
   an error of fg.less is remembered (the first one), Less answers false, and the error is returned
   after the sort.  For at most 12 elements sort.Sort (pdqsort) IS this insertion sort:
     for i := 1; i < n; i++ { for j := i; j > 0 && Less(j, j-1); j-- { Swap(j, j-1) } }
   The model is the insertion sort for every length; the correspondence run uses it up to 12 elements
   (Run/C14Run.v order_model12) and judges longer lists by the checker order_allowed alone. *)

(* element x moves left over rev_done (= the sorted part, last element first) while x < its left neighbour;
   right = the elements it has passed *)
Fixpoint order_ins (x : value) (rev_done right : list value) (err : bool) : res (list value * bool) :=
  match rev_done with
  | [] => Ok (x :: right, err)
  | y :: rd' =>
      match vless x y with
      | Ok true => order_ins x rd' (y :: right) err               (* Swap(j, j-1), go on to the left *)
      | Ok false => Ok (rev rev_done ++ x :: right, err)
      | Err _ | Panic => Ok (rev rev_done ++ x :: right, true)    (* Less = false, error registered *)
      | OOF => OOF | Unsup => Unsup
      end
  end.

Fixpoint order_loop (done todo : list value) (err : bool) : res (list value * bool) :=
  match todo with
  | [] => Ok (done, err)
  | x :: todo' =>
      match order_ins x (rev done) [] err with
      | Ok (done', err') => order_loop done' todo' err'
      | Err t => Err t | Panic => Panic | OOF => OOF | Unsup => Unsup
      end
  end.

Definition order_model (l : list value) : res value :=
  match order_loop [] l false with
  | Ok (out, false) => Ok (VList out)
  | Ok (_, true) => Err None
  | Err t => Err t | Panic => Panic | OOF => OOF | Unsup => Unsup
  end.

(* the comparisons Less(x, y) the sort makes, in order *)
Fixpoint ins_cmps (x : value) (rev_done : list value) : list (value * value) :=
  match rev_done with
  | [] => []
  | y :: rd' => (x, y) :: match vless x y with Ok true => ins_cmps x rd' | _ => [] end
  end.

Fixpoint loop_cmps (done todo : list value) : list (value * value) :=
  match todo with
  | [] => []
  | x :: todo' =>
      ins_cmps x (rev done) ++
      match order_ins x (rev done) [] false with
      | Ok (done', _) => loop_cmps done' todo'
      | _ => []
      end
  end.

Definition order_cmps (l : list value) : list (value * value) := loop_cmps [] l.

(* ---------- the two classes of values that < orders ---------- *)

(* numbers that the exact model covers: ints below 2^53, floats; [num_ok] also excludes NaN *)
Definition num_any (v : value) : bool :=
  match v with VInt z => (- 9007199254740992 <? z)%Z && (z <? 9007199254740992)%Z | VFloat _ => true | _ => false end.
Definition num_ok (v : value) : bool :=
  match v with VFloat FNaN => false | _ => num_any v end.
Definition is_str (v : value) : bool := match v with VStr _ => true | _ => false end.

(* all elements numbers (no NaN) or all elements strings: < is a strict weak order on the list *)
Definition sortable (l : list value) : bool := forallb num_ok l || forallb is_str l.

(* ---------- groupByEqual ---------- *)

(* l.groupByEqual(k->k): the keys of the groups in order of first occurrence.  Every key is compared with the
   keys of the existing groups, in order, by fg.equal(group key, key); the first true wins, an error ends
   the whole operation, otherwise the key opens a new group. *)
Fixpoint in_groups (gs : list value) (k : value) : res bool :=
  match gs with
  | [] => Ok false
  | g :: r => match equal_fg g k with
              | Ok true => Ok true
              | Ok false => in_groups r k
              | e => e
              end
  end.

Fixpoint group_keys (gs l : list value) : res (list value) :=
  match l with
  | [] => Ok gs
  | k :: r => match in_groups gs k with
              | Ok true => group_keys gs r
              | Ok false => group_keys (gs ++ [k]) r
              | Err t => Err t | Panic => Panic | OOF => OOF | Unsup => Unsup
              end
  end.

(* the number of groups *)
Definition group_eq_model (l : list value) : res N :=
  match group_keys [] l with
  | Ok gs => Ok (N.of_nat (length gs))
  | Err t => Err t | Panic => Panic | OOF => OOF | Unsup => Unsup
  end.
