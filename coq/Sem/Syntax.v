(* Abstract syntax (as parser2.go builds it, with the annotations the generator reads),
   run-time values and evaluation outcomes of the value language. *)
From P2 Require Import Base.Prelude Sem.Num.

Definition name := str.

(* AST and values are mutually recursive: a constant node holds a value (the optimizer folds
   sub-expressions to constants of any kind, including lists, maps and closures), and a closure
   value holds the AST of its body.  Without the optimizer only number and string literals,
   true/false/pi and let-bound literals occur as constants. *)
Inductive ast :=
| AConst (v : value)
| AIdent (x : name)
| ALet (x : name) (v b : ast)
| AIf (c t e : ast)
| ASwitch (v : ast) (cases : list (ast * ast)) (d : ast)      (* (CaseConst, Value) *)
| ATry (t c : ast)
| AUnary (op : name) (a : ast)
| AOp (op : name) (a b : ast)
| AClosure (ps : list name) (body : ast) (outer : list name) (recursive : bool) (this : name)
      (* ClosureLiteral{Names, Func, OuterIdents, Recursive, ThisName}; this = [] when there is none *)
| AList (l : list ast)
| AIndex (l i : ast)                                          (* ListAccess{List, Index} *)
| AMap (m : list (name * ast))
| AMember (m : ast) (key : name)                              (* MapAccess *)
| ACall (f : ast) (args : list ast)                           (* FunctionCall through a closure value *)
| AStatic (f : name) (args : list ast)                        (* FunctionCall{Func: Ident{IsFunc}}: static function *)
| AMethod (recv : ast) (mname : name) (args : list ast)       (* MethodCall *)

(* Values.  A closure carries its parameter names, its body, the values it captured by name and the
   name under which it can call itself ([] = none).  The compiled semantics captures exactly the
   OuterIdents, the reference semantics the whole environment. *)
with value :=
| VInt (z : Z)
| VFloat (f : fl)
| VStr (s : str)
| VBool (b : bool)
| VList (l : list value)
| VMap (m : list (str * value))
| VClo (ps : list name) (body : ast) (cap : list (name * value)) (self : name)
| VErrText (thrown : option str).
      (* the message of a caught error as handed to a catch closure: opaque except that it contains
         the text passed to throw *)

Inductive res (A : Type) :=
| Ok (a : A)
| Err (thrown : option str)   (* an error value returned by the evaluation; Some t: t went through throw *)
| Panic                       (* a Go panic: not intercepted by try/catch; the top-level recover makes it an error *)
| OOF                         (* the model ran out of fuel (modelling artefact) *)
| Unsup.                      (* outside the modelled fragment (inexact float, unmodelled built-in): case is skipped *)
Arguments Ok {A} a.
Arguments Err {A} thrown.
Arguments Panic {A}.
Arguments OOF {A}.
Arguments Unsup {A}.

Definition bind {A B} (r : res A) (k : A -> res B) : res B :=
  match r with
  | Ok a => k a
  | Err t => Err t
  | Panic => Panic
  | OOF => OOF
  | Unsup => Unsup
  end.

Fixpoint lookup (x : name) (env : list (name * value)) : option value :=
  match env with
  | [] => None
  | (y, v) :: r => if str_eqb x y then Some v else lookup x r
  end.

Fixpoint mem_name (x : name) (l : list name) : bool :=
  match l with
  | [] => false
  | y :: r => str_eqb x y || mem_name x r
  end.

(* what the generated function returns to its caller: the top-level recover turns a panic into an error *)
Inductive outcome :=
| OVal (v : value)
| OErr (thrown : option str)
| OSkip          (* out of fuel or outside the modelled fragment *).

Definition outcome_of (r : res value) : outcome :=
  match r with
  | Ok v => OVal v
  | Err t => OErr t
  | Panic => OErr None
  | OOF | Unsup => OSkip
  end.
