(* The recursion guard of funcGen.Stack (stackStorage.set: "stack overflow; maybe a recursive function
   does not terminate" when a value is APPENDED to a storage at an index n with base + n > 10000) as a
   wrapper around the generator model: Gen.exec is not touched.  [guard_step] is a copy of the GenStep
   section of Sem/Sim.v (= one step of Gen.exec, see GenProofs.exec_S) in which
     * every executor carries the depth base db (Stack.base: the slots the callers use on other
       storages; NewEmptyStackBelow / CreateFrame pass it on),
     * each of the five pushes (let, call argument, catch argument, method receiver x2) first asks
       [overflow] and answers Panic (a Go panic: not intercepted by try/catch) instead of pushing,
     * a closure called by a built-in method runs on a fresh storage whose depth base is the top of
       the method's frame (db + offs + size + 1 + |args|): the depth NewEmptyStackBelow gives a
       private stack, and the depth at which the methods that push on the shared storage push.
   Definitions only; proofs in Sem/GuardProofs.v. *)
From P2 Require Import Base.Prelude Sem.Num Sem.Syntax Sem.Ops Sem.Lib Sem.Ref Sem.Gen Sem.Sim.

Definition gexec_t : Type := nat -> exec_t.

(* stackStorage.set(i, v, base) panics iff it appends (i = len) and base + i > limit *)
Definition overflow (limit db : nat) (st : list value) (i : nat) : bool :=
  Nat.eqb i (length st) && Nat.ltb limit (db + i).

Section GuardStep.
Variable known : list (N * list name).
Variable limit : nat.
Variable E : gexec_t.

(* a closure called by a built-in: a fresh storage that continues the depth count at db
   (NewEmptyStackBelow, or the top of the method's frame on the shared storage: the same depth);
   Init pushes the arguments at the indices 0.. of that storage *)
Definition q_app (db : nat) (c : value) (args : list value) : res value :=
  match c with
  | VClo ps body cap self =>
      if Nat.eqb (length args) (length ps)
      then if Nat.ltb 0 (length args) && Nat.ltb limit (db + (length args - 1)) then Panic
           else fst (E db (map Some ps) (clo_cm cap self) args 0 (length args) (clo_cs cap self c) body)
      else Err None
  | VErrText _ => Unsup
  | _ => Err None
  end.

Definition q_call (db : nat) (c : value) (n : nat) (st' : list value) (base : nat) : res value * list value :=
  match c with
  | VClo ps body cap self =>
      E db (map Some ps) (clo_cm cap self) st' base n (clo_cs cap self c) body
  | _ => (Err None, st')
  end.

Section Frame.
Variable db : nat.       (* Stack.base: slots the callers use on other storages *)
Variable am : list (option name).
Variable cm : list name.
Variables offs size : nat.
Variable cs : list value.

Fixpoint q_args (l : list ast) (pushed : nat) (st0 : list value) (acc : list value)
  : res (list value) * list value :=
  match l with
  | [] => (Ok acc, st0)
  | x :: r =>
      match E db (am ++ repeat None pushed) cm st0 offs (size + pushed) cs x with
      | (Ok v, st1) =>
          if overflow limit db st1 (offs + size + pushed) then (Panic, st1)
          else q_args r (S pushed) (set_slot st1 (offs + size + pushed) v) (acc ++ [v])
      | (Err t, st1) => (Err t, st1)
      | (Panic, st1) => (Panic, st1)
      | (OOF, st1) => (OOF, st1)
      | (Unsup, st1) => (Unsup, st1)
      end
  end.

Fixpoint q_plain (l : list ast) (st0 : list value) : res (list value) * list value :=
  match l with
  | [] => (Ok [], st0)
  | x :: r =>
      match E db am cm st0 offs size cs x with
      | (Ok v, st1) =>
          match q_plain r st1 with
          | (Ok vs, st2) => (Ok (v :: vs), st2)
          | (e, st2) => (e, st2)
          end
      | (Err t, st1) => (Err t, st1)
      | (Panic, st1) => (Panic, st1)
      | (OOF, st1) => (OOF, st1)
      | (Unsup, st1) => (Unsup, st1)
      end
  end.

Section Switch.
Variable sv : value.
Variable d : ast.
Fixpoint q_switch (l : list (ast * ast)) (st0 : list value)
  : res value * list value :=
  match l with
  | [] => E db am cm st0 offs size cs d
  | (cc, cr) :: rest =>
      match E db am cm st0 offs size cs cc with
      | (Ok cv, st2) =>
          match equal_fg sv cv with
          | Ok true => E db am cm st2 offs size cs cr
          | Ok false => q_switch rest st2
          | Err t => (Err t, st2)
          | Panic => (Panic, st2)
          | OOF => (OOF, st2)
          | Unsup => (Unsup, st2)
          end
      | r => r
      end
  end.
End Switch.

Fixpoint q_map (m : list (name * ast)) (st0 : list value) (acc : list (str * value))
  : res value * list value :=
  match m with
  | [] => (Ok (VMap acc), st0)
  | (k, x) :: r =>
      match E db am cm st0 offs size cs x with
      | (Ok v, st1) => q_map r st1 (acc ++ [(k, v)])
      | r' => r'
      end
  end.

Definition guard_step (st : list value) (a : ast) : res value * list value :=
  match a with
  | AConst v => (Ok v, st)
  | AIdent x => (match resolve am cm st offs cs x with Some v => Ok v | None => Err None end, st)
  | ALet x v b =>
      match E db am cm st offs size cs v with
      | (Ok vv, st1) =>
          if overflow limit db st1 (offs + size) then (Panic, st1)
          else E db (am ++ [Some x]) cm (set_slot st1 (offs + size) vv) offs (S size) cs b
      | r => r
      end
  | AIf c t e =>
      match E db am cm st offs size cs c with
      | (Ok (VBool true), st1) => E db am cm st1 offs size cs t
      | (Ok (VBool false), st1) => E db am cm st1 offs size cs e
      | (Ok (VErrText _), st1) => (Unsup, st1)
      | (Ok _, st1) => (Err None, st1)
      | r => r
      end
  | ASwitch v cases d =>
      match E db am cm st offs size cs v with
      | (Ok sv, st1) => q_switch sv d cases st1
      | r => r
      end
  | ATry t c =>
      match E db am cm st offs size cs t with
      | (Err thrown, st1) =>
          match E db am cm st1 offs size cs c with
          | (Ok cv, st2) =>
              match cv with
              | VClo [_] _ _ _ =>
                  if overflow limit db st2 (offs + size) then (Panic, st2)
                  else q_call db cv 1%nat (set_slot st2 (offs + size) (VErrText thrown)) (offs + size)
              | _ => (Ok cv, st2)
              end
          | r => r
          end
      | r => r
      end
  | AUnary op x =>
      match E db am cm st offs size cs x with
      | (Ok v, st1) => (ucalc op v, st1)
      | r => r
      end
  | AOp op x y =>
      if str_eqb op op_and then
        match E db am cm st offs size cs x with
        | (Ok (VBool false), st1) => (Ok (VBool false), st1)
        | (Ok (VBool true), st1) =>
            match E db am cm st1 offs size cs y with
            | (Ok (VBool b), st2) => (Ok (VBool b), st2)
            | (Ok (VErrText _), st2) => (Unsup, st2)
            | (Ok _, st2) => (Err None, st2)
            | r => r
            end
        | (Ok av, st1) =>
            match E db am cm st1 offs size cs y with
            | (Ok bv, st2) => (calc op av bv, st2)
            | r => r
            end
        | r => r
        end
      else if str_eqb op op_or then
        match E db am cm st offs size cs x with
        | (Ok (VBool true), st1) => (Ok (VBool true), st1)
        | (Ok (VBool false), st1) =>
            match E db am cm st1 offs size cs y with
            | (Ok (VBool b), st2) => (Ok (VBool b), st2)
            | (Ok (VErrText _), st2) => (Unsup, st2)
            | (Ok _, st2) => (Err None, st2)
            | r => r
            end
        | (Ok av, st1) =>
            match E db am cm st1 offs size cs y with
            | (Ok bv, st2) => (calc op av bv, st2)
            | r => r
            end
        | r => r
        end
      else
        match E db am cm st offs size cs x with
        | (Ok av, st1) =>
            match E db am cm st1 offs size cs y with
            | (Ok bv, st2) => (calc op av bv, st2)
            | r => r
            end
        | r => r
        end
  | AClosure ps body outer recursive this =>
      (match capture am cm st offs cs outer with
       | Some cap => Ok (VClo ps body cap (if recursive then this else []))
       | None => Err None
       end, st)
  | AList l =>
      match q_plain l st with
      | (Ok vs, st1) => (Ok (VList vs), st1)
      | (Err t, st1) => (Err t, st1)
      | (Panic, st1) => (Panic, st1)
      | (OOF, st1) => (OOF, st1)
      | (Unsup, st1) => (Unsup, st1)
      end
  | AIndex l i =>
      match E db am cm st offs size cs i with
      | (Ok iv, st1) =>
          match E db am cm st1 offs size cs l with
          | (Ok lv, st2) => (access_list lv iv, st2)
          | r => r
          end
      | r => r
      end
  | AMap m => q_map m st []
  | AMember m key =>
      match E db am cm st offs size cs m with
      | (Ok mv, st1) => (access_map mv key, st1)
      | r => r
      end
  | ACall fn args =>
      match E db am cm st offs size cs fn with
      | (Ok fv, st1) =>
          match fv with
          | VClo ps _ _ _ =>
              if Nat.eqb (length args) (length ps) then
                match q_args args 0%nat st1 [] with
                | (Ok _, st2) => q_call db fv (length args) st2 (offs + size)
                | (Err t, st2) => (Err t, st2)
                | (Panic, st2) => (Panic, st2)
                | (OOF, st2) => (OOF, st2)
                | (Unsup, st2) => (Unsup, st2)
                end
              else (Err None, st1)
          | VErrText _ => (Unsup, st1)
          | _ => (Err None, st1)
          end
      | r => r
      end
  | AStatic fname args =>
      match static_arity fname with
      | Some ar =>
          if arity_ok ar (length args) then
            match q_args args 0%nat st [] with
            | (Ok vs, st1) => (run_static fname vs, st1)
            | (Err t, st1) => (Err t, st1)
            | (Panic, st1) => (Panic, st1)
            | (OOF, st1) => (OOF, st1)
            | (Unsup, st1) => (Unsup, st1)
            end
          else (Err None, st)
      | None => (Unsup, st)
      end
  | AMethod recv mname args =>
      match E db am cm st offs size cs recv with
      | (Ok rv, st1) =>
          match field_of rv mname with
          | Some (cv, n) =>
              if Nat.eqb (length args) n then
                if overflow limit db st1 (offs + size) then (Panic, st1) else
                match q_args args 1%nat (set_slot st1 (offs + size) rv) [] with
                | (Ok _, st2) => q_call db cv n st2 (offs + size + 1)
                | (Err t, st2) => (Err t, st2)
                | (Panic, st2) => (Panic, st2)
                | (OOF, st2) => (OOF, st2)
                | (Unsup, st2) => (Unsup, st2)
                end
              else (Err None, st1)
          | None =>
              match method_arity rv mname with
              | Some ar =>
                  if arity_ok ar (length args) then
                    if overflow limit db st1 (offs + size) then (Panic, st1) else
                    match q_args args 1%nat (set_slot st1 (offs + size) rv) [] with
                    | (Ok vs, st2) => (run_method (q_app (db + offs + size + 1 + length args)) rv mname vs, st2)
                    | (Err t, st2) => (Err t, st2)
                    | (Panic, st2) => (Panic, st2)
                    | (OOF, st2) => (OOF, st2)
                    | (Unsup, st2) => (Unsup, st2)
                    end
                  else (Err None, st1)
              | None =>
                  (match rv with
                   | VErrText _ => Unsup
                   | _ => if method_exists rv mname known then Unsup else Err None
                   end, st1)
              end
          end
      | r => r
      end
  end.
End Frame.
End GuardStep.

Fixpoint exec_guarded (known : list (N * list name)) (limit : nat) (fuel : nat) (db : nat)
         (am : list (option name)) (cm : list name)
         (st : list value) (offs size : nat) (cs : list value) (a : ast) {struct fuel}
  : res value * list value :=
  match fuel with
  | O => (OOF, st)
  | S f => guard_step known limit (exec_guarded known limit f) db am cm offs size cs st a
  end.

(* Generate + Eval with the guard: Func.Eval runs NewEmptyStack().Init(args...) *)
Definition run_guarded (known : list (N * list name)) (limit fuel : nat) (a : ast)
           (argnames : list name) (args : list value) : res value :=
  if negb (Nat.eqb (length argnames) (length args)) then Unsup else
  if gen_check (S (ast_size a)) (map Some argnames) [] a
  then if Nat.ltb 0 (length args) && Nat.ltb limit (length args - 1) then Panic
       else fst (exec_guarded known limit fuel 0 (map Some argnames) [] args 0 (length args) [] a)
  else Err None.

(* the runaway recursion  func f(n) f(n+1); f(0) *)
Definition gd_f : name := [102%N].
Definition gd_n : name := [110%N].
Definition runaway_body : ast := ACall (AIdent gd_f) [AOp op_add (AIdent gd_n) (AConst (VInt 1))].
Definition runaway : ast :=
  ALet gd_f (AClosure [gd_n] runaway_body [] true gd_f) (ACall (AIdent gd_f) [AConst (VInt 0)]).
