(* A trace semantics next to the reference semantics Sem/Ref.v: the same evaluator, which in addition
   records the calls of HOST functions - static functions outside the modelled pool of Sem/Lib.v
   (static_arity f = None): the harness functions tick/ptick, random, ... - with their argument
   values, in evaluation order.  The result of such a call is given by an oracle [host] of the name
   and the arguments (Ref.eval answers Unsup there).  Every impure function of value.New() other
   than `throw` is such a host function (Opt.value_static); `throw` is no event: its effect is the
   thrown text, which is part of the outcome.  Built-in statics and methods add no events; the body
   of a closure adds its events when it runs.  Events before an error or a panic are kept.
   Restriction: a closure called BY A BUILT-IN METHOD (callback of map, accept, reduce, ...) must not
   produce events; if it does the outcome is Unsup (outside the trace model) - the pool Sem/Lib.v
   hands callbacks a function into `res value` and cannot thread a log.  Closures called by the
   program itself (calls, map fields called like methods, catch handlers) are unrestricted.
   Definitions only; proofs in Sem/TraceProofs.v. *)
From P2 Require Import Base.Prelude Sem.Num Sem.Syntax Sem.Ops Sem.Lib Sem.Ref Sem.Sim.

Definition event : Type := (name * list value)%type.
Definition tres (A : Type) : Type := (res A * list event)%type.

Definition tret {A} (r : res A) : tres A := (r, []).

Definition tbind {A B} (p : tres A) (k : A -> tres B) : tres B :=
  match fst p with
  | Ok a => (fst (k a), snd p ++ snd (k a))
  | Err t => (Err t, snd p)
  | Panic => (Panic, snd p)
  | OOF => (OOF, snd p)
  | Unsup => (Unsup, snd p)
  end.

(* a callback of a built-in method: its result when it produced no event *)
Definition quiet (p : tres value) : res value :=
  match fst p with
  | OOF => OOF
  | r => match snd p with [] => r | _ :: _ => Unsup end
  end.

Section TraceStep.
Variable known : list (N * list name).
Variable host : name -> list value -> res value.
Variable tev : list (name * value) -> ast -> tres value.

Definition t_app (c : value) (args : list value) : tres value :=
  match c with
  | VClo ps body cap self =>
      if Nat.eqb (length args) (length ps)
      then tev (combine ps args ++ self_binding self c ++ cap) body
      else tret (Err None)
  | VErrText _ => tret Unsup
  | _ => tret (Err None)
  end.

Definition q_app (c : value) (args : list value) : res value := quiet (t_app c args).

Section Env.
Variable env : list (name * value).

Fixpoint t_list (l : list ast) : tres (list value) :=
  match l with
  | [] => tret (Ok [])
  | x :: r => tbind (tev env x) (fun v => tbind (t_list r) (fun vs => tret (Ok (v :: vs))))
  end.

Section Switch.
Variable sv : value.
Variable d : ast.
Fixpoint t_switch (cs : list (ast * ast)) : tres value :=
  match cs with
  | [] => tev env d
  | (cc, cr) :: rest =>
      tbind (tev env cc) (fun cv =>
        match equal_fg sv cv with
        | Ok true => tev env cr
        | Ok false => t_switch rest
        | Err t => tret (Err t) | Panic => tret Panic | OOF => tret OOF | Unsup => tret Unsup
        end)
  end.
End Switch.

Fixpoint t_map (m : list (name * ast)) (acc : list (str * value)) : tres value :=
  match m with
  | [] => tret (Ok (VMap acc))
  | (k, x) :: r => tbind (tev env x) (fun v => t_map r (acc ++ [(k, v)]))
  end.

Definition tstep (a : ast) : tres value :=
  match a with
  | AConst v => tret (Ok v)
  | AIdent x => tret (match lookup x env with Some v => Ok v | None => Err None end)
  | ALet x v b => tbind (tev env v) (fun vv => tev ((x, vv) :: env) b)
  | AIf c t e =>
      tbind (tev env c) (fun cv =>
        match cv with
        | VBool true => tev env t
        | VBool false => tev env e
        | VErrText _ => tret Unsup
        | _ => tret (Err None)
        end)
  | ASwitch v cases d => tbind (tev env v) (fun sv => t_switch sv d cases)
  | ATry t c =>
      let p := tev env t in
      match fst p with
      | Err thrown =>
          tbind (Ok tt, snd p) (fun _ =>
            tbind (tev env c) (fun cv =>
              match cv with
              | VClo [_] _ _ _ => t_app cv [VErrText thrown]
              | _ => tret (Ok cv)
              end))
      | _ => p
      end
  | AUnary op x => tbind (tev env x) (fun v => tret (ucalc op v))
  | AOp op x y =>
      if str_eqb op op_and then
        tbind (tev env x) (fun av =>
          match av with
          | VBool false => tret (Ok (VBool false))
          | VBool true =>
              tbind (tev env y) (fun bv =>
                tret (match bv with VBool b => Ok (VBool b) | VErrText _ => Unsup | _ => Err None end))
          | _ => tbind (tev env y) (fun bv => tret (calc op av bv))
          end)
      else if str_eqb op op_or then
        tbind (tev env x) (fun av =>
          match av with
          | VBool true => tret (Ok (VBool true))
          | VBool false =>
              tbind (tev env y) (fun bv =>
                tret (match bv with VBool b => Ok (VBool b) | VErrText _ => Unsup | _ => Err None end))
          | _ => tbind (tev env y) (fun bv => tret (calc op av bv))
          end)
      else tbind (tev env x) (fun av => tbind (tev env y) (fun bv => tret (calc op av bv)))
  | AClosure ps body _ _ this => tret (Ok (VClo ps body env this))
  | AList l => tbind (t_list l) (fun vs => tret (Ok (VList vs)))
  | AIndex l i => tbind (tev env i) (fun iv => tbind (tev env l) (fun lv => tret (access_list lv iv)))
  | AMap m => t_map m []
  | AMember m key => tbind (tev env m) (fun mv => tret (access_map mv key))
  | ACall fn args =>
      tbind (tev env fn) (fun fv =>
        match fv with
        | VClo ps _ _ _ =>
            if Nat.eqb (length args) (length ps)
            then tbind (t_list args) (fun vs => t_app fv vs)
            else tret (Err None)
        | VErrText _ => tret Unsup
        | _ => tret (Err None)
        end)
  | AStatic fname args =>
      match static_arity fname with
      | Some ar =>
          if arity_ok ar (length args)
          then tbind (t_list args) (fun vs => tret (run_static fname vs))
          else tret (Err None)
      | None =>
          (* a host function: the event, then the oracle's answer *)
          tbind (t_list args) (fun vs => (host fname vs, [(fname, vs)]))
      end
  | AMethod recv mname args =>
      tbind (tev env recv) (fun rv =>
        match field_of rv mname with
        | Some (cv, n) =>
            if Nat.eqb (length args) n then tbind (t_list args) (fun vs => t_app cv vs) else tret (Err None)
        | None =>
            match method_arity rv mname with
            | Some ar =>
                if arity_ok ar (length args)
                then tbind (t_list args) (fun vs => tret (run_method q_app rv mname vs))
                else tret (Err None)
            | None => tret (match rv with
                            | VErrText _ => Unsup
                            | _ => if method_exists rv mname known then Unsup else Err None
                            end)
            end
        end)
  end.
End Env.
End TraceStep.

Section Teval.
Variable known : list (N * list name).
Variable host : name -> list value -> res value.

Fixpoint teval (fuel : nat) (env : list (name * value)) (a : ast) {struct fuel} : tres value :=
  match fuel with
  | O => tret OOF
  | S f => tstep known host (teval f) env a
  end.

End Teval.

Definition tdecided {A} (r : res A) : Prop := match r with OOF | Unsup => False | _ => True end.

(* t' has the same traced meaning as t wherever t is decided *)
Definition tseq known host (t t' : ast) : Prop :=
  forall n env, tdecided (fst (teval known host n env t)) -> teval known host n env t' = teval known host n env t.

(* the calls an evaluation made, and how often a given host function was called *)
Definition trace_of {A} (p : tres A) : list event := snd p.
Definition count_calls (f : name) (tr : list event) : nat :=
  length (filter (fun e => str_eqb (fst e) f) tr).
