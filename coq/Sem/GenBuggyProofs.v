(* The pinned call-site discipline is not lexically scoped: witness by computation. *)
From P2 Require Import Base.Prelude Sem.Num Sem.Syntax Sem.Ops Sem.Lib Sem.Ref Sem.Gen Sem.GenBuggy.

(* On  func f(a,b) a*100+b; f(x, let y=x+1; y)  with x = 5 the discipline WITHOUT reserved slots
   yields 505, the reference semantics 506 - for every method table and every fuel >= 8. *)
Lemma pinned_discipline_refuted :
  exists (a : ast) (names : list name) (args : list value),
    (forall known, Ref.eval known 8 (combine names args) a = Ok (VInt 506)) /\
    run_buggy 8 a names args = Ok (VInt 505).
Proof.
  exists witness_ast, [nm 120], [VInt 5].
  split.
  - intro known. vm_compute. reflexivity.
  - vm_compute. reflexivity.
Qed.

(* ... while the repaired discipline of Sem/Gen.v agrees with the reference on the same input *)
Lemma repaired_discipline_on_witness :
  forall known, Gen.run known 8 witness_ast [nm 120] [VInt 5] = Ok (VInt 506).
Proof. intro known. vm_compute. reflexivity. Qed.
