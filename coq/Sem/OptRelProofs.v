(* Basic lemmas for the soundness proof of the optimizer: free names.
   The induction principles value_ind2/ast_ind2, the Forall2 helpers, rrel_bind and the unfolding
   eval_S are those of the C01 package (Sem/RelProofs.v, Sem/GenProofs.v). *)
From P2 Require Import Base.Prelude Base.PreludeProofs Sem.Num Sem.Syntax Sem.Ops Sem.Lib Sem.Ref Sem.Gen Sem.Sim Sem.RelProofs Sem.GenProofs Sem.Opt Sem.OptRel.
Require Import Lia.
Arguments str_eqb : simpl never.

Ltac inv H := inversion H; subst; clear H.

(* ---------- free names of the nodes with lists ---------- *)

Lemma fv_list x l : fv x (AList l) = existsb (fv x) l.
Proof. reflexivity. Qed.
Lemma fv_call x fn args : fv x (ACall fn args) = fv x fn || existsb (fv x) args.
Proof. reflexivity. Qed.
Lemma fv_static x f args : fv x (AStatic f args) = existsb (fv x) args.
Proof. reflexivity. Qed.
Lemma fv_method x recv m args : fv x (AMethod recv m args) = fv x recv || existsb (fv x) args.
Proof. reflexivity. Qed.
Lemma fv_map x m : fv x (AMap m) = existsb (fun e => fv x (snd e)) m.
Proof. reflexivity. Qed.
Lemma fv_switch x v cases d :
  fv x (ASwitch v cases d) = fv x v || fv x d || existsb (fun c => fv x (fst c) || fv x (snd c)) cases.
Proof. reflexivity. Qed.

Lemma existsb_consts x vs : existsb (fv x) (map AConst vs) = false.
Proof. induction vs; simpl; auto. Qed.

Lemma existsb_const_entries x (vs : list (str * value)) :
  existsb (fun e => fv x (snd e)) (map (fun e => (fst e, AConst (snd e))) vs) = false.
Proof. induction vs; simpl; auto. Qed.
