(* Basic lemmas for the soundness proof of the optimizer: induction principles that see through
   the nested lists of ast/value, names, Forall2 helpers, outcome relations.
   (value_ind2/ast_ind2 and the Forall2 helpers coincide with those of the C01 proofs in
   Sem/RelProofs.v; they are repeated so that the two packages build independently.) *)
From P2 Require Import Base.Prelude Base.PreludeProofs Sem.Num Sem.Syntax Sem.Ops Sem.Lib Sem.Ref Sem.Gen Sem.Opt Sem.OptRel.
Require Import Lia.
Arguments str_eqb : simpl never.

Ltac inv H := inversion H; subst; clear H.

(* ---------- induction principles that see through the nested lists ---------- *)

Section value_ind2.
  Variable P : value -> Prop.
  Hypothesis HI : forall z, P (VInt z).
  Hypothesis HF : forall f, P (VFloat f).
  Hypothesis HS : forall s, P (VStr s).
  Hypothesis HB : forall b, P (VBool b).
  Hypothesis HL : forall l, Forall P l -> P (VList l).
  Hypothesis HM : forall m, Forall (fun e => P (snd e)) m -> P (VMap m).
  Hypothesis HC : forall ps b c s, P (VClo ps b c s).
  Hypothesis HE : forall t, P (VErrText t).
  Fixpoint value_ind2 (v : value) : P v :=
    match v with
    | VInt z => HI z
    | VFloat f => HF f
    | VStr s => HS s
    | VBool b => HB b
    | VList l =>
        HL l ((fix go (l : list value) : Forall P l :=
                 match l with [] => Forall_nil _ | x :: r => Forall_cons _ (value_ind2 x) (go r) end) l)
    | VMap m =>
        HM m ((fix go (m : list (str * value)) : Forall (fun e => P (snd e)) m :=
                 match m with
                 | [] => Forall_nil _
                 | e :: r => Forall_cons (P := fun e => P (snd e)) e (value_ind2 (snd e)) (go r)
                 end) m)
    | VClo ps b c s => HC ps b c s
    | VErrText t => HE t
    end.
End value_ind2.

Section ast_ind2.
  Variable P : ast -> Prop.
  Hypothesis HConst : forall v, P (AConst v).
  Hypothesis HIdent : forall x, P (AIdent x).
  Hypothesis HLet : forall x v b, P v -> P b -> P (ALet x v b).
  Hypothesis HIf : forall c t e, P c -> P t -> P e -> P (AIf c t e).
  Hypothesis HSwitch : forall v cases d,
    P v -> Forall (fun c => P (fst c) /\ P (snd c)) cases -> P d -> P (ASwitch v cases d).
  Hypothesis HTry : forall t c, P t -> P c -> P (ATry t c).
  Hypothesis HUnary : forall op x, P x -> P (AUnary op x).
  Hypothesis HOp : forall op x y, P x -> P y -> P (AOp op x y).
  Hypothesis HClosure : forall ps body outer r this, P body -> P (AClosure ps body outer r this).
  Hypothesis HList : forall l, Forall P l -> P (AList l).
  Hypothesis HIndex : forall l i, P l -> P i -> P (AIndex l i).
  Hypothesis HMap : forall m, Forall (fun e => P (snd e)) m -> P (AMap m).
  Hypothesis HMember : forall m k, P m -> P (AMember m k).
  Hypothesis HCall : forall f args, P f -> Forall P args -> P (ACall f args).
  Hypothesis HStatic : forall f args, Forall P args -> P (AStatic f args).
  Hypothesis HMethod : forall r m args, P r -> Forall P args -> P (AMethod r m args).
  Fixpoint ast_ind2 (a : ast) : P a :=
    let all := fix go (l : list ast) : Forall P l :=
      match l with [] => Forall_nil _ | x :: r => Forall_cons _ (ast_ind2 x) (go r) end in
    match a with
    | AConst v => HConst v
    | AIdent x => HIdent x
    | ALet x v b => HLet x v b (ast_ind2 v) (ast_ind2 b)
    | AIf c t e => HIf c t e (ast_ind2 c) (ast_ind2 t) (ast_ind2 e)
    | ASwitch v cases d =>
        HSwitch v cases d (ast_ind2 v)
          ((fix go (l : list (ast * ast)) : Forall (fun c => P (fst c) /\ P (snd c)) l :=
              match l with
              | [] => Forall_nil _
              | c :: r => Forall_cons (P := fun c => P (fst c) /\ P (snd c)) c
                            (conj (ast_ind2 (fst c)) (ast_ind2 (snd c))) (go r)
              end) cases)
          (ast_ind2 d)
    | ATry t c => HTry t c (ast_ind2 t) (ast_ind2 c)
    | AUnary op x => HUnary op x (ast_ind2 x)
    | AOp op x y => HOp op x y (ast_ind2 x) (ast_ind2 y)
    | AClosure ps body outer r this => HClosure ps body outer r this (ast_ind2 body)
    | AList l => HList l (all l)
    | AIndex l i => HIndex l i (ast_ind2 l) (ast_ind2 i)
    | AMap m =>
        HMap m ((fix go (l : list (name * ast)) : Forall (fun e => P (snd e)) l :=
                   match l with
                   | [] => Forall_nil _
                   | e :: r => Forall_cons (P := fun e => P (snd e)) e (ast_ind2 (snd e)) (go r)
                   end) m)
    | AMember m k => HMember m k (ast_ind2 m)
    | ACall f args => HCall f args (ast_ind2 f) (all args)
    | AStatic f args => HStatic f args (all args)
    | AMethod r m args => HMethod r m args (ast_ind2 r) (all args)
    end.
End ast_ind2.

(* ---------- names ---------- *)

Lemma str_eqb_true a b : str_eqb a b = true -> a = b.
Proof. apply str_eqb_eq. Qed.

Lemma str_eqb_false a b : str_eqb a b = false -> a <> b.
Proof. intros H E. subst. rewrite str_eqb_refl in H. discriminate. Qed.

Lemma str_eqb_neq a b : a <> b -> str_eqb a b = false.
Proof. intros H. destruct (str_eqb a b) eqn:E; auto. apply str_eqb_true in E. tauto. Qed.

Lemma lookup_cons x y v env :
  lookup x ((y, v) :: env) = if str_eqb x y then Some v else lookup x env.
Proof. reflexivity. Qed.

(* ---------- Forall2 helpers ---------- *)

Lemma Forall2_length' {A B} (R : A -> B -> Prop) l1 l2 : Forall2 R l1 l2 -> length l1 = length l2.
Proof. induction 1; simpl; auto. Qed.

Lemma Forall2_nth {A B} (R : A -> B -> Prop) l1 l2 i a :
  Forall2 R l1 l2 -> nth_error l1 i = Some a -> exists b, nth_error l2 i = Some b /\ R a b.
Proof.
  intros H; revert i; induction H as [|x y l1 l2 Hxy Hl IH]; intros [|i] Hi; simpl in *; try discriminate.
  - inversion Hi; subst. eauto.
  - auto.
Qed.

Lemma Forall2_nth_r {A B} (R : A -> B -> Prop) l1 l2 i b :
  Forall2 R l1 l2 -> nth_error l2 i = Some b -> exists a, nth_error l1 i = Some a /\ R a b.
Proof.
  intros H; revert i; induction H as [|x y l1 l2 Hxy Hl IH]; intros [|i] Hi; simpl in *; try discriminate.
  - inversion Hi; subst. eauto.
  - auto.
Qed.

Lemma Forall2_app' {A B} (R : A -> B -> Prop) l1 l2 l1' l2' :
  Forall2 R l1 l2 -> Forall2 R l1' l2' -> Forall2 R (l1 ++ l1') (l2 ++ l2').
Proof. induction 1; simpl; auto. Qed.

Lemma Forall2_rev' {A B} (R : A -> B -> Prop) l1 l2 : Forall2 R l1 l2 -> Forall2 R (rev l1) (rev l2).
Proof.
  induction 1; simpl; auto. apply Forall2_app'; auto.
Qed.

Lemma Forall2_firstn {A B} (R : A -> B -> Prop) n l1 l2 :
  Forall2 R l1 l2 -> Forall2 R (firstn n l1) (firstn n l2).
Proof. intros H; revert n; induction H; intros [|n]; simpl; auto. Qed.

Lemma Forall2_skipn {A B} (R : A -> B -> Prop) n l1 l2 :
  Forall2 R l1 l2 -> Forall2 R (skipn n l1) (skipn n l2).
Proof. intros H; revert n; induction H; intros [|n]; simpl; auto. Qed.


(* ---------- outcomes ---------- *)

Lemma rrel_bind {A B C D} (R : A -> B -> Prop) (Q : C -> D -> Prop) r1 r2 k1 k2 :
  rrel R r1 r2 -> (forall a b, R a b -> rrel Q (k1 a) (k2 b)) -> rrel Q (bind r1 k1) (bind r2 k2).
Proof. intros H K. destruct H; simpl; auto; constructor. Qed.

Lemma rrel_eq_refl {A} (r : res A) : rrel eq r r.
Proof. destruct r; constructor; auto. Qed.

Lemma rrel_eq {A} (r1 r2 : res A) : rrel eq r1 r2 -> r1 = r2.
Proof. destruct 1; congruence. Qed.

Lemma eval_S known f env a : eval known (S f) env a = ref_step known (eval known f) env a.
Proof. reflexivity. Qed.
