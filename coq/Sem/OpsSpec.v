(* Specification side of C14: what the property demands of = != < > <= >= ~ min max switch order,
   written independently of the operator model in Sem/Ops.v and deliberately simpler:
   - numbers are compared by their exact value (an int is z * 2^0, never converted to a float),
   - [sem_eq] is the evident boolean equality (numbers by value, lists element-wise, maps key-wise),
   - [cmp_ok] says that every pair of corresponding components can be compared at all,
   - every operator gets a predicate "this outcome is acceptable" (an outcome is true/false/error).
   Where a component that differs and a component that cannot be compared meet, the specification
   accepts false or an error; the symmetry law (same outcome both ways) is checked on top. *)
From P2 Require Import Base.Prelude Sem.Num Sem.Syntax Sem.Ops.
Local Open Scope Z_scope.

(* ---------- kinds (the type ids of value.New()) ---------- *)

Inductive kind := KInt | KFloat | KStr | KBool | KList | KMap | KClo.

Definition kind_of (v : value) : kind :=
  match v with
  | VInt _ => KInt | VFloat _ => KFloat | VStr _ => KStr | VBool _ => KBool
  | VList _ => KList | VMap _ => KMap | VClo _ _ _ _ => KClo
  | VErrText _ => KStr      (* a caught error text is a string; the theorems exclude it *)
  end.

Definition kind_id (k : kind) : N :=
  match k with KInt => 1 | KFloat => 2 | KStr => 3 | KBool => 4 | KList => 5 | KMap => 6 | KClo => 7 end%N.

Definition all_kinds : list kind := [KInt; KFloat; KStr; KBool; KList; KMap; KClo].

Definition is_errtext (v : value) : bool := match v with VErrText _ => true | _ => false end.

(* ---------- numbers by exact value ---------- *)

Inductive xnum := XFin (m e : Z) | XInf (neg : bool) | XNaN.      (* XFin m e = m * 2^e *)

Definition xnum_of (v : value) : option xnum :=
  match v with
  | VInt z => Some (XFin z 0)
  | VFloat (FFin m e) => Some (XFin m e)
  | VFloat FNegZero => Some (XFin 0 0)
  | VFloat (FInf n) => Some (XInf n)
  | VFloat FNaN => Some XNaN
  | _ => None
  end.

(* m1 * 2^e1 compared with m2 * 2^e2: scale both to the smaller exponent *)
Definition dy_cmp (m1 e1 m2 e2 : Z) : comparison :=
  let e := Z.min e1 e2 in (m1 * 2 ^ (e1 - e)) ?= (m2 * 2 ^ (e2 - e)).

Definition xeq (a b : xnum) : bool :=
  match a, b with
  | XNaN, _ | _, XNaN => false
  | XInf x, XInf y => Bool.eqb x y
  | XInf _, _ | _, XInf _ => false
  | XFin m1 e1, XFin m2 e2 => match dy_cmp m1 e1 m2 e2 with Eq => true | _ => false end
  end.

Definition xlt (a b : xnum) : bool :=
  match a, b with
  | XNaN, _ | _, XNaN => false
  | XInf x, XInf y => x && negb y
  | XInf x, _ => x
  | _, XInf y => negb y
  | XFin m1 e1, XFin m2 e2 => match dy_cmp m1 e1 m2 e2 with Lt => true | _ => false end
  end.

(* ---------- equality ---------- *)

Fixpoint sem_eq (a b : value) {struct a} : bool :=
  match a, b with
  | VList la, VList lb =>
      (fix go (la lb : list value) : bool :=
         match la, lb with
         | [], [] => true
         | x :: la', y :: lb' => sem_eq x y && go la' lb'
         | _, _ => false
         end) la lb
  | VMap ma, VMap mb =>
      Nat.eqb (length ma) (length mb) &&
      (fix go (ma : list (str * value)) : bool :=
         match ma with
         | [] => true
         | (k, v) :: ma' =>
             match assoc_v k mb with Some o => sem_eq v o | None => false end && go ma'
         end) ma
  | VStr x, VStr y => str_eqb x y
  | VBool x, VBool y => Bool.eqb x y
  | VStr _, _ | _, VStr _ | VBool _, _ | _, VBool _ => false
  | _, _ => match xnum_of a, xnum_of b with Some x, Some y => xeq x y | _, _ => false end
  end.

(* kinds that = accepts at the top level / for a pair of components *)
Definition eq_kinds_ok (ka kb : kind) : bool :=
  match ka, kb with
  | KBool, KBool | KStr, KStr | KList, KList | KMap, KMap => true
  | (KInt | KFloat), (KInt | KFloat) => true
  | _, _ => false
  end.

(* every pair of corresponding components is comparable by = *)
Fixpoint cmp_ok (a b : value) {struct a} : bool :=
  match a, b with
  | VList la, VList lb =>
      negb (Nat.eqb (length la) (length lb)) ||
      (fix go (la lb : list value) : bool :=
         match la, lb with
         | x :: la', y :: lb' => cmp_ok x y && go la' lb'
         | _, _ => true
         end) la lb
  | VMap ma, VMap mb =>
      negb (Nat.eqb (length ma) (length mb)) ||
      (fix go (ma : list (str * value)) : bool :=
         match ma with
         | [] => true
         | (k, v) :: ma' =>
             match assoc_v k mb with Some o => cmp_ok v o | None => true end && go ma'
         end) ma
  | _, _ => eq_kinds_ok (kind_of a) (kind_of b) && negb (is_errtext a) && negb (is_errtext b)
  end.

Definition is_err {A} (r : res A) : bool := match r with Err _ | Panic => true | _ => false end.

(* acceptable outcomes of a = b *)
Definition eq_allowed (a b : value) (r : res bool) : bool :=
  if negb (eq_kinds_ok (kind_of a) (kind_of b)) then is_err r
  else match r with
       | Ok x => Bool.eqb x (sem_eq a b)                       (* never a wrong boolean *)
       | Err _ | Panic => negb (sem_eq a b || cmp_ok a b)      (* an error needs an incomparable component *)
       | _ => false
       end.

Definition neg_res (r : res bool) : res bool :=
  match r with Ok b => Ok (negb b) | x => x end.

Definition ne_allowed (a b : value) (r : res bool) : bool := eq_allowed a b (neg_res r).

(* ---------- order ---------- *)

Definition lt_spec (a b : value) : option bool :=
  match a, b with
  | VStr x, VStr y => Some (str_ltb x y)
  | VErrText _, _ | _, VErrText _ => None
  | _, _ => match xnum_of a, xnum_of b with Some x, Some y => Some (xlt x y) | _, _ => None end
  end.

Definition le_spec (a b : value) : option bool :=
  match lt_spec a b with Some l => Some (l || sem_eq a b) | None => None end.

(* an outcome against a specified answer: Some x demands Ok x, None demands an error *)
Definition demanded (s : option bool) (r : res bool) : bool :=
  match s, r with
  | Some x, Ok y => Bool.eqb x y
  | None, (Err _ | Panic) => true
  | _, _ => false
  end.

Definition lt_allowed (a b : value) := demanded (lt_spec a b).
Definition gt_allowed (a b : value) := demanded (lt_spec b a).
Definition le_allowed (a b : value) := demanded (le_spec a b).
Definition ge_allowed (a b : value) := demanded (le_spec b a).

(* ---------- membership ---------- *)

(* x ~ [y1..yn]: the first element that decides.  An element equal to x decides true; an element that
   is comparable and different is skipped; at an element that is not (fully) comparable an error is
   acceptable, and so is going on (its comparison may have stopped at a differing component). *)
Fixpoint mem_allowed (x : value) (l : list value) (r : res bool) : bool :=
  match l with
  | [] => match r with Ok false => true | _ => false end
  | y :: l' =>
      if sem_eq x y then match r with Ok true => true | _ => false end
      else if cmp_ok x y then mem_allowed x l' r
      else is_err r || mem_allowed x l' r
  end.

Definition in_allowed (a b : value) (r : res bool) : bool :=
  match b with
  | VList l => mem_allowed a l r
  | VMap m =>
      match a with
      | VStr k => demanded (Some (match assoc_v k m with Some _ => true | None => false end)) r
      | _ => is_err r
      end
  | VStr s =>
      match a with
      | VStr p => demanded (Some (contains_str s p)) r
      | _ => is_err r
      end
  | _ => is_err r
  end.

(* ---------- structural identity of values (which argument did min/max/order return?) ---------- *)

Definition fl_same (a b : fl) : bool :=
  match a, b with
  | FFin m1 e1, FFin m2 e2 => (m1 =? m2) && (e1 =? e2)
  | FNegZero, FNegZero => true
  | FInf x, FInf y => Bool.eqb x y
  | FNaN, FNaN => true
  | _, _ => false
  end.

Fixpoint val_same (a b : value) {struct a} : bool :=
  match a, b with
  | VInt x, VInt y => x =? y
  | VFloat x, VFloat y => fl_same x y
  | VStr x, VStr y => str_eqb x y
  | VBool x, VBool y => Bool.eqb x y
  | VList la, VList lb =>
      (fix go (la lb : list value) : bool :=
         match la, lb with
         | [], [] => true
         | x :: la', y :: lb' => val_same x y && go la' lb'
         | _, _ => false
         end) la lb
  | VMap ma, VMap mb =>
      Nat.eqb (length ma) (length mb) &&
      (fix go (ma : list (str * value)) : bool :=
         match ma with
         | [] => true
         | (k, v) :: ma' =>
             match assoc_v k mb with Some o => val_same v o | None => false end && go ma'
         end) ma
  | VClo ps _ _ _, VClo qs _ _ _ => Nat.eqb (length ps) (length qs)
  | VErrText x, VErrText y =>
      match x, y with Some s, Some t => str_eqb s t | None, None => true | _, _ => false end
  | _, _ => false
  end.

(* ---------- min / max ---------- *)

(* the running minimum is replaced when the new argument is strictly smaller *)
Fixpoint min_spec (m : value) (l : list value) : option value :=      (* None: an error is demanded *)
  match l with
  | [] => Some m
  | v :: r => match lt_spec v m with
              | Some true => min_spec v r
              | Some false => min_spec m r
              | None => None
              end
  end.

Fixpoint max_spec (m : value) (l : list value) : option value :=
  match l with
  | [] => Some m
  | v :: r => match lt_spec m v with
              | Some true => max_spec v r
              | Some false => max_spec m r
              | None => None
              end
  end.

Definition demanded_val (s : option value) (r : res value) : bool :=
  match s, r with
  | Some x, Ok y => val_same x y
  | None, (Err _ | Panic) => true
  | _, _ => false
  end.

(* ---------- switch: the first case constant equal to the value ---------- *)

(* r = Ok k: case number k (from 1) was taken, Ok 0: the default *)
Fixpoint switch_allowed (x : value) (cs : list value) (n : N) (r : res N) : bool :=
  match cs with
  | [] => match r with Ok 0%N => true | _ => false end
  | c :: cs' =>
      if sem_eq x c then match r with Ok k => (k =? n)%N | _ => false end
      else if cmp_ok x c then switch_allowed x cs' (N.succ n) r
      else is_err r || switch_allowed x cs' (N.succ n) r
  end.

(* ---------- order ---------- *)

Fixpoint remove_same (x : value) (l : list value) : option (list value) :=
  match l with
  | [] => None
  | y :: r => if val_same x y then Some r
              else match remove_same x r with Some r' => Some (y :: r') | None => None end
  end.

Fixpoint perm_same (a b : list value) : bool :=
  match a with
  | [] => match b with [] => true | _ => false end
  | x :: a' => match remove_same x b with Some b' => perm_same a' b' | None => false end
  end.

(* no later element is smaller than an earlier one *)
Fixpoint sorted_spec (l : list value) : bool :=
  match l with
  | [] => true
  | x :: r => forallb (fun y => match lt_spec y x with Some true => false | _ => true end) r && sorted_spec r
  end.

Fixpoint all_pairs_comparable (l : list value) : bool :=
  match l with
  | [] => true
  | x :: r => forallb (fun y => match lt_spec x y with Some _ => true | None => false end) r
              && all_pairs_comparable r
  end.

Definition has_nan (l : list value) : bool :=
  existsb (fun v => match v with VFloat FNaN => true | _ => false end) l.

(* order by the identity key.  All elements mutually comparable: a sorted permutation (with a NaN in the
   list < is not a weak order and only the permutation is demanded).  Otherwise (at least two elements,
   not all numbers and not all strings) every element meets an incomparable one: an error. *)
Definition order_allowed (l : list value) (r : res value) : bool :=
  if all_pairs_comparable l then
    match r with
    | Ok (VList out) => perm_same l out && (has_nan l || sorted_spec out)
    | _ => false
    end
  else is_err r.

(* ---------- side conditions of the theorems ---------- *)

(* the keys of every map inside the value are pairwise different (a map value of the implementation
   always is: C13) *)
Fixpoint nodup_keys (m : list (str * value)) : bool :=
  match m with
  | [] => true
  | (k, _) :: r => match assoc_v k r with Some _ => false | None => nodup_keys r end
  end.

Fixpoint wf_keys (v : value) : bool :=
  match v with
  | VList l => (fix go (l : list value) : bool := match l with [] => true | x :: r => wf_keys x && go r end) l
  | VMap m => nodup_keys m &&
              (fix go (m : list (str * value)) : bool :=
                 match m with [] => true | (_, x) :: r => wf_keys x && go r end) m
  | _ => true
  end.

(* no NaN, no closure, no caught error text anywhere inside *)
Fixpoint clean_val (v : value) : bool :=
  match v with
  | VList l => (fix go (l : list value) : bool := match l with [] => true | x :: r => clean_val x && go r end) l
  | VMap m => (fix go (m : list (str * value)) : bool :=
                 match m with [] => true | (_, x) :: r => clean_val x && go r end) m
  | VFloat FNaN => false
  | VClo _ _ _ _ => false
  | VErrText _ => false
  | _ => true
  end.

(* every int inside is exactly a float: |z| < 2^53, the property's bound *)
Definition small_int (z : Z) : bool := (- 9007199254740992 <? z) && (z <? 9007199254740992).

Fixpoint small_ints (v : value) : bool :=
  match v with
  | VInt z => small_int z
  | VList l => (fix go (l : list value) : bool := match l with [] => true | x :: r => small_ints x && go r end) l
  | VMap m => (fix go (m : list (str * value)) : bool :=
                 match m with [] => true | (_, x) :: r => small_ints x && go r end) m
  | _ => true
  end.

(* ---------- definedness by kinds, against the regenerated operator matrices ---------- *)

Definition is_num_kind (k : kind) : bool := match k with KInt | KFloat => true | _ => false end.

Definition lt_kinds_ok (ka kb : kind) : bool :=
  match ka, kb with
  | KStr, KStr => true
  | _, _ => is_num_kind ka && is_num_kind kb
  end.

(* the operators of value.New() that are operation matrices (the others are closures over = and <) *)
Definition matrix_ops : list name :=
  [op_or; op_and; op_eq; op_lt; op_add; op_sub; op_shl; op_shr; op_mul; op_mod; op_div; op_pow].

(* does the operator accept this pair of kinds at all (wrappers of = and + included)? *)
Definition kind_defined (op : name) (ka kb : kind) : bool :=
  if str_eqb op op_or || str_eqb op op_and then
    match ka, kb with KInt, KInt | KBool, KBool => true | _, _ => false end
  else if str_eqb op op_eq then eq_kinds_ok ka kb
  else if str_eqb op op_lt then lt_kinds_ok ka kb
  else if str_eqb op op_add then
    match ka, kb with
    | KStr, _ | KList, KList | KMap, KMap => true
    | _, _ => is_num_kind ka && is_num_kind kb
    end
  else if str_eqb op op_sub || str_eqb op op_mul || str_eqb op op_div || str_eqb op op_pow then
    is_num_kind ka && is_num_kind kb
  else if str_eqb op op_shl || str_eqb op op_shr || str_eqb op op_mod then
    match ka, kb with KInt, KInt => true | _, _ => false end
  else false.

(* the same question answered by a dumped table: (operator, (wrapper, registered type-id pairs)) *)
Definition op_table := list (str * (N * list (N * N))).

Definition wrapper_accepts (w : N) (ka kb : kind) : bool :=
  match w with
  | 1%N => match ka, kb with KList, KList | KMap, KMap => true | _, _ => false end   (* deepEqual *)
  | 2%N => match ka with KStr => true | _ => false end                               (* stringAdd *)
  | _ => false
  end.

Definition registered (tbl : op_table) (op : name) (ka kb : kind) : bool :=
  match assoc op tbl with
  | Some (w, pairs) =>
      existsb (fun p => (fst p =? kind_id ka)%N && (snd p =? kind_id kb)%N) pairs || wrapper_accepts w ka kb
  | None => false
  end.

Definition definedness_matches (tbl : op_table) : bool :=
  forallb (fun op =>
    forallb (fun ka =>
      forallb (fun kb => Bool.eqb (registered tbl op ka kb) (kind_defined op ka kb)) all_kinds) all_kinds)
    matrix_ops.

(* candidate inputs when the obligation fails: (operator index, left kind id, right kind id) *)
Definition definedness_mismatches (tbl : op_table) : list (N * (N * N)) :=
  flat_map (fun op =>
    flat_map (fun ka =>
      flat_map (fun kb => if Bool.eqb (registered tbl op ka kb) (kind_defined op ka kb) then []
                          else [(N.of_nat (length op), (kind_id ka, kind_id kb))]) all_kinds) all_kinds)
    matrix_ops.

(* ---------- groupByEqual: keys grouped by = in order of first occurrence ---------- *)

(* is k one of the group keys gs?  (found, an error is acceptable on the way) *)
Fixpoint in_groups_spec (gs : list value) (k : value) : bool * bool :=
  match gs with
  | [] => (false, false)
  | g :: r =>
      if sem_eq g k then (true, false)
      else let '(f, e) := in_groups_spec r k in
           (f, e || negb (cmp_ok g k))
  end.

(* r = Ok n: n groups.  At a pair of keys that is not (fully) comparable an error is acceptable, and so is
   going on as if they were different (their comparison may have stopped at a differing component) *)
Fixpoint group_allowed (gs l : list value) (r : res N) : bool :=
  match l with
  | [] => match r with Ok n => (n =? N.of_nat (length gs))%N | _ => false end
  | k :: rest =>
      let '(found, mayerr) := in_groups_spec gs k in
      (mayerr && is_err r) || group_allowed (if found then gs else gs ++ [k]) rest r
  end.
