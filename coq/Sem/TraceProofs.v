(* Proofs about the trace semantics Sem/Trace.v: it erases to the reference semantics wherever that
   is decided (and then the trace is empty: a decided reference evaluation reaches no host function). *)
From P2 Require Import Base.Prelude Base.PreludeProofs Sem.Num Sem.Syntax Sem.Ops Sem.Lib Sem.Ref Sem.Gen Sem.Sim Sem.RelProofs Sem.GenProofs Sem.RefMono Sem.Trace.
Require Import Lia.

(* a decided result is reproduced *)
Definition dle {A} (r1 r2 : res A) : Prop := tdecided r1 -> r2 = r1.

Lemma dle_refl {A} (r : res A) : dle r r.
Proof. intros _. reflexivity. Qed.

Lemma dle_bind {A B} (r1 r2 : res A) (k1 k2 : A -> res B) :
  dle r1 r2 -> (forall a, dle (k1 a) (k2 a)) -> dle (bind r1 k1) (bind r2 k2).
Proof.
  intros H K N. assert (N1 : tdecided r1) by (destruct r1; cbn in *; auto).
  rewrite (H N1). destruct r1; cbn [bind] in *; auto. apply K; auto.
Qed.

Definition app_dle (app1 app2 : value -> list value -> res value) : Prop :=
  forall c args, dle (app1 c args) (app2 c args).

(* the combinators of Sem/Lib.v (the proofs are those of Sem/RefMono.v for "not out of fuel") *)
Section LibD.
Variables app1 app2 : value -> list value -> res value.
Hypothesis HA : app_dle app1 app2.

Lemma map_app_dle f l : dle (map_app app1 f l) (map_app app2 f l).
Proof.
  induction l as [|x l IH]; cbn [map_app]; [apply dle_refl|].
  apply dle_bind; [apply HA|]. intros y. apply dle_bind; [exact IH|]. intros; apply dle_refl.
Qed.

Lemma accept_app_dle f l : dle (accept_app app1 f l) (accept_app app2 f l).
Proof.
  induction l as [|x l IH]; cbn [accept_app]; [apply dle_refl|].
  apply dle_bind; [apply HA|]. intros y. destruct y; try apply dle_refl.
  apply dle_bind; [exact IH|]. intros; apply dle_refl.
Qed.

Lemma fold_app_dle f l : forall acc, dle (fold_app app1 f acc l) (fold_app app2 f acc l).
Proof.
  induction l as [|x l IH]; intros acc; cbn [fold_app]; [apply dle_refl|].
  apply dle_bind; [apply HA|]. intros; apply IH.
Qed.

Lemma index_where_dle f l : forall i, dle (index_where app1 f l i) (index_where app2 f l i).
Proof.
  induction l as [|x l IH]; intros i; cbn [index_where]; [apply dle_refl|].
  apply dle_bind; [apply HA|]. intros y. destruct y; try apply dle_refl. destruct b; [apply dle_refl|apply IH].
Qed.

Lemma mapargs_app_dle f a : dle (mapargs_app app1 f a) (mapargs_app app2 f a).
Proof.
  induction a as [|x a IH]; cbn [mapargs_app]; [apply dle_refl|].
  apply dle_bind; [apply HA|]. intros y. apply dle_bind; [exact IH|]. intros; apply dle_refl.
Qed.

Lemma compact_app_dle f l : forall last, dle (compact_app app1 f last l) (compact_app app2 f last l).
Proof.
  induction l as [|x l IH]; intros last; cbn [compact_app]; [apply dle_refl|].
  apply dle_bind; [apply HA|]. intros y. destruct y; try apply dle_refl.
  destruct b; [apply IH|]. apply dle_bind; [apply IH|]. intros; apply dle_refl.
Qed.

Lemma scan_app_dle three f l : forall li la, dle (scan_app app1 three f li la l) (scan_app app2 three f li la l).
Proof.
  induction l as [|x l IH]; intros li la; cbn [scan_app]; [apply dle_refl|].
  apply dle_bind; [apply HA|]. intros o. apply dle_bind; [apply IH|]. intros; apply dle_refl.
Qed.

Lemma iir_app_dle three ini f l : dle (iir_app app1 three ini f l) (iir_app app2 three ini f l).
Proof.
  destruct l as [|x l]; cbn [iir_app]; [apply dle_refl|].
  apply dle_bind; [apply HA|]. intros o. apply dle_bind; [apply scan_app_dle|]. intros; apply dle_refl.
Qed.

Lemma merge_app_dle f l1 : forall l2, dle (merge_app app1 f l1 l2) (merge_app app2 f l1 l2).
Proof.
  induction l1 as [|a l1 IH1]; intros l2.
  - destruct l2; cbn [merge_app]; apply dle_refl.
  - induction l2 as [|b l2 IH2]; cbn [merge_app]; [apply dle_refl|].
    apply dle_bind; [apply HA|]. intros y. destruct y; try apply dle_refl.
    destruct b0.
    + apply dle_bind; [apply IH1|]. intros; apply dle_refl.
    + apply dle_bind; [exact IH2|]. intros; apply dle_refl.
Qed.

Lemma minmax_app_dle f l : forall mn mx mni mxi,
  dle (minmax_app app1 f mn mx mni mxi l) (minmax_app app2 f mn mx mni mxi l).
Proof.
  induction l as [|x l IH]; intros mn mx mni mxi; cbn [minmax_app]; [apply dle_refl|].
  apply dle_bind; [apply HA|]. intros k. apply dle_bind; [apply dle_refl|]. intros le.
  apply dle_bind; [apply dle_refl|]. intros gr. apply IH.
Qed.

Lemma run_list_method_dle m l args : dle (run_list_method app1 m l args) (run_list_method app2 m l args).
Proof.
  unfold run_list_method.
  repeat match goal with
         | |- context [if str_eqb m ?n then _ else _] => destruct (str_eqb m n)
         end; try apply dle_refl.
  - destruct args as [|f [|? ?]]; try apply dle_refl. destruct (is_func f 1); [|apply dle_refl].
    apply dle_bind; [apply map_app_dle|intros; apply dle_refl].
  - destruct args as [|f [|? ?]]; try apply dle_refl. destruct (is_func f 1); [|apply dle_refl].
    apply dle_bind; [apply accept_app_dle|intros; apply dle_refl].
  - destruct args as [|f [|? ?]]; try apply dle_refl. destruct (is_func f 2); [|apply dle_refl].
    destruct l; [apply dle_refl|apply fold_app_dle].
  - destruct args as [|i [|f [|? ?]]]; try apply dle_refl. destruct (is_func f 2); [|apply dle_refl].
    apply fold_app_dle.
  - destruct args as [|f [|? ?]]; try apply dle_refl. destruct (is_func f 1); [|apply dle_refl].
    apply dle_bind; [apply index_where_dle|intros; apply dle_refl].
  - destruct args as [|f [|? ?]]; try apply dle_refl. destruct (is_func f 1); [|apply dle_refl].
    apply dle_bind; [apply index_where_dle|intros; apply dle_refl].
  - (* minMax *)
    destruct args as [|f [|? ?]]; try apply dle_refl. destruct (is_func f 1); [|apply dle_refl].
    destruct l; [apply dle_refl|]. apply dle_bind; [apply HA|]. intros; apply minmax_app_dle.
  - (* number *)
    destruct args as [|f [|? ?]]; try apply dle_refl. destruct (is_func f 2); [|apply dle_refl].
    apply dle_bind; [apply mapargs_app_dle|intros; apply dle_refl].
  - (* compact *)
    destruct args as [|f [|? ?]]; try apply dle_refl. destruct (is_func f 2); [|apply dle_refl].
    destruct l; [apply dle_refl|]. apply dle_bind; [apply compact_app_dle|intros; apply dle_refl].
  - (* combine *)
    destruct args as [|f [|? ?]]; try apply dle_refl. destruct (is_func f 2); [|apply dle_refl].
    apply dle_bind; [apply mapargs_app_dle|intros; apply dle_refl].
  - (* combine3 *)
    destruct args as [|f [|? ?]]; try apply dle_refl. destruct (is_func f 3); [|apply dle_refl].
    apply dle_bind; [apply mapargs_app_dle|intros; apply dle_refl].
  - (* combineN *)
    destruct args as [|n [|f [|? ?]]]; try apply dle_refl; destruct n; try apply dle_refl.
    destruct (z <? 1)%Z; [apply dle_refl|]. destruct (is_func f 1); [|apply dle_refl].
    destruct (100000 <? z)%Z; [apply dle_refl|].
    apply dle_bind; [apply mapargs_app_dle|intros; apply dle_refl].
  - (* iir *)
    destruct args as [|i [|f [|? ?]]]; try apply dle_refl.
    destruct (is_func i 1); [|apply dle_refl]. destruct (is_func f 2); [|apply dle_refl].
    apply dle_bind; [apply iir_app_dle|intros; apply dle_refl].
  - (* iirCombine *)
    destruct args as [|i [|f [|? ?]]]; try apply dle_refl.
    destruct (is_func i 1); [|apply dle_refl]. destruct (is_func f 3); [|apply dle_refl].
    apply dle_bind; [apply iir_app_dle|intros; apply dle_refl].
  - (* cross *)
    destruct args as [|o [|f [|? ?]]]; try apply dle_refl.
    destruct (is_func f 2); [|apply dle_refl]. destruct o; try apply dle_refl.
    apply dle_bind; [apply mapargs_app_dle|intros; apply dle_refl].
  - (* merge *)
    destruct args as [|o [|f [|? ?]]]; try apply dle_refl.
    destruct (is_func f 2); [|apply dle_refl]. destruct o; try apply dle_refl.
    apply dle_bind; [apply merge_app_dle|intros; apply dle_refl].
  - (* visit *)
    destruct args as [|i [|f [|? ?]]]; try apply dle_refl. destruct (is_func f 2); [|apply dle_refl].
    apply fold_app_dle.
Qed.

Lemma run_method_dle rv m args : dle (run_method app1 rv m args) (run_method app2 rv m args).
Proof. destruct rv; cbn [run_method]; try apply run_list_method_dle; apply dle_refl. Qed.

End LibD.

(* ---------- erasure ---------- *)

(* p is the traced counterpart of r: whenever r is decided, p has the same result and no event *)
Definition terases {A} (r : res A) (p : tres A) : Prop := tdecided r -> p = (r, []).

Lemma terases_ret {A} (r : res A) : terases r (tret r).
Proof. intros _. reflexivity. Qed.

Lemma terases_bind {A B} (r : res A) (p : tres A) (k : A -> res B) (q : A -> tres B) :
  terases r p -> (forall a, terases (k a) (q a)) -> terases (bind r k) (tbind p q).
Proof.
  intros H K N. assert (N1 : tdecided r) by (destruct r; cbn in *; auto).
  rewrite (H N1). unfold tbind. cbn [fst snd]. destruct r; cbn [bind] in *; auto.
  rewrite (K a N). reflexivity.
Qed.

Lemma tdecided_decided {A} (r : res A) : tdecided r <-> r <> OOF /\ r <> Unsup.
Proof. destruct r; cbn; split; try tauto; intros; try (split; discriminate); destruct H; congruence. Qed.

Section Erase.
Variable known : list (N * list name).
Variable host : name -> list value -> res value.
Variable ev : list (name * value) -> ast -> res value.
Variable tev : list (name * value) -> ast -> tres value.
Hypothesis HE : forall env a, terases (ev env a) (tev env a).

Lemma t_app_erases c vs : terases (r_app ev c vs) (t_app tev c vs).
Proof.
  destruct c; cbn [r_app t_app]; try apply terases_ret.
  destruct (Nat.eqb (length vs) (length ps)); [apply HE|apply terases_ret].
Qed.

Lemma q_app_dle : app_dle (r_app ev) (q_app tev).
Proof. intros c vs N. unfold q_app. rewrite (t_app_erases c vs N). unfold quiet. cbn [fst snd]. destruct (r_app ev c vs); cbn in N; try reflexivity; destruct N. Qed.

Lemma t_list_erases env l : terases (r_list ev env l) (t_list tev env l).
Proof.
  induction l as [|x l IH]; cbn [r_list t_list]; [apply terases_ret|].
  apply terases_bind; [apply HE|]. intros v. apply terases_bind; [exact IH|]. intros; apply terases_ret.
Qed.

Lemma t_switch_erases env sv d cases : terases (r_switch ev env sv d cases) (t_switch tev env sv d cases).
Proof.
  induction cases as [|[cc cr] cases IH]; cbn [r_switch t_switch]; [apply HE|].
  apply terases_bind; [apply HE|]. intros cv.
  destruct (equal_fg sv cv) as [[|]| | | |]; try apply terases_ret; [apply HE|exact IH].
Qed.

Lemma t_map_erases env m : forall acc, terases (r_map ev env m acc) (t_map tev env m acc).
Proof.
  induction m as [|[k x] m IH]; intros acc; cbn [r_map t_map]; [apply terases_ret|].
  apply terases_bind; [apply HE|]. intros; apply IH.
Qed.

Lemma tstep_erases env a : terases (ref_step known ev env a) (tstep known host tev env a).
Proof.
  destruct a; cbn [ref_step tstep]; try apply terases_ret.
  - (* let *) apply terases_bind; [apply HE|]. intros; apply HE.
  - (* if *) apply terases_bind; [apply HE|]. intros cv. destruct cv; try apply terases_ret.
    destruct b; apply HE.
  - (* switch *) apply terases_bind; [apply HE|]. intros; apply t_switch_erases.
  - (* try *) intros N.
    assert (N1 : tdecided (ev env a1)) by (destruct (ev env a1); cbn in *; auto).
    rewrite (HE _ _ N1). cbn [fst snd]. destruct (ev env a1); try reflexivity.
    revert N. unfold tbind at 1. cbn [fst snd app].
    intros N. match goal with |- (fst ?q, snd ?q) = _ => assert (Hq : q = (bind (ev env a2) (fun cv => match cv with VClo [_] _ _ _ => r_app ev cv [VErrText thrown] | _ => Ok cv end), [])) end.
    { revert N. apply terases_bind; [apply HE|]. intros cv. destruct cv; try apply terases_ret.
      destruct ps as [|p [|? ?]]; try apply terases_ret. apply t_app_erases. }
    rewrite Hq. reflexivity.
  - (* unary *) apply terases_bind; [apply HE|]. intros; apply terases_ret.
  - (* op *)
    destruct (str_eqb op op_and).
    { apply terases_bind; [apply HE|]. intros av.
      destruct av; try (apply terases_bind; [apply HE|intros; apply terases_ret]).
      destruct b; [|apply terases_ret]. apply terases_bind; [apply HE|intros; apply terases_ret]. }
    destruct (str_eqb op op_or).
    { apply terases_bind; [apply HE|]. intros av.
      destruct av; try (apply terases_bind; [apply HE|intros; apply terases_ret]).
      destruct b; [apply terases_ret|]. apply terases_bind; [apply HE|intros; apply terases_ret]. }
    apply terases_bind; [apply HE|]. intros. apply terases_bind; [apply HE|intros; apply terases_ret].
  - (* list *) apply terases_bind; [apply t_list_erases|intros; apply terases_ret].
  - (* index *) apply terases_bind; [apply HE|]. intros. apply terases_bind; [apply HE|intros; apply terases_ret].
  - (* map *) apply t_map_erases.
  - (* member *) apply terases_bind; [apply HE|intros; apply terases_ret].
  - (* call *) apply terases_bind; [apply HE|]. intros fv0. destruct fv0; try apply terases_ret.
    destruct (Nat.eqb (length args) (length ps)); [|apply terases_ret].
    apply terases_bind; [apply t_list_erases|]. intros; apply t_app_erases.
  - (* static *) destruct (static_arity f) as [ar|]; [|intros []].
    destruct (arity_ok ar (length args)); [|apply terases_ret].
    apply terases_bind; [apply t_list_erases|intros; apply terases_ret].
  - (* method *) apply terases_bind; [apply HE|]. intros rv.
    destruct (field_of rv mname) as [[cv k]|].
    + destruct (Nat.eqb (length args) k); [|apply terases_ret].
      apply terases_bind; [apply t_list_erases|]. intros; apply t_app_erases.
    + destruct (method_arity rv mname) as [ar|]; [|apply terases_ret].
      destruct (arity_ok ar (length args)); [|apply terases_ret].
      apply terases_bind; [apply t_list_erases|]. intros vs N.
      pose proof (run_method_dle _ _ q_app_dle rv mname vs N) as E.
      set (r1 := run_method (r_app ev) rv mname vs) in *.
      set (r2 := run_method (q_app tev) rv mname vs) in *.
      clearbody r1 r2. subst r2. reflexivity.
Qed.

End Erase.

Lemma teval_S known host f env a :
  teval known host (S f) env a = tstep known host (teval known host f) env a.
Proof. reflexivity. Qed.

(* wherever the reference evaluation is decided, the trace semantics gives the same result and an
   empty trace: a decided reference evaluation reaches no host function *)
Theorem eval_teval known host : forall n env a,
  tdecided (eval known n env a) -> teval known host n env a = (eval known n env a, []).
Proof.
  induction n as [|n IH]; intros env a.
  - intros [].
  - rewrite eval_S, teval_S. apply tstep_erases. exact IH.
Qed.

Corollary teval_fst known host n env a :
  tdecided (eval known n env a) ->
  fst (teval known host n env a) = eval known n env a /\ snd (teval known host n env a) = [].
Proof. intros D. rewrite (eval_teval known host n env a D). auto. Qed.


(* ---------- fuel monotonicity of the trace semantics ---------- *)

Definition tle {A} (p1 p2 : tres A) : Prop := fst p1 <> OOF -> p2 = p1.

Lemma tle_refl {A} (p : tres A) : tle p p.
Proof. intros _. reflexivity. Qed.

Lemma tle_bind {A B} (p1 p2 : tres A) (k1 k2 : A -> tres B) :
  tle p1 p2 -> (forall a, tle (k1 a) (k2 a)) -> tle (tbind p1 k1) (tbind p2 k2).
Proof.
  intros H K N. assert (N1 : fst p1 <> OOF).
  { intros E. apply N. unfold tbind. rewrite E. reflexivity. }
  rewrite (H N1). unfold tbind in *. destruct (fst p1); auto. rewrite (K a N). reflexivity.
Qed.

Section TMono.
Variable known : list (N * list name).
Variable host : name -> list value -> res value.
Variables tev1 tev2 : list (name * value) -> ast -> tres value.
Hypothesis HE : forall env a, tle (tev1 env a) (tev2 env a).

Lemma t_app_tle c vs : tle (t_app tev1 c vs) (t_app tev2 c vs).
Proof.
  destruct c; cbn [t_app]; try apply tle_refl.
  destruct (Nat.eqb (length vs) (length ps)); [apply HE|apply tle_refl].
Qed.

Lemma q_app_le : RefMono.app_le (q_app tev1) (q_app tev2).
Proof.
  intros c vs N. unfold q_app in *. assert (N1 : fst (t_app tev1 c vs) <> OOF).
  { intros E. apply N. unfold quiet. rewrite E. reflexivity. }
  rewrite (t_app_tle c vs N1). reflexivity.
Qed.

Lemma t_list_tle env l : tle (t_list tev1 env l) (t_list tev2 env l).
Proof.
  induction l as [|x l IH]; cbn [t_list]; [apply tle_refl|].
  apply tle_bind; [apply HE|]. intros v. apply tle_bind; [exact IH|]. intros; apply tle_refl.
Qed.

Lemma t_switch_tle env sv d cases : tle (t_switch tev1 env sv d cases) (t_switch tev2 env sv d cases).
Proof.
  induction cases as [|[cc cr] cases IH]; cbn [t_switch]; [apply HE|].
  apply tle_bind; [apply HE|]. intros cv.
  destruct (equal_fg sv cv) as [[|]| | | |]; try apply tle_refl; [apply HE|exact IH].
Qed.

Lemma t_map_tle env m : forall acc, tle (t_map tev1 env m acc) (t_map tev2 env m acc).
Proof.
  induction m as [|[k x] m IH]; intros acc; cbn [t_map]; [apply tle_refl|].
  apply tle_bind; [apply HE|]. intros; apply IH.
Qed.

Lemma tstep_tle env a : tle (tstep known host tev1 env a) (tstep known host tev2 env a).
Proof.
  destruct a; cbn [tstep].
  - apply tle_refl.
  - apply tle_refl.
  - apply tle_bind; [apply HE|]. intros; apply HE.
  - apply tle_bind; [apply HE|]. intros cv. destruct cv; try apply tle_refl. destruct b; apply HE.
  - apply tle_bind; [apply HE|]. intros; apply t_switch_tle.
  - (* try *) intros N.
    assert (N1 : fst (tev1 env a1) <> OOF).
    { intros E. apply N. rewrite E. exact E. }
    rewrite (HE _ _ N1). destruct (fst (tev1 env a1)) eqn:E1; auto.
    revert N. apply tle_bind; [apply tle_refl|]. intros _.
    apply tle_bind; [apply HE|]. intros cv. destruct cv; try apply tle_refl.
    destruct ps as [|p [|? ?]]; try apply tle_refl. apply t_app_tle.
  - apply tle_bind; [apply HE|]. intros; apply tle_refl.
  - destruct (str_eqb op op_and).
    { apply tle_bind; [apply HE|]. intros av.
      destruct av; try (apply tle_bind; [apply HE|intros; apply tle_refl]).
      destruct b; [|apply tle_refl]. apply tle_bind; [apply HE|intros; apply tle_refl]. }
    destruct (str_eqb op op_or).
    { apply tle_bind; [apply HE|]. intros av.
      destruct av; try (apply tle_bind; [apply HE|intros; apply tle_refl]).
      destruct b; [apply tle_refl|]. apply tle_bind; [apply HE|intros; apply tle_refl]. }
    apply tle_bind; [apply HE|]. intros. apply tle_bind; [apply HE|intros; apply tle_refl].
  - apply tle_refl.
  - apply tle_bind; [apply t_list_tle|intros; apply tle_refl].
  - apply tle_bind; [apply HE|]. intros. apply tle_bind; [apply HE|intros; apply tle_refl].
  - apply t_map_tle.
  - apply tle_bind; [apply HE|intros; apply tle_refl].
  - apply tle_bind; [apply HE|]. intros fv0. destruct fv0; try apply tle_refl.
    destruct (Nat.eqb (length args) (length ps)); [|apply tle_refl].
    apply tle_bind; [apply t_list_tle|]. intros; apply t_app_tle.
  - destruct (static_arity f) as [ar|].
    + destruct (arity_ok ar (length args)); [|apply tle_refl].
      apply tle_bind; [apply t_list_tle|intros; apply tle_refl].
    + apply tle_bind; [apply t_list_tle|intros; apply tle_refl].
  - apply tle_bind; [apply HE|]. intros rv.
    destruct (field_of rv mname) as [[cv k]|].
    + destruct (Nat.eqb (length args) k); [|apply tle_refl].
      apply tle_bind; [apply t_list_tle|]. intros; apply t_app_tle.
    + destruct (method_arity rv mname) as [ar|]; [|apply tle_refl].
      destruct (arity_ok ar (length args)); [|apply tle_refl].
      apply tle_bind; [apply t_list_tle|]. intros vs N. cbn [tret fst] in N.
      pose proof (RefMono.run_method_le _ _ q_app_le rv mname vs N) as E.
      set (r1 := run_method (q_app tev1) rv mname vs) in *.
      set (r2 := run_method (q_app tev2) rv mname vs) in *.
      clearbody r1 r2. subst r2. reflexivity.
Qed.

End TMono.

Theorem teval_mono known host : forall n m env a,
  n <= m -> tle (teval known host n env a) (teval known host m env a).
Proof.
  induction n as [|n IH]; intros m env a L.
  - intros N. exfalso. apply N. reflexivity.
  - destruct m as [|m]; [lia|]. rewrite !teval_S. apply tstep_tle.
    intros env0 a0. apply IH. lia.
Qed.

Corollary teval_agree known host n m env a :
  fst (teval known host n env a) <> OOF -> fst (teval known host m env a) <> OOF ->
  teval known host m env a = teval known host n env a.
Proof.
  intros Hn Hm. destruct (Nat.le_ge_cases n m) as [L|L].
  - apply (teval_mono known host n m env a L Hn).
  - symmetry. apply (teval_mono known host m n env a L Hm).
Qed.

Print Assumptions eval_teval.
Print Assumptions teval_mono.
