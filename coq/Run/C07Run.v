(* Executable checkers for the correspondence run of C07.
   A case is a pipeline: a source value (or a static function call) followed by up to 4 method calls
   whose arguments are values or callbacks from a small expression language (the Go harness renders
   the same callback as program text).  c07_im runs the pipeline through the IMPLEMENTATION models of
   Lib/Builtins.v (lazy streams), c07_is through the DOCUMENTED models of Lib/ListLib.v (eager lists)
   and the verified checkers, and both compare with what the real code returned. *)
From P2 Require Import Base.Prelude Sem.Num Sem.Syntax Sem.Ops Sem.Lib Lib.Names Lib.Builtins Lib.ListLib.
Local Open Scope Z_scope.

(* ---------- callbacks ---------- *)

Inductive cexp :=
| CArg (i : nat)
| CLit (v : value)
| COp (op : name) (a b : cexp)
| CIf (c t e : cexp)
| CThrow                                  (* throw("e") *)
| CList (l : list cexp)                   (* [a, b, ...] *)
| CSize (e : cexp)                        (* e.size() *)
| CSum (e : cexp)                         (* e.sum() *)
| CIndex (e i : cexp)                     (* e[i] *)
| CMember (e : cexp) (k : name)           (* e.k *)
| CGoto (e : cexp)                        (* goto(e) *)
| CAppend (e x : cexp)                    (* e.append(x) *)
| CSet (e i x : cexp)                     (* e.set(i, x) *)
| CReverse (e : cexp)                     (* e.reverse() *)
| CMap (m : list (name * cexp))           (* {k: e, ...} (pairwise different keys) *)
| CMapMul (e : cexp) (k : Z)              (* e.map(x->x*k)           lazy stages with a fixed inner closure, *)
| CTopN (e : cexp) (n : Z)                (* e.top(n)                used by the functions handed to multiUse *)
| CSkipN (e : cexp) (n : Z)               (* e.skip(n) *)
| CAcceptGt (e : cexp) (c : Z)            (* e.accept(x->x>c) *)
| CCombineAdd (e : cexp).                 (* e.combine((x,y)->x+y) *)

Fixpoint ceval (args : list value) (e : cexp) {struct e} : res value :=
  match e with
  | CArg i => match nth_error args i with Some v => Ok v | None => Err None end
  | CLit v => Ok v
  | COp op a b => bind (ceval args a) (fun x => bind (ceval args b) (fun y => calc op x y))
  | CIf c t e' =>
      bind (ceval args c) (fun cv =>
        match cv with
        | VBool true => ceval args t
        | VBool false => ceval args e'
        | _ => Err None
        end)
  | CThrow => Err (Some nm_e)
  | CList l =>
      bind ((fix go (l : list cexp) : res (list value) :=
               match l with
               | [] => Ok []
               | x :: r => bind (ceval args x) (fun v => bind (go r) (fun vs => Ok (v :: vs)))
               end) l) (fun vs => Ok (VList vs))
  | CSize e' =>
      bind (ceval args e') (fun v =>
        match v with
        | VList l => Ok (VInt (Z.of_nat (length l)))
        | VMap m => Ok (VInt (Z.of_nat (length m)))
        | _ => Err None
        end)
  | CSum e' => bind (ceval args e') (fun v => match v with VList l => t_sum (of_list l) | _ => Err None end)
  | CIndex e' i => bind (ceval args e') (fun v => bind (ceval args i) (fun iv => access_list v iv))
  | CMember e' k => bind (ceval args e') (fun v => access_map v k)
  | CGoto e' => bind (ceval args e') (fun v => match v with VInt z => Ok (VMap [(nm_state, VInt z)]) | _ => Err None end)
  | CAppend e' x =>
      bind (ceval args e') (fun v => bind (ceval args x) (fun xv =>
        match v with VList l => Ok (VList (l ++ [xv])) | _ => Err None end))
  | CSet e' i x =>
      bind (ceval args e') (fun v => bind (ceval args i) (fun iv => bind (ceval args x) (fun xv =>
        match v, iv with
        | VList l, VInt z => bind (m_set z xv l) (fun l' => Ok (VList l'))
        | _, _ => Err None
        end)))
  | CReverse e' => bind (ceval args e') (fun v => match v with VList l => Ok (VList (rev l)) | _ => Err None end)
  | CMap m =>
      bind ((fix go (m : list (name * cexp)) : res (list (str * value)) :=
               match m with
               | [] => Ok []
               | (k, x) :: r => bind (ceval args x) (fun v => bind (go r) (fun vs => Ok ((k, v) :: vs)))
               end) m) (fun es => Ok (VMap es))
  | CMapMul e' k =>
      bind (ceval args e') (fun v => match v with
        | VList l => bind (collect (s_map (fun x => calc op_mul x (VInt k)) (of_list l))) (fun r => Ok (VList r))
        | _ => Err None end)
  | CTopN e' n =>
      bind (ceval args e') (fun v => match v with
        | VList l => bind (collect (s_top n (of_list l))) (fun r => Ok (VList r))
        | _ => Err None end)
  | CSkipN e' n =>
      bind (ceval args e') (fun v => match v with
        | VList l => bind (collect (s_skip n (of_list l))) (fun r => Ok (VList r))
        | _ => Err None end)
  | CAcceptGt e' c =>
      bind (ceval args e') (fun v => match v with
        | VList l => bind (collect (s_accept (fun x => calc op_gt x (VInt c)) (of_list l))) (fun r => Ok (VList r))
        | _ => Err None end)
  | CCombineAdd e' =>
      bind (ceval args e') (fun v => match v with
        | VList l => bind (collect (s_combine (calc op_add) (of_list l))) (fun r => Ok (VList r))
        | _ => Err None end)
  end.

Inductive arg := AV (v : value) | AF (n : nat) (body : cexp)
  | AFM (fs : list (name * cexp)).     (* a map literal of one-parameter functions {k: a->body, ...} *)

Definition arg_val (a : arg) : res value := match a with AV v => Ok v | AF _ _ | AFM _ => Unsup end.

(* ToFunc: a closure with exactly that many parameters *)
Definition arg_f1 (a : arg) : res cb1 :=
  match a with AF 1 b => Ok (fun x => ceval [x] b) | _ => Err None end.
Definition arg_f2 (a : arg) : res cb2 :=
  match a with AF 2 b => Ok (fun x y => ceval [x; y] b) | _ => Err None end.
Definition arg_f3 (a : arg) : res cb3 :=
  match a with AF 3 b => Ok (fun x y z => ceval [x; y; z] b) | _ => Err None end.

(* ---------- methods ---------- *)

Inductive meth :=
| M_accept | M_map | M_reduce | M_sum | M_mapReduce | M_mean | M_min | M_max | M_minMax
| M_combine | M_combine3 | M_combineN | M_indexWhere | M_groupByString | M_groupByInt | M_groupByEqual
| M_uniqueString | M_uniqueInt | M_compact | M_cross | M_merge | M_order | M_orderRev | M_orderLess
| M_reverse | M_append | M_iir | M_iirCombine | M_visit | M_fsm | M_top | M_skip | M_number | M_present
| M_set | M_size | M_first | M_single | M_last | M_eval | M_movingWindow | M_movingWindowRemove | M_multiUse
| M_replaceList | M_replaceMap
| M_len | M_string | M_trim | M_toLower | M_toUpper | M_contains | M_indexOf | M_split | M_cut
| M_replace | M_toInt | M_toFloat
| M_get | M_put | M_isAvail | M_list
| M_fork            (* pseudo: let w = <steps before>; [w.<branch 1>, w.<branch 2>, ..., w, source] *)
| M_plus            (* pseudo: receiver + argument *)
| M_observe         (* pseudo: the observer bundle on a map, one triple per key argument *)
| M_other (n : name).

Definition meth_name (m : meth) : name :=
  match m with
  | M_accept => nm_accept | M_map => nm_map | M_reduce => nm_reduce | M_sum => nm_sum
  | M_mapReduce => nm_mapReduce | M_mean => nm_mean | M_min => nm_min | M_max => nm_max
  | M_minMax => nm_minMax | M_combine => nm_combine | M_combine3 => nm_combine3 | M_combineN => nm_combineN
  | M_indexWhere => nm_indexWhere | M_groupByString => nm_groupByString | M_groupByInt => nm_groupByInt
  | M_groupByEqual => nm_groupByEqual | M_uniqueString => nm_uniqueString | M_uniqueInt => nm_uniqueInt
  | M_compact => nm_compact | M_cross => nm_cross | M_merge => nm_merge | M_order => nm_order
  | M_orderRev => nm_orderRev | M_orderLess => nm_orderLess | M_reverse => nm_reverse | M_append => nm_append
  | M_iir => nm_iir | M_iirCombine => nm_iirCombine | M_visit => nm_visit | M_fsm => nm_fsm | M_top => nm_top
  | M_skip => nm_skip | M_number => nm_number | M_present => nm_present | M_set => nm_set | M_size => nm_size
  | M_first => nm_first | M_single => nm_single | M_last => nm_last | M_eval => nm_eval
  | M_movingWindow => nm_movingWindow | M_movingWindowRemove => nm_movingWindowRemove | M_multiUse => nm_multiUse | M_replaceList => nm_replaceList | M_replaceMap => nm_replaceMap
  | M_len => nm_len | M_string => nm_string | M_trim => nm_trim | M_toLower => nm_toLower
  | M_toUpper => nm_toUpper | M_contains => nm_contains | M_indexOf => nm_indexOf | M_split => nm_split
  | M_cut => nm_cut | M_replace => nm_replace | M_toInt => nm_toInt | M_toFloat => nm_toFloat
  | M_get => nm_get | M_put => nm_put | M_isAvail => nm_isAvail | M_list => nm_list
  | M_fork => [35; 102; 111; 114; 107]%N
  | M_plus => [43]%N
  | M_observe => [35; 111; 98; 115; 101; 114; 118; 101]%N
  | M_other n => n
  end.

(* type ids of value.New(): 1 int, 2 float, 3 string, 4 bool, 5 list, 6 map, 7 closure *)
Definition list_meths : list (meth * Z) :=
  [(M_accept, 1); (M_map, 1); (M_reduce, 1); (M_sum, 0); (M_mapReduce, 2); (M_mean, 0); (M_min, 0);
   (M_max, 0); (M_minMax, 1); (M_combine, 1); (M_combine3, 1); (M_combineN, 2); (M_indexWhere, 1);
   (M_groupByString, 1); (M_groupByInt, 1); (M_groupByEqual, 1); (M_uniqueString, 1); (M_uniqueInt, 1);
   (M_compact, 1); (M_cross, 2); (M_merge, 2); (M_order, 1); (M_orderRev, 1); (M_orderLess, 1);
   (M_reverse, 0); (M_append, 1); (M_iir, 2); (M_iirCombine, 2); (M_visit, 2); (M_fsm, 1); (M_top, 1);
   (M_skip, 1); (M_number, 1); (M_present, 1); (M_set, 2); (M_size, 0); (M_first, 0); (M_single, 0);
   (M_last, 0); (M_eval, 0); (M_movingWindow, 1); (M_movingWindowRemove, 1); (M_multiUse, 1); (M_replaceList, 1)].

Definition string_meths : list (meth * Z) :=
  [(M_len, 0); (M_string, 0); (M_trim, 0); (M_toLower, 0); (M_toUpper, 0); (M_contains, 1);
   (M_indexOf, 1); (M_split, 1); (M_cut, 2); (M_replace, 2); (M_toInt, 0); (M_toFloat, 0)].

Definition map_meths : list (meth * Z) :=
  [(M_accept, 1); (M_map, 1); (M_list, 0); (M_size, 0); (M_isAvail, -1); (M_get, 1); (M_put, 2);
   (M_combine, 2); (M_eval, 0); (M_replace, 1); (M_replaceMap, 1)].

Definition scalar_meths : list (meth * Z) := [(M_string, 0)].

Definition model_table : list (N * list (meth * Z)) :=
  [(1%N, scalar_meths); (2%N, scalar_meths); (3%N, string_meths); (4%N, scalar_meths);
   (5%N, list_meths); (6%N, map_meths)].

(* built-ins that exist but have no model (the pipeline answers Unsup: case skipped) *)
Definition unmodelled_table : list (N * list name) :=
  [(5%N, [nm_iirApply; nm_string; nm_createInterpolation; nm_linearReg;
          nm_binning; nm_binning2d; nm_collectBinning]);
   (3%N, [nm_behind; nm_behindList]);
   (6%N, [nm_string]);
   (7%N, [nm_args; nm_invoke; nm_string])].

(* the table as (type id, name, arity) triples, to be compared with Generated/ValueMethods.v *)
Definition model_methods : list (N * list (name * Z)) :=
  map (fun e => (fst e, map (fun ma => (meth_name (fst ma), snd ma)) (snd e))) model_table.

Definition meth_eqb (a b : meth) : bool := str_eqb (meth_name a) (meth_name b).

Fixpoint assoc_meth (m : meth) (l : list (meth * Z)) : option Z :=
  match l with
  | [] => None
  | (m', a) :: r => if meth_eqb m m' then Some a else assoc_meth m r
  end.

Definition lookup_arity (tid : N) (m : meth) : option Z :=
  match assocN tid model_table with Some l => assoc_meth m l | None => None end.

Definition is_unmodelled (tid : N) (m : meth) : bool :=
  match assocN tid unmodelled_table with Some l => mem_name (meth_name m) l | None => false end.

(* ---------- the pipeline through the implementation models ---------- *)

Inductive pv := PV (v : value) | PS (s : strm).

Definition tid_of (p : pv) : N :=
  match p with
  | PS _ => 5
  | PV (VInt _) => 1 | PV (VFloat _) => 2 | PV (VStr _) => 3 | PV (VBool _) => 4
  | PV (VList _) => 5 | PV (VMap _) => 6 | PV (VClo _ _ _ _) => 7 | PV (VErrText _) => 3
  end%N.

Definition okS (s : strm) : res pv := Ok (PS s).
Definition okL (r : res (list value)) : res pv := bind r (fun l => Ok (PV (VList l))).
Definition okV (r : res value) : res pv := bind r (fun v => Ok (PV v)).

Definition with_int (a : arg) (k : Z -> res pv) : res pv :=
  bind (arg_val a) (fun v => match v with VInt n => k n | _ => Err None end).
Definition with_list (a : arg) (k : list value -> res pv) : res pv :=
  bind (arg_val a) (fun v => match v with VList l => k l | _ => Err None end).
Definition with_str (a : arg) (k : str -> res pv) : res pv :=
  bind (arg_val a) (fun v => match v with VStr s => k s | _ => Err None end).

(* List.MultiUse: every function gets the list (its own copy of the iterator), the results are evaluated
   deeply and returned under the functions' keys, in the order of the function map *)
Fixpoint multi_apply (l : list value) (fs : list (name * cexp)) : res (list (str * value)) :=
  match fs with
  | [] => Ok []
  | (k, body) :: r => bind (ceval [VList l] body) (fun v => bind (multi_apply l r) (fun es => Ok ((k, v) :: es)))
  end.

Definition run_list (s : strm) (m : meth) (args : list arg) : res pv :=
  match m, args with
  | M_accept, [a] => bind (arg_f1 a) (fun f => okS (s_accept f s))
  | M_map, [a] => bind (arg_f1 a) (fun f => okS (s_map f s))
  | M_reduce, [a] => bind (arg_f2 a) (fun f => okV (t_reduce f s))
  | M_sum, [] => okV (t_sum s)
  | M_mapReduce, [i; a] => bind (arg_val i) (fun init => bind (arg_f2 a) (fun f => okV (t_fold f init s)))
  | M_visit, [i; a] => bind (arg_val i) (fun init => bind (arg_f2 a) (fun f => okV (t_fold f init s)))
  | M_mean, [] => okV (t_mean s)
  | M_min, [] => okV (t_min s)
  | M_max, [] => okV (t_max s)
  | M_minMax, [a] => bind (arg_f1 a) (fun f => okV (t_minMax f s))
  | M_combine, [a] => bind (arg_f2 a) (fun f => okS (s_combine f s))
  | M_combine3, [a] => bind (arg_f3 a) (fun f => okS (s_combine3 f s))
  | M_combineN, [n; a] =>
      with_int n (fun n => if n <? 1 then Err None else
        if 1000 <? n then Unsup else bind (arg_f1 a) (fun f => okS (s_combineN (Z.to_nat n) f s)))
  | M_indexWhere, [a] => bind (arg_f1 a) (fun f => okV (t_indexWhere f 0 s))
  | M_present, [a] => bind (arg_f1 a) (fun f => okV (t_present f s))
  | M_groupByEqual, [a] => bind (arg_f1 a) (fun f => okL (bind (collect s) (m_groupByEqual f)))
  | M_groupByInt, [a] => bind (arg_f1 a) (fun f => okL (bind (collect s) (m_groupByKey (key_int f))))
  | M_groupByString, [a] => bind (arg_f1 a) (fun f => okL (bind (collect s) (m_groupByKey (key_string f))))
  | M_uniqueInt, [a] => bind (arg_f1 a) (fun f => okL (bind (collect s) (m_unique (key_int f))))
  | M_uniqueString, [a] => bind (arg_f1 a) (fun f => okL (bind (collect s) (m_unique (key_string f))))
  | M_compact, [a] => bind (arg_f2 a) (fun f => okS (s_compact f s))
  | M_cross, [o; a] => bind (arg_f2 a) (fun f => with_list o (fun l2 => okS (s_cross f s l2)))
  | M_merge, [o; a] => bind (arg_f2 a) (fun f => with_list o (fun l2 => okS (s_merge f s l2)))
  | M_order, [a] => bind (arg_f1 a) (fun f => okL (bind (collect s) (m_order f false)))
  | M_orderRev, [a] => bind (arg_f1 a) (fun f => okL (bind (collect s) (m_order f true)))
  | M_orderLess, [a] => bind (arg_f2 a) (fun f => okL (bind (collect s) (m_orderLess f)))
  | M_reverse, [] => okL (bind (collect s) (fun l => Ok (rev l)))
  | M_append, [x] => bind (collect s) (fun l => bind (arg_val x) (fun v => Ok (PV (VList (l ++ [v])))))
  | M_iir, [i; a] =>
      bind (arg_f1 i) (fun ini => bind (arg_f2 a) (fun f =>
        okS (s_iirmap ini (fun item _ last => f item last) s)))
  | M_iirCombine, [i; a] =>
      bind (arg_f1 i) (fun ini => bind (arg_f3 a) (fun f =>
        okS (s_iirmap ini (fun item lastItem last => f lastItem item last) s)))
  | M_fsm, [a] =>
      bind (arg_f2 a) (fun f =>
        okS (s_iirmap (fun item => f state0 item) (fun item _ last => f last item) s))
  | M_top, [n] => with_int n (fun n => okS (s_top n s))
  | M_skip, [n] => with_int n (fun n => okS (s_skip n s))
  | M_number, [a] => bind (arg_f2 a) (fun f => okS (s_number f 0 s))
  | M_set, [i; x] =>
      with_int i (fun i => bind (collect s) (fun l => bind (arg_val x) (fun v => okL (m_set i v l))))
  | M_size, [] => okV (t_size s)
  | M_first, [] => okV (t_first s)
  | M_single, [] => okV (t_single s)
  | M_last, [] => okV (t_last s)
  | M_eval, [] => okL (collect s)
  | M_movingWindow, [a] => bind (arg_f1 a) (fun f => okL (bind (collect s) (m_movingWindow f)))
  | M_movingWindowRemove, [a] => bind (arg_f1 a) (fun f => okL (bind (collect s) (m_movingWindowRemove f)))
  | M_multiUse, [AFM fs] =>
      match fs with
      | [] => Err None                            (* needs at least one function *)
      | _ => bind (collect s) (fun l => bind (multi_apply l fs) (fun es => Ok (PV (VMap es))))
      end
  | M_multiUse, [AV _] | M_multiUse, [AF _ _] => Err None     (* not a map of functions *)
  (* List.ReplaceList: the function is applied to the list itself and its answer is the result; a receiver
     that fails while it is evaluated is outside the model (whether the failure shows depends on what the
     function demands) *)
  | M_replaceList, [a] =>
      bind (arg_f1 a) (fun f => match collect s with Ok l => okV (f (VList l)) | Err _ => Unsup | r => okL r end)
  | _, _ => Unsup
  end.

Definition run_string (s : str) (m : meth) (args : list arg) : res pv :=
  match m, args with
  | M_len, [] => Ok (PV (VInt (utf8_len s)))
  | M_string, [] => Ok (PV (VStr s))
  | M_trim, [] => bind (str_trim s) (fun r => Ok (PV (VStr r)))
  | M_toLower, [] => bind (str_lower s) (fun r => Ok (PV (VStr r)))
  | M_toUpper, [] => bind (str_upper s) (fun r => Ok (PV (VStr r)))
  | M_contains, [a] => with_str a (fun p => Ok (PV (VBool (contains_str s p))))
  | M_indexOf, [a] => with_str a (fun p => Ok (PV (VInt (index_of s p 0))))
  | M_split, [a] => with_str a (fun p => Ok (PV (VList (map VStr (str_split s p)))))
  | M_cut, [p; n] => with_int p (fun p => with_int n (fun n => Ok (PV (VStr (str_cut s p n)))))
  | M_replace, [o; n] => with_str o (fun o => with_str n (fun n => Ok (PV (VStr (str_replace s o n)))))
  | M_toInt, [] => okV (str_to_int s)
  | M_toFloat, [] => okV (str_to_float s)
  | _, _ => Unsup
  end.

Fixpoint arg_vals (args : list arg) : res (list value) :=
  match args with
  | [] => Ok []
  | a :: r => bind (arg_val a) (fun v => bind (arg_vals r) (fun vs => Ok (v :: vs)))
  end.

Definition run_map (e : entries) (m : meth) (args : list arg) : res pv :=
  match m, args with
  | M_accept, [a] => bind (arg_f2 a) (fun f => bind (mm_accept f e) (fun r => Ok (PV (VMap r))))
  | M_map, [a] => bind (arg_f2 a) (fun f => bind (mm_map f e) (fun r => Ok (PV (VMap r))))
  | M_list, [] => Ok (PV (VList (mm_list e)))
  | M_size, [] => Ok (PV (VInt (Z.of_nat (length e))))
  | M_eval, [] => Ok (PV (VMap e))
  | M_isAvail, _ => bind (arg_vals args) (fun vs => okV (mm_isAvail e vs))
  | M_get, [a] => with_str a (fun k => okV (mm_get e k))
  | M_put, [k; v] => with_str k (fun k => bind (arg_val v) (fun v => bind (mm_put e k v) (fun r => Ok (PV (VMap r)))))
  | M_replace, [a] => bind (arg_f1 a) (fun f => bind (mm_replace f e) (fun r => Ok (PV (VMap r))))
  | M_replaceMap, [a] => bind (arg_f1 a) (fun f => okV (f (VMap e)))     (* Map.ReplaceMap: the function applied to the map *)
  | M_combine, [o; a] =>
      bind (arg_f2 a) (fun f =>
      bind (arg_val o) (fun ov => match ov with
                                  | VMap other => bind (mm_combine f e other) (fun r => Ok (PV (VMap r)))
                                  | _ => Err None
                                  end))
  | _, _ => Unsup
  end.

Definition force (p : pv) : res value :=
  match p with PV v => Ok v | PS s => bind (collect s) (fun l => Ok (VList l)) end.

Fixpoint arg_strs (args : list arg) : res (list str) :=
  match args with
  | [] => Ok []
  | AV (VStr k) :: r => bind (arg_strs r) (fun ks => Ok (k :: ks))
  | _ => Unsup
  end.

(* the pseudo-methods: the + operator with a value, and the observer bundle *)
Definition run_pseudo (p : pv) (m : meth) (args : list arg) : res pv :=
  match m, args with
  | M_plus, [a] =>
      bind (arg_val a) (fun v => bind (force p) (fun r =>
        match r, v with
        | VMap x, VMap y => bind (mm_merge x y) (fun e => Ok (PV (VMap e)))
        | _, _ => okV (calc op_add r v)
        end))
  | M_observe, AV (VMap other) :: keys =>
      match p with
      | PV (VMap e) => bind (arg_strs keys) (fun ks => okV (mm_observe e other ks))
      | _ => Unsup
      end
  | _, _ => Unsup
  end.

Definition is_pseudo (m : meth) : bool :=
  match m with M_plus | M_observe | M_fork => true | _ => false end.

Definition run_step (p : pv) (m : meth) (args : list arg) : res pv :=
  if is_pseudo m then run_pseudo p m args else
  let tid := tid_of p in
  match lookup_arity tid m with
  | None => if is_unmodelled tid m then Unsup else Err None          (* method not found *)
  | Some ar =>
      if (0 <=? ar) && negb (ar =? Z.of_nat (length args)) then Err None    (* MethodCall arity check *)
      else
        match p with
        | PS s => run_list s m args
        | PV (VList l) => run_list (of_list l) m args
        | PV (VStr s) => run_string s m args
        | PV (VMap e) => run_map e m args
        | PV v => match m, args with
                  | M_string, [] => bind (to_string v) (fun s => Ok (PV (VStr s)))
                  | _, _ => Unsup
                  end
        end
  end.

Definition step := (meth * list arg)%type.

Fixpoint run_steps (p : pv) (steps : list step) : res pv :=
  match steps with
  | [] => Ok p
  | (m, args) :: r => bind (run_step p m args) (fun p' => run_steps p' r)
  end.

Inductive src := SrcV (v : value) | SrcStatic (f : name) (args : list value).


Definition run_src (s : src) : res pv :=
  match s with
  | SrcV v => Ok (PV v)
  | SrcStatic f args =>
      match run_round_static f args with
      | Some r => match args with [_] => okV r | _ => Err None end
      | None =>
      match static_arity f with
      | Some (Fixed n) => if Nat.eqb n (length args) then okV (run_static f args) else Err None
      | Some VarArgs => okV (run_static f args)
      | None => Unsup
      end end
  end.

(* steps = pre ++ [fork] ++ branch1 ++ [fork] ++ branch2 ...: the first component are the steps
   before the first fork *)
Fixpoint split_forks (steps : list step) : list step * list (list step) :=
  match steps with
  | [] => ([], [])
  | (M_fork, _) :: r => let '(b, bs) := split_forks r in ([], b :: bs)
  | x :: r => let '(b, bs) := split_forks r in (x :: b, bs)
  end.

Fixpoint run_branches {A} (run : list step -> res A) (bs : list (list step)) : res (list A) :=
  match bs with
  | [] => Ok []
  | b :: r => bind (run b) (fun v => bind (run_branches run r) (fun vs => Ok (v :: vs)))
  end.

(* let w = source.pre; [w.branch1, w.branch2, ..., w, source]: values do not change when a sibling is
   extended or modified, so w and the source are observed as they were *)
Definition run_model (s : src) (steps : list step) : res value :=
  let '(pre, bs) := split_forks steps in
  match bs with
  | [] => bind (run_src s) (fun p => bind (run_steps p steps) force)
  | _ =>
      bind (run_src s) (fun p0 => bind (force p0) (fun v0 =>
      bind (bind (run_steps p0 pre) force) (fun w =>
      bind (run_branches (fun b => bind (run_steps (PV w) b) force) bs) (fun outs =>
      Ok (VList (outs ++ [w; v0]))))))
  end.

(* ---------- the pipeline through the documented models (eager, strict) ---------- *)

(* A failure inside the callback of a LAZY stage is only required to surface when the element is
   demanded (C08); the eager reference marks such failures so that the comparison can tell them from
   misuse that must be reported in any case. *)
Definition lazy_mark : str := [0%N].

Definition lz (r : res (list value)) : res value :=
  match r with
  | Ok l => Ok (VList l)
  | Unsup => Unsup
  | OOF => OOF
  | _ => Err (Some lazy_mark)
  end.

Definition eg (r : res (list value)) : res value := bind r (fun l => Ok (VList l)).

Definition sp_int (a : arg) (k : Z -> res value) : res value :=
  bind (arg_val a) (fun v => match v with VInt n => k n | _ => Err None end).
Definition sp_list (a : arg) (k : list value -> res value) : res value :=
  bind (arg_val a) (fun v => match v with VList l => k l | _ => Err None end).

(* a stable reference sort, independent of the implementation's insertion sort: repeatedly take out
   the first item that no other remaining item is smaller than *)
Fixpoint is_min (lt : value -> value -> res bool) (x : value) (l : list value) : res bool :=
  match l with
  | [] => Ok true
  | y :: r => bind (lt y x) (fun b => if b then bind (is_min lt x r) (fun _ => Ok false) else is_min lt x r)
  end.

Fixpoint take_min (lt : value -> value -> res bool) (pre l : list value) (all : list value)
  : res (option (value * list value)) :=
  match l with
  | [] => Ok None
  | x :: r => bind (is_min lt x all) (fun m =>
                if m then Ok (Some (x, rev pre ++ r)) else take_min lt (x :: pre) r all)
  end.

Fixpoint sel_sort (fuel : nat) (lt : value -> value -> res bool) (l : list value) : res (list value) :=
  match fuel with
  | O => match l with [] => Ok [] | _ => OOF end
  | S f =>
      match l with
      | [] => Ok []
      | _ => bind (take_min lt [] l l) (fun o =>
               match o with
               | Some (x, rest) => bind (sel_sort f lt rest) (fun s => Ok (x :: s))
               | None => Err None      (* no minimal item: less is not an order *)
               end)
      end
  end.

Definition lt_key (f : dcb1) (rev_ : bool) : value -> value -> res bool := fun a b =>
  bind (f a) (fun ka => bind (f b) (fun kb => if rev_ then vless kb ka else vless ka kb)).

(* Which pairs a sort compares is its own business: a less/key function that fails on SOME pairs may or
   may not be caught (marked like a lazy failure); one that fails on EVERY pair must be. *)
Definition all_pairs_fail (lt : value -> value -> res bool) (l : list value) : bool :=
  forallb (fun p => match lt (fst p) (snd p) with Ok _ => false | _ => true end) (list_prod l l).

Definition d_sort (lt : value -> value -> res bool) (l : list value) : res (list value) :=
  match l with
  | [] | [_] => Ok l                               (* nothing is compared *)
  | _ => if Nat.ltb 12 (length l) then Unsup else sel_sort (length l) lt l
  end.

Definition sort_spec (lt : value -> value -> res bool) (l : list value) : res value :=
  match d_sort lt l with
  | Ok s => Ok (VList s)
  | Unsup => Unsup
  | OOF => OOF
  | _ => if all_pairs_fail lt l then Err None else Err (Some lazy_mark)
  end.

(* groups in order of first occurrence: key, then all items with that key *)
Fixpoint d_keys (keyf : dcb1) (l : list value) : res (list value) :=
  match l with [] => Ok [] | x :: r => bind (keyf x) (fun k => bind (d_keys keyf r) (fun ks => Ok (k :: ks))) end.

(* the key of an item is compared (with the = of the language) with the keys found so far, in order of
   first occurrence, until one is equal; a comparison that fails makes the whole call fail *)
Fixpoint first_eq (k : value) (gs : list value) (i : nat) : res (option nat) :=
  match gs with
  | [] => Ok None
  | g :: r => bind (veq g k) (fun b => if b then Ok (Some i) else first_eq k r (S i))
  end.

Fixpoint d_distinct (ks : list value) (seen : list value) : res (list value) :=
  match ks with
  | [] => Ok seen
  | k :: r => bind (first_eq k seen 0) (fun o => d_distinct r (match o with Some _ => seen | None => seen ++ [k] end))
  end.

Fixpoint d_indices (dk : list value) (ks : list value) : res (list nat) :=
  match ks with
  | [] => Ok []
  | k :: r => bind (first_eq k dk 0) (fun o => bind (d_indices dk r) (fun is_ =>
                match o with Some i => Ok (i :: is_) | None => Err None end))
  end.

Fixpoint d_pick (j : nat) (is_ : list nat) (l : list value) : list value :=
  match is_, l with
  | i :: ri, x :: rl => if Nat.eqb i j then x :: d_pick j ri rl else d_pick j ri rl
  | _, _ => []
  end.

Definition d_groups (keyf : dcb1) (l : list value) : res (list value) :=
  bind (d_keys keyf l) (fun ks =>
  bind (d_distinct ks []) (fun dk =>
  bind (d_indices dk ks) (fun is_ =>
  Ok (map (fun jk => VMap [(nm_key, snd jk); (nm_values, VList (d_pick (fst jk) is_ l))])
          (combine (seq 0 (length dk)) dk))))).

Definition d_unique (keyf : dcb1) (l : list value) : res (list value) :=
  bind (d_keys keyf l) (fun ks => d_distinct ks []).

Definition d_minMax (f : dcb1) (l : list value) : res value :=
  bind (mapM f l) (fun ks =>
    match combine ks l with
    | [] => Ok (minmax_map (VInt 0) (VInt 0) (VInt 0) (VInt 0) false)
    | p :: r =>
        bind (foldP d_pick_min p r) (fun mn =>
        bind (foldP d_pick_max p r) (fun mx =>
        Ok (minmax_map (fst mn) (fst mx) (snd mn) (snd mx) true)))
    end).

Fixpoint keys_nondecreasing (ks : list fl) : bool :=
  match ks with
  | [] => true
  | a :: r => match r with [] => true | b :: _ => negb (fl_ltb b a) && is_finite a && is_finite b && keys_nondecreasing r end
  end.

Definition spec_list (l : list value) (m : meth) (args : list arg) : res value :=
  match m, args with
  | M_accept, [a] => bind (arg_f1 a) (fun f => lz (d_accept f l))
  | M_map, [a] => bind (arg_f1 a) (fun f => lz (d_map f l))
  | M_reduce, [a] => bind (arg_f2 a) (fun f => d_reduce f l)
  | M_sum, [] => d_sum l
  | M_mapReduce, [i; a] => bind (arg_val i) (fun init => bind (arg_f2 a) (fun f => d_mapReduce init f l))
  | M_visit, [i; a] => bind (arg_val i) (fun init => bind (arg_f2 a) (fun f => d_visit init f l))
  | M_mean, [] => match l with [] => Err None | _ => d_mean l end
  | M_min, [] => d_min l
  | M_max, [] => d_max l
  | M_minMax, [a] => bind (arg_f1 a) (fun f => d_minMax f l)
  | M_combine, [a] => bind (arg_f2 a) (fun f => lz (d_combine f l))
  | M_combine3, [a] => bind (arg_f3 a) (fun f => lz (d_combine3 f l))
  | M_combineN, [n; a] =>
      sp_int n (fun n => if n <? 1 then Err None else
        if 1000 <? n then Unsup else bind (arg_f1 a) (fun f => lz (d_combineN (Z.to_nat n) f l)))
  | M_indexWhere, [a] => bind (arg_f1 a) (fun f => d_indexWhere f l 0)
  | M_present, [a] => bind (arg_f1 a) (fun f => d_present f l)
  | M_groupByEqual, [a] => bind (arg_f1 a) (fun f => eg (d_groups f l))
  | M_groupByInt, [a] => bind (arg_f1 a) (fun f => eg (d_groups (key_int f) l))
  | M_groupByString, [a] => bind (arg_f1 a) (fun f => eg (d_groups (key_string f) l))
  | M_uniqueInt, [a] => bind (arg_f1 a) (fun f => eg (d_unique (key_int f) l))
  | M_uniqueString, [a] => bind (arg_f1 a) (fun f => eg (d_unique (key_string f) l))
  | M_compact, [a] => bind (arg_f2 a) (fun f => lz (d_compact f l))
  | M_cross, [o; a] => bind (arg_f2 a) (fun f => sp_list o (fun l2 => lz (d_cross f l l2)))
  | M_merge, [o; a] => bind (arg_f2 a) (fun f => sp_list o (fun l2 => lz (d_merge f l l2)))
  | M_replaceList, [a] => bind (arg_f1 a) (fun f => f (VList l))
  | M_order, [a] => bind (arg_f1 a) (fun f => sort_spec (lt_key f false) l)
  | M_orderRev, [a] => bind (arg_f1 a) (fun f => sort_spec (lt_key f true) l)
  | M_orderLess, [a] => bind (arg_f2 a) (fun f => sort_spec (fun x y => d_bool (f x y)) l)
  | M_reverse, [] => Ok (VList (d_reverse l))
  | M_append, [x] => bind (arg_val x) (fun v => Ok (VList (d_append l v)))
  | M_iir, [i; a] => bind (arg_f1 i) (fun ini => bind (arg_f2 a) (fun f => lz (d_iir ini f l)))
  | M_iirCombine, [i; a] => bind (arg_f1 i) (fun ini => bind (arg_f3 a) (fun f => lz (d_iirCombine ini f l)))
  | M_fsm, [a] => bind (arg_f2 a) (fun f => lz (d_fsm f l))
  | M_top, [n] => sp_int n (fun n => if n <? 0 then Unsup else
                     Ok (VList (if Z.of_nat (length l) <=? n then l else d_top n l)))
  | M_skip, [n] => sp_int n (fun n => if n <? 0 then Unsup else
                     Ok (VList (if Z.of_nat (length l) <=? n then [] else d_skip n l)))
  | M_number, [a] => bind (arg_f2 a) (fun f => lz (d_number f 0 l))
  | M_set, [i; x] => sp_int i (fun i => bind (arg_val x) (fun v => eg (d_set i v l)))
  | M_size, [] => Ok (d_size l)
  | M_first, [] => d_first l
  | M_single, [] => d_single l
  | M_last, [] => d_last l
  | M_eval, [] => Ok (VList l)
  (* no documented model yet: the implementation model stands in (correspondence only) *)
  | M_movingWindow, [a] =>
      bind (arg_f1 a) (fun f =>
      bind (mw_keys f l) (fun kl =>
        if keys_nondecreasing (map fst kl)
        then Ok (VList (d_movingWindow (fun a b => match far_apart a b with Ok false => true | _ => false end) kl))
        else Unsup))       (* the description does not say what a window is when the keys go down *)
  | M_movingWindowRemove, [a] => bind (arg_f1 a) (fun f => eg (m_movingWindowRemove f l))
  (* multiUse(fs) = the map over fs of f(list): direct application *)
  | M_multiUse, [AFM fs] =>
      match fs with
      | [] => Err None
      | _ => bind (mapM (fun kb => ceval [VList l] (snd kb)) fs) (fun vs => Ok (VMap (combine (map fst fs) vs)))
      end
  | M_multiUse, [AV _] | M_multiUse, [AF _ _] => Err None
  | _, _ => Unsup
  end.

(* maps as finite maps (canonical: sorted by key); used for the pipelines that end in the observer bundle *)
Definition spec_map (e : entries) (m : meth) (args : list arg) : res value :=
  let c := fm_canon e in
  match m, args with
  | M_put, [k; v] =>
      bind (arg_val k) (fun kv => bind (arg_val v) (fun vv =>
        match kv with VStr k => bind (fm_put c k vv) (fun r => Ok (VMap r)) | _ => Err None end))
  | M_plus, [a] =>
      bind (arg_val a) (fun v => match v with
                                 | VMap o => bind (fm_merge c o) (fun r => Ok (VMap r))
                                 | _ => Err None
                                 end)
  | M_replace, [a] =>
      bind (arg_f1 a) (fun f => bind (f (VMap c)) (fun r =>
        match r with VMap rep => Ok (VMap (fm_replace c (fm_canon rep))) | _ => Err None end))
  | M_map, [a] => bind (arg_f2 a) (fun f => bind (mm_map f c) (fun r => Ok (VMap r)))
  | M_accept, [a] => bind (arg_f2 a) (fun f => bind (mm_accept f c) (fun r => Ok (VMap r)))
  | M_combine, [o; a] =>
      bind (arg_f2 a) (fun f => bind (arg_val o) (fun ov =>
        match ov with VMap other => bind (mm_combine f c other) (fun r => Ok (VMap r)) | _ => Err None end))
  | M_observe, AV (VMap other) :: keys =>
      bind (arg_strs keys) (fun ks =>
      bind (map_to_string c) (fun txt =>
      bind (veq (VMap c) (VMap (fm_canon other))) (fun e1 =>
      bind (veq (VMap (fm_canon other)) (VMap c)) (fun e2 =>
        Ok (VList [VInt (Z.of_nat (length c)); VInt (Z.of_nat (length c)); VList (mm_list c);
                   VList (map (fun k => VList [VBool (match fm_get k c with Some _ => true | None => false end);
                                               match fm_get k c with Some x => x | None => VInt (-1) end;
                                               match fm_get k c with Some _ => VInt (-1) | None => VInt (Z.of_nat (S (length c))) end]) ks);
                   VStr txt; VList [VBool e1; VBool e2]])))))
  | _, _ => Unsup
  end.

Definition spec_step (canon : bool) (v : value) (m : meth) (args : list arg) : res value :=
  match v, canon || is_pseudo m with
  | VMap e, true => spec_map e m args
  | _, _ =>
  if is_pseudo m then bind (run_pseudo (PV v) m args) force else
  let tid := tid_of (PV v) in
  match lookup_arity tid m with
  | None => if is_unmodelled tid m then Unsup else Err None
  | Some ar =>
      if (0 <=? ar) && negb (ar =? Z.of_nat (length args)) then Err None
      else
        match v with
        | VList l => spec_list l m args
        | _ => bind (run_step (PV v) m args) force     (* strings, maps, scalars: one model *)
        end
  end
  end.

Fixpoint spec_steps (canon : bool) (v : value) (steps : list step) : res value :=
  match steps with
  | [] => Ok v
  | (m, args) :: r => bind (spec_step canon v m args) (fun v' => spec_steps canon v' r)
  end.

Definition spec_src (s : src) : res value := bind (run_src s) force.

Definition ends_in_observe (steps : list step) : bool :=
  match rev steps with (M_observe, _) :: _ => true | _ => false end.

Definition run_spec (s : src) (steps : list step) : res value :=
  let canon := ends_in_observe steps in
  let '(pre, bs) := split_forks steps in
  match bs with
  | [] => bind (spec_src s) (fun v => spec_steps canon v steps)
  | _ =>
      bind (spec_src s) (fun v0 =>
      bind (spec_steps false v0 pre) (fun w =>
      bind (run_branches (fun b => spec_steps false w b) bs) (fun outs =>
      Ok (VList (outs ++ [w; v0])))))
  end.

(* ---------- observations ---------- *)

Inductive obs := OOk (v : value) | OFail | OPanic.

Definition fl_same (a b : fl) : bool :=
  match a, b with
  | FFin m e, FFin m' e' => (m =? m') && (e =? e')
  | FNegZero, FNegZero => true
  | FInf x, FInf y => Bool.eqb x y
  | FNaN, FNaN => true
  | _, _ => false
  end.

(* equality of observed values: numbers by kind and exact value, lists in order, maps by key *)
Fixpoint val_eqb (a b : value) {struct a} : bool :=
  match a, b with
  | VInt x, VInt y => x =? y
  | VFloat x, VFloat y => fl_same x y
  | VStr x, VStr y => str_eqb x y
  | VBool x, VBool y => Bool.eqb x y
  | VList la, VList lb =>
      (fix go (la lb : list value) : bool :=
         match la, lb with
         | [], [] => true
         | x :: la', y :: lb' => val_eqb x y && go la' lb'
         | _, _ => false
         end) la lb
  | VMap ma, VMap mb =>
      Nat.eqb (length ma) (length mb) &&
      (fix go (ma : list (str * value)) : bool :=
         match ma with
         | [] => true
         | (k, v) :: ma' => match assoc_v k mb with Some o => val_eqb v o && go ma' | None => false end
         end) ma
  | _, _ => false
  end.

(* unordered = the last list-producing step promises no order (groupByInt/String, uniqueInt/String) *)
Definition same_val (unordered : bool) (a b : value) : bool :=
  if unordered then
    match a, b with
    | VList la, VList lb => check_perm val_eqb la lb
    | _, _ => val_eqb a b
    end
  else val_eqb a b.

(* observer bundle: sizes and keyed answers exactly, the entry list up to order, the text not at all
   (iteration order is the representation's business, the finite-map model has none) *)
(* {k:v, k:v} as the multiset of its k:v parts (keys and values of the run contain no ", ") *)
Definition text_parts (s : str) : list str :=
  match s with
  | _ :: r => str_split (rev (tl (rev r))) [44; 32]%N
  | [] => []
  end.

Definition same_bundle (a b : value) : bool :=
  match a, b with
  | VList [s1; n1; VList l1; k1; VStr t1; e1], VList [s2; n2; VList l2; k2; VStr t2; e2] =>
      val_eqb s1 s2 && val_eqb n1 n2 && check_perm val_eqb l1 l2 && val_eqb k1 k2
      && check_perm str_eqb (text_parts t1) (text_parts t2) && val_eqb e1 e2
  | _, _ => false
  end.

Definition ends_in_observe_b (steps : list (meth * list arg)) : bool :=
  match rev steps with (M_observe, _) :: _ => true | _ => false end.

(* id, source, steps, result unordered?, observation *)
Definition c07_case := (N * src * list step * bool * obs)%type.
Definition c07_id (c : c07_case) : N := let '(id, _, _, _, _) := c in id.

(* model of the implementation = implementation *)
Definition c07_im (c : c07_case) : bool :=
  let '(_, s, steps, un, o) := c in
  match run_model s steps, o with
  | Ok v, OOk w => if un && ends_in_observe_b steps then same_bundle v w else same_val un v w
  | Err _, OFail => true
  | Panic, OPanic => true
  | Unsup, _ | OOF, _ => true
  | _, _ => false
  end.

Definition c07_skipped (c : c07_case) : bool :=
  let '(_, s, steps, _, _) := c in
  match run_model s steps with Unsup | OOF => true | _ => false end.

(* the verified checkers, applied when the LAST step is relational: the receiver of that step is
   recomputed by the documented models *)
Fixpoint split_last (steps : list step) : option (list step * step) :=
  match steps with
  | [] => None
  | [x] => Some ([], x)
  | x :: r => match split_last r with Some (i, l) => Some (x :: i, l) | None => None end
  end.

Definition key_of (f : dcb1) (x : value) : value := match f x with Ok k => k | _ => VErrText None end.
Definition leb_key (f : dcb1) (rev_ : bool) (a b : value) : bool :=
  match (if rev_ then vless (key_of f a) (key_of f b) else vless (key_of f b) (key_of f a)) with
  | Ok false => true
  | _ => false
  end.
Definition leb_less (f : dcb2) (a b : value) : bool :=
  match d_bool (f b a) with Ok false => true | _ => false end.

Definition group_of (g : value) : option (value * list value) :=
  match g with
  | VMap m => match assoc_v nm_key m, assoc_v nm_values m with
              | Some k, Some (VList vs) => Some (k, vs)
              | _, _ => None
              end
  | _ => None
  end.

Fixpoint groups_of (l : list value) : option (list (value * list value)) :=
  match l with
  | [] => Some []
  | g :: r => match group_of g, groups_of r with Some x, Some xs => Some (x :: xs) | _, _ => None end
  end.

Definition keyb_of (f : dcb1) (x k : value) : bool :=
  match f x with Ok kx => val_eqb kx k | _ => false end.

(* groupByEqual compares keys with the = of the language (1 = 1.0) *)
Definition keyb_eq (f : dcb1) (x k : value) : bool :=
  match f x with Ok kx => match veq kx k with Ok true => true | _ => false end | _ => false end.
Definition veq_b (a b : value) : bool := match veq a b with Ok true => true | _ => false end.

Definition relational_ok (inp : list value) (last : step) (out : value) : bool :=
  match last, out with
  | (M_order, [a]), VList o =>
      match arg_f1 a with Ok f => check_order val_eqb (leb_key f false) inp o | _ => true end
  | (M_orderRev, [a]), VList o =>
      match arg_f1 a with Ok f => check_order val_eqb (leb_key f true) inp o | _ => true end
  | (M_orderLess, [a]), VList o =>
      match arg_f2 a with Ok f => check_order val_eqb (leb_less f) inp o | _ => true end
  | (M_groupByEqual, [a]), VList o =>
      match arg_f1 a, groups_of o with
      | Ok f, Some gs => check_groups val_eqb veq_b (keyb_eq f) inp gs
      | Ok _, None => false
      | _, _ => true
      end
  | (M_groupByInt, [a]), VList o =>
      match arg_f1 a, groups_of o with
      | Ok f, Some gs => check_groups val_eqb val_eqb (keyb_of (key_int f)) inp gs
      | Ok _, None => false
      | _, _ => true
      end
  | (M_groupByString, [a]), VList o =>
      match arg_f1 a, groups_of o with
      | Ok f, Some gs => check_groups val_eqb val_eqb (keyb_of (key_string f)) inp gs
      | Ok _, None => false
      | _, _ => true
      end
  | (M_uniqueInt, [a]), VList o =>
      match arg_f1 a with Ok f => check_unique val_eqb (keyb_of (key_int f)) inp o | _ => true end
  | (M_uniqueString, [a]), VList o =>
      match arg_f1 a with Ok f => check_unique val_eqb (keyb_of (key_string f)) inp o | _ => true end
  | _, _ => true
  end.

Definition checker_verdict (s : src) (steps : list step) (out : value) : bool :=
  match split_last steps with
  | Some (ini, last) =>
      match (if existsb (fun st => is_pseudo (fst st)) steps then Unsup else bind (spec_src s) (fun v => spec_steps false v ini)) with
      | Ok (VList inp) => relational_ok inp last out
      | _ => true
      end
  | None => true
  end.

(* order / orderRev / orderLess as the LAST step on MORE than 12 items: the implementation sorts with
   pdqsort proper, which neither model follows.  The property does not depend on the algorithm: the answer
   must be a sorted permutation (check_order, proved correct), an error if the comparison fails on every
   pair, and it must not be an error if the comparison is defined on every pair. *)
Definition all_pairs_ok (lt : value -> value -> res bool) (l : list value) : bool :=
  forallb (fun p => match lt (fst p) (snd p) with Ok _ => true | _ => false end) (list_prod l l).

Definition sort_of_step (st : step) : option ((value -> value -> res bool) * (value -> value -> bool)) :=
  match st with
  | (M_order, [a]) => match arg_f1 a with Ok f => Some (lt_key f false, leb_key f false) | _ => None end
  | (M_orderRev, [a]) => match arg_f1 a with Ok f => Some (lt_key f true, leb_key f true) | _ => None end
  | (M_orderLess, [a]) => match arg_f2 a with Ok f => Some (fun x y => d_bool (f x y), leb_less f) | _ => None end
  | _ => None
  end.

Definition long_sort_verdict (s : src) (steps : list step) (o : obs) : option bool :=
  if existsb (fun st => is_pseudo (fst st)) steps then None else
  match split_last steps with
  | Some (ini, last) =>
      match sort_of_step last, bind (spec_src s) (fun v => spec_steps false v ini) with
      | Some (lt, le_), Ok (VList inp) =>
          if Nat.ltb 12 (length inp) then
            if all_pairs_ok lt inp then
              Some (match o with OOk (VList w) => check_order val_eqb le_ inp w | _ => false end)
            else if all_pairs_fail lt inp then Some (match o with OFail => true | _ => false end)
            else None
          else None
      | _, _ => None
      end
  | None => None
  end.

(* the implementation's answer satisfies the specification side *)
Definition c07_is (c : c07_case) : bool :=
  let '(_, s, steps, un, o) := c in
  match long_sort_verdict s steps o with Some b => b | None =>
  match run_spec s steps, o with
  | Ok v, OOk w => if ends_in_observe steps then same_bundle v w
                   else same_val un v w && checker_verdict s steps w
  | Ok _, _ => false
  | Err (Some mk), OOk _ => str_eqb mk lazy_mark     (* a lazy stage's callback failed on an item nobody demanded *)
  | Err _, OFail => true
  | Err _, _ => false                               (* misuse must be an error: not a value, not a panic *)
  | Panic, _ => false
  | Unsup, OPanic | OOF, OPanic => false            (* a panic is never acceptable *)
  | Unsup, _ | OOF, _ => true
  end end.

(* finding signature support: nothing is computed here, the harness names built-in and boundary class *)

(* ---------- the method tables of the model against the tables dumped from value.New() ---------- *)

Definition lookup_method (tbl : list (N * list (name * Z))) (tid : N) (n : name) : option Z :=
  match assocN tid tbl with Some l => assoc n l | None => None end.

Definition declared_unmodelled (tid : N) (n : name) : bool :=
  match assocN tid unmodelled_table with Some l => mem_name n l | None => false end.

(* every modelled method exists with the modelled number of arguments, and every method that exists
   is modelled or listed as unmodelled: a new, renamed or re-aritied method breaks the obligation *)
Definition methods_match (gen : list (N * list (name * Z))) : bool :=
  forallb (fun e => forallb (fun na =>
      match lookup_method gen (fst e) (fst na) with Some a => a =? snd na | None => false end) (snd e)) model_methods
  && forallb (fun e => forallb (fun na =>
      match lookup_method model_methods (fst e) (fst na) with
      | Some _ => true
      | None => declared_unmodelled (fst e) (fst na)
      end) (snd e)) gen.

Definition modelled_statics : list name :=
  [n_throw; n_string; n_isFloat; n_isInt; n_float; n_int; n_abs; n_sign; n_sqr; n_binAnd; n_binOr;
   n_min; n_max; n_numbers].

Definition statics_match (gen : list (name * Z)) : bool :=
  forallb (fun n => match assoc n gen with Some a => a =? 1 | None => false end) [n_round; n_floor; n_ceil; n_trunc] &&
  forallb (fun n =>
    match assoc n gen, static_arity n with
    | Some a, Some (Fixed k) => a =? Z.of_nat k
    | Some a, Some VarArgs => a =? -1
    | _, _ => false
    end) modelled_statics.

(* witnesses for a broken table obligation: (type id, name) of the entries that do not match *)
Definition methods_mismatch (gen : list (N * list (name * Z))) : list (N * name) :=
  flat_map (fun e => flat_map (fun na =>
      match lookup_method gen (fst e) (fst na) with
      | Some a => if a =? snd na then [] else [(fst e, fst na)]
      | None => [(fst e, fst na)]
      end) (snd e)) model_methods
  ++ flat_map (fun e => flat_map (fun na =>
      match lookup_method model_methods (fst e) (fst na) with
      | Some _ => []
      | None => if declared_unmodelled (fst e) (fst na) then [] else [(fst e, fst na)]
      end) (snd e)) gen.
