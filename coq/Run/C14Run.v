(* Executable checkers of the C14 correspondence run (vm_compute on what the harness observed).
   The harness puts the value pool into the prelude of every case file; a case names its operands by
   index and lists the implementation's answers.
     c14_im : the operator model (Sem/Ops.v calc, Sem/Lib.v pick_min/pick_max, equal_fg for switch)
              gives exactly the observed answers;
     c14_is : the observed answers are acceptable to the specification side (Sem/OpsSpec.v) AND the
              laws hold between the observed answers themselves (symmetry, negation, flip, <= is
              < or =, >= is flipped <=, transitivity). *)
From P2 Require Import Base.Prelude Sem.Num Sem.Syntax Sem.Ops Sem.Lib Sem.OpsSpec Sem.OrderSwitch.
Local Open Scope N_scope.

(* what the implementation answered *)
Inductive obs := OT | OF | OE | OV (v : value) | ON (n : N) | OP (k : N) | OL (ks : list N).
(* OT/OF: true/false, OE: an error (returned or recovered panic), OV: a value (min max order),
   ON: number of the switch case taken (0 = default); to keep the case files small a returned value
   that is (structurally) the k-th operand of the case is written OP k, and a returned list made of
   operands OL [k1;k2;..] *)

Inductive c14_case :=
| CPair (id : N) (i j : N) (ab ba : list obs)            (* both directions of an unordered pair *)
| CMem (id : N) (i j : N) (pres_j : bool) (o : obs)      (* pool[i] ~ pool[j]; is the right operand materialised *)
| CMem2 (id : N) (i j k : N) (o : obs)                   (* pool[i] ~ [pool[j], pool[k]] *)
| CTriple (id : N) (i j k : N) (o : list obs)
| COrder (id : N) (ix : list N) (o : obs)
| CGroup (id : N) (ix : list N) (o : obs).               (* [pool[i] | i in ix].groupByEqual(k->k).size() *)               (* [pool[i] | i in ix].order(x->x), at most 12 elements *)

Definition c14_id (c : c14_case) : N :=
  match c with CPair id _ _ _ _ => id | CMem id _ _ _ _ => id | CMem2 id _ _ _ _ => id | CTriple id _ _ _ _ => id
          | COrder id _ _ => id | CGroup id _ _ => id end.

Definition getv (pool : list value) (i : N) : value := nth (N.to_nat i) pool (VBool false).

Definition obs_bool (o : obs) : res bool :=
  match o with OT => Ok true | OF => Ok false | OE => Err None | _ => Unsup end.
Definition obs_val (ops : list value) (o : obs) : res value :=
  match o with
  | OV v => Ok v
  | OP k => Ok (nth (N.to_nat k) ops (VBool false))
  | OL ks => Ok (VList (map (fun k => nth (N.to_nat k) ops (VBool false)) ks))
  | OE => Err None
  | _ => Unsup
  end.
Definition obs_n (o : obs) : res N :=
  match o with ON n => Ok n | OE => Err None | _ => Unsup end.

(* ---------- implementation vs model ---------- *)

(* the model's answer and the observation agree; a model answer outside the exact fragment
   (Unsup: an int that is not exactly a float) is not a disagreement *)
Definition agree_bool (m : res value) (o : obs) : bool :=
  match m, o with
  | Ok (VBool true), OT | Ok (VBool false), OF => true
  | (Err _ | Panic), OE => true
  | Unsup, _ => true
  | _, _ => false
  end.

Definition agree_val (ops : list value) (m : res value) (o : obs) : bool :=
  match m, obs_val ops o with
  | Ok x, Ok y => val_same x y
  | (Err _ | Panic), Err _ => true
  | Unsup, _ => true
  | _, _ => false
  end.

(* ~ with the materialisation state of the right-hand list as the harness observed it *)
Definition calc_repr (present : bool) (op : name) (a b : value) : res value :=
  if str_eqb op op_in then
    match a, b with
    | VList search, VList l => rbool (contains_all_repr present l search)
    | _, _ => calc op a b
    end
  else calc op a b.

Definition agree_n (m : res N) (o : obs) : bool :=
  match m, o with
  | Ok x, ON y => x =? y
  | (Err _ | Panic), OE => true
  | Unsup, _ => true
  | _, _ => false
  end.

(* order: the insertion-sort model (Sem/OrderSwitch.v order_model) is what sort.Sort does for at most 12
   elements; longer lists (pdqsort, not modelled) are judged by the checker order_allowed alone *)
Definition order_model12 (l : list value) : res value :=
  if Nat.ltb 12 (length l) then Unsup else order_model l.

(* observations of one direction: = != < > <= >=, then min(a,b), max(a,b), switch a case b, [a,b].order *)
Definition dir_im (a b : value) (o : list obs) : bool :=
  match o with
  | [o1; o2; o3; o4; o5; o6; omin; omax; osw; oord] =>
      agree_bool (calc op_eq a b) o1 && agree_bool (calc op_ne a b) o2
      && agree_bool (calc op_lt a b) o3 && agree_bool (calc op_gt a b) o4
      && agree_bool (calc op_le a b) o5 && agree_bool (calc op_ge a b) o6
      && agree_val [a; b] (run_static n_min [a; b]) omin && agree_val [a; b] (run_static n_max [a; b]) omax
      && agree_n (switch_model a [b] 1) osw
      && agree_val [a; b] (order_model12 [a; b]) oord
  | _ => false
  end.

(* triple: min(a,b,c) max(a,b,c) [a,b,c].min() [a,b,c].max() [a,b,c].order(x->x)
           switch a case b:1 case c:2 default 0;  a<b b<c a<c  a=b b=c a=c *)
Definition triple_im (a b c : value) (o : list obs) : bool :=
  match o with
  | [omin; omax; olmin; olmax; oord; osw; l1; l2; l3; e1; e2; e3] =>
      agree_val [a; b; c] (run_static n_min [a; b; c]) omin && agree_val [a; b; c] (run_static n_max [a; b; c]) omax
      && agree_val [a; b; c] (pick_min a [b; c]) olmin && agree_val [a; b; c] (pick_max a [b; c]) olmax
      && agree_n (switch_model a [b; c] 1) osw
      && agree_val [a; b; c] (order_model12 [a; b; c]) oord
      && agree_bool (calc op_lt a b) l1 && agree_bool (calc op_lt b c) l2 && agree_bool (calc op_lt a c) l3
      && agree_bool (calc op_eq a b) e1 && agree_bool (calc op_eq b c) e2 && agree_bool (calc op_eq a c) e3
  | _ => false
  end.

Definition c14_im (pool : list value) (c : c14_case) : bool :=
  match c with
  | CPair _ i j ab ba =>
      let a := getv pool i in let b := getv pool j in
      dir_im a b ab && dir_im b a ba
  | CMem _ i j pj o => agree_bool (calc_repr pj op_in (getv pool i) (getv pool j)) o
  | CMem2 _ i j k o => agree_bool (calc op_in (getv pool i) (VList [getv pool j; getv pool k])) o
  | CTriple _ i j k o => triple_im (getv pool i) (getv pool j) (getv pool k) o
  | COrder _ ix o => let l := map (getv pool) ix in agree_val l (order_model12 l) o
  | CGroup _ ix o => agree_n (group_eq_model (map (getv pool) ix)) o
  end.

(* ---------- representation independence (run-level specification) ----------
   Values of the model are abstract: VList / VMap carry no representation.  The harness evaluates every
   pair also with the lists of both operands (down to nesting depth 2) rebuilt, for every evaluation, in
   each un-evaluated representation (accept, accept dropping leading/trailing items, skip, top over sized
   and unsized sources with n equal to / larger than the number of items, combine, + of two halves, append,
   map(e->e) over each of these), and hands Coq the SAME CPair / CMem case: c14_im and c14_is below judge
   the answers by the abstract values only, so an answer that depends on the representation (or on whether
   a list has been evaluated before) fails both; the only representation input of the model is the
   materialisation flag of the right operand of list ~ list (CMem), which the implementation consults. *)
Definition representation_independent (pool : list value) (c : c14_case)
  (im is : list value -> c14_case -> bool) : bool := im pool c && is pool c.

(* ---------- implementation vs specification ---------- *)

Definition same_obs (x y : obs) : bool :=
  match x, y with OT, OT | OF, OF | OE, OE => true | _, _ => false end.
Definition neg_obs (x : obs) : obs := match x with OT => OF | OF => OT | o => o end.

(* each answer of one direction is acceptable *)
Definition dir_is (a b : value) (o : list obs) : bool :=
  match o with
  | [o1; o2; o3; o4; o5; o6; omin; omax; osw; oord] =>
      eq_allowed a b (obs_bool o1) && ne_allowed a b (obs_bool o2)
      && lt_allowed a b (obs_bool o3) && gt_allowed a b (obs_bool o4)
      && le_allowed a b (obs_bool o5) && ge_allowed a b (obs_bool o6)
      && demanded_val (min_spec a [b]) (obs_val [a; b] omin) && demanded_val (max_spec a [b]) (obs_val [a; b] omax)
      && switch_allowed a [b] 1 (obs_n osw)
      && order_allowed [a; b] (obs_val [a; b] oord)
  | _ => false
  end.

(* the laws between the observed answers of a pair: which law fails first (0 = none) *)
Definition pair_law (ab ba : list obs) : N :=
  match ab, ba with
  | [e; ne; lt; gt; le; ge; _; _; sw; _], [e'; _; lt'; _; le'; _; _; _; _; _] =>
      if negb (same_obs e e') then 1                                  (* = symmetric *)
      else if negb (same_obs ne (neg_obs e)) then 2                   (* != is not = *)
      else if negb (same_obs gt lt') then 3                           (* a>b is b<a *)
      else if negb (same_obs le (match lt with OT => OT | OF => e | o => o end)) then 4   (* <= is < or = *)
      else if negb (same_obs ge le') then 5                           (* a>=b is b<=a *)
      else if match lt, lt' with OT, OT => true | _, _ => false end then 6              (* < asymmetric *)
      else if negb (match e, sw with OT, ON 1 | OF, ON 0 | OE, OE => true | _, _ => false end) then 7  (* switch uses = *)
      else 0
  | _, _ => 99
  end.

Definition triple_law (o : list obs) : N :=
  match o with
  | [_; _; _; _; _; _; l1; l2; l3; e1; e2; e3] =>
      if match l1, l2, l3 with OT, OT, OT => false | OT, OT, _ => true | _, _, _ => false end then 8   (* < transitive *)
      else if match e1, e2, e3 with OT, OT, OT => false | OT, OT, _ => true | _, _, _ => false end then 9   (* = transitive *)
      else 0
  | _ => 99
  end.

Definition triple_is (a b c : value) (o : list obs) : bool :=
  match o with
  | [omin; omax; olmin; olmax; oord; osw; l1; l2; l3; e1; e2; e3] =>
      demanded_val (min_spec a [b; c]) (obs_val [a; b; c] omin) && demanded_val (max_spec a [b; c]) (obs_val [a; b; c] omax)
      && demanded_val (min_spec a [b; c]) (obs_val [a; b; c] olmin) && demanded_val (max_spec a [b; c]) (obs_val [a; b; c] olmax)
      && order_allowed [a; b; c] (obs_val [a; b; c] oord)
      && switch_allowed a [b; c] 1 (obs_n osw)
      && lt_allowed a b (obs_bool l1) && lt_allowed b c (obs_bool l2) && lt_allowed a c (obs_bool l3)
      && eq_allowed a b (obs_bool e1) && eq_allowed b c (obs_bool e2) && eq_allowed a c (obs_bool e3)
  | _ => false
  end.

Definition c14_is (pool : list value) (c : c14_case) : bool :=
  match c with
  | CPair _ i j ab ba =>
      let a := getv pool i in let b := getv pool j in
      dir_is a b ab && dir_is b a ba && (pair_law ab ba =? 0) && (pair_law ba ab =? 0)
  | CMem _ i j _ o => in_allowed (getv pool i) (getv pool j) (obs_bool o)
  | CMem2 _ i j k o => mem_allowed (getv pool i) [getv pool j; getv pool k] (obs_bool o)
  | CTriple _ i j k o =>
      triple_is (getv pool i) (getv pool j) (getv pool k) o && (triple_law o =? 0)
  | COrder _ ix o => let l := map (getv pool) ix in order_allowed l (obs_val l o)
  | CGroup _ ix o => group_allowed [] (map (getv pool) ix) (obs_n o)
  end.

(* diagnostics for the harness log: position (from 1) of the first answer of a direction that the
   specification rejects, 0 = none *)
Definition dir_is_first_bad (a b : value) (o : list obs) : N :=
  match o with
  | [o1; o2; o3; o4; o5; o6; omin; omax; osw; oord] =>
      if negb (eq_allowed a b (obs_bool o1)) then 1 else if negb (ne_allowed a b (obs_bool o2)) then 2
      else if negb (lt_allowed a b (obs_bool o3)) then 3 else if negb (gt_allowed a b (obs_bool o4)) then 4
      else if negb (le_allowed a b (obs_bool o5)) then 5 else if negb (ge_allowed a b (obs_bool o6)) then 6
      else if negb (demanded_val (min_spec a [b]) (obs_val [a; b] omin)) then 8
      else if negb (demanded_val (max_spec a [b]) (obs_val [a; b] omax)) then 9
      else if negb (switch_allowed a [b] 1 (obs_n osw)) then 10
      else if negb (order_allowed [a; b] (obs_val [a; b] oord)) then 11 else 0
  | _ => 99
  end.
