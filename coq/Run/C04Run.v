(* Executable checkers used by the correspondence run of C04 (evaluated with vm_compute on what the harness
   observed on the implementation in isolated worker processes).  Must not import proofs. *)
From P2 Require Import Base.Prelude Lex.Token Lex.Tok Run.C15Run.
From P2 Require Conc.TokChan Syn.Ast Syn.Parse Syn.ParseOpt.
Local Open Scope N_scope.

(* inputs and token streams travel as segments (piece, repetitions): 30000 nested parentheses are three segments *)
Definition expand {X : Type} (segs : list (list X * N)) : list X :=
  flat_map (fun sg => concat (repeat (fst sg) (N.to_nat (snd sg)))) segs.

(* what the worker observed for Generate(input):
   outcome 0 = a function was returned, 1 = an error was returned, 2 = a panic escaped, 3 = no return within the
   time bound (watchdog), 4 = the worker process died;
   recv_known = the hook VerifParseReceived was run; received = tokens the parser had received when it returned;
   total = tokens the tokenizer produced *)
Definition c04_obs := (N * bool * N * N)%type.

(* the parser half of a case: what Parser.Parse (with the optimizer setting of the case) did on the input -
   pkind 0 = an AST, 1 = an error, 2 = a panic escaped, 3 = not observed;
   the number images of the input ParseNumber rejects; the identifiers of the input the generator knows
   (name, 0 = constant, 1 = static function); per generator: binary operators in priority order, prefix operators,
   whether a string handler is installed, the argument names handed to Generate *)
Definition c04_ptab := (list str * list str * bool * list str)%type.
Definition c04_par := (N * list str * list (str * N) * c04_ptab)%type.

Definition par_cfg (bad : list str) (t : c04_ptab) : Parse.pcfg :=
  let '(ops, unary, strh, _) := t in
  Parse.mkPcfg ops unary (Some (fun img => if Parse.mem_str img bad then None else Some img))
               (if strh then Some (fun s => s) else None).

Definition par_ids (known : list (str * N)) (t : c04_ptab) : Parse.idents :=
  let '(_, _, _, args) := t in
  (match args with [] => [] | _ => [Parse.SArgs args] end)
  ++ map (fun k => if snd k =? 1 then Parse.id_function (fst k) else Parse.id_constant (fst k) [99]) known.

Definition pkind_of (r : Parse.pres Ast.ast) : N :=
  match r with Parse.POk _ => 0 | Parse.PErr => 1 | Parse.PPanic => 2 | Parse.POOF => 4 end.

(* the two extreme optimizers: none, and one that panics on every call (under the recover of parser2.Optimize) *)
Definition par_kinds (p : c04_par) (toks : list token) : N * N :=
  let '(_, bad, known, t) := p in
  let ts := map Parse.untok toks in
  (pkind_of (ParseOpt.oparse (par_cfg bad t) None (fun _ => true) (par_ids known t) ts),
   pkind_of (ParseOpt.oparse (par_cfg bad t) (Some (fun a => ParseOpt.OPanic a)) (fun _ => true) (par_ids known t) ts)).

(* id, configuration (operators, text operators, keywords, comments, comfort, letters, numbers of the input),
   input segments (runes after UTF-8 decoding, one U+FFFD per invalid byte), observed token segments, outcome,
   parser half *)
Definition c04_case := (N * c15_cfg * list (list N * N) * list (list (N * str * N) * N) * c04_obs * c04_par)%type.
Definition c04_id (c : c04_case) : N := let '(id, _, _, _, _, _) := c in id.

(* model of the implementation = implementation: the scanner model yields exactly the observed token stream
   (also on malformed input), within the linear fuel; and the parser model with the optimizer calls (Syn/ParseOpt.v),
   run on the observed tokens without an optimizer AND with an optimizer that panics on every call, gives the
   outcome kind (AST / error) Parser.Parse gave *)
Definition c04_im (c : c04_case) : bool :=
  let '(_, d, isegs, osegs, o, p) := c in
  let '(outcome, known, received, total) := o in
  let input := expand isegs in
  let obs := obs_tokens (expand osegs) in
  match tokenize_fuel (length input + 2) (cfg_of d) input with
  | Some ts => toks_eqb ts obs && (negb known || (N.of_nat (length ts) =? total))
               && (let '(pk, _, _, _) := p in
                   (pk =? 3) || (let '(k0, k1) := par_kinds p obs in (k0 =? pk) && (k1 =? pk)))
  | None => false
  end.

(* the implementation satisfies the specification side: Generate returned a function or an error - no panic, no
   timeout, no crash; Parse returned an AST or an error; a successful parse has received every token; and the protocol
   model, run with the observed tokens and the observed number of receives, ends with both goroutines returned *)
Definition c04_is (c : c04_case) : bool :=
  let '(_, _, _, osegs, o, p) := c in
  let '(outcome, known, received, total) := o in
  let '(pk, _, _, _) := p in
  (outcome <=? 1) && negb (pk =? 2)
  && (negb known
      || ((received <=? total) && (negb (outcome =? 0) || (received =? total))
          && (let obs := expand osegs in
              let k := N.to_nat received in
              TokChan.final (TokChan.canon (length obs + k + 4) true (TokChan.init obs k))))).
