(* Executable checkers used by the correspondence run of C04 (evaluated with vm_compute on what the harness
   observed on the implementation in isolated worker processes).  Must not import proofs. *)
From P2 Require Import Base.Prelude Lex.Token Lex.Tok Run.C15Run.
From P2 Require Conc.TokChan.
Local Open Scope N_scope.

(* inputs and token streams travel as segments (piece, repetitions): 30000 nested parentheses are three segments *)
Definition expand {X : Type} (segs : list (list X * N)) : list X :=
  flat_map (fun sg => concat (repeat (fst sg) (N.to_nat (snd sg)))) segs.

(* what the worker observed for Generate(input):
   outcome 0 = a function was returned, 1 = an error was returned, 2 = a panic escaped, 3 = no return within the
   time bound (watchdog), 4 = the worker process died;
   recv_known = the hook VerifParseReceived was run; received = tokens the parser had received when it returned;
   total = tokens the tokenizer produced *)
Definition c04_obs := (N * bool * N * N)%type.

(* id, configuration (operators, text operators, keywords, comments, comfort, letters, numbers of the input),
   input segments (runes after UTF-8 decoding, one U+FFFD per invalid byte), observed token segments, outcome *)
Definition c04_case := (N * c15_cfg * list (list N * N) * list (list (N * str * N) * N) * c04_obs)%type.
Definition c04_id (c : c04_case) : N := let '(id, _, _, _, _) := c in id.

(* model of the implementation = implementation: the scanner model yields exactly the observed token stream
   (also on malformed input), within the linear fuel *)
Definition c04_im (c : c04_case) : bool :=
  let '(_, d, isegs, osegs, o) := c in
  let '(outcome, known, received, total) := o in
  let input := expand isegs in
  let obs := obs_tokens (expand osegs) in
  match tokenize_fuel (length input + 2) (cfg_of d) input with
  | Some ts => toks_eqb ts obs && (negb known || (N.of_nat (length ts) =? total))
  | None => false
  end.

(* the implementation satisfies the specification side: Generate returned a function or an error - no panic, no
   timeout, no crash; a successful parse has received every token; and the protocol model, run with the observed
   tokens and the observed number of receives, ends with both goroutines returned *)
Definition c04_is (c : c04_case) : bool :=
  let '(_, _, _, osegs, o) := c in
  let '(outcome, known, received, total) := o in
  (outcome <=? 1)
  && (negb known
      || ((received <=? total) && (negb (outcome =? 0) || (received =? total))
          && (let obs := expand osegs in
              let k := N.to_nat received in
              TokChan.final (TokChan.canon (length obs + k + 4) true (TokChan.init obs k))))).
