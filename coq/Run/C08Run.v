(* Executable checkers for the correspondence run of C08 (laziness).  The harness writes each case as a
   first-order description of the pipeline (closures from a small family, exactly the expression text
   it evaluated) plus what it observed on the implementation: the outcome and the tick log. *)
From P2 Require Import Base.Prelude Lib.Stream.
Local Open Scope Z_scope.

(* ---------- closure descriptions and their meaning ----------
   x -> if tick(ID,x) = F then throw("boom") else x*A+B                              (Dfn1)
   x -> if tick(ID,x) = F then throw("boom") else <x > T | x = T | x % M = R>        (Dpr1)
   (a,b) -> if tickS(ID,a,b) = F then throw("boom") else a*P+b*Q+C                   (Dfn2; tick2 returns a, tick2b returns b)
   (a,b) -> if tickS(ID,a,b) = F then throw("boom") else (a-a%D) = (b-b%D)           (Dpr2, D > 0)
   (a,b) -> if tickS(ID,a,b) = F then throw("boom") else a<b                        (Dpr2, D = 0)
   F absent: the comparison is made with a value no element takes. *)
Inductive dfn1 := Dfn1 (fail : option Z) (a b : Z).
Inductive dpk := DGt (t : Z) | DEq (t : Z) | DMod (m r : Z) | DLt (t : Z).
Inductive dpr1 := Dpr1 (fail : option Z) (k : dpk).
Inductive dfn2 := Dfn2 (fail : option Z) (sel : bool) (p q c : Z).
Inductive dpr2 := Dpr2 (fail : option Z) (sel : bool) (d : Z).

Definition fails (f : option Z) (x : Z) : bool :=
  match f with Some v => x =? v | None => false end.

Definition den_fn1 (d : dfn1) : fn1 :=
  match d with Dfn1 f a b => fun x => if fails f x then Err e_throw else Ok (x * a + b) end.

Definition den_pk (k : dpk) (x : Z) : bool :=
  match k with
  | DLt t => x <? t
  | DGt t => t <? x
  | DEq t => x =? t
  | DMod m r => Z.rem x m =? r
  end.

Definition den_pr1 (d : dpr1) : pr1 :=
  match d with Dpr1 f k => fun x => if fails f x then Err e_throw else Ok (den_pk k x) end.

Definition den_fn2 (d : dfn2) : fn2 :=
  match d with
  | Dfn2 f sel p q c => fun a b => if fails f (if sel then b else a) then Err e_throw else Ok (a * p + b * q + c)
  end.

Definition den_pr2 (d : dpr2) : pr2 :=
  match d with
  | Dpr2 f sel dd => fun a b => if fails f (if sel then b else a) then Err e_throw
                                else if dd =? 0 then Ok (a <? b)        (* d = 0 encodes the order closure of merge: a<b *)
                                else Ok ((a - Z.rem a dd) =? (b - Z.rem b dd))
  end.

Inductive dstage :=
| DMap (id : N) (f : dfn1)
| DAccept (id : N) (p : dpr1)
| DCombine (id : N) (g : dfn2)
| DNumber (id : N) (g : dfn2)
| DIir (id0 : N) (f0 : dfn1) (id : N) (g : dfn2)
| DCompact (id : N) (e : dpr2)
| DSkip (n : Z)
| DTop (n : Z).

Inductive dpipe := DNumbers (n : Z) | DList (l : list Z) | DStage (s : dstage) (p : dpipe) | DApp (p q : dpipe)
| DCross (id : N) (g : dfn2) (p q : dpipe) | DMerge (id : N) (less : dpr2) (p q : dpipe)
| DThrough (ctx : N) (p : dpipe).

Inductive dterm :=
| DTNone | DTFirst | DTSingle | DTSize
| DTPresent (id : N) (p : dpr1) | DTIndexWhere (id : N) (p : dpr1)
| DTContains (x : Z) | DTReduce (id : N) (g : dfn2).

Definition den_stage (s : dstage) : stage :=
  match s with
  | DMap id f => SMap id (den_fn1 f)
  | DAccept id p => SAccept id (den_pr1 p)
  | DCombine id g => SCombine id (den_fn2 g)
  | DNumber id g => SNumber id (den_fn2 g)
  | DIir id0 f0 id g => SIir id0 (den_fn1 f0) id (den_fn2 g)
  | DCompact id e => SCompact id (den_pr2 e)
  | DSkip n => SSkip n
  | DTop n => STop n
  end.

Fixpoint den_pipe (p : dpipe) : pipe :=
  match p with
  | DNumbers n => PNumbers n
  | DList l => PList l
  | DStage s p' => PStage (den_stage s) (den_pipe p')
  | DApp p1 p2 => PApp (den_pipe p1) (den_pipe p2)
  | DCross id g p1 p2 => PCross id (den_fn2 g) (den_pipe p1) (den_pipe p2)
  | DMerge id e p1 p2 => PMerge id (den_pr2 e) (den_pipe p1) (den_pipe p2)
  | DThrough c p' => PThrough c (den_pipe p')
  end.

Definition den_term (t : dterm) : term :=
  match t with
  | DTNone => TNone | DTFirst => TFirst | DTSingle => TSingle | DTSize => TSize
  | DTPresent id p => TPresent id (den_pr1 p)
  | DTIndexWhere id p => TIndexWhere id (den_pr1 p)
  | DTContains x => TContains x
  | DTReduce id g => TReduce id (den_fn2 g)
  end.

(* ---------- comparison of observations ---------- *)

Fixpoint zlist_eqb (a b : list Z) : bool :=
  match a, b with
  | [], [] => true
  | x :: a', y :: b' => (x =? y) && zlist_eqb a' b'
  | _, _ => false
  end.

Definition event_eqb (a b : event) : bool :=
  match a, b with Ev i x, Ev j y => N.eqb i j && zlist_eqb x y end.

Fixpoint log_eqb (a b : log) : bool :=
  match a, b with
  | [], [] => true
  | x :: a', y :: b' => event_eqb x y && log_eqb a' b'
  | _, _ => false
  end.

(* ok-vs-error and the value; error codes/messages are not compared *)
Definition outcome_eqb (a b : outcome) : bool :=
  match a, b with
  | OInt x, OInt y => x =? y
  | OBool x, OBool y => Bool.eqb x y
  | OErr _, OErr _ => true
  | OList, OList => true
  | _, _ => false
  end.

(* id, pipeline, consumer, observed outcome, observed tick log (in order of occurrence) *)
Definition c08_case := (N * dpipe * dterm * outcome * log)%type.
Definition c08_id (c : c08_case) : N := match c with (i, _, _, _, _) => i end.

Definition c08_fuel : nat := 3000.
Definition c08_bound : nat := 400.

(* model of the implementation = implementation: same outcome, same tick log event by event *)
Definition c08_im (c : c08_case) : bool :=
  match c with
  | (_, p, t, o, l) =>
      match run c08_fuel (den_term t) (den_pipe p) with
      | (lm, om, _) => outcome_eqb om o && log_eqb lm l
      end
  end.

(* implementation satisfies the specification side: the result is the one decided by the least
   source prefix `need`, and no closure ran more often than one more than the number of items its
   stage finds in its input on that prefix (nothing at all ran for a list that is only built) *)
Definition c08_is (c : c08_case) : bool :=
  match c with
  | (_, p, t, o, l) =>
      let pp := den_pipe p in
      let tt := den_term t in
      match tt with
      | TNone => outcome_eqb o OList && match l with [] => true | _ => false end
      | _ =>
          match spec_need c08_bound tt pp with
          | Some (need, os) =>
              outcome_eqb os o &&
              forallb (fun id => Nat.leb (count id l) (spec_bound need tt pp id)) (ids_pipe pp ++ ids_term tt) &&
              forallb (fun e => match e with Ev i _ => existsb (N.eqb i) (ids_pipe pp ++ ids_term tt) end) l
          | None => false
          end
      end
  end.

(* reported by the harness in the evidence: what the model and the specification say for a case *)
Definition c08_model_steps (c : c08_case) : nat :=
  match c with (_, p, t, _, _) => match run c08_fuel (den_term t) (den_pipe p) with (_, _, n) => n end end.
Definition c08_need (c : c08_case) : option nat :=
  match c with (_, p, t, _, _) => option_map fst (spec_need c08_bound (den_term t) (den_pipe p)) end.
