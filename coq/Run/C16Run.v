(* Executable checkers for the correspondence run of C16 (implicit-attribute mode = explicit member access),
   evaluated with vm_compute on what the harness observed on the implementation.  Imports no proofs.

   A case carries, for one program exp over the value-language table and the map argument m:
     toks1  the tokens of exp           as the real tokenizer delivered them
     toks2  the tokens of exp'          (exp with every free attribute x written ( m . x ) by the harness)
     Tq     the harness's own surface tree of exp' as an ast of the reference semantics (Sem/Syntax.v)
     a1     the AST the real parser built for exp  with  g.identifier.AddMap(m).AddArgs([m])  (GenerateWithMap)
     a2     the AST the real parser built for exp' with  g.identifier.AddArgs([m])            (Generate)
     tuples the map argument with the outcomes of the function GenerateWithMap produced, optimizer off and on.
   The parser's ASTs are written with the constructors of Syn/Ast.v under the names X... (Sem/Syntax.v has
   constructors of the same names). *)
From P2 Require Import Base.Prelude Lex.Token Sem.Num Sem.Syntax Sem.Ref Sem.Obs Generated.ValueCfg Run.C01Run.
From P2 Require Syn.Ast Syn.Parse Run.C03Run.
Local Open Scope N_scope.

Notation XLet := P2.Syn.Ast.ALet.
Notation XIf := P2.Syn.Ast.AIf.
Notation XTry := P2.Syn.Ast.ATry.
Notation XSwitch := P2.Syn.Ast.ASwitch.
Notation XOp := P2.Syn.Ast.AOp.
Notation XUn := P2.Syn.Ast.AUn.
Notation XAccess := P2.Syn.Ast.AAccess.
Notation XMethod := P2.Syn.Ast.AMethod.
Notation XIndex := P2.Syn.Ast.AIndex.
Notation XClosure := P2.Syn.Ast.AClosure.
Notation XMapLit := P2.Syn.Ast.AMapLit.
Notation XListLit := P2.Syn.Ast.AListLit.
Notation XIdent := P2.Syn.Ast.AIdent.
Notation XConst := P2.Syn.Ast.AConst.
Notation XCall := P2.Syn.Ast.ACall.
Definition xast := P2.Syn.Ast.ast.

Record c16_in := mkQ {
  q_ops : list str;                 (* binary operators of value.New() in priority order *)
  q_unary : list str;
  q_consts : list str;              (* constants of g.identifier *)
  q_funcs : list str;               (* static functions of g.identifier *)
  q_m : str;                        (* name of the map argument *)
  q_toks1 : list (N * str);
  q_toks2 : list (N * str);
  q_T : ast;                        (* qualified surface tree (reference semantics) *)
  q_lazy : bool;
  q_excl : bool;
  q_extra : list (str * value)      (* constants registered on THIS generator by AddConstant before the program was
                                       generated (newest first) - the state of the generator in a history *)
}.

Definition c16_tuple := (list value * iout * iout)%type.   (* [map], GenerateWithMap optimizer off, on *)
Definition c16_case := (N * c16_in * (option xast * option xast * list c16_tuple))%type.
Definition c16_id (c : c16_case) : N := fst (fst c).

Definition base_chain (i : c16_in) : P2.Syn.Parse.idents :=
  map (fun nv => P2.Syn.Parse.id_constant (fst nv) (99 :: 58 :: fst nv)) (q_extra i) ++
  map P2.Syn.Parse.id_function (q_funcs i) ++
  map (fun n => P2.Syn.Parse.id_constant n (99 :: 58 :: n)) (q_consts i).

(* GenerateWithMap: g.identifier.AddMap(m).AddArgs([m]);  Generate(exp', m): g.identifier.AddArgs([m]) *)
Definition chain_wm (i : c16_in) : P2.Syn.Parse.idents :=
  [P2.Syn.Parse.SArgs [q_m i]; P2.Syn.Parse.SMap (q_m i)] ++ base_chain i.
Definition chain_pl (i : c16_in) : P2.Syn.Parse.idents :=
  [P2.Syn.Parse.SArgs [q_m i]] ++ base_chain i.

(* S: the reference semantics of the qualified tree; the map argument shadows the constants, constants registered
   later shadow earlier ones *)
Definition spec_out_h (i : c16_in) (args : list value) : res value :=
  Ref.eval value_methods c01_fuel (combine [q_m i] args ++ q_extra i ++ consts) (q_T i).

Definition toks_of (l : list (N * str)) : list P2.Syn.Parse.tk := map (fun p => (ttype_of_N (fst p), snd p)) l.

Definition model_ast (i : c16_in) (chain : P2.Syn.Parse.idents) (toks : list (N * str)) : option (option xast) :=
  match P2.Syn.Parse.parse (P2.Run.C03Run.run_cfg (q_ops i) (q_unary i)) chain (toks_of toks) with
  | P2.Syn.Parse.POk a => Some (Some a)
  | P2.Syn.Parse.PErr => Some None
  | _ => None
  end.

Definition oast_eqb (a b : option xast) : bool :=
  match a, b with
  | Some x, Some y => P2.Syn.Ast.ast_eqb x y
  | None, None => true
  | _, _ => false
  end.

(* model of the implementation = implementation: the parser model with the AddMap layer reproduces the AST of
   GenerateWithMap's parse, and without it the AST of the qualified program *)
Definition c16_im (c : c16_case) : bool :=
  let i := snd (fst c) in
  let '(a1, a2, _) := snd c in
  match model_ast i (chain_wm i) (q_toks1 i), model_ast i (chain_pl i) (q_toks2 i) with
  | Some m1, Some m2 => oast_eqb m1 a1 && oast_eqb m2 a2
  | _, _ => false
  end.

(* the implementation satisfies the specification side: both parses give the SAME AST (annotations
   included), and the function GenerateWithMap produced behaves as the reference semantics of the qualified
   program on the map, with and without the optimizer *)
Definition c16_is (c : c16_case) : bool :=
  let i := snd (fst c) in
  let '(a1, a2, tuples) := snd c in
  oast_eqb a1 a2 &&
  (q_excl i ||
   forallb (fun t : c16_tuple =>
              let '(args, ioff, ion) := t in
              let s := spec_out_h i args in
              verdict_ok (compare_out (q_lazy i) s ioff) && verdict_ok (compare_out (q_lazy i) s ion)) tuples).

(* counts for the evidence: tuples where the reference semantics really was compared / unsupported / out of fuel *)
Definition c16_stats (cases : list c16_case) : list N :=
  let vs := flat_map (fun c : c16_case =>
                        let i := snd (fst c) in
                        let '(_, _, tuples) := snd c in
                        if q_excl i then [] else
                        map (fun t : c16_tuple => let '(args, ioff, _) := t in
                                                  compare_out (q_lazy i) (spec_out_h i args) ioff) tuples) cases in
  [N.of_nat (length (filter is_agree vs)); N.of_nat (length (filter is_unsup vs));
   N.of_nat (length (filter is_oof vs)); N.of_nat (length (filter is_lazy vs))].
