(* Executable checkers for the correspondence run of C03 (and the parser half of C04): evaluated with
   vm_compute on the cases the harness observed on the implementation.  Imports no proofs. *)
From P2 Require Import Base.Prelude Lex.Token Syn.Ast Syn.Parse Syn.Render Syn.TableBuild.
From P2 Require Lex.Tok.
Local Open Scope N_scope.

(* what the harness observed when it called Parser.Parse *)
Inductive obs := OAst (a : ast) | OErr | OPanic.

Definition obs_eqb (x y : obs) : bool :=
  match x, y with
  | OAst a, OAst b => ast_eqb a b
  | OErr, OErr => true
  | OPanic, OPanic => true
  | _, _ => false
  end.

(* V = string in the harness: a number is "n:"+image unless it has two dots (ParseNumber fails),
   a string literal is "s:"+content *)
Fixpoint count_dots (s : str) : nat :=
  match s with [] => O | c :: r => if N.eqb c 46 then S (count_dots r) else count_dots r end.
Definition run_num (img : str) : option str :=
  if (1 <? count_dots img)%nat then None else Some (110 :: 58 :: img).
Definition run_strh (s : str) : str := 115 :: 58 :: s.

Definition run_cfg (ops unary : list str) : pcfg := mkPcfg ops unary (Some run_num) (Some run_strh).

(* kinds of cases:
   0 = rendering of a generated expression tree, certificate attached (fragment of C03)
   1 = single-token deletion/insertion of such a rendering (fragment tokens)
   2 = generated program of the full grammar (value-language table), expected to parse
   3 = mutated program / token soup of the full grammar
   COMFORT-MODE family (i_src = Some ...): the text was written with multiplication signs left out and lexemes set
   tight and read by the real tokenizer in comfort mode; kind 0 when the harness' own bookkeeping says the text reads
   back to the written tokens (then the tokens the parser received must be the EXPLICIT tokens of the attached tree and
   the AST the tree's: the omitted signs are back, none was added), kind 1 otherwise (a call of a parenthesised or
   numeric callee reads as a product).  For these cases the tokenizer model (Lex/Tok.v) is run on the text and must
   deliver the tokens the real tokenizer delivered. *)
(* the source text and the tokenizer configuration Parser.Parse used (hook VerifTokenizerConfig); texts of this family
   are ASCII, so unicode.IsLetter / IsNumber are the ASCII classes *)
Record c03_src := mkSrc {
  cs_text : list N;
  cs_ops : list str;
  cs_textops : list (str * str);
  cs_kws : list str;
  cs_comments : bool;
  cs_comfort : bool
}.
Definition src_tcfg (s : c03_src) : P2.Lex.Tok.tcfg :=
  P2.Lex.Tok.mkCfg (cs_ops s) (cs_textops s) (cs_kws s) (cs_comments s) (cs_comfort s) P2.Lex.Tok.MSimple
    (fun c => ((65 <=? c) && (c <=? 90)) || ((97 <=? c) && (c <=? 122))) (fun c => (48 <=? c) && (c <=? 57)).
Record c03_in := mkIn {
  i_ops : list str;
  i_unary : list str;
  i_ids : idents;
  i_toks : list (N * str);          (* (token type number, image) as the parser received them *)
  i_kind : N;
  i_cert : option rt;               (* kind 0: the generator's rendering tree *)
  i_actual : list str;              (* the binary operators the REAL parser holds, in its order (hook); for tables handed to
                                       parser2.Op directly this is i_ops, for tables built through the funcGen API
                                       (AddOp*, AddOpBehind) it is what GetParser passed on *)
  i_hist : list (str * str);        (* the declarations (anchor, operator) the table was built with through the funcGen
                                       API, [] = the table was handed over as it is; i_ops is the PROMISED table *)
  i_src : option c03_src            (* comfort-mode family: the text and the tokenizer configuration *)
}.

Definition c03_case := (N * c03_in * obs)%type.
Definition c03_id (c : c03_case) : N := fst (fst c).

Definition in_toks (i : c03_in) : list tk := map (fun p => (ttype_of_N (fst p), snd p)) (i_toks i).

Definition model_obs (i : c03_in) : option obs :=
  match parse (run_cfg (i_actual i) (i_unary i)) (i_ids i) (in_toks i) with
  | POk a => Some (OAst a)
  | PErr => Some OErr
  | PPanic => Some OPanic
  | POOF => None
  end.

Fixpoint tks_eqb (a b : list tk) : bool :=
  match a, b with
  | [], [] => true
  | x :: a', y :: b' => ttype_eqb (ktyp x) (ktyp y) && str_eqb (kimg x) (kimg y) && tks_eqb a' b'
  | _, _ => false
  end.

(* the tokenizer model on the source text = the tokens the real tokenizer handed to the parser *)
Definition src_ok (i : c03_in) : bool :=
  match i_src i with
  | None => true
  | Some s => tks_eqb (map untok (P2.Lex.Tok.tokenize (src_tcfg s) (cs_text s))) (in_toks i)
  end.

(* model of the implementation = implementation *)
Definition c03_im (c : c03_case) : bool :=
  src_ok (snd (fst c)) &&
  match model_obs (snd (fst c)) with
  | Some o => obs_eqb o (snd c)
  | None => false
  end.

(* token accounting for the fragment: identifiers, literals and operators of the AST in the order written,
   each with the token type it must have come from (an operator of the AST is an operator TOKEN, not a string
   literal or quoted identifier with the same text) *)
Definition const_tok (c : str) : N * str :=
  match c with
  | 110 :: 58 :: r => (12, r)      (* "n:" number *)
  | 115 :: 58 :: r => (13, r)      (* "s:" string *)
  | 99 :: 58 :: r => (0, r)        (* "c:" constant identifier *)
  | _ => (16, c)
  end.

Fixpoint yield (a : ast) : list (N * str) :=
  let fix ys (l : list ast) : list (N * str) :=
    match l with [] => [] | x :: r => yield x ++ ys r end in
  match a with
  | AOp o _ x y => yield x ++ (14, o) :: yield y
  | AUn o v => (14, o) :: yield v
  | AAccess k m => yield m ++ [(0, k)]
  | AMethod nm args v => yield v ++ (0, nm) :: ys args
  | AIndex i l => yield l ++ yield i
  | AListLit l => ys l
  | AIdent x _ => [(0, x)]
  | AConst c => [const_tok c]
  | ACall f args => yield f ++ ys args
  | _ => []
  end.

Fixpoint ktoks_eq (a b : list (N * str)) : bool :=
  match a, b with
  | [], [] => true
  | (k, x) :: a', (k', y) :: b' => N.eqb k k' && str_eqb x y && ktoks_eq a' b'
  | _, _ => false
  end.

Definition content_toks (ts : list (N * str)) : list (N * str) :=
  filter (fun t => match fst t with 0 | 12 | 13 | 14 => true | _ => false end) ts.

(* the implementation satisfies the specification side *)
(* a table built through the generator API is the promised one, and the parser holds it *)
Definition table_built_ok (i : c03_in) : bool :=
  strs_eqb (i_actual i) (i_ops i) &&
  match i_hist i with
  | [] => true
  | h => match build_table [] h with Some t => strs_eqb t (i_ops i) | None => false end
  end.

Definition c03_is (c : c03_case) : bool :=
  let i := snd (fst c) in
  table_built_ok i &&
  let o := snd c in
  let cfg := run_cfg (i_ops i) (i_unary i) in
  let ts := in_toks i in
  match i_kind i with
  | 0 =>
      (* the tokens are a rendering (by the attached rendering tree, checked here) and the AST is
         the tree that rendering denotes *)
      match i_cert i with
      | Some r =>
          table_ok cfg && wf cfg r && tks_eqb (flatten cfg r) ts &&
          match erase cfg (i_ids i) r with
          | Some e => obs_eqb o (OAst e)
          | None => false
          end
      | None => false
      end
  | 1 =>
      (* never a panic; unbalanced brackets are rejected; an accepted input is accounted for token by token *)
      match o with
      | OPanic => false
      | OErr => true
      | OAst a => balanced ts && ktoks_eq (yield a) (content_toks (i_toks i)) &&
                  (* an accepted input has the AST of its unique rendering: the parser model decides the rendering
                     relation for every table with table_ok (C03_parse_iff_renders, C03_parse_sound_full /
                     C03_parse_complete_full), so an AST that differs from the model's, or an AST where the model
                     rejects, is a regrouped or wrongly accepted input - not only a model/implementation difference *)
                  (negb (table_ok cfg) ||
                   match model_obs i with
                   | Some m => obs_eqb m o
                   | None => true
                   end)
      end
  | 2 => match o with OAst _ => true | _ => false end
  | _ => match o with OPanic => false | _ => true end
  end.
