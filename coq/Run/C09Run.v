(* Executable checkers for the correspondence run of C09 (evaluated with vm_compute on the histories the
   harness executed on the implementation).

   A case is a history: a list of steps; a step is the list of model operations one evaluation of a
   generated function performed (with the capacities the Go runtime was observed to choose) and the
   observation of EVERY live handle after the step:
     ho_iter    the elements obtained through the iterable (string())
     ho_present / ho_len / ho_cap   the representation state reported by the verif hook
     ho_items   the elements obtained through items (size(), [i], =); only meaningful when present
   Only the handles whose observation differs from the one after the previous step are listed (Ch i obs);
   all others are "identical to the previous observation" (lossless compression, undone by expand_from). *)
From P2 Require Import Base.Prelude Heap.ListHeap Heap.MapHeap.
Local Open Scope nat_scope.

Record hobs := HO { ho_iter : list val; ho_present : bool; ho_len : nat; ho_cap : nat; ho_items : list val }.
Arguments HO ho_iter%Z ho_present%bool ho_len%nat ho_cap%nat ho_items%Z.

Fixpoint zlist_eqb (a b : list val) : bool :=
  match a, b with
  | [], [] => true
  | x :: a', y :: b' => Z.eqb x y && zlist_eqb a' b'
  | _, _ => false
  end.

Definition hobs_eqb (a b : hobs) : bool :=
  zlist_eqb (ho_iter a) (ho_iter b) && Bool.eqb (ho_present a) (ho_present b) &&
  (ho_len a =? ho_len b) && (ho_cap a =? ho_cap b) &&
  (negb (ho_present a) || zlist_eqb (ho_items a) (ho_items b)).

Fixpoint all2 {A B} (f : A -> B -> bool) (a : list A) (b : list B) : bool :=
  match a, b with
  | [], [] => true
  | x :: a', y :: b' => f x y && all2 f a' b'
  | _, _ => false
  end.

(* shorthands the harness uses: a materialised list whose two views agree, and a lazy one *)
Definition HS (xs : list val) (cap : nat) : hobs := HO xs true (length xs) cap xs.
Definition HL (xs : list val) : hobs := HO xs false 0 0 [].
Arguments HS xs%Z cap%nat.
Arguments HL xs%Z.

(* observation of handle i differs from its previous observation (or i is new) *)
Inductive chg := Ch (i : nat) (o : hobs).
Arguments Ch i%nat o.

Fixpoint find_chg (i : nat) (cs : list chg) : option hobs :=
  match cs with
  | [] => None
  | Ch j o :: r => if i =? j then Some o else find_chg i r
  end.

(* undo the compression: k handles starting at i; None = malformed case *)
Fixpoint expand_from (i k : nat) (prev : list hobs) (cs : list chg) : option (list hobs) :=
  match k with
  | O => Some []
  | S k' =>
      let cur := match find_chg i cs with Some x => Some x | None => nth_error prev i end in
      match cur, expand_from (S i) k' prev cs with
      | Some x, Some l => Some (x :: l)
      | _, _ => None
      end
  end.

(* what the model of the implementation shows for every object *)
Definition observe (h : heap) : list hobs :=
  map (fun oc => let '(ob, c) := oc in
                 HO c (o_present ob) (s_len (o_items ob)) (s_cap (o_items ob)) (rd_slice (h_arrs h) (o_items ob)))
      (combine (h_objs h) (abs h)).

(* operations of the step, number of live handles after it, changed observations *)
Inductive lstep := LS (ops : list op) (n : nat) (changed : list chg).
Arguments LS ops n%nat changed.

Fixpoint im_steps (h : heap) (prev : list hobs) (steps : list lstep) : bool :=
  match steps with
  | [] => true
  | LS ops n o :: r =>
      let h' := run_from h ops in
      match expand_from 0 n prev o with
      | None => false
      | Some cur => all2 hobs_eqb (observe h') cur && im_steps h' cur r
      end
  end.

(* specification side: every handle shows the content it was bound to, through both views *)
Definition hobs_sat (content : list val) (o : hobs) : bool :=
  zlist_eqb (ho_iter o) content &&
  (negb (ho_present o) || (zlist_eqb (ho_items o) content && (ho_len o =? length content))) &&
  (ho_len o <=? ho_cap o).

Fixpoint is_steps (ps : pstate) (prev : list hobs) (steps : list lstep) : bool :=
  match steps with
  | [] => true
  | LS ops n o :: r =>
      let ps' := fold_left pstep ops ps in
      match expand_from 0 n prev o with
      | None => false
      | Some cur => all2 hobs_sat ps' cur && is_steps ps' cur r
      end
  end.

(* ---- maps: a history of map operations with the observation (entries in iteration order, size()) of every handle *)
Record mobs := MO { mo_entries : list (str * val); mo_size : nat }.
Arguments MO mo_entries mo_size%nat.

Fixpoint entries_eqb (a b : list (str * val)) : bool :=
  match a, b with
  | [], [] => true
  | (k, x) :: a', (k', y) :: b' => str_eqb k k' && Z.eqb x y && entries_eqb a' b'
  | _, _ => false
  end.

Inductive mstep_t := MS (ops : list mop) (obs : list mobs).

Definition mobserve (h : mheap) : list mobs :=
  map (fun m => MO (mcontent (mh_arrs h) m) (msize (mh_arrs h) m)) (mh_maps h).

Definition mobs_eqb (a b : mobs) : bool := entries_eqb (mo_entries a) (mo_entries b) && (mo_size a =? mo_size b).

Fixpoint mim_steps (h : mheap) (steps : list mstep_t) : bool :=
  match steps with
  | [] => true
  | MS ops o :: r => let h' := fold_left mstep ops h in all2 mobs_eqb (mobserve h') o && mim_steps h' r
  end.

(* persistence as such: the entries of a handle are what the functional model bound it to.  size() is NOT
   part of this check: that Size() agrees with the number of entries is C13's business. *)
Definition mobs_sat (content : list (str * val)) (o : mobs) : bool := entries_eqb (mo_entries o) content.

Fixpoint mis_steps (ps : list (list (str * val))) (steps : list mstep_t) : bool :=
  match steps with
  | [] => true
  | MS ops o :: r => let ps' := fold_left mpstep ops ps in all2 mobs_sat ps' o && mis_steps ps' r
  end.

(* ---- the case type *)
Inductive c09_hist := LH (steps : list lstep) | MH (steps : list mstep_t).
Definition c09_case := (N * c09_hist)%type.
Definition c09_id (c : c09_case) : N := fst c.

(* model of the implementation = implementation, on every handle after every step *)
Definition c09_im (c : c09_case) : bool :=
  match snd c with
  | LH steps => im_steps empty_heap [] steps
  | MH steps => mim_steps empty_mheap steps
  end.

(* implementation satisfies the specification side (purely functional model of the history) *)
Definition c09_is (c : c09_case) : bool :=
  match snd c with
  | LH steps => is_steps [] [] steps
  | MH steps => mis_steps [] steps
  end.
