(* Executable checkers for the correspondence run of C10 (evaluated with vm_compute on the sessions the
   harness executed on the implementation).

   A case is a session on ONE generator: a history of events (Generate calls, evaluations of the functions
   generated so far with arguments from a pool and a consumption count for list results, evaluations of
   programs outside the modelled fragment - their slot is EScratch []) and, aligned with it, what was observed:

     XGen ok reprs       Generate succeeded; representation state (itemsPresent, len, cap - hook
                         value.VerifListState) of every list constant of the new function after Generate
     XEval out reprs     the outcome of the evaluation (error / integer / the consumed prefix of a list result)
                         and the representation state of the evaluated function's list constants afterwards
     XNone               nothing to compare (event outside the modelled fragment)

   c10_im cp : model of the implementation (Heap/FuncState.v scripts on Heap/ListHeap.v, capacity policy cp
               measured from the Go runtime by the harness) reproduces every observation of the session
   c10_is    : every observed outcome is the outcome the SPECIFICATION assigns to (program, arguments,
               consumption) alone - sp_prog, no heap, no history *)
From P2 Require Import Base.Prelude Heap.ListHeap Heap.MapHeap Heap.FuncState Heap.MapState Heap.MixState.
Local Open Scope nat_scope.

Inductive rep := R3 (present : bool) (len cap : nat).
Arguments R3 present%bool len%nat cap%nat.

Inductive xobs :=
| XNone
| XGen (ok : bool) (reprs : list rep)
| XEval (o : outcome) (reprs : list rep).

Definition rep_eqb (a b : rep) : bool :=
  match a, b with R3 p l c, R3 p' l' c' => Bool.eqb p p' && (l =? l') && (c =? c') end.

Fixpoint zl_eqb (a b : list Z) : bool :=
  match a, b with
  | [], [] => true
  | x :: a', y :: b' => Z.eqb x y && zl_eqb a' b'
  | _, _ => false
  end.

Definition outcome_eqb (a b : outcome) : bool :=
  match a, b with
  | OErr, OErr => true
  | OInt x, OInt y => Z.eqb x y
  | OList x, OList y => zl_eqb x y
  | _, _ => false
  end.

Fixpoint all2 {A B} (f : A -> B -> bool) (a : list A) (b : list B) : bool :=
  match a, b with
  | [], [] => true
  | x :: a', y :: b' => f x y && all2 f a' b'
  | _, _ => false
  end.

Definition xobs_eqb (a b : xobs) : bool :=
  match a, b with
  | XNone, XNone => true
  | XGen o r, XGen o' r' => Bool.eqb o o' && all2 rep_eqb r r'
  | XEval o r, XEval o' r' => outcome_eqb o o' && all2 rep_eqb r r'
  | _, _ => false
  end.

Definition reprs_of (h : heap) (cs : list nat) : list rep :=
  map (fun o => match repr h o with (p, l, c) => R3 p l c end) cs.

(* what the model shows for every event of the session *)
Fixpoint model_session (cp : caps) (g : gstate) (hist : list event) : list xobs :=
  match hist with
  | [] => []
  | e :: r =>
      let g' := run_event cp g e in
      (match e with
       | EGen _ =>
           if length (g_funcs g') =? S (length (g_funcs g))
           then XGen true (reprs_of (g_heap g') (f_cs (last (g_funcs g') (mkF [] [] (BZ ZThrow)))))
           else XGen false []
       | EEval k args j =>
           match nth_error (g_funcs g) k with
           | Some F => XEval (snd (eval_in cp g k args j)) (reprs_of (g_heap g') (f_cs F))
           | None => XEval OErr []
           end
       | _ => XNone
       end) :: model_session cp g' r
  end.

(* the body of a program must not contain a compound constant subexpression: the optimizer would fold it at
   Generate time (the harness generates only such programs; definitions are the place for constants) *)
Fixpoint s_has_arg (e : sexp) : bool :=
  match e with SArg _ => true | SLit _ | SCst _ => false | SAdd a b | SMul a b => s_has_arg a || s_has_arg b end.

Fixpoint l_has_arg (e : lexp) : bool :=
  match e with
  | LConst _ | LLit _ => false
  | LSingle z => z_has_arg z
  | LNumbers n => s_has_arg n
  | LAppend l x => l_has_arg l || z_has_arg x
  | LMap k l | LAccept k l | LTop k l | LSkip k l | LGuard k l => s_has_arg k || l_has_arg l
  | LConcat a b => l_has_arg a || l_has_arg b
  | LReverse l | LForce l | LOrder l => l_has_arg l
  | LStage _ a b => l_has_arg a || l_has_arg b
  end
with z_has_arg (e : zexp) : bool :=
  match e with
  | ZS s => s_has_arg s
  | ZAdd a b | ZMul a b | ZTry a b => z_has_arg a || z_has_arg b
  | ZIndex l i => l_has_arg l || z_has_arg i
  | ZSize l | ZSum l | ZFirst l => l_has_arg l
  | ZThrow => true                (* throw is impure: never folded *)
  | ZIfLt a b t e => z_has_arg a || z_has_arg b || z_has_arg t || z_has_arg e
  | ZCall a b x => s_has_arg a || s_has_arg b || z_has_arg x
  end.

(* every compound node depends on an argument *)
Fixpoint l_nofold (e : lexp) : bool :=
  match e with
  | LConst _ => true
  | LLit _ => false
  | LSingle z => z_has_arg z && z_nofold z
  | LNumbers n => s_has_arg n
  | LAppend l x => l_has_arg e && l_nofold l && z_nofold x
  | LMap k l | LAccept k l | LTop k l | LSkip k l | LGuard k l => l_has_arg e && l_nofold l
  | LConcat a b => l_has_arg e && l_nofold a && l_nofold b
  | LReverse l | LForce l | LOrder l => l_has_arg l && l_nofold l
  | LStage _ a b => l_has_arg e && l_nofold a && l_nofold b
  end
with z_nofold (e : zexp) : bool :=
  match e with
  | ZS _ => true
  | ZAdd a b | ZMul a b => z_has_arg e && z_nofold a && z_nofold b
  | ZTry a b => z_nofold a && z_nofold b
  | ZIndex l i => z_has_arg e && l_nofold l && z_nofold i
  | ZSize l | ZSum l | ZFirst l => l_has_arg l && l_nofold l
  | ZThrow => true
  | ZIfLt a b t e' => (z_has_arg a || z_has_arg b) && z_nofold a && z_nofold b && z_nofold t && z_nofold e'
  | ZCall a b x => z_has_arg e && z_nofold x
  end.

Definition body_nofold (b : body) : bool := match b with BZ e => z_nofold e | BL e => l_nofold e end.

Definition event_ok (e : event) : bool :=
  match e with EGen p => body_nofold (p_body p) | _ => true end.

(* an evaluation of a program of the MAP fragment (Heap/MapState.v) that took place somewhere in the session:
   program, arguments, observed outcome (None = error).  The model answers from a fresh Generate: that the history of
   the session does not matter is C10_map_eval_history_independent; if the implementation depended on it, it shows here *)
Inductive mcase := MCase (p : mprog) (args : list Z) (obs : option Z).
Arguments MCase p args%Z obs.

Definition oz_eqb (a b : option Z) : bool :=
  match a, b with Some x, Some y => Z.eqb x y | None, None => true | _, _ => false end.

Definition mcase_im (c : mcase) : bool :=
  match c with MCase p args obs => match meval_prog p args with Some r => oz_eqb r obs | None => false end end.
Definition mcase_is (c : mcase) : bool :=
  match c with MCase p args obs => oz_eqb (sp_mprog p args) obs end.

(* the evaluations of ONE function of the MIXED fragment (Heap/MixState.v: lists and maps in one state, map literals
   built per evaluation) that took place in a session, in the order of the session: arguments, consumption, observed
   outcome.  The model generates the program on a new generator and runs the evaluations in this order on its two heaps
   (the list constant reached through the maps changes its representation on the way); what other functions did in
   between does not matter by C10_mixed_eval_history_independent - if the implementation depended on it, it shows here.
   xprog_typed: the program is well typed (Heap/MixState.v xprog_wt: the key of a list-valued entry / let starts with
   `l`, every other key does not - the model's handles are untyped) and the body folds nothing at Generate time *)
Inductive xcase := XCase (p : xprog) (evals : list (list Z * nat * xoutcome)).

Definition xprog_typed (p : xprog) : bool :=
  xprog_wt p && match xp_body p with XB b => body_nofold b | XBStr _ => true end.

Definition xoutcome_eqb (a b : xoutcome) : bool :=
  match a, b with
  | XO x, XO y => outcome_eqb x y
  | XOStr s, XOStr t => str_eqb s t
  | _, _ => false
  end.

Fixpoint xsess_im (cp : caps) (g : xgstate) (evs : list (list Z * nat * xoutcome)) : bool :=
  match evs with
  | [] => true
  | (args, j, o) :: r =>
      let '(h1, mh1, o') := xeval_in cp g 0 args j in
      xoutcome_eqb o' o && xsess_im cp (mkXG h1 mh1 (xg_funcs g)) r
  end.

Definition xcase_im (cp : caps) (c : xcase) : bool :=
  match c with
  | XCase p evs =>
      let g := xgenerate cp new_xgenerator p in
      xprog_typed p && (length (xg_funcs g) =? 1) && xsess_im cp g evs
  end.

Definition xcase_is (c : xcase) : bool :=
  match c with
  | XCase p evs =>
      forallb (fun e => match sp_xprog p (fst (fst e)) (snd (fst e)) with
                        | Some o => xoutcome_eqb o (snd e)
                        | None => false
                        end) evs
  end.

Definition c10_case := (N * list event * list xobs * list mcase * list xcase)%type.
Definition c10_id (c : c10_case) : N := fst (fst (fst (fst c))).

Definition c10_im (cp : caps) (c : c10_case) : bool :=
  let hist := snd (fst (fst (fst c))) in
  forallb event_ok hist && all2 xobs_eqb (model_session cp new_generator hist) (snd (fst (fst c))) &&
  forallb mcase_im (snd (fst c)) && forallb (xcase_im cp) (snd c).

(* specification side: the programs generated so far, in order; every observed outcome is sp_prog's *)
Fixpoint spec_session (progs : list prog) (hist : list event) (obs : list xobs) : bool :=
  match hist, obs with
  | [], [] => true
  | EGen p :: r, x :: ro =>
      match x with XGen true _ => spec_session (progs ++ [p]) r ro | _ => false end
  | EEval k args j :: r, XEval o _ :: ro =>
      match nth_error progs k with
      | Some p => match sp_prog p args j with Some o' => outcome_eqb o o' | None => false end
      | None => false
      end && spec_session progs r ro
  | _ :: r, XNone :: ro => spec_session progs r ro
  | _, _ => false
  end.

Definition c10_is (c : c10_case) : bool :=
  spec_session [] (snd (fst (fst (fst c)))) (snd (fst (fst c))) && forallb mcase_is (snd (fst c)) && forallb xcase_is (snd c).

(* capacity policies from measured tables (index = number of elements; beyond the table: exactly n) *)
Definition caps_of_tables (ev ap : list nat) : caps :=
  mkCaps (fun n => nth n ev n) (fun n => nth n ap n).
