(* Executable checkers of the C05 correspondence run.  The harness evaluates one program per case in
   an isolated process and reports what the caller of Func.Eval observed (value / catch value /
   error / the process died); the model predicts the class from the fault source (classified with
   the operator and library model of Sem/Ops.v, Sem/Lib.v) and the context. *)
From P2 Require Import Base.Prelude Sem.Num Sem.Syntax Sem.Ops Sem.Lib Conc.Crash.
Local Open Scope N_scope.

(* the fault source as the harness built it *)
Inductive leafsrc :=
| LOp (op : name) (a b : value)                       (* a op b *)
| LUnary (op : name) (a : value)                      (* op a *)
| LStatic (f : name) (args : list value)              (* f(args) *)
| LMethod (recv : value) (m : name) (args : list value)
| LIndex (l i : value)                                (* l[i] *)
| LMember (m : value) (k : name)                      (* m.k *)
| LFault (f : fault)                                  (* host function, throw, recursion: classified by construction *)
| LUnknown.                                           (* built-in outside the modelled pool: specification side only *)

Definition no_app (c : value) (args : list value) : res value := Unsup.

Definition fault_of_res (builtin : bool) (r : res value) : option fault :=
  match r with
  | Ok _ => Some FValue
  | Err _ => Some (if builtin then FBuiltinErr else FOpErr)
  | Panic => Some FBuiltinPanic
  | OOF | Unsup => None
  end.

Definition arity_ok (ar : arity) (n : nat) : bool :=
  match ar with Fixed k => Nat.eqb k n | VarArgs => true end.

(* a op b on values as the generated code computes it: & and | look at the left operand first
   (value/value.go GenerateCustom), everything else is the operator's Calc *)
Definition op_apply (op : name) (a b : value) : res value :=
  if str_eqb op op_and then
    match a with
    | VBool false => Ok (VBool false)
    | VBool true => match b with VBool x => Ok (VBool x) | VErrText _ => Unsup | _ => Err None end
    | _ => calc op a b
    end
  else if str_eqb op op_or then
    match a with
    | VBool true => Ok (VBool true)
    | VBool false => match b with VBool x => Ok (VBool x) | VErrText _ => Unsup | _ => Err None end
    | _ => calc op a b
    end
  else calc op a b.

(* l[i]: the bounds are compared before the element is fetched, so that a huge index is never
   converted to a unary number (same answers as access_list) *)
Definition index_apply (lv i : value) : res value :=
  match lv, i with
  | VList items, VInt z => if (Z.of_nat (length items) <=? z)%Z then Err None else access_list lv i
  | _, _ => access_list lv i
  end.

Definition leaf_fault (l : leafsrc) : option fault :=
  match l with
  | LOp op a b => fault_of_res false (op_apply op a b)
  | LUnary op a => fault_of_res false (ucalc op a)
  | LStatic f args =>
      match static_arity f with
      | Some ar => if arity_ok ar (length args) then fault_of_res true (run_static f args) else None
      | None => None
      end
  | LMethod recv m args =>
      match method_arity recv m with
      | Some ar => if arity_ok ar (length args) then fault_of_res true (run_method no_app recv m args)
                   else Some FBuiltinErr
      | None => None
      end
  | LIndex lv i => fault_of_res true (index_apply lv i)
  | LMember m k => fault_of_res true (access_map m k)
  | LFault f => Some f
  | LUnknown => None
  end.

(* the contexts the harness wraps around a fault source (harness/c05.go c05Contexts) *)
Inductive cname :=
| KTop | KClosure | KFunc | KTry | KTryClo | KTryInClo
| KSeqMap | KSeqAccept | KParMap | KParAccept | KParMapTry | KTryParMap
| KCollMap | KCollReduce | KTryCollReduce
| KMergeLeft | KMergeRight | KMergeLeftMap | KMergeLess
| KMultiUse | KMultiUseInner | KTryMultiUse
(* the fault sits in a still-lazy list nested in the value a consumer / closure / the program returns;
   the harness evaluates results deeply *)
| KMuRetMapLazy | KMuRetListLazy | KMuRetMapMapLazy | KTryMuRetMapLazy
| KMapRetLazy | KCloRetLazy | KTopMapLazy | KTopListLazy | KTopMapMapLazy
(* a parallel accept that rejects some items (or a parallel map followed by an accept), then a consumer
   closure holding the fault: reduce / visit / present callback, a later map, the same inside try *)
| KAccDown | KAccDownMap | KTryAccDown | KTryAccDownMap
(* the fault is raised while item i of a lazy list is computed; the stages and the consumer behind it
   demand the first d items (sequential lazy semantics, stated per context by the harness) *)
| KDemand (d i : N) | KTryDemand (d i : N).

(* stage 0 is the stage whose switch to parallel mode was observed; later stages run fast closures *)
Definition build (k : cname) (f : fault) : prog :=
  let l := PLeaf f in
  match k with
  | KTop => l
  | KClosure | KFunc => PCall l
  | KTry | KTryClo => PTry l
  | KTryInClo => PCall (PTry l)
  | KSeqMap | KSeqAccept | KParMap | KParAccept => PStage 0 (PCall l)
  | KParMapTry => PStage 0 (PCall (PTry l))
  | KTryParMap => PTry (PStage 0 (PCall l))
  | KCollMap => PDown 0 (PStage 1 (PCall l))
  | KCollReduce => PDown 0 (PCall l)
  | KTryCollReduce => PTry (PDown 0 (PCall l))
  | KMergeLeft | KMergeRight => PMergeOp (PCall l)
  | KMergeLeftMap => PMergeOp (PStage 1 (PCall l))
  | KMergeLess => PMergeLess (PCall l)
  | KMultiUse => PMultiUse [PCall l; PLeaf FValue]
  | KMultiUseInner => PMultiUse [PCall (PStage 1 (PCall l)); PLeaf FValue]
  | KTryMultiUse => PTry (PMultiUse [PCall l; PLeaf FValue])
  | KMuRetMapLazy | KMuRetListLazy | KMuRetMapMapLazy => PMultiUse [PCall (PStage 1 (PCall l)); PLeaf FValue]
  | KTryMuRetMapLazy => PTry (PMultiUse [PCall (PStage 1 (PCall l)); PLeaf FValue])
  | KMapRetLazy | KCloRetLazy | KTopMapLazy | KTopListLazy | KTopMapMapLazy => PStage 1 (PCall l)
  | KAccDown => PDown 0 (PCall l)
  | KAccDownMap => PDown 0 (PStage 1 (PCall l))
  | KTryAccDown => PTry (PDown 0 (PCall l))
  | KTryAccDownMap => PTry (PDown 0 (PStage 1 (PCall l)))
  | KDemand d i => demand d i (PCall l)
  | KTryDemand d i => PTry (demand d i (PCall l))
  end.

(* a try with a constant catch value around everything *)
Definition try_outermost (k : cname) : bool :=
  match k with
  | KTry | KTryClo | KTryInClo | KTryParMap | KTryCollReduce | KTryMultiUse | KTryMuRetMapLazy
  | KTryAccDown | KTryAccDownMap | KTryDemand _ _ => true
  | _ => false
  end.

(* no try/catch anywhere: the evaluation (incl. the deep evaluation of the result) must hit the fault *)
Definition no_try (k : cname) : bool :=
  negb (try_outermost k) && match k with KParMapTry => false | KDemand d i => i <? d | _ => true end.

(* the fault lies behind the demanded prefix: laziness keeps it invisible *)
Definition undemanded (k : cname) : bool :=
  match k with KDemand d i | KTryDemand d i => d <=? i | _ => false end.

(* fault sources that are faults by construction (host function, throw, runaway recursion) *)
Definition surely_faulting (l : leafsrc) : bool :=
  match l with
  | LFault FValue => false
  | LFault (FRecThrough _ _ _ _) | LFault (FRecMixed _ _ _ _ _) | LFault (FDeepData _ _) => false
      (* bounded recursion: a value when the guard does not count the levels *)
  | LFault _ => true
  | _ => false
  end.

Inductive observed := OVal | OCatch | OErr | ODied.

Definition obs_of (c : oclass) : observed :=
  match c with CVal => OVal | CCatch => OCatch | CErr => OErr | CFatal => ODied end.

Definition observed_eqb (a b : observed) : bool :=
  match a, b with
  | OVal, OVal | OCatch, OCatch | OErr, OErr | ODied, ODied => true
  | _, _ => false
  end.

(* id, fault source, context, "the marked closure ran off the calling goroutine", D, observation *)
Definition c05_case := (N * leafsrc * cname * bool * N * observed)%type.
(* the case files apply this function instead of writing tuples: elaboration is ten times faster *)
Definition c05_mk (id : N) (l : leafsrc) (k : cname) (par : bool) (D : N) (o : observed) : c05_case :=
  (id, l, k, par, D, o).
Definition c05_id (c : c05_case) : N := match c with (id, _, _, _, _, _) => id end.

Definition sched_of (par : bool) : sched := fun id => match id with O => par | _ => false end.

Definition c05_model (c : c05_case) : option observed :=
  match c with
  | (_, l, k, par, D, _) =>
      match leaf_fault l with
      | Some f => Some (obs_of (class code_sites D (sched_of par) (build k f)))
      | None => None
      end
  end.

(* model of the implementation = implementation (cases outside the modelled pool are skipped) *)
Definition c05_im (c : c05_case) : bool :=
  match c with
  | (_, _, _, _, _, o) =>
      match c05_model c with
      | Some m => observed_eqb m o
      | None => true
      end
  end.

(* the property on the observation: the process survived, a try with a constant catch value
   around the program never ends in an error (every fault is catchable), and without a try a fault
   source that is reached ends in an error *)
(* recursion deeper than the guard's 10000 slots must be stopped by the guard *)
Definition guard_must_fire (l : leafsrc) : bool :=
  match l with
  | LFault (FRecThrough _ slots _ depth) | LFault (FRecMixed _ _ slots _ depth) =>
      negb (slots =? 0) && ((guard_limit + 1) / slots <? depth)
  | _ => false
  end.

Definition c05_is (c : c05_case) : bool :=
  match c with
  | (_, l, k, _, _, o) =>
      match o with
      | ODied => false
      | OErr => negb (try_outermost k) && negb (undemanded k)
      | OVal => negb ((no_try k && surely_faulting l) || guard_must_fire l)    (* a fault must not vanish into a (truncated) value *)
      | OCatch => negb (no_try k && surely_faulting l) && negb (undemanded k)
      end
  end.
