(* Executable checkers for the correspondence run of C13 (map representations).
   A case is a history of map operations with, after every step, what every observer of the
   real implementation answered for the value just built.  c13_im replays the history on the
   model of the implementation (Lib/MapLib.v storages), c13_is on the specification side
   (finite maps), and compares every observation.  No proofs are imported here. *)
From P2 Require Import Base.Prelude Lib.MapLib.
Local Open Scope N_scope.

(* ---------------------------------------------------------------- concrete values *)

Inductive val :=
| VI (z : Z)                       (* Int *)
| VF (z : Z)                       (* Float with an integer value (bin limits) *)
| VS (s : str)                     (* String *)
| VM (l : list (str * val)).       (* a nested map literal (ListMap) *)

(* the BoolFunc of value.Equal as Map.Equals receives it (after the repair of the deep equality:
   the element comparison recurses): numbers compare across Int/Float, strings with strings, nested
   maps key-wise (Map.Equals: sizes, then every entry of the receiver looked up in the other map);
   everything else is the error "operation '=' not defined".  Map.Equals hands the other map's
   value first to the element comparison; the outcome does not depend on the direction and the
   model keeps the receiver's value first so that the recursion is structural. *)
Fixpoint veq (a b : val) {struct a} : option bool :=
  match a, b with
  | VI x, VI y | VF x, VF y | VI x, VF y | VF x, VI y => Some (Z.eqb x y)
  | VS x, VS y => Some (str_eqb x y)
  | VM l, VM m =>
      (* Map.Equals on two ListMaps: size check, then all entries, an error wins over false
         (the recursive call is written veq v o for the structural recursion; the Go code calls
         equal(o, v), which has the same outcome - the comparison is symmetric) *)
      if negb (Nat.eqb (length l) (length m)) then Some false else
      (fix go (l : list (str * val)) (eq : bool) : option bool :=
         match l with
         | [] => Some eq
         | (k, v) :: r =>
             match assoc k m with
             | Some o => match veq v o with None => None | Some b => go r (eq && b) end
             | None => go r false
             end
         end) l true
  | _, _ => None
  end.

Fixpoint digits (fuel : nat) (n : N) (acc : str) : str :=
  match fuel with
  | O => acc
  | S f => let acc' := (48 + N.modulo n 10) :: acc in
           let q := N.div n 10 in
           if N.eqb q 0 then acc' else digits f q acc'
  end.
Definition show_Z (z : Z) : str :=
  match z with
  | Z0 => [48]
  | Zpos p => digits 40 (Npos p) []
  | Zneg p => 45 :: digits 40 (Npos p) []
  end.

(* Value.ToString *)
Fixpoint vshow (v : val) : str :=
  match v with
  | VI z => show_Z z
  | VF z => show_Z z
  | VS s => s
  | VM l => [123] ++
            (fix go (first : bool) (l : list (str * val)) : str :=
               match l with
               | [] => []
               | (k, x) :: r => (if first then [] else [44; 32]) ++ k ++ [58] ++ vshow x ++ go false r
               end) true l ++ [125]
  end.

Fixpoint val_eqb (a b : val) {struct a} : bool :=
  match a, b with
  | VI x, VI y => Z.eqb x y
  | VF x, VF y => Z.eqb x y
  | VS x, VS y => str_eqb x y
  | VM l, VM m =>
      (fix go (l m : list (str * val)) : bool :=
         match l, m with
         | [], [] => true
         | (k, x) :: l', (k', y) :: m' => str_eqb k k' && val_eqb x y && go l' m'
         | _, _ => false
         end) l m
  | _, _ => false
  end.

Definition oval_eqb (a b : option val) : bool :=
  match a, b with
  | Some x, Some y => val_eqb x y
  | None, None => true
  | _, _ => false
  end.

Definition ent := list (str * val).

Fixpoint ent_eqb (a b : ent) : bool :=
  match a, b with
  | [], [] => true
  | (k, x) :: a', (k', y) :: b' => str_eqb k k' && val_eqb x y && ent_eqb a' b'
  | _, _ => false
  end.

(* same entries in any order *)
Fixpoint remove_first (k : str) (v : val) (l : ent) : option ent :=
  match l with
  | [] => None
  | (k', v') :: r => if str_eqb k k' && val_eqb v v' then Some r
                     else match remove_first k v r with Some r' => Some ((k', v') :: r') | None => None end
  end.
Fixpoint ent_perm (a b : ent) : bool :=
  match a with
  | [] => match b with [] => true | _ => false end
  | (k, v) :: a' => match remove_first k v b with Some b' => ent_perm a' b' | None => false end
  end.
Definition ent_same (nd : bool) (a b : ent) : bool := if nd then ent_perm a b else ent_eqb a b.

Fixpoint strs_remove (k : str) (l : list str) : option (list str) :=
  match l with
  | [] => None
  | x :: r => if str_eqb k x then Some r else match strs_remove k r with Some r' => Some (x :: r') | None => None end
  end.
Fixpoint strs_perm (a b : list str) : bool :=
  match a with
  | [] => match b with [] => true | _ => false end
  | k :: a' => match strs_remove k b with Some b' => strs_perm a' b' | None => false end
  end.

(* ---------------------------------------------------------------- the history language of the run *)

Inductive mfun := MId | MKey | MConst (v : val).                       (* (k,v)->v | (k,v)->k | (k,v)->c *)
Inductive afun := AAll | ANone | AKeyLt (s : str) | AKeyNe (s : str) | ANotBool.   (* ... | (k,v)->1 : not a bool *)
Inductive cfun := CFst | CSnd | CFail.                                 (* (x,y)->x | (x,y)->y | (x,y)->x.fail : error *)

Inductive rop :=
| RLit (l : ent)
| RReal (l : ent)                                  (* value.RealMap built by the host *)
| RWrap (l : ent)                                  (* NewToMap[..].Attr(..).Create(..) *)
| RFunc (ks : list str) (table : ent)              (* NewFuncMapFactory(fn, ks...).Create(..), fn = lookup in table *)
| RBin (ismin : bool) (vmin : val) (ismax : bool) (vmax : val) (vstr : val)   (* a bin description of list.binning *)
| REmpty                                           (* value.EmptyMap *)
| RPut (h : nat) (k : str) (v : val)
| RMerge (h1 h2 : nat)
| RReplace (h hr : nat)
| REval (h : nat)
| RMap (h : nat) (f : mfun)
| RAccept (h : nat) (p : afun)
| RCombine (h1 h2 : nat) (f : cfun).

Definition mfun_f (f : mfun) : str -> val -> option val :=
  match f with MId => fun _ v => Some v | MKey => fun k _ => Some (VS k) | MConst c => fun _ _ => Some c end.
Definition afun_f (p : afun) : str -> val -> option bool :=
  match p with
  | AAll => fun _ _ => Some true
  | ANone => fun _ _ => Some false
  | AKeyLt s => fun k _ => Some (str_ltb k s)
  | AKeyNe s => fun k _ => Some (negb (str_eqb k s))
  | ANotBool => fun _ _ => None
  end.
Definition cfun_f (f : cfun) : val -> val -> option val :=
  match f with CFst => fun x _ => Some x | CSnd => fun _ y => Some y | CFail => fun _ _ => None end.

Definition to_op (r : rop) : op val :=
  match r with
  | RLit l => OLit l
  | RReal l => OHost (SReal l)
  | RWrap l => OHost (SWrap l)
  | RFunc ks t => OHost (SFunc ks (fun k => assoc k t))
  | RBin a b c d e => OHost (SBin a b c d e)
  | REmpty => OHost SEmpty
  | RPut h k v => OPut h k v
  | RMerge a b => OMerge a b
  | RReplace a b => OReplace a b
  | REval h => OEval h
  | RMap h f => OMap h (mfun_f f)
  | RAccept h p => OAccept h (afun_f p)
  | RCombine a b f => OCombine a b (cfun_f f)
  end.

(* Can the iteration order of the new value depend on the unspecified order of a Go map?
   (then order-sensitive observations are compared modulo permutation) *)
Definition nd_at (nds : list bool) (h : nat) : bool := nth h nds false.
Definition two_or_more {A} (l : list A) : bool := match l with _ :: _ :: _ => true | _ => false end.
Definition nd_step (nds : list bool) (r : rop) (result : option (stor val)) : bool :=
  match r with
  | RLit _ | RFunc _ _ | RBin _ _ _ _ _ | REmpty => false
  | RReal l | RWrap l => two_or_more l
  | RPut h _ _ => nd_at nds h
  | RMerge a b => nd_at nds a || nd_at nds b
  | RReplace a _ => nd_at nds a || match result with Some (SReal l) => two_or_more l | _ => false end
  | REval _ => match result with Some (SReal l) => two_or_more l | _ => false end
  | RMap h _ | RAccept h _ => nd_at nds h
  | RCombine a _ _ => nd_at nds a
  end.

(* ---------------------------------------------------------------- observations *)

(* per probe key: (member access was observed?, m.key, m.get(key), m.isAvail(key), key ~ m) *)
Definition probe := (bool * option val * option val * bool * bool)%type.

Inductive obs :=
| ObErr                                           (* the operation returned an error *)
| ObOk (size : N)                                 (* m.size() *)
       (lst : ent)                                (* m.list() as (key, value) pairs in the order delivered *)
       (raw : str) (order : list str)             (* m.string() and the key order its entries appear in *)
       (probes : list probe)
       (avail_all : bool)                         (* m.isAvail(k1,...,kn) over all probe keys *)
       (mapid : ent) (acceptall : ent)            (* m.map((k,v)->v).list(), m.accept((k,v)->true).list() *)
       (exported : ent)                           (* the (key, value) calls the exporter received *)
       (xjson xxml : list (str * str))            (* export.JSON() / export.XML() of the value, parsed back by
                                                     encoding/json resp. encoding/xml: (key, rendered value) in document order *)
       (eqs : list (nat * option bool * option bool)).   (* earlier handle j: (j, m = j, j = m) *)

(* id, probe keys, the history with the observation of each new value, and - after the whole history -
   every value observed once more (handle, observation): values are persistent, later operations on a
   value (branching histories) must not change what an earlier result shows *)
Definition c13_case := (N * list str * list (rop * obs) * list (nat * obs))%type.
Definition c13_id (c : c13_case) : N := fst (fst (fst c)).
Definition c13_keys (c : c13_case) : list str := snd (fst (fst c)).
Definition c13_steps (c : c13_case) : list (rop * obs) := snd (fst c).
Definition c13_finals (c : c13_case) : list (nat * obs) := snd c.

Fixpoint sent_eqb (a b : list (str * str)) : bool :=
  match a, b with
  | [], [] => true
  | (k, x) :: a', (k', y) :: b' => str_eqb k k' && str_eqb x y && sent_eqb a' b'
  | _, _ => false
  end.

(* what a side (model of the implementation / specification) says about one value *)
Record view := {
  w_size : N; w_list : ent; w_access : str -> option val; w_getm : str -> option val;
  w_avail : list str -> bool; w_contains : str -> bool; w_mapid : option ent; w_acceptall : option ent;
  w_export : ent; w_eq : nat -> option (option bool * option bool) }.

Definition reorder (m : ent) (order : list str) : ent :=
  flat_map (fun k => match assoc k m with Some v => [(k, v)] | None => [] end) order.

Definition obool_eqb (a b : option bool) : bool :=
  match a, b with
  | Some x, Some y => Bool.eqb x y
  | None, None => true
  | _, _ => false
  end.
(* equality answers: since Map.Equals visits all entries the outcome (true / false / error) does not
   depend on the iteration order and is compared exactly on both sides *)
Definition eq_same (nd : bool) (a b : option bool) : bool := obool_eqb a b.

Definition oent_same (nd : bool) (a : option ent) (b : ent) : bool :=
  match a with Some x => ent_same nd x b | None => false end.

Definition check_view (nd : bool) (ndeq : nat -> bool) (ks : list str) (w : view) (o : obs) : bool :=
  match o with
  | ObErr => false
  | ObOk size lst raw order probes avail_all mapid acceptall exported xjson xxml eqs =>
      N.eqb size (w_size w)
      && ent_same nd lst (w_list w)
      && (if nd then strs_perm order (map fst (w_list w)) && str_eqb raw (render val vshow (reorder (w_list w) order))
          else str_eqb raw (render val vshow (w_list w)))
      && Nat.eqb (length probes) (length ks)
      && forallb (fun kp : str * probe => match kp with (k, (tested, acc, g, av, co)) =>
                    (if tested then oval_eqb acc (w_access w k) else true)
                    && oval_eqb g (w_getm w k) && Bool.eqb av (w_avail w [k]) && Bool.eqb co (w_contains w k) end)
                 (List.combine ks probes)
      && Bool.eqb avail_all (w_avail w ks)
      && oent_same nd (w_mapid w) mapid
      && oent_same nd (w_acceptall w) acceptall
      && ent_eqb exported (w_export w)
      && sent_eqb xjson (map (fun kv => (fst kv, vshow (snd kv))) (w_export w))
      && sent_eqb xxml (map (fun kv => (fst kv, vshow (snd kv))) (w_export w))
      && forallb (fun e : nat * option bool * option bool => match e with (j, ab, ba) =>
                    match w_eq w j with
                    | Some (ab', ba') => eq_same (nd || ndeq j) ab ab' && eq_same (nd || ndeq j) ba ba'
                    | None => false
                    end end) eqs
  end.

(* ---------------------------------------------------------------- model of the implementation *)

Definition stor_view (e : env val) (s : stor val) : view := {|
  w_size := N.of_nat (obs_size val s);
  w_list := obs_list val s;
  w_access := obs_access val s;
  w_getm := obs_getm val s;
  w_avail := obs_isavail val s;
  w_contains := obs_contains val s;
  w_mapid := option_map (iter val) (map_m val s (fun _ v => Some v));
  w_acceptall := option_map (iter val) (accept val s (fun _ _ => Some true));
  w_export := obs_export val s;
  w_eq := fun j => match handle val e j with
                   | Some t => Some (equals val veq s t, equals val veq t s)
                   | None => None
                   end |}.

Fixpoint im_loop (ks : list str) (finals : list (nat * obs)) (e : env val) (nds : list bool) (steps : list (rop * obs)) : bool :=
  match steps with
  | [] => forallb (fun ho : nat * obs =>
                     match handle val e (fst ho) with
                     | Some s => check_view (nd_at nds (fst ho)) (nd_at nds) ks (stor_view e s) (snd ho)
                     | None => false
                     end) finals
  | (r, o) :: rest =>
      let res := step val e (to_op r) in
      let nd := nd_step nds r res in
      (match res with
       | None => match o with ObErr => true | _ => false end
       | Some s => check_view nd (nd_at nds) ks (stor_view (e ++ [res]) s) o
       end)
      && im_loop ks finals (e ++ [res]) (nds ++ [nd]) rest
  end.

Definition c13_im (c : c13_case) : bool := im_loop (c13_keys c) (c13_finals c) [] [] (c13_steps c).

(* ---------------------------------------------------------------- specification side: finite maps *)

Fixpoint sorted_insert (kv : str * val) (l : ent) : ent :=
  match l with
  | [] => [kv]
  | x :: r => if str_leb (fst kv) (fst x) then kv :: l else x :: sorted_insert kv r
  end.
Definition sort_ent (l : ent) : ent := fold_right sorted_insert [] l.

(* decision of fm_equal plus the outcome when it does not hold (in list order) *)
Fixpoint fm_equal_loop (a b : ent) (eq : bool) : option bool :=
  match a with
  | [] => Some eq
  | (k, v) :: r => match assoc k b with
                   | Some o => match veq o v with
                               | None => None
                               | Some x => fm_equal_loop r b (eq && x)
                               end
                   | None => fm_equal_loop r b false
                   end
  end.
Definition fm_equal_b (a b : ent) : option bool :=
  if Nat.eqb (length a) (length b) then fm_equal_loop a b true else Some false.

Definition fm_view (e : senv val) (m : ent) : view := {|
  w_size := N.of_nat (length m);
  w_list := m;
  w_access := fun k => assoc k m;
  w_getm := fun k => assoc k m;
  w_avail := fun ks => forallb (fun k => is_some (assoc k m)) ks;
  w_contains := fun k => is_some (assoc k m);
  w_mapid := Some m;
  w_acceptall := Some m;
  w_export := sort_ent m;
  w_eq := fun j => match shandle val e j with
                   | Some t => Some (fm_equal_b m t, fm_equal_b t m)
                   | None => None
                   end |}.

(* The property promises the same key set with the same values, not an order: the specification
   side is compared modulo permutation everywhere (the order fidelity of the model is c13_im's business). *)
Fixpoint is_loop (ks : list str) (finals : list (nat * obs)) (e : senv val) (steps : list (rop * obs)) : bool :=
  match steps with
  | [] => forallb (fun ho : nat * obs =>
                     match shandle val e (fst ho) with
                     | Some m => check_view true (fun _ => true) ks (fm_view e m) (snd ho)
                     | None => false
                     end) finals
  | (r, o) :: rest =>
      let res := sstep val e (to_op r) in
      (match res with
       | None => match o with ObErr => true | _ => false end
       | Some m => check_view true (fun _ => true) ks (fm_view (e ++ [res]) m) o
       end)
      && is_loop ks finals (e ++ [res]) rest
  end.

Definition c13_is (c : c13_case) : bool := is_loop (c13_keys c) (c13_finals c) [] (c13_steps c).
