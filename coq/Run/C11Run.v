(* Executable checkers for the correspondence run of C11 (vm_compute on what the harness observed).

   A case: a program of the modelled fragment (Heap/FuncState.v), the argument tuples of the goroutines that
   evaluated ONE generated function simultaneously, the consumption count of list results, and the observation:
     c_outs    the outcome every goroutine obtained in the first round (constants untouched before)
     c_raced   the race detector reported a data race in some round on this program
     c_wrong   some goroutine of some round obtained an outcome different from its isolated evaluation
     c_frozen  hook: every list object Generate created was materialised with cap = len right after Generate
     c_touch   hook: an isolated evaluation (one of the argument tuples) changed the representation state
               (itemsPresent / len / cap) of a list object Generate had created

   c11_im cp : the model of the implementation agrees: same frozen-ness after Generate, the model's prediction
               "an evaluation writes a shared object" (write log of the isolated runs non-empty) equals the
               hook's observation, a race report or a wrong outcome occurs only where the model predicts a
               write to shared state, and - where nothing went wrong - the observed outcomes are the model's
   c11_is    : the property on the implementation: no race report, no wrong outcome, every goroutine's
               outcome is the specification's outcome for its own arguments *)
From P2 Require Import Base.Prelude Heap.ListHeap Heap.FuncState Heap.Concurrent Run.C10Run.
Local Open Scope nat_scope.

Record c11_obs := CO { c_outs : list outcome; c_raced : bool; c_wrong : bool; c_frozen : bool; c_touch : bool }.

Definition c11_case := (N * prog * list (list Z) * nat * c11_obs)%type.
Definition c11_id (c : c11_case) : N := match c with (i, _, _, _, _) => i end.

Definition generated (cp : caps) (p : prog) : heap * option func := run_iso empty_heap (sc_generate cp p).

Definition model_predicts_write (cp : caps) (h : heap) (F : func) (argss : list (list Z)) (j : nat) : bool :=
  existsb (fun args => negb (match writes_shared cp h F args j with [] => true | _ => false end)) argss.

Definition c11_im (cp : caps) (c : c11_case) : bool :=
  match c with
  | (_, p, argss, j, ob) =>
      body_nofold (p_body p) &&
      match generated cp p with
      | (h, Some F) =>
          let fr := frozenb (nobjs h) h in
          let pw := model_predicts_write cp h F argss j in
          Bool.eqb fr (c_frozen ob) && Bool.eqb pw (c_touch ob) &&
          implb (c_raced ob || c_wrong ob) pw &&
          (c_wrong ob || all2 outcome_eqb (map (fun args => snd (run_iso h (sc_eval cp F args j))) argss) (c_outs ob))
      | _ => false
      end
  end.

Definition c11_is (c : c11_case) : bool :=
  match c with
  | (_, p, argss, j, ob) =>
      negb (c_raced ob) && negb (c_wrong ob) &&
      all2 (fun args o => match sp_prog p args j with Some o' => outcome_eqb o o' | None => false end) argss (c_outs ob)
  end.
