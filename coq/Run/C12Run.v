(* Executable checkers used by the correspondence run of C12 (goroutines left behind, measured in fresh worker
   processes through the runtime's goroutine dump filtered by frames of parser2 / iterator).  Must not import proofs. *)
From P2 Require Import Base.Prelude Lex.Token Lex.Tok Run.C15Run Run.C04Run.
From P2 Require Conc.TokChan Conc.Quiesce.
Local Open Scope N_scope.

Inductive c12_case :=
(* Generate(input) called `calls` times: tokens the parser received (hook), tokens produced, goroutines left after the
   grace period whose stack contains Tokenizer.run *)
| CTok (id : N) (d : c15_cfg) (input : list (list N * N)) (received total calls leaked : N)
(* a pipeline evaluated `calls` times.
   nw = workers of all map/accept stages of the pipeline plus one waiter per further stage (bound per evaluation: nw+1).
   kind 0: no goroutine-starting stage took part (map/accept stayed sequential);
        1: a parallel map/accept stage (iterator.initParallel, nw workers) took part;
        2: merge (two iterator.ToChan producers behind the repaired wrapper); 3: multiUse;
   early = the consumer stopped before the end of the stage's output or an error ended the evaluation;
   left = goroutines of parser2/iterator alive after the grace period; cpu_ms = CPU time the process consumed in the
   300 ms after the grace period *)
| CPipe (id : N) (kind : N) (early : bool) (nw calls lft cpu_ms : N).

Definition c12_id (c : c12_case) : N :=
  match c with CTok id _ _ _ _ _ _ => id | CPipe id _ _ _ _ _ _ => id end.

(* model of the implementation = implementation.  Tokenizer: measured = calls x predicted.  Pipelines: a stopped
   parallel stage leaves between 0 and nw+1 goroutines per evaluation (which workers hold a result when the collector
   returns depends on the schedule: Conc/Quiesce.left_behind); everything else leaves none *)
Definition c12_im (c : c12_case) : bool :=
  match c with
  | CTok _ d isegs received total calls leaked =>
      let input := expand isegs in
      match tokenize_fuel (length input + 2) (cfg_of d) input with
      | Some ts => (N.of_nat (length ts) =? total)
                   && (leaked =? calls * N.of_nat (TokChan.leaked true ts (N.to_nat received)))
      | None => false
      end
  | CPipe _ kind early nw calls lft _ =>
      if (kind =? 1) && early then lft <=? calls * (nw + 1) else lft =? 0
  end.

(* the implementation satisfies the property: nothing is left, and no background CPU work goes on *)
Definition c12_is (c : c12_case) : bool :=
  match c with
  | CTok _ _ _ _ _ _ leaked => leaked =? 0
  | CPipe _ _ _ _ _ lft cpu_ms => (lft =? 0) && (cpu_ms <=? 200)
  end.
