(* Text-to-AST condition of the C01 run: for a generated program the harness ships the tokens the real tokenizer
   delivered for its text and the AST the real parser built (optimizer off), dumped as a Sem/Syntax.v term as for
   the rest of the C01 run.  Checked here: the parser model (Syn/Parse.v) on these tokens with the identifier
   chain of Generate(exp, argnames...) gives an AST whose lowering (Syn/Lower.v) IS the dumped one.
   This ties  tokens -> Syn AST -> Sem AST  to the implementation; imports no proofs. *)
From P2 Require Import Base.Prelude Lex.Token Sem.Num Sem.Syntax Syn.Lower.
From P2 Require Syn.Ast Syn.Parse.
Local Open Scope N_scope.

Definition fl_same (a b : fl) : bool :=
  match a, b with
  | FFin m e, FFin m' e' => (m =? m')%Z && (e =? e')%Z
  | FNegZero, FNegZero => true
  | FInf x, FInf y => Bool.eqb x y
  | FNaN, FNaN => true
  | _, _ => false
  end.

(* constants the parser can produce: numbers, strings, bools *)
Definition cval_eqb (a b : value) : bool :=
  match a, b with
  | VInt x, VInt y => (x =? y)%Z
  | VFloat x, VFloat y => fl_same x y
  | VStr x, VStr y => str_eqb x y
  | VBool x, VBool y => Bool.eqb x y
  | _, _ => false
  end.

Fixpoint names_eqb (a b : list str) : bool :=
  match a, b with
  | [], [] => true
  | x :: a', y :: b' => str_eqb x y && names_eqb a' b'
  | _, _ => false
  end.

Fixpoint sast_eqb (x y : ast) {struct x} : bool :=
  let fix lst (l m : list ast) : bool :=
    match l, m with
    | [], [] => true
    | a :: l', b :: m' => sast_eqb a b && lst l' m'
    | _, _ => false
    end in
  match x, y with
  | AConst v, AConst w => cval_eqb v w
  | AIdent a, AIdent b => str_eqb a b
  | ALet n v b, ALet n' v' b' => str_eqb n n' && sast_eqb v v' && sast_eqb b b'
  | AIf c t e, AIf c' t' e' => sast_eqb c c' && sast_eqb t t' && sast_eqb e e'
  | ASwitch v cs d, ASwitch v' cs' d' =>
      sast_eqb v v' &&
      (fix go (l m : list (ast * ast)) : bool :=
         match l, m with
         | [], [] => true
         | (a, b) :: l', (a', b') :: m' => sast_eqb a a' && sast_eqb b b' && go l' m'
         | _, _ => false
         end) cs cs' && sast_eqb d d'
  | ATry t c, ATry t' c' => sast_eqb t t' && sast_eqb c c'
  | AUnary o a, AUnary o' a' => str_eqb o o' && sast_eqb a a'
  | AOp o a b, AOp o' a' b' => str_eqb o o' && sast_eqb a a' && sast_eqb b b'
  | AClosure ps b o r t, AClosure ps' b' o' r' t' =>
      names_eqb ps ps' && sast_eqb b b' && names_eqb o o' && Bool.eqb r r' && str_eqb t t'
  | AList l, AList l' => lst l l'
  | AIndex l i, AIndex l' i' => sast_eqb l l' && sast_eqb i i'
  | AMap es, AMap es' =>
      (fix go (l m : list (name * ast)) : bool :=
         match l, m with
         | [], [] => true
         | (k, a) :: l', (k', a') :: m' => str_eqb k k' && sast_eqb a a' && go l' m'
         | _, _ => false
         end) es es'
  | AMember m k, AMember m' k' => sast_eqb m m' && str_eqb k k'
  | ACall f a, ACall f' a' => sast_eqb f f' && lst a a'
  | AStatic f a, AStatic f' a' => str_eqb f f' && lst a a'
  | AMethod r n a, AMethod r' n' a' => sast_eqb r r' && str_eqb n n' && lst a a'
  | _, _ => false
  end.

(* id, argument names, tokens (type number, image), the implementation's AST (None: the parser rejected the text) *)
Definition c01t_case := (N * list str * list (N * str) * option ast)%type.
Definition c01t_id (c : c01t_case) : N := fst (fst (fst c)).

Definition toks_of (l : list (N * str)) : list P2.Syn.Parse.tk := map (fun p => (ttype_of_N (fst p), snd p)) l.

(* 0 = agrees, 1 = disagrees, 2 = outside the model (a literal Syn/Lower.v does not translate) *)
Definition c01t_verdict (c : c01t_case) : N :=
  let '(_, names, toks, A) := c in
  match P2.Syn.Parse.parse value_pcfg (value_ids names) (toks_of toks) with
  | P2.Syn.Parse.POk x =>
      match lower x, A with
      | Some a, Some a' => if sast_eqb a a' then 0 else 1
      | Some _, None => 1
      | None, _ => 2
      end
  | P2.Syn.Parse.PErr => match A with None => 0 | Some _ => 1 end
  | _ => 1
  end.

Definition c01t_im (c : c01t_case) : bool := negb (c01t_verdict c =? 1).
Definition c01t_is (c : c01t_case) : bool := true.

Definition c01t_stats (cases : list c01t_case) : list N :=
  [N.of_nat (length (filter (fun c => c01t_verdict c =? 0) cases));
   N.of_nat (length (filter (fun c => c01t_verdict c =? 2) cases))].
